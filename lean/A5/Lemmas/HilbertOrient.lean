import A5.Lemmas.HilbertDigits
import A5.Lemmas.HilbertLocate
/-! # Orientation wrappers of the Hilbert walk: `sToAnchor` / `ijToS`

`sToAnchor s n o` = optional reversal of `s`, the internal walk, the `flipIJ` stage (swap + `FLIP_SHIFT`
compensation) and the `invertJ` stage (`j ↦ 2^n - (i+j)`, `flips.1 ↦ -flips.1`).
`ijToS x y n o` = prologue (swap if `flipIJ`, then `y ↦ 2^n - (x+y)` if `invertJ`), the internal inverse
walk, optional reversal.  This file shows that the two fit together: the lattice triangle
`anchorTri a = offset + T(flips)` of the FINAL anchor is mapped by the prologue into the triangle of the
internal anchor (same table `InT` in all six orientations), hence locating any point of it returns `s`.

Remark (recorded as `flags_exclusive`): the stage order of `sToAnchor` (flip, then invert) and of the
prologue of `ijToS` (swap, then invert) are only compatible because no orientation sets both `flipIJ` and
`invertJ`; this is checked on the generated flag sets. -/
set_option linter.unusedSectionVars false
namespace A5
open A5.HilbertLocate

/-! ## orientation flags -/

theorem flags_agree : ∀ o, o < 6 →
    Gen.IJ2S_REVERSE_SET.contains o = oriReverse o ∧ Gen.IJ2S_INVERT_J_SET.contains o = oriInvertJ o ∧
      Gen.IJ2S_FLIP_IJ_SET.contains o = oriFlipIJ o := by decide

theorem flags_exclusive : ∀ o, o < 6 → ¬(oriFlipIJ o = true ∧ oriInvertJ o = true) := by decide

theorem FLIP_SHIFT_eq : Gen.FLIP_SHIFT = (-1, 1) := by decide

/-! ## `sToAnchor` in stages -/

def flipStage (a : Anchor) : Anchor :=
  let off : Int × Int := (a.offset.2, a.offset.1)
  let off := if a.flips.1 == Gen.YES then (off.1 + Gen.FLIP_SHIFT.1, off.2 + Gen.FLIP_SHIFT.2) else off
  let off := if a.flips.2 == Gen.YES then (off.1 - Gen.FLIP_SHIFT.1, off.2 - Gen.FLIP_SHIFT.2) else off
  { a with offset := off }

def invertStage (n : Nat) (a : Anchor) : Anchor :=
  { a with flips := (-a.flips.1, a.flips.2),
           offset := (a.offset.1, (2 ^ n : Int) - (a.offset.1 + a.offset.2)) }

/-- curve position after the optional reversal -/
def adjustS (rev : Bool) (n s : Nat) : Nat := if rev then 4 ^ n - s - 1 else s

def finalAnchor (s n : Nat) (invertJ flipIJ : Bool) : Anchor :=
  let a := sToAnchorInternal s n invertJ flipIJ
  let a := if flipIJ then flipStage a else a
  if invertJ then invertStage n a else a

theorem adjustS_lt (rev : Bool) (n s : Nat) (hs : s < 4 ^ n) : adjustS rev n s < 4 ^ n := by
  unfold adjustS; split <;> omega

theorem adjustS_adjustS (rev : Bool) (n s : Nat) (hs : s < 4 ^ n) : adjustS rev n (adjustS rev n s) = s := by
  unfold adjustS; split <;> omega

/-- `sToAnchor` never panics for `n ≤ 30` on positions `< 4^n`, and is the staged anchor -/
theorem sToAnchor_eq (s n o : Nat) (hn : n ≤ 30) (hs : s < 4 ^ n) :
    sToAnchor s n o = .ok (finalAnchor (adjustS (oriReverse o) n s) n (oriInvertJ o) (oriFlipIJ o)) := by
  unfold sToAnchor finalAnchor adjustS
  cases oriReverse o <;> cases oriFlipIJ o <;> cases oriInvertJ o <;>
    simp only [if_true, if_false, Bool.false_eq_true, Outcome.bind_ok, ge_iff_le,
      if_neg (by omega : ¬ 64 ≤ 2 * n), if_neg (by omega : ¬ 4 ^ n < s + 1), if_neg (by omega : ¬ 31 ≤ n), gt_iff_lt] <;> rfl

/-! ## `ijToS` at an arbitrary scalar type -/

section generic
variable {α : Type} [Add α] [Sub α] [Mul α] [Neg α] [LT α] [DecidableLT α]

theorem ijToQuaternary_lt (L : Lits α) (u v : α) (F : Int × Int) : ijToQuaternary L u v F < 4 := by
  unfold ijToQuaternary
  simp only []
  split_ifs <;> decide

theorem locateDigits_lt4 (L : Lits α) (x y : α) (n : Nat) (pivot : α × α) (F : Int × Int) (acc : List Nat)
    (hacc : ∀ d ∈ acc, d < 4) : ∀ d ∈ (locateDigits L x y n pivot F acc).1, d < 4 := by
  induction n generalizing pivot F acc with
  | zero => exact hacc
  | succ i ih =>
    unfold locateDigits
    simp only []
    apply ih
    intro d hd
    rcases List.mem_cons.1 hd with rfl | h
    · exact ijToQuaternary_lt ..
    · exact hacc d h

/-- the inverse walk always returns a position `< 4^n`, at every scalar type -/
theorem ijToSInternal_lt (L : Lits α) (x y : α) (invertJ flipIJ : Bool) (n : Nat) :
    ijToSInternal L x y invertJ flipIJ n < 4 ^ n := by
  rewrite [ijToSInternal_eq]
  have hl := locateDigits_length L x y n
  have h4 := locateDigits_lt4 L x y n (L.ofInt 0, L.ofInt 0) (Gen.NO, Gen.NO) [] (by simp)
  obtain ⟨ul, ult⟩ := shiftUp_dig4 (isPerm8_hilbertPattern flipIJ) invertJ n _ hl h4
    (flipsProd (locateDigits L x y n (L.ofInt 0, L.ofInt 0) (Gen.NO, Gen.NO) []).1)
  have := digitsValue_lt _ ult
  rewrite [ul] at this
  exact this

/-- the point handed to `ijToSInternal` by the prologue of `ijToS` -/
def prologue (L : Lits α) (x y : α) (n : Nat) (invertJ flipIJ : Bool) : α × α :=
  let p := if flipIJ then (y, x) else (x, y)
  if invertJ then (p.1, L.ofInt (2 ^ n) - (p.1 + p.2)) else p

/-- `ijToS` never panics for `n ≤ 30` (at any scalar type) and is prologue, inverse walk, optional reversal -/
theorem ijToS_eq (L : Lits α) (x y : α) (n o : Nat) (hn : n ≤ 30) (ho : o < 6) :
    ijToS L x y n o = .ok (adjustS (oriReverse o) n
      (ijToSInternal L (prologue L x y n (oriInvertJ o) (oriFlipIJ o)).1
        (prologue L x y n (oriInvertJ o) (oriFlipIJ o)).2 (oriInvertJ o) (oriFlipIJ o) n)) := by
  obtain ⟨f1, f2, f3⟩ := flags_agree o ho
  unfold ijToS prologue adjustS
  rewrite [f1, f2, f3]
  cases oriReverse o <;> cases oriFlipIJ o <;> cases oriInvertJ o <;>
    simp only [if_true, if_false, Bool.false_eq_true, Outcome.bind_ok, ge_iff_le, gt_iff_lt,
      if_neg (by omega : ¬ 64 ≤ 2 * n), if_neg (by omega : ¬ 31 ≤ n)]
  all_goals first
    | rfl
    | (rewrite [if_neg (Nat.not_lt.2 (ijToSInternal_lt ..))]; rfl)

/-- every `.ok` result of `ijToS` is a position `< 4^n` (no hypothesis on `n`, `o` or the scalar type) -/
theorem ijToS_lt (L : Lits α) (x y : α) (n o s : Nat) (h : ijToS L x y n o = .ok s) : s < 4 ^ n := by
  unfold ijToS at h
  have key : ∀ x' y' : α, ∀ b1 b2 : Bool, ijToSInternal L x' y' b1 b2 n < 4 ^ n := fun _ _ _ _ => ijToSInternal_lt ..
  have hp : 0 < 4 ^ n := Nat.lt_of_le_of_lt (Nat.zero_le _) (key x y true true)
  generalize Gen.IJ2S_REVERSE_SET.contains o = r at h
  generalize Gen.IJ2S_FLIP_IJ_SET.contains o = f at h
  generalize Gen.IJ2S_INVERT_J_SET.contains o = i at h
  cases r <;> cases f <;> cases i <;>
    simp only [if_true, if_false, Bool.false_eq_true, Outcome.bind_ok] at h
  all_goals (try split_ifs at h)
  all_goals (try simp only [Outcome.bind_ok, Outcome.bind_panic, reduceCtorEq] at h)
  all_goals (try split_ifs at h)
  all_goals first
    | (cases h; exact key _ _ _ _)
    | (cases h; omega)
end generic

/-! ## geometry of the two stages -/

section field
variable {K : Type} [Field K] [LinearOrder K] [IsStrictOrderedRing K]

def anchorTri (a : Anchor) (x y : K) : Prop := InT a.flips (x - (a.offset.1 : K)) (y - (a.offset.2 : K))

theorem flipStage_tri (a : Anchor) (hF : IsFlip a.flips) (x y : K) (h : anchorTri (flipStage a) x y) :
    anchorTri a y x := by
  obtain ⟨k, ⟨oi, oj⟩, fl⟩ := a
  change IsFlip fl at hF
  rcases hF with rfl | rfl | rfl | rfl <;>
    simp [anchorTri, flipStage, yes_eq, FLIP_SHIFT_eq, inT_pp, inT_pm, inT_mp, inT_mm] at h ⊢
  all_goals (refine ⟨?_, ?_, ?_⟩ <;> try refine ⟨?_, ?_, ?_⟩)
  all_goals linarith

theorem invertStage_tri (n : Nat) (a : Anchor) (hF : IsFlip a.flips) (x y : K) (h : anchorTri (invertStage n a) x y) :
    anchorTri a x (((2 ^ n : Int) : K) - (x + y)) := by
  obtain ⟨k, ⟨oi, oj⟩, fl⟩ := a
  change IsFlip fl at hF
  rcases hF with rfl | rfl | rfl | rfl <;>
    simp [anchorTri, invertStage, inT_pp, inT_pm, inT_mp, inT_mm] at h ⊢
  all_goals (refine ⟨?_, ?_, ?_⟩ <;> try refine ⟨?_, ?_, ?_⟩)
  all_goals linarith

theorem flipStage_isFlip (a : Anchor) (hF : IsFlip a.flips) : IsFlip (flipStage a).flips := hF
theorem invertStage_isFlip (n : Nat) (a : Anchor) (hF : IsFlip a.flips) : IsFlip (invertStage n a).flips := by
  obtain ⟨k, off, fl⟩ := a
  change IsFlip fl at hF
  rcases hF with rfl | rfl | rfl | rfl <;> simp [IsFlip, invertStage]

/-! ## the internal walks -/

theorem internal_isFlip (s n : Nat) (invertJ flipIJ : Bool) (hs : s < 4 ^ n) :
    IsFlip (sToAnchorInternal s n invertJ flipIJ).flips := by
  rewrite [sToAnchorInternal_eq s n invertJ flipIJ hs]
  exact accumOffset_isFlip n _ (shiftedDigits_spec s n invertJ flipIJ).2

/-- locating any point of the triangle of the internal anchor of position `s` returns `s` -/
theorem internal_locate (s n : Nat) (invertJ flipIJ : Bool) (hs : s < 4 ^ n) (x y : K)
    (h : anchorTri (sToAnchorInternal s n invertJ flipIJ) x y) :
    ijToSInternal fieldLits x y invertJ flipIJ n = s := by
  rewrite [sToAnchorInternal_eq s n invertJ flipIJ hs] at h
  obtain ⟨hl, hd⟩ := shiftedDigits_spec s n invertJ flipIJ
  have := locate_of_inTri' n _ hl hd x y h
  exact ijToSInternal_roundtrip fieldLits x y invertJ flipIJ n s hs (by rewrite [this]; rfl)

/-- the triangle of the internal anchor lies in the quintant triangle -/
theorem internal_in_quintant (s n : Nat) (invertJ flipIJ : Bool) (hs : s < 4 ^ n) (x y : K)
    (h : anchorTri (sToAnchorInternal s n invertJ flipIJ) x y) : 0 < x ∧ 0 < y ∧ x + y < 2 ^ n := by
  rewrite [sToAnchorInternal_eq s n invertJ flipIJ hs] at h
  exact anchor_triangle_in_quintant n _ (shiftedDigits_spec s n invertJ flipIJ).2 x y h

/-! ## the final anchor -/

theorem finalAnchor_isFlip (s n : Nat) (invertJ flipIJ : Bool) (hs : s < 4 ^ n) :
    IsFlip (finalAnchor s n invertJ flipIJ).flips := by
  have h0 := internal_isFlip s n invertJ flipIJ hs
  unfold finalAnchor
  cases flipIJ <;> cases invertJ <;> simp only [if_true, if_false, Bool.false_eq_true]
  · exact h0
  · exact invertStage_isFlip n _ h0
  · exact h0
  · exact invertStage_isFlip n _ h0

/-- the prologue of `ijToS` maps the triangle of the final anchor into the triangle of the internal anchor -/
theorem finalAnchor_prologue (s n : Nat) (invertJ flipIJ : Bool) (hs : s < 4 ^ n)
    (hex : ¬(flipIJ = true ∧ invertJ = true)) (x y : K) (h : anchorTri (finalAnchor s n invertJ flipIJ) x y) :
    anchorTri (sToAnchorInternal s n invertJ flipIJ) (prologue fieldLits x y n invertJ flipIJ).1
      (prologue fieldLits x y n invertJ flipIJ).2 := by
  have h0 := internal_isFlip s n invertJ flipIJ hs
  unfold finalAnchor at h
  unfold prologue
  cases flipIJ <;> cases invertJ <;> simp only [if_true, if_false, Bool.false_eq_true] at h ⊢
  · exact h
  · exact invertStage_tri n _ h0 x y h
  · exact flipStage_tri _ h0 x y h
  · exact absurd ⟨rfl, rfl⟩ hex

theorem finalAnchor_locate (s n : Nat) (invertJ flipIJ : Bool) (hs : s < 4 ^ n)
    (hex : ¬(flipIJ = true ∧ invertJ = true)) (x y : K) (h : anchorTri (finalAnchor s n invertJ flipIJ) x y) :
    ijToSInternal fieldLits (prologue fieldLits x y n invertJ flipIJ).1
      (prologue fieldLits x y n invertJ flipIJ).2 invertJ flipIJ n = s :=
  internal_locate s n invertJ flipIJ hs _ _ (finalAnchor_prologue s n invertJ flipIJ hs hex x y h)

/-- the triangle of the final anchor lies in the quintant triangle `{x > 0, y > 0, x + y < 2^n}` (which is
invariant under both prologue transforms) -/
theorem finalAnchor_in_quintant (s n : Nat) (invertJ flipIJ : Bool) (hs : s < 4 ^ n)
    (hex : ¬(flipIJ = true ∧ invertJ = true)) (x y : K) (h : anchorTri (finalAnchor s n invertJ flipIJ) x y) :
    0 < x ∧ 0 < y ∧ x + y < 2 ^ n := by
  have hq := internal_in_quintant s n invertJ flipIJ hs _ _ (finalAnchor_prologue s n invertJ flipIJ hs hex x y h)
  unfold prologue at hq
  have e : (fieldLits : Lits K).ofInt (2 ^ n) = (2 : K) ^ n := by simp [fieldLits]
  cases flipIJ <;> cases invertJ <;> simp only [if_true, if_false, Bool.false_eq_true, e] at hq
  · exact hq
  · obtain ⟨a, b, c⟩ := hq
    exact ⟨a, by linarith, by linarith⟩
  · obtain ⟨a, b, c⟩ := hq
    exact ⟨b, a, by linarith⟩
  · exact absurd ⟨rfl, rfl⟩ hex

/-- an explicit point of the triangle of an anchor with `±1` flips -/
theorem anchorTri_nonempty (a : Anchor) (hF : IsFlip a.flips) :
    anchorTri a ((a.offset.1 : K) + (interiorPt a.flips).1) ((a.offset.2 : K) + (interiorPt a.flips).2) :=
  InT_congr (by ring) (by ring) (interiorPt_inT a.flips hF)

theorem anchorTri_congr {a b : Anchor} (ho : a.offset = b.offset) (hf : a.flips = b.flips) (x y : K)
    (h : anchorTri a x y) : anchorTri b x y := by
  unfold anchorTri at h ⊢
  rewrite [← ho, ← hf]; exact h

end field

/-- distinct positions have distinct final anchors: already `(offset, flips)` differ -/
theorem finalAnchor_injective (n : Nat) (invertJ flipIJ : Bool) (hex : ¬(flipIJ = true ∧ invertJ = true))
    (s t : Nat) (hs : s < 4 ^ n) (ht : t < 4 ^ n)
    (ho : (finalAnchor s n invertJ flipIJ).offset = (finalAnchor t n invertJ flipIJ).offset)
    (hf : (finalAnchor s n invertJ flipIJ).flips = (finalAnchor t n invertJ flipIJ).flips) : s = t := by
  have hp := anchorTri_nonempty (K := ℚ) _ (finalAnchor_isFlip s n invertJ flipIJ hs)
  have e1 := finalAnchor_locate s n invertJ flipIJ hs hex _ _ hp
  have e2 := finalAnchor_locate t n invertJ flipIJ ht hex _ _ (anchorTri_congr ho hf _ _ hp)
  exact e1.symm.trans e2

/-! ## the public functions -/

section field
variable (K : Type) [Field K] [LinearOrder K] [IsStrictOrderedRing K]

/-- MAIN: for `n ≤ 30`, every orientation and every position `s < 4^n`, `sToAnchor` succeeds, its flips are a
`±1` pair, and `ijToS` of ANY point strictly inside the anchor's lattice triangle returns `s`. -/
theorem locate_anchor (n o s : Nat) (hn : n ≤ 30) (ho : o < 6) (hs : s < 4 ^ n) :
    ∃ a, sToAnchor s n o = .ok a ∧ IsFlip a.flips ∧
      ∀ x y : K, anchorTri a x y → ijToS fieldLits x y n o = .ok s := by
  have ha := adjustS_lt (oriReverse o) n s hs
  refine ⟨_, sToAnchor_eq s n o hn hs, finalAnchor_isFlip _ n _ _ ha, fun x y h => ?_⟩
  rewrite [ijToS_eq fieldLits x y n o hn ho,
    finalAnchor_locate _ n _ _ ha (fun hh => flags_exclusive o ho hh) x y h, adjustS_adjustS _ n s hs]
  rfl

/-- the anchor triangles lie in the quintant triangle -/
theorem anchor_in_quintant (n o s : Nat) (hn : n ≤ 30) (ho : o < 6) (hs : s < 4 ^ n) (a : Anchor)
    (ha : sToAnchor s n o = .ok a) (x y : K) (h : anchorTri a x y) : 0 < x ∧ 0 < y ∧ x + y < 2 ^ n := by
  rewrite [sToAnchor_eq s n o hn hs] at ha
  cases Outcome.ok.inj ha
  exact finalAnchor_in_quintant _ n _ _ (adjustS_lt (oriReverse o) n s hs) (fun hh => flags_exclusive o ho hh) x y h

end field

/-- distinct positions give distinct anchors -/
theorem anchor_injective (n o s t : Nat) (hn : n ≤ 30) (ho : o < 6) (hs : s < 4 ^ n) (ht : t < 4 ^ n)
    (a b : Anchor) (ha : sToAnchor s n o = .ok a) (hb : sToAnchor t n o = .ok b)
    (hoff : a.offset = b.offset) (hfl : a.flips = b.flips) : s = t := by
  rewrite [sToAnchor_eq s n o hn hs] at ha
  rewrite [sToAnchor_eq t n o hn ht] at hb
  cases Outcome.ok.inj ha
  cases Outcome.ok.inj hb
  have := finalAnchor_injective n _ _ (fun hh => flags_exclusive o ho hh) _ _
    (adjustS_lt (oriReverse o) n s hs) (adjustS_lt (oriReverse o) n t ht) hoff hfl
  have e := congrArg (adjustS (oriReverse o) n) this
  rewrite [adjustS_adjustS _ n s hs, adjustS_adjustS _ n t ht] at e
  exact e


/-! ## tiling: every off-lattice point of the quintant triangle lies in some anchor triangle -/

theorem getD_append_lt (l l' : List Nat) (i : Nat) (h : i < l.length) : (l ++ l').getD i 0 = l.getD i 0 := by
  simp [List.getD_eq_getElem?_getD, List.getElem?_append_left h]
theorem getD_append_length (l : List Nat) (d : Nat) : (l ++ [d]).getD l.length 0 = d := by
  simp [List.getD_eq_getElem?_getD]

theorem accumOffset_congr (ds ds' : List Nat) : ∀ (m : Nat) (off F : Int × Int),
    (∀ i, i < m → ds.getD i 0 = ds'.getD i 0) → accumOffset m ds off F = accumOffset m ds' off F := by
  intro m
  induction m with
  | zero => intro off F _; rfl
  | succ m ih =>
    intro off F h
    rewrite [accumOffset_succ, accumOffset_succ, h m (by omega)]
    exact ih _ _ (fun i hi => h i (by omega))

theorem anchorOf_congr (ds ds' : List Nat) (m : Nat) (F : Int × Int)
    (h : ∀ i, i < m → ds.getD i 0 = ds'.getD i 0) : anchorOf m ds F = anchorOf m ds' F := by
  unfold anchorOf
  rewrite [accumOffset_congr ds ds' m _ _ h]; rfl

section field
variable {K : Type} [Field K] [LinearOrder K] [IsStrictOrderedRing K]

/-- `(x, y)` is on no lattice line `x = z`, `y = z`, `x + y = z` (`z` an integer) -/
def OffLattice (x y : K) : Prop := ∀ z : Int, x ≠ (z : K) ∧ y ≠ (z : K) ∧ x + y ≠ (z : K)

/-- completeness of the recursive subdivision: a point of `p + 2^m·T(F)` (with `p` a lattice point) that is on
no lattice line lies in the anchor triangle of some list of `m` digits -/
theorem tiling_aux (x y : K) (hoff : OffLattice x y) : ∀ (m : Nat) (F : Int × Int), IsFlip F → ∀ (p : Int × Int),
    InT F ((x - (p.1 : K)) * (1 / 2 ^ m)) ((y - (p.2 : K)) * (1 / 2 ^ m)) →
    ∃ new : List Nat, new.length = m ∧ (∀ d ∈ new, d < 4) ∧
      InT (anchorOf m new F).2 (x - (p.1 : K) - ((anchorOf m new F).1.1 : K))
        (y - (p.2 : K) - ((anchorOf m new F).1.2 : K)) := by
  intro m
  induction m with
  | zero =>
    intro F _ p h
    refine ⟨[], rfl, by simp, ?_⟩
    rewrite [anchorOf_zero]
    exact InT_congr (by simp) (by simp) h
  | succ m ih =>
    intro F hF p h
    have hp : (2 : K) ^ m ≠ 0 := pow_ne_zero _ two_ne_zero
    have hin : InT F ((x - (p.1 : K)) * (1 / 2 ^ m) * (1 / 2)) ((y - (p.2 : K)) * (1 / 2 ^ m) * (1 / 2)) :=
      InT_congr (by rw [pow_succ]; field_simp) (by rw [pow_succ]; field_simp) h
    have h1 : (x - (p.1 : K)) * (1 / 2 ^ m) + (y - (p.2 : K)) * (1 / 2 ^ m) ≠ (F.1 : K) := by
      intro hc
      apply (hoff (p.1 + p.2 + F.1 * 2 ^ m)).2.2
      field_simp at hc
      push_cast
      linarith
    have h2 : (x - (p.1 : K)) * (1 / 2 ^ m) ≠ (F.2 : K) := by
      intro hc
      apply (hoff (p.1 + F.2 * 2 ^ m)).1
      field_simp at hc
      push_cast
      linarith
    have h3 : (y - (p.2 : K)) * (1 / 2 ^ m) ≠ (F.1 : K) := by
      intro hc
      apply (hoff (p.2 + F.1 * 2 ^ m)).2.1
      field_simp at hc
      push_cast
      linarith
    obtain ⟨hd, hT⟩ := subdivision_complete F hF _ _ hin h1 h2 h3
    generalize ijToQuaternary fieldLits ((x - (p.1 : K)) * (1 / 2 ^ m)) ((y - (p.2 : K)) * (1 / 2 ^ m)) F = d at hd hT
    obtain ⟨new', hl, h4, hI⟩ := ih (nextF d F) (isFlip_nextF d hd F hF)
      (p.1 + (childIJ d F).1 * 2 ^ m, p.2 + (childIJ d F).2 * 2 ^ m)
      (InT_congr (by push_cast; field_simp; ring) (by push_cast; field_simp; ring) hT)
    have hg : (new' ++ [d]).getD m 0 = d := by
      have := getD_append_length new' d
      rewrite [hl] at this
      exact this
    have hc : anchorOf m (new' ++ [d]) (nextF d F) = anchorOf m new' (nextF d F) :=
      anchorOf_congr _ _ m _ (fun i hi => getD_append_lt _ _ i (by omega))
    refine ⟨new' ++ [d], by rewrite [List.length_append, hl]; rfl, ?_, ?_⟩
    · intro e he
      rcases List.mem_append.1 he with h | h
      · exact h4 e h
      · rewrite [List.mem_singleton.1 h]; exact hd
    · rewrite [anchorOf_succ, hg, hc]
      dsimp only
      exact InT_congr (by push_cast; ring) (by push_cast; ring) hI

theorem flipStage_tri_conv (a : Anchor) (hF : IsFlip a.flips) (x y : K) (h : anchorTri a y x) :
    anchorTri (flipStage a) x y := by
  obtain ⟨k, ⟨oi, oj⟩, fl⟩ := a
  change IsFlip fl at hF
  rcases hF with rfl | rfl | rfl | rfl <;>
    simp [anchorTri, flipStage, yes_eq, FLIP_SHIFT_eq, inT_pp, inT_pm, inT_mp, inT_mm] at h ⊢
  all_goals (refine ⟨?_, ?_, ?_⟩ <;> try refine ⟨?_, ?_, ?_⟩)
  all_goals linarith

theorem invertStage_tri_conv (n : Nat) (a : Anchor) (hF : IsFlip a.flips) (x y : K)
    (h : anchorTri a x (((2 ^ n : Int) : K) - (x + y))) : anchorTri (invertStage n a) x y := by
  obtain ⟨k, ⟨oi, oj⟩, fl⟩ := a
  change IsFlip fl at hF
  rcases hF with rfl | rfl | rfl | rfl <;>
    simp [anchorTri, invertStage, inT_pp, inT_pm, inT_mp, inT_mm] at h ⊢
  all_goals (refine ⟨?_, ?_, ?_⟩ <;> try refine ⟨?_, ?_, ?_⟩)
  all_goals linarith

/-- converse of `finalAnchor_prologue` -/
theorem finalAnchor_prologue_conv (s n : Nat) (invertJ flipIJ : Bool) (hs : s < 4 ^ n)
    (hex : ¬(flipIJ = true ∧ invertJ = true)) (x y : K)
    (h : anchorTri (sToAnchorInternal s n invertJ flipIJ) (prologue fieldLits x y n invertJ flipIJ).1
      (prologue fieldLits x y n invertJ flipIJ).2) : anchorTri (finalAnchor s n invertJ flipIJ) x y := by
  have h0 := internal_isFlip s n invertJ flipIJ hs
  unfold finalAnchor
  unfold prologue at h
  cases flipIJ <;> cases invertJ <;> simp only [if_true, if_false, Bool.false_eq_true] at h ⊢
  · exact h
  · exact invertStage_tri_conv n _ h0 x y h
  · exact flipStage_tri_conv _ h0 x y h
  · exact absurd ⟨rfl, rfl⟩ hex

/-- every point of the quintant triangle that is on no lattice line lies in the triangle of the internal anchor
of some position `s < 4^n` -/
theorem internal_onto (n : Nat) (invertJ flipIJ : Bool) (x y : K)
    (hq : 0 < x ∧ 0 < y ∧ x + y < 2 ^ n) (hoff : OffLattice x y) :
    ∃ s, s < 4 ^ n ∧ anchorTri (sToAnchorInternal s n invertJ flipIJ) x y := by
  obtain ⟨q1, q2, q3⟩ := hq
  have hp : (0 : K) < 2 ^ n := by positivity
  have hin : InT (1, 1) ((x - ((0 : Int) : K)) * (1 / 2 ^ n)) ((y - ((0 : Int) : K)) * (1 / 2 ^ n)) := by
    rewrite [inT_pp]
    simp only [Int.cast_zero, sub_zero]
    refine ⟨by positivity, by positivity, ?_⟩
    rewrite [← add_mul, mul_one_div, div_lt_one hp]
    exact q3
  obtain ⟨ds, hl, h4, hT⟩ := tiling_aux x y hoff n (1, 1) (Or.inl rfl) (0, 0) hin
  obtain ⟨s, hs, hsd⟩ := shiftedDigits_surjective n invertJ flipIJ ds hl h4
  refine ⟨s, hs, ?_⟩
  rewrite [sToAnchorInternal_eq s n invertJ flipIJ hs, hsd]
  unfold anchorTri
  rewrite [start_eq]
  exact InT_congr (by simp [anchorOf]) (by simp [anchorOf]) hT

/-- every point of the quintant triangle that is on no lattice line lies in the triangle of the final anchor of
some position `s < 4^n` -/
theorem finalAnchor_onto (n : Nat) (invertJ flipIJ : Bool) (hex : ¬(flipIJ = true ∧ invertJ = true)) (x y : K)
    (hq : 0 < x ∧ 0 < y ∧ x + y < 2 ^ n) (hoff : OffLattice x y) :
    ∃ s, s < 4 ^ n ∧ anchorTri (finalAnchor s n invertJ flipIJ) x y := by
  obtain ⟨q1, q2, q3⟩ := hq
  have e : (fieldLits : Lits K).ofInt (2 ^ n) = (2 : K) ^ n := by simp [fieldLits]
  -- the prologue point is again in the quintant triangle and off the lattice
  have hq' : 0 < (prologue fieldLits x y n invertJ flipIJ).1 ∧ 0 < (prologue fieldLits x y n invertJ flipIJ).2 ∧
      (prologue fieldLits x y n invertJ flipIJ).1 + (prologue fieldLits x y n invertJ flipIJ).2 < 2 ^ n := by
    unfold prologue
    cases flipIJ <;> cases invertJ <;> simp only [if_true, if_false, Bool.false_eq_true, e] <;>
      refine ⟨?_, ?_, ?_⟩ <;> linarith
  have hoff' : OffLattice (prologue fieldLits x y n invertJ flipIJ).1 (prologue fieldLits x y n invertJ flipIJ).2 := by
    unfold prologue
    intro z
    cases flipIJ <;> cases invertJ <;> simp only [if_true, if_false, Bool.false_eq_true, e]
    · exact hoff z
    · refine ⟨(hoff z).1, fun hc => (hoff (2 ^ n - z)).2.2 ?_, fun hc => (hoff (2 ^ n - z)).2.1 ?_⟩
      · push_cast; linarith
      · push_cast; linarith
    · exact ⟨(hoff z).2.1, (hoff z).1, by rewrite [add_comm]; exact (hoff z).2.2⟩
    · exact absurd ⟨rfl, rfl⟩ hex
  obtain ⟨s, hs, h⟩ := internal_onto n invertJ flipIJ _ _ hq' hoff'
  exact ⟨s, hs, finalAnchor_prologue_conv s n invertJ flipIJ hs hex x y h⟩

/-- TILING, existence part, for the public function -/
theorem anchor_onto (n o : Nat) (hn : n ≤ 30) (ho : o < 6) (x y : K)
    (hq : 0 < x ∧ 0 < y ∧ x + y < 2 ^ n) (hoff : OffLattice x y) :
    ∃ s, s < 4 ^ n ∧ ∃ a, sToAnchor s n o = .ok a ∧ anchorTri a x y := by
  obtain ⟨s0, hs0, h⟩ := finalAnchor_onto n (oriInvertJ o) (oriFlipIJ o) (fun hh => flags_exclusive o ho hh) x y hq hoff
  have hs := adjustS_lt (oriReverse o) n s0 hs0
  refine ⟨adjustS (oriReverse o) n s0, hs, _, sToAnchor_eq _ n o hn hs, ?_⟩
  rewrite [adjustS_adjustS _ n s0 hs0]
  exact h
end field
end A5
