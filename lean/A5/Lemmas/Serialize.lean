import A5.Lemmas.Resolution
/-! Closed form of `serialize` on valid cells (core-only; `omega` on literal powers of two).

Proof-engineering notes (learned the hard way): never let `rw`/`congr`/`rfl` compare two *different*
arithmetic terms with big literals (the defeq check explodes in the kernel: "deep recursion");
use `rewrite` + `refine congrArg _ ?_; omega`.  Reduce non-2 powers (`4 ^ 4`) in hypotheses with
`Nat.reducePow` before calling `omega`. -/
namespace A5

theorem u64Add_ok (a b : Nat) (h : a + b < 2 ^ 64) : u64Add a b = .ok (a + b) := by simp [u64Add, h]
theorem u32Sub_ok (a b : Nat) (h : b ≤ a) : u32Sub a b = .ok (a - b) := by simp [u32Sub, h]
theorem u64Shl_ok (a n : Nat) (h : n < 64) (h2 : a * 2 ^ n < 2 ^ 64) : u64Shl a n = .ok (a * 2 ^ n) := by
  simp [u64Shl, h, Nat.shiftLeft_eq, Nat.mod_eq_of_lt h2]
theorem u64Shr_ok (a n : Nat) (h : n < 64) : u64Shr a n = .ok (a / 2 ^ n) := by
  simp [u64Shr, h, Nat.shiftRight_eq_div_pow]

theorem serialize_hilbert (o seg s : Nat) (r : Int) (hr2 : 2 ≤ r) (hr : r ≤ 29) (ho : o < 12) (hs : seg < 5)
    (hS : s < 4 ^ (r - 1).toNat) :
    serialize ⟨o, seg, s, r⟩ = .ok (encNat ⟨o, seg, s, r⟩) := by
  have hf := firstQuintant_lt o ho
  have hc : r = 2 ∨ r = 3 ∨ r = 4 ∨ r = 5 ∨ r = 6 ∨ r = 7 ∨ r = 8 ∨ r = 9 ∨ r = 10 ∨ r = 11 ∨ r = 12 ∨ r = 13 ∨ r = 14 ∨ r = 15 ∨ r = 16 ∨ r = 17 ∨ r = 18 ∨ r = 19 ∨ r = 20 ∨ r = 21 ∨ r = 22 ∨ r = 23 ∨ r = 24 ∨ r = 25 ∨ r = 26 ∨ r = 27 ∨ r = 28 ∨ r = 29 := by omega
  rcases hc with rfl|rfl|rfl|rfl|rfl|rfl|rfl|rfl|rfl|rfl|rfl|rfl|rfl|rfl|rfl|rfl|rfl|rfl|rfl|rfl|rfl|rfl|rfl|rfl|rfl|rfl|rfl|rfl
  all_goals
    simp only [serialize, encNat, top6, markerPos, Gen.MAX_RESOLUTION, Gen.FIRST_HILBERT_RESOLUTION, Gen.WORLD_CELL,
      Gen.HILBERT_START_BIT, numOrigins, Gen.ORIGIN_ORDER, List.length]
    simp only [Int.reduceToNat, Int.reduceAdd, Int.reduceSub, Int.reduceLT, Int.reduceEq, if_true, if_false,
      Nat.reduceAdd, Nat.reduceMul, Nat.reduceSub, Int.reduceNeg, ge_iff_le, Int.reduceLE] at hS ⊢
    simp only [Nat.reducePow] at hS
    rewrite [if_neg (by omega), u64Add_ok _ _ (by omega)]; simp only [Outcome.bind_ok]
    rewrite [u32Sub_ok _ _ (by omega)]; simp only [Outcome.bind_ok]
    rewrite [u64Shl_ok _ _ (by omega) (by omega)]; simp only [Outcome.bind_ok]
    rewrite [u64Shl_ok _ _ (by omega) (by omega)]; simp only [Outcome.bind_ok]
    rewrite [if_neg (by omega), u32Sub_ok _ _ (by omega)]; simp only [Outcome.bind_ok]
    rewrite [u64Shl_ok _ _ (by omega) (by omega)]; simp only [Outcome.bind_ok]
    rewrite [u64Add_ok _ _ (by omega)]; simp only [Outcome.bind_ok]
    rewrite [u32Sub_ok _ _ (by omega)]; simp only [Outcome.bind_ok]
    rewrite [u64Shl_ok _ _ (by omega) (by omega)]; simp only [Outcome.bind_ok, Nat.reduceSub, Nat.one_mul]
    rewrite [if_pos (by omega), or_marker _ _ (by omega)]
    refine congrArg Outcome.ok ?_
    omega

theorem serialize_res0 (o : Nat) (ho : o < 12) :
    serialize ⟨o, 0, 0, 0⟩ = .ok (encNat ⟨o, 0, 0, 0⟩) := by
  have hf := firstQuintant_lt o ho
  simp only [serialize, encNat, top6, markerPos, Gen.MAX_RESOLUTION, Gen.FIRST_HILBERT_RESOLUTION, Gen.WORLD_CELL,
      Gen.HILBERT_START_BIT, numOrigins, Gen.ORIGIN_ORDER, List.length]
  simp only [Int.reduceToNat, Int.reduceAdd, Int.reduceSub, Int.reduceLT, Int.reduceEq, if_true, if_false,
      Nat.reduceAdd, Nat.reduceMul, Nat.reduceSub, Int.reduceNeg, ge_iff_le, Int.reduceLE]
  rewrite [if_neg (by omega), u64Add_ok _ _ (by omega)]; simp only [Outcome.bind_ok]
  rewrite [u32Sub_ok _ _ (by omega)]; simp only [Outcome.bind_ok]
  rewrite [u64Shl_ok _ _ (by omega) (by omega)]; simp only [Outcome.bind_ok]
  rewrite [u32Sub_ok _ _ (by omega)]; simp only [Outcome.bind_ok]
  rewrite [u64Shl_ok _ _ (by omega) (by omega)]; simp only [Outcome.bind_ok, Nat.reduceSub, Nat.one_mul]
  rewrite [if_neg (by omega), or_marker _ _ (by omega)]
  refine congrArg Outcome.ok ?_
  omega

theorem serialize_res1 (o seg : Nat) (ho : o < 12) (hs : seg < 5) :
    serialize ⟨o, seg, 0, 1⟩ = .ok (encNat ⟨o, seg, 0, 1⟩) := by
  have hf := firstQuintant_lt o ho
  simp only [serialize, encNat, top6, markerPos, Gen.MAX_RESOLUTION, Gen.FIRST_HILBERT_RESOLUTION, Gen.WORLD_CELL,
      Gen.HILBERT_START_BIT, numOrigins, Gen.ORIGIN_ORDER, List.length]
  simp only [Int.reduceToNat, Int.reduceAdd, Int.reduceSub, Int.reduceLT, Int.reduceEq, if_true, if_false,
      Nat.reduceAdd, Nat.reduceMul, Nat.reduceSub, Int.reduceNeg, ge_iff_le, Int.reduceLE]
  rewrite [if_neg (by omega), u64Add_ok _ _ (by omega)]; simp only [Outcome.bind_ok]
  rewrite [u32Sub_ok _ _ (by omega)]; simp only [Outcome.bind_ok]
  rewrite [u64Shl_ok _ _ (by omega) (by omega)]; simp only [Outcome.bind_ok]
  rewrite [u32Sub_ok _ _ (by omega)]; simp only [Outcome.bind_ok]
  rewrite [u64Shl_ok _ _ (by omega) (by omega)]; simp only [Outcome.bind_ok, Nat.reduceSub, Nat.one_mul]
  rewrite [if_neg (by omega), or_marker _ _ (by omega)]
  refine congrArg Outcome.ok ?_
  omega

theorem serialize_valid (c : Cell) (h : c.Valid) : serialize c = .ok (encNat c) := by
  obtain ⟨o, seg, s, r⟩ := c
  rcases h with ⟨h1, h2, h3, h4⟩ | ⟨h1, h2, h3, h4⟩ | ⟨h1, h2, h3, h4⟩ | ⟨h1, h2, h3, h4, h5⟩
  · simp only at h1 h2 h3 h4; subst h1 h2 h3 h4
    simp [serialize, encNat, Gen.MAX_RESOLUTION, Gen.WORLD_CELL]
  · simp only at h1 h2 h3 h4; subst h1 h3 h4; exact serialize_res0 o h2
  · simp only at h1 h2 h3 h4; subst h1 h4; exact serialize_res1 o seg h2 h3
  · exact serialize_hilbert o seg s r h1 h2 h3 h4 h5

end A5
