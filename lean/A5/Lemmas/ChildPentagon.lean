import A5.Lemmas.ChildAnchor
import A5.Lemmas.PentagonArea
/-! # Parent ↔ child pentagons, part 1: the finite step table with `k`, and the centre reach (planar C12)

`A5/Lemmas/ChildAnchor.lean` records, for one parent → child step of the Hilbert walk, the triple
(child offset − 2·parent offset, parent flips, child flips).  The pentagon `get_pentagon_vertices` draws for an anchor
also depends on the anchor's `k` (through `A5.PG.needsReflect`).  This file

* extends the finite table by the two `k`s (`Quad`, `families`, `stepQuads`) and proves the membership lemma for the
  internal anchors (`internal_family_mem`, `internal_quad_mem`), then carries it through the `flipIJ` / `invertJ` stages
  and the curve reversal to the public `sToAnchor` (`child_quad_mem`, `children_family_mem`);
* expresses the planar offset `centreQ ac / 2 − centreQ ap` (parent frame: child lattice units are half the parent's)
  by the table entry alone, with NO `BASIS_INVERSE·BASIS` defect (`centre_diff`);
* proves **T-reach**: `dist²(centreQ ac / 2, centreQ ap) < 0.64 · area(parent pentagon)` for every depth, orientation,
  position and child `d < 4` of a pentagon parent (curve depth `≥ 1`) — with the sharp constant: the maximum of
  `dist / √area` over the table is `0.64905…` (`reach_table`: `dist² < 0.4213·area`; `reach_table_sharp`: some quad of
  every orientation class has `dist² > 0.4212·area`).  Depth 0 → 1, where the parent cell is the quintant TRIANGLE, is
  `root_centre_reach` (maximum `0.6142…`). -/
namespace A5.CP
open A5 A5.HilbertLocate A5.PG

/-- `(Δ, parent flips, child flips)` as in `stepData` -/
abbrev Triple := (Int × Int) × (Int × Int) × (Int × Int)
/-- a step triple together with `(parent k, child k)` -/
abbrev Quad := Triple × Nat × Nat

/-! ## the table -/

/-- step from the digit-less quintant cell (depth 0, `k = 0`) to its child `d` -/
def rootQuad (d : Nat) : Quad := ((childIJ d (1, 1), ((1 : Int), (1 : Int)), nextF d (1, 1)), 0, d)

/-- step from a parent whose least significant shifted digit is `p` (that is its `k`), whose flips before that digit
are `F`, to its child `d`; the child's `k` is its least significant shifted digit -/
def stepDataK (F : Int × Int) (inv : Bool) (P : List Nat) (p d : Nat) : Quad :=
  (stepData F inv P p d, p, (pairStep (shiftLo inv F) P p d).2)

/-- the family of the four children of the digit-less quintant cell (depth 0) -/
def rootFamily : List Quad := (List.range 4).map rootQuad

/-- the possible families of four children of a parent of depth `≥ 1`: one family per `(F, p)` -/
def families (inv fl : Bool) : List (List Quad) :=
  flips4.flatMap (fun F => (List.range 4).map (fun p => (List.range 4).map (fun d =>
    stepDataK F inv (hilbertPattern fl) p d)))

/-- every possible step quad of a parent of depth `≥ 1` (64 entries) -/
def stepQuads (inv fl : Bool) : List Quad := (families inv fl).flatten

/-- forgetting the `k`s gives the step triples of `ChildAnchor` -/
theorem stepQuads_triples : ∀ inv fl : Bool, (rootFamily ++ stepQuads inv fl).map Prod.fst = stepTriples inv fl := by
  decide +kernel

/-- the step quad of the internal anchors of `s` (depth `n`) and its child `4·s + d` (depth `n + 1`) -/
def internalQuad (s n d : Nat) (inv fl : Bool) : Quad :=
  (internalTriple s n d inv fl, (sToAnchorInternal s n inv fl).k, (sToAnchorInternal (4 * s + d) (n + 1) inv fl).k)

theorem internal_k (s n : Nat) (inv fl : Bool) (hs : s < 4 ^ n) :
    (sToAnchorInternal s n inv fl).k = (shiftedDigits s n inv fl).getD 0 0 := by
  rewrite [sToAnchorInternal_eq s n inv fl hs]; rfl

theorem internalTriple_eq (s n d : Nat) (inv fl : Bool) (hs : s < 4 ^ n) (hd : d < 4) :
    internalTriple s n d inv fl =
      (((listAnchor (shiftedDigits (4 * s + d) (n + 1) inv fl)).1.1 - 2 * (listAnchor (shiftedDigits s n inv fl)).1.1,
        (listAnchor (shiftedDigits (4 * s + d) (n + 1) inv fl)).1.2 - 2 * (listAnchor (shiftedDigits s n inv fl)).1.2),
        (listAnchor (shiftedDigits s n inv fl)).2, (listAnchor (shiftedDigits (4 * s + d) (n + 1) inv fl)).2) := by
  have hc := child_lt s n d hs hd
  have eA := internal_eq_listAnchor s n inv fl hs
  have eC := internal_eq_listAnchor (4 * s + d) (n + 1) inv fl hc
  have eA1 := congrArg Prod.fst eA
  have eA2 := congrArg Prod.snd eA
  have eC1 := congrArg Prod.fst eC
  have eC2 := congrArg Prod.snd eC
  dsimp only at eA1 eA2 eC1 eC2
  unfold internalTriple
  rewrite [eA1, eA2, eC1, eC2]
  rfl

theorem internalQuad_root (d : Nat) (hd : d < 4) (inv fl : Bool) : internalQuad 0 0 d inv fl = rootQuad d := by
  obtain ⟨z1, z2⟩ := shiftedDigits_child_zero 0 d hd inv fl
  unfold internalQuad rootQuad
  rewrite [internalTriple_eq 0 0 d inv fl (by decide) hd, internal_k 0 0 inv fl (by decide),
    internal_k (4 * 0 + d) (0 + 1) inv fl (child_lt 0 0 d (by decide) hd), z1, z2, listAnchor_cons, listAnchor_nil]
  refine Prod.ext (Prod.ext (Prod.ext ?_ ?_) rfl) rfl
  · show _ - _ = _; dsimp only; omega
  · show _ - _ = _; dsimp only; omega

theorem internalQuad_step (s n d : Nat) (hs : s < 4 ^ (n + 1)) (hd : d < 4) (inv fl : Bool) (p : Nat) (tail : List Nat)
    (e : shiftedDigits s (n + 1) inv fl = p :: tail) :
    internalQuad s (n + 1) d inv fl = stepDataK (flipsProd tail) inv (hilbertPattern fl) p d := by
  obtain ⟨p', tail', _, _, _, e1, e2, _, _⟩ := child_digits_cases s n d hd inv fl
  obtain ⟨rfl, rfl⟩ := List.cons.inj (e.symm.trans e1)
  unfold internalQuad stepDataK
  rewrite [internalTriple_eq s (n + 1) d inv fl hs hd, internal_k s (n + 1) inv fl hs,
    internal_k (4 * s + d) (n + 1 + 1) inv fl (child_lt s (n + 1) d hs hd), e1, e2,
    listAnchor_step tail inv (hilbertPattern fl) p d]
  rfl

/-- depth 0 → 1: the four step quads of the quintant cell are the `rootFamily` -/
theorem internal_family_root (inv fl : Bool) :
    (List.range 4).map (fun d => internalQuad 0 0 d inv fl) = rootFamily :=
  List.map_congr_left (fun d hd => internalQuad_root d (List.mem_range.1 hd) inv fl)

/-- **one step, internal anchors, all four children at once**: the list of the four step quads of a parent of depth
`n + 1 ≥ 1` is one of the finitely many `families` -/
theorem internal_family_mem (s n : Nat) (hs : s < 4 ^ (n + 1)) (inv fl : Bool) :
    (List.range 4).map (fun d => internalQuad s (n + 1) d inv fl) ∈ families inv fl := by
  obtain ⟨hl, h4⟩ := shiftedDigits_spec s (n + 1) inv fl
  generalize e : shiftedDigits s (n + 1) inv fl = sd at hl h4
  cases sd with
  | nil => cases hl
  | cons p tail =>
    have hp := h4 p (List.mem_cons_self ..)
    have hF : IsFlip (flipsProd tail) := by
      rewrite [← listAnchor_flips]; exact listAnchor_isFlip tail (fun x hx => h4 x (List.mem_cons_of_mem _ hx))
    have : (List.range 4).map (fun d => internalQuad s (n + 1) d inv fl) =
        (List.range 4).map (fun d => stepDataK (flipsProd tail) inv (hilbertPattern fl) p d) :=
      List.map_congr_left (fun d hd => internalQuad_step s n d hs (List.mem_range.1 hd) inv fl p tail e)
    rewrite [this]
    unfold families
    exact List.mem_flatMap.2 ⟨_, mem_flips4 _ hF, List.mem_map.2 ⟨p, List.mem_range.2 hp, rfl⟩⟩

/-- **one step, internal anchors**, parent of depth `≥ 1` -/
theorem internal_quad_mem (s n d : Nat) (hs : s < 4 ^ (n + 1)) (hd : d < 4) (inv fl : Bool) :
    internalQuad s (n + 1) d inv fl ∈ stepQuads inv fl :=
  List.mem_flatten.2 ⟨_, internal_family_mem s n hs inv fl,
    List.mem_map.2 ⟨d, List.mem_range.2 hd, rfl⟩⟩

/-! ## the orientation stages -/

/-- the `invertJ` stage negates the first flip; the `flipIJ` stage leaves the flips alone; both leave `k` alone -/
def stageFlips (inv : Bool) (F : Int × Int) : Int × Int := if inv then (-F.1, F.2) else F

theorem stageAnchor_flips (n : Nat) (inv fl : Bool) (a : Anchor) :
    (stageAnchor n inv fl a).flips = stageFlips inv a.flips := by
  unfold stageAnchor stageFlips
  cases fl <;> cases inv <;> rfl

theorem stageAnchor_k (n : Nat) (inv fl : Bool) (a : Anchor) : (stageAnchor n inv fl a).k = a.k := by
  unfold stageAnchor
  cases fl <;> cases inv <;> rfl

/-- the effect of the stages on a step quad -/
def finalQuad (inv fl : Bool) (q : Quad) : Quad :=
  ((finalDelta inv fl q.1, stageFlips inv q.1.2.1, stageFlips inv q.1.2.2), q.2.1, q.2.2)

/-- the quad `(O_c − 2·O_p, flips_p, flips_c, k_p, k_c)` of two anchors -/
def anchorQuad (ap ac : Anchor) : Quad :=
  (((ac.offset.1 - 2 * ap.offset.1, ac.offset.2 - 2 * ap.offset.2), ap.flips, ac.flips), ap.k, ac.k)

theorem finalAnchor_quad (s n d : Nat) (inv fl : Bool) :
    anchorQuad (finalAnchor s n inv fl) (finalAnchor (4 * s + d) (n + 1) inv fl) =
      finalQuad inv fl (internalQuad s n d inv fl) := by
  unfold anchorQuad finalQuad internalQuad
  rewrite [finalAnchor_eq_stage, finalAnchor_eq_stage, stage_delta, stageAnchor_flips, stageAnchor_flips,
    stageAnchor_k, stageAnchor_k]
  rfl

/-- the families after the stages -/
def finalFamilies (inv fl : Bool) : List (List Quad) := (families inv fl).map (List.map (finalQuad inv fl))
def finalQuads (inv fl : Bool) : List Quad := (stepQuads inv fl).map (finalQuad inv fl)

/-- position of the child after the optional reversal: the reversed curve visits the children in the order `3 - d` -/
theorem adjustS_child (rev : Bool) (n s d : Nat) (hs : s < 4 ^ n) (hd : d < 4) :
    adjustS rev (n + 1) (4 * s + d) = 4 * adjustS rev n s + (if rev then 3 - d else d) := by
  unfold adjustS
  cases rev <;> simp only [if_true, if_false, Bool.false_eq_true]
  rewrite [Nat.pow_succ]
  omega

/-- **one step, public `s_to_anchor`, one child.**  For every depth `1 ≤ n < 30` (the parent is a pentagon cell),
orientation, position `s < 4^n` and child `d < 4` both anchors exist, have `±1` flips, and their quad is one of the
finitely many `finalQuads`. -/
theorem child_quad_mem (n o s d : Nat) (hn : n + 2 ≤ 30) (hs : s < 4 ^ (n + 1)) (hd : d < 4) :
    ∃ ap ac, sToAnchor s (n + 1) o = .ok ap ∧ sToAnchor (4 * s + d) (n + 2) o = .ok ac ∧
      IsFlip ap.flips ∧ IsFlip ac.flips ∧ anchorQuad ap ac ∈ finalQuads (oriInvertJ o) (oriFlipIJ o) := by
  have hc := child_lt s (n + 1) d hs hd
  have hs' := adjustS_lt (oriReverse o) (n + 1) s hs
  have hc' := adjustS_lt (oriReverse o) (n + 2) _ hc
  refine ⟨_, _, sToAnchor_eq s (n + 1) o (by omega) hs, sToAnchor_eq (4 * s + d) (n + 2) o hn hc,
    finalAnchor_isFlip _ (n + 1) _ _ hs', finalAnchor_isFlip _ (n + 2) _ _ hc', ?_⟩
  rewrite [adjustS_child _ (n + 1) s d hs hd, finalAnchor_quad]
  exact List.mem_map.2 ⟨_, internal_quad_mem _ n _ hs' (by split <;> omega) _ _, rfl⟩

/-- **one step, public `s_to_anchor`, all four children at once.**  The parent anchor and the list `kids` of the four
child anchors exist, and there is one of the finitely many `finalFamilies` each of whose four quads is the quad of the
parent with one of the kids (in curve order, or in reversed order for the reversing orientations). -/
theorem children_family_mem (n o s : Nat) (hn : n + 2 ≤ 30) (hs : s < 4 ^ (n + 1)) :
    ∃ ap, sToAnchor s (n + 1) o = .ok ap ∧ IsFlip ap.flips ∧ ∃ kids : List Anchor, kids.length = 4 ∧
      (∀ d, d < 4 → sToAnchor (4 * s + d) (n + 2) o = .ok (kids.getD d default)) ∧ (∀ ac ∈ kids, IsFlip ac.flips) ∧
      ∃ fam ∈ finalFamilies (oriInvertJ o) (oriFlipIJ o), ∀ q ∈ fam, ∃ ac ∈ kids, anchorQuad ap ac = q := by
  have hs' := adjustS_lt (oriReverse o) (n + 1) s hs
  refine ⟨_, sToAnchor_eq s (n + 1) o (by omega) hs, finalAnchor_isFlip _ (n + 1) _ _ hs',
    (List.range 4).map (fun d => finalAnchor (adjustS (oriReverse o) (n + 2) (4 * s + d)) (n + 2) (oriInvertJ o) (oriFlipIJ o)),
    by simp, ?_, ?_, ?_⟩
  · intro d hd
    rewrite [sToAnchor_eq (4 * s + d) (n + 2) o hn (child_lt s (n + 1) d hs hd)]
    have hc : d = 0 ∨ d = 1 ∨ d = 2 ∨ d = 3 := by omega
    rcases hc with rfl | rfl | rfl | rfl <;> rfl
  · intro ac hac
    obtain ⟨d, hd, rfl⟩ := List.mem_map.1 hac
    have hd := List.mem_range.1 hd
    exact finalAnchor_isFlip _ (n + 2) _ _ (adjustS_lt _ (n + 2) _ (child_lt s (n + 1) d hs hd))
  · refine ⟨((List.range 4).map (fun d => internalQuad (adjustS (oriReverse o) (n + 1) s) (n + 1) d (oriInvertJ o) (oriFlipIJ o))).map
        (finalQuad (oriInvertJ o) (oriFlipIJ o)), List.mem_map.2 ⟨_, internal_family_mem _ n hs' _ _, rfl⟩, ?_⟩
    intro q hq
    obtain ⟨q0, hq0, rfl⟩ := List.mem_map.1 hq
    obtain ⟨j, hj, rfl⟩ := List.mem_map.1 hq0
    have hj := List.mem_range.1 hj
    refine ⟨_, List.mem_map.2 ⟨if oriReverse o then 3 - j else j, List.mem_range.2 (by split <;> omega), rfl⟩, ?_⟩
    rewrite [adjustS_child _ (n + 1) s _ hs (by split <;> omega)]
    have e : (if oriReverse o = true then 3 - (if oriReverse o = true then 3 - j else j) else
        (if oriReverse o = true then 3 - j else j)) = j := by
      cases oriReverse o <;> simp only [if_true, if_false, Bool.false_eq_true]
      omega
    rewrite [e]
    exact finalAnchor_quad _ (n + 1) j _ _

/-- `child_quad_mem` on a concrete cell (orientation 3: reverse + flipIJ; parent 6 at depth 2, child 26 at depth 3) -/
example : ∃ ap ac, sToAnchor 6 2 3 = .ok ap ∧ sToAnchor 26 3 3 = .ok ac ∧ anchorQuad ap ac ∈ finalQuads false true := by
  obtain ⟨ap, ac, h1, h2, _, _, h5⟩ := child_quad_mem 1 3 6 2 (by decide) (by decide) (by decide)
  exact ⟨ap, ac, h1, h2, h5⟩

/-! ## the planar centre offset, from the table entry alone -/

/-- `needsReflect` as a function of `k` and the flips (it does not look at the offset) -/
def reflK (k : Nat) (F : Int × Int) : Bool := needsReflect ⟨k, (0, 0), F⟩

theorem needsReflect_eq (a : Anchor) : needsReflect a = reflK a.k a.flips := rfl

/-- `BASIS * Δ / 2`: half the face-plane image of an integer lattice vector -/
def halfBasis (Δ : Int × Int) : ℚ × ℚ :=
  ((basisQ.1 * (Δ.1 : ℚ) + basisQ.2.1 * (Δ.2 : ℚ)) / 2, (basisQ.2.2.1 * (Δ.1 : ℚ) + basisQ.2.2.2 * (Δ.2 : ℚ)) / 2)

/-- child centre (scaled to the parent's frame) minus parent centre, as a function of the step quad -/
def relCentre (q : Quad) : ℚ × ℚ :=
  ((localC q.1.2.2 (reflK q.2.2 q.1.2.2) mQ wQ).1 / 2 + (halfBasis q.1.1).1 - (localC q.1.2.1 (reflK q.2.1 q.1.2.1) mQ wQ).1,
   (localC q.1.2.2 (reflK q.2.2 q.1.2.2) mQ wQ).2 / 2 + (halfBasis q.1.1).2 - (localC q.1.2.1 (reflK q.2.1 q.1.2.1) mQ wQ).2)

theorem centreQ_eq (a : Anchor) (hF : IsFlip a.flips) :
    centreQ a =
      ((localC a.flips (reflK a.k a.flips) mQ wQ).1 + (basisQ.1 * (a.offset.1 : ℚ) + basisQ.2.1 * (a.offset.2 : ℚ)),
       (localC a.flips (reflK a.k a.flips) mQ wQ).2 + (basisQ.2.2.1 * (a.offset.1 : ℚ) + basisQ.2.2.2 * (a.offset.2 : ℚ))) := by
  obtain ⟨k, ⟨oi, oj⟩, F⟩ := a
  change IsFlip F at hF
  unfold centreQ pentagonQ
  rewrite [seedQ_eq, centre_local _ _ _ _ _ _ _ _ _ _ _ hF]
  rfl

/-- **the centre offset has no defect term**: in the parent's frame (child lattice units are half the parent's) the
vector from the parent's centre to the child's centre depends only on the step quad; the translations by
`BASIS * offset` cancel exactly. -/
theorem centre_diff (ap ac : Anchor) (hp : IsFlip ap.flips) (hc : IsFlip ac.flips) :
    ((centreQ ac).1 / 2 - (centreQ ap).1, (centreQ ac).2 / 2 - (centreQ ap).2) = relCentre (anchorQuad ap ac) := by
  rewrite [centreQ_eq ap hp, centreQ_eq ac hc]
  unfold relCentre anchorQuad halfBasis
  dsimp only
  generalize localC ac.flips (reflK ac.k ac.flips) mQ wQ = lc
  generalize localC ap.flips (reflK ap.k ap.flips) mQ wQ = lp
  generalize basisQ = b
  obtain ⟨b0, b1, b2, b3⟩ := b
  refine Prod.ext ?_ ?_ <;> (dsimp only; push_cast; ring)

/-! ## T-reach -/

/-- squared length of the centre offset -/
def reachSq (q : Quad) : ℚ := (relCentre q).1 * (relCentre q).1 + (relCentre q).2 * (relCentre q).2

/-- planar area of every cell pentagon, in its own lattice frame (`areaG` is the trapezoid sum, twice the area) -/
def pentArea : ℚ := areaG 0 seedQ / 2

/-- the finite check: over all step quads of the three orientation classes that occur, the squared centre offset is
below `0.4213 · area` (`√0.4213 < 0.6491`) -/
theorem reach_table : ∀ inv fl : Bool, ¬(fl = true ∧ inv = true) → ∀ q ∈ finalQuads inv fl,
    reachSq q < 4213 / 10000 * pentArea := by decide +kernel

/-- … and the constant is sharp to the fourth digit: in each class some quad exceeds `0.4212 · area`
(`√0.4212 > 0.6489`) -/
theorem reach_table_sharp : ∀ inv fl : Bool, ¬(fl = true ∧ inv = true) → ∃ q ∈ finalQuads inv fl,
    4212 / 10000 * pentArea < reachSq q := by decide +kernel

/-- squared planar distance between the child's centre, scaled to the parent's frame, and the parent's centre -/
def centreDistSq (ap ac : Anchor) : ℚ :=
  ((centreQ ac).1 / 2 - (centreQ ap).1) * ((centreQ ac).1 / 2 - (centreQ ap).1) +
    ((centreQ ac).2 / 2 - (centreQ ap).2) * ((centreQ ac).2 / 2 - (centreQ ap).2)

/-- **T-reach** (planar C12, exact arithmetic on the runtime constants).  For every curve depth `1 ≤ n+1 < 30`, every
orientation `o < 6`, every position `s < 4^(n+1)` and every child `d < 4`: both anchors exist and the squared distance
between the child pentagon's centre (in the parent's lattice frame, i.e. scaled by 1/2) and the parent pentagon's
centre is `< 0.4213 ·` the parent pentagon's area, i.e. the distance is `< 0.6491·√area < 0.8·√area`. -/
theorem child_centre_reach (n o s d : Nat) (hn : n + 2 ≤ 30) (ho : o < 6) (hs : s < 4 ^ (n + 1)) (hd : d < 4) :
    ∃ ap ac, sToAnchor s (n + 1) o = .ok ap ∧ sToAnchor (4 * s + d) (n + 2) o = .ok ac ∧
      centreDistSq ap ac < 4213 / 10000 * (areaG 0 (pentagonQ ap) / 2) ∧
      centreDistSq ap ac < 64 / 100 * (areaG 0 (pentagonQ ap) / 2) := by
  obtain ⟨ap, ac, h1, h2, hp, hc, hm⟩ := child_quad_mem n o s d hn hs hd
  have hr := reach_table _ _ (fun hh => flags_exclusive o ho hh) _ hm
  have e : centreDistSq ap ac = reachSq (anchorQuad ap ac) := by
    unfold centreDistSq reachSq
    rewrite [← centre_diff ap ac hp hc]
    rfl
  have ha : areaG 0 (pentagonQ ap) / 2 = pentArea := by rewrite [pentagonQ_area ap hp]; rfl
  have hpos : 0 < pentArea := by
    have := seed_area_facts.1
    unfold pentArea; linarith
  refine ⟨ap, ac, h1, h2, ?_⟩
  rewrite [e, ha]
  exact ⟨hr, by linarith⟩

/-- non-vacuity / sharpness on a concrete cell, evaluated independently of the table: orientation 0, parent position 1
at depth 1, child `4·1 + 3 = 7` at depth 2: the ratio `dist² / area` exceeds `0.4212` (distance `> 0.6489·√area`) -/
example : sToAnchor 1 1 0 = .ok ⟨1, (1, 0), (1, -1)⟩ ∧ sToAnchor 7 2 0 = .ok ⟨2, (0, 1), (1, 1)⟩ ∧
    4212 / 10000 * (areaG 0 (pentagonQ ⟨1, (1, 0), (1, -1)⟩) / 2) < centreDistSq ⟨1, (1, 0), (1, -1)⟩ ⟨2, (0, 1), (1, 1)⟩ ∧
    centreDistSq ⟨1, (1, 0), (1, -1)⟩ ⟨2, (0, 1), (1, 1)⟩ < 4213 / 10000 * (areaG 0 (pentagonQ ⟨1, (1, 0), (1, -1)⟩) / 2) := by
  decide +kernel

/-- the theorem instantiated at a reversing, inverting orientation (4), depth 2 → 3 -/
example : ∃ ap ac, sToAnchor 11 2 4 = .ok ap ∧ sToAnchor 46 3 4 = .ok ac ∧
    centreDistSq ap ac < 64 / 100 * (areaG 0 (pentagonQ ap) / 2) := by
  obtain ⟨ap, ac, h1, h2, _, h4⟩ := child_centre_reach 1 4 11 2 (by decide) (by decide) (by decide) (by decide)
  exact ⟨ap, ac, h1, h2, h4⟩

/-! ## depth 0 → 1: the parent is the quintant triangle

The cell of curve depth 0 (resolution 1) is not drawn by `get_pentagon_vertices` but is the quintant triangle
`(u, v, w)` (`get_quintant_vertices`); its centre is the mean of the three vertices.  (Taking instead the pentagon of the
depth-0 anchor `⟨0, (0,0), (1,1)⟩` as "parent" the ratio would be 0.917: the bound 0.8 does NOT hold for that fictitious
parent, see `root_pentagon_reach_fails`.) -/

def quintantTriQ : List (ℚ × ℚ) := [ratPair Gen.Runtime.U, ratPair Gen.Runtime.V, ratPair Gen.Runtime.W]

/-- `x = .ok a` with `P a`, decidably -/
def OkSat {α : Type} (x : Outcome α) (P : α → Prop) : Prop :=
  match x with
  | .ok a => P a
  | _ => False

instance {α : Type} (x : Outcome α) (P : α → Prop) [DecidablePred P] : Decidable (OkSat x P) := by
  unfold OkSat; split <;> infer_instance

theorem OkSat.elim {α : Type} {x : Outcome α} {P : α → Prop} (h : OkSat x P) : ∃ a, x = .ok a ∧ P a := by
  unfold OkSat at h
  split at h
  · exact ⟨_, rfl, h⟩
  · exact h.elim

/-- squared distance between a depth-1 child's centre (scaled by 1/2) and the centre of the quintant triangle -/
def rootDistSq (ac : Anchor) : ℚ :=
  ((centreQ ac).1 / 2 - (centreG 0 3 quintantTriQ).1) * ((centreQ ac).1 / 2 - (centreG 0 3 quintantTriQ).1) +
    ((centreQ ac).2 / 2 - (centreG 0 3 quintantTriQ).2) * ((centreQ ac).2 / 2 - (centreG 0 3 quintantTriQ).2)

theorem root_reach_table : ∀ o ∈ List.range 6, ∀ d ∈ List.range 4,
    OkSat (sToAnchor d 1 o) (fun ac => rootDistSq ac < 3773 / 10000 * (areaG 0 quintantTriQ / 2)) := by decide +kernel

/-- **T-reach, depth 0 → 1** (the parent is the quintant triangle): distance `< 0.6143·√area` (`0.6143² > 0.3773`). -/
theorem root_centre_reach (o d : Nat) (ho : o < 6) (hd : d < 4) :
    ∃ ac, sToAnchor (4 * 0 + d) 1 o = .ok ac ∧ rootDistSq ac < 3773 / 10000 * (areaG 0 quintantTriQ / 2) := by
  rewrite [show 4 * 0 + d = d by omega]
  exact (root_reach_table o (List.mem_range.2 ho) d (List.mem_range.2 hd)).elim

/-- the pentagon of the depth-0 anchor is NOT the shape of the depth-0 cell, and the reach bound fails for it:
child 2 of orientation 0 is `> 0.9·√area` away from its centre -/
theorem root_pentagon_reach_fails : sToAnchor 0 0 0 = .ok ⟨0, (0, 0), (1, 1)⟩ ∧ sToAnchor 2 1 0 = .ok ⟨2, (0, 1), (1, 1)⟩ ∧
    81 / 100 * (areaG 0 (pentagonQ ⟨0, (0, 0), (1, 1)⟩) / 2) < centreDistSq ⟨0, (0, 0), (1, 1)⟩ ⟨2, (0, 1), (1, 1)⟩ := by
  decide +kernel

end A5.CP
