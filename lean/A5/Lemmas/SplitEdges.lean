import A5.Model.SplitG
import A5.Lemmas.BoundarySkel
import A5.Lemmas.PentagonConvex2
import Mathlib.Algebra.BigOperators.Group.Finset.Basic
import Mathlib.Algebra.Order.Field.Basic
import Mathlib.Algebra.Order.Field.Rat
import Mathlib.Tactic.Ring
import Mathlib.Tactic.Linarith
import Mathlib.Tactic.FieldSimp
/-! # `split_edges` does not change the polygon (exact arithmetic)

`cell_to_boundary` subdivides every edge of the planar cell polygon into `n` segments (`PentagonShape::split_edges`,
model `polySplitEdges`, generic twin `splitEdgesG` in `A5/Model/SplitG.lean`) and passes the point list through
`PentagonShape::from_vertices` (`polyNew`).  Over an arbitrary field of characteristic zero, for EVERY polygon (any
length) and every `n ≥ 1`:

* `splitEdgesG_length`    (d) the split list has `length * n` points (any scalar type);
* `corners_split`         (b) the point at index `i * n` is vertex `i` (any scalar type, exact, structural);
* `split_points_on_edges` (c) the point at index `k` is `v_i + (j/n) (v_{i+1} - v_i)`, `i = k / n`, `j = k % n`;
* `area_split`            (a) the trapezoid sum `areaG` of the split list equals that of the polygon
                              (`areaG_eq_sum` is the closed form of the `areaG` loop as a cyclic `Finset` sum);
* `polyNewG_split`        hence `from_vertices` takes the same branch on both;
* ordered field: `split_cross_nonneg` (every split point is on the inner side, `≥ 0`, of every edge of a convex
  polygon), `crossesG_split_getD` / `insideBy_split` (each `contains_point` cross product of the split ring with a point
  is `1/n` times that of the edge it lies on: a point strictly inside stays strictly inside, margin `μ / n`).

Instantiated at `ℚ` for the cell pentagons `placedQ a s m` (`placedQ_split`) and the quintant triangle
(`triQ_split`).  `polySplitEdges_tie` is the tie to the `Float` model with `polyNewG`.

NOT proved here: nothing about the rounded `f64` evaluation - in `f64` the inserted points are only approximately
collinear, so the `Float` trapezoid sum of the split ring differs from the pentagon's by rounding; the statements are
about the exact-arithmetic twin evaluated on the same inputs. -/
namespace A5.PG
open A5

/-! ### structure (any scalar type) -/
section structure_
variable {α : Type} [Add α] [Sub α] [Mul α] [Div α]

theorem splitEdgeG_length (ofNat : Nat → α) (n : Nat) (hn : 1 ≤ n) (v1 v2 : α × α) :
    (splitEdgeG ofNat n v1 v2).length = n := by
  unfold splitEdgeG
  rewrite [List.length_cons, List.length_map, List.length_range]
  omega

/-- **(d)** `split_edges(n)` on a `k`-gon yields `k·n` points for every `n ≥ 1` -/
theorem splitEdgesG_length (ofNat : Nat → α) (zero : α) (vs : List (α × α)) (n : Nat) (hn : 1 ≤ n) :
    (splitEdgesG ofNat zero vs n).length = vs.length * n := by
  rewrite [splitEdgesG_eq, length_flatMap_const _ n (fun i => splitEdgeG_length ofNat n hn _ _), List.length_range]
  rfl

/-- position `i*n + j` of the split list is position `j` of the block of edge `i` -/
theorem splitEdgesG_getElem? (ofNat : Nat → α) (zero : α) (vs : List (α × α)) (n i j : Nat) (hn : 1 ≤ n)
    (hi : i < vs.length) (hj : j < n) :
    (splitEdgesG ofNat zero vs n)[i * n + j]? =
      (splitEdgeG ofNat n (vs.getD i (zero, zero)) (vs.getD ((i + 1) % vs.length) (zero, zero)))[j]? := by
  rewrite [splitEdgesG_eq, getElem?_flatMap_const _ n (fun i => splitEdgeG_length ofNat n hn _ _) _ i j hj,
    List.getElem?_range hi]
  rfl

/-- **(b)** the vertex at index `i * n` of the split list is vertex `i` of the polygon, exactly -/
theorem corners_split (ofNat : Nat → α) (zero : α) (vs : List (α × α)) (n i : Nat) (hn : 1 ≤ n) (hi : i < vs.length) :
    (splitEdgesG ofNat zero vs n)[i * n]? = vs[i]? := by
  have h := splitEdgesG_getElem? ofNat zero vs n i 0 hn hi (by omega)
  rewrite [Nat.add_zero] at h
  rewrite [h]
  unfold splitEdgeG
  rewrite [List.getElem?_cons_zero, List.getD_eq_getElem?_getD, List.getElem?_eq_getElem hi]
  rfl

theorem corners_split_getD (ofNat : Nat → α) (zero : α) (vs : List (α × α)) (n i : Nat) (hn : 1 ≤ n)
    (hi : i < vs.length) (d : α × α) :
    (splitEdgesG ofNat zero vs n).getD (i * n) d = vs.getD i d := by
  rewrite [List.getD_eq_getElem?_getD, List.getD_eq_getElem?_getD, corners_split ofNat zero vs n i hn hi]
  rfl

/-- every index of the split list is `i * n + j` with `i` an edge and `j < n` -/
theorem split_index (L n k : Nat) (hk : k < L * n) : ∃ i j, i < L ∧ j < n ∧ k = i * n + j := by
  have hn : 0 < n := by
    cases n with
    | zero => rewrite [Nat.mul_zero] at hk; omega
    | succ n => omega
  refine ⟨k / n, k % n, ?_, Nat.mod_lt _ hn, (Nat.div_add_mod' k n).symm⟩
  exact Nat.div_lt_of_lt_mul (by rewrite [Nat.mul_comm]; exact hk)

/-- after `from_vertices` (generic twin `polyNewG`) corner `i` sits at index `i·n` when the winding test passes -/
theorem corners_polyNewG_split [LE α] [DecidableLE α] (ofNat : Nat → α) (zero : α) (vs : List (α × α)) (n i : Nat)
    (hn : 1 ≤ n) (hi : i < vs.length) (hw : zero ≤ areaG zero (splitEdgesG ofNat zero vs n)) :
    (polyNewG zero (splitEdgesG ofNat zero vs n))[i * n]? = vs[i]? := by
  unfold polyNewG
  rewrite [if_pos hw]
  exact corners_split ofNat zero vs n i hn hi

end structure_

/-! ### tie to the `Float` model, with `polyNewG` -/

/-- the list of `A5/Model/SplitG.lean` is the list `splitPts` of `A5/Lemmas/BoundarySkel.lean` (same term) -/
theorem splitPtsF_eq_splitPts (vs : Poly) (n : Nat) : splitPtsF vs n = A5.splitPts vs n := Eq.trans rfl rfl

/-- **tie**: `split_edges` is the polygon itself for `n ≤ 1`, else `from_vertices` (generic twin `polyNewG`) of the
generic point list, evaluated at `Float` (structure only) -/
theorem polySplitEdges_tie (vs : Poly) (n : Nat) :
    (polySplitEdges vs n).map toPair =
      if n ≤ 1 then vs.map toPair
      else polyNewG (0.0 : Float) (splitEdgesG Float.ofNat (0.0 : Float) (vs.map toPair) n) := by
  rewrite [polySplitEdges_eq_splitPtsF]
  by_cases h : n ≤ 1
  · rewrite [if_pos h, if_pos h]; rfl
  · rewrite [if_neg h, if_neg h, polyNew_tie, splitPts_tie]; rfl

/-- for `n ≤ 1` the generic point list is the polygon, so the tie has a single form whenever `polyNewG` keeps the
polygon (which is what `placedQ_facts` proves in exact arithmetic for the cell pentagons) -/
theorem polySplitEdges_tie' (vs : Poly) (n : Nat)
    (hkeep : n ≤ 1 → polyNewG (0.0 : Float) (vs.map toPair) = vs.map toPair) :
    (polySplitEdges vs n).map toPair =
      polyNewG (0.0 : Float) (splitEdgesG Float.ofNat (0.0 : Float) (vs.map toPair) n) := by
  rewrite [polySplitEdges_tie]
  by_cases h : n ≤ 1
  · rewrite [if_pos h, splitEdgesG_le_one _ _ _ _ h, hkeep h]; rfl
  · rewrite [if_neg h]; rfl

/-! ### field of characteristic zero -/
section field
variable {K : Type} [Field K]

/-- one term of the trapezoid sum -/
def trapG (p q : K × K) : K := (q.1 - p.1) * (q.2 + p.2)

/-- **closed form of the `areaG` loop**: the cyclic sum of the trapezoid terms of consecutive vertices -/
theorem areaG_eq_sum (vs : List (K × K)) :
    areaG 0 vs = ∑ i ∈ Finset.range vs.length, trapG (vs.getD i (0, 0)) (vs.getD ((i + 1) % vs.length) (0, 0)) := by
  unfold areaG
  simp only []
  suffices h : ∀ m i (acc : K), areaG.go 0 vs vs.length m i acc =
      acc + ∑ k ∈ Finset.range m, trapG (vs.getD (i + k) (0, 0)) (vs.getD ((i + k + 1) % vs.length) (0, 0)) by
    rewrite [h]
    simp only [zero_add]
  intro m
  induction m with
  | zero => intro i acc; simp [areaG.go]
  | succ m ih =>
    intro i acc
    unfold areaG.go
    simp only []
    rewrite [ih, Finset.sum_range_succ']
    simp only [Nat.add_zero, trapG]
    have e : ∀ k, i + 1 + k = i + (k + 1) := by intro k; omega
    simp only [e]
    ring

/-- a sum over `L * n` indices as a double sum over blocks of length `n` -/
theorem sum_range_mul (f : ℕ → K) (L n : ℕ) :
    ∑ k ∈ Finset.range (L * n), f k = ∑ i ∈ Finset.range L, ∑ j ∈ Finset.range n, f (i * n + j) := by
  induction L with
  | zero => simp
  | succ L ih => rewrite [Nat.succ_mul, Finset.sum_range_add, ih, Finset.sum_range_succ]; rfl

variable [CharZero K]

omit [CharZero K] in
theorem lerpG_zero (a b : K × K) : lerpG (0 : K) a b = a := by
  simp [lerpG]

omit [CharZero K] in
theorem lerpG_one (a b : K × K) : lerpG (1 : K) a b = b := by
  simp [lerpG]

omit [CharZero K] in
/-- the point at index `i * n + j` of the split list is `v_i + (j/n) (v_{i+1} - v_i)` -/
theorem split_getD (vs : List (K × K)) (n i j : ℕ) (hn : 1 ≤ n) (hi : i < vs.length) (hj : j < n) :
    (splitEdgesG (Nat.cast : ℕ → K) 0 vs n).getD (i * n + j) (0, 0) =
      lerpG ((j : K) / (n : K)) (vs.getD i (0, 0)) (vs.getD ((i + 1) % vs.length) (0, 0)) := by
  rewrite [List.getD_eq_getElem?_getD, splitEdgesG_getElem? _ _ vs n i j hn hi hj, splitEdgeG_interior]
  cases j with
  | zero =>
    rewrite [List.getElem?_cons_zero]
    simp [lerpG]
  | succ j =>
    rewrite [List.getElem?_cons_succ, List.getElem?_map, List.getElem?_range (by omega)]
    rfl

/-- the cyclic successor of index `i * n + j` in the split list is `v_i + ((j+1)/n) (v_{i+1} - v_i)` (for `j + 1 = n`
this is the next vertex) -/
theorem split_getD_next (vs : List (K × K)) (n i j : ℕ) (hn : 1 ≤ n) (hi : i < vs.length) (hj : j < n) :
    (splitEdgesG (Nat.cast : ℕ → K) 0 vs n).getD ((i * n + j + 1) % (vs.length * n)) (0, 0) =
      lerpG (((j + 1 : ℕ) : K) / (n : K)) (vs.getD i (0, 0)) (vs.getD ((i + 1) % vs.length) (0, 0)) := by
  have hn0 : (n : K) ≠ 0 := Nat.cast_ne_zero.2 (by omega)
  have hle : (i + 1) * n ≤ vs.length * n := Nat.mul_le_mul_right n hi
  rewrite [Nat.succ_mul] at hle
  by_cases hj1 : j + 1 < n
  · rewrite [Nat.mod_eq_of_lt (by omega), Nat.add_assoc]
    exact split_getD vs n i (j + 1) hn hi hj1
  · have hjn : j + 1 = n := by omega
    rewrite [hjn, div_self hn0, lerpG_one]
    have e : i * n + j + 1 = (i + 1) * n := by rewrite [Nat.succ_mul]; omega
    rewrite [e]
    by_cases hi1 : i + 1 < vs.length
    · have hlt : (i + 1) * n < vs.length * n := Nat.mul_lt_mul_of_pos_right hi1 (by omega)
      rewrite [Nat.mod_eq_of_lt hlt, Nat.mod_eq_of_lt hi1]
      have h := split_getD vs n (i + 1) 0 hn hi1 (by omega)
      rewrite [Nat.add_zero] at h
      rewrite [h]
      simp [lerpG]
    · have hiL : i + 1 = vs.length := by omega
      rewrite [hiL, Nat.mod_self, Nat.mod_self]
      have h := split_getD vs n 0 0 hn (by omega) (by omega)
      rewrite [Nat.zero_mul, Nat.add_zero] at h
      rewrite [h]
      simp [lerpG]

omit [CharZero K] in
/-- **(c)** every point of the split list lies on an edge: index `k` holds `v_i + (j/n) (v_{i+1} - v_i)` with
`i = k / n`, `j = k % n` (so `0 ≤ j < n`) -/
theorem split_points_on_edges (vs : List (K × K)) (n k : ℕ) (hk : k < vs.length * n) :
    (splitEdgesG (Nat.cast : ℕ → K) 0 vs n).getD k (0, 0) =
      lerpG (((k % n : ℕ) : K) / (n : K)) (vs.getD (k / n) (0, 0)) (vs.getD ((k / n + 1) % vs.length) (0, 0)) ∧
    k / n < vs.length ∧ k % n < n := by
  have hn : 1 ≤ n := by
    cases n with
    | zero => rewrite [Nat.mul_zero] at hk; omega
    | succ n => omega
  have hi : k / n < vs.length := Nat.div_lt_of_lt_mul (by rewrite [Nat.mul_comm]; exact hk)
  have hj : k % n < n := Nat.mod_lt _ (by omega)
  refine ⟨?_, hi, hj⟩
  have h := split_getD vs n (k / n) (k % n) hn hi hj
  rewrite [Nat.div_add_mod'] at h
  exact h

omit [CharZero K] in
/-- the trapezoid terms of the first `m` sub-segments of an edge `a → b` cut into pieces of parameter length `1/c` -/
theorem trap_partial (a b : K × K) (c : K) (hc : c ≠ 0) (m : ℕ) :
    ∑ j ∈ Finset.range m, trapG (lerpG ((j : K) / c) a b) (lerpG (((j + 1 : ℕ) : K) / c) a b) =
      ((m : K) / c) * (b.1 - a.1) * (2 * a.2 + ((m : K) / c) * (b.2 - a.2)) := by
  induction m with
  | zero => simp
  | succ m ih =>
    rewrite [Finset.sum_range_succ, ih]
    simp only [trapG, lerpG]
    push_cast
    field_simp
    ring

/-- collinear points contribute nothing: the trapezoid terms of the `n` sub-segments of an edge add up to the term of
the edge -/
theorem trap_telescope (a b : K × K) (n : ℕ) (hn : 1 ≤ n) :
    ∑ j ∈ Finset.range n, trapG (lerpG ((j : K) / (n : K)) a b) (lerpG (((j + 1 : ℕ) : K) / (n : K)) a b) =
      trapG a b := by
  have hn0 : (n : K) ≠ 0 := Nat.cast_ne_zero.2 (by omega)
  rewrite [trap_partial a b _ hn0 n, div_self hn0]
  simp only [trapG]
  ring

/-- **(a)** inserting the `split_edges` points does not change the trapezoid sum -/
theorem area_split (vs : List (K × K)) (n : ℕ) (hn : 1 ≤ n) :
    areaG 0 (splitEdgesG (Nat.cast : ℕ → K) 0 vs n) = areaG 0 vs := by
  rewrite [areaG_eq_sum, areaG_eq_sum, splitEdgesG_length _ _ vs n hn, sum_range_mul]
  refine Finset.sum_congr rfl ?_
  intro i hi
  have hi : i < vs.length := Finset.mem_range.1 hi
  rewrite [← trap_telescope _ _ n hn]
  refine Finset.sum_congr rfl ?_
  intro j hj
  have hj : j < n := Finset.mem_range.1 hj
  rewrite [split_getD vs n i j hn hi hj, split_getD_next vs n i j hn hi hj]
  rfl

end field

/-! ### ordered field -/
section ordered
variable {K : Type} [Field K] [LinearOrder K] [IsStrictOrderedRing K]

/-- the winding test gives the same answer on the split list, so `from_vertices` acts the same way on both -/
theorem windingCorrectG_split (vs : List (K × K)) (n : ℕ) (hn : 1 ≤ n) :
    WindingCorrectG 0 (splitEdgesG (Nat.cast : ℕ → K) 0 vs n) ↔ WindingCorrectG 0 vs := by
  unfold WindingCorrectG
  rewrite [area_split vs n hn]
  exact Iff.rfl

theorem polyNewG_split (vs : List (K × K)) (n : ℕ) (hn : 1 ≤ n) :
    polyNewG 0 (splitEdgesG (Nat.cast : ℕ → K) 0 vs n) =
      if 0 ≤ areaG 0 vs then splitEdgesG (Nat.cast : ℕ → K) 0 vs n
      else (splitEdgesG (Nat.cast : ℕ → K) 0 vs n).reverse := by
  unfold polyNewG
  rewrite [area_split vs n hn]
  rfl

/-- a polygon that `from_vertices` keeps is kept after splitting, and its corners sit at the indices `i * n` -/
theorem polyNewG_split_keep (vs : List (K × K)) (n : ℕ) (hn : 1 ≤ n) (hw : 0 ≤ areaG 0 vs) :
    polyNewG 0 (splitEdgesG (Nat.cast : ℕ → K) 0 vs n) = splitEdgesG (Nat.cast : ℕ → K) 0 vs n ∧
    ∀ i, i < vs.length → (polyNewG 0 (splitEdgesG (Nat.cast : ℕ → K) 0 vs n))[i * n]? = vs[i]? := by
  have h : polyNewG 0 (splitEdgesG (Nat.cast : ℕ → K) 0 vs n) = splitEdgesG (Nat.cast : ℕ → K) 0 vs n := by
    rewrite [polyNewG_split vs n hn, if_pos hw]; rfl
  refine ⟨h, ?_⟩
  intro i hi
  rewrite [h]
  exact corners_split _ _ vs n i hn hi

omit [LinearOrder K] [IsStrictOrderedRing K] in
theorem crossG_lerp (a b x y : K × K) (t : K) :
    crossG a b (lerpG t x y) = (1 - t) * crossG a b x + t * crossG a b y := by
  simp only [crossG, lerpG]; ring

omit [LinearOrder K] [IsStrictOrderedRing K] in
theorem crossG_self_left (a b : K × K) : crossG a b a = 0 := by simp only [crossG]; ring
omit [LinearOrder K] [IsStrictOrderedRing K] in
theorem crossG_self_right (a b : K × K) : crossG a b b = 0 := by simp only [crossG]; ring

omit [LinearOrder K] [IsStrictOrderedRing K] in
/-- the `contains_point` cross product of a sub-segment of the edge `a → b` with a point is the edge's, scaled by the
parameter length of the sub-segment -/
theorem crossG_subsegment (a b p : K × K) (s t : K) :
    crossG (lerpG s a b) (lerpG t a b) p = (t - s) * crossG a b p := by
  simp only [crossG, lerpG]; ring

/-- weak convexity in index form: every vertex is on the inner side (`≥ 0`) of every edge -/
def WeaklyConvex (vs : List (K × K)) : Prop :=
  ∀ e j, e < vs.length → j < vs.length →
    0 ≤ crossG (vs.getD e (0, 0)) (vs.getD ((e + 1) % vs.length) (0, 0)) (vs.getD j (0, 0))

omit [IsStrictOrderedRing K] in
/-- strict convexity with any non-negative margin (`ConvexBy 0 μ`, as proved for the cell pentagons) implies it -/
theorem ConvexBy.weakly {μ : K} (hμ : 0 ≤ μ) {vs : List (K × K)} (h : ConvexBy 0 μ vs) : WeaklyConvex vs := by
  intro e j he hj
  by_cases h1 : j = e
  · rewrite [h1, crossG_self_left]; exact le_refl _
  by_cases h2 : j = (e + 1) % vs.length
  · rewrite [h2, crossG_self_right]; exact le_refl _
  exact le_of_lt (lt_of_le_of_lt hμ ((convexBy_iff 0 μ vs).1 h e j he hj h1 h2))

/-- **(c), ordered part**: in a convex polygon every point of the split list is on the inner side (`≥ 0`) of every
edge of the polygon, i.e. it lies in the closed polygon -/
theorem split_cross_nonneg (vs : List (K × K)) (n k e : ℕ) (hc : WeaklyConvex vs) (hk : k < vs.length * n)
    (he : e < vs.length) :
    0 ≤ crossG (vs.getD e (0, 0)) (vs.getD ((e + 1) % vs.length) (0, 0))
      ((splitEdgesG (Nat.cast : ℕ → K) 0 vs n).getD k (0, 0)) := by
  obtain ⟨hpt, hi, hj⟩ := split_points_on_edges vs n k hk
  have hL : 0 < vs.length := by omega
  have hn : (0 : K) < (n : K) := Nat.cast_pos.2 (by omega)
  rewrite [hpt, crossG_lerp]
  have ht0 : (0 : K) ≤ ((k % n : ℕ) : K) / (n : K) := div_nonneg (Nat.cast_nonneg _) (le_of_lt hn)
  have ht1 : ((k % n : ℕ) : K) / (n : K) ≤ 1 := by
    rewrite [div_le_one hn]
    exact Nat.cast_le.2 (le_of_lt hj)
  have h1 := hc e (k / n) he hi
  have h2 := hc e ((k / n + 1) % vs.length) he (Nat.mod_lt _ hL)
  exact add_nonneg (mul_nonneg (by linarith) h1) (mul_nonneg ht0 h2)

/-- each `contains_point` cross product of the split ring with a point is `1/n` times the cross product of the edge
the sub-segment lies on -/
theorem crossesG_split_getD (vs : List (K × K)) (p : K × K) (n i j : ℕ) (hn : 1 ≤ n) (hi : i < vs.length) (hj : j < n) :
    crossG ((splitEdgesG (Nat.cast : ℕ → K) 0 vs n).getD (i * n + j) (0, 0))
        ((splitEdgesG (Nat.cast : ℕ → K) 0 vs n).getD ((i * n + j + 1) % (vs.length * n)) (0, 0)) p =
      (1 / (n : K)) * crossG (vs.getD i (0, 0)) (vs.getD ((i + 1) % vs.length) (0, 0)) p := by
  have hn0 : (n : K) ≠ 0 := Nat.cast_ne_zero.2 (by omega)
  rewrite [split_getD vs n i j hn hi hj, split_getD_next vs n i j hn hi hj, crossG_subsegment]
  refine congrArg (· * _) ?_
  push_cast
  field_simp
  ring

/-- a point inside the polygon with margin `μ` is inside the split ring with margin `μ / n`: in particular a point
strictly inside stays strictly inside (`InsideBy` transfers) -/
theorem insideBy_split {μ : K} (vs : List (K × K)) (p : K × K) (n : ℕ) (hn : 1 ≤ n) (h : InsideBy 0 μ vs p) :
    InsideBy 0 (μ / (n : K)) (splitEdgesG (Nat.cast : ℕ → K) 0 vs n) p := by
  rewrite [insideBy_iff] at h ⊢
  rewrite [splitEdgesG_length _ _ vs n hn]
  intro k hk
  obtain ⟨i, j, hi, hj, rfl⟩ := split_index vs.length n k hk
  have hn0 : (0 : K) < (n : K) := Nat.cast_pos.2 (by omega)
  rewrite [crossesG_split_getD vs p n i j hn hi hj, div_eq_mul_one_div, mul_comm μ]
  exact mul_lt_mul_of_pos_left (h i hi) (one_div_pos.2 hn0)

theorem strictlyInside_split (vs : List (K × K)) (p : K × K) (n : ℕ) (hn : 1 ≤ n) (h : StrictlyInside 0 vs p) :
    StrictlyInside 0 (splitEdgesG (Nat.cast : ℕ → K) 0 vs n) p := by
  have h' := insideBy_split vs p n hn h
  rewrite [zero_div] at h'
  exact h'

end ordered

/-! ### the cell pentagons and the quintant triangle, exact rational arithmetic -/

/-- the split ring of the placed pentagon: what `cell_to_boundary` feeds to `from_vertices` inside `split_edges`,
exact arithmetic -/
def splitQ (vs : List (Rat × Rat)) (n : ℕ) : List (Rat × Rat) := splitEdgesG (Nat.cast : ℕ → Rat) 0 vs n

theorem placedQ_length (a : Anchor) (hF : HilbertLocate.IsFlip a.flips) (s : Rat) (m : Rat × Rat × Rat × Rat) :
    (placedQ a s m).length = 5 := by
  unfold placedQ transformG scaleG'
  rewrite [List.length_map, List.length_map]
  exact pentagonQ_length a hF

/-- **Instantiation for the cell pentagons.**  For every anchor with a `±1` flip pair, every scale `s > 0`, every
matrix of positive determinant and every `n ≥ 1`, the split ring of the placed pentagon
* has `5 n` points,
* has the pentagon's trapezoid sum `det m · s² · area(seed)`, which is positive,
* is kept by `from_vertices` (`polyNewG` is the identity: counter-clockwise orientation),
* has the pentagon's corners at the indices `i · n` (before and after `from_vertices`),
* has the pentagon's centre strictly inside, every `contains_point` cross product above `0.096 det m s² / n`,
* consists of points on the inner side (`≥ 0`) of every edge of the pentagon. -/
theorem placedQ_split (a : Anchor) (hF : HilbertLocate.IsFlip a.flips) (s : Rat) (hs : 0 < s)
    (m : Rat × Rat × Rat × Rat) (hd : 0 < detG m) (n : ℕ) (hn : 1 ≤ n) :
    (splitQ (placedQ a s m) n).length = 5 * n ∧
    areaG 0 (splitQ (placedQ a s m) n) = areaG 0 (placedQ a s m) ∧
    areaG 0 (splitQ (placedQ a s m) n) = detG m * (s * s) * areaG 0 seedQ ∧
    0 < areaG 0 (splitQ (placedQ a s m) n) ∧
    polyNewG 0 (splitQ (placedQ a s m) n) = splitQ (placedQ a s m) n ∧
    (∀ i, i < 5 → (splitQ (placedQ a s m) n)[i * n]? = (placedQ a s m)[i]? ∧
      (polyNewG 0 (splitQ (placedQ a s m) n))[i * n]? = (polyNewG 0 (placedQ a s m))[i]?) ∧
    InsideBy 0 (detG m * (s * s) * (96 / 1000) / (n : Rat)) (splitQ (placedQ a s m) n) (centreG 0 5 (placedQ a s m)) ∧
    (∀ k e, k < 5 * n → e < 5 →
      0 ≤ crossG ((placedQ a s m).getD e (0, 0)) ((placedQ a s m).getD ((e + 1) % 5) (0, 0))
        ((splitQ (placedQ a s m) n).getD k (0, 0))) := by
  obtain ⟨harea, hpos, hnew, _, hin, hcv⟩ := placedQ_facts a hF s hs m hd
  have hlen := placedQ_length a hF s m
  have hκ : 0 < detG m * (s * s) := mul_pos hd (mul_pos hs hs)
  have hA := area_split (placedQ a s m) n hn
  obtain ⟨hkeep, hcorn⟩ := polyNewG_split_keep (placedQ a s m) n hn (le_of_lt hpos)
  unfold splitQ
  refine ⟨?_, hA, hA.trans harea, ?_, hkeep, ?_, insideBy_split _ _ n hn hin, ?_⟩
  · rewrite [splitEdgesG_length _ _ _ n hn, hlen]; rfl
  · rewrite [hA]; exact hpos
  · intro i hi
    refine ⟨corners_split _ _ _ n i hn (by omega), ?_⟩
    rewrite [hnew]
    exact hcorn i (by omega)
  · intro k e hk he
    have hw : WeaklyConvex (placedQ a s m) := hcv.weakly (le_of_lt (mul_pos hκ (by norm_num)))
    have h := split_cross_nonneg (placedQ a s m) n k e hw (by rewrite [hlen]; exact hk) (by omega)
    rewrite [hlen] at h
    exact h

/-- the same for the quintant triangle under any matrix of positive determinant (resolution 1 cells) -/
theorem triQ_split (m : Rat × Rat × Rat × Rat) (hd : 0 < detG m) (n : ℕ) (hn : 1 ≤ n) :
    (splitQ (transformG m triQ) n).length = 3 * n ∧
    areaG 0 (splitQ (transformG m triQ) n) = areaG 0 (transformG m triQ) ∧
    0 < areaG 0 (splitQ (transformG m triQ) n) ∧
    polyNewG 0 (splitQ (transformG m triQ) n) = splitQ (transformG m triQ) n ∧
    (∀ i, i < 3 → (polyNewG 0 (splitQ (transformG m triQ) n))[i * n]? = (polyNewG 0 (transformG m triQ))[i]?) ∧
    InsideBy 0 (detG m * (18 / 100) / (n : Rat)) (splitQ (transformG m triQ) n) (centreG 0 3 (transformG m triQ)) ∧
    (∀ k e, k < 3 * n → e < 3 →
      0 ≤ crossG ((transformG m triQ).getD e (0, 0)) ((transformG m triQ).getD ((e + 1) % 3) (0, 0))
        ((splitQ (transformG m triQ) n).getD k (0, 0))) := by
  obtain ⟨hpos, hnew, hin, hcv⟩ := triQ_transform m hd
  have hlen : (transformG m triQ).length = 3 := by unfold transformG triQ; rfl
  have hA := area_split (transformG m triQ) n hn
  obtain ⟨hkeep, hcorn⟩ := polyNewG_split_keep (transformG m triQ) n hn (le_of_lt hpos)
  unfold splitQ
  refine ⟨?_, hA, ?_, hkeep, ?_, insideBy_split _ _ n hn hin, ?_⟩
  · rewrite [splitEdgesG_length _ _ _ n hn, hlen]; rfl
  · rewrite [hA]; exact hpos
  · intro i hi
    rewrite [hnew]
    exact hcorn i (by omega)
  · intro k e hk he
    have hw : WeaklyConvex (transformG m triQ) := hcv.weakly (le_of_lt (mul_pos hd (by norm_num)))
    have h := split_cross_nonneg (transformG m triQ) n k e hw (by rewrite [hlen]; exact hk) (by omega)
    rewrite [hlen] at h
    exact h

/-! ### non-vacuity and cross-checks by direct kernel evaluation -/

/-- the unit square cut into thirds: 12 points, corners at 0, 3, 6, 9.  (The trapezoid sum `Σ (x' - x)(y' + y)` is
MINUS twice the usual signed area: the library's "winding correct" polygons have a non-negative sum.) -/
example : splitQ [(0, 0), (1, 0), (1, 1), (0, 1)] 3 =
    [(0, 0), (1 / 3, 0), (2 / 3, 0), (1, 0), (1, 1 / 3), (1, 2 / 3), (1, 1), (2 / 3, 1), (1 / 3, 1), (0, 1),
     (0, 2 / 3), (0, 1 / 3)] := by decide +kernel
example : areaG 0 (splitQ [(0, 0), (1, 0), (1, 1), (0, 1)] 3) = -2 ∧
    areaG 0 [((0 : Rat), (0 : Rat)), (1, 0), (1, 1), (0, 1)] = -2 := by
  decide +kernel
example : areaG 0 (splitQ [(0, 0), (1, 0), (1, 1), (0, 1)] 3) = areaG 0 [((0 : Rat), (0 : Rat)), (1, 0), (1, 1), (0, 1)] :=
  area_split _ 3 (by omega)
/-- a polygon failing the winding test fails it after splitting: `from_vertices` reverses both; one passing it is kept -/
example : polyNewG 0 (splitQ [(0, 0), (1, 0), (1, 1), (0, 1)] 2) = (splitQ [(0, 0), (1, 0), (1, 1), (0, 1)] 2).reverse ∧
    polyNewG 0 (splitQ [(0, 0), (0, 1), (1, 1), (1, 0)] 2) = splitQ [(0, 0), (0, 1), (1, 1), (1, 0)] 2 := by
  decide +kernel
/-- a non-convex polygon (the theorems (a), (b), (d) need no convexity): an L-shape, 5 segments per edge -/
example : areaG 0 (splitQ [(0, 0), (0, 2), (1, 2), (1, 1), (2, 1), (2, 0)] 5) = 6 ∧
    (splitQ [(0, 0), (0, 2), (1, 2), (1, 1), (2, 1), (2, 0)] 5)[15]? = some (1, 1) := by
  decide +kernel
/-- a concrete cell pentagon: resolution 3 (`s = 1/8`), a rational rotation (3-4-5), 4 segments per edge -/
example : 0 < areaG 0 (splitQ (placedQ ⟨2, (3, -7), (-1, 1)⟩ (1 / 8) (3 / 5, -(4 / 5), 4 / 5, 3 / 5)) 4) :=
  (placedQ_split _ (by simp [HilbertLocate.IsFlip]) _ (by norm_num) _ (by decide +kernel) 4 (by omega)).2.2.2.1
example : StrictlyInside 0 (splitQ (placedQ ⟨2, (3, -7), (-1, 1)⟩ (1 / 8) (3 / 5, -(4 / 5), 4 / 5, 3 / 5)) 4)
    (centreG 0 5 (placedQ ⟨2, (3, -7), (-1, 1)⟩ (1 / 8) (3 / 5, -(4 / 5), 4 / 5, 3 / 5))) := by
  have h := (placedQ_split ⟨2, (3, -7), (-1, 1)⟩ (by simp [HilbertLocate.IsFlip]) (1 / 8) (by norm_num)
    (3 / 5, -(4 / 5), 4 / 5, 3 / 5) (by decide +kernel) 4 (by omega)).2.2.2.2.2.2.1
  exact h.strictly (by decide +kernel)
/-- cross-check of `placedQ_split` by direct kernel evaluation on that pentagon -/
example :
    let P := placedQ ⟨2, (3, -7), (-1, 1)⟩ (1 / 8) (3 / 5, -(4 / 5), 4 / 5, 3 / 5)
    areaG 0 (splitQ P 4) = areaG 0 P ∧ polyNewG 0 (splitQ P 4) = splitQ P 4 ∧
      (splitQ P 4)[0]? = P[0]? ∧ (splitQ P 4)[4]? = P[1]? ∧ (splitQ P 4)[16]? = P[4]? ∧
      ∀ c ∈ crossesG 0 (splitQ P 4) (centreG 0 5 P), 0 < c := by
  decide +kernel

end A5.PG
