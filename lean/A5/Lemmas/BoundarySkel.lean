import A5.Model.CellGeo
import A5.Lemmas.Deserialize
/-! List/integer *skeleton* of the boundary pipeline (`get_pentagon`, `split_edges`,
`normalize_longitudes`, `cell_to_boundary`).  Every `Float` is treated as an arbitrary value: only
lengths, positions and control flow are proved.  Core-only. -/
namespace A5

/-! ### `Outcome` inversion helpers -/

theorem Outcome.bind_eq_ok {α β : Type} {x : Outcome α} {f : α → Outcome β} {b : β}
    (h : (x >>= f) = .ok b) : ∃ a, x = .ok a ∧ f a = .ok b := by
  cases x with
  | ok a => exact ⟨a, rfl, by simpa only [Outcome.bind_ok] using h⟩
  | err e => simp only [Outcome.bind_err] at h; cases h
  | panic k => simp only [Outcome.bind_panic] at h; cases h

theorem mapOutcome'_length {α β : Type} (f : α → Outcome β) :
    ∀ (l : List α) (l' : List β), mapOutcome' f l = .ok l' → l'.length = l.length := by
  intro l
  induction l with
  | nil => intro l' h; simp only [mapOutcome'] at h; cases Outcome.ok.inj h; rfl
  | cons a as ih =>
    intro l' h
    simp only [mapOutcome'] at h
    obtain ⟨b, _, h⟩ := Outcome.bind_eq_ok h
    obtain ⟨bs, hbs, h⟩ := Outcome.bind_eq_ok h
    cases Outcome.ok.inj h
    simp only [List.length_cons, ih bs hbs]

theorem mapOutcomeF_length {α β : Type} (f : α → Outcome β) :
    ∀ (l : List α) (l' : List β), normalizeLongitudes.mapOutcomeF f l = .ok l' → l'.length = l.length := by
  intro l
  induction l with
  | nil => intro l' h; simp only [normalizeLongitudes.mapOutcomeF] at h; cases Outcome.ok.inj h; rfl
  | cons a as ih =>
    intro l' h
    simp only [normalizeLongitudes.mapOutcomeF] at h
    obtain ⟨b, _, h⟩ := Outcome.bind_eq_ok h
    obtain ⟨bs, hbs, h⟩ := Outcome.bind_eq_ok h
    cases Outcome.ok.inj h
    simp only [List.length_cons, ih bs hbs]

/-- `normalize_longitudes` never changes the number of points (each longitude is only shifted). -/
theorem normalizeLongitudes_length (l l' : List (Float × Float)) (h : normalizeLongitudes l = .ok l') :
    l'.length = l.length := by
  cases l with
  | nil => simp only [normalizeLongitudes] at h; cases Outcome.ok.inj h; rfl
  | cons a as =>
    simp only [normalizeLongitudes] at h
    exact mapOutcomeF_length _ _ _ h

/-- latitude components are untouched by `normalize_longitudes` -/
theorem mapOutcomeF_lat (center : Float) :
    ∀ (l l' : List (Float × Float)),
      normalizeLongitudes.mapOutcomeF
        (fun (p : Float × Float) => unwrapLon 64 p.1 center >>= fun l => Outcome.ok (l, p.2)) l = .ok l' →
      l'.map Prod.snd = l.map Prod.snd := by
  intro l
  induction l with
  | nil => intro l' h; simp only [normalizeLongitudes.mapOutcomeF] at h; cases Outcome.ok.inj h; rfl
  | cons a as ih =>
    intro l' h
    simp only [normalizeLongitudes.mapOutcomeF] at h
    obtain ⟨b, hb, h⟩ := Outcome.bind_eq_ok h
    obtain ⟨bs, hbs, h⟩ := Outcome.bind_eq_ok h
    cases Outcome.ok.inj h
    obtain ⟨x, _, hx⟩ := Outcome.bind_eq_ok hb
    cases Outcome.ok.inj hx
    simp only [List.map_cons, ih bs hbs]

/-! ### polygon lengths -/

theorem polyNew_length (vs : Poly) : (polyNew vs).length = vs.length := by
  unfold polyNew
  split
  · rfl
  · exact List.length_reverse

theorem polyScale_length (vs : Poly) (s : Float) : (polyScale vs s).length = vs.length := List.length_map _
theorem polyRotate180_length (vs : Poly) : (polyRotate180 vs).length = vs.length := List.length_map _
theorem polyTranslate_length (vs : Poly) (t : V2) : (polyTranslate vs t).length = vs.length := List.length_map _
theorem polyReflectY_length (vs : Poly) : (polyReflectY vs).length = vs.length := by
  unfold polyReflectY
  rewrite [List.length_reverse]
  exact List.length_map _

theorem transformPoly_length (vs : Poly) (m : Float × Float × Float × Float) :
    (transformPoly vs m).length = vs.length := by
  obtain ⟨m00, m01, m10, m11⟩ := m
  simp only [transformPoly]
  split
  · rewrite [polyNew_length]; exact List.length_map _
  · rfl

theorem polyFirst5_length (vs : Poly) : (polyFirst5 vs).length = 5 := by
  unfold polyFirst5
  rewrite [List.length_map, List.length_range]
  rfl

theorem pentagon_length : pentagonConstants.pentagon.length = 5 := by
  simp only [pentagonConstants, polyNew_length, List.length]

theorem getPentagonVertices_length (r : Int) (q : Nat) (a : Anchor) :
    (getPentagonVertices r q a).length = 5 := by
  simp only [getPentagonVertices, getPentagonLocal, getPentagonLocalOf]
  rewrite [transformPoly_length, polyScale_length, polyTranslate_length]
  have e1 : ∀ (b : Bool) (p : Poly), (if b then polyRotate180 p else p).length = p.length := by
    intro b p; cases b
    · rfl
    · exact polyRotate180_length p
  have e2 : ∀ (b : Bool) (p : Poly), (if b then polyReflectY p else p).length = p.length := by
    intro b p; cases b
    · rfl
    · exact polyReflectY_length p
  have e3 : ∀ (b c d : Bool) (p : Poly) (t u : V2),
      (if b then polyRotate180 p else if c then polyTranslate p t else if d then polyTranslate p u else p).length
        = p.length := by
    intro b c d p t u
    cases b <;> cases c <;> cases d <;>
      first | rfl | exact polyRotate180_length p | exact polyTranslate_length p _
  rewrite [e3, e2, e1]
  exact pentagon_length

theorem getQuintantVertices_length (q : Nat) : (getQuintantVertices q).length = 3 := by
  simp only [getQuintantVertices]
  rewrite [transformPoly_length, polyNew_length, List.length_take, polyFirst5_length]
  rfl

theorem getFaceVertices_length : getFaceVertices.length = 5 := by
  simp only [getFaceVertices]
  rewrite [polyNew_length, List.length_reverse, List.length_map, List.length_range]
  rfl

/-- number of corners of a cell: 3 at resolution 1 (a quintant triangle), else 5 -/
def corners (res : Int) : Nat := if res = 1 then 3 else 5

/-- `get_pentagon` returns a polygon with 3 corners at resolution 1 and 5 otherwise — whatever the
float coordinates are. -/
theorem getPentagon_length (c : Cell) (p : Poly) (h : getPentagon c = .ok p) :
    p.length = corners c.res := by
  unfold getPentagon at h
  unfold corners
  have hF : Gen.FIRST_HILBERT_RESOLUTION = 2 := rfl
  by_cases ho : c.origin ≥ origins.length
  · rewrite [if_pos ho] at h; cases h
  rewrite [if_neg ho] at h
  generalize segmentToQuintant c.segment (originAt c.origin) = qo at h
  obtain ⟨q, o⟩ := qo
  dsimp only at h
  by_cases h1 : c.res = Gen.FIRST_HILBERT_RESOLUTION - 1
  · rewrite [if_pos h1] at h
    cases Outcome.ok.inj h
    rewrite [if_pos (by omega)]
    exact getQuintantVertices_length _
  rewrite [if_neg h1] at h
  rewrite [if_neg (by omega)]
  by_cases h0 : c.res = Gen.FIRST_HILBERT_RESOLUTION - 2
  · rewrite [if_pos h0] at h
    cases Outcome.ok.inj h
    exact getFaceVertices_length
  rewrite [if_neg h0] at h
  by_cases hh : c.res - Gen.FIRST_HILBERT_RESOLUTION + 1 < 0
  · rewrite [if_pos hh] at h; cases h
  rewrite [if_neg hh] at h
  obtain ⟨a, _, h⟩ := Outcome.bind_eq_ok h
  cases Outcome.ok.inj h
  exact getPentagonVertices_length _ _ _

/-! ### `split_edges` -/

theorem length_flatMap_const {ι α : Type} (f : ι → List α) (n : Nat) (hf : ∀ i, (f i).length = n) :
    ∀ l : List ι, (l.flatMap f).length = l.length * n := by
  intro l
  induction l with
  | nil => simp only [List.flatMap_nil, List.length_nil, Nat.zero_mul]
  | cons a as ih =>
    rewrite [List.flatMap_cons, List.length_append, ih, hf, List.length_cons, Nat.succ_mul]
    exact Nat.add_comm _ _

/-- position `i*n + j` of a `flatMap` whose blocks all have length `n` is position `j` of block `i`. -/
theorem getElem?_flatMap_const {ι α : Type} (f : ι → List α) (n : Nat) (hf : ∀ i, (f i).length = n) :
    ∀ (l : List ι) (i j : Nat), j < n → (l.flatMap f)[i * n + j]? = (l[i]?).bind (fun a => (f a)[j]?) := by
  intro l
  induction l with
  | nil => intro i j _; simp only [List.flatMap_nil, List.getElem?_nil, Option.bind_none]
  | cons a as ih =>
    intro i j hj
    rewrite [List.flatMap_cons]
    cases i with
    | zero =>
      rewrite [Nat.zero_mul, Nat.zero_add, List.getElem?_append_left (by rewrite [hf]; exact hj)]
      simp only [List.getElem?_cons_zero, Option.bind_some]
    | succ i =>
      have e : (i + 1) * n + j = (f a).length + (i * n + j) := by rewrite [hf, Nat.succ_mul]; omega
      rewrite [e, List.getElem?_append_right (Nat.le_add_right _ _), Nat.add_sub_cancel_left, ih i j hj]
      simp only [List.getElem?_cons_succ]

/-- the point list built by `split_edges` before `PentagonShape::from_vertices` (`polyNew`) -/
def splitPts (vs : Poly) (segments : Nat) : Poly :=
  let n := vs.length
  (List.range n).flatMap (fun i =>
    let v1 := vs.getD i default
    let v2 := vs.getD ((i + 1) % n) default
    v1 :: ((List.range (segments - 1)).map (fun j0 =>
      let t := Float.ofNat (j0 + 1) / Float.ofNat segments
      (⟨v1.x + t * (v2.x - v1.x), v1.y + t * (v2.y - v1.y)⟩ : V2))))

theorem polySplitEdges_eq (vs : Poly) (n : Nat) :
    polySplitEdges vs n = if n ≤ 1 then vs else polyNew (splitPts vs n) := Eq.trans rfl rfl

theorem splitPts_length (vs : Poly) (n : Nat) (hn : 1 ≤ n) : (splitPts vs n).length = vs.length * n := by
  unfold splitPts
  rewrite [length_flatMap_const _ n, List.length_range]
  · rfl
  · intro i
    rewrite [List.length_cons, List.length_map, List.length_range]
    omega

/-- `split_edges(n)` on a `k`-gon yields `k·n` points for every `n ≥ 1`. -/
theorem polySplitEdges_length (vs : Poly) (n : Nat) (hn : 1 ≤ n) :
    (polySplitEdges vs n).length = vs.length * n := by
  rewrite [polySplitEdges_eq]
  split
  · have : n = 1 := by omega
    subst this
    exact (Nat.mul_one _).symm
  · rewrite [polyNew_length]
    exact splitPts_length vs n hn

/-- for `n = 0` (and `n = 1`) the polygon is returned unchanged -/
theorem polySplitEdges_le_one (vs : Poly) (n : Nat) (hn : n ≤ 1) : polySplitEdges vs n = vs := by
  rewrite [polySplitEdges_eq, if_pos hn]; rfl

/-- corner `i` of the input sits at index `i·n` of the point list built inside `split_edges` -/
theorem splitPts_corner (vs : Poly) (n i : Nat) (hn : 1 ≤ n) (hi : i < vs.length) :
    (splitPts vs n)[i * n]? = vs[i]? := by
  unfold splitPts
  have h := getElem?_flatMap_const (fun i =>
      let v1 := vs.getD i default
      let v2 := vs.getD ((i + 1) % vs.length) default
      v1 :: ((List.range (n - 1)).map (fun j0 =>
        let t := Float.ofNat (j0 + 1) / Float.ofNat n
        (⟨v1.x + t * (v2.x - v1.x), v1.y + t * (v2.y - v1.y)⟩ : V2)))) n
      (by intro i; rewrite [List.length_cons, List.length_map, List.length_range]; omega)
      (List.range vs.length) i 0 (by omega)
  rewrite [Nat.add_zero] at h
  rewrite [h, List.getElem?_range hi]
  simp only [Option.bind_some, List.getElem?_cons_zero, List.getD_eq_getElem?_getD]
  rewrite [List.getElem?_eq_getElem hi]
  rfl

/-! ### `cell_to_boundary` -/

/-- the edge subdivision actually used -/
def boundarySegs (res : Int) : Option Nat → Nat
  | some n => n
  | none => max 1 (2 ^ (max (Gen.DEFAULT_SEGMENTS_BASE - res) 0).toNat)

theorem boundarySegs_none_pos (res : Int) : 1 ≤ boundarySegs res none := Nat.le_max_left _ _

theorem boundarySegs_none (res : Int) : boundarySegs res none = 2 ^ (6 - res).toNat := by
  simp only [boundarySegs, Gen.DEFAULT_SEGMENTS_BASE]
  have e : (max (6 - res) 0).toNat = (6 - res).toNat := by omega
  rewrite [e]
  exact Nat.max_eq_right (Nat.pow_pos (by omega))

theorem getResolution_zero : getResolution 0 = -1 := by
  rewrite [getResolution_eq]; exact resFrom_zero 30

/-- ids without a resolution marker (the world cell and its aliases) have an empty boundary -/
theorem cellToBoundary_world (id : Nat) (closed : Bool) (segs : Option Nat) (h : getResolution id = -1) :
    cellToBoundary id closed segs = .ok [] := by
  unfold cellToBoundary
  split
  · rfl
  · rewrite [deserialize_world id h]
    simp only [Outcome.bind_ok, if_true]

/-- Structure of a successful `cell_to_boundary` on a non-world cell: the ring is the reversal of
`nb` (plus its first point when closed), where `nb` has one entry per point of the split polygon. -/
theorem cellToBoundary_ok (id : Nat) (closed : Bool) (segs : Option Nat) (ring : List (Float × Float))
    (c : Cell) (hd : deserialize id = .ok c) (hres : c.res ≠ -1)
    (h : cellToBoundary id closed segs = .ok ring) :
    ∃ (p : Poly) (first : Float × Float) (rest : List (Float × Float)),
      getPentagon c = .ok p ∧
      (first :: rest).length = (polySplitEdges p (boundarySegs c.res segs)).length ∧
      ring = (if closed then (first :: rest) ++ [first] else first :: rest).reverse := by
  unfold cellToBoundary at h
  split at h
  · rename_i h0
    simp only [Gen.WORLD_CELL] at h0
    subst h0
    rewrite [deserialize_world 0 getResolution_zero] at hd
    cases Outcome.ok.inj hd
    exact absurd rfl hres
  · rewrite [hd] at h
    simp only [Outcome.bind_ok] at h
    rewrite [if_neg hres] at h
    obtain ⟨p, hp, h⟩ := Outcome.bind_eq_ok h
    obtain ⟨sph, hsph, h⟩ := Outcome.bind_eq_ok h
    obtain ⟨nb, hnb, h⟩ := Outcome.bind_eq_ok h
    have hlen : nb.length = (polySplitEdges p (boundarySegs c.res segs)).length := by
      rewrite [normalizeLongitudes_length _ _ hnb, List.length_map, mapOutcome'_length _ _ _ hsph]
      cases segs <;> rfl
    cases nb with
    | nil => cases h
    | cons first rest =>
      refine ⟨p, first, rest, hp, hlen, ?_⟩
      simp only at h
      exact (Outcome.ok.inj h).symm

/-- the closed ring is the open ring with the open ring's *last* point repeated in front (the first
point is pushed at the end and the whole list is then reversed) -/
def closeRing (r : List (Float × Float)) : List (Float × Float) :=
  match r.getLast? with
  | some x => x :: r
  | none => r

theorem cellToBoundary_closed_eq (id : Nat) (segs : Option Nat) :
    cellToBoundary id true segs = (cellToBoundary id false segs >>= fun r => .ok (closeRing r)) := by
  unfold cellToBoundary
  by_cases h0 : id = Gen.WORLD_CELL
  · rewrite [if_pos h0, if_pos h0]; rfl
  rewrite [if_neg h0, if_neg h0]
  cases deserialize id with
  | err e => rfl
  | panic k => rfl
  | ok c =>
    simp only [Outcome.bind_ok]
    by_cases hr : c.res = -1
    · rewrite [if_pos hr, if_pos hr]; rfl
    rewrite [if_neg hr, if_neg hr]
    cases getPentagon c with
    | err e => rfl
    | panic k => rfl
    | ok p =>
      simp only [Outcome.bind_ok]
      cases mapOutcome' (fun v => dodecaInverse v c.origin)
          (polySplitEdges p (match segs with
            | some n => n
            | none => max 1 (2 ^ (max (Gen.DEFAULT_SEGMENTS_BASE - c.res) 0).toNat))) with
      | err e => rfl
      | panic k => rfl
      | ok sph =>
        simp only [Outcome.bind_ok]
        cases normalizeLongitudes (sph.map (fun x => toLonLat x.1 x.2)) with
        | err e => rfl
        | panic k => rfl
        | ok nb =>
          simp only [Outcome.bind_ok]
          cases nb with
          | nil => rfl
          | cons first rest =>
            simp only [Outcome.bind_ok, if_true, closeRing]
            refine congrArg Outcome.ok ?_
            simp [List.reverse_append]

/-! ### generic twin of the longitude unwrapping loops -/

section twin
variable {α : Type} [Add α] [Sub α] [Neg α] [LT α] [DecidableLT α]

/-- `while lon - center < -180 { lon += 360 }` with explicit fuel, over any scalar type -/
def unwrapUpG (c180 c360 : α) : Nat → α → α → Outcome α
  | 0, _, _ => .panic .fuel
  | fuel + 1, lon, center =>
    if lon - center < -c180 then unwrapUpG c180 c360 fuel (lon + c360) center else .ok lon

/-- both loops of `normalize_longitudes`, over any scalar type; same shape as `unwrapLon` -/
def unwrapLonG (c180 c360 : α) : Nat → α → α → Outcome α
  | 0, _, _ => .panic .fuel
  | fuel + 1, lon, center =>
    if lon - center > c180 then unwrapLonG c180 c360 fuel (lon - c360) center
    else if lon - center < -c180 then unwrapUpG c180 c360 fuel (lon + c360) center
    else .ok lon

end twin

theorem unwrapLonUp_eq_twin : ∀ (fuel : Nat) (lon center : Float),
    unwrapLon.unwrapLonUp fuel lon center = unwrapUpG (180.0 : Float) 360.0 fuel lon center := by
  intro fuel
  induction fuel with
  | zero => intro lon center; rfl
  | succ n ih =>
    intro lon center
    unfold unwrapLon.unwrapLonUp unwrapUpG
    rewrite [ih]
    rfl

/-- the Float model of the unwrapping loops IS the generic twin at `Float` with the literals 180 and 360 -/
theorem unwrapLon_eq_twin : ∀ (fuel : Nat) (lon center : Float),
    unwrapLon fuel lon center = unwrapLonG (180.0 : Float) 360.0 fuel lon center := by
  intro fuel
  induction fuel with
  | zero => intro lon center; rfl
  | succ n ih =>
    intro lon center
    unfold unwrapLon unwrapLonG
    rewrite [ih, unwrapLonUp_eq_twin]
    rfl

end A5
