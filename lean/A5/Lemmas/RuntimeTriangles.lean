import A5.Gen.Runtime
import A5.Lemmas.AngularRoundTrip2
/-! # The spherical triangles the library actually uses satisfy the hypotheses of the round-trip theorems (part 1: theory)

`A5.Gen.Runtime.SPH_TRIANGLES` lists the 240 spherical triangles `(origin, face-triangle index, reflected, a, b, c)` of the
projection with the EXACT rational values (`FConst.toRat`) of their `f64` coordinates (regenerated from the running model on
every check run, cross-checked bit-for-bit against the library's own 62-vertex frame).

The theorems of `RadialRoundTrip`, `AngularRoundTrip*`, `SweepFormula*` (wrapped by `A5/Props/C15.lean` T7/T8 and
`A5/Props/C16.lean` T6) are stated for an arbitrary triangle of UNIT vectors under hypotheses H.  The table entries are
rounded, hence unit only to about `3.5e-16`: the real triangle of an entry is its NORMALISATION `v / ‖v‖` in `ℝ` (`unitR`,
`triR`: the model's own `normalizeR` applied to the exact value of the entry).

This file:
* defines the real normalised triangle `triR` of a table entry;
* defines a DECIDABLE rational certificate `TriOK` on the raw rational coordinates (squared norms in `1 ± 2⁻⁵⁰`, triple
  product `≥ 1/10`, `0 ≤ a·b, c·a ≤ 0.86`, `0.9 ≤ b·c ≤ 0.95`);
* proves once, generally, `TriOK t → TriHyp (triR t)` (`triHyp_of_triOK`), where `TriHyp` bundles H: unit vectors,
  `0 < V` (indeed `1/20 ≤ V`), `0 < 1 + a·b + b·c + c·a`, `0 < b·c`, `SLERP_SWITCH ≤ ∠(b,c)`, and - for EVERY `q ∈ [0,1]` -
  `SLERP_SWITCH ≤ ∠(a, slerp b c q)` (the apex stays away from the whole opposite edge: `edge_dot_le`).

`RuntimeTriangles2.lean` evaluates the certificate on the table (`decide +kernel`) and draws the corollaries.
Nothing here is about `f64` rounding: the coordinates are read as exact reals and all operations are real. -/
namespace A5.RuntimeTriangles
open A5 A5.RadialRoundTrip A5.AngularRoundTrip A5.Gen.Runtime

/-! ## 1. normalisation in `ℝ` -/

theorem normalizeR_of_pos {v : R3} (h : 0 < dotR v v) :
    normalizeR v = ⟨v.x / √(dotR v v), v.y / √(dotR v v), v.z / √(dotR v v)⟩ := by
  have hL : √(dotR v v) ≠ 0 := (Real.sqrt_pos.mpr h).ne'
  unfold normalizeR
  simp only [lengthR_eq]
  exact if_neg hL

theorem dotR_div (u v : R3) (k l : ℝ) :
    dotR ⟨u.x / k, u.y / k, u.z / k⟩ ⟨v.x / l, v.y / l, v.z / l⟩ = dotR u v / (k * l) := by
  simp only [dotR]; ring

theorem tripleR_div (a b c : R3) (k l m : ℝ) :
    tripleR ⟨a.x / k, a.y / k, a.z / k⟩ ⟨b.x / l, b.y / l, b.z / l⟩ ⟨c.x / m, c.y / m, c.z / m⟩
      = tripleR a b c / (k * l * m) := by
  simp only [tripleR, dotR, crossR]; ring

/-- inner product of two normalised vectors -/
theorem dotR_normalize {u v : R3} (hu : 0 < dotR u u) (hv : 0 < dotR v v) :
    dotR (normalizeR u) (normalizeR v) = dotR u v / (√(dotR u u) * √(dotR v v)) := by
  rw [normalizeR_of_pos hu, normalizeR_of_pos hv, dotR_div]

/-- a normalised non-zero vector is a unit vector -/
theorem dotR_normalize_self {u : R3} (hu : 0 < dotR u u) : dotR (normalizeR u) (normalizeR u) = 1 := by
  rw [dotR_normalize hu hu, Real.mul_self_sqrt hu.le]
  exact div_self hu.ne'

/-- triple product of three normalised vectors -/
theorem tripleR_normalize {a b c : R3} (ha : 0 < dotR a a) (hb : 0 < dotR b b) (hc : 0 < dotR c c) :
    tripleR (normalizeR a) (normalizeR b) (normalizeR c)
      = tripleR a b c / (√(dotR a a) * √(dotR b b) * √(dotR c c)) := by
  rw [normalizeR_of_pos ha, normalizeR_of_pos hb, normalizeR_of_pos hc, tripleR_div]

/-! ## 2. enclosures for nearly-unit vectors -/

/-- the product of the norms of two vectors whose squared norms are within `δ` of `1` is within `δ` of `1` -/
theorem sqrt_mul_bounds {x y δ : ℝ} (hδ1 : δ ≤ 1) (hx1 : 1 - δ ≤ x) (hx2 : x ≤ 1 + δ)
    (hy1 : 1 - δ ≤ y) (hy2 : y ≤ 1 + δ) : 1 - δ ≤ √x * √y ∧ √x * √y ≤ 1 + δ := by
  have hx0 : 0 ≤ x := by linarith
  have hy0 : 0 ≤ y := by linarith
  rw [← Real.sqrt_mul hx0 y]
  constructor
  · refine Real.le_sqrt_of_sq_le ?_
    nlinarith [mul_le_mul hx1 hy1 (by linarith) hx0]
  · refine Real.sqrt_le_iff.mpr ⟨by linarith, ?_⟩
    nlinarith [mul_le_mul hx2 hy2 hy0 (by linarith : (0 : ℝ) ≤ 1 + δ)]

/-- enclosure of a quotient `d / P` with `P` within `1/1000` of `1`: at most 1 % is lost on either side -/
theorem div_bounds {d P δ lo hi : ℝ} (hδ : δ ≤ 1 / 1000) (hP1 : 1 - δ ≤ P) (hP2 : P ≤ 1 + δ)
    (hlo : 0 ≤ lo) (h1 : lo ≤ d) (h2 : d ≤ hi) : lo * (99 / 100) ≤ d / P ∧ d / P ≤ hi * (101 / 100) := by
  have hP : 0 < P := by linarith
  have hhi : 0 ≤ hi := by linarith
  constructor
  · rw [le_div_iff₀ hP]
    nlinarith [mul_le_mul_of_nonneg_left (by linarith : P ≤ 1001 / 1000) hlo]
  · rw [div_le_iff₀ hP]
    nlinarith [mul_le_mul_of_nonneg_left (by linarith : (999 / 1000 : ℝ) ≤ P) hhi]

/-! ## 3. the apex stays away from the whole opposite edge -/

theorem slerpSwitchQ_le : slerpSwitchQ ≤ 1 / 10 := by decide +kernel

theorem slerpSwitch_le : slerpSwitch ≤ 1 / 10 := by
  have h : ((slerpSwitchQ : ℚ) : ℝ) ≤ ((1 / 10 : ℚ) : ℝ) := Rat.cast_le.mpr slerpSwitchQ_le
  rw [show ((1 / 10 : ℚ) : ℝ) = 1 / 10 by norm_num] at h
  exact h

/-- two unit vectors whose inner product is at most `0.99` are at least `SLERP_SWITCH` apart (`cos 0.1 > 0.995`) -/
theorem angle_ge_switch {a p : R3} (ha : dotR a a = 1) (hp : dotR p p = 1) (h : dotR a p ≤ 99 / 100) :
    slerpSwitch ≤ angleR a p := by
  obtain ⟨_, hcos, h0, _⟩ := angleR_unit ha hp
  by_contra hlt
  rw [not_le] at hlt
  have hsw := slerpSwitch_le
  have hc := Real.one_sub_sq_div_two_le_cos (x := angleR a p)
  rw [hcos] at hc
  nlinarith

/-- `dotR x (wa·b + wb·c)` -/
theorem dotR_comb_right (x b c : R3) (wa wb : ℝ) :
    dotR x (addR (scaleR b wa) (scaleR c wb)) = wa * dotR x b + wb * dotR c x := by
  simp only [dotR, addR, scaleR]; ring

/-- **The apex and the opposite edge.**  If `a·b ≤ 0.87`, `c·a ≤ 0.87` and `b·c ≥ 0.89` then `a·P ≤ 0.9` for EVERY point
`P = slerp b c q`, `0 ≤ q ≤ 1`, of the edge: `P = wa·b + wb·c` with `wa, wb ≥ 0`, and `|P| = 1` forces
`(wa + wb)² = 1 + 2·wa·wb·(1 - b·c) ≤ 1 + 0.055·(wa + wb)²`, i.e. `wa + wb ≤ 1.03`. -/
theorem edge_dot_le {a b c : R3} {q : ℝ} (hb : dotR b b = 1) (hc : dotR c c = 1)
    (hγ : slerpSwitch ≤ angleR b c) (hπ : angleR b c < Real.pi) (hq0 : 0 ≤ q) (hq1 : q ≤ 1)
    (hab : dotR a b ≤ 87 / 100) (hca : dotR c a ≤ 87 / 100) (hbc : 89 / 100 ≤ dotR b c) :
    dotR a (slerpR b c q) ≤ 9 / 10 := by
  have hpos : 0 < angleR b c := lt_of_lt_of_le slerpSwitch_pos hγ
  have hS : 0 < Real.sin (angleR b c) := Real.sin_pos_of_pos_of_lt_pi hpos hπ
  obtain ⟨hu, _, _⟩ := slerpR_spec q hb hc hγ hπ
  rw [slerpR_unfold q hγ] at hu ⊢
  have hwa : 0 ≤ Real.sin ((1 - q) * angleR b c) / Real.sin (angleR b c) := by
    refine div_nonneg (Real.sin_nonneg_of_nonneg_of_le_pi ?_ ?_) hS.le
    · exact mul_nonneg (by linarith) hpos.le
    · have : (1 - q) * angleR b c ≤ 1 * angleR b c := mul_le_mul_of_nonneg_right (by linarith) hpos.le
      linarith
  have hwb : 0 ≤ Real.sin (q * angleR b c) / Real.sin (angleR b c) := by
    refine div_nonneg (Real.sin_nonneg_of_nonneg_of_le_pi ?_ ?_) hS.le
    · exact mul_nonneg hq0 hpos.le
    · have : q * angleR b c ≤ 1 * angleR b c := mul_le_mul_of_nonneg_right hq1 hpos.le
      linarith
  rw [(dotR_comb b c _ _).1, hb, hc] at hu
  rw [dotR_comb_right]
  generalize Real.sin ((1 - q) * angleR b c) / Real.sin (angleR b c) = wa at *
  generalize Real.sin (q * angleR b c) / Real.sin (angleR b c) = wb at *
  have hp : 0 ≤ wa * wb := mul_nonneg hwa hwb
  have h1 : wa * wb * (1 - dotR b c) ≤ wa * wb * (11 / 100) := mul_le_mul_of_nonneg_left (by linarith) hp
  have h2 : 4 * (wa * wb) ≤ (wa + wb) ^ 2 := by nlinarith [sq_nonneg (wa - wb)]
  have h3 : (wa + wb) ^ 2 ≤ 1 + 2 * (wa * wb) * (11 / 100) := by nlinarith
  have hs : wa + wb ≤ 103 / 100 := by
    by_contra hlt
    rw [not_le] at hlt
    nlinarith
  have h4 : wa * dotR a b ≤ wa * (87 / 100) := mul_le_mul_of_nonneg_left hab hwa
  have h5 : wb * dotR c a ≤ wb * (87 / 100) := mul_le_mul_of_nonneg_left hca hwb
  nlinarith

/-! ## 4. the bundle of hypotheses H -/

/-- the hypotheses of `C15.angular_roundtrip` / `C15.polyhedral_roundtrip_real` (for EVERY `q ∈ [0,1]`) and of
`C16.equal_area_pointwise`, plus the quantitative `1/20 ≤ V` (which puts the area on the `asin` branch) -/
structure TriHyp (a b c : R3) : Prop where
  ha : dotR a a = 1
  hb : dotR b b = 1
  hc : dotR c c = 1
  hV : 0 < tripleR a b c
  hV' : 1 / 20 ≤ tripleR a b c
  hD : 0 < 1 + dotR a b + dotR b c + dotR c a
  hγ : slerpSwitch ≤ angleR b c
  hbc : 0 < dotR b c
  hγ' : ∀ q : ℝ, 0 ≤ q → q ≤ 1 → slerpSwitch ≤ angleR a (slerpR b c q)
  /-- quantitative extras (not needed by T7/T8/T6): the other two inner products are non-negative, the edge `b c` is
  at least `arccos 0.99` long, and the apex is at least `arccos 0.9 ≈ 0.45` rad away from every point of the edge -/
  hab0 : 0 ≤ dotR a b
  hca0 : 0 ≤ dotR c a
  hbcU : dotR b c ≤ 99 / 100
  hedge : ∀ q : ℝ, 0 ≤ q → q ≤ 1 → dotR a (slerpR b c q) ≤ 9 / 10

/-- `TriHyp` from bounds on UNIT vectors -/
theorem triHyp_of_unit {a b c : R3} (ha : dotR a a = 1) (hb : dotR b b = 1) (hc : dotR c c = 1)
    (hV : 1 / 20 ≤ tripleR a b c) (hab0 : 0 ≤ dotR a b) (hab : dotR a b ≤ 87 / 100)
    (hca0 : 0 ≤ dotR c a) (hca : dotR c a ≤ 87 / 100) (hbc : 89 / 100 ≤ dotR b c) (hbc' : dotR b c ≤ 99 / 100) :
    TriHyp a b c := by
  have hVpos : 0 < tripleR a b c := by linarith
  have hγ := angle_ge_switch hb hc hbc'
  have hπ := angle_bc_lt_pi ha hb hc hVpos
  refine ⟨ha, hb, hc, hVpos, hV, by linarith, hγ, by linarith, fun q hq0 hq1 => ?_, hab0, hca0, hbc',
    fun q hq0 hq1 => edge_dot_le hb hc hγ hπ hq0 hq1 hab hca hbc⟩
  obtain ⟨hu, _, _⟩ := slerpR_spec q hb hc hγ hπ
  exact angle_ge_switch ha hu ((edge_dot_le hb hc hγ hπ hq0 hq1 hab hca hbc).trans (by norm_num))

/-- `TriHyp` for the normalisation of three nearly-unit vectors (squared norms within `δ ≤ 1/1000` of `1`) -/
theorem triHyp_of_near_unit {a b c : R3} {δ : ℝ} (hδ : δ ≤ 1 / 1000)
    (ha1 : 1 - δ ≤ dotR a a) (ha2 : dotR a a ≤ 1 + δ) (hb1 : 1 - δ ≤ dotR b b) (hb2 : dotR b b ≤ 1 + δ)
    (hc1 : 1 - δ ≤ dotR c c) (hc2 : dotR c c ≤ 1 + δ)
    (hV : 1 / 10 ≤ tripleR a b c) (hab0 : 0 ≤ dotR a b) (hab : dotR a b ≤ 86 / 100)
    (hca0 : 0 ≤ dotR c a) (hca : dotR c a ≤ 86 / 100) (hbc : 9 / 10 ≤ dotR b c) (hbc' : dotR b c ≤ 95 / 100) :
    TriHyp (normalizeR a) (normalizeR b) (normalizeR c) := by
  have hδ1 : δ ≤ 1 := by linarith
  have ha0 : 0 < dotR a a := by linarith
  have hb0 : 0 < dotR b b := by linarith
  have hc0 : 0 < dotR c c := by linarith
  obtain ⟨pab1, pab2⟩ := sqrt_mul_bounds hδ1 ha1 ha2 hb1 hb2
  obtain ⟨pbc1, pbc2⟩ := sqrt_mul_bounds hδ1 hb1 hb2 hc1 hc2
  obtain ⟨pca1, pca2⟩ := sqrt_mul_bounds hδ1 hc1 hc2 ha1 ha2
  obtain ⟨dab1, dab2⟩ := div_bounds hδ pab1 pab2 le_rfl hab0 hab
  obtain ⟨dca1, dca2⟩ := div_bounds hδ pca1 pca2 le_rfl hca0 hca
  obtain ⟨dbc1, dbc2⟩ := div_bounds hδ pbc1 pbc2 (by norm_num) hbc hbc'
  have sa : √(dotR a a) ≤ 5 / 4 := Real.sqrt_le_iff.mpr ⟨by norm_num, by linarith⟩
  have sb : √(dotR b b) ≤ 5 / 4 := Real.sqrt_le_iff.mpr ⟨by norm_num, by linarith⟩
  have sc : √(dotR c c) ≤ 5 / 4 := Real.sqrt_le_iff.mpr ⟨by norm_num, by linarith⟩
  have sa0 : 0 < √(dotR a a) := Real.sqrt_pos.mpr ha0
  have sb0 : 0 < √(dotR b b) := Real.sqrt_pos.mpr hb0
  have sc0 : 0 < √(dotR c c) := Real.sqrt_pos.mpr hc0
  have hprod : √(dotR a a) * √(dotR b b) * √(dotR c c) ≤ 2 := by
    have h1 : √(dotR a a) * √(dotR b b) ≤ 5 / 4 * (5 / 4) := mul_le_mul sa sb sb0.le (by norm_num)
    have h2 : √(dotR a a) * √(dotR b b) * √(dotR c c) ≤ 5 / 4 * (5 / 4) * (5 / 4) :=
      mul_le_mul h1 sc sc0.le (by norm_num)
    linarith
  refine triHyp_of_unit (dotR_normalize_self ha0) (dotR_normalize_self hb0) (dotR_normalize_self hc0) ?_ ?_ ?_ ?_ ?_ ?_ ?_
  · rw [tripleR_normalize ha0 hb0 hc0, le_div_iff₀ (mul_pos (mul_pos sa0 sb0) sc0)]
    linarith
  · rw [dotR_normalize ha0 hb0]; linarith
  · rw [dotR_normalize ha0 hb0]; linarith
  · rw [dotR_normalize hc0 ha0]; linarith
  · rw [dotR_normalize hc0 ha0]; linarith
  · rw [dotR_normalize hb0 hc0]; linarith
  · rw [dotR_normalize hb0 hc0]; linarith

/-! ## 5. table entries: exact real value, normalised triangle, rational certificate -/

/-- the exact real value of a table vertex (its three `f64` coordinates read as rationals) -/
noncomputable def toR3 (v : V3C) : R3 := ⟨((v.x.toRat : ℚ) : ℝ), ((v.y.toRat : ℚ) : ℝ), ((v.z.toRat : ℚ) : ℝ)⟩

/-- the unit vector of a table vertex: the model's `normalizeR` of its exact value -/
noncomputable def unitR (v : V3C) : R3 := normalizeR (toR3 v)

/-- the real, normalised triangle of a table entry -/
noncomputable def triR (t : V3C × V3C × V3C) : R3 × R3 × R3 := (unitR t.1, unitR t.2.1, unitR t.2.2)

/-- inner product of the raw rational coordinates -/
def dotQ (u v : V3C) : ℚ := u.x.toRat * v.x.toRat + u.y.toRat * v.y.toRat + u.z.toRat * v.z.toRat

/-- triple product `a · (b × c)` of the raw rational coordinates -/
def tripleQ (a b c : V3C) : ℚ :=
  a.x.toRat * (b.y.toRat * c.z.toRat - b.z.toRat * c.y.toRat)
    + a.y.toRat * (b.z.toRat * c.x.toRat - b.x.toRat * c.z.toRat)
    + a.z.toRat * (b.x.toRat * c.y.toRat - b.y.toRat * c.x.toRat)

theorem dotR_toR3 (u v : V3C) : dotR (toR3 u) (toR3 v) = ((dotQ u v : ℚ) : ℝ) := by
  simp only [dotR, toR3, dotQ]; push_cast; ring

theorem tripleR_toR3 (a b c : V3C) : tripleR (toR3 a) (toR3 b) (toR3 c) = ((tripleQ a b c : ℚ) : ℝ) := by
  simp only [tripleR, dotR, crossR, toR3, tripleQ]; push_cast; ring

/-- tolerance on the squared norms: `2⁻⁵⁰ ≈ 8.9e-16` -/
def normTol : ℚ := 1 / 2 ^ 50

/-- the squared norm of the raw coordinates is within `2⁻⁵⁰` of `1` -/
def NormOK (v : V3C) : Prop := 1 - normTol ≤ dotQ v v ∧ dotQ v v ≤ 1 + normTol

/-- **the rational certificate** of a table triangle `(a, b, c)` (raw `f64` coordinates, no normalisation, no square
root): nearly unit, triple product `≥ 0.1` (counter-clockwise), `0 ≤ a·b ≤ 0.86`, `0 ≤ c·a ≤ 0.86`, `0.9 ≤ b·c ≤ 0.95`. -/
def TriOK (t : V3C × V3C × V3C) : Prop :=
  NormOK t.1 ∧ NormOK t.2.1 ∧ NormOK t.2.2 ∧
  1 / 10 ≤ tripleQ t.1 t.2.1 t.2.2 ∧
  0 ≤ dotQ t.1 t.2.1 ∧ dotQ t.1 t.2.1 ≤ 86 / 100 ∧
  0 ≤ dotQ t.2.2 t.1 ∧ dotQ t.2.2 t.1 ≤ 86 / 100 ∧
  9 / 10 ≤ dotQ t.2.1 t.2.2 ∧ dotQ t.2.1 t.2.2 ≤ 95 / 100

instance (v : V3C) : Decidable (NormOK v) := by unfold NormOK; exact inferInstance
instance (t : V3C × V3C × V3C) : Decidable (TriOK t) := by unfold TriOK; exact inferInstance

theorem normTol_real : ((normTol : ℚ) : ℝ) ≤ 1 / 1000 := by
  have h : ((normTol : ℚ) : ℝ) ≤ ((1 / 1000 : ℚ) : ℝ) := Rat.cast_le.mpr (by decide +kernel)
  rw [show ((1 / 1000 : ℚ) : ℝ) = 1 / 1000 by norm_num] at h
  exact h

/-- transport of a rational inequality to `ℝ` with the casts of the two sides evaluated separately -/
theorem cast_le_of {p q : ℚ} {x y : ℝ} (hx : ((p : ℚ) : ℝ) = x) (hy : ((q : ℚ) : ℝ) = y) (h : p ≤ q) : x ≤ y := by
  rw [← hx, ← hy]; exact Rat.cast_le.mpr h

theorem NormOK.real {v : V3C} (h : NormOK v) :
    1 - ((normTol : ℚ) : ℝ) ≤ dotR (toR3 v) (toR3 v) ∧ dotR (toR3 v) (toR3 v) ≤ 1 + ((normTol : ℚ) : ℝ) := by
  rw [dotR_toR3]
  exact ⟨by exact_mod_cast h.1, by exact_mod_cast h.2⟩

/-- **`TriOK → H`**: a triangle whose raw rational coordinates pass the certificate satisfies, after normalisation in
`ℝ`, every hypothesis of the round-trip and equal-area theorems. -/
theorem triHyp_of_triOK {t : V3C × V3C × V3C} (h : TriOK t) : TriHyp (triR t).1 (triR t).2.1 (triR t).2.2 := by
  obtain ⟨na, nb, nc, hV, hab0, hab, hca0, hca, hbc, hbc'⟩ := h
  refine triHyp_of_near_unit normTol_real na.real.1 na.real.2 nb.real.1 nb.real.2 nc.real.1 nc.real.2
    ?_ ?_ ?_ ?_ ?_ ?_ ?_
  · rw [tripleR_toR3]; exact cast_le_of (by norm_num) rfl hV
  · rw [dotR_toR3]; exact cast_le_of (by norm_num) rfl hab0
  · rw [dotR_toR3]; exact cast_le_of rfl (by norm_num) hab
  · rw [dotR_toR3]; exact cast_le_of (by norm_num) rfl hca0
  · rw [dotR_toR3]; exact cast_le_of rfl (by norm_num) hca
  · rw [dotR_toR3]; exact cast_le_of (by norm_num) rfl hbc
  · rw [dotR_toR3]; exact cast_le_of rfl (by norm_num) hbc'

/-- the normalised vertex is the raw vertex divided by its norm, and the norm is within `2⁻⁵⁰` of `1`
(so every coordinate moves by less than `1e-15` under the normalisation) -/
theorem unitR_eq {v : V3C} (h : NormOK v) :
    unitR v = ⟨(toR3 v).x / lengthR (toR3 v), (toR3 v).y / lengthR (toR3 v), (toR3 v).z / lengthR (toR3 v)⟩ ∧
    1 - ((normTol : ℚ) : ℝ) ≤ lengthR (toR3 v) ∧ lengthR (toR3 v) ≤ 1 + ((normTol : ℚ) : ℝ) := by
  have hδ := normTol_real
  have h0 : 0 < dotR (toR3 v) (toR3 v) := by linarith [h.real.1]
  refine ⟨normalizeR_of_pos h0, ?_, ?_⟩
  · have := (sqrt_mul_bounds (by linarith) h.real.1 h.real.2 h.real.1 h.real.2).1
    rw [Real.mul_self_sqrt h0.le] at this
    rw [lengthR_eq]
    refine Real.le_sqrt_of_sq_le ?_
    have hq : (0 : ℝ) ≤ ((normTol : ℚ) : ℝ) := by exact_mod_cast (by decide +kernel : (0 : ℚ) ≤ normTol)
    nlinarith
  · rw [lengthR_eq]
    refine Real.sqrt_le_iff.mpr ⟨by linarith [h.real.1, h.real.2], ?_⟩
    have hq : (0 : ℝ) ≤ ((normTol : ℚ) : ℝ) := by exact_mod_cast (by decide +kernel : (0 : ℚ) ≤ normTol)
    nlinarith [h.real.2]

end A5.RuntimeTriangles
