import A5.Lemmas.Total2
/-! Totality, part 3 (core-only): `uncompact` (under the explicit "result is small" scope condition) and
`compact` (unconditionally: the termination argument of the `while changed` loop as a theorem). -/
namespace A5

/-! ### `getNumChildren = 1` only at equal resolutions -/

theorem getNumChildren_low_ne_one : ∀ a : Nat, a < 3 → ∀ b : Nat, b < 31 → (a : Int) - 1 < (b : Int) - 1 →
    getNumChildren ((a : Int) - 1) ((b : Int) - 1) ≠ .ok 1 := by decide

theorem getNumChildren_eq_one (r R : Int) (hr : -1 ≤ r) (hR : R ≤ 29) (h : getNumChildren r R = .ok 1) :
    r = R := by
  apply Classical.byContradiction
  intro hne
  by_cases hlt : R < r
  · unfold getNumChildren at h; rewrite [if_pos hlt] at h; cases h
  by_cases h2 : r < 2
  · obtain ⟨a, ha⟩ : ∃ a : Nat, r = (a : Int) - 1 := ⟨(r + 1).toNat, by omega⟩
    obtain ⟨b, hb⟩ : ∃ b : Nat, R = (b : Int) - 1 := ⟨(R + 1).toNat, by omega⟩
    subst ha hb
    exact getNumChildren_low_ne_one a (by omega) b (by omega) (by omega) h
  · unfold getNumChildren at h
    rewrite [if_neg hlt, if_neg (by omega), firstHilbert_eq, if_pos (by omega)] at h
    have hrng : i32InRange (R - r) = true := by simp only [i32InRange, decide_eq_true_eq]; omega
    simp only [i32Sub, hrng, if_true, Outcome.bind_ok] at h
    rewrite [if_pos ((four_pow_lt_iff _).mpr (by omega))] at h
    have h1 := Outcome.ok.inj h
    obtain ⟨d, hd⟩ : ∃ d : Nat, (R - r).toNat = d + 1 := ⟨(R - r).toNat - 1, by omega⟩
    rewrite [hd, Nat.pow_succ] at h1
    have := Nat.pow_pos (n := d) (show 0 < 4 by omega)
    omega

/-! ### `uncompact` -/

/-- number of cells one input contributes to `uncompact … R` (0 where `get_num_children` is not `ok`) -/
def fanoutTo (R : Int) (c : Nat) : Nat :=
  match getNumChildren (getResolution c) R with
  | .ok k => k
  | _ => 0

/-- size of the honest result of `uncompact cells R` -/
def uncompactSize (cells : List Nat) (R : Int) : Nat := (cells.map (fanoutTo R)).sum

theorem uncompact_count_cons (t : Int) (c : Nat) (cs : List Nat) (n : Nat) :
    uncompact.count t (c :: cs) n =
      (if getResolution c > t then .err .targetCoarser
       else getNumChildren (getResolution c) t >>= fun k => u64Add n k >>= fun n' => uncompact.count t cs n') := rfl

/-- the counting loop: an error, or exactly the running total; never an overflow while the total fits -/
theorem uncompact_count (R : Int) (hR : R ≤ 29) : ∀ (cells : List Nat) (n : Nat),
    n + uncompactSize cells R < 2 ^ 64 →
    uncompact.count R cells n = .err .targetCoarser ∨
    uncompact.count R cells n = .ok (n + uncompactSize cells R) := by
  intro cells
  induction cells with
  | nil => intro n _; exact Or.inr rfl
  | cons c cs ih =>
    intro n hn
    rewrite [uncompact_count_cons]
    by_cases hgt : getResolution c > R
    · rewrite [if_pos hgt]; exact Or.inl rfl
    · rewrite [if_neg hgt]
      obtain ⟨k, hk⟩ := getNumChildren_ok (getResolution c) R hR
      have hf : fanoutTo R c = k := by unfold fanoutTo; rewrite [hk]; rfl
      have hsz : uncompactSize (c :: cs) R = k + uncompactSize cs R := by
        unfold uncompactSize; rewrite [List.map_cons, List.sum_cons, hf]; rfl
      rewrite [hsz] at hn ⊢
      rewrite [hk]; simp only [Outcome.bind_ok]
      rewrite [u64Add_ok _ _ (by omega)]; simp only [Outcome.bind_ok]
      have := ih (n + k) (by omega)
      rewrite [show n + (k + uncompactSize cs R) = n + k + uncompactSize cs R by omega]
      exact this

/-- the per-cell step of the second loop -/
def uncompactStep (R : Int) (c : Nat) : Outcome (List Nat) :=
  getNumChildren (getResolution c) R >>= fun k =>
    if k = 1 then cellToParent c (some (getResolution c)) >>= fun x => .ok [x]
    else cellToChildren c (some R)

theorem uncompact_unfold (cells : List Nat) (R : Int) (hR : R ≤ 29) :
    uncompact cells R =
      (uncompact.count R cells 0 >>= fun n =>
        if n * 8 ≥ 2 ^ 63 then .panic .capacity else flatMapOutcome (uncompactStep R) cells) := by
  unfold uncompact
  rewrite [maxRes_eq, if_neg (by omega)]
  rfl

theorem uncompactStep_never_panics (R : Int) (hR : R ≤ 29) (c : Nat) : (uncompactStep R c).isPanic = false := by
  unfold uncompactStep
  obtain ⟨k, hk⟩ := getNumChildren_ok (getResolution c) R hR
  rewrite [hk]; simp only [Outcome.bind_ok]
  split
  · exact Outcome.bind_noPanic _ _ (cellToParent_never_panics _ _) (fun _ _ => rfl)
  · exact cellToChildren_never_panics _ _

theorem uncompactStep_valid (R : Int) (hR : R ≤ 29) (c : Nat) (ys : List Nat) (h : uncompactStep R c = .ok ys) :
    ∀ y ∈ ys, Layout y ∧ getResolution y = R := by
  unfold uncompactStep at h
  obtain ⟨k, hk, h⟩ := Outcome.bind_eq_ok _ _ _ h
  by_cases h1 : k = 1
  · rewrite [if_pos h1] at h
    obtain ⟨x, hx, h⟩ := Outcome.bind_eq_ok _ _ _ h
    cases Outcome.ok.inj h
    subst h1
    have e := getNumChildren_eq_one _ _ (getResolution_range c).1 hR hk
    obtain ⟨a, b, _⟩ := cellToParent_some_valid c _ x hx
    intro y hy
    rewrite [List.mem_singleton] at hy; subst hy
    exact ⟨a, b.trans e⟩
  · rewrite [if_neg h1] at h
    exact (cellToChildren_some_valid c R ys h).1

/-- **`uncompact` never panics** provided the honest result has fewer than `2^60` cells (the
allocation `Vec::with_capacity(n)` of `u64`s needs `8·n < 2^63`). -/
theorem uncompact_never_panics (cells : List Nat) (R : Int) (hsmall : uncompactSize cells R < 2 ^ 60) :
    (uncompact cells R).isPanic = false := by
  by_cases hR : R ≥ 30
  · unfold uncompact; rewrite [maxRes_eq, if_pos hR]; rfl
  have hR : R ≤ 29 := by omega
  rewrite [uncompact_unfold cells R hR]
  rcases uncompact_count R hR cells 0 (by omega) with h | h
  · rewrite [h]; rfl
  · rewrite [h]; simp only [Outcome.bind_ok]
    rewrite [if_neg (by omega)]
    exact flatMapOutcome_noPanic _ _ (fun c _ => uncompactStep_never_panics R hR c)

/-- every element of an `ok` result of `uncompact … R` is a canonical id of resolution `R` -/
theorem uncompact_valid (cells : List Nat) (R : Int) (ys : List Nat) (h : uncompact cells R = .ok ys) :
    (∀ y ∈ ys, Layout y ∧ getResolution y = R) ∧ R ≤ 29 := by
  by_cases hR : R ≥ 30
  · unfold uncompact at h; rewrite [maxRes_eq, if_pos hR] at h; cases h
  have hR : R ≤ 29 := by omega
  refine ⟨?_, hR⟩
  rewrite [uncompact_unfold cells R hR] at h
  obtain ⟨n, _, h⟩ := Outcome.bind_eq_ok _ _ _ h
  split at h
  · cases h
  · intro y hy
    obtain ⟨c, _, b, hb, hyb⟩ := flatMapOutcome_ok_mem _ _ _ h y hy
    exact uncompactStep_valid R hR c b hb y hyb

/-- out-of-range targets are rejected -/
theorem uncompact_exceeds (cells : List Nat) (R : Int) (hR : 30 ≤ R) : uncompact cells R = .err .exceedsMax := by
  unfold uncompact; rewrite [maxRes_eq, if_pos hR]; rfl

theorem uncompact_coarser (c : Nat) (cs : List Nat) (R : Int) (hR : R < getResolution c) :
    uncompact (c :: cs) R = .err .targetCoarser := by
  have := getResolution_range c
  rewrite [uncompact_unfold _ R (by omega), uncompact_count_cons, if_pos hR]
  simp only [Outcome.bind_err]

/-- `uncompact` looks at an id only through `get_resolution`, `cell_to_parent`, `cell_to_children` -/
theorem uncompact_alias (id : Nat) (c : Cell) (l : List Nat) (R : Int) (hd : deserialize id = .ok c) :
    uncompact (id :: l) R = uncompact (encNat c :: l) R := by
  by_cases hR : R ≥ 30
  · rewrite [uncompact_exceeds _ R hR, uncompact_exceeds _ R hR]; rfl
  have hR : R ≤ 29 := by omega
  have hstep : uncompactStep R id = uncompactStep R (encNat c) := by
    unfold uncompactStep
    rewrite [getResolution_alias id c hd, ← cellToParent_alias id c _ hd, ← cellToChildren_alias id c _ hd]
    rfl
  rewrite [uncompact_unfold _ R hR, uncompact_unfold _ R hR, uncompact_count_cons, uncompact_count_cons,
    flatMapOutcome_cons, flatMapOutcome_cons, getResolution_alias id c hd, hstep]
  rfl

/-! ### `compact`: the sibling test -/

theorem layout_bound (c : Nat) (hl : Layout c) :
    c < 60 * 2 ^ 58 ∧ (getResolution c = 0 → c < 12 * 2 ^ 58) := by
  rcases hl with rfl | ⟨f, hf, hid⟩ | ⟨t, ht, hid⟩ | ⟨r, t, s, h2, h29, ht, hs, hid⟩
  · exact ⟨by omega, fun _ => by omega⟩
  · exact ⟨by omega, fun _ => by omega⟩
  · have := (deserialize_shape1 c t ht hid).1
    exact ⟨by omega, fun h => by omega⟩
  · have := (deserialize_shapeH c r t s h2 h29 ht hs hid).1
    obtain ⟨_, _, _, _, hlt⟩ := shapeH_arith c r t s h2 h29 hs hid
    exact ⟨by omega, fun h => by omega⟩

theorem isFirstChild_ok (c : Nat) (res : Int) (h29 : res ≤ 29) : ∃ b, isFirstChild c res = .ok b := by
  unfold isFirstChild
  by_cases h2 : res < 2
  · rewrite [if_pos h2]; exact ⟨_, rfl⟩
  · rewrite [if_neg h2, maxRes_eq]
    have hrng : i32InRange (30 - res) = true := by simp only [i32InRange, decide_eq_true_eq]; omega
    simp only [i32Sub, hrng, if_true, Outcome.bind_ok]
    rewrite [if_neg (by omega)]
    have hn : 2 * (30 - res).toNat % 2 ^ 32 < 64 := by omega
    simp only [u64Shl, hn, if_true, Outcome.bind_ok]
    exact ⟨_, rfl⟩

theorem getStride_ok (res : Int) (h0 : 0 ≤ res) (h29 : res ≤ 29) :
    ∃ st, getStride res = .ok st ∧ (res < 2 → st = 2 ^ 58) ∧ (2 ≤ res → st ≤ 2 ^ 56) := by
  unfold getStride
  by_cases h2 : res < 2
  · rewrite [if_pos h2]
    refine ⟨1 * 2 ^ 58, u64Shl_ok _ _ (by decide) (by decide), fun _ => by omega, fun _ => by omega⟩
  · rewrite [if_neg h2, maxRes_eq]
    have hrng : i32InRange (30 - res) = true := by simp only [i32InRange, decide_eq_true_eq]; omega
    simp only [i32Sub, hrng, if_true, Outcome.bind_ok]
    rewrite [if_neg (by omega)]
    obtain ⟨n, hn⟩ : ∃ n : Nat, 2 * (30 - res).toNat % 2 ^ 32 = n := ⟨_, rfl⟩
    rewrite [hn]
    have hn56 : n ≤ 56 := by omega
    have hp : 2 ^ n ≤ 2 ^ 56 := Nat.pow_le_pow_right (by omega) hn56
    refine ⟨1 * 2 ^ n, u64Shl_ok _ _ (by omega) (by omega), fun _ => by omega, fun _ => by omega⟩

/-- the inner sibling loop cannot index out of bounds (`n ≤ rest.length`, guaranteed by the
`i + expected_children <= len` guard) and cannot overflow while `cell + i·stride` fits for the `i` it visits -/
theorem siblingsFollow_ok (cell stride : Nat) : ∀ (n j : Nat) (rest : List Nat), n ≤ rest.length →
    (∀ i, i < j + n → cell + i * stride < 2 ^ 64) → ∃ b, siblingsFollow cell stride n j rest = .ok b := by
  intro n
  induction n with
  | zero => intro j rest _ _; exact ⟨true, rfl⟩
  | succ n ih =>
    intro j rest hlen hb
    cases rest with
    | nil => simp only [List.length_nil] at hlen; omega
    | cons x xs =>
      have hj := hb j (by omega)
      simp only [siblingsFollow]
      have hm : u64Mul j stride = .ok (j * stride) := by
        unfold u64Mul; rewrite [if_pos (by omega)]; rfl
      rewrite [hm]; simp only [Outcome.bind_ok]
      rewrite [u64Add_ok _ _ hj]; simp only [Outcome.bind_ok]
      split
      · exact ⟨false, rfl⟩
      · exact ih (j + 1) xs (by simp only [List.length_cons] at hlen; omega)
          (fun i hi => hb i (by omega))

theorem expectedChildren_cases (res : Int) :
    (2 ≤ res ∧ expectedChildren res = 4) ∨ (res = 0 ∧ expectedChildren res = 12) ∨
    (res < 2 ∧ res ≠ 0 ∧ expectedChildren res = 5) := by
  unfold expectedChildren
  rewrite [firstHilbert_eq]
  by_cases h2 : res ≥ 2
  · rewrite [if_pos h2]; exact Or.inl ⟨h2, rfl⟩
  · rewrite [if_neg h2]
    by_cases h0 : res = 0
    · rewrite [if_pos h0]; exact Or.inr (Or.inl ⟨h0, rfl⟩)
    · rewrite [if_neg h0]; exact Or.inr (Or.inr ⟨by omega, h0, rfl⟩)

/-- (a) the sibling test on a canonical head never panics; a positive answer names a group of
`k ≥ 4` cells that is entirely inside the list -/
theorem groupAt_ok (c : Nat) (rest : List Nat) (hl : Layout c) :
    ∃ g k, groupAt c rest = .ok (g, k) ∧ (g = true → 4 ≤ k ∧ k ≤ rest.length + 1 ∧ 0 ≤ getResolution c) := by
  have hrr := getResolution_range c
  obtain ⟨hb60, hb12⟩ := layout_bound c hl
  unfold groupAt
  by_cases hneg : getResolution c < 0
  · rewrite [if_pos hneg]; exact ⟨false, 0, rfl, fun h => by cases h⟩
  rewrite [if_neg hneg]
  by_cases hk : expectedChildren (getResolution c) ≤ rest.length + 1
  · rewrite [if_pos hk]
    obtain ⟨fc, hfc⟩ := isFirstChild_ok c (getResolution c) hrr.2
    rewrite [hfc]; simp only [Outcome.bind_ok]
    cases fc with
    | false => exact ⟨false, _, rfl, fun h => by cases h⟩
    | true =>
      simp only [if_true]
      obtain ⟨st, hst, hlow, hhigh⟩ := getStride_ok (getResolution c) (by omega) hrr.2
      rewrite [hst]; simp only [Outcome.bind_ok]
      have hsf : ∃ b, siblingsFollow c st (expectedChildren (getResolution c) - 1) 1 rest = .ok b := by
        refine siblingsFollow_ok c st _ 1 rest (by omega) (fun i hi => ?_)
        rcases expectedChildren_cases (getResolution c) with ⟨h2, he⟩ | ⟨h0, he⟩ | ⟨h2, _, he⟩
        · have hs := hhigh h2
          have : i * st ≤ 3 * 2 ^ 56 := Nat.mul_le_mul (by omega) hs
          omega
        · have hs := hlow (by omega); subst hs
          have := hb12 h0
          omega
        · have hs := hlow h2; subst hs
          omega
      obtain ⟨b, hb⟩ := hsf
      rewrite [hb]; simp only [Outcome.bind_ok]
      refine ⟨b, _, rfl, fun _ => ⟨?_, hk, by omega⟩⟩
      rcases expectedChildren_cases (getResolution c) with ⟨_, he⟩ | ⟨_, he⟩ | ⟨_, _, he⟩ <;> omega
  · rewrite [if_neg hk]; exact ⟨false, _, rfl, fun h => by cases h⟩

/-- (b) the parent of a canonical id of resolution ≥ 0 is `ok` and canonical -/
theorem cellToParent_none_ok (c : Nat) (hl : Layout c) (h0 : 0 ≤ getResolution c) :
    ∃ p, cellToParent c none = .ok p ∧ Layout p := by
  obtain ⟨cell, hv, hd, _⟩ := deserialize_layout c hl
  have hres := deserialize_res c cell hd
  rewrite [cellToParent_none c cell hd]
  by_cases h : cell.res = 0
  · rewrite [h]
    exact ⟨0, cellToParent_world c cell hd, layout_zero⟩
  · obtain ⟨x, hx, hlx, _⟩ := cellToParent_ok c cell (cell.res - 1) hd (by omega) (by omega)
    exact ⟨x, hx, hlx⟩

/-! ### `compact`: one scan, and the loop -/

theorem compactScan_nil (k : Nat) : compactScan [] k = .ok ([], false) := rfl
theorem compactScan_skip (c : Nat) (rest : List Nat) (k : Nat) :
    compactScan (c :: rest) (k + 1) = compactScan rest k := rfl
theorem compactScan_zero (c : Nat) (rest : List Nat) :
    compactScan (c :: rest) 0 = (groupAt c rest >>= fun (g, k) =>
      if g then
        cellToParent c none >>= fun p =>
        compactScan rest (k - 1) >>= fun (out, _) => .ok (p :: out, true)
      else
        compactScan rest 0 >>= fun (out, ch) => .ok (c :: out, ch)) := rfl

/-- (c) one scan maps canonical ids to canonical ids, never panics, never makes the list longer, and
makes it strictly shorter whenever it reports a change -/
theorem compactScan_ok : ∀ (xs : List Nat) (skip : Nat), (∀ x ∈ xs, Layout x) →
    ∃ out ch, compactScan xs skip = .ok (out, ch) ∧ (∀ x ∈ out, Layout x) ∧
      out.length ≤ xs.length - skip ∧ (skip = 0 → ch = true → out.length < xs.length) := by
  intro xs
  induction xs with
  | nil => intro skip _; exact ⟨[], false, compactScan_nil skip, fun x hx => (by cases hx), Nat.zero_le _,
      fun _ h => (by cases h)⟩
  | cons c rest ih =>
    intro skip hl
    have hlrest : ∀ x ∈ rest, Layout x := fun x hx => hl x (List.mem_cons_of_mem _ hx)
    cases skip with
    | succ k =>
      obtain ⟨out, ch, e, ho, hlen, _⟩ := ih k hlrest
      refine ⟨out, ch, by rewrite [compactScan_skip]; exact e, ho, ?_, fun h => by omega⟩
      simp only [List.length_cons]; omega
    | zero =>
      obtain ⟨g, k, hg, hgk⟩ := groupAt_ok c rest (hl c List.mem_cons_self)
      rewrite [compactScan_zero, hg]; simp only [Outcome.bind_ok]
      cases g with
      | true =>
        obtain ⟨hk4, hklen, hres0⟩ := hgk rfl
        obtain ⟨p, hp, hlp⟩ := cellToParent_none_ok c (hl c List.mem_cons_self) hres0
        obtain ⟨out, ch, e, ho, hlen, _⟩ := ih (k - 1) hlrest
        simp only [if_true]
        rewrite [hp]; simp only [Outcome.bind_ok]
        rewrite [e]; simp only [Outcome.bind_ok]
        refine ⟨p :: out, true, rfl, ?_, ?_, fun _ _ => ?_⟩
        · intro x hx
          rcases List.mem_cons.mp hx with rfl | hx
          · exact hlp
          · exact ho x hx
        · simp only [List.length_cons]; omega
        · simp only [List.length_cons]; omega
      | false =>
        obtain ⟨out, ch, e, ho, hlen, hch⟩ := ih 0 hlrest
        simp only [Bool.false_eq_true, if_false]
        rewrite [e]; simp only [Outcome.bind_ok]
        refine ⟨c :: out, ch, rfl, ?_, ?_, fun _ h => ?_⟩
        · intro x hx
          rcases List.mem_cons.mp hx with rfl | hx
          · exact hl _ List.mem_cons_self
          · exact ho x hx
        · simp only [List.length_cons]; omega
        · have := hch rfl h
          simp only [List.length_cons]; omega

/-- (d) **termination**: with more fuel than elements the loop never runs out of fuel (every pass that
reports a change shortens the list), never panics, and returns canonical ids -/
theorem compactLoop_ok : ∀ (fuel : Nat) (xs : List Nat), (∀ x ∈ xs, Layout x) → xs.length < fuel →
    ∃ out, compactLoop fuel xs = .ok out ∧ (∀ x ∈ out, Layout x) ∧ out.length ≤ xs.length := by
  intro fuel
  induction fuel with
  | zero => intro xs _ h; omega
  | succ fuel ih =>
    intro xs hl hlen
    obtain ⟨out, ch, e, ho, hle, hch⟩ := compactScan_ok xs 0 hl
    simp only [compactLoop]
    rewrite [e]; simp only [Outcome.bind_ok]
    cases ch with
    | false => simp only [Bool.false_eq_true, if_false]; exact ⟨out, rfl, ho, by omega⟩
    | true =>
      simp only [if_true]
      have hlt := hch rfl rfl
      obtain ⟨out', e', ho', hle'⟩ := ih out ho (by omega)
      exact ⟨out', e', ho', by omega⟩

/-! ### `compact`: canonicalisation, dedup, sort -/

theorem insertByKey_mem (key : Nat → Nat) (x y : Nat) : ∀ l : List Nat, y ∈ insertByKey key x l → y = x ∨ y ∈ l := by
  intro l
  induction l with
  | nil => intro h; simp only [insertByKey, List.mem_singleton] at h; exact Or.inl h
  | cons z zs ih =>
    intro h
    simp only [insertByKey] at h
    split at h
    · rcases List.mem_cons.mp h with h | h
      · exact Or.inl h
      · exact Or.inr h
    · rcases List.mem_cons.mp h with h | h
      · exact Or.inr (h ▸ List.mem_cons_self)
      · rcases ih h with h | h
        · exact Or.inl h
        · exact Or.inr (List.mem_cons_of_mem _ h)

theorem insertByKey_length (key : Nat → Nat) (x : Nat) : ∀ l : List Nat, (insertByKey key x l).length = l.length + 1 := by
  intro l
  induction l with
  | nil => rfl
  | cons z zs ih =>
    simp only [insertByKey]
    split
    · rfl
    · simp only [List.length_cons, ih]

theorem sortByKey_mem (key : Nat → Nat) (y : Nat) : ∀ l : List Nat, y ∈ sortByKey key l → y ∈ l := by
  intro l
  induction l with
  | nil => intro h; exact h
  | cons x xs ih =>
    intro h
    rcases insertByKey_mem key x y _ (show y ∈ insertByKey key x (sortByKey key xs) from h) with h | h
    · exact h ▸ List.mem_cons_self
    · exact List.mem_cons_of_mem _ (ih h)

theorem sortByKey_length (key : Nat → Nat) : ∀ l : List Nat, (sortByKey key l).length = l.length := by
  intro l
  induction l with
  | nil => rfl
  | cons x xs ih =>
    show (insertByKey key x (sortByKey key xs)).length = _
    rewrite [insertByKey_length, ih]; rfl

theorem length_eraseDups_le_aux : ∀ (n : Nat) (l : List Nat), l.length ≤ n → l.eraseDups.length ≤ l.length := by
  intro n
  induction n with
  | zero =>
    intro l hl
    cases l with
    | nil => exact Nat.le_refl _
    | cons a as => simp only [List.length_cons] at hl; omega
  | succ n ih =>
    intro l hl
    cases l with
    | nil => exact Nat.le_refl _
    | cons a as =>
      rewrite [List.eraseDups_cons]
      have h1 := List.length_filter_le (fun b => !b == a) as
      simp only [List.length_cons] at hl ⊢
      have h2 := ih (as.filter fun b => !b == a) (by omega)
      omega

theorem length_eraseDups_le (l : List Nat) : l.eraseDups.length ≤ l.length :=
  length_eraseDups_le_aux l.length l (Nat.le_refl _)

/-- the canonicalisation step of `compact` -/
def canonId (c : Nat) : Outcome Nat := deserialize c >>= serialize

theorem canonId_cases (id : Nat) :
    (∃ c, deserialize id = .ok c ∧ canonId id = .ok (encNat c) ∧ Layout (encNat c)) ∨
    (deserialize id = .err .badOrigin ∧ canonId id = .err .badOrigin) := by
  unfold canonId
  rcases deserialize_cases id with ⟨c, hd⟩ | hd
  · have hv := deserialize_ok_valid' id c hd
    refine Or.inl ⟨c, hd, ?_, layout_enc c hv⟩
    rewrite [hd]; simp only [Outcome.bind_ok]; exact serialize_valid c hv
  · refine Or.inr ⟨hd, ?_⟩
    rewrite [hd]; simp only [Outcome.bind_err]

theorem canonId_never_panics (id : Nat) : (canonId id).isPanic = false := by
  rcases canonId_cases id with ⟨c, _, h, _⟩ | ⟨_, h⟩ <;> (rewrite [h]; rfl)

theorem compact_unfold (c : Nat) (cs : List Nat) :
    compact (c :: cs) = (mapOutcome canonId (c :: cs) >>= fun canon =>
      compactLoop (canon.eraseDups.length + 1) (sortByKey hierarchyKey canon.eraseDups)) := rfl

/-- the shape of every `compact` outcome: an error of the canonicalisation (an id that is not a cell),
or `ok` of canonical ids, no more of them than inputs -/
theorem compact_outcome (cells : List Nat) :
    (∃ e, compact cells = .err e ∧ mapOutcome canonId cells = .err e) ∨
    (∃ out, compact cells = .ok out ∧ (∀ x ∈ out, Layout x) ∧ out.length ≤ cells.length) := by
  cases cells with
  | nil => exact Or.inr ⟨[], rfl, fun x hx => (by cases hx), Nat.le_refl _⟩
  | cons c cs =>
    rewrite [compact_unfold]
    have hnp := mapOutcome_noPanic canonId (c :: cs) (fun a _ => canonId_never_panics a)
    cases hm : mapOutcome canonId (c :: cs) with
    | panic k => rewrite [hm] at hnp; cases hnp
    | err e => simp only [Outcome.bind_err]; exact Or.inl ⟨e, rfl, rfl⟩
    | ok canon =>
      simp only [Outcome.bind_ok]
      have hcanon : ∀ x ∈ canon, Layout x := by
        intro x hx
        obtain ⟨a, _, ha⟩ := mapOutcome_ok_mem canonId _ _ hm x hx
        rcases canonId_cases a with ⟨cc, _, h, hl⟩ | ⟨_, h⟩
        · rewrite [h] at ha; cases Outcome.ok.inj ha; exact hl
        · rewrite [h] at ha; cases ha
      have hsorted : ∀ x ∈ sortByKey hierarchyKey canon.eraseDups, Layout x :=
        fun x hx => hcanon x (List.mem_eraseDups.mp (sortByKey_mem _ _ _ hx))
      obtain ⟨out, e, ho, hle⟩ := compactLoop_ok (canon.eraseDups.length + 1) _ hsorted
        (by rewrite [sortByKey_length]; omega)
      refine Or.inr ⟨out, e, ho, ?_⟩
      have h1 := mapOutcome_ok_length canonId _ _ hm
      have h2 : canon.eraseDups.length ≤ canon.length := length_eraseDups_le _
      rewrite [sortByKey_length] at hle
      omega

/-- **`compact` never panics and always terminates**, for every list of ids, with no hypothesis -/
theorem compact_never_panics (cells : List Nat) : (compact cells).isPanic = false := by
  rcases compact_outcome cells with ⟨e, h, _⟩ | ⟨out, h, _⟩ <;> (rewrite [h]; rfl)

theorem compact_valid (cells out : List Nat) (h : compact cells = .ok out) :
    (∀ x ∈ out, Layout x) ∧ out.length ≤ cells.length := by
  rcases compact_outcome cells with ⟨e, h', _⟩ | ⟨out', h', a, b⟩
  · rewrite [h'] at h; cases h
  · rewrite [h'] at h; cases Outcome.ok.inj h; exact ⟨a, b⟩

/-- `compact` sees an id only through its canonical form -/
theorem compact_alias (id : Nat) (c : Cell) (l : List Nat) (hd : deserialize id = .ok c) :
    compact (id :: l) = compact (encNat c :: l) := by
  have hv := deserialize_ok_valid' id c hd
  have h : canonId id = canonId (encNat c) := by
    unfold canonId; rewrite [hd, deserialize_enc c hv]; rfl
  rewrite [compact_unfold, compact_unfold, mapOutcome_congr_head canonId _ _ l h]
  rfl

/-- an id that does not decode makes `compact` fail with that error if everything before it decodes -/
theorem compact_bad_head (id : Nat) (l : List Nat) (hd : deserialize id = .err .badOrigin) :
    compact (id :: l) = .err .badOrigin := by
  have h : canonId id = .err .badOrigin := by unfold canonId; rewrite [hd]; simp only [Outcome.bind_err]
  rewrite [compact_unfold, mapOutcome_cons, h]; simp only [Outcome.bind_err]

/-! ### rejected inputs stay rejected: an `ok` result means every input decoded -/

theorem mapOutcome_ok_all {α β} (f : α → Outcome β) : ∀ (l : List α) (ys : List β),
    mapOutcome f l = .ok ys → ∀ a ∈ l, ∃ b, f a = .ok b := by
  intro l
  induction l with
  | nil => intro ys _ a ha; cases ha
  | cons x xs ih =>
    intro ys h a ha
    rewrite [mapOutcome_cons] at h
    obtain ⟨b, hb, h⟩ := Outcome.bind_eq_ok _ _ _ h
    obtain ⟨bs, hbs, _⟩ := Outcome.bind_eq_ok _ _ _ h
    rcases List.mem_cons.mp ha with rfl | ha
    · exact ⟨b, hb⟩
    · exact ih bs hbs a ha

theorem flatMapOutcome_ok_all {α β} (f : α → Outcome (List β)) : ∀ (l : List α) (ys : List β),
    flatMapOutcome f l = .ok ys → ∀ a ∈ l, ∃ b, f a = .ok b := by
  intro l
  induction l with
  | nil => intro ys _ a ha; cases ha
  | cons x xs ih =>
    intro ys h a ha
    rewrite [flatMapOutcome_cons] at h
    obtain ⟨b, hb, h⟩ := Outcome.bind_eq_ok _ _ _ h
    obtain ⟨bs, hbs, _⟩ := Outcome.bind_eq_ok _ _ _ h
    rcases List.mem_cons.mp ha with rfl | ha
    · exact ⟨b, hb⟩
    · exact ih bs hbs a ha

theorem compact_ok_decodes (cells out : List Nat) (h : compact cells = .ok out) :
    ∀ c ∈ cells, ∃ cell, deserialize c = .ok cell := by
  intro c hc
  cases cells with
  | nil => cases hc
  | cons x xs =>
    rewrite [compact_unfold] at h
    obtain ⟨canon, hm, _⟩ := Outcome.bind_eq_ok _ _ _ h
    obtain ⟨b, hb⟩ := mapOutcome_ok_all canonId _ _ hm c hc
    rcases canonId_cases c with ⟨cell, hd, _, _⟩ | ⟨_, he⟩
    · exact ⟨cell, hd⟩
    · rewrite [he] at hb; cases hb

theorem uncompact_ok_decodes (cells : List Nat) (R : Int) (ys : List Nat) (h : uncompact cells R = .ok ys) :
    ∀ c ∈ cells, (∃ cell, deserialize c = .ok cell) ∧ getResolution c ≤ R := by
  intro c hc
  have hR := (uncompact_valid cells R ys h).2
  rewrite [uncompact_unfold cells R hR] at h
  obtain ⟨n, _, h⟩ := Outcome.bind_eq_ok _ _ _ h
  split at h
  · cases h
  · obtain ⟨b, hb⟩ := flatMapOutcome_ok_all _ _ _ h c hc
    unfold uncompactStep at hb
    obtain ⟨k, hk, hb⟩ := Outcome.bind_eq_ok _ _ _ hb
    rcases deserialize_cases c with ⟨cell, hd⟩ | hd
    · refine ⟨⟨cell, hd⟩, ?_⟩
      have hres := deserialize_res c cell hd
      apply Classical.byContradiction
      intro hgt
      have hk0 : getNumChildren (getResolution c) R = .ok 0 := by
        unfold getNumChildren; rewrite [if_pos (by omega)]; rfl
      rewrite [hk0] at hk
      cases Outcome.ok.inj hk
      rewrite [if_neg (by omega), cellToChildren_coarser c cell R hd (by omega)] at hb
      cases hb
    · rewrite [cellToParent_err c _ _ hd, cellToChildren_err c _ _ hd] at hb
      simp only [Outcome.bind_err] at hb
      split at hb <;> cases hb

/-! ### `getNumCells`, `getRes0Cells`, the world cell -/

theorem lookup_mem {α : Type} (k : Int) (v : α) : ∀ l : List (Int × α), l.lookup k = some v → (k, v) ∈ l := by
  intro l
  induction l with
  | nil => intro h; cases h
  | cons p ps ih =>
    intro h
    obtain ⟨k', v'⟩ := p
    simp only [List.lookup] at h
    split at h
    · rename_i heq
      have hk : k = k' := by simpa using heq
      cases Option.some.inj h
      subst hk
      exact List.mem_cons_self
    · exact List.mem_cons_of_mem _ (ih h)

/-- `get_num_cells` is a total function into `u64` for every integer argument (saturating) -/
theorem getNumCells_lt (r : Int) : getNumCells r < 2 ^ 64 := by
  unfold getNumCells
  split
  · omega
  · split
    · rename_i n hn
      have hm := lookup_mem r n _ hn
      simp only [Gen.NUM_CELLS_SPECIAL, List.mem_cons, List.mem_nil_iff, or_false, Prod.mk.injEq] at hm
      omega
    · simp only
      split
      · rename_i h; exact h.2
      · omega

theorem getRes0Cells_eq : getRes0Cells = .ok ((List.range 12).map (fun f => f * 2 ^ 58 + 2 ^ 57)) := by decide

theorem layout_res_neg (x : Nat) (hl : Layout x) (hr : getResolution x = -1) : x = 0 := by
  rcases hl with rfl | ⟨f, hf, hid⟩ | ⟨t, ht, hid⟩ | ⟨r, t, s, h2, h29, ht, hs, hid⟩
  · rfl
  · have := (deserialize_shape0 x f hf hid).1; omega
  · have := (deserialize_shape1 x t ht hid).1; omega
  · have := (deserialize_shapeH x r t s h2 h29 ht hs hid).1; omega

end A5
