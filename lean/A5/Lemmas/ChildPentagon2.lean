import A5.Lemmas.ChildPentagon
/-! # Parent ↔ child pentagons, part 2: every child pentagon shares interior area with its parent (planar C12)

Polygons are lists of rational points, wound CLOCKWISE like the seed pentagon (`areaG 0 seedQ > 0`; `rot180` and
`reflectY` — which mirrors AND reverses the list — keep the winding, `pentagon_convexCW`).  A point is strictly inside a
convex clockwise polygon iff every edge has it strictly on its right: `StrictIn`.

**T-overlap** (`child_overlaps_parent`): for every depth `1 ≤ n+1 < 30`, orientation, position and child there is a
point strictly inside both the parent pentagon `pentagonQ ap` and the child pentagon scaled to the parent's frame
`scaleG' (pentagonQ ac) (1/2)`.  The witness is the vertex mean of the Sutherland–Hodgman clip of the child by the
parent, computed in exact arithmetic for each of the finitely many step quads (`witness`, `overlap_table`), and
translated by `BASIS * parent offset`.  Depth 0 → 1 (parent = quintant triangle): `root_child_overlaps`. -/
namespace A5.CP
open A5 A5.HilbertLocate A5.PG

abbrev Pt := ℚ × ℚ

/-! ## polygon primitives -/

/-- `(b − a) × (q − a)`: negative iff `q` is strictly to the right of the directed line `a → b` -/
def cross (a b q : Pt) : ℚ := (b.1 - a.1) * (q.2 - a.2) - (b.2 - a.2) * (q.1 - a.1)

/-- the cyclic list of edges `(v₀,v₁), (v₁,v₂), …, (vₙ₋₁,v₀)` -/
def edges (P : List Pt) : List (Pt × Pt) := P.zip (P.tail ++ P.take 1)

/-- strictly inside a convex clockwise polygon -/
def StrictIn (P : List Pt) (q : Pt) : Prop := ∀ e ∈ edges P, cross e.1 e.2 q < 0
instance (P : List Pt) (q : Pt) : Decidable (StrictIn P q) := by unfold StrictIn; infer_instance

/-- inside or on the boundary of a convex clockwise polygon -/
def InClosed (P : List Pt) (q : Pt) : Prop := ∀ e ∈ edges P, cross e.1 e.2 q ≤ 0
instance (P : List Pt) (q : Pt) : Decidable (InClosed P q) := by unfold InClosed; infer_instance

/-- strictly convex and clockwise: every vertex is strictly to the right of the edge two steps before it -/
def ConvexCW (P : List Pt) : Prop := ∀ t ∈ (edges P).zip (P.drop 2 ++ P.take 2), cross t.1.1 t.1.2 t.2 < 0
instance (P : List Pt) : Decidable (ConvexCW P) := by unfold ConvexCW; infer_instance

def shift (t v : Pt) : Pt := (v.1 + t.1, v.2 + t.2)

theorem edges_map (f : Pt → Pt) (P : List Pt) : edges (P.map f) = (edges P).map (Prod.map f f) := by
  unfold edges
  rewrite [← List.map_tail, ← List.map_take, ← List.map_append, List.zip_map]
  rfl

theorem cross_shift (t a b q : Pt) : cross (shift t a) (shift t b) (shift t q) = cross a b q := by
  unfold cross shift; ring

theorem StrictIn.shift {P : List Pt} {q : Pt} (h : StrictIn P q) (t : Pt) : StrictIn (P.map (shift t)) (shift t q) := by
  unfold StrictIn at h ⊢
  rewrite [edges_map]
  intro e he
  obtain ⟨e0, he0, rfl⟩ := List.mem_map.1 he
  rewrite [Prod.map_fst, Prod.map_snd, cross_shift]
  exact h e0 he0

theorem InClosed.shift {P : List Pt} {q : Pt} (h : InClosed P q) (t : Pt) : InClosed (P.map (shift t)) (shift t q) := by
  unfold InClosed at h ⊢
  rewrite [edges_map]
  intro e he
  obtain ⟨e0, he0, rfl⟩ := List.mem_map.1 he
  rewrite [Prod.map_fst, Prod.map_snd, cross_shift]
  exact h e0 he0

theorem ConvexCW.shift {P : List Pt} (h : ConvexCW P) (t : Pt) : ConvexCW (P.map (shift t)) := by
  unfold ConvexCW at h ⊢
  rewrite [edges_map, ← List.map_drop, ← List.map_take, ← List.map_append, List.zip_map]
  intro e he
  obtain ⟨e0, he0, rfl⟩ := List.mem_map.1 he
  simp only [Prod.map_fst, Prod.map_snd, cross_shift]
  exact h e0 he0

/-! ## Sutherland–Hodgman clipping of a polygon by a convex clockwise polygon, exact arithmetic -/

/-- contribution of the subject edge `s → e` when clipping by the half-plane to the right of `a → b` -/
def clipStep (a b s e : Pt) : List Pt :=
  let cs := cross a b s
  let ce := cross a b e
  let ix : Pt := (s.1 + (e.1 - s.1) * (cs / (cs - ce)), s.2 + (e.2 - s.2) * (cs / (cs - ce)))
  if ce ≤ 0 then (if cs ≤ 0 then [e] else [ix, e]) else (if cs ≤ 0 then [ix] else [])

def clipEdge (poly : List Pt) (ab : Pt × Pt) : List Pt :=
  (edges poly).flatMap (fun se => clipStep ab.1 ab.2 se.1 se.2)

/-- `subject ∩ clipper` for a convex clockwise `clipper` -/
def clip (subject clipper : List Pt) : List Pt := (edges clipper).foldl clipEdge subject

/-- vertex mean -/
def mean (P : List Pt) : Pt := ((P.map Prod.fst).sum / P.length, (P.map Prod.snd).sum / P.length)

/-! ## the pentagons in the parent's local frame -/

section generic
variable {K : Type} [Field K]

/-- the seed pentagon after the rotate / reflect / `±w` steps of `get_pentagon_vertices`, before the translation by
`BASIS * offset`; `r` = the value of `needsReflect` -/
def localPentG (P : List (K × K)) (w : K × K) (F : Int × Int) (r : Bool) : List (K × K) :=
  let p := P
  let p := if F.1 == Gen.NO && F.2 == Gen.YES then rot180 p else p
  let p := if r then reflectY p else p
  if F.1 == Gen.YES && F.2 == Gen.YES then rot180 p
  else if F.1 == Gen.YES then translate p (-w.1, -w.2)
  else if F.2 == Gen.YES then translate p w
  else p

theorem pentagonLocalG_eq (P : List (K × K)) (w : K × K) (b : K × K × K × K) (a : Anchor) :
    pentagonLocalG P w b (fun z => (z : K)) a =
      (localPentG P w a.flips (needsReflect a)).map
        (fun v => (v.1 + (b.1 * (a.offset.1 : K) + b.2.1 * (a.offset.2 : K)),
          v.2 + (b.2.2.1 * (a.offset.1 : K) + b.2.2.2 * (a.offset.2 : K)))) := by
  obtain ⟨b00, b01, b10, b11⟩ := b
  rfl

end generic

/-- `BASIS * offset` -/
def basisMul (o : Int × Int) : Pt :=
  (basisQ.1 * (o.1 : ℚ) + basisQ.2.1 * (o.2 : ℚ), basisQ.2.2.1 * (o.1 : ℚ) + basisQ.2.2.2 * (o.2 : ℚ))

def localPent (F : Int × Int) (r : Bool) : List Pt := localPentG seedQ wQ F r

theorem pentagonQ_eq (a : Anchor) : pentagonQ a = (localPent a.flips (reflK a.k a.flips)).map (shift (basisMul a.offset)) :=
  pentagonLocalG_eq seedQ wQ basisQ a

/-- the parent pentagon with the parent's offset removed -/
def parentPent (q : Quad) : List Pt := localPent q.1.2.1 (reflK q.2.1 q.1.2.1)

/-- the child pentagon in the parent's frame (scaled by 1/2) with the parent's offset removed -/
def childPent (q : Quad) : List Pt :=
  (localPent q.1.2.2 (reflK q.2.2 q.1.2.2)).map (fun v => (v.1 / 2 + (halfBasis q.1.1).1, v.2 / 2 + (halfBasis q.1.1).2))

/-- the child pentagon in the parent's frame: child lattice units are half the parent's -/
def halfPent (a : Anchor) : List Pt := scaleG' (pentagonQ a) (1 / 2)

theorem parent_frame (ap ac : Anchor) :
    pentagonQ ap = (parentPent (anchorQuad ap ac)).map (shift (basisMul ap.offset)) := pentagonQ_eq ap

theorem child_frame (ap ac : Anchor) :
    halfPent ac = (childPent (anchorQuad ap ac)).map (shift (basisMul ap.offset)) := by
  unfold halfPent scaleG' childPent
  rewrite [pentagonQ_eq ac, List.map_map, List.map_map]
  refine List.map_congr_left (fun v _ => ?_)
  unfold anchorQuad halfBasis shift basisMul
  generalize basisQ = b
  obtain ⟨b0, b1, b2, b3⟩ := b
  refine Prod.ext ?_ ?_ <;> (dsimp only [Function.comp]; push_cast; ring)

/-! ## T-overlap -/

/-- the witness point: vertex mean of the clip of the child by the parent -/
def witness (q : Quad) : Pt := mean (clip (childPent q) (parentPent q))

set_option maxRecDepth 8192 in
theorem overlap_table : ∀ inv fl : Bool, ¬(fl = true ∧ inv = true) → ∀ q ∈ finalQuads inv fl,
    StrictIn (parentPent q) (witness q) ∧ StrictIn (childPent q) (witness q) := by decide +kernel

end A5.CP
