import A5.Lemmas.ChildPentagon
/-! # Parent ↔ child pentagons, part 2: every child pentagon shares interior area with its parent (planar C12)

Polygons are lists of rational points, wound CLOCKWISE like the seed pentagon (`areaG 0 seedQ > 0`; `rot180` and
`reflectY` — which mirrors AND reverses the list — keep the winding: `pentagonQ_convex`).  A point is strictly inside a
convex clockwise polygon iff every edge has it strictly on its right: `StrictIn`.

**T-overlap** (`child_overlaps_parent`): for every depth `1 ≤ n+1 < 30`, orientation, position and child there is a
point strictly inside both the parent pentagon `pentagonQ ap` and the child pentagon scaled to the parent's frame
`halfPent ac = scaleG' (pentagonQ ac) (1/2)`.

How: the two pentagons, with the parent's translation `BASIS * offset` removed, depend only on the normalised step quad
`normQ q = (parent flips, parent reflected?, Δ, child flips, child reflected?)`; over all orientations there are 48 of
them.  `pieceData` lists for each a convex polygon (integer coordinates in units of 2⁻¹⁶) lying in parent ∩ child — it was
produced outside the proof by Sutherland–Hodgman clipping of the child by the parent in exact arithmetic, shrinking by
1/512 about the vertex mean and rounding — and `piece_table` CHECKS in exact arithmetic (kernel evaluation) that every
vertex lies in both pentagons, that the polygon is strictly convex and clockwise, and that its vertex mean is strictly
inside both pentagons.  The same pieces are used for the coverage theorem in part 3. -/
namespace A5.CP
open A5 A5.HilbertLocate A5.PG

abbrev Pt := ℚ × ℚ

/-! ## polygon primitives -/

/-- `(b − a) × (q − a)`: negative iff `q` is strictly to the right of the directed line `a → b` -/
def cross (a b q : Pt) : ℚ := (b.1 - a.1) * (q.2 - a.2) - (b.2 - a.2) * (q.1 - a.1)

/-- the cyclic list of edges `(v₀,v₁), (v₁,v₂), …, (vₙ₋₁,v₀)` -/
def edges (P : List Pt) : List (Pt × Pt) := P.zip (P.tail ++ P.take 1)

/-- strictly inside a convex clockwise polygon -/
def StrictIn (P : List Pt) (q : Pt) : Prop := ∀ e ∈ edges P, cross e.1 e.2 q < 0
instance (P : List Pt) (q : Pt) : Decidable (StrictIn P q) := by unfold StrictIn; infer_instance

/-- inside or on the boundary of a convex clockwise polygon -/
def InClosed (P : List Pt) (q : Pt) : Prop := ∀ e ∈ edges P, cross e.1 e.2 q ≤ 0
instance (P : List Pt) (q : Pt) : Decidable (InClosed P q) := by unfold InClosed; infer_instance

/-- strictly convex, clockwise, simple: the vertices are pairwise distinct and every vertex other than the two ends of
an edge lies strictly to the right of that edge (so each edge is an edge of the convex hull, traversed clockwise, and
the list goes round the hull exactly once) -/
def StrictConvexCW (Q : List Pt) : Prop :=
  Q.Nodup ∧ ∀ e ∈ edges Q, ∀ v ∈ Q, v = e.1 ∨ v = e.2 ∨ cross e.1 e.2 v < 0
instance (Q : List Pt) : Decidable (StrictConvexCW Q) := by unfold StrictConvexCW; infer_instance

/-- twice the area of a convex clockwise polygon: fan of triangles from the first vertex -/
def fanArea2 (Q : List Pt) : ℚ :=
  match Q with
  | [] => 0
  | q0 :: _ => -((edges Q).map (fun e => cross q0 e.1 e.2)).sum

/-- vertex mean -/
def mean (P : List Pt) : Pt := ((P.map Prod.fst).sum / P.length, (P.map Prod.snd).sum / P.length)

def shift (t v : Pt) : Pt := (v.1 + t.1, v.2 + t.2)

theorem shift_injective (t : Pt) : Function.Injective (shift t) := by
  intro a b h
  unfold shift at h
  have h1 := congrArg Prod.fst h
  have h2 := congrArg Prod.snd h
  dsimp only at h1 h2
  exact Prod.ext (by linarith) (by linarith)

theorem edges_map (f : Pt → Pt) (P : List Pt) : edges (P.map f) = (edges P).map (Prod.map f f) := by
  unfold edges
  rewrite [← List.map_tail, ← List.map_take, ← List.map_append, List.zip_map]
  rfl

theorem cross_shift (t a b q : Pt) : cross (shift t a) (shift t b) (shift t q) = cross a b q := by
  unfold cross shift; ring

theorem StrictIn.shift {P : List Pt} {q : Pt} (h : StrictIn P q) (t : Pt) : StrictIn (P.map (shift t)) (shift t q) := by
  unfold StrictIn at h ⊢
  rewrite [edges_map]
  intro e he
  obtain ⟨e0, he0, rfl⟩ := List.mem_map.1 he
  rewrite [Prod.map_fst, Prod.map_snd, cross_shift]
  exact h e0 he0

theorem InClosed.shift {P : List Pt} {q : Pt} (h : InClosed P q) (t : Pt) : InClosed (P.map (shift t)) (shift t q) := by
  unfold InClosed at h ⊢
  rewrite [edges_map]
  intro e he
  obtain ⟨e0, he0, rfl⟩ := List.mem_map.1 he
  rewrite [Prod.map_fst, Prod.map_snd, cross_shift]
  exact h e0 he0

theorem StrictConvexCW.shift {Q : List Pt} (h : StrictConvexCW Q) (t : Pt) : StrictConvexCW (Q.map (shift t)) := by
  obtain ⟨h1, h2⟩ := h
  refine ⟨List.Pairwise.map _ (fun a b hab h => hab (shift_injective t h)) h1, ?_⟩
  rewrite [edges_map]
  intro e he v hv
  obtain ⟨e0, he0, rfl⟩ := List.mem_map.1 he
  obtain ⟨v0, hv0, rfl⟩ := List.mem_map.1 hv
  rewrite [Prod.map_fst, Prod.map_snd, cross_shift]
  rcases h2 e0 he0 v0 hv0 with h | h | h
  · exact Or.inl (congrArg _ h)
  · exact Or.inr (Or.inl (congrArg _ h))
  · exact Or.inr (Or.inr h)

theorem fanArea2_shift (Q : List Pt) (t : Pt) : fanArea2 (Q.map (shift t)) = fanArea2 Q := by
  cases Q with
  | nil => rfl
  | cons q0 Q =>
    show -(((edges ((q0 :: Q).map (shift t))).map _).sum) = -(((edges (q0 :: Q)).map _).sum)
    rewrite [edges_map, List.map_map]
    refine congrArg _ (congrArg _ (List.map_congr_left (fun e _ => ?_)))
    exact cross_shift t q0 e.1 e.2

/-! ## the pentagons in the parent's local frame -/

section generic
variable {K : Type} [Field K]

/-- the seed pentagon after the rotate / reflect / `±w` steps of `get_pentagon_vertices`, before the translation by
`BASIS * offset`; `r` = the value of `needsReflect` -/
def localPentG (P : List (K × K)) (w : K × K) (F : Int × Int) (r : Bool) : List (K × K) :=
  let p := P
  let p := if F.1 == Gen.NO && F.2 == Gen.YES then rot180 p else p
  let p := if r then reflectY p else p
  if F.1 == Gen.YES && F.2 == Gen.YES then rot180 p
  else if F.1 == Gen.YES then translate p (-w.1, -w.2)
  else if F.2 == Gen.YES then translate p w
  else p

theorem pentagonLocalG_eq (P : List (K × K)) (w : K × K) (b : K × K × K × K) (a : Anchor) :
    pentagonLocalG P w b (fun z => (z : K)) a =
      (localPentG P w a.flips (needsReflect a)).map
        (fun v => (v.1 + (b.1 * (a.offset.1 : K) + b.2.1 * (a.offset.2 : K)),
          v.2 + (b.2.2.1 * (a.offset.1 : K) + b.2.2.2 * (a.offset.2 : K)))) := by
  obtain ⟨b00, b01, b10, b11⟩ := b
  rfl

end generic

/-- `BASIS * offset` -/
def basisMul (o : Int × Int) : Pt :=
  (basisQ.1 * (o.1 : ℚ) + basisQ.2.1 * (o.2 : ℚ), basisQ.2.2.1 * (o.1 : ℚ) + basisQ.2.2.2 * (o.2 : ℚ))

def localPent (F : Int × Int) (r : Bool) : List Pt := localPentG seedQ wQ F r

theorem pentagonQ_eq (a : Anchor) : pentagonQ a = (localPent a.flips (reflK a.k a.flips)).map (shift (basisMul a.offset)) :=
  pentagonLocalG_eq seedQ wQ basisQ a

/-- the parent pentagon with the parent's offset removed -/
def parentPent (q : Quad) : List Pt := localPent q.1.2.1 (reflK q.2.1 q.1.2.1)

/-- the child pentagon in the parent's frame (scaled by 1/2) with the parent's offset removed -/
def childPent (q : Quad) : List Pt :=
  (localPent q.1.2.2 (reflK q.2.2 q.1.2.2)).map (fun v => (v.1 / 2 + (halfBasis q.1.1).1, v.2 / 2 + (halfBasis q.1.1).2))

/-- the child pentagon in the parent's frame: child lattice units are half the parent's -/
def halfPent (a : Anchor) : List Pt := scaleG' (pentagonQ a) (1 / 2)

theorem parent_frame (ap ac : Anchor) :
    pentagonQ ap = (parentPent (anchorQuad ap ac)).map (shift (basisMul ap.offset)) := pentagonQ_eq ap

theorem child_frame (ap ac : Anchor) :
    halfPent ac = (childPent (anchorQuad ap ac)).map (shift (basisMul ap.offset)) := by
  unfold halfPent scaleG' childPent
  rewrite [pentagonQ_eq ac, List.map_map, List.map_map]
  refine List.map_congr_left (fun v _ => ?_)
  unfold anchorQuad halfBasis shift basisMul
  generalize basisQ = b
  obtain ⟨b0, b1, b2, b3⟩ := b
  refine Prod.ext ?_ ?_ <;> (dsimp only [Function.comp]; push_cast; ring)

/-! ## normalised quads and the certificate data -/

/-- `(parent flips, parent reflected?, Δ, child flips, child reflected?)`: all the two pentagons depend on -/
abbrev NQuad := (Int × Int) × Bool × (Int × Int) × (Int × Int) × Bool

def normQ (q : Quad) : NQuad := (q.1.2.1, reflK q.2.1 q.1.2.1, q.1.1, q.1.2.2, reflK q.2.2 q.1.2.2)

def parentPentN (x : NQuad) : List Pt := localPent x.1 x.2.1
def childPentN (x : NQuad) : List Pt :=
  (localPent x.2.2.2.1 x.2.2.2.2).map (fun v => (v.1 / 2 + (halfBasis x.2.2.1).1, v.2 / 2 + (halfBasis x.2.2.1).2))

theorem parentPent_norm (q : Quad) : parentPent q = parentPentN (normQ q) := rfl
theorem childPent_norm (q : Quad) : childPent q = childPentN (normQ q) := rfl

/-- integer coordinates in units of 2⁻¹⁶ -/
def dy (p : Int × Int) : Pt := ((p.1 : ℚ) / 65536, (p.2 : ℚ) / 65536)

def P (a b : Int) : Int × Int := (a, b)
def E (f1 f2 : Int) (r : Bool) (d1 d2 c1 c2 : Int) (rc : Bool) (l : List (Int × Int)) : NQuad × List (Int × Int) :=
  (((f1, f2), r, (d1, d2), (c1, c2), rc), l)

/-- for each of the 48 normalised quads a convex polygon inside parent ∩ child (units of 2⁻¹⁶; produced by clipping,
shrinking by 1/512 and rounding; CHECKED by `piece_table`) -/
def pieceData : List (NQuad × List (Int × Int)) := [
  E 1 1 false 0 0 1 1 false [P 26 11, P 6547 12288, P 20238 14696, P 26759 2418, P 13718 (-2397)],
  E 1 1 false 1 0 1 (-1) false [P 40477 (-2), P 27436 (-4817), P 13745 (-2410), P 26786 2405],
  E 1 1 false 1 1 (-1) 1 true [P 33972 17108, P 47013 12293, P 40492 15, P 26801 2423, P 20280 14700],
  E 1 1 false 2 0 1 (-1) true [P 47028 12317, P 33986 17132, P 40507 29409, P 49366 12728],
  E 1 (-1) false (-1) 1 1 1 false [P 26 (-29425), P 13067 (-24610), P 26759 (-27018), P 13718 (-31833)],
  E 1 (-1) false 0 1 1 (-1) false [P 40477 (-29438), P 33957 (-41716), P 20265 (-44123), P 13744 (-31846), P 26786 (-27031)],
  E 1 (-1) false (-1) 2 (-1) (-1) true [P 6532 (-46535), P (-6510) (-41720), P 11 (-29443), P 13703 (-31850), P 20223 (-44128)],
  E 1 (-1) false (-2) 1 1 1 true [P (-6524) (-41744), P 6517 (-46559), P (-3) (-58837), P (-8863) (-42156)],
  E 1 1 true 0 0 1 1 false [P 13717 (-2406), P 26 2, P 25645 4506, P 26759 2409],
  E 1 1 true 1 0 1 (-1) false [P 26790 2399, P 40482 (-9), P 33961 (-12286), P 20269 (-14694), P 13749 (-2416)],
  E 1 1 true 0 1 1 1 true [P 33970 (-12317), P 47011 (-17132), P 40490 (-29409), P 26799 (-27002), P 20278 (-14724)],
  E 1 1 true 1 1 (-1) 1 true [P 26792 2413, P 25678 4510, P 27442 4821, P 40483 6],
  E (-1) 1 true 0 0 (-1) 1 true [P (-6534) 17111, P 6507 12296, P (-13) 18, P (-13705) 2426, P (-20225) 14703],
  E (-1) 1 true 1 (-1) (-1) (-1) false [P (-13714) 31826, P (-22) 29419, P (-6542) 17141, P (-20234) 14734, P (-26755) 27011],
  E (-1) 1 true 0 (-1) (-1) 1 false [P (-26786) 27022, P (-40478) 29429, P (-14859) 33934, P (-13745) 31837],
  E (-1) 1 true 1 (-2) 1 1 true [P (-13712) 31841, P (-14826) 33938, P (-13061) 34248, P (-20) 29433],
  E 1 (-1) true 0 0 1 (-1) true [P 6534 (-17111), P (-6507) (-12296), P 13 (-18), P 13705 (-2426), P 20225 (-14703)],
  E 1 (-1) true (-1) 1 1 1 false [P 13714 (-31826), P 22 (-29419), P 6542 (-17141), P 20234 (-14734), P 26755 (-27011)],
  E 1 (-1) true 0 1 1 (-1) false [P 26786 (-27022), P 40478 (-29429), P 14859 (-33934), P 13745 (-31837)],
  E 1 (-1) true (-1) 2 (-1) (-1) true [P 13712 (-31841), P 14826 (-33938), P 13061 (-34248), P 20 (-29433)],
  E (-1) (-1) true 0 0 (-1) (-1) false [P (-13717) 2406, P (-26) (-2), P (-25645) (-4506), P (-26759) (-2409)],
  E (-1) (-1) true (-1) 0 (-1) 1 false [P (-26790) (-2399), P (-40482) 9, P (-33961) 12286, P (-20269) 14694, P (-13749) 2416],
  E (-1) (-1) true 0 (-1) (-1) (-1) true [P (-33970) 12317, P (-47011) 17132, P (-40490) 29409, P (-26799) 27002, P (-20278) 14724],
  E (-1) (-1) true (-1) (-1) 1 (-1) true [P (-26792) (-2413), P (-25678) (-4510), P (-27442) (-4821), P (-40483) (-6)],
  E (-1) (-1) false 0 0 (-1) (-1) false [P (-26) (-11), P (-6547) (-12288), P (-20238) (-14696), P (-26759) (-2418), P (-13718) 2397],
  E (-1) (-1) false (-1) 0 (-1) 1 false [P (-40477) 2, P (-27436) 4817, P (-13745) 2410, P (-26786) (-2405)],
  E (-1) (-1) false (-1) (-1) 1 (-1) true [P (-33972) (-17108), P (-47013) (-12293), P (-40492) (-15), P (-26801) (-2423), P (-20280) (-14700)],
  E (-1) (-1) false (-2) 0 (-1) 1 true [P (-47028) (-12317), P (-33986) (-17132), P (-40507) (-29409), P (-49366) (-12728)],
  E (-1) 1 false 1 (-1) (-1) (-1) false [P (-26) 29425, P (-13067) 24610, P (-26759) 27018, P (-13718) 31833],
  E (-1) 1 false 0 (-1) (-1) 1 false [P (-40477) 29438, P (-33957) 41716, P (-20265) 44123, P (-13744) 31846, P (-26786) 27031],
  E (-1) 1 false 1 (-2) 1 1 true [P (-6532) 46535, P 6510 41720, P (-11) 29443, P (-13703) 31850, P (-20223) 44128],
  E (-1) 1 false 2 (-1) (-1) (-1) true [P 6524 41744, P (-6517) 46559, P 3 58837, P 8863 42156],
  E 1 1 false 1 0 1 1 true [P 33972 17108, P 47013 12293, P 40492 15, P 26801 2423, P 20280 14700],
  E 1 1 false 2 1 (-1) (-1) true [P 47028 12317, P 33986 17132, P 40507 29409, P 49366 12728],
  E 1 (-1) false (-2) 2 (-1) 1 true [P (-6524) (-41744), P 6517 (-46559), P (-3) (-58837), P (-8863) (-42156)],
  E 1 (-1) false (-1) 1 1 (-1) true [P 6532 (-46535), P (-6510) (-41720), P 11 (-29443), P 13703 (-31850), P 20223 (-44128)],
  E 1 1 true 1 0 1 1 true [P 26792 2413, P 25678 4510, P 27442 4821, P 40483 6],
  E 1 1 true 0 2 (-1) 1 true [P 33970 (-12317), P 47011 (-17132), P 40490 (-29409), P 26799 (-27002), P 20278 (-14724)],
  E (-1) 1 true 1 (-1) (-1) 1 true [P (-13712) 31841, P (-14826) 33938, P (-13061) 34248, P (-20) 29433],
  E (-1) 1 true 0 (-1) 1 1 true [P (-6534) 17111, P 6507 12296, P (-13) 18, P (-13705) 2426, P (-20225) 14703],
  E 1 (-1) true (-1) 1 1 (-1) true [P 13712 (-31841), P 14826 (-33938), P 13061 (-34248), P 20 (-29433)],
  E 1 (-1) true 0 1 (-1) (-1) true [P 6534 (-17111), P (-6507) (-12296), P 13 (-18), P 13705 (-2426), P 20225 (-14703)],
  E (-1) (-1) true (-1) 0 (-1) (-1) true [P (-26792) (-2413), P (-25678) (-4510), P (-27442) (-4821), P (-40483) (-6)],
  E (-1) (-1) true 0 (-2) 1 (-1) true [P (-33970) 12317, P (-47011) 17132, P (-40490) 29409, P (-26799) 27002, P (-20278) 14724],
  E (-1) (-1) false (-1) 0 (-1) (-1) true [P (-33972) (-17108), P (-47013) (-12293), P (-40492) (-15), P (-26801) (-2423), P (-20280) (-14700)],
  E (-1) (-1) false (-2) (-1) 1 1 true [P (-47028) (-12317), P (-33986) (-17132), P (-40507) (-29409), P (-49366) (-12728)],
  E (-1) 1 false 2 (-2) 1 (-1) true [P 6524 41744, P (-6517) 46559, P 3 58837, P 8863 42156],
  E (-1) 1 false 1 (-1) (-1) 1 true [P (-6532) 46535, P 6510 41720, P (-11) 29443, P (-13703) 31850, P (-20223) 44128]]

/-- the `(invertJ, flipIJ)` classes of the six orientations -/
def oriClasses : List (Bool × Bool) := [(false, false), (true, false), (false, true)]

theorem mem_oriClasses (inv fl : Bool) (hex : ¬(fl = true ∧ inv = true)) : (inv, fl) ∈ oriClasses := by
  cases inv <;> cases fl <;> first | decide | exact absurd ⟨rfl, rfl⟩ hex

/-- every step quad of every orientation class that occurs is covered by the data -/
def HasPiece (q : Quad) : Prop := normQ q ∈ pieceData.map Prod.fst
instance (q : Quad) : Decidable (HasPiece q) := by unfold HasPiece; infer_instance

theorem norm_mem_classes : ∀ c ∈ oriClasses, ∀ q ∈ finalQuads c.1 c.2, HasPiece q := by decide +kernel

theorem norm_mem (inv fl : Bool) (hex : ¬(fl = true ∧ inv = true)) (q : Quad) (hq : q ∈ finalQuads inv fl) :
    normQ q ∈ pieceData.map Prod.fst := norm_mem_classes (inv, fl) (mem_oriClasses inv fl hex) q hq

/-- what is checked for each entry: the polygon is strictly convex and clockwise, all its vertices lie in the (closed)
parent pentagon and in the (closed) child pentagon, and its vertex mean is strictly inside both -/
def PieceOK (x : NQuad × List (Int × Int)) : Prop :=
  StrictConvexCW (x.2.map dy) ∧
  (∀ v ∈ x.2.map dy, InClosed (parentPentN x.1) v ∧ InClosed (childPentN x.1) v) ∧
  StrictIn (parentPentN x.1) (mean (x.2.map dy)) ∧ StrictIn (childPentN x.1) (mean (x.2.map dy))

instance (x : NQuad × List (Int × Int)) : Decidable (PieceOK x) := by unfold PieceOK; infer_instance

set_option maxRecDepth 8192 in
theorem piece_table : ∀ x ∈ pieceData, PieceOK x := by decide +kernel

/-- the certificate entry of a step quad -/
theorem piece_of_quad (inv fl : Bool) (hex : ¬(fl = true ∧ inv = true)) (q : Quad) (hq : q ∈ finalQuads inv fl) :
    ∃ x ∈ pieceData, x.1 = normQ q ∧ PieceOK x := by
  obtain ⟨x, hx, e⟩ := List.mem_map.1 (norm_mem inv fl hex q hq)
  exact ⟨x, hx, e, piece_table x hx⟩

/-! ## T-overlap -/

/-- **T-overlap** (planar C12, exact arithmetic on the runtime constants).  For every curve depth `1 ≤ n+1 < 30`,
orientation `o < 6`, position `s < 4^(n+1)` and child `d < 4` there is a point strictly inside both the parent's
pentagon and the child's pentagon (scaled by 1/2 into the parent's lattice frame): the two share interior area. -/
theorem child_overlaps_parent (n o s d : Nat) (hn : n + 2 ≤ 30) (ho : o < 6) (hs : s < 4 ^ (n + 1)) (hd : d < 4) :
    ∃ ap ac, sToAnchor s (n + 1) o = .ok ap ∧ sToAnchor (4 * s + d) (n + 2) o = .ok ac ∧
      ∃ w : ℚ × ℚ, StrictIn (pentagonQ ap) w ∧ StrictIn (scaleG' (pentagonQ ac) (1 / 2)) w := by
  obtain ⟨ap, ac, h1, h2, _, _, hm⟩ := child_quad_mem n o s d hn hs hd
  obtain ⟨x, _, e, _, _, w1, w2⟩ := piece_of_quad _ _ (fun hh => flags_exclusive o ho hh) _ hm
  rewrite [e, ← parentPent_norm] at w1
  rewrite [e, ← childPent_norm] at w2
  refine ⟨ap, ac, h1, h2, shift (basisMul ap.offset) (mean (x.2.map dy)), ?_, ?_⟩
  · rewrite [parent_frame ap ac]; exact w1.shift _
  · show StrictIn (halfPent ac) _
    rewrite [child_frame ap ac]; exact w2.shift _

/-- instance at a reversing, inverting orientation (4), depth 2 → 3 -/
example : ∃ ap ac, sToAnchor 11 2 4 = .ok ap ∧ sToAnchor 46 3 4 = .ok ac ∧
    ∃ w : ℚ × ℚ, StrictIn (pentagonQ ap) w ∧ StrictIn (scaleG' (pentagonQ ac) (1 / 2)) w :=
  child_overlaps_parent 1 4 11 2 (by decide) (by decide) (by decide) (by decide)

/-- the hypotheses are not vacuous and the predicate is not trivial, evaluated independently of the table: orientation 0,
parent 1 (depth 1), child 7 (depth 2): the point `(0.62, -0.35)` is strictly inside both pentagons, while the child's own
centre is NOT inside the parent (pentagons do not nest) -/
example : sToAnchor 1 1 0 = .ok ⟨1, (1, 0), (1, -1)⟩ ∧ sToAnchor 7 2 0 = .ok ⟨2, (0, 1), (1, 1)⟩ ∧
    StrictIn (pentagonQ ⟨1, (1, 0), (1, -1)⟩) (62 / 100, -35 / 100) ∧
    StrictIn (scaleG' (pentagonQ ⟨2, (0, 1), (1, 1)⟩) (1 / 2)) (62 / 100, -35 / 100) ∧
    ¬ StrictIn (pentagonQ ⟨1, (1, 0), (1, -1)⟩) ((centreQ ⟨2, (0, 1), (1, 1)⟩).1 / 2, (centreQ ⟨2, (0, 1), (1, 1)⟩).2 / 2) := by
  decide +kernel

/-! ## the pentagons are strictly convex and clockwise -/

theorem localPent_convex : ∀ F ∈ flips4, ∀ r : Bool, StrictConvexCW (localPent F r) := by decide +kernel

/-- every cell pentagon is a strictly convex clockwise pentagon (so `StrictIn` / `InClosed` mean what they say) -/
theorem pentagonQ_convex (a : Anchor) (hF : IsFlip a.flips) : StrictConvexCW (pentagonQ a) := by
  rewrite [pentagonQ_eq]
  exact (localPent_convex _ (mem_flips4 _ hF) _).shift _

end A5.CP
