import A5.Spec.Tree
/-! # Canonical covers in the cell tree (pure tree theory, core-only, no ids)

Finite sets of cells are `List Path` with membership semantics.

* `Below p q`      : `p` is `q` or an ancestor of `q` (a partial order; the ancestors of a node form a chain).
* `Antichain A`    : no two distinct members are comparable (the cells do not overlap).
* `Covers A q`     : some member of `A` is `Below q`.
* `SameRegion A B` : `A` and `B` cover the same cells of the finest resolution 29
                     (`sameRegion_iff_at`: equivalently the same cells of any resolution `R ≥` all members).
* `NoCompleteGroup A` : no cell `P` (resolution ≤ 28) has all of its children in `A`.

Main theorem `canonical_unique`: two antichains of well-formed cells without complete sibling group that cover
the same region have the same members.  The whole proof is the one lemma `no_member_strictly_below`. -/
namespace A5.Canonical
open A5 A5.Path

/-! ### the order "ancestor or equal" -/

/-- `p` is `q` or an ancestor of `q` -/
def Below (p q : Path) : Prop := res p ≤ res q ∧ ancestorAt q (res p) = p

instance (p q : Path) : Decidable (Below p q) := by unfold Below; infer_instance

theorem below_refl (p : Path) : Below p p := ⟨Int.le_refl _, ancestorAt_self p _ (Int.le_refl _)⟩

theorem below_trans {p q r : Path} (h1 : Below p q) (h2 : Below q r) : Below p r := by
  refine ⟨Int.le_trans h1.1 h2.1, ?_⟩
  rw [← ancestorAt_ancestorAt r (res q) (res p) h1.1, h2.2, h1.2]

theorem below_eq_of_res_eq {p q : Path} (h : Below p q) (hr : res p = res q) : p = q := by
  have := h.2
  rw [hr, ancestorAt_self q _ (Int.le_refl _)] at this
  exact this.symm

theorem below_antisymm {p q : Path} (h1 : Below p q) (h2 : Below q p) : p = q :=
  below_eq_of_res_eq h1 (Int.le_antisymm h1.1 h2.1)

/-- the ancestors of one node form a chain -/
theorem below_chain {p p' q : Path} (h : Below p q) (h' : Below p' q) : Below p p' ∨ Below p' p := by
  rcases Int.le_total (res p) (res p') with hle | hle
  · left
    refine ⟨hle, ?_⟩
    rw [← h'.2, ancestorAt_ancestorAt q _ _ hle, h.2]
  · right
    refine ⟨hle, ?_⟩
    rw [← h.2, ancestorAt_ancestorAt q _ _ hle, h'.2]

theorem below_ancestorAt (q : Path) (r : Int) (h1 : -1 ≤ r) (h2 : r ≤ res q) : Below (ancestorAt q r) q := by
  have hr := res_ancestorAt q r h1 h2
  exact ⟨by omega, by rw [hr]⟩

/-- `Below p q` with `res p ≤ r ≤ res q` factors through the ancestor of `q` at `r` -/
theorem below_ancestorAt_iff {p q : Path} (r : Int) (h1 : res p ≤ r) (h2 : r ≤ res q) :
    Below p q ↔ Below p (ancestorAt q r) := by
  have hr := res_ancestorAt q r (Int.le_trans (res_ge p) h1) h2
  constructor
  · intro h
    refine ⟨by omega, ?_⟩
    rw [ancestorAt_ancestorAt q _ _ h1, h.2]
  · intro h
    exact below_trans h (below_ancestorAt q r (Int.le_trans (res_ge p) h1) h2)

theorem below_of_mem_children {P c : Path} (h : c ∈ children P) : Below P c :=
  ⟨by rw [res_children h]; omega, ancestorAt_children h⟩

theorem below_parent (p : Path) : Below (parent p) p := by
  rw [parent_eq_ancestorAt]
  by_cases h : res p = -1
  · rw [ancestorAt_self_of_world p h]
    exact below_refl _
  · exact below_ancestorAt p _ (by have := res_ge p; omega) (by omega)
where
  ancestorAt_self_of_world (p : Path) (h : res p = -1) : ancestorAt p (res p - 1) = p := by
    cases p with
    | world => rfl
    | face f => simp only [res] at h; omega
    | deep f k ds => simp only [res] at h; omega

theorem res_le_of_wf {p : Path} (hp : WF p) : res p ≤ 29 := by
  cases p with
  | world => simp only [res]; omega
  | face f => simp only [res]; omega
  | deep f k ds => obtain ⟨_, _, _, hl⟩ := hp; simp only [res]; omega

theorem wf_of_below {p q : Path} (hq : WF q) (h : Below p q) : WF p := by
  rw [← h.2]; exact wf_ancestorAt hq _

/-- strictly below: one level at least -/
theorem res_lt_of_below_ne {p q : Path} (h : Below p q) (hne : p ≠ q) : res p < res q := by
  by_cases hlt : res p < res q
  · exact hlt
  · exact absurd (below_eq_of_res_eq h (Int.le_antisymm h.1 (by omega))) hne

/-- a strict descendant of `b` lies below exactly one child of `b`; here: its parent is still below `b` -/
theorem below_parent_of_below_ne {b d : Path} (h : Below b d) (hne : b ≠ d) : Below b (parent d) := by
  have hlt := res_lt_of_below_ne h hne
  rw [parent_eq_ancestorAt]
  exact (below_ancestorAt_iff (res d - 1) (by omega) (by omega)).1 h

/-! ### finest cells -/

theorem fan_pos (r : Int) : 0 < fan r := by
  unfold fan; split
  · omega
  · split <;> omega

theorem fanout_pos (n : Nat) (r : Int) : 0 < fanout n r := by
  induction n generalizing r with
  | zero => simp [fanout]
  | succ n ih => simp only [fanout]; exact Nat.mul_pos (fan_pos r) (ih _)

/-- every cell has a descendant at every resolution between its own and 29 -/
theorem exists_descendant_at {p : Path} (hp : WF p) (r : Int) (h1 : res p ≤ r) (h2 : r ≤ 29) :
    ∃ q, WF q ∧ res q = r ∧ Below p q := by
  have hlen := length_descendantsAt p r h1
  have hpos := fanout_pos (r - res p).toNat (res p)
  cases hd : descendantsAt p r with
  | nil => rw [hd] at hlen; simp only [List.length_nil] at hlen; omega
  | cons q t =>
    have hq : q ∈ descendantsAt p r := by rw [hd]; exact List.mem_cons_self ..
    have hres := res_of_mem_descendantsAt hq
    exact ⟨q, wf_of_mem_descendantsAt hp h2 hq, hres, by omega, ancestorAt_of_mem_descendantsAt hq⟩

/-- every cell has a descendant of the finest resolution -/
theorem exists_finest {p : Path} (hp : WF p) : ∃ q, WF q ∧ res q = 29 ∧ Below p q :=
  exists_descendant_at hp 29 (res_le_of_wf hp) (by omega)

/-- every strict descendant of `p` lies below exactly one child of `p` -/
theorem existsUnique_child_below {p q : Path} (hq : WF q) (h : Below p q) (hne : p ≠ q) :
    ∃ c, (c ∈ children p ∧ Below c q) ∧ ∀ c', c' ∈ children p ∧ Below c' q → c' = c := by
  have hlt := res_lt_of_below_ne h hne
  have hc := ancestorAt_succ_mem_children hq (res p) (res_ge p) hlt
  rw [h.2] at hc
  refine ⟨_, ⟨hc, below_ancestorAt q _ (by have := res_ge p; omega) (by omega)⟩, ?_⟩
  rintro c' ⟨hc', hb⟩
  have := hb.2
  rw [res_children hc'] at this
  exact this.symm

/-! ### sets of cells -/

/-- no two distinct members are comparable: the cells do not overlap -/
def Antichain (A : List Path) : Prop := ∀ p ∈ A, ∀ q ∈ A, Below p q → p = q

/-- `q` lies in the region of `A` -/
def Covers (A : List Path) (q : Path) : Prop := ∃ p ∈ A, Below p q

/-- `A` and `B` cover the same cells of resolution `R` -/
def SameRegionAt (R : Int) (A B : List Path) : Prop := ∀ q, WF q → res q = R → (Covers A q ↔ Covers B q)

/-- `A` and `B` cover the same cells of the finest resolution -/
def SameRegion (A B : List Path) : Prop := SameRegionAt 29 A B

/-- no cell has all of its children in `A` (all 12 base cells / 5 quintants of a face / 4 children) -/
def NoCompleteGroup (A : List Path) : Prop := ¬ ∃ P, WF P ∧ res P ≤ 28 ∧ ∀ c ∈ children P, c ∈ A

/-- well-formed, non-overlapping, no complete sibling group -/
structure IsCanonical (A : List Path) : Prop where
  wf : ∀ p ∈ A, WF p
  antichain : Antichain A
  maximal : NoCompleteGroup A

theorem sameRegionAt_refl (R : Int) (A : List Path) : SameRegionAt R A A := fun _ _ _ => Iff.rfl
theorem sameRegionAt_symm {R : Int} {A B : List Path} (h : SameRegionAt R A B) : SameRegionAt R B A :=
  fun q hq hr => (h q hq hr).symm
theorem sameRegionAt_trans {R : Int} {A B C : List Path} (h1 : SameRegionAt R A B) (h2 : SameRegionAt R B C) :
    SameRegionAt R A C := fun q hq hr => (h1 q hq hr).trans (h2 q hq hr)

theorem sameRegion_refl (A : List Path) : SameRegion A A := sameRegionAt_refl 29 A
theorem sameRegion_symm {A B : List Path} (h : SameRegion A B) : SameRegion B A := sameRegionAt_symm h
theorem sameRegion_trans {A B C : List Path} (h1 : SameRegion A B) (h2 : SameRegion B C) : SameRegion A C :=
  sameRegionAt_trans h1 h2

/-- sets with the same members cover the same region -/
theorem sameRegion_of_mem_iff {A B : List Path} (h : ∀ p, p ∈ A ↔ p ∈ B) : SameRegion A B :=
  fun _ _ _ => ⟨fun ⟨p, hp, hb⟩ => ⟨p, (h p).1 hp, hb⟩, fun ⟨p, hp, hb⟩ => ⟨p, (h p).2 hp, hb⟩⟩

theorem covers_of_below {A : List Path} {q q' : Path} (h : Covers A q) (hb : Below q q') : Covers A q' := by
  obtain ⟨p, hp, hpq⟩ := h
  exact ⟨p, hp, below_trans hpq hb⟩

/-- if all members of `A` are at most as fine as `r`, coverage of `q` is decided at its ancestor at `r` -/
theorem covers_ancestorAt_iff {A : List Path} {q : Path} (r : Int) (hA : ∀ p ∈ A, res p ≤ r) (h2 : r ≤ res q) :
    Covers A q ↔ Covers A (ancestorAt q r) := by
  constructor
  · rintro ⟨p, hp, hb⟩; exact ⟨p, hp, (below_ancestorAt_iff r (hA p hp) h2).1 hb⟩
  · rintro ⟨p, hp, hb⟩; exact ⟨p, hp, (below_ancestorAt_iff r (hA p hp) h2).2 hb⟩

/-- the region may be compared at any resolution `R` that is at least as fine as all members -/
theorem sameRegion_iff_at {A B : List Path} (R : Int) (hR : R ≤ 29) (hA : ∀ p ∈ A, res p ≤ R)
    (hB : ∀ p ∈ B, res p ≤ R) : SameRegion A B ↔ SameRegionAt R A B := by
  constructor
  · intro h q hq hr
    obtain ⟨f, hf, hf29, hqf⟩ := exists_finest hq
    have e : ancestorAt f R = q := by rw [← hr]; exact hqf.2
    have := h f hf hf29
    rw [covers_ancestorAt_iff R hA (by omega), covers_ancestorAt_iff R hB (by omega), e] at this
    exact this
  · intro h q hq hr
    rw [covers_ancestorAt_iff R hA (by omega), covers_ancestorAt_iff R hB (by omega)]
    by_cases hneg : R < -1
    · -- no member can exist
      constructor
      · rintro ⟨p, hp, _⟩; have := hA p hp; have := res_ge p; omega
      · rintro ⟨p, hp, _⟩; have := hB p hp; have := res_ge p; omega
    · exact h _ (wf_ancestorAt hq R) (res_ancestorAt q R (by omega) (by omega))

/-! ### the key lemma -/

/-- a member maximising a measure among the members with a property -/
theorem exists_max {α : Type} (m : α → Int) (P : α → Prop) (l : List α) (h : ∃ x ∈ l, P x) :
    ∃ d ∈ l, P d ∧ ∀ a ∈ l, P a → m a ≤ m d := by
  induction l with
  | nil => obtain ⟨x, hx, _⟩ := h; simp at hx
  | cons y l ih =>
    by_cases hl : ∃ x ∈ l, P x
    · obtain ⟨d, hd, hPd, hmax⟩ := ih hl
      by_cases hy : P y ∧ m d < m y
      · refine ⟨y, List.mem_cons_self .., hy.1, ?_⟩
        intro a ha hPa
        rcases List.mem_cons.1 ha with rfl | ha
        · exact Int.le_refl _
        · have := hmax a ha hPa; omega
      · refine ⟨d, List.mem_cons_of_mem _ hd, hPd, ?_⟩
        intro a ha hPa
        rcases List.mem_cons.1 ha with rfl | ha
        · by_cases hlt : m d < m a
          · exact absurd ⟨hPa, hlt⟩ hy
          · omega
        · exact hmax a ha hPa
    · obtain ⟨x, hx, hPx⟩ := h
      rcases List.mem_cons.1 hx with rfl | hx
      · refine ⟨x, List.mem_cons_self .., hPx, ?_⟩
        intro a ha hPa
        rcases List.mem_cons.1 ha with rfl | ha
        · exact Int.le_refl _
        · exact absurd ⟨a, ha, hPa⟩ hl
      · exact absurd ⟨x, hx, hPx⟩ hl

/-- KEY LEMMA.  Let `A` be an antichain without complete sibling group and `b` a cell all of whose finest
descendants are covered by `A`.  Then no member of `A` lies strictly below `b`.
(Take a deepest member `d` of `A` below `b`: every sibling of `d` would have to be in `A`.) -/
theorem no_member_strictly_below {A : List Path} (hwf : ∀ p ∈ A, WF p) (hanti : Antichain A)
    (hmax : NoCompleteGroup A) {b : Path}
    (hcov : ∀ q, WF q → res q = 29 → Below b q → Covers A q)
    {p : Path} (hp : p ∈ A) (hbp : Below b p) : p = b := by
  apply Classical.byContradiction
  intro hne
  -- no member of `A` is above-or-equal `b`
  have hnotabove : ∀ a ∈ A, ¬ Below a b := by
    intro a ha hab
    have := hanti a ha p hp (below_trans hab hbp)
    subst this
    exact hne (below_antisymm hab hbp)
  -- a deepest member below `b`
  obtain ⟨d, hdA, hbd, hdeep⟩ := exists_max res (fun a => Below b a) A ⟨p, hp, hbp⟩
  have hdne : b ≠ d := fun e => hnotabove d hdA (e ▸ below_refl b)
  have hlt := res_lt_of_below_ne hbd hdne
  have hdwf := hwf d hdA
  have hd29 := res_le_of_wf hdwf
  have hdw : d ≠ world := by
    intro e; subst e
    have e1 : res world = -1 := rfl
    have := res_ge b; omega
  have hPwf : WF (parent d) := wf_parent hdwf
  have hdP : d ∈ children (parent d) := mem_children_parent hdwf hdw
  have hresP : res (parent d) = res d - 1 := by have := res_children hdP; omega
  have hbP : Below b (parent d) := below_parent_of_below_ne hbd hdne
  apply hmax
  refine ⟨parent d, hPwf, by omega, ?_⟩
  intro c hc
  have hcwf : WF c := wf_children hPwf (by omega) hc
  have hresc : res c = res d := by rw [res_children hc]; omega
  have hPc : Below (parent d) c := below_of_mem_children hc
  obtain ⟨f, hf, hf29, hcf⟩ := exists_finest hcwf
  obtain ⟨a, haA, haf⟩ := hcov f hf hf29 (below_trans hbP (below_trans hPc hcf))
  rcases below_chain haf hcf with hac | hca
  · -- `a` above-or-equal `c`
    by_cases hr : res a = res c
    · rw [← below_eq_of_res_eq hac hr]; exact haA
    · exfalso
      have hlt' : res a < res c := by have := hac.1; omega
      have haP : Below a (parent d) := by
        have := (below_ancestorAt_iff (p := a) (q := c) (res (parent d)) (by omega) hPc.1).1 hac
        rwa [hPc.2] at this
      have had := below_trans haP (below_of_mem_children hdP)
      have := hanti a haA d hdA had
      subst this
      omega
  · -- `a` below-or-equal `c`: it is at most as deep as `d`
    have h1 := hdeep a haA (below_trans hbP (below_trans hPc hca))
    have h2 := hca.1
    rw [below_eq_of_res_eq hca (by omega)]; exact haA

/-! ### uniqueness of the canonical cover -/

theorem subset_of_sameRegion {A B : List Path} (hA : IsCanonical A) (hB : IsCanonical B) (h : SameRegion A B) :
    ∀ p, p ∈ A → p ∈ B := by
  intro p hp
  have hpwf := hA.wf p hp
  obtain ⟨f, hf, hf29, hpf⟩ := exists_finest hpwf
  obtain ⟨b, hbB, hbf⟩ := (h f hf hf29).1 ⟨p, hp, hpf⟩
  rcases below_chain hbf hpf with hbp | hpb
  · -- `b` is `p` or an ancestor of `p`: all of `b` is covered by `A`, `p ∈ A` lies below `b`
    have : p = b := no_member_strictly_below hA.wf hA.antichain hA.maximal
      (fun q hq hq29 hbq => (h q hq hq29).2 ⟨b, hbB, hbq⟩) hp hbp
    rw [this]; exact hbB
  · -- `b` is `p` or a descendant: all of `p` is covered by `B`, `b ∈ B` lies below `p`
    have : b = p := no_member_strictly_below hB.wf hB.antichain hB.maximal
      (fun q hq hq29 hpq => (h q hq hq29).1 ⟨p, hp, hpq⟩) hbB hpb
    rw [← this]; exact hbB

/-- MAIN THEOREM.  Two non-overlapping sets of cells without complete sibling group that cover the same
region have the same members. -/
theorem canonical_unique {A B : List Path} (hwfA : ∀ p ∈ A, WF p) (hwfB : ∀ p ∈ B, WF p)
    (hA : Antichain A) (hB : Antichain B) (hmA : NoCompleteGroup A) (hmB : NoCompleteGroup B)
    (h : SameRegion A B) : ∀ p, p ∈ A ↔ p ∈ B :=
  fun p => ⟨subset_of_sameRegion ⟨hwfA, hA, hmA⟩ ⟨hwfB, hB, hmB⟩ h p,
    subset_of_sameRegion ⟨hwfB, hB, hmB⟩ ⟨hwfA, hA, hmA⟩ (sameRegion_symm h) p⟩

/-- for canonical sets, "same region" and "same members" coincide -/
theorem canonical_sameRegion_iff {A B : List Path} (hA : IsCanonical A) (hB : IsCanonical B) :
    SameRegion A B ↔ ∀ p, p ∈ A ↔ p ∈ B :=
  ⟨canonical_unique hA.wf hB.wf hA.antichain hB.antichain hA.maximal hB.maximal, sameRegion_of_mem_iff⟩

/-- duplicate-free canonical lists for the same region are permutations of each other -/
theorem canonical_perm {A B : List Path} (hA : IsCanonical A) (hB : IsCanonical B) (hnA : A.Nodup) (hnB : B.Nodup)
    (h : SameRegion A B) : A.Perm B :=
  (List.perm_ext_iff_of_nodup hnA hnB).2 ((canonical_sameRegion_iff hA hB).1 h)

/-! ### merging a complete group keeps the region and the antichain property -/

/-- Replacing all children of `P` by `P` keeps the region: any `A'` whose members are `P` and the members of
`A` that are not children of `P` (where all children of `P` are in `A`). -/
theorem sameRegion_merge {A A' : List Path} {P : Path} (hr : res P ≤ 28) (hall : ∀ c ∈ children P, c ∈ A)
    (hmem : ∀ m, m ∈ A' ↔ m = P ∨ (m ∈ A ∧ m ∉ children P)) : SameRegion A A' := by
  intro q hq hq29
  constructor
  · rintro ⟨a, ha, haq⟩
    by_cases hc : a ∈ children P
    · exact ⟨P, (hmem P).2 (Or.inl rfl), below_trans (below_of_mem_children hc) haq⟩
    · exact ⟨a, (hmem a).2 (Or.inr ⟨ha, hc⟩), haq⟩
  · rintro ⟨a, ha, haq⟩
    rcases (hmem a).1 ha with rfl | ⟨haA, _⟩
    · have he : a ≠ q := by intro e; subst e; omega
      obtain ⟨c, ⟨hc, hcq⟩, _⟩ := existsUnique_child_below hq haq he
      exact ⟨c, hall c hc, hcq⟩
    · exact ⟨a, haA, haq⟩

/-! ### decidable forms, for concrete sets -/

instance (A : List Path) : Decidable (Antichain A) := by unfold Antichain; infer_instance

/-- a complete group is the group of the parent of one of the members: finitely many candidates -/
theorem noCompleteGroup_iff_parents (A : List Path) :
    NoCompleteGroup A ↔
      ∀ a ∈ A, ¬ (WF (parent a) ∧ res (parent a) ≤ 28 ∧ ∀ c ∈ children (parent a), c ∈ A) := by
  constructor
  · intro h a _ hg; exact h ⟨parent a, hg⟩
  · rintro h ⟨P, hP, hr, hall⟩
    cases hch : children P with
    | nil =>
      have := length_children P
      rw [hch] at this
      have := fan_pos (res P)
      simp only [List.length_nil] at *
      omega
    | cons c t =>
      have hc : c ∈ children P := by rw [hch]; exact List.mem_cons_self ..
      have e := parent_unique hc
      exact h c (hall c hc) (e ▸ ⟨hP, hr, hall⟩)

instance (A : List Path) : Decidable (NoCompleteGroup A) :=
  decidable_of_iff _ (noCompleteGroup_iff_parents A).symm

/-! ### non-vacuity -/

/-- a canonical set: quintant 2 of face 0, three children of quintant 0 of face 0, base cell 7 -/
example : IsCanonical [deep 0 2 [], deep 0 0 [0], deep 0 0 [1], deep 0 0 [3], face 7] :=
  ⟨by decide, by decide, by decide⟩

/-- `canonical_unique` applies to it and a rearrangement -/
example : ∀ p, p ∈ [deep 0 2 [], deep 0 0 [0], deep 0 0 [1], deep 0 0 [3], face 7] ↔
    p ∈ [face 7, deep 0 0 [3], deep 0 0 [1], deep 0 0 [0], deep 0 2 []] :=
  canonical_unique (by decide) (by decide) (by decide) (by decide) (by decide) (by decide)
    (sameRegion_of_mem_iff (by intro p; simp only [List.mem_cons, List.not_mem_nil, or_false]; constructor <;> intro h <;> (rcases h with h | h | h | h | h <;> simp [h])))

/-- the five quintants of face 0 are a non-overlapping set *with* a complete group … -/
example : Antichain (children (face 0)) ∧ ¬ NoCompleteGroup (children (face 0)) := by decide

/-- … covering the same region as the single base cell 0, which is canonical: the hypothesis
`NoCompleteGroup` of `canonical_unique` cannot be dropped. -/
example : SameRegion (children (face 0)) [face 0] :=
  sameRegion_merge (P := face 0) (by decide) (fun _ h => h) (by
    intro m; simp only [List.mem_singleton]
    constructor
    · intro h; exact Or.inl h
    · rintro (h | ⟨h1, h2⟩)
      · exact h
      · exact absurd h1 h2)

example : IsCanonical [face 0] := ⟨by decide, by decide, by decide⟩

end A5.Canonical
