import A5.Lemmas.SweepFormula2
import Mathlib.Analysis.Calculus.FDeriv.Prod
import Mathlib.Analysis.Calculus.FDeriv.Mul
import Mathlib.Analysis.SpecialFunctions.Trigonometric.InverseDeriv
/-! # C16 — the pointwise equal-area identity as a genuine two-variable Jacobian (part 3 of 3)

`equal_area_pointwise` (`SweepFormula2.lean`) states the Jacobian identity with the two partial derivatives
`∂h/∂θ`, `β′(ψ)` (the shape of `A5.C16.equal_area_jacobian_polar`).  Here the same identity is stated for the
Fréchet derivative of the map of two variables
`F (θ, ψ) = (h, β) = (sin (θ/2) / sin (ρ(ψ)/2), area(a, b, P(ψ)) / Ω)`, `ρ(ψ) = ∠(a, P(ψ))`,
including the dependence of `h` on `ψ` through `ρ(ψ)`:

* `equal_area_pointwise_fderiv` : `F` is differentiable at `(θ, ψ)`, `∂β/∂θ = 0`, and
  `h S · det F′ = S/(2Ω) · sin θ`;
* `forward_coords_polar` : `(1 − h, ·, h β)` are the first and third barycentric weights the real twin
  `forwardBaryR` of `polyhedralForward` computes for the point at arc `θ = s ρ` on the meridian `a → P`.

What is still NOT proved (and assumed nowhere):
* that the 1/10-face triangles of the dodecahedron satisfy the hypotheses (`V > 0`, `1 + a·b + b·c + c·a > 0`,
  `b·c > 0`, edge above `SLERP_SWITCH`);
* additivity `area(a, b, P) + area(a, P, c) = area(a, b, c)`, which would turn the second weight
  `h · area(a, P, c)/Ω` into `h (1 − β)` (the form used by `A5.C16.planar_wedge_area`);
* `A5.C16.equal_area_jacobian_statement` itself: the passage from the polar chart `(θ, ψ)` about the apex to an
  arbitrary differentiable chart `w` of the sphere, and the identification of `A5.C16.polyhedralForwardR` (its own
  triple-based `R3`, `arcsin`-of-midpoints area) with the coordinates `(h, β)` used here;
* the small-`|s|` branch `2 s` of `get_triangle_area` and every floating-point effect.

Exact real arithmetic; nothing is claimed about floating-point rounding. -/
namespace A5.SweepFormula
open A5 Real Set Filter Topology A5.RadialRoundTrip A5.AngularRoundTrip

/-- `ψ ↦ sin (∠(a, P(ψ)) / 2)` is differentiable (the apex is not on the great circle) -/
theorem hasDerivAt_sin_half_rho {a b d : R3} (ha : dotR a a = 1) (hb : dotR b b = 1) (hd : dotR d d = 1)
    (hbd : dotR b d = 0) (hT : tripleR a b d ≠ 0) {ψ : ℝ}
    (hMq : 0 < Real.cos ψ * tripleR a b d + Real.sin ψ * (dotR a b * dotR a d)) :
    ∃ k' : ℝ, HasDerivAt (fun x => Real.sin (angleR a (gcPoint b d (edgeArcR a b d x)) / 2)) k' ψ := by
  have hfun : (fun x => Real.sin (angleR a (gcPoint b d (edgeArcR a b d x)) / 2))
      = (fun x => Real.sin (Real.arccos (Real.cos (edgeArcR a b d x) * dotR a b
          + Real.sin (edgeArcR a b d x) * dotR a d) / 2)) := by
    funext x
    obtain ⟨hu, hap, _, _⟩ := gcPoint_facts a hb hd hbd (edgeArcR a b d x)
    rw [(angleR_unit ha hu).1, hap]
  rw [hfun]
  have he := hasDerivAt_edgeArc a b d hMq
  have hX := (he.cos.mul_const (dotR a b)).add (he.sin.mul_const (dotR a d))
  have hX2 := gc_dot_sq_lt_one ha hb hd hbd hT (edgeArcR a b d ψ)
  rw [(gcPoint_facts a hb hd hbd (edgeArcR a b d ψ)).2.1] at hX2
  obtain ⟨h1, h2⟩ := abs_lt.mp ((sq_lt_one_iff_abs_lt_one _).mp hX2)
  have hac := (Real.hasDerivAt_arccos (ne_of_gt h1) (ne_of_lt h2)).comp ψ hX
  exact ⟨_, (hac.div_const 2).sin⟩

/-- **(4) as a two-variable Jacobian.**  Same hypotheses as `equal_area_pointwise`.  The map
`F (θ, ψ) = (sin (θ/2) / sin (ρ(ψ)/2), area(a, b, P(ψ)) / Ω)` from polar coordinates about the apex to the code's
coordinates `(h, β)` is Fréchet-differentiable at `(θ, ψ)`, its second component does not depend on `θ`, and the
planar area element `h S dh dβ` pulled back by `F` is `S/(2Ω) · sin θ dθ dψ`. -/
theorem equal_area_pointwise_fderiv {a b d : R3} (ha : dotR a a = 1) (hb : dotR b b = 1) (hd : dotR d d = 1)
    (hbd : dotR b d = 0) (hT : 0 < tripleR a b d) {ψ : ℝ}
    (hMq : 0 < Real.cos ψ * tripleR a b d + Real.sin ψ * (dotR a b * dotR a d))
    (hD : 0 < 1 + dotR a b + dotR b (gcPoint b d (edgeArcR a b d ψ)) + dotR (gcPoint b d (edgeArcR a b d ψ)) a)
    (S Ω θ : ℝ) (hΩ : Ω ≠ 0) :
    let F : ℝ × ℝ → ℝ × ℝ := fun z =>
      (Real.sin (z.1 / 2) / Real.sin (angleR a (gcPoint b d (edgeArcR a b d z.2)) / 2),
        triAreaR a b (gcPoint b d (edgeArcR a b d z.2)) / Ω)
    ∃ F' : ℝ × ℝ →L[ℝ] ℝ × ℝ, HasFDerivAt F F' (θ, ψ) ∧ (F' (1, 0)).2 = 0 ∧
      (F (θ, ψ)).1 * S * ((F' (1, 0)).1 * (F' (0, 1)).2 - (F' (0, 1)).1 * (F' (1, 0)).2)
        = S / (2 * Ω) * Real.sin θ := by
  intro F
  obtain ⟨hu, _, _, _⟩ := gcPoint_facts a hb hd hbd (edgeArcR a b d ψ)
  have hX2 := gc_dot_sq_lt_one ha hb hd hbd hT.ne' (edgeArcR a b d ψ)
  have hX1 : dotR a (gcPoint b d (edgeArcR a b d ψ)) < 1 :=
    (abs_lt.mp ((sq_lt_one_iff_abs_lt_one _).mp hX2)).2
  have hρ : Real.sin (angleR a (gcPoint b d (edgeArcR a b d ψ)) / 2) ≠ 0 := sin_half_angle_ne_zero ha hu hX1
  obtain ⟨k', hk⟩ := hasDerivAt_sin_half_rho ha hb hd hbd hT.ne' hMq
  set ρ := angleR a (gcPoint b d (edgeArcR a b d ψ)) with hρ_def
  -- the one-variable pieces
  have hA : HasDerivAt (fun t : ℝ => Real.sin (t / 2)) (Real.cos (θ / 2) * (1 / 2)) θ := by
    have h1 : HasDerivAt (fun t : ℝ => t / 2) (1 / 2) θ := by simpa using (hasDerivAt_id θ).div_const 2
    exact (Real.hasDerivAt_sin (θ / 2)).comp θ h1
  have hg : HasDerivAt (fun x => (Real.sin (angleR a (gcPoint b d (edgeArcR a b d x)) / 2))⁻¹)
      (-k' / Real.sin (ρ / 2) ^ 2) ψ := hk.inv hρ
  have hβ : HasDerivAt (fun x => triAreaR a b (gcPoint b d (edgeArcR a b d x)) / Ω)
      ((1 - Real.cos ρ) / Ω) ψ := (sweep_formula ha hb hd hbd hMq hD).div_const Ω
  -- as functions of the pair
  have hA2 := hA.comp_hasFDerivAt (θ, ψ) (hasFDerivAt_fst (𝕜 := ℝ) (E := ℝ) (F := ℝ) (p := (θ, ψ)))
  have hg2 := hg.comp_hasFDerivAt (θ, ψ) (hasFDerivAt_snd (𝕜 := ℝ) (E := ℝ) (F := ℝ) (p := (θ, ψ)))
  have hβ2 := hβ.comp_hasFDerivAt (θ, ψ) (hasFDerivAt_snd (𝕜 := ℝ) (E := ℝ) (F := ℝ) (p := (θ, ψ)))
  have hF := (hA2.mul hg2).prodMk hβ2
  refine ⟨_, hF.congr_of_eventuallyEq ?_, ?_, ?_⟩
  · refine Filter.Eventually.of_forall fun z => ?_
    simp only [F, Function.comp, Pi.mul_apply, div_eq_mul_inv]
  · simp
  · simp only [F, Function.comp, ContinuousLinearMap.prod_apply, add_apply,
      smul_apply, ContinuousLinearMap.coe_fst', ContinuousLinearMap.coe_snd',
      smul_eq_mul, mul_zero, mul_one, add_zero, zero_add, sub_zero]
    rw [← hρ_def]
    have hs : Real.sin θ = 2 * Real.sin (θ / 2) * Real.cos (θ / 2) := sin_eq_half θ
    have hc : 1 - Real.cos ρ = 2 * Real.sin (ρ / 2) ^ 2 := by
      have h1 := Real.cos_two_mul (ρ / 2)
      have h2 := Real.sin_sq_add_cos_sq (ρ / 2)
      rw [show 2 * (ρ / 2) = ρ by ring] at h1
      linear_combination (-1 : ℝ) * h1 - 2 * h2
    rw [hc, hs]
    field_simp

/-! ## the code's forward coordinates are `(1 − h, ·, h β)` -/

/-- **The real twin of `polyhedralForward` computes exactly these coordinates.**  Triangle hypotheses of
`polyhedral_roundtrip_exact`.  For `P = slerp b c q` on the far edge, `ρ = ∠(a, P)`, and the point
`v = slerp a P s` at arc `θ = s ρ` from the apex (`0 < s ≤ 1`): the barycentric triple of `forwardBaryR` is
`(1 − h, h · area(a, P, c)/Ω, h · area(a, b, P)/Ω)` with `h = sin (θ/2) / sin (ρ/2)` — radial coordinate `h`,
angular coordinate `β = area(a, b, P)/Ω`, as in `equal_area_pointwise`. -/
theorem forward_coords_polar {a b c : R3} {q s : ℝ} (ha : dotR a a = 1) (hb : dotR b b = 1)
    (hc : dotR c c = 1) (hV : 0 < tripleR a b c) (hD : 0 < 1 + dotR a b + dotR b c + dotR c a)
    (hγ : slerpSwitch ≤ angleR b c) (hγ' : slerpSwitch ≤ angleR a (slerpR b c q))
    (hq0 : 0 ≤ q) (hq1 : q ≤ 1) (hs0 : 0 < s) (hs1 : s ≤ 1) :
    let P := slerpR b c q
    let ρ := angleR a P
    let h := Real.sin (s * ρ / 2) / Real.sin (ρ / 2)
    forwardBaryR a b c (slerpR a P s)
      = (1 - h, h * (triAreaR a P c / triAreaR a b c), h * (triAreaR a b P / triAreaR a b c)) := by
  intro P ρ h
  have hπ := angle_bc_lt_pi ha hb hc hV
  have hπ' : angleR a P < π := angle_a_p_lt_pi ha hb hc hV hD hγ hq0 hq1
  obtain ⟨hu, _, _⟩ := slerpR_spec q hb hc hγ hπ
  have hpos : 0 < angleR a P := lt_of_lt_of_le slerpSwitch_pos hγ'
  obtain ⟨hvu, _, _⟩ := slerpR_spec s ha hu hγ' hπ'
  have hav : angleR a (slerpR a P s) = s * angleR a P := slerpR_angle hs0.le hs1 ha hu hγ' hπ'
  have hav1 : s * angleR a P ≤ angleR a P := by
    have := mul_le_mul_of_nonneg_right hs1 hpos.le; linarith
  have hh : vectorDifferenceR a (slerpR a P s) / vectorDifferenceR a P = h := by
    rw [vectorDifferenceR_eq ha hvu (by rw [hav]; linarith), hav, vectorDifferenceR_eq ha hu hπ']
  rw [forwardBaryR_eq ha hb hc hV hγ hγ' hπ' hs0 hs1, hh]
  refine Prod.ext rfl (Prod.ext ?_ ?_) <;> simp only <;> ring

/-! ## non-vacuity: the octant frame at `ψ = π/3` -/

example (S Ω θ : ℝ) (hΩ : Ω ≠ 0) :
    let a : R3 := ⟨0, 0, 1⟩
    let b : R3 := ⟨1, 0, 0⟩
    let d : R3 := ⟨0, 1, 0⟩
    let F : ℝ × ℝ → ℝ × ℝ := fun z =>
      (Real.sin (z.1 / 2) / Real.sin (angleR a (gcPoint b d (edgeArcR a b d z.2)) / 2),
        triAreaR a b (gcPoint b d (edgeArcR a b d z.2)) / Ω)
    ∃ F' : ℝ × ℝ →L[ℝ] ℝ × ℝ, HasFDerivAt F F' (θ, π / 3) ∧ (F' (1, 0)).2 = 0 ∧
      (F (θ, π / 3)).1 * S * ((F' (1, 0)).1 * (F' (0, 1)).2 - (F' (0, 1)).1 * (F' (1, 0)).2)
        = S / (2 * Ω) * Real.sin θ := by
  obtain ⟨ha, hb, hd, hbd, hab, had, hT⟩ := octant_gc_hyps
  refine equal_area_pointwise_fderiv ha hb hd hbd (by rw [hT]; norm_num) ?_ ?_ S Ω θ hΩ
  · rw [hT, hab, Real.cos_pi_div_three]; norm_num
  · rw [gc_denominator _ hb hd hbd, hab, had]
    have := Real.cos_arctan_pos (Real.sin (π / 3) * (1 - (0 : ℝ) ^ 2) /
      (Real.cos (π / 3) * tripleR ⟨0, 0, 1⟩ ⟨1, 0, 0⟩ ⟨0, 1, 0⟩ + Real.sin (π / 3) * ((0 : ℝ) * 0)))
    unfold edgeArcR
    rw [hab, had]
    linarith

end A5.SweepFormula
