import A5.Model.Geo
import A5.Model.OriginInt
/-! Lemmas about `origin.rs`: the `Float` model of `A5/Model/Geo.lean` is the instance of the Float-free
mirrors of `A5/Model/OriginInt.lean`; the fields of the twelve `Origin` records are what the generated
tables say (without evaluating any float); finite table facts; the exact rational geometry of the
twelve quaternions.  Core only (no Mathlib). -/
namespace A5

/-! ## the model is the instance of the mirrors (all `rfl`) -/

theorem isLayoutClockwise_eq (l : List Nat) : isLayoutClockwise l = isLayoutClockwiseI l := rfl

theorem quintantToSegment_eq (q : Nat) (o : Origin) :
    quintantToSegment q o = quintantToSegmentI q o.firstQuintant o.orientation := rfl

theorem segmentToQuintant_eq (s : Nat) (o : Origin) :
    segmentToQuintant s o = segmentToQuintantI s o.firstQuintant o.orientation := rfl

theorem haversine_eq (theta phi theta2 phi2 : Float) :
    haversine theta phi theta2 phi2 = haversineG Float.sin 2.0 theta phi theta2 phi2 := rfl

theorem findNearestOrigin_go_eq (theta phi : Float) : ∀ (l : List Origin) (m : Float) (b : Origin),
    findNearestOrigin.go theta phi l m b
      = argminGo (fun o => haversine theta phi o.theta o.phi) l m b
  | [], _, _ => rfl
  | o :: os, m, b => by
    show (if haversine theta phi o.theta o.phi < m then _ else _)
       = (if haversine theta phi o.theta o.phi < m then _ else _)
    rw [findNearestOrigin_go_eq theta phi os, findNearestOrigin_go_eq theta phi os]

theorem findNearestOrigin_eq (theta phi : Float) :
    findNearestOrigin theta phi =
      argminGo (fun o => haversine theta phi o.theta o.phi) origins (1.0 / 0.0) (originAt 0) :=
  findNearestOrigin_go_eq theta phi _ _ _

theorem transformQuat_eq (v : V3) (q : Float × Float × Float × Float) :
    transformQuat v q = (let r := transformQuatG (v.x, v.y, v.z) q; ⟨r.1, r.2.1, r.2.2⟩) := rfl

theorem quatAt_eq (i : Nat) : quatAt i = quatAtG fc (0.0, 0.0, 0.0, 1.0) i := rfl

theorem firstQuintant_eq_faceFirst (o : Nat) : firstQuintant o = faceFirst o := rfl

/-! ## the twelve `Origin` records, field by field (no float is evaluated) -/

theorem origins_length : origins.length = 12 := by
  unfold origins; rw [List.length_map, List.length_range]; rfl

theorem originAt_eq (o : Nat) (h : o < 12) :
    originAt o =
      (let k := Gen.ORIGIN_ORDER.getD o 0
       let (theta, phi, angle, qi) := rawOrigins.getD k (0.0, 0.0, 0.0, 0)
       let q := quatAt qi
       { id := o, theta := theta, phi := phi, quat := q, invQuat := quatConj q, angle := angle,
         orientation := Gen.QUINTANT_ORIENTATIONS_ARRAYS.getD k [],
         firstQuintant := Gen.QUINTANT_FIRST.getD k 0 }) := by
  unfold originAt origins
  rw [List.getD_eq_getElem?_getD, List.getElem?_map, List.getElem?_range (by exact h)]
  rfl

theorem originAt_firstQuintant (o : Nat) (h : o < 12) :
    (originAt o).firstQuintant = Gen.QUINTANT_FIRST.getD (Gen.ORIGIN_ORDER.getD o 0) 0 := by
  rewrite [originAt_eq o h]; rfl

theorem originAt_orientation (o : Nat) (h : o < 12) :
    (originAt o).orientation = Gen.QUINTANT_ORIENTATIONS_ARRAYS.getD (Gen.ORIGIN_ORDER.getD o 0) [] := by
  rewrite [originAt_eq o h]; rfl

theorem originAt_first (o : Nat) (h : o < 12) : (originAt o).firstQuintant = faceFirst o :=
  originAt_firstQuintant o h

theorem originAt_layout (o : Nat) (h : o < 12) : (originAt o).orientation = faceLayout o :=
  originAt_orientation o h

theorem originAt_id (o : Nat) (h : o < 12) : (originAt o).id = o := by
  rewrite [originAt_eq o h]; rfl

theorem faceSlot_lt : ∀ o, o < 12 → faceSlot o < 12 := by decide

/-- the quaternion index stored in the float table `rawOrigins` is the integer table `rawQuatIndex` -/
theorem rawOrigins_quatIndex : ∀ k, k < 12 →
    (rawOrigins.getD k (0.0, 0.0, 0.0, 0)).2.2.2 = rawQuatIndex.getD k 0 := by
  decide

theorem originAt_quat (o : Nat) (h : o < 12) : (originAt o).quat = quatAt (faceQuatIndex o) := by
  rewrite [originAt_eq o h]
  show quatAt (rawOrigins.getD (faceSlot o) (0.0, 0.0, 0.0, 0)).2.2.2 = _
  rewrite [rawOrigins_quatIndex _ (faceSlot_lt o h)]; rfl

theorem originAt_invQuat (o : Nat) (h : o < 12) :
    (originAt o).invQuat = quatConj (originAt o).quat := by
  rewrite [originAt_eq o h]; rfl

/-- `quintant_to_segment` / `segment_to_quintant` on face `o` are the integer mirrors on the table rows -/
theorem quintantToSegment_originAt (q o : Nat) (h : o < 12) :
    quintantToSegment q (originAt o) = quintantToSegmentI q (faceFirst o) (faceLayout o) := by
  rewrite [quintantToSegment_eq, originAt_first o h, originAt_layout o h]; rfl

theorem segmentToQuintant_originAt (s o : Nat) (h : o < 12) :
    segmentToQuintant s (originAt o) = segmentToQuintantI s (faceFirst o) (faceLayout o) := by
  rewrite [segmentToQuintant_eq, originAt_first o h, originAt_layout o h]; rfl

/-! ## finite facts about the generated tables -/

/-- `ORIGIN_ORDER` has 12 entries, all `< 12`, pairwise different, and hits every slot. -/
theorem originOrder_perm :
    Gen.ORIGIN_ORDER.length = 12 ∧
    (∀ o, o < 12 → faceSlot o < 12) ∧
    (∀ o, o < 12 → ∀ o', o' < 12 → faceSlot o = faceSlot o' → o = o') ∧
    (∀ k, k < 12 → ∃ o, o < 12 ∧ faceSlot o = k) := by
  decide +kernel

/-- every face's layout is one of the four named fans, has five entries, all codes are `< 6`,
and the first quintant is `< 5`. -/
theorem faceLayout_named : ∀ o, o < 12 →
    (faceLayout o = Gen.CLOCKWISE_FAN ∨ faceLayout o = Gen.CLOCKWISE_STEP ∨
     faceLayout o = Gen.COUNTER_STEP ∨ faceLayout o = Gen.COUNTER_JUMP) ∧
    (faceLayout o).length = 5 ∧ (∀ c ∈ faceLayout o, c < 6) ∧ faceFirst o < 5 := by
  decide +kernel

/-- the four fans are pairwise different, so `is_layout_clockwise` really separates them -/
theorem fans_distinct :
    isLayoutClockwiseI Gen.CLOCKWISE_FAN = true ∧ isLayoutClockwiseI Gen.CLOCKWISE_STEP = true ∧
    isLayoutClockwiseI Gen.COUNTER_STEP = false ∧ isLayoutClockwiseI Gen.COUNTER_JUMP = false := by
  decide

/-- quintant → segment → quintant, on the integer mirror, all 12 × 5 cases -/
theorem relabelI_roundtrip_q : ∀ o, o < 12 → ∀ q, q < 5 →
    (quintantToSegmentI q (faceFirst o) (faceLayout o)).1 < 5 ∧
    (quintantToSegmentI q (faceFirst o) (faceLayout o)).2 < 6 ∧
    segmentToQuintantI (quintantToSegmentI q (faceFirst o) (faceLayout o)).1 (faceFirst o) (faceLayout o)
      = (q, (quintantToSegmentI q (faceFirst o) (faceLayout o)).2) := by
  decide +kernel

/-- segment → quintant → segment, on the integer mirror, all 12 × 5 cases -/
theorem relabelI_roundtrip_s : ∀ o, o < 12 → ∀ s, s < 5 →
    (segmentToQuintantI s (faceFirst o) (faceLayout o)).1 < 5 ∧
    (segmentToQuintantI s (faceFirst o) (faceLayout o)).2 < 6 ∧
    quintantToSegmentI (segmentToQuintantI s (faceFirst o) (faceLayout o)).1 (faceFirst o) (faceLayout o)
      = (s, (segmentToQuintantI s (faceFirst o) (faceLayout o)).2) := by
  decide +kernel

/-- the orientation attached to a segment is the entry of the face's fan at the segment's offset from
the first quintant (so it is a property of the segment alone, whichever way the fan winds) -/
theorem segment_orientationI (s first : Nat) (layout : List Nat) :
    (segmentToQuintantI s first layout).2 = layout.getD ((s + 5 - first) % 5) 0 := rfl

/-- winding: on a counter-clockwise face segment = quintant; on a clockwise face the segment is the
quintant mirrored about the first quintant. -/
theorem relabelI_winding : ∀ o, o < 12 → ∀ q, q < 5 →
    (quintantToSegmentI q (faceFirst o) (faceLayout o)).1 =
      if isLayoutClockwiseI (faceLayout o) then (2 * faceFirst o + 5 - q) % 5 else q := by
  decide +kernel

/-! ## second-ring quaternion index, longitude offset -/

/-- `(i + RING2_QUAT_ADD) % RING2_QUAT_MOD + RING2_QUAT_BASE` for `i < 5` hits each of 6..10 once -/
theorem ring2_index_perm :
    (∀ i, i < 5 → 6 ≤ (i + Gen.RING2_QUAT_ADD) % Gen.RING2_QUAT_MOD + Gen.RING2_QUAT_BASE ∧
                  (i + Gen.RING2_QUAT_ADD) % Gen.RING2_QUAT_MOD + Gen.RING2_QUAT_BASE ≤ 10) ∧
    (∀ i, i < 5 → ∀ j, j < 5 →
        (i + Gen.RING2_QUAT_ADD) % Gen.RING2_QUAT_MOD + Gen.RING2_QUAT_BASE
          = (j + Gen.RING2_QUAT_ADD) % Gen.RING2_QUAT_MOD + Gen.RING2_QUAT_BASE → i = j) ∧
    (∀ k, 6 ≤ k → k ≤ 10 → ∃ i, i < 5 ∧
        (i + Gen.RING2_QUAT_ADD) % Gen.RING2_QUAT_MOD + Gen.RING2_QUAT_BASE = k) := by
  refine ⟨by decide, by decide, ?_⟩
  intro k h6 h10
  have : k = 6 ∨ k = 7 ∨ k = 8 ∨ k = 9 ∨ k = 10 := by omega
  rcases this with rfl | rfl | rfl | rfl | rfl <;> decide

/-- every row of `QUATERNIONS` is used by exactly one face -/
theorem faceQuatIndex_perm :
    (∀ o, o < 12 → faceQuatIndex o < 12) ∧
    (∀ o, o < 12 → ∀ o', o' < 12 → faceQuatIndex o = faceQuatIndex o' → o = o') ∧
    (∀ k, k < 12 → ∃ o, o < 12 ∧ faceQuatIndex o = k) := by
  decide +kernel

theorem longitude_offset_93 :
    Gen.LONGITUDE_OFFSET.num = 93 ∧ Gen.LONGITUDE_OFFSET.exp = 0 ∧
    Gen.LONGITUDE_OFFSET.toRat = 93 ∧ Gen.LONGITUDE_OFFSET.Consistent := by
  decide +kernel

/-- the executable reading of the constant is the `f64` literal `93.0` -/
theorem longitude_offset_float : (fc Gen.LONGITUDE_OFFSET).toBits = (93.0 : Float).toBits := by
  decide +kernel

/-! ## exact rational geometry of the twelve quaternions -/

/-- `QUATERNIONS[i]` as exact rationals -/
def quatQ (i : Nat) : Rat × Rat × Rat × Rat := quatAtG FConst.toRat (0, 0, 0, 1) i

def normSqQ (q : Rat × Rat × Rat × Rat) : Rat :=
  q.1 * q.1 + q.2.1 * q.2.1 + q.2.2.1 * q.2.2.1 + q.2.2.2 * q.2.2.2

/-- centre of face `o`: the pole `(0,0,1)` rotated by the face's quaternion (`transform_quat`, over ℚ) -/
def centreQ (o : Nat) : Rat × Rat × Rat := transformQuatG (0, 0, 1) (quatQ (faceQuatIndex o))

def dotQ (a b : Rat × Rat × Rat) : Rat := a.1 * b.1 + a.2.1 * b.2.1 + a.2.2 * b.2.2

/-- `|x - y| < ε` -/
def nearQ (x y ε : Rat) : Prop := y - ε < x ∧ x < y + ε

instance (x y ε : Rat) : Decidable (nearQ x y ε) := by unfold nearQ; exact inferInstance

/-- which face is opposite which -/
def antipode : List Nat := [9, 8, 6, 11, 7, 10, 2, 4, 1, 0, 5, 3]

/-- faces `j ≠ i` whose centre is in the open hemisphere around centre `i` -/
def nearFaces (i : Nat) : List Nat :=
  (List.range 12).filter (fun j => j ≠ i ∧ 0 < dotQ (centreQ i) (centreQ j))

/-- all 48 quaternion components: the bit pattern and the dyadic `num * 2^exp` denote the same finite number -/
theorem quaternions_consistent : ∀ row ∈ Gen.QUATERNIONS, row.length = 4 ∧ ∀ c ∈ row, c.Consistent := by
  decide +kernel

end A5
