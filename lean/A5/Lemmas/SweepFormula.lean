import A5.Lemmas.AngularRoundTrip2
import Mathlib.Analysis.SpecialFunctions.Trigonometric.ArctanDeriv
import Mathlib.Analysis.SpecialFunctions.Trigonometric.Deriv
import Mathlib.Analysis.Calculus.Deriv.Mul
import Mathlib.Analysis.Calculus.Deriv.Comp
/-! # C16 — the polar area-sweep formula for the code's own area function, over `ℝ` (part 1 of 3)

`A5/Props/C16.lean` proves the Jacobian identity of the face projection in polar coordinates about the apex `a`
(`equal_area_jacobian_polar`) *assuming* the sweep formula `W′(ψ) = 1 − cos T(ψ)`.  This file and
`SweepFormula2.lean` (and `SweepFormula3.lean`: the two-variable Jacobian) prove that formula for `triAreaR`
(the real twin of `get_triangle_area`, exact `asin` branch), so that the hypothesis can be discharged.

Setting.  `a b d : R3` unit vectors, `b ⟂ d`.  `gcPoint b d q = cos q · b + sin q · d` is the point at arc `q`
from `b` on the great circle through `b` with unit tangent `d` (for a triangle `a b c` with `θ = ∠(b,c)`:
`d = edgeDirR b c = (c − cos θ · b)/sin θ` and `slerp b c t = gcPoint b d (t θ)`, `slerpR_eq_gcPoint`).
`azimuthR a b p = atan2 (a·(b×p)) (b·p − (a·b)(a·p))` is the apex angle at `a` from the side `a b` to the side
`a p` (`azimuthR_polar`: it returns `ψ` on `p = cos γ a + sin γ (cos ψ e₁ + sin ψ e₂)` in any right-handed
orthonormal frame `a e₁ e₂` with `b` in the half-plane `a e₁`).

Proved here (with `u = a·b`, `w = a·d`, `T = a·(b×d)`, `X(q) = a·p(q) = cos ∠(a, p(q))`):
* (1) `triArea_gc_formula` : `E(q) = area(a, b, p(q)) = 2 arctan (T sin q / (1 + u + cos q + u cos q + w sin q))`;
* `hasDerivAt_triArea_gc` : `dE/dq = T / (1 + X(q))`;
* `hasDerivAt_azimuth_gc` : `dψ/dq = T / (1 − X(q)²)`;
* (2) `sweep_rate_gc` : `dE/dq = (1 − cos ∠(a, p(q))) · dψ/dq`.
Positivity hypotheses, stated explicitly: Eriksson's denominator `1 + a·b + b·p + p·a > 0` (area of `a b p` below
`π`) and, for the azimuth, `b·p − (a·b)(a·p) > 0` (apex angle in `(−π/2, π/2)`).

Exact real arithmetic; nothing is claimed about floating-point rounding. -/
namespace A5.SweepFormula
open A5 Real Set Filter Topology A5.RadialRoundTrip A5.AngularRoundTrip

/-! ## 1. the moving point -/

/-- the point at arc `q` from `b` on the great circle through `b` with unit tangent `d` -/
noncomputable def gcPoint (b d : R3) (q : ℝ) : R3 := addR (scaleR b (Real.cos q)) (scaleR d (Real.sin q))

/-- bilinear expansion of everything Eriksson's formula needs -/
theorem gcPoint_expand (a b d : R3) (q : ℝ) :
    dotR (gcPoint b d q) (gcPoint b d q)
      = Real.cos q ^ 2 * dotR b b + Real.sin q ^ 2 * dotR d d + 2 * Real.cos q * Real.sin q * dotR b d ∧
    dotR a (gcPoint b d q) = Real.cos q * dotR a b + Real.sin q * dotR a d ∧
    dotR b (gcPoint b d q) = Real.cos q * dotR b b + Real.sin q * dotR b d ∧
    tripleR a b (gcPoint b d q) = Real.sin q * tripleR a b d := by
  simp only [gcPoint, tripleR, dotR, crossR, addR, scaleR]
  exact ⟨by ring, by ring, by ring, by ring⟩

/-- for unit `b ⟂ d`: `p(q)` is a unit vector, `a·p = u cos q + w sin q`, `b·p = cos q`, `a·(b×p) = T sin q` -/
theorem gcPoint_facts (a : R3) {b d : R3} (hb : dotR b b = 1) (hd : dotR d d = 1) (hbd : dotR b d = 0) (q : ℝ) :
    dotR (gcPoint b d q) (gcPoint b d q) = 1 ∧
    dotR a (gcPoint b d q) = Real.cos q * dotR a b + Real.sin q * dotR a d ∧
    dotR b (gcPoint b d q) = Real.cos q ∧
    tripleR a b (gcPoint b d q) = Real.sin q * tripleR a b d := by
  obtain ⟨h1, h2, h3, h4⟩ := gcPoint_expand a b d q
  refine ⟨?_, h2, ?_, h4⟩
  · rw [h1, hb, hd, hbd]; linear_combination Real.sin_sq_add_cos_sq q
  · rw [h3, hb, hbd]; ring

/-- `T² = 1 − u² − w²`: `b, d, b×d` is an orthonormal frame and `a` is a unit vector -/
theorem triple_sq_frame {a b d : R3} (ha : dotR a a = 1) (hb : dotR b b = 1) (hd : dotR d d = 1)
    (hbd : dotR b d = 0) : tripleR a b d ^ 2 = 1 - dotR a b ^ 2 - dotR a d ^ 2 := by
  rw [gram, ha, hb, hd, hbd, dotR_comm d a]; ring

/-! ## 2. (1) the explicit formula `E(q)` -/

/-- **(1)** Eriksson's formula along the great circle: for unit `a b d`, `b ⟂ d`, wherever the denominator is
positive, `area(a, b, p(q)) = 2 arctan (T sin q / (1 + u + cos q + (u cos q + w sin q)))`. -/
theorem triArea_gc_formula {a b d : R3} (ha : dotR a a = 1) (hb : dotR b b = 1) (hd : dotR d d = 1)
    (hbd : dotR b d = 0) {q : ℝ}
    (hD : 0 < 1 + dotR a b + Real.cos q + (Real.cos q * dotR a b + Real.sin q * dotR a d)) :
    triAreaR a b (gcPoint b d q) = 2 * Real.arctan (Real.sin q * tripleR a b d /
      (1 + dotR a b + Real.cos q + (Real.cos q * dotR a b + Real.sin q * dotR a d))) := by
  obtain ⟨hu, hap, hbp, htr⟩ := gcPoint_facts a hb hd hbd q
  have hD' : 0 < 1 + dotR a b + dotR b (gcPoint b d q) + dotR (gcPoint b d q) a := by
    rw [hbp, dotR_comm (gcPoint b d q) a, hap]; exact hD
  rw [triAreaR_eq_arctan' ha hb hu hD', hbp, dotR_comm (gcPoint b d q) a, hap, htr]

/-- the same denominator written with the dot products of the triangle `a b p` -/
theorem gc_denominator (a : R3) {b d : R3} (hb : dotR b b = 1) (hd : dotR d d = 1) (hbd : dotR b d = 0) (q : ℝ) :
    1 + dotR a b + dotR b (gcPoint b d q) + dotR (gcPoint b d q) a
      = 1 + dotR a b + Real.cos q + (Real.cos q * dotR a b + Real.sin q * dotR a d) := by
  obtain ⟨_, hap, hbp, _⟩ := gcPoint_facts a hb hd hbd q
  rw [hbp, dotR_comm (gcPoint b d q) a, hap]

/-! ## 3. derivative of `2 arctan (V/D)` and of `arctan (N/M)` -/

theorem hasDerivAt_two_arctan_div {V D : ℝ → ℝ} {V' D' q : ℝ} (hV : HasDerivAt V V' q)
    (hDd : HasDerivAt D D' q) (hD0 : D q ≠ 0) :
    HasDerivAt (fun x => 2 * Real.arctan (V x / D x)) (2 * ((V' * D q - V q * D') / (D q ^ 2 + V q ^ 2))) q := by
  have h := ((hV.div hDd hD0).arctan).const_mul 2
  refine h.congr_deriv ?_
  have hpos : 0 < D q ^ 2 + V q ^ 2 := by positivity
  have h1 : 1 + (V q / D q) ^ 2 = (D q ^ 2 + V q ^ 2) / D q ^ 2 := by field_simp
  simp only [Pi.div_apply]
  rw [h1]
  field_simp

theorem hasDerivAt_arctan_div {N M : ℝ → ℝ} {N' M' q : ℝ} (hN : HasDerivAt N N' q)
    (hM : HasDerivAt M M' q) (hM0 : M q ≠ 0) :
    HasDerivAt (fun x => Real.arctan (N x / M x)) ((N' * M q - N q * M') / (M q ^ 2 + N q ^ 2)) q := by
  have h := (hN.div hM hM0).arctan
  refine h.congr_deriv ?_
  have hpos : 0 < M q ^ 2 + N q ^ 2 := by positivity
  have h1 : 1 + (N q / M q) ^ 2 = (M q ^ 2 + N q ^ 2) / M q ^ 2 := by field_simp
  simp only [Pi.div_apply]
  rw [h1]
  field_simp

/-! ## 4. `dE/dq = T / (1 + a·p)` -/

/-- **The area of `a b p(q)` grows at the rate `T / (1 + cos ∠(a,p))` per unit of arc along the edge.**
`a b d` unit, `b ⟂ d`, Eriksson's denominator of `a b p(q)` positive (area `< π`). -/
theorem hasDerivAt_triArea_gc {a b d : R3} (ha : dotR a a = 1) (hb : dotR b b = 1) (hd : dotR d d = 1)
    (hbd : dotR b d = 0) {q : ℝ}
    (hD : 0 < 1 + dotR a b + dotR b (gcPoint b d q) + dotR (gcPoint b d q) a) :
    HasDerivAt (fun x => triAreaR a b (gcPoint b d x)) (tripleR a b d / (1 + dotR a (gcPoint b d q))) q := by
  obtain ⟨hu, hap, hbp, htr⟩ := gcPoint_facts a hb hd hbd q
  obtain ⟨h01, h1c, hX⟩ := one_add_dots_pos_of_D ha hb hu hD
  have hgram := gram_unit ha hb hu
  rw [gc_denominator a hb hd hbd q] at hD
  rw [hbp] at h1c
  rw [dotR_comm (gcPoint b d q) a] at hX hgram
  rw [htr, hbp] at hgram
  set u := dotR a b with hu_def
  set w := dotR a d with hw_def
  set T := tripleR a b d with hT_def
  -- the two functions of `q`
  have hV : HasDerivAt (fun x => Real.sin x * T) (Real.cos q * T) q := (Real.hasDerivAt_sin q).mul_const T
  have hDd : HasDerivAt (fun x => 1 + u + Real.cos x + (Real.cos x * u + Real.sin x * w))
      (-Real.sin q + (-Real.sin q * u + Real.cos q * w)) q := by
    have h1 := ((hasDerivAt_const q (1 + u)).add (Real.hasDerivAt_cos q)).add
      (((Real.hasDerivAt_cos q).mul_const u).add ((Real.hasDerivAt_sin q).mul_const w))
    refine h1.congr_deriv ?_
    ring
  have hmain := hasDerivAt_two_arctan_div hV hDd hD.ne'
  -- the area is that function near `q`
  have hcont : Continuous (fun x => 1 + u + Real.cos x + (Real.cos x * u + Real.sin x * w)) := by fun_prop
  have hev : ∀ᶠ x in 𝓝 q, 0 < 1 + u + Real.cos x + (Real.cos x * u + Real.sin x * w) :=
    hcont.continuousAt.eventually (lt_mem_nhds hD)
  have heq : (fun x => triAreaR a b (gcPoint b d x)) =ᶠ[𝓝 q]
      (fun x => 2 * Real.arctan (Real.sin x * T / (1 + u + Real.cos x + (Real.cos x * u + Real.sin x * w)))) := by
    filter_upwards [hev] with x hx
    exact triArea_gc_formula ha hb hd hbd hx
  refine (hmain.congr_of_eventuallyEq heq).congr_deriv ?_
  -- the value of the derivative
  have hsc := Real.sin_sq_add_cos_sq q
  have hnum : Real.cos q * T * (1 + u + Real.cos q + (Real.cos q * u + Real.sin q * w))
      - Real.sin q * T * (-Real.sin q + (-Real.sin q * u + Real.cos q * w)) = T * (1 + u) * (1 + Real.cos q) := by
    linear_combination T * (1 + u) * hsc
  have hden : (1 + u + Real.cos q + (Real.cos q * u + Real.sin q * w)) ^ 2 + (Real.sin q * T) ^ 2
      = 2 * (1 + u) * (1 + Real.cos q) * (1 + dotR a (gcPoint b d q)) := by
    rw [← hgram, hap]; ring
  rw [hnum, hden]
  field_simp

/-! ## 5. the apex angle -/

/-- the apex angle at `a` from the side `a b` to the side `a p`, as the code would compute it with `atan2`:
`sin γ₀ sin γ sin ψ = a·(b×p)`, `sin γ₀ sin γ cos ψ = b·p − (a·b)(a·p)` -/
noncomputable def azimuthR (a b p : R3) : ℝ :=
  atan2R (tripleR a b p) (dotR b p - dotR a b * dotR a p)

/-- `azimuthR` is the polar angle about `a`: in any right-handed orthonormal frame `a e₁ e₂`, with `b` in the
half-plane `a e₁` at arc `γ₀ ∈ (0,π)` from `a`, the point at arc `γ ∈ (0,π)` and polar angle `ψ ∈ (−π, π]`
has `azimuthR a b p = ψ`. -/
theorem azimuthR_polar {a e1 e2 : R3} (ha : dotR a a = 1) (h1 : dotR e1 e1 = 1)
    (ha1 : dotR a e1 = 0) (ha2 : dotR a e2 = 0) (h12 : dotR e1 e2 = 0) (hor : tripleR a e1 e2 = 1)
    {γ0 γ ψ : ℝ} (hγ0 : 0 < Real.sin γ0) (hγ : 0 < Real.sin γ) (hψ1 : -π < ψ) (hψ2 : ψ ≤ π) :
    azimuthR a (addR (scaleR a (Real.cos γ0)) (scaleR e1 (Real.sin γ0)))
      (addR (scaleR a (Real.cos γ))
        (scaleR (addR (scaleR e1 (Real.cos ψ)) (scaleR e2 (Real.sin ψ))) (Real.sin γ))) = ψ := by
  have t1 : tripleR a (addR (scaleR a (Real.cos γ0)) (scaleR e1 (Real.sin γ0)))
      (addR (scaleR a (Real.cos γ))
        (scaleR (addR (scaleR e1 (Real.cos ψ)) (scaleR e2 (Real.sin ψ))) (Real.sin γ)))
      = Real.sin γ0 * Real.sin γ * Real.sin ψ * tripleR a e1 e2 := by
    simp only [tripleR, dotR, crossR, addR, scaleR]; ring
  have t2 : dotR (addR (scaleR a (Real.cos γ0)) (scaleR e1 (Real.sin γ0)))
      (addR (scaleR a (Real.cos γ))
        (scaleR (addR (scaleR e1 (Real.cos ψ)) (scaleR e2 (Real.sin ψ))) (Real.sin γ)))
      = Real.cos γ0 * Real.cos γ * dotR a a
        + (Real.cos γ0 * Real.sin γ * Real.cos ψ + Real.sin γ0 * Real.cos γ) * dotR a e1
        + Real.cos γ0 * Real.sin γ * Real.sin ψ * dotR a e2
        + Real.sin γ0 * Real.sin γ * Real.cos ψ * dotR e1 e1
        + Real.sin γ0 * Real.sin γ * Real.sin ψ * dotR e1 e2 := by
    simp only [dotR, addR, scaleR]; ring
  have t3 : dotR a (addR (scaleR a (Real.cos γ0)) (scaleR e1 (Real.sin γ0)))
      = Real.cos γ0 * dotR a a + Real.sin γ0 * dotR a e1 := by
    simp only [dotR, addR, scaleR]; ring
  have t4 : dotR a (addR (scaleR a (Real.cos γ))
        (scaleR (addR (scaleR e1 (Real.cos ψ)) (scaleR e2 (Real.sin ψ))) (Real.sin γ)))
      = Real.cos γ * dotR a a + Real.sin γ * Real.cos ψ * dotR a e1 + Real.sin γ * Real.sin ψ * dotR a e2 := by
    simp only [dotR, addR, scaleR]; ring
  unfold azimuthR
  rw [t1, t2, t3, t4, hor, ha, h1, ha1, ha2, h12]
  have e : Real.cos γ0 * Real.cos γ * 1
        + (Real.cos γ0 * Real.sin γ * Real.cos ψ + Real.sin γ0 * Real.cos γ) * 0
        + Real.cos γ0 * Real.sin γ * Real.sin ψ * 0
        + Real.sin γ0 * Real.sin γ * Real.cos ψ * 1
        + Real.sin γ0 * Real.sin γ * Real.sin ψ * 0
      - (Real.cos γ0 * 1 + Real.sin γ0 * 0) *
        (Real.cos γ * 1 + Real.sin γ * Real.cos ψ * 0 + Real.sin γ * Real.sin ψ * 0)
      = Real.sin γ0 * Real.sin γ * Real.cos ψ := by ring
  rw [e, mul_one]
  exact atan2R_polar (mul_pos hγ0 hγ) hψ1 hψ2

/-- **`dψ/dq = T / (1 − (a·p)²)`** (Clairaut's relation along the great circle), where the apex angle lies in
`(−π/2, π/2)` (`b·p − (a·b)(a·p) > 0`). -/
theorem hasDerivAt_azimuth_gc {a b d : R3} (ha : dotR a a = 1) (hb : dotR b b = 1) (hd : dotR d d = 1)
    (hbd : dotR b d = 0) {q : ℝ}
    (hM : 0 < dotR b (gcPoint b d q) - dotR a b * dotR a (gcPoint b d q)) :
    HasDerivAt (fun x => azimuthR a b (gcPoint b d x))
      (tripleR a b d / (1 - dotR a (gcPoint b d q) ^ 2)) q := by
  obtain ⟨hu, hap, hbp, htr⟩ := gcPoint_facts a hb hd hbd q
  have hT2 := triple_sq_frame ha hb hd hbd
  rw [hbp, hap] at hM
  set u := dotR a b with hu_def
  set w := dotR a d with hw_def
  set T := tripleR a b d with hT_def
  have hN : HasDerivAt (fun x => Real.sin x * T) (Real.cos q * T) q := (Real.hasDerivAt_sin q).mul_const T
  have hMd : HasDerivAt (fun x => Real.cos x - u * (Real.cos x * u + Real.sin x * w))
      (-Real.sin q - u * (-Real.sin q * u + Real.cos q * w)) q :=
    (Real.hasDerivAt_cos q).sub
      ((((Real.hasDerivAt_cos q).mul_const u).add ((Real.hasDerivAt_sin q).mul_const w)).const_mul u)
  have hmain := hasDerivAt_arctan_div hN hMd hM.ne'
  have hcont : Continuous (fun x => Real.cos x - u * (Real.cos x * u + Real.sin x * w)) := by fun_prop
  have hev : ∀ᶠ x in 𝓝 q, 0 < Real.cos x - u * (Real.cos x * u + Real.sin x * w) :=
    hcont.continuousAt.eventually (lt_mem_nhds hM)
  have heq : (fun x => azimuthR a b (gcPoint b d x)) =ᶠ[𝓝 q]
      (fun x => Real.arctan (Real.sin x * T / (Real.cos x - u * (Real.cos x * u + Real.sin x * w)))) := by
    filter_upwards [hev] with x hx
    obtain ⟨_, hap', hbp', htr'⟩ := gcPoint_facts a hb hd hbd x
    unfold azimuthR
    rw [hbp', hap', htr']
    exact atan2R_of_pos hx
  refine (hmain.congr_of_eventuallyEq heq).congr_deriv ?_
  have hsc := Real.sin_sq_add_cos_sq q
  have hnum : Real.cos q * T * (Real.cos q - u * (Real.cos q * u + Real.sin q * w))
      - Real.sin q * T * (-Real.sin q - u * (-Real.sin q * u + Real.cos q * w)) = T * (1 - u ^ 2) := by
    linear_combination T * (1 - u ^ 2) * hsc
  have hden : (Real.cos q - u * (Real.cos q * u + Real.sin q * w)) ^ 2 + (Real.sin q * T) ^ 2
      = (1 - u ^ 2) * (1 - (Real.cos q * u + Real.sin q * w) ^ 2) := by
    linear_combination Real.sin q ^ 2 * hT2 + (1 - u ^ 2) * hsc
  have hpos : 0 < (1 - u ^ 2) * (1 - (Real.cos q * u + Real.sin q * w) ^ 2) := by
    rw [← hden]; positivity
  have h1 : 1 - u ^ 2 ≠ 0 := fun h => by rw [h, zero_mul] at hpos; exact lt_irrefl _ hpos
  have h2 : 1 - (Real.cos q * u + Real.sin q * w) ^ 2 ≠ 0 := fun h => by
    rw [h, mul_zero] at hpos; exact lt_irrefl _ hpos
  rw [hnum, hden, hap]
  field_simp

/-! ## 6. (2) the sweep rate along the edge -/

/-- **(2)** `dE/dq = (1 − cos ∠(a, p(q))) · dψ/dq`: per unit of apex angle the triangle `a b p` gains the area
`1 − cos γ` of the thin polar wedge of radius `γ = ∠(a, p)`. -/
theorem sweep_rate_gc {a b d : R3} (ha : dotR a a = 1) (hb : dotR b b = 1) (hd : dotR d d = 1)
    (hbd : dotR b d = 0) {q : ℝ}
    (hD : 0 < 1 + dotR a b + dotR b (gcPoint b d q) + dotR (gcPoint b d q) a)
    (hM : 0 < dotR b (gcPoint b d q) - dotR a b * dotR a (gcPoint b d q)) :
    ∃ E' ψ' : ℝ,
      HasDerivAt (fun x => triAreaR a b (gcPoint b d x)) E' q ∧
      HasDerivAt (fun x => azimuthR a b (gcPoint b d x)) ψ' q ∧
      E' = (1 - Real.cos (angleR a (gcPoint b d q))) * ψ' := by
  obtain ⟨hu, _, _, _⟩ := gcPoint_facts a hb hd hbd q
  obtain ⟨_, _, hX⟩ := one_add_dots_pos_of_D ha hb hu hD
  rw [dotR_comm (gcPoint b d q) a] at hX
  refine ⟨_, _, hasDerivAt_triArea_gc ha hb hd hbd hD, hasDerivAt_azimuth_gc ha hb hd hbd hM, ?_⟩
  rw [(angleR_unit ha hu).2.1]
  -- `1 − X² ≠ 0` because `M² + N² = (1−u²)(1−X²) > 0`
  have hX1 : dotR a (gcPoint b d q) < 1 := by
    by_contra hge
    have hle := (dotR_unit_mem ha hu).2
    have hX1 : dotR a (gcPoint b d q) = 1 := le_antisymm hle (not_lt.mp hge)
    -- then `p = a`, so `b·p − (a·b)(a·p) = 0`
    have hsub : dotR (subR (gcPoint b d q) a) (subR (gcPoint b d q) a) = 0 := by
      rw [dotR_sub_self, hu, ha, dotR_comm (gcPoint b d q) a, hX1]; ring
    have hz : ∀ v : R3, dotR v v = 0 → v.x = 0 ∧ v.y = 0 ∧ v.z = 0 := by
      intro v hv
      simp only [dotR] at hv
      refine ⟨?_, ?_, ?_⟩ <;> nlinarith [mul_self_nonneg v.x, mul_self_nonneg v.y, mul_self_nonneg v.z]
    obtain ⟨z1, z2, z3⟩ := hz _ hsub
    simp only [subR] at z1 z2 z3
    have hpa : gcPoint b d q = a := by
      ext <;> linarith
    rw [hpa, ha, dotR_comm b a] at hM
    linarith
  have h1 : 1 + dotR a (gcPoint b d q) ≠ 0 := hX.ne'
  have h2 : 1 - dotR a (gcPoint b d q) ≠ 0 := by linarith
  have h3 : 1 - dotR a (gcPoint b d q) ^ 2 ≠ 0 := by
    have : 1 - dotR a (gcPoint b d q) ^ 2 = (1 - dotR a (gcPoint b d q)) * (1 + dotR a (gcPoint b d q)) := by ring
    rw [this]; exact mul_ne_zero h2 h1
  field_simp
  ring

/-! ## 7. the edge `b → c` of a triangle is such a great circle -/

/-- the unit tangent at `b` of the great circle from `b` to `c`: `(c − cos θ · b) / sin θ`, `θ = ∠(b,c)` -/
noncomputable def edgeDirR (b c : R3) : R3 :=
  scaleR (subR c (scaleR b (Real.cos (angleR b c)))) (1 / Real.sin (angleR b c))

/-- `edgeDirR b c` is a unit vector orthogonal to `b`, `a·(b×d) = a·(b×c)/sin θ`, `a·d = (a·c − cos θ a·b)/sin θ` -/
theorem edgeDirR_facts (a : R3) {b c : R3} (hb : dotR b b = 1) (hc : dotR c c = 1)
    (h0 : 0 < angleR b c) (hπ : angleR b c < π) :
    dotR (edgeDirR b c) (edgeDirR b c) = 1 ∧ dotR b (edgeDirR b c) = 0 ∧
    tripleR a b (edgeDirR b c) = tripleR a b c / Real.sin (angleR b c) ∧
    dotR a (edgeDirR b c) = (dotR c a - Real.cos (angleR b c) * dotR a b) / Real.sin (angleR b c) := by
  obtain ⟨_, hcos, _, _⟩ := angleR_unit hb hc
  have hS : Real.sin (angleR b c) ≠ 0 := (Real.sin_pos_of_pos_of_lt_pi h0 hπ).ne'
  have hsc := Real.sin_sq_add_cos_sq (angleR b c)
  have x1 : ∀ k C : ℝ, dotR (scaleR (subR c (scaleR b C)) k) (scaleR (subR c (scaleR b C)) k)
      = k ^ 2 * (dotR c c - 2 * C * dotR b c + C ^ 2 * dotR b b) := by
    intro k C; simp only [dotR, scaleR, subR]; ring
  have x2 : ∀ k C : ℝ, dotR b (scaleR (subR c (scaleR b C)) k) = k * (dotR b c - C * dotR b b) := by
    intro k C; simp only [dotR, scaleR, subR]; ring
  have x3 : ∀ k C : ℝ, tripleR a b (scaleR (subR c (scaleR b C)) k) = k * tripleR a b c := by
    intro k C; simp only [tripleR, dotR, crossR, scaleR, subR]; ring
  have x4 : ∀ k C : ℝ, dotR a (scaleR (subR c (scaleR b C)) k) = k * (dotR c a - C * dotR a b) := by
    intro k C; simp only [dotR, scaleR, subR]; ring
  unfold edgeDirR
  refine ⟨?_, ?_, ?_, ?_⟩
  · rw [x1, hc, hb, ← hcos]
    field_simp
    linear_combination (-1 : ℝ) * hsc
  · rw [x2, hb, ← hcos]; ring
  · rw [x3]; field_simp
  · rw [x4]; field_simp

/-- `slerp b c t` is the point at arc `t θ` from `b` on that great circle -/
theorem slerpR_eq_gcPoint {b c : R3} (t : ℝ) (hγ : slerpSwitch ≤ angleR b c) (hπ : angleR b c < π) :
    slerpR b c t = gcPoint b (edgeDirR b c) (t * angleR b c) := by
  have h0 : 0 < angleR b c := lt_of_lt_of_le slerpSwitch_pos hγ
  have hS : Real.sin (angleR b c) ≠ 0 := (Real.sin_pos_of_pos_of_lt_pi h0 hπ).ne'
  rw [slerpR_unfold t hγ, show (1 - t) * angleR b c = angleR b c - t * angleR b c by ring, Real.sin_sub]
  unfold gcPoint edgeDirR
  ext <;> simp only [addR, scaleR, subR] <;> field_simp <;> ring

/-- **the area of `a b (slerp b c t)` as a function of the edge parameter `t`**:
`d/dt area(a, b, slerp b c t) = θ · (a·(b×c)/sin θ) / (1 + a·p)`.  Hypotheses: `a b c` unit, the edge not in the
small-angle branch of `slerp`, `θ < π`, Eriksson's denominator of `a b p` positive. -/
theorem hasDerivAt_triArea_slerp {a b c : R3} (ha : dotR a a = 1) (hb : dotR b b = 1) (hc : dotR c c = 1)
    (hγ : slerpSwitch ≤ angleR b c) (hπ : angleR b c < π) {t : ℝ}
    (hD : 0 < 1 + dotR a b + dotR b (slerpR b c t) + dotR (slerpR b c t) a) :
    HasDerivAt (fun x => triAreaR a b (slerpR b c x))
      (tripleR a b c / Real.sin (angleR b c) / (1 + dotR a (slerpR b c t)) * angleR b c) t := by
  have h0 : 0 < angleR b c := lt_of_lt_of_le slerpSwitch_pos hγ
  obtain ⟨hd, hbd, htr, _⟩ := edgeDirR_facts a hb hc h0 hπ
  have hfun : (fun x => triAreaR a b (slerpR b c x))
      = (fun q => triAreaR a b (gcPoint b (edgeDirR b c) q)) ∘ (fun x => x * angleR b c) := by
    funext x; simp only [Function.comp]; rw [slerpR_eq_gcPoint x hγ hπ]
  rw [slerpR_eq_gcPoint t hγ hπ] at hD ⊢
  rw [hfun, ← htr]
  have hlin : HasDerivAt (fun x : ℝ => x * angleR b c) (angleR b c) t := by
    simpa using (hasDerivAt_id t).mul_const (angleR b c)
  exact (hasDerivAt_triArea_gc ha hb hd hbd hD).comp t hlin

/-! ## non-vacuity: the octant frame `a = e₃`, `b = e₁`, `d = e₂` (`u = w = 0`, `T = 1`) at `q = π/3` -/

theorem octant_gc_hyps :
    dotR ⟨0, 0, 1⟩ ⟨0, 0, 1⟩ = 1 ∧ dotR ⟨1, 0, 0⟩ ⟨1, 0, 0⟩ = 1 ∧ dotR ⟨0, 1, 0⟩ ⟨0, 1, 0⟩ = 1 ∧
    dotR ⟨1, 0, 0⟩ ⟨0, 1, 0⟩ = 0 ∧ dotR ⟨0, 0, 1⟩ ⟨1, 0, 0⟩ = 0 ∧ dotR ⟨0, 0, 1⟩ ⟨0, 1, 0⟩ = 0 ∧
    tripleR ⟨0, 0, 1⟩ ⟨1, 0, 0⟩ ⟨0, 1, 0⟩ = 1 := by
  norm_num [dotR, tripleR, crossR]

/-- on the octant the edge `b d` is the equator of the pole `a`: area swept = apex angle (`1 − cos (π/2) = 1`) -/
example : ∃ E' ψ' : ℝ,
    HasDerivAt (fun x => triAreaR ⟨0, 0, 1⟩ ⟨1, 0, 0⟩ (gcPoint ⟨1, 0, 0⟩ ⟨0, 1, 0⟩ x)) E' (π / 3) ∧
    HasDerivAt (fun x => azimuthR ⟨0, 0, 1⟩ ⟨1, 0, 0⟩ (gcPoint ⟨1, 0, 0⟩ ⟨0, 1, 0⟩ x)) ψ' (π / 3) ∧
    E' = (1 - Real.cos (angleR ⟨0, 0, 1⟩ (gcPoint ⟨1, 0, 0⟩ ⟨0, 1, 0⟩ (π / 3)))) * ψ' := by
  obtain ⟨ha, hb, hd, hbd, hab, had, _⟩ := octant_gc_hyps
  refine sweep_rate_gc ha hb hd hbd ?_ ?_
  · rw [gc_denominator _ hb hd hbd, hab, had, Real.cos_pi_div_three]; norm_num
  · obtain ⟨_, hap, hbp, _⟩ := gcPoint_facts ⟨0, 0, 1⟩ hb hd hbd (π / 3)
    rw [hbp, hap, hab, had, Real.cos_pi_div_three]; norm_num

example : HasDerivAt (fun x => triAreaR ⟨0, 0, 1⟩ ⟨1, 0, 0⟩ (gcPoint ⟨1, 0, 0⟩ ⟨0, 1, 0⟩ x)) 1 (π / 3) := by
  obtain ⟨ha, hb, hd, hbd, hab, had, hT⟩ := octant_gc_hyps
  have h := hasDerivAt_triArea_gc ha hb hd hbd (q := π / 3)
    (by rw [gc_denominator _ hb hd hbd, hab, had, Real.cos_pi_div_three]; norm_num)
  obtain ⟨_, hap, _, _⟩ := gcPoint_facts ⟨0, 0, 1⟩ hb hd hbd (π / 3)
  rw [hap, hab, had, hT] at h
  simpa using h

end A5.SweepFormula
