import A5.Model.GenericGeo
import Mathlib.Analysis.SpecialFunctions.Trigonometric.Basic
import Mathlib.Analysis.SpecialFunctions.Trigonometric.Deriv
import Mathlib.Analysis.Calculus.Deriv.MeanValue
import Mathlib.Tactic.Ring
import Mathlib.Tactic.LinearCombination
import Mathlib.Tactic.Linarith
import Mathlib.Tactic.NormNum
/-! # The generic twins of `A5/Model/GenericGeo.lean` at `ℝ` (and at arbitrary commutative rings)

Mathematical facts about the *same expression trees* the float model evaluates (see the tie lemmas
`A5.G.applyCoefficients_tie`, … which are `rfl`). -/
namespace A5.RealGeo
open A5 A5.G

/-! ## `applyCoefficientsG` over a commutative ring: symmetry, fixed points (any coefficients) -/

section ring
variable {R : Type} [CommRing R] (sin cos : R → R) (two : R)

/-- odd: needs only `sin` odd and `cos` even -/
theorem applyCoefficientsG_neg (hs : ∀ x, sin (-x) = -sin x) (hc : ∀ x, cos (-x) = cos x)
    (phi c0 c1 c2 c3 c4 c5 : R) :
    applyCoefficientsG sin cos two (-phi) c0 c1 c2 c3 c4 c5 =
      -applyCoefficientsG sin cos two phi c0 c1 c2 c3 c4 c5 := by
  simp only [applyCoefficientsG, hs, hc]; ring

/-- wherever `sin` vanishes the correction term vanishes -/
theorem applyCoefficientsG_of_sin_eq_zero (phi c0 c1 c2 c3 c4 c5 : R) (h : sin phi = 0) :
    applyCoefficientsG sin cos two phi c0 c1 c2 c3 c4 c5 = phi := by
  simp only [applyCoefficientsG, h]; ring

/-- wherever `cos` vanishes the correction term vanishes -/
theorem applyCoefficientsG_of_cos_eq_zero (phi c0 c1 c2 c3 c4 c5 : R) (h : cos phi = 0) :
    applyCoefficientsG sin cos two phi c0 c1 c2 c3 c4 c5 = phi := by
  simp only [applyCoefficientsG, h]; ring

end ring

/-! ## over `ℝ` -/

/-- the conversion of `authalic.rs` over the reals, with coefficients `c1 … c6` (Rust `c[0] … c[5]`) -/
noncomputable def authalicR (c1 c2 c3 c4 c5 c6 : ℝ) (φ : ℝ) : ℝ :=
  applyCoefficientsG Real.sin Real.cos 2 φ c1 c2 c3 c4 c5 c6

theorem authalicR_neg (c1 c2 c3 c4 c5 c6 φ : ℝ) :
    authalicR c1 c2 c3 c4 c5 c6 (-φ) = -authalicR c1 c2 c3 c4 c5 c6 φ :=
  applyCoefficientsG_neg Real.sin Real.cos 2 Real.sin_neg Real.cos_neg φ c1 c2 c3 c4 c5 c6

theorem authalicR_zero (c1 c2 c3 c4 c5 c6 : ℝ) : authalicR c1 c2 c3 c4 c5 c6 0 = 0 :=
  applyCoefficientsG_of_sin_eq_zero Real.sin Real.cos 2 0 c1 c2 c3 c4 c5 c6 Real.sin_zero

theorem authalicR_pi_div_two (c1 c2 c3 c4 c5 c6 : ℝ) :
    authalicR c1 c2 c3 c4 c5 c6 (Real.pi / 2) = Real.pi / 2 :=
  applyCoefficientsG_of_cos_eq_zero Real.sin Real.cos 2 _ c1 c2 c3 c4 c5 c6 Real.cos_pi_div_two

theorem authalicR_neg_pi_div_two (c1 c2 c3 c4 c5 c6 : ℝ) :
    authalicR c1 c2 c3 c4 c5 c6 (-(Real.pi / 2)) = -(Real.pi / 2) := by
  rw [authalicR_neg, authalicR_pi_div_two]

/-! ### the recurrence is a Fourier sine series — with a twist -/

private theorem sin_step (a b : ℝ) :
    Real.sin (a + b) = 2 * Real.cos b * Real.sin a - Real.sin (a - b) := by
  rw [Real.sin_add, Real.sin_sub]; ring

/-- `sin (2(k+1)φ) = 2 cos 2φ · sin (2kφ) − sin (2(k−1)φ)` for the literal multiples used below -/
private theorem sin_mult (φ : ℝ) :
    Real.sin (4 * φ) = 2 * Real.cos (2 * φ) * Real.sin (2 * φ) ∧
    Real.sin (6 * φ) = 2 * Real.cos (2 * φ) * Real.sin (4 * φ) - Real.sin (2 * φ) ∧
    Real.sin (8 * φ) = 2 * Real.cos (2 * φ) * Real.sin (6 * φ) - Real.sin (4 * φ) ∧
    Real.sin (10 * φ) = 2 * Real.cos (2 * φ) * Real.sin (8 * φ) - Real.sin (6 * φ) ∧
    Real.sin (12 * φ) = 2 * Real.cos (2 * φ) * Real.sin (10 * φ) - Real.sin (8 * φ) := by
  refine ⟨?_, ?_, ?_, ?_, ?_⟩
  · have := sin_step (2 * φ) (2 * φ)
    rw [show 2 * φ + 2 * φ = 4 * φ by ring, sub_self, Real.sin_zero] at this
    linarith
  · have := sin_step (4 * φ) (2 * φ)
    rwa [show 4 * φ + 2 * φ = 6 * φ by ring, show 4 * φ - 2 * φ = 2 * φ by ring] at this
  · have := sin_step (6 * φ) (2 * φ)
    rwa [show 6 * φ + 2 * φ = 8 * φ by ring, show 6 * φ - 2 * φ = 4 * φ by ring] at this
  · have := sin_step (8 * φ) (2 * φ)
    rwa [show 8 * φ + 2 * φ = 10 * φ by ring, show 8 * φ - 2 * φ = 6 * φ by ring] at this
  · have := sin_step (10 * φ) (2 * φ)
    rwa [show 10 * φ + 2 * φ = 12 * φ by ring, show 10 * φ - 2 * φ = 8 * φ by ring] at this

/-- The series the code *actually* evaluates.  The recurrence in `apply_coefficients` is Clenshaw's
summation with `x = 2 cos 2φ`, except that its second step reads `u1 = x*u0 + c[3]` where Clenshaw's
recurrence has `x*u0 − c[5] + c[3]`.  Consequently the value is the sine series with the coefficient of
`sin 8φ` equal to `c4 + c6` instead of `c4`. -/
theorem authalicR_eq_series (c1 c2 c3 c4 c5 c6 φ : ℝ) :
    authalicR c1 c2 c3 c4 c5 c6 φ =
      φ + c1 * Real.sin (2 * φ) + c2 * Real.sin (4 * φ) + c3 * Real.sin (6 * φ)
        + (c4 + c6) * Real.sin (8 * φ) + c5 * Real.sin (10 * φ) + c6 * Real.sin (12 * φ) := by
  obtain ⟨h4, h6, h8, h10, h12⟩ := sin_mult φ
  have hx : 2 * (Real.cos φ - Real.sin φ) * (Real.cos φ + Real.sin φ) = 2 * Real.cos (2 * φ) := by
    rw [Real.cos_two_mul]
    have := Real.sin_sq_add_cos_sq φ
    linear_combination (-2 : ℝ) * this
  have hy : 2 * Real.sin φ * Real.cos φ = Real.sin (2 * φ) := (Real.sin_two_mul φ).symm
  simp only [authalicR, applyCoefficientsG]
  rw [hx, hy, h12, h10, h8, h6, h4]
  ring

/-- the genuine 6-term series `φ + Σ_{k=1..6} c_k sin 2kφ` -/
noncomputable def fourier6 (c1 c2 c3 c4 c5 c6 φ : ℝ) : ℝ :=
  φ + c1 * Real.sin (2 * φ) + c2 * Real.sin (4 * φ) + c3 * Real.sin (6 * φ)
    + c4 * Real.sin (8 * φ) + c5 * Real.sin (10 * φ) + c6 * Real.sin (12 * φ)

/-- the code differs from the 6-term series by exactly `c6 · sin 8φ` -/
theorem authalicR_eq_fourier6_add (c1 c2 c3 c4 c5 c6 φ : ℝ) :
    authalicR c1 c2 c3 c4 c5 c6 φ = fourier6 c1 c2 c3 c4 c5 c6 φ + c6 * Real.sin (8 * φ) := by
  rw [authalicR_eq_series, fourier6]; ring

theorem abs_authalicR_sub_fourier6_le (c1 c2 c3 c4 c5 c6 φ : ℝ) :
    |authalicR c1 c2 c3 c4 c5 c6 φ - fourier6 c1 c2 c3 c4 c5 c6 φ| ≤ |c6| := by
  rw [authalicR_eq_fourier6_add, add_sub_cancel_left, abs_mul]
  exact mul_le_of_le_one_right (abs_nonneg _) (Real.abs_sin_le_one _)

/-- … so "the recurrence equals the 6-term series" is **false** as soon as `c6 ≠ 0`
(witness `φ = π/16`, where `sin 8φ = 1`). -/
theorem authalicR_ne_fourier6 (c1 c2 c3 c4 c5 c6 : ℝ) (h : c6 ≠ 0) :
    authalicR c1 c2 c3 c4 c5 c6 (Real.pi / 16) ≠ fourier6 c1 c2 c3 c4 c5 c6 (Real.pi / 16) := by
  rw [authalicR_eq_fourier6_add, show 8 * (Real.pi / 16) = Real.pi / 2 by ring, Real.sin_pi_div_two]
  intro hh
  apply h
  linarith

/-! ### derivative and monotonicity -/

private theorem hasDerivAt_term (c k φ : ℝ) :
    HasDerivAt (fun t => c * Real.sin (k * t)) (c * (k * Real.cos (k * φ))) φ := by
  have h1 : HasDerivAt (fun t => k * t) k φ := by simpa using (hasDerivAt_id φ).const_mul k
  have h2 := (Real.hasDerivAt_sin (k * φ)).comp φ h1
  have h3 := h2.const_mul c
  rw [show c * (k * Real.cos (k * φ)) = c * (Real.cos (k * φ) * k) by ring]
  exact h3

/-- the derivative of the evaluated series -/
noncomputable def authalicDeriv (c1 c2 c3 c4 c5 c6 φ : ℝ) : ℝ :=
  1 + c1 * (2 * Real.cos (2 * φ)) + c2 * (4 * Real.cos (4 * φ)) + c3 * (6 * Real.cos (6 * φ))
    + (c4 + c6) * (8 * Real.cos (8 * φ)) + c5 * (10 * Real.cos (10 * φ)) + c6 * (12 * Real.cos (12 * φ))

theorem hasDerivAt_authalicR (c1 c2 c3 c4 c5 c6 φ : ℝ) :
    HasDerivAt (authalicR c1 c2 c3 c4 c5 c6) (authalicDeriv c1 c2 c3 c4 c5 c6 φ) φ := by
  have hf : authalicR c1 c2 c3 c4 c5 c6 = fun φ =>
      φ + c1 * Real.sin (2 * φ) + c2 * Real.sin (4 * φ) + c3 * Real.sin (6 * φ)
        + (c4 + c6) * Real.sin (8 * φ) + c5 * Real.sin (10 * φ) + c6 * Real.sin (12 * φ) :=
    funext (authalicR_eq_series c1 c2 c3 c4 c5 c6)
  rw [hf]
  exact ((((((hasDerivAt_id φ).add (hasDerivAt_term c1 2 φ)).add (hasDerivAt_term c2 4 φ)).add
    (hasDerivAt_term c3 6 φ)).add (hasDerivAt_term (c4 + c6) 8 φ)).add (hasDerivAt_term c5 10 φ)).add
    (hasDerivAt_term c6 12 φ)

private theorem term_ge (c k x : ℝ) (hk : 0 ≤ k) : -(k * |c|) ≤ c * (k * Real.cos x) := by
  have h1 : |c * (k * Real.cos x)| ≤ k * |c| := by
    rw [abs_mul, abs_mul, abs_of_nonneg hk]
    have := Real.abs_cos_le_one x
    have hc := abs_nonneg c
    nlinarith [mul_nonneg hc hk, mul_le_mul_of_nonneg_left this (mul_nonneg hc hk)]
  linarith [neg_abs_le (c * (k * Real.cos x)), abs_le.mp h1]

/-- `f′ ≥ 1 − Σ 2k|a_k|` where `a_k` are the coefficients of the evaluated series -/
theorem authalicDeriv_ge (c1 c2 c3 c4 c5 c6 φ : ℝ) :
    1 - (2 * |c1| + 4 * |c2| + 6 * |c3| + 8 * |c4 + c6| + 10 * |c5| + 12 * |c6|)
      ≤ authalicDeriv c1 c2 c3 c4 c5 c6 φ := by
  unfold authalicDeriv
  have e1 := term_ge c1 2 (2 * φ) (by norm_num)
  have e2 := term_ge c2 4 (4 * φ) (by norm_num)
  have e3 := term_ge c3 6 (6 * φ) (by norm_num)
  have e4 := term_ge (c4 + c6) 8 (8 * φ) (by norm_num)
  have e5 := term_ge c5 10 (10 * φ) (by norm_num)
  have e6 := term_ge c6 12 (12 * φ) (by norm_num)
  linarith

/-- strictly increasing whenever the coefficients are small -/
theorem authalicR_strictMono (c1 c2 c3 c4 c5 c6 : ℝ)
    (h : 2 * |c1| + 4 * |c2| + 6 * |c3| + 8 * |c4 + c6| + 10 * |c5| + 12 * |c6| < 1) :
    StrictMono (authalicR c1 c2 c3 c4 c5 c6) := by
  apply strictMono_of_deriv_pos
  intro φ
  rw [(hasDerivAt_authalicR c1 c2 c3 c4 c5 c6 φ).deriv]
  have := authalicDeriv_ge c1 c2 c3 c4 c5 c6 φ
  linarith

/-! ### the generated coefficient tables as real numbers -/

/-- the exact value of the `i`-th generated coefficient, as a real number -/
noncomputable def coeffR (c : List FConst) (i : Nat) : ℝ := (((c.getD i ⟨0, 0, 0⟩).toRat : ℚ) : ℝ)

/-- geodetic → authalic latitude over `ℝ`, with the exact values of the generated coefficients -/
noncomputable def authalicForwardR : ℝ → ℝ :=
  authalicR (coeffR Gen.GEODETIC_TO_AUTHALIC 0) (coeffR Gen.GEODETIC_TO_AUTHALIC 1)
    (coeffR Gen.GEODETIC_TO_AUTHALIC 2) (coeffR Gen.GEODETIC_TO_AUTHALIC 3)
    (coeffR Gen.GEODETIC_TO_AUTHALIC 4) (coeffR Gen.GEODETIC_TO_AUTHALIC 5)

/-- authalic → geodetic latitude over `ℝ`, with the exact values of the generated coefficients -/
noncomputable def authalicInverseR : ℝ → ℝ :=
  authalicR (coeffR Gen.AUTHALIC_TO_GEODETIC 0) (coeffR Gen.AUTHALIC_TO_GEODETIC 1)
    (coeffR Gen.AUTHALIC_TO_GEODETIC 2) (coeffR Gen.AUTHALIC_TO_GEODETIC 3)
    (coeffR Gen.AUTHALIC_TO_GEODETIC 4) (coeffR Gen.AUTHALIC_TO_GEODETIC 5)

/-- the exact value of the `i`-th generated coefficient, as a rational -/
def coeffQ (c : List FConst) (i : Nat) : Rat := (c.getD i ⟨0, 0, 0⟩).toRat

/-- `Σ 2k|a_k|` for the series evaluated from table `c`, as an exact rational -/
def coeffBoundQ (c : List FConst) : Rat :=
  2 * ratAbs (coeffQ c 0) + 4 * ratAbs (coeffQ c 1) + 6 * ratAbs (coeffQ c 2)
    + 8 * ratAbs (coeffQ c 3 + coeffQ c 5) + 10 * ratAbs (coeffQ c 4) + 12 * ratAbs (coeffQ c 5)

/-- kernel-checked: `Σ 2k|a_k| < 1/200` for both generated tables (exact rationals) -/
theorem coeff_sums_small :
    coeffBoundQ Gen.GEODETIC_TO_AUTHALIC < 1 / 200 ∧ coeffBoundQ Gen.AUTHALIC_TO_GEODETIC < 1 / 200 := by
  decide +kernel

theorem ratAbs_eq_abs (q : ℚ) : ((ratAbs q : ℚ) : ℝ) = |(q : ℝ)| := by
  unfold ratAbs
  split_ifs with h
  · rw [abs_of_neg (by exact_mod_cast h)]; push_cast; rfl
  · rw [abs_of_nonneg (by exact_mod_cast not_lt.mp h)]

theorem coeffBound_cast (c : List FConst) :
    ((coeffBoundQ c : ℚ) : ℝ) =
      2 * |coeffR c 0| + 4 * |coeffR c 1| + 6 * |coeffR c 2| + 8 * |coeffR c 3 + coeffR c 5|
        + 10 * |coeffR c 4| + 12 * |coeffR c 5| := by
  unfold coeffBoundQ coeffR coeffQ
  push_cast [ratAbs_eq_abs]
  rfl

theorem coeffBound_forward :
    2 * |coeffR Gen.GEODETIC_TO_AUTHALIC 0| + 4 * |coeffR Gen.GEODETIC_TO_AUTHALIC 1|
      + 6 * |coeffR Gen.GEODETIC_TO_AUTHALIC 2|
      + 8 * |coeffR Gen.GEODETIC_TO_AUTHALIC 3 + coeffR Gen.GEODETIC_TO_AUTHALIC 5|
      + 10 * |coeffR Gen.GEODETIC_TO_AUTHALIC 4| + 12 * |coeffR Gen.GEODETIC_TO_AUTHALIC 5| < 1 / 200 := by
  rw [← coeffBound_cast]
  have h : (coeffBoundQ Gen.GEODETIC_TO_AUTHALIC : ℚ) < 1 / 200 := coeff_sums_small.1
  have h' : ((coeffBoundQ _ : ℚ) : ℝ) < ((1 / 200 : ℚ) : ℝ) := Rat.cast_lt.mpr h
  rw [show ((1 / 200 : ℚ) : ℝ) = 1 / 200 by norm_num] at h'
  exact h'

theorem coeffBound_inverse :
    2 * |coeffR Gen.AUTHALIC_TO_GEODETIC 0| + 4 * |coeffR Gen.AUTHALIC_TO_GEODETIC 1|
      + 6 * |coeffR Gen.AUTHALIC_TO_GEODETIC 2|
      + 8 * |coeffR Gen.AUTHALIC_TO_GEODETIC 3 + coeffR Gen.AUTHALIC_TO_GEODETIC 5|
      + 10 * |coeffR Gen.AUTHALIC_TO_GEODETIC 4| + 12 * |coeffR Gen.AUTHALIC_TO_GEODETIC 5| < 1 / 200 := by
  rw [← coeffBound_cast]
  have h : (coeffBoundQ Gen.AUTHALIC_TO_GEODETIC : ℚ) < 1 / 200 := coeff_sums_small.2
  have h' : ((coeffBoundQ _ : ℚ) : ℝ) < ((1 / 200 : ℚ) : ℝ) := Rat.cast_lt.mpr h
  rw [show ((1 / 200 : ℚ) : ℝ) = 1 / 200 by norm_num] at h'
  exact h'

end A5.RealGeo
