import A5.Lemmas.HierRefineParent
import A5.Lemmas.HierRefineChildren
/-! The hierarchy functions refine the `Path` tree: entry point.  The two refinement theorems are
`Path.cellToParent_enc` (`HierRefineParent`) and `Path.cellToChildren_enc` (`HierRefineChildren`); this file adds
the list-level facts about `descendantsOrdered` that the property files need (core-only). -/
namespace A5

theorem flatMapOutcome_map_ok {α α' β : Type} (f : α → Outcome (List β)) (e : α' → α) (g : α' → List β)
    (l : List α') (h : ∀ a ∈ l, f (e a) = .ok (g a)) : flatMapOutcome f (l.map e) = .ok (l.flatMap g) := by
  induction l with
  | nil => rfl
  | cons a l ih =>
    simp only [List.map_cons, flatMapOutcome]
    rewrite [h a (List.mem_cons_self ..), ih (fun b hb => h b (List.mem_cons_of_mem _ hb))]
    simp only [Outcome.bind_ok, List.flatMap_cons]

namespace Path

theorem res_eq_neg_one {p : Path} (h : res p = -1) : p = world := by
  cases p with
  | world => rfl
  | face f => simp only [res] at h; omega
  | deep f k ds => simp only [res] at h; omega

theorem ancestorAt_neg_one (p : Path) : ancestorAt p (-1) = world := by
  cases p <;> simp [ancestorAt]

/-- ancestor lookup in its legal range `-1 ≤ a ≤ res p`, without case distinction -/
theorem cellToParent_anc {p : Path} (hp : WF p) (a : Int) (h1 : -1 ≤ a) (h2 : a ≤ res p) :
    cellToParent (enc p) (some a) = .ok (enc (ancestorAt p a)) := by
  rewrite [cellToParent_enc hp]
  by_cases h : a = -1
  · rewrite [if_pos h, h, ancestorAt_neg_one]; rfl
  · rewrite [if_neg h, if_neg (by omega), if_neg (by omega)]; rfl

theorem mem_ordered {p : Path} (hp : WF p) {r : Int} {d : Path} (h : d ∈ descendantsOrdered p r) :
    d ∈ descendantsAt p r := (mem_descendantsOrdered_iff p hp r d).1 h

theorem wf_of_mem_ordered {p d : Path} {r : Int} (hp : WF p) (hr : r ≤ 29) (h : d ∈ descendantsOrdered p r) :
    WF d := wf_of_mem_descendantsAt hp hr (mem_ordered hp h)

theorem res_of_mem_ordered {p d : Path} {r : Int} (hp : WF p) (h : d ∈ descendantsOrdered p r) : res d = r :=
  res_of_mem_descendantsAt (mem_ordered hp h)

theorem ancestorAt_of_mem_ordered {p d : Path} {r : Int} (hp : WF p) (h : d ∈ descendantsOrdered p r) :
    ancestorAt d (res p) = p := ancestorAt_of_mem_descendantsAt (mem_ordered hp h)

theorem length_ordered {p : Path} (hp : WF p) (r : Int) (h : res p ≤ r) :
    (descendantsOrdered p r).length = fanout (r - res p).toNat (res p) := by
  rewrite [length_descendantsOrdered p hp r]
  exact length_descendantsAt p r h

/-- the ids of the descendants are pairwise distinct -/
theorem nodup_map_enc_ordered {p : Path} (hp : WF p) (r : Int) (hr : r ≤ 29) :
    ((descendantsOrdered p r).map enc).Nodup :=
  nodup_map_of_inj (descendantsOrdered_nodup p hp r)
    (fun _ ha _ hb h => enc_injective (wf_of_mem_ordered hp hr ha) (wf_of_mem_ordered hp hr hb) h)

/-! ### closed form of the fan-out product -/

theorem fanout_deep (n : Nat) (r : Int) (h : 1 ≤ r) : fanout n r = 4 ^ n := by
  induction n generalizing r with
  | zero => rfl
  | succ n ih =>
    simp only [fanout, fan]
    rewrite [if_neg (by omega), if_neg (by omega), ih (r + 1) (by omega), Nat.pow_succ, Nat.mul_comm]
    rfl

theorem fanout_face (n : Nat) : fanout (n + 1) 0 = 5 * 4 ^ n := by
  have e : fanout (n + 1) 0 = fan 0 * fanout n (0 + 1) := rfl
  have e1 : fan 0 = 5 := by decide
  rewrite [e, e1, fanout_deep n _ (by omega)]
  rfl

theorem fanout_world_one : fanout 1 (-1) = 12 := by decide

theorem fanout_world (n : Nat) : fanout (n + 2) (-1) = 60 * 4 ^ n := by
  have e : fanout (n + 2) (-1) = 12 * fanout (n + 1) (-1 + 1) := by
    have e' : fanout (n + 2) (-1) = fan (-1) * fanout (n + 1) (-1 + 1) := rfl
    have e1 : fan (-1) = 12 := by decide
    rewrite [e', e1]; rfl
  have e0 : (-1 : Int) + 1 = 0 := by omega
  rewrite [e, e0, fanout_face, ← Nat.mul_assoc]
  rfl

/-! ### descendants of descendants, in the library's order -/

theorem ordered_of_pos {d : Path} (h : 1 ≤ res d) (b : Int) : descendantsOrdered d b = descendantsAt d b := by
  cases d with
  | world => simp only [res] at h; omega
  | face f => simp only [res] at h; omega
  | deep f k ds => rfl

theorem flatMap_ordered_of_pos (p : Path) (a b : Int) (h0 : 1 ≤ a) (h1 : res p ≤ a) (h2 : a ≤ b) :
    (descendantsAt p a).flatMap (fun d => descendantsOrdered d b) = descendantsAt p b := by
  rewrite [← descendantsAt_flatMap p a b h1 h2]
  exact flatMap_congr' (fun d hd => ordered_of_pos (by rewrite [res_of_mem_descendantsAt hd]; exact h0) b)

theorem res_quint {f : Nat} {q : Path} (h : q ∈ quintsOrdered f) : res q = 1 := by
  simp only [quintsOrdered, List.mem_map] at h
  obtain ⟨_, _, rfl⟩ := h
  rfl

theorem flatMap_quints (f : Nat) (a b : Int) (h0 : 1 ≤ a) (h2 : a ≤ b) :
    ((quintsOrdered f).flatMap (fun q => descendantsAt q a)).flatMap (fun d => descendantsOrdered d b)
      = (quintsOrdered f).flatMap (fun q => descendantsAt q b) := by
  rewrite [List.flatMap_assoc]
  exact flatMap_congr' (fun q hq => flatMap_ordered_of_pos q a b h0 (by rewrite [res_quint hq]; exact h0) h2)

theorem flatMap_pure_map {α β : Type} (l : List α) (g : α → β) : l.flatMap (fun a => [g a]) = l.map g :=
  flatMap_pure_eq_map l g

theorem ordered_world_zero : descendantsOrdered world 0 = (List.range 12).map face := by
  have : descendantsOrdered world 0 = descendantsAt world 0 := by simp [descendantsOrdered]
  rewrite [this]
  exact descendantsAt_succ world

/-- descendants of descendants are the descendants at the deeper level, as lists in the library's order -/
theorem ordered_flatMap {p : Path} (a b : Int) (h1 : res p ≤ a) (h2 : a ≤ b) :
    (descendantsOrdered p a).flatMap (fun d => descendantsOrdered d b) = descendantsOrdered p b := by
  by_cases heq : a = res p
  · rewrite [heq, descendantsOrdered_self, List.flatMap_cons, List.flatMap_nil, List.append_nil]; rfl
  cases p with
  | deep f k ds =>
    simp only [res] at h1 heq
    exact flatMap_ordered_of_pos _ a b (by omega) h1 h2
  | face f =>
    simp only [res] at h1 heq
    simp only [descendantsOrdered]
    rewrite [if_neg (by omega), if_neg (by omega)]
    exact flatMap_quints f a b (by omega) h2
  | world =>
    simp only [res] at h1 heq
    by_cases ha : a = 0
    · subst ha
      rewrite [ordered_world_zero, List.flatMap_map]
      by_cases hb : b = 0
      · subst hb
        rewrite [ordered_world_zero]
        refine Eq.trans (flatMap_congr' (g := fun f => [face f]) (fun f _ => ?_)) (flatMap_pure_map _ _)
        exact descendantsOrdered_self (face f)
      · simp only [descendantsOrdered]
        rewrite [if_neg (by omega)]
        refine flatMap_congr' (fun f _ => ?_)
        rewrite [if_neg (by omega)]; rfl
    · simp only [descendantsOrdered]
      rewrite [if_neg (by omega), if_neg (by omega), List.flatMap_assoc]
      exact flatMap_congr' (fun f _ => flatMap_quints f a b (by omega) h2)

end Path
end A5
