import A5.Lemmas.PentagonDisjoint4
/-! # Two cell pentagons of the same depth, part 5: the theorems for the public `sToAnchor` (planar C03)

Within one quintant and one curve depth `n ≤ 30`, for every orientation `o < 6` and all positions `s ≠ t < 4^n`, with
`a`, `b` the anchors `sToAnchor` returns and `pentagonQ a`, `pentagonQ b` their pentagons in exact rational arithmetic
on the `f64` runtime constants (lattice frame of the depth, unit = one lattice step):

* `pentagons_disjoint_statement` — "no point is strictly inside both" — is **FALSE**:
  `pentagons_disjoint_statement_false` exhibits, at depth 1, orientation 0, positions 0 and 3 (two pentagons that
  ideally share an edge), a rational point strictly inside both.  The rounded seed vertices / `w` / `BASIS` do not
  satisfy the ideal incidence relations exactly, so ideally coincident edges cross at an angle of about `10⁻¹⁶`.
* `pentagons_disjoint_margin` (**main**, every depth): no point is inside both pentagons by more than
  `mu = 2⁻⁵⁴`: there is no `w` with `cross e.1 e.2 w < -2⁻⁵⁴` for every edge `e` of both pentagons.  The margin is
  sharp up to a factor 4: `margin_sharp` gives a pair with a common point `2⁻⁵⁶` deep inside both.
* `pentagons_overlap_near_boundary` (the same in the natural form): every point strictly inside both pentagons has an
  edge `e` of one of the two with `-2⁻⁵⁴ ≤ cross e.1 e.2 w < 0`; since every edge has squared length `≥ 9/50`
  (`pentagon_edge_sqlen`) the point is within `2⁻⁵²` lattice units of the line of that edge
  (`pentagons_overlap_within`): the overlap of two distinct cell pentagons is contained in the `2⁻⁵²`-neighbourhood
  of their boundaries.
* partial results kept as named theorems: `far_pentagons_disjoint` (anchors more than 2 apart in the hexagonal lattice
  norm: EXACTLY disjoint interiors, any two anchors with `±1` flips), `siblings_disjoint_margin` (the four children of
  one parent), `internal_pentagons_cfg` (the statement for the internal walk, both patterns, both `invertJ`).

How (parts 1–4): the relative configuration `(offset difference, flips, reflected?)` of the two final anchors is far
(`|Δ| > 2`) or one of 588 configurations, by induction on the depth over a neighbour relation closed under
subdivision; each of the 588 has a kernel-checked separating edge with slack `≤ 2⁻⁵⁴` (worst: `0.5865·2⁻⁵⁴`). -/
namespace A5.PD
open A5 A5.HilbertLocate A5.PG A5.CP

/-! ## from digit lists to `sToAnchor` -/

theorem internal_eq_listAnchorK (s n : Nat) (inv fl : Bool) (hs : s < 4 ^ n) :
    sToAnchorInternal s n inv fl = listAnchorK (shiftedDigits s n inv fl) := by
  rewrite [sToAnchorInternal_eq s n inv fl hs]
  unfold listAnchorK listAnchor
  rewrite [(shiftedDigits_spec s n inv fl).1]
  rfl

/-- the statement for the staged internal walk: both patterns (`fl`), both `invertJ`, except the combination
`fl ∧ inv` that no orientation uses -/
theorem internal_pentagons_cfg (n : Nat) (inv fl : Bool) (hc : (inv, fl) ∈ oriClasses) (s t : Nat) (hs : s < 4 ^ n)
    (ht : t < 4 ^ n) (hne : s ≠ t) :
    CfgOK (anchorCfg (finalAnchor s n inv fl) (finalAnchor t n inv fl)) ∧
      (finalAnchor s n inv fl).flips ∈ flips4 ∧ (finalAnchor t n inv fl).flips ∈ flips4 := by
  rewrite [finalAnchor_eq_stage, finalAnchor_eq_stage, internal_eq_listAnchorK s n inv fl hs,
    internal_eq_listAnchorK t n inv fl ht]
  obtain ⟨l1, d1⟩ := shiftedDigits_spec s n inv fl
  obtain ⟨l2, d2⟩ := shiftedDigits_spec t n inv fl
  exact lists_cfg inv fl hc n _ _ l1 l2 d1 d2 (fun h => hne (shiftedDigits_injective n inv fl s t hs ht h))

theorem adjustS_injective (rev : Bool) (n s t : Nat) (hs : s < 4 ^ n) (ht : t < 4 ^ n)
    (h : adjustS rev n s = adjustS rev n t) : s = t := by
  have := congrArg (adjustS rev n) h
  rewrite [adjustS_adjustS rev n s hs, adjustS_adjustS rev n t ht] at this
  exact this

/-- the relative configuration of the anchors of two different positions is far or certified -/
theorem anchors_cfg (n o s t : Nat) (hn : n ≤ 30) (ho : o < 6) (hs : s < 4 ^ n) (ht : t < 4 ^ n) (hne : s ≠ t)
    (a b : Anchor) (ha : sToAnchor s n o = .ok a) (hb : sToAnchor t n o = .ok b) :
    CfgOK (anchorCfg a b) ∧ a.flips ∈ flips4 ∧ b.flips ∈ flips4 := by
  rewrite [sToAnchor_eq s n o hn hs] at ha
  rewrite [sToAnchor_eq t n o hn ht] at hb
  cases Outcome.ok.inj ha
  cases Outcome.ok.inj hb
  exact internal_pentagons_cfg n _ _ (mem_oriClasses _ _ (fun hh => flags_exclusive o ho hh)) _ _
    (adjustS_lt _ n s hs) (adjustS_lt _ n t ht) (fun h => hne (adjustS_injective _ n s t hs ht h))

/-! ## the main theorem -/

/-- **C03, planar, exact arithmetic on the runtime constants, every depth.**  For every curve depth `n ≤ 30`, every
orientation `o < 6` and all positions `s ≠ t < 4^n`: no point lies inside both pentagons by more than the margin
`2⁻⁵⁴`, i.e. there is no `w` whose cross product with EVERY edge of both pentagons is `< -2⁻⁵⁴`
(`cross e.1 e.2 w = −|e| · (distance of w from the line of e)`, negative inside; lattice frame, edge length `≈ 0.425`). -/
theorem pentagons_disjoint_margin (n o s t : Nat) (hn : n ≤ 30) (ho : o < 6) (hs : s < 4 ^ n) (ht : t < 4 ^ n)
    (hne : s ≠ t) (a b : Anchor) (ha : sToAnchor s n o = .ok a) (hb : sToAnchor t n o = .ok b) :
    ¬∃ w, DeepIn (1 / 2 ^ 54) (pentagonQ a) w ∧ DeepIn (1 / 2 ^ 54) (pentagonQ b) w := by
  obtain ⟨h, f1, f2⟩ := anchors_cfg n o s t hn ho hs ht hne a b ha hb
  exact anchors_disjoint_of_cfg mu a b (cfg_disjoint _ f1 f2 h)

/-- non-vacuity: a reversing, inverting orientation (4), depth 3, two positions whose pentagons share an edge -/
example : ∃ a b, sToAnchor 11 3 4 = .ok a ∧ sToAnchor 12 3 4 = .ok b ∧
    ¬∃ w, DeepIn (1 / 2 ^ 54) (pentagonQ a) w ∧ DeepIn (1 / 2 ^ 54) (pentagonQ b) w := by
  obtain ⟨a, ha, _⟩ := locate_anchor ℚ 3 4 11 (by decide) (by decide) (by decide)
  obtain ⟨b, hb, _⟩ := locate_anchor ℚ 3 4 12 (by decide) (by decide) (by decide)
  exact ⟨a, b, ha, hb, pentagons_disjoint_margin 3 4 11 12 (by decide) (by decide) (by decide) (by decide) (by decide)
    a b ha hb⟩

/-- the predicate `DeepIn (1 / 2 ^ 54)` is satisfiable: the centre of a pentagon is that deep inside it (so the theorem
says something: the centre of one cell is never inside another cell by more than the margin) -/
example : sToAnchor 7 2 0 = .ok ⟨2, (0, 1), (1, 1)⟩ ∧
    DeepIn (1 / 2 ^ 54) (pentagonQ ⟨2, (0, 1), (1, 1)⟩) (centreQ ⟨2, (0, 1), (1, 1)⟩) := by decide +kernel

/-! ## the natural form: the overlap lies in a thin neighbourhood of the boundaries -/

/-- **Corollary.**  Every point strictly inside two different cell pentagons of the same depth is, for some edge `e` of
one of the two, at most `2⁻⁵⁴` (in cross-product units) inside that edge: the overlap is contained in the
`mu`-neighbourhood of the two boundaries. -/
theorem pentagons_overlap_near_boundary (n o s t : Nat) (hn : n ≤ 30) (ho : o < 6) (hs : s < 4 ^ n) (ht : t < 4 ^ n)
    (hne : s ≠ t) (a b : Anchor) (ha : sToAnchor s n o = .ok a) (hb : sToAnchor t n o = .ok b) (w : ℚ × ℚ)
    (hwa : StrictIn (pentagonQ a) w) (hwb : StrictIn (pentagonQ b) w) :
    ∃ e ∈ edges (pentagonQ a) ++ edges (pentagonQ b), -(1 / 2 ^ 54) ≤ cross e.1 e.2 w ∧ cross e.1 e.2 w < 0 := by
  by_contra hcon
  have hall : ∀ e ∈ edges (pentagonQ a) ++ edges (pentagonQ b), cross e.1 e.2 w < -(1 / 2 ^ 54) := by
    intro e he
    by_contra hge
    have hlt : cross e.1 e.2 w < 0 := by
      rcases List.mem_append.1 he with h | h
      · exact hwa e h
      · exact hwb e h
    exact hcon ⟨e, he, not_lt.1 hge, hlt⟩
  exact pentagons_disjoint_margin n o s t hn ho hs ht hne a b ha hb
    ⟨w, fun e he => hall e (List.mem_append_left _ he), fun e he => hall e (List.mem_append_right _ he)⟩

/-- squared length of an edge -/
def sqLen (e : Pt × Pt) : ℚ := (e.2.1 - e.1.1) * (e.2.1 - e.1.1) + (e.2.2 - e.1.2) * (e.2.2 - e.1.2)

theorem sqLen_shift (t : Pt) (e : Pt × Pt) : sqLen (Prod.map (shift t) (shift t) e) = sqLen e := by
  unfold sqLen shift; simp only [Prod.map_fst, Prod.map_snd]; ring

theorem localPent_sqlen : ∀ F ∈ flips4, ∀ r : Bool, ∀ e ∈ edges (localPent F r), 9 / 50 ≤ sqLen e := by decide +kernel

/-- every edge of every cell pentagon has squared length `≥ 0.18` (the pentagon is equilateral with side `≈ 0.4251`) -/
theorem pentagon_edge_sqlen (a : Anchor) (hF : a.flips ∈ flips4) : ∀ e ∈ edges (pentagonQ a), 9 / 50 ≤ sqLen e := by
  intro e he
  rewrite [pentagonQ_eq, edges_map] at he
  obtain ⟨e0, he0, rfl⟩ := List.mem_map.1 he
  rewrite [sqLen_shift]
  exact localPent_sqlen _ hF _ e0 he0

/-- **Corollary, in lattice units.**  Every point strictly inside two different cell pentagons of the same depth lies
within `2⁻⁵²` lattice units of the line of some edge `e` of one of the two, on its inner side:
`(cross e w)² ≤ (2⁻⁵²)² · |e|²`, i.e. `distance(w, line e) = |cross e w| / |e| ≤ 2⁻⁵²`. -/
theorem pentagons_overlap_within (n o s t : Nat) (hn : n ≤ 30) (ho : o < 6) (hs : s < 4 ^ n) (ht : t < 4 ^ n)
    (hne : s ≠ t) (a b : Anchor) (ha : sToAnchor s n o = .ok a) (hb : sToAnchor t n o = .ok b) (w : ℚ × ℚ)
    (hwa : StrictIn (pentagonQ a) w) (hwb : StrictIn (pentagonQ b) w) :
    ∃ e ∈ edges (pentagonQ a) ++ edges (pentagonQ b), cross e.1 e.2 w < 0 ∧
      cross e.1 e.2 w * cross e.1 e.2 w ≤ (1 / 2 ^ 52) * (1 / 2 ^ 52) * sqLen e := by
  obtain ⟨_, f1, f2⟩ := anchors_cfg n o s t hn ho hs ht hne a b ha hb
  obtain ⟨e, he, h1, h2⟩ := pentagons_overlap_near_boundary n o s t hn ho hs ht hne a b ha hb w hwa hwb
  refine ⟨e, he, h2, ?_⟩
  have hl : 9 / 50 ≤ sqLen e := by
    rcases List.mem_append.1 he with h | h
    · exact pentagon_edge_sqlen a f1 e h
    · exact pentagon_edge_sqlen b f2 e h
  have hsq : cross e.1 e.2 w * cross e.1 e.2 w ≤ (1 / 2 ^ 54) * (1 / 2 ^ 54) := by nlinarith
  have : (1 / 2 ^ 54 : ℚ) * (1 / 2 ^ 54) ≤ (1 / 2 ^ 52) * (1 / 2 ^ 52) * (9 / 50) := by norm_num
  have h52 : (0 : ℚ) ≤ (1 / 2 ^ 52) * (1 / 2 ^ 52) := by norm_num
  nlinarith

/-! ## the plain statement is false -/

/-- the plain property: no point strictly inside both pentagons -/
def pentagons_disjoint_statement : Prop :=
  ∀ (n o s t : Nat) (a b : Anchor), n ≤ 30 → o < 6 → s < 4 ^ n → t < 4 ^ n → s ≠ t →
    sToAnchor s n o = .ok a → sToAnchor t n o = .ok b →
    ¬∃ w, StrictIn (pentagonQ a) w ∧ StrictIn (pentagonQ b) w

/-- a point strictly inside the pentagons of positions 0 and 3 of depth 1, orientation 0: on the segment from the
midpoint of their (ideally common) edge `c d` towards the centre of the first pentagon, at `2⁻⁵⁸` of the way -/
def overlapWitness : ℚ × ℚ :=
  (37266408082866664443714673142346173 / 51922968585348276285304963292200960,
    6784282734308304226737756490486277 / 25961484292674138142652481646100480)

theorem overlap_witness : sToAnchor 0 1 0 = .ok ⟨0, (0, 0), (1, 1)⟩ ∧ sToAnchor 3 1 0 = .ok ⟨3, (1, 1), (-1, 1)⟩ ∧
    StrictIn (pentagonQ ⟨0, (0, 0), (1, 1)⟩) overlapWitness ∧
    StrictIn (pentagonQ ⟨3, (1, 1), (-1, 1)⟩) overlapWitness := by decide +kernel

/-- **finding**: in exact arithmetic on the runtime constants two different cells of the same depth DO share interior
points (a sliver about `3·10⁻¹⁷` lattice units wide along an ideally common edge) -/
theorem pentagons_disjoint_statement_false : ¬pentagons_disjoint_statement := by
  intro h
  obtain ⟨h1, h2, h3, h4⟩ := overlap_witness
  exact h 1 0 0 3 _ _ (by decide) (by decide) (by decide) (by decide) (by decide) h1 h2 ⟨_, h3, h4⟩

/-- … and the overlap really is thin: the witness is less than `2⁻⁶⁰` inside the edge `c d` of the first pentagon -/
example : ∃ e ∈ edges (pentagonQ ⟨0, (0, 0), (1, 1)⟩), -(1 / 2 ^ 60) ≤ cross e.1 e.2 overlapWitness := by
  decide +kernel

/-- **the margin cannot be improved by more than a factor 4**: the same two pentagons have a common point that is
`2⁻⁵⁶` deep inside both (near the end `d` of the ideally common edge, half-way between the two edge lines) -/
theorem margin_sharp : ∃ w : ℚ × ℚ, DeepIn (1 / 2 ^ 56) (pentagonQ ⟨0, (0, 0), (1, 1)⟩) w ∧
    DeepIn (1 / 2 ^ 56) (pentagonQ ⟨3, (1, 1), (-1, 1)⟩) w :=
  ⟨(3855429376580265074033 / 2 ^ 72, 356497222663308834243 / 2 ^ 72), by decide +kernel, by decide +kernel⟩

/-! ## partial results, kept as named theorems -/

/-- **far pairs, exact.**  Any two anchors with `±1` flips whose offsets differ by more than 2 in the hexagonal lattice
norm (`|Δi| > 2`, `|Δj| > 2` or `|Δi + Δj| > 2`) have pentagons with disjoint interiors — no margin, any `k`, any
offsets (not only anchors of the same walk). -/
theorem far_pentagons_disjoint (a b : Anchor) (ha : IsFlip a.flips) (hb : IsFlip b.flips)
    (hfar : ¬HexLe 2 (b.offset.1 - a.offset.1, b.offset.2 - a.offset.2)) :
    ¬∃ w, StrictIn (pentagonQ a) w ∧ StrictIn (pentagonQ b) w := by
  rintro ⟨w, h1, h2⟩
  rewrite [strictIn_iff_deepIn] at h1 h2
  exact anchors_disjoint_of_cfg 0 a b
    (cfg_far_disjoint (le_refl 0) _ (mem_flips4 _ ha) (mem_flips4 _ hb) hfar) ⟨w, h1, h2⟩

/-- the hypothesis is satisfiable by anchors of one walk: positions 0 and 15 of depth 2, orientation 0 -/
example : sToAnchor 0 2 0 = .ok ⟨0, (0, 0), (1, 1)⟩ ∧ sToAnchor 15 2 0 = .ok ⟨3, (3, 0), (1, 1)⟩ ∧
    ¬∃ w, StrictIn (pentagonQ ⟨0, (0, 0), (1, 1)⟩) w ∧ StrictIn (pentagonQ ⟨3, (3, 0), (1, 1)⟩) w :=
  ⟨by decide +kernel, by decide +kernel,
    far_pentagons_disjoint _ _ (Or.inl rfl) (Or.inl rfl) (by decide)⟩

/-- **siblings.**  The four children `4·s + d` (`d < 4`) of one position of depth `n` have pairwise disjoint pentagons
up to the margin `2⁻⁵⁴` (special case of the main theorem). -/
theorem siblings_disjoint_margin (n o s d d' : Nat) (hn : n + 1 ≤ 30) (ho : o < 6) (hs : s < 4 ^ n) (hd : d < 4)
    (hd' : d' < 4) (hne : d ≠ d') (a b : Anchor) (ha : sToAnchor (4 * s + d) (n + 1) o = .ok a)
    (hb : sToAnchor (4 * s + d') (n + 1) o = .ok b) :
    ¬∃ w, DeepIn (1 / 2 ^ 54) (pentagonQ a) w ∧ DeepIn (1 / 2 ^ 54) (pentagonQ b) w :=
  pentagons_disjoint_margin (n + 1) o _ _ hn ho (child_lt s n d hs hd) (child_lt s n d' hs hd') (by omega) a b ha hb

end A5.PD
