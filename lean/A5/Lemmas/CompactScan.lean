import A5.Lemmas.CompactMax
/-! # The scan and the loop of `compact` on *arbitrary* key-sorted lists of cells (core-only)

`A5.CompactMax` (files `CompactMaxScan`, `CompactMaxMerge`) provides the path-level scan `pscan`, its refinement
theorem `compactScan_enc`, the relation `Merged L L'` ("some contiguous complete sibling groups were replaced by
their parents") and the facts that a merge keeps well-formedness, the covered region and strict key order.  Its
loop specification assumes that the cells do not overlap.  Property C08 is about arbitrary inputs — duplicates,
a cell together with its descendants — so this file redoes the loop without that assumption:

* `Merged.res_le`            : a scan never produces a finer resolution than it was given;
* `compactLoop_sorted_spec`  : from any strictly key-sorted list of well-formed cells the loop terminates within
  its fuel `length + 1`, never fails, and returns a strictly key-sorted list of well-formed cells covering the same
  region, with no finer resolution, on which a further scan finds nothing. -/
namespace A5.CompactC08
open A5 A5.Path A5.Canonical A5.CompactMax

/-- the parent of a merged group is coarser than the group: resolutions never get finer -/
theorem Merged.res_le {L L' : List Path} (h : Merged L L') : ∀ x ∈ L', ∃ p ∈ L, res x ≤ res p := by
  intro x hx
  rcases h.mem x hx with h | ⟨_, _, h3⟩
  · exact ⟨x, h, Int.le_refl _⟩
  · have hc := child_zero_mem x
    exact ⟨_, h3 _ hc, by rewrite [res_children hc]; omega⟩

/-- the loop invariant for arbitrary inputs: well-formed and strictly key-sorted (hence duplicate-free) -/
structure SInv (L : List Path) : Prop where
  wf : ∀ p ∈ L, WF p
  sorted : KeySorted L

theorem Merged.sinv {L L' : List Path} (h : Merged L L') (hi : SInv L) : SInv L' :=
  ⟨h.wf hi.wf, h.sorted hi.sorted⟩

/-- **the loop on any key-sorted list** -/
theorem compactLoop_sorted_spec : ∀ (fuel : Nat) (L : List Path), SInv L → L.length < fuel →
    ∃ R, compactLoop fuel (L.map enc) = .ok (R.map enc) ∧ SInv R ∧ SameRegion L R ∧
      (∀ x ∈ R, ∃ p ∈ L, res x ≤ res p) ∧ NoHead R ∧ R.length ≤ L.length := by
  intro fuel
  induction fuel with
  | zero => intro L _ h; omega
  | succ fuel ih =>
    intro L hi hlen
    obtain ⟨hm, hle, hlt⟩ := pscan_spec L.length L (Nat.le_refl _) hi.wf
    simp only [compactLoop]
    rewrite [compactScan_enc L 0 hi.wf]
    simp only [Outcome.bind_ok]
    cases hch : (pscan L 0).2 with
    | true =>
      simp only [if_true]
      obtain ⟨R, h1, h2, h3, h4, h5, h6⟩ := ih (pscan L 0).1 (Merged.sinv hm hi) (by have := hlt hch; omega)
      refine ⟨R, h1, h2, sameRegion_trans hm.sameRegion h3, ?_, h5, by omega⟩
      intro x hx
      obtain ⟨y, hy, hxy⟩ := h4 x hx
      obtain ⟨p, hp, hyp⟩ := Merged.res_le hm y hy
      exact ⟨p, hp, by omega⟩
    | false =>
      simp only [Bool.false_eq_true, if_false]
      obtain ⟨hnh, he⟩ := noHead_of_pscan L hch
      rewrite [he]
      exact ⟨L, rfl, hi, sameRegion_refl _, fun x hx => ⟨x, hx, Int.le_refl _⟩, hnh, Nat.le_refl _⟩

/-- one scan, stated on the model: it never fails on ids of well-formed cells, its output is again a list of
ids of well-formed cells, it preserves the region, strict key order, and shrinks the list when it reports a change -/
theorem compactScan_sorted_spec (L : List Path) (hwf : ∀ p ∈ L, WF p) :
    ∃ (L' : List Path) (ch : Bool), compactScan (L.map enc) 0 = .ok (L'.map enc, ch) ∧ (∀ p ∈ L', WF p) ∧
      SameRegion L L' ∧ (∀ x ∈ L', ∃ p ∈ L, res x ≤ res p) ∧ (KeySorted L → KeySorted L') ∧
      (ch = false → L' = L) ∧ (ch = true → L'.length < L.length) := by
  obtain ⟨hm, _, hlt⟩ := pscan_spec L.length L (Nat.le_refl _) hwf
  refine ⟨(pscan L 0).1, (pscan L 0).2, compactScan_enc L 0 hwf, hm.wf hwf, hm.sameRegion, Merged.res_le hm,
    hm.sorted, fun h => (noHead_of_pscan L h).2, hlt⟩

end A5.CompactC08
