import A5.Model.PentagonG
import A5.Lemmas.HilbertOrient
import Mathlib.Tactic.Ring
import Mathlib.Tactic.Linarith
import Mathlib.Tactic.NormNum
import Mathlib.Tactic.FieldSimp
import Mathlib.Algebra.CharZero.Defs
/-! # The pentagon centre lies strictly inside its anchor's lattice triangle (exact arithmetic, runtime constants)

`A5.PG.centreIJ a` is `face_to_ij (get_center (pentagon of anchor a))` evaluated in exact rational arithmetic on
the constants the running library computes at start-up (`A5.Gen.Runtime`, regenerated and cross-checked on every
check run).  Main result `centreIJ_in_anchorTri`: for every anchor with a `±1` flip pair and `|offset| ≤ 2^31`,
the centre lies in the open lattice triangle `anchorTri a`, at distance `> 0.14` (lattice units) from each of its
three sides.  `BASIS_INVERSE * BASIS` is not exactly the identity for the rounded constants; the defect (`< 2^-50`
per entry) is bounded explicitly and is why the offsets need a bound at all. -/
namespace A5.PG
open A5 A5.HilbertLocate

section algebra
variable {K : Type} [Field K] [CharZero K]

/-- centre of the transformed seed pentagon before the translation by `BASIS * offset`: `m` the centre of the seed,
`r` whether the pentagon is reflected -/
def localC (F : Int × Int) (r : Bool) (m w : K × K) : K × K :=
  let c := if F = (1, -1) then (-m.1, -m.2) else m
  let c := if r then (c.1, -c.2) else c
  if F = (-1, -1) then (-c.1, -c.2)
  else if F.1 = -1 then (c.1 + -w.1, c.2 + -w.2)
  else if F.2 = -1 then (c.1 + w.1, c.2 + w.2)
  else c

theorem centre_local (p0 p1 p2 p3 p4 w : K × K) (b : K × K × K × K) (k : Nat) (oi oj : Int) (F : Int × Int)
    (hF : IsFlip F) :
    centreG 0 5 (pentagonLocalG [p0, p1, p2, p3, p4] w b (fun z => (z : K)) ⟨k, (oi, oj), F⟩) =
      ((localC F (needsReflect ⟨k, (oi, oj), F⟩)
          ((p0.1 + p1.1 + p2.1 + p3.1 + p4.1) / 5, (p0.2 + p1.2 + p2.2 + p3.2 + p4.2) / 5) w).1
        + (b.1 * (oi : K) + b.2.1 * (oj : K)),
       (localC F (needsReflect ⟨k, (oi, oj), F⟩)
          ((p0.1 + p1.1 + p2.1 + p3.1 + p4.1) / 5, (p0.2 + p1.2 + p2.2 + p3.2 + p4.2) / 5) w).2
        + (b.2.2.1 * (oi : K) + b.2.2.2 * (oj : K))) := by
  obtain ⟨b00, b01, b10, b11⟩ := b
  generalize hr : needsReflect ⟨k, (oi, oj), F⟩ = r
  rcases hF with rfl | rfl | rfl | rfl <;> cases r <;>
    simp [pentagonLocalG, hr, centreG, localC, rot180, reflectY, translate, no_eq, yes_eq] <;>
    constructor <;> field_simp <;> ring

end algebra

/-! ### the numbers -/

theorem seedQ_eq : seedQ = [ratPair Gen.Runtime.A, ratPair Gen.Runtime.B, ratPair Gen.Runtime.C,
    ratPair Gen.Runtime.D, ratPair Gen.Runtime.E] := rfl

/-- centre of the seed pentagon (exact) -/
def mQ : Rat × Rat :=
  (((ratPair Gen.Runtime.A).1 + (ratPair Gen.Runtime.B).1 + (ratPair Gen.Runtime.C).1 + (ratPair Gen.Runtime.D).1
      + (ratPair Gen.Runtime.E).1) / 5,
   ((ratPair Gen.Runtime.A).2 + (ratPair Gen.Runtime.B).2 + (ratPair Gen.Runtime.C).2 + (ratPair Gen.Runtime.D).2
      + (ratPair Gen.Runtime.E).2) / 5)

/-- the local centre in lattice coordinates -/
def localIJ (F : Int × Int) (r : Bool) : Rat × Rat := faceToIjG basisInvQ (localC F r mQ wQ)

/-- the defect of `BASIS_INVERSE * BASIS` from the identity, entry by entry -/
def defect : Rat × Rat × Rat × Rat :=
  (basisInvQ.1 * basisQ.1 + basisInvQ.2.1 * basisQ.2.2.1 - 1,
   basisInvQ.1 * basisQ.2.1 + basisInvQ.2.1 * basisQ.2.2.2,
   basisInvQ.2.2.1 * basisQ.1 + basisInvQ.2.2.2 * basisQ.2.2.1,
   basisInvQ.2.2.1 * basisQ.2.1 + basisInvQ.2.2.2 * basisQ.2.2.2 - 1)

/-- every entry of the defect is below `2^-50` in absolute value (kernel-evaluated on the exact constants) -/
theorem defect_small :
    -(1 / 2 ^ 50 : Rat) ≤ defect.1 ∧ defect.1 ≤ 1 / 2 ^ 50 ∧
    -(1 / 2 ^ 50 : Rat) ≤ defect.2.1 ∧ defect.2.1 ≤ 1 / 2 ^ 50 ∧
    -(1 / 2 ^ 50 : Rat) ≤ defect.2.2.1 ∧ defect.2.2.1 ≤ 1 / 2 ^ 50 ∧
    -(1 / 2 ^ 50 : Rat) ≤ defect.2.2.2 ∧ defect.2.2.2 ≤ 1 / 2 ^ 50 := by decide +kernel

/-- the margin by which the eight local centres sit inside their reference triangles: more than `0.148` lattice units
from every side (the measured value is 0.148655) -/
def InTm (μ : Rat) (F : Int × Int) (u v : Rat) : Prop :=
  if F = (1, 1) then μ < u ∧ μ < v ∧ u + v < 1 - μ
  else if F = (1, -1) then -1 + μ < u ∧ u < -μ ∧ μ < v ∧ v < 1 - μ ∧ μ < u + v
  else if F = (-1, 1) then μ < u ∧ u < 1 - μ ∧ -1 + μ < v ∧ v < -μ ∧ u + v < -μ
  else if F = (-1, -1) then -1 + μ < u ∧ u < -μ ∧ -1 + μ < v ∧ v < -μ ∧ -1 + μ < u + v
  else False

instance (μ : Rat) (F : Int × Int) (u v : Rat) : Decidable (InTm μ F u v) := by
  unfold InTm; infer_instance

theorem local_margin : ∀ r : Bool,
    InTm (148 / 1000) (1, 1) (localIJ (1, 1) r).1 (localIJ (1, 1) r).2 ∧
    InTm (148 / 1000) (1, -1) (localIJ (1, -1) r).1 (localIJ (1, -1) r).2 ∧
    InTm (148 / 1000) (-1, 1) (localIJ (-1, 1) r).1 (localIJ (-1, 1) r).2 ∧
    InTm (148 / 1000) (-1, -1) (localIJ (-1, -1) r).1 (localIJ (-1, -1) r).2 := by decide +kernel

/-- a point with margin `μ`, moved by less than `μ/2` in each coordinate, is still strictly inside -/
theorem InTm.inT {μ : Rat} {F : Int × Int} {u v du dv : Rat} (h : InTm μ F u v)
    (h1 : -(μ / 2) < du) (h2 : du < μ / 2) (h3 : -(μ / 2) < dv) (h4 : dv < μ / 2) :
    InT F (u + du) (v + dv) := by
  unfold InTm at h
  unfold InT
  split_ifs at h ⊢ with e1 e2 e3 e4
  · obtain ⟨a, b, c⟩ := h; exact ⟨by linarith, by linarith, by linarith⟩
  · obtain ⟨a, b, c, d, e⟩ := h; exact ⟨by linarith, by linarith, by linarith, by linarith, by linarith⟩
  · obtain ⟨a, b, c, d, e⟩ := h; exact ⟨by linarith, by linarith, by linarith, by linarith, by linarith⟩
  · obtain ⟨a, b, c, d, e⟩ := h; exact ⟨by linarith, by linarith, by linarith, by linarith, by linarith⟩

theorem mul_small {e o : Rat} {c B : Rat} (_hc : 0 ≤ c) (_hB : 0 ≤ B) (he1 : -c ≤ e) (he2 : e ≤ c) (ho1 : -B ≤ o) (ho2 : o ≤ B) :
    -(c * B) ≤ e * o ∧ e * o ≤ c * B := by
  constructor <;> nlinarith [mul_nonneg _hc _hB, mul_nonneg (sub_nonneg.2 he2) (sub_nonneg.2 ho2),
    mul_nonneg (sub_nonneg.2 he2) (by linarith : (0 : Rat) ≤ o + B), mul_nonneg (by linarith : (0 : Rat) ≤ e + c) (sub_nonneg.2 ho2),
    mul_nonneg (by linarith : (0 : Rat) ≤ e + c) (by linarith : (0 : Rat) ≤ o + B)]

/-- `centreIJ a` written as offset + local part + defect term -/
theorem centreIJ_eq (a : Anchor) (hF : IsFlip a.flips) :
    centreIJ a =
      ((a.offset.1 : Rat) + ((localIJ a.flips (needsReflect a)).1 + (defect.1 * (a.offset.1 : Rat) + defect.2.1 * (a.offset.2 : Rat))),
       (a.offset.2 : Rat) + ((localIJ a.flips (needsReflect a)).2 + (defect.2.2.1 * (a.offset.1 : Rat) + defect.2.2.2 * (a.offset.2 : Rat)))) := by
  obtain ⟨k, ⟨oi, oj⟩, F⟩ := a
  change IsFlip F at hF
  unfold centreIJ centreQ pentagonQ
  rewrite [seedQ_eq, centre_local _ _ _ _ _ _ _ _ _ _ _ hF]
  change faceToIjG basisInvQ ((localC F _ mQ wQ).1 + _, (localC F _ mQ wQ).2 + _) = _
  unfold localIJ
  generalize localC F (needsReflect ⟨k, (oi, oj), F⟩) mQ wQ = lc
  unfold faceToIjG defect
  generalize basisInvQ = bi
  generalize basisQ = b
  obtain ⟨i0, i1, i2, i3⟩ := bi
  obtain ⟨b0, b1, b2, b3⟩ := b
  obtain ⟨lx, ly⟩ := lc
  simp only [Prod.mk.injEq]
  constructor <;> ring

/-- **Main lemma.**  The exact centre of the pentagon of an anchor lies strictly inside the anchor's lattice triangle. -/
theorem centreIJ_in_anchorTri (a : Anchor) (hF : IsFlip a.flips)
    (h1 : -(2 : Int) ^ 31 ≤ a.offset.1 ∧ a.offset.1 ≤ 2 ^ 31) (h2 : -(2 : Int) ^ 31 ≤ a.offset.2 ∧ a.offset.2 ≤ 2 ^ 31) :
    anchorTri a (centreIJ a).1 (centreIJ a).2 := by
  rewrite [centreIJ_eq a hF]
  unfold anchorTri
  simp only [add_sub_cancel_left]
  have hm := local_margin (needsReflect a)
  have hmF : InTm (148 / 1000) a.flips (localIJ a.flips (needsReflect a)).1 (localIJ a.flips (needsReflect a)).2 := by
    rcases hF with e | e | e | e <;> rewrite [e]
    · exact hm.1
    · exact hm.2.1
    · exact hm.2.2.1
    · exact hm.2.2.2
  obtain ⟨d1, d2, d3, d4, d5, d6, d7, d8⟩ := defect_small
  have o1 : -((2 : Rat) ^ 31) ≤ (a.offset.1 : Rat) ∧ (a.offset.1 : Rat) ≤ 2 ^ 31 := by
    constructor
    · have := h1.1; exact_mod_cast this
    · have := h1.2; exact_mod_cast this
  have o2 : -((2 : Rat) ^ 31) ≤ (a.offset.2 : Rat) ∧ (a.offset.2 : Rat) ≤ 2 ^ 31 := by
    constructor
    · have := h2.1; exact_mod_cast this
    · have := h2.2; exact_mod_cast this
  have hc : (0 : Rat) ≤ 1 / 2 ^ 50 := by norm_num
  have hB : (0 : Rat) ≤ 2 ^ 31 := by norm_num
  have m1 := mul_small hc hB d1 d2 o1.1 o1.2
  have m2 := mul_small hc hB d3 d4 o2.1 o2.2
  have m3 := mul_small hc hB d5 d6 o1.1 o1.2
  have m4 := mul_small hc hB d7 d8 o2.1 o2.2
  have hv : (1 / 2 ^ 50 : Rat) * 2 ^ 31 = 1 / 2 ^ 19 := by norm_num
  rewrite [hv] at m1 m2 m3 m4
  have hs : (1 / 2 ^ 19 : Rat) + 1 / 2 ^ 19 < 148 / 1000 / 2 := by norm_num
  exact hmF.inT (by linarith [m1.1, m2.1]) (by linarith [m1.2, m2.2]) (by linarith [m3.1, m4.1]) (by linarith [m3.2, m4.2])

end A5.PG
