import A5.Lemmas.Deserialize
import A5.Spec.Tree
/-! The codec on tree paths: `enc p` is what `serialize` produces for the record `toCell p`, `deserialize`
inverts it, and the canonical ids (`Layout`) are exactly the encodings of well-formed paths.  Core-only.

Sections: (1) base-4 digit strings (`value`, `digits`), (2) `toCell`/`enc` against `encNat`,
(3) the codec theorems on paths, (4) canonical ids = encodings of well-formed paths. -/
namespace A5
namespace Path

/-! ### 1. base-4 digit strings -/

theorem foldl_value (a : Nat) (ds : List Nat) :
    ds.foldl (fun a d => 4 * a + d) a = a * 4 ^ ds.length + value ds := by
  induction ds generalizing a with
  | nil => simp only [List.foldl_nil, List.length_nil, Nat.pow_zero, Nat.mul_one, value, Nat.add_zero]
  | cons d ds ih =>
    simp only [value, List.foldl_cons, List.length_cons]
    rewrite [ih (4 * a + d), ih (4 * 0 + d), Nat.pow_succ]
    simp only [value]
    rewrite [Nat.add_mul, Nat.add_mul, Nat.mul_zero, Nat.zero_mul, Nat.zero_add, Nat.add_assoc]
    refine congrArg (· + _) ?_
    rewrite [Nat.mul_comm 4 a, Nat.mul_assoc, Nat.mul_comm 4]
    rfl

theorem value_nil : value [] = 0 := rfl

theorem value_cons (d : Nat) (ds : List Nat) : value (d :: ds) = d * 4 ^ ds.length + value ds := by
  have h := foldl_value (4 * 0 + d) ds
  have e : value (d :: ds) = ds.foldl (fun a d => 4 * a + d) (4 * 0 + d) := rfl
  rewrite [e, h, Nat.mul_zero, Nat.zero_add]
  rfl

theorem value_append (as bs : List Nat) : value (as ++ bs) = value as * 4 ^ bs.length + value bs := by
  have e : value (as ++ bs) = bs.foldl (fun a d => 4 * a + d) (value as) := by
    simp only [value, List.foldl_append]
  rewrite [e, foldl_value]
  rfl

theorem value_append_singleton (ds : List Nat) (d : Nat) : value (ds ++ [d]) = 4 * value ds + d := by
  simp only [value, List.foldl_append, List.foldl_cons, List.foldl_nil]

theorem value_lt (ds : List Nat) (h : ∀ d ∈ ds, d < 4) : value ds < 4 ^ ds.length := by
  induction ds with
  | nil => simp only [value_nil, List.length_nil, Nat.pow_zero]; omega
  | cons d ds ih =>
    have h1 := ih (fun x hx => h x (List.mem_cons_of_mem _ hx))
    have h2 : d < 4 := h d (List.mem_cons_self ..)
    rewrite [value_cons, List.length_cons, Nat.pow_succ]
    have h3 : d * 4 ^ ds.length ≤ 3 * 4 ^ ds.length := Nat.mul_le_mul_right _ (by omega)
    omega

theorem value_take (ds : List Nat) (h : ∀ d ∈ ds, d < 4) (n : Nat) :
    value (ds.take n) = value ds / 4 ^ (ds.length - n) := by
  have e := value_append (ds.take n) (ds.drop n)
  rewrite [List.take_append_drop, List.length_drop] at e
  have hlt : value (ds.drop n) < 4 ^ (ds.length - n) := by
    have := value_lt (ds.drop n) (fun d hd => h d (List.mem_of_mem_drop hd))
    rewrite [List.length_drop] at this
    exact this
  rewrite [e, Nat.mul_comm, Nat.mul_add_div (Nat.pow_pos (by omega)), Nat.div_eq_of_lt hlt]
  rfl

theorem length_digits (n i : Nat) : (digits n i).length = n := by
  induction n generalizing i with
  | zero => rfl
  | succ n ih => simp only [digits, List.length_cons, ih]

theorem digits_lt (n i : Nat) (h : i < 4 ^ n) : ∀ d ∈ digits n i, d < 4 := by
  induction n generalizing i with
  | zero => intro d hd; simp only [digits, List.not_mem_nil] at hd
  | succ n ih =>
    intro d hd
    simp only [digits, List.mem_cons] at hd
    rcases hd with rfl | hd
    · rewrite [Nat.pow_succ] at h
      exact Nat.div_lt_of_lt_mul h
    · exact ih _ (Nat.mod_lt _ (Nat.pow_pos (by omega))) d hd

theorem value_digits (n i : Nat) (h : i < 4 ^ n) : value (digits n i) = i := by
  induction n generalizing i with
  | zero => simp only [Nat.pow_zero] at h; simp only [digits, value_nil]; omega
  | succ n ih =>
    simp only [digits]
    rewrite [value_cons, length_digits, ih _ (Nat.mod_lt _ (Nat.pow_pos (by omega)))]
    exact Nat.div_add_mod' i (4 ^ n)

theorem digits_value (ds : List Nat) (h : ∀ d ∈ ds, d < 4) : digits ds.length (value ds) = ds := by
  induction ds with
  | nil => rfl
  | cons d ds ih =>
    have h1 := value_lt ds (fun x hx => h x (List.mem_cons_of_mem _ hx))
    have hp : 0 < 4 ^ ds.length := Nat.pow_pos (by omega)
    simp only [List.length_cons, digits]
    rewrite [value_cons, Nat.mul_comm d, Nat.mul_add_div hp, Nat.div_eq_of_lt h1, Nat.add_zero,
      Nat.mul_add_mod, Nat.mod_eq_of_lt h1, ih (fun x hx => h x (List.mem_cons_of_mem _ hx))]
    rfl

/-- the digit string of the `i`-th block member: leading digit `d`, then the digits of `i` -/
theorem digits_succ_block (n d i : Nat) (hi : i < 4 ^ n) : digits (n + 1) (d * 4 ^ n + i) = d :: digits n i := by
  have hp : 0 < 4 ^ n := Nat.pow_pos (by omega)
  simp only [digits]
  rewrite [Nat.mul_comm d, Nat.mul_add_div hp, Nat.div_eq_of_lt hi, Nat.add_zero, Nat.mul_add_mod,
    Nat.mod_eq_of_lt hi]
  rfl

theorem two_pow_two_mul (d : Nat) : 2 ^ (2 * d) = 4 ^ d := by
  rewrite [Nat.pow_mul]
  rfl

theorem four_pow_le_of_le {a b : Nat} (h : a ≤ b) : 4 ^ a ≤ 4 ^ b := Nat.pow_le_pow_right (by omega) h

theorem four_pow_29 : 4 ^ 29 = 2 ^ 58 := by decide

/-! ### 2. `toCell` and `enc` -/

theorem res_le {p : Path} (hp : WF p) : res p ≤ 29 := by
  cases p with
  | world => simp only [res]; omega
  | face f => simp only [res]; omega
  | deep f k ds => obtain ⟨_, _, _, hl⟩ := hp; simp only [res]; omega

theorem res_toCell (p : Path) : (toCell p).res = res p := by
  cases p <;> rfl

theorem valid_toCell {p : Path} (hp : WF p) : (toCell p).Valid := by
  cases p with
  | world => exact Or.inl ⟨rfl, rfl, rfl, rfl⟩
  | face f => exact Or.inr (Or.inl ⟨rfl, hp, rfl, rfl⟩)
  | deep f k ds =>
    obtain ⟨hf, hk, hd, hl⟩ := hp
    cases ds with
    | nil =>
      exact Or.inr (Or.inr (Or.inl ⟨rfl, hf, Nat.mod_lt _ (by omega), rfl⟩))
    | cons d ds =>
      refine Or.inr (Or.inr (Or.inr ⟨?_, ?_, hf, Nat.mod_lt _ (by omega), ?_⟩))
      · show (2 : Int) ≤ 1 + ((d :: ds).length : Int)
        simp only [List.length_cons]; omega
      · show 1 + ((d :: ds).length : Int) ≤ 29
        omega
      · show value (d :: ds) < 4 ^ (1 + ((d :: ds).length : Int) - 1).toNat
        have e : (1 + ((d :: ds).length : Int) - 1).toNat = (d :: ds).length := by omega
        rewrite [e]
        exact value_lt _ hd

theorem rot_quint (f k : Nat) (hf : f < 12) (hk : k < 5) : rot f ((k + firstQuintant f) % 5) = 5 * f + k := by
  have := firstQuintant_lt f hf
  unfold rot; omega

theorem encNat_toCell {p : Path} (hp : WF p) : encNat (toCell p) = enc p := by
  cases p with
  | world => exact encNat_world
  | face f => exact encNat_res0 f
  | deep f k ds =>
    obtain ⟨hf, hk, hd, hl⟩ := hp
    cases ds with
    | nil =>
      show encNat ⟨f, (k + firstQuintant f) % 5, 0, 1⟩ = _
      rewrite [encNat_res1, rot_quint f k hf hk]
      simp only [enc, value_nil, List.length_nil, Nat.zero_mul, Nat.add_zero, if_true]
    | cons d ds =>
      have e : (1 + ((d :: ds).length : Int)) = ((1 + (d :: ds).length : Nat) : Int) := by omega
      show encNat ⟨f, (k + firstQuintant f) % 5, value (d :: ds), 1 + ((d :: ds).length : Int)⟩ = _
      rewrite [e, encNat_hilbert _ _ _ _ (by simp only [List.length_cons]; omega), rot_quint f k hf hk]
      simp only [enc]
      rewrite [if_neg (by simp only [List.length_cons]; omega)]
      have e1 : 60 - 2 * (1 + (d :: ds).length) = 58 - 2 * (d :: ds).length := by omega
      have e2 : 59 - 2 * (1 + (d :: ds).length) = 57 - 2 * (d :: ds).length := by omega
      rewrite [e1, e2]
      rfl

/-! ### 3. the codec on paths -/

theorem serialize_toCell {p : Path} (hp : WF p) : serialize (toCell p) = .ok (enc p) := by
  rewrite [serialize_valid _ (valid_toCell hp), encNat_toCell hp]
  rfl

theorem deserialize_enc_path {p : Path} (hp : WF p) : deserialize (enc p) = .ok (toCell p) := by
  rewrite [← encNat_toCell hp]
  exact deserialize_enc _ (valid_toCell hp)

theorem getResolution_enc_path {p : Path} (hp : WF p) : getResolution (enc p) = res p := by
  rewrite [← encNat_toCell hp, getResolution_enc _ (valid_toCell hp)]
  exact res_toCell p

theorem toCell_injective {p q : Path} (hp : WF p) (hq : WF q) (h : toCell p = toCell q) : p = q := by
  have hr : res p = res q := by rewrite [← res_toCell p, ← res_toCell q, h]; rfl
  cases p with
  | world =>
    cases q with
    | world => rfl
    | face g => simp only [res] at hr; omega
    | deep g j es => simp only [res] at hr; omega
  | face f =>
    cases q with
    | world => simp only [res] at hr; omega
    | face g => simp only [toCell, Cell.mk.injEq] at h; rewrite [h.1]; rfl
    | deep g j es => simp only [res] at hr; omega
  | deep f k ds =>
    cases q with
    | world => simp only [res] at hr; omega
    | face g => simp only [res] at hr; omega
    | deep g j es =>
      obtain ⟨hf, hk, hd, hl⟩ := hp
      obtain ⟨hg, hj, he, hl'⟩ := hq
      simp only [toCell, Cell.mk.injEq] at h
      obtain ⟨h1, h2, h3, _⟩ := h
      subst h1
      have hq := firstQuintant_lt f hf
      have hkj : k = j := by omega
      subst hkj
      simp only [res] at hr
      have hlen : ds.length = es.length := by omega
      have : ds = es := by
        rewrite [← digits_value ds hd, ← digits_value es he, hlen, h3]; rfl
      rewrite [this]; rfl

/-- different cells never share an id -/
theorem enc_injective {p q : Path} (hp : WF p) (hq : WF q) (h : enc p = enc q) : p = q := by
  refine toCell_injective hp hq (encNat_injective _ _ (valid_toCell hp) (valid_toCell hq) ?_)
  rewrite [encNat_toCell hp, encNat_toCell hq]
  exact h

theorem enc_lt {p : Path} (hp : WF p) : enc p < 2 ^ 64 := by
  rewrite [← encNat_toCell hp]
  exact encNat_lt _ (valid_toCell hp)

/-! ### 4. canonical ids are exactly the encodings of well-formed paths -/

theorem layout_enc_path {p : Path} (hp : WF p) : Layout (enc p) := by
  rewrite [← encNat_toCell hp]
  exact layout_enc _ (valid_toCell hp)

theorem exists_path_of_layout (id : Nat) (h : Layout id) : ∃ p, WF p ∧ enc p = id := by
  rcases h with rfl | ⟨f, hf, rfl⟩ | ⟨t, ht, rfl⟩ | ⟨r, t, s, h2, h29, ht, hs, rfl⟩
  · exact ⟨world, trivial, rfl⟩
  · exact ⟨face f, hf, rfl⟩
  · refine ⟨deep (t / 5) (t % 5) [], ⟨by omega, Nat.mod_lt _ (by omega), by simp, by simp⟩, ?_⟩
    simp only [enc, value_nil, List.length_nil, Nat.zero_mul, Nat.add_zero, if_true]
    refine congrArg (· * 2 ^ 58 + 2 ^ 56) ?_
    omega
  · refine ⟨deep (t / 5) (t % 5) (digits (r - 1) s),
      ⟨by omega, Nat.mod_lt _ (by omega), digits_lt _ _ hs, by rewrite [length_digits]; omega⟩, ?_⟩
    simp only [enc]
    rewrite [length_digits, value_digits _ _ hs, if_neg (by omega)]
    have e1 : 58 - 2 * (r - 1) = 60 - 2 * r := by omega
    have e2 : 57 - 2 * (r - 1) = 59 - 2 * r := by omega
    have e3 : 5 * (t / 5) + t % 5 = t := by omega
    rewrite [e1, e2, e3]
    rfl

theorem layout_iff_path (id : Nat) : Layout id ↔ ∃ p, WF p ∧ enc p = id :=
  ⟨exists_path_of_layout id, fun ⟨_, hp, e⟩ => e ▸ layout_enc_path hp⟩

/-- the path of a canonical id is unique -/
theorem existsUnique_path_of_layout (id : Nat) (h : Layout id) :
    ∃ p, (WF p ∧ enc p = id) ∧ ∀ q, WF q ∧ enc q = id → q = p := by
  obtain ⟨p, hp, e⟩ := exists_path_of_layout id h
  exact ⟨p, ⟨hp, e⟩, fun q hq => enc_injective hq.1 hp (hq.2.trans e.symm)⟩

end Path
end A5
