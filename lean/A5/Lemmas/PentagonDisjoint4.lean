import A5.Lemmas.PentagonDisjoint3
/-! # Two cell pentagons of the same depth, part 4: every occurring configuration is far or certified (planar C03)

* `cfg_table` (kernel evaluation, 15 616 parent/digit cases × 3 orientation classes): the relative configuration of the
  two FINAL anchors (after the `flipIJ` / `invertJ` stages: `stageRel`, `ncfg`) of the children `a1`, `a2` of admissible
  parents, with the reflection bits of the two digits, is far (`|Δ'| > 2`) or one of the 588 certified configurations of
  part 2.
* `lists_cfg`: every two different digit lists of the same length give a far or certified configuration. -/
namespace A5.PD
open A5 A5.HilbertLocate A5.PG A5.CP

/-- one row `Δ.1 = i - 4` of the coverage table -/
def CfgRow (i : Nat) : Prop := ∀ j ∈ List.range 9, ∀ F1 ∈ flips4, ∀ F2 ∈ flips4,
    ∀ a1 ∈ List.range 4, ∀ a2 ∈ List.range 4, Par (mkT i j F1 F2) a1 a2 →
      ∀ c ∈ oriClasses, CfgOK (ncfg c.1 c.2 (childT (mkT i j F1 F2) a1 a2) a1 a2)
instance (i : Nat) : Decidable (CfgRow i) := by unfold CfgRow; infer_instance

-- nine separate kernel evaluations (smaller declarations keep the kernel's caches small: 72 s instead of 104 s)
theorem cfg_row_0 : CfgRow 0 := by decide +kernel
theorem cfg_row_1 : CfgRow 1 := by decide +kernel
theorem cfg_row_2 : CfgRow 2 := by decide +kernel
theorem cfg_row_3 : CfgRow 3 := by decide +kernel
theorem cfg_row_4 : CfgRow 4 := by decide +kernel
theorem cfg_row_5 : CfgRow 5 := by decide +kernel
theorem cfg_row_6 : CfgRow 6 := by decide +kernel
theorem cfg_row_7 : CfgRow 7 := by decide +kernel
theorem cfg_row_8 : CfgRow 8 := by decide +kernel

/-- **coverage**: every final configuration of the children of admissible parents is far or certified, in each of the
three orientation classes -/
theorem cfg_table : ∀ i ∈ List.range 9, CfgRow i := by
  intro i hi
  have h : i = 0 ∨ i = 1 ∨ i = 2 ∨ i = 3 ∨ i = 4 ∨ i = 5 ∨ i = 6 ∨ i = 7 ∨ i = 8 := by
    have := List.mem_range.1 hi; omega
  rcases h with rfl | rfl | rfl | rfl | rfl | rfl | rfl | rfl | rfl
  · exact cfg_row_0
  · exact cfg_row_1
  · exact cfg_row_2
  · exact cfg_row_3
  · exact cfg_row_4
  · exact cfg_row_5
  · exact cfg_row_6
  · exact cfg_row_7
  · exact cfg_row_8

theorem cfg_step (inv fl : Bool) (hc : (inv, fl) ∈ oriClasses) (t : Tri) (a1 a2 : Nat) (h1 : t.2.1 ∈ flips4)
    (h2 : t.2.2 ∈ flips4) (ha1 : a1 < 4) (ha2 : a2 < 4) (hp : Par t a1 a2) :
    CfgOK (ncfg inv fl (childT t a1 a2) a1 a2) := by
  obtain ⟨e, b1, b2⟩ := mkT_eq t (par_hex hp)
  have := cfg_table _ (List.mem_range.2 b1) _ (List.mem_range.2 b2) _ h1 _ h2 a1 (List.mem_range.2 ha1)
    a2 (List.mem_range.2 ha2)
  rewrite [e] at this
  exact this hp _ hc

/-- **every two different digit lists of the same length** give, in each orientation class, final anchors whose
relative configuration is far or certified -/
theorem lists_cfg (inv fl : Bool) (hc : (inv, fl) ∈ oriClasses) (n : Nat) (l1 l2 : List Nat) (e1 : l1.length = n)
    (e2 : l2.length = n) (d1 : ∀ x ∈ l1, x < 4) (d2 : ∀ x ∈ l2, x < 4) (hne : l1 ≠ l2) :
    CfgOK (anchorCfg (stageAnchor n inv fl (listAnchorK l1)) (stageAnchor n inv fl (listAnchorK l2))) ∧
      (stageAnchor n inv fl (listAnchorK l1)).flips ∈ flips4 ∧ (stageAnchor n inv fl (listAnchorK l2)).flips ∈ flips4 := by
  cases l1 with
  | nil =>
    cases l2 with
    | nil => exact absurd rfl hne
    | cons a2 m2 => subst e1; cases e2
  | cons a1 m1 =>
    cases l2 with
    | nil => subst e2; cases e1
    | cons a2 m2 =>
      have hm1 : ∀ x ∈ m1, x < 4 := fun x hx => d1 x (List.mem_cons_of_mem _ hx)
      have hm2 : ∀ x ∈ m2, x < 4 := fun x hx => d2 x (List.mem_cons_of_mem _ hx)
      have ha1 := d1 a1 (List.mem_cons_self ..)
      have ha2 := d2 a2 (List.mem_cons_self ..)
      obtain ⟨f1, f2⟩ := relT_flips m1 m2 hm1 hm2
      have hst := parent_status_of m1 m2 a1 a2 hne
        (rel_inv m1.length m1 m2 rfl (by simp only [List.length_cons] at e1 e2; omega) hm1 hm2)
      obtain ⟨g1, g2⟩ := childT_flips _ a1 a2 f1 f2 ha1 ha2
      refine ⟨?_, ?_, ?_⟩
      · rewrite [anchorCfg_stage, relT_cons]
        rcases hst with h | h
        · exact Or.inl (far_cfg inv fl _ g1 g2 (far_step _ a1 a2 f1 f2 ha1 ha2 h))
        · exact cfg_step inv fl hc _ a1 a2 f1 f2 ha1 ha2 h
      · rewrite [stageAnchor_flips]
        have := relT_flips (a1 :: m1) (a2 :: m2) d1 d2
        have h := this.1
        change (listAnchor (a1 :: m1)).2 ∈ flips4 at h
        show stageFlips inv (listAnchor (a1 :: m1)).2 ∈ flips4
        generalize (listAnchor (a1 :: m1)).2 = F at h
        revert F; cases inv <;> decide
      · rewrite [stageAnchor_flips]
        have := relT_flips (a1 :: m1) (a2 :: m2) d1 d2
        have h := this.2
        change (listAnchor (a2 :: m2)).2 ∈ flips4 at h
        show stageFlips inv (listAnchor (a2 :: m2)).2 ∈ flips4
        generalize (listAnchor (a2 :: m2)).2 = F at h
        revert F; cases inv <;> decide

end A5.PD
