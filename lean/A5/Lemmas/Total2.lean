import A5.Lemmas.Total1
/-! Totality, part 2 (core-only): `cellToParent` and `cellToChildren` on every id and every integer
target resolution: exact outcome by case, no panic, results canonical of the requested resolution. -/
namespace A5

theorem maxRes_eq : Gen.MAX_RESOLUTION = 30 := rfl
theorem firstHilbert_eq : Gen.FIRST_HILBERT_RESOLUTION = 2 := rfl
theorem maxChildDiff_eq : Gen.MAX_CHILD_DIFF = 20 := rfl

/-! ### valid records -/

theorem Cell.Valid.origin_lt {c : Cell} (h : c.Valid) : c.origin < 12 := by
  rcases h with ⟨_, h, _, _⟩ | ⟨_, h, _, _⟩ | ⟨_, h, _, _⟩ | ⟨_, _, h, _, _⟩ <;> omega

theorem Cell.Valid.segment_lt {c : Cell} (h : c.Valid) : c.segment < 5 := by
  rcases h with ⟨_, _, h, _⟩ | ⟨_, _, h, _⟩ | ⟨_, _, h, _⟩ | ⟨_, _, _, h, _⟩ <;> omega

theorem Cell.Valid.res_range {c : Cell} (h : c.Valid) : -1 ≤ c.res ∧ c.res ≤ 29 := by
  rcases h with ⟨h, _, _, _⟩ | ⟨h, _, _, _⟩ | ⟨h, _, _, _⟩ | ⟨h, h', _, _, _⟩ <;> omega

theorem Cell.Valid.s_lt {c : Cell} (h : c.Valid) : c.s < 4 ^ (c.res - 1).toNat := by
  rcases h with ⟨_, _, _, h⟩ | ⟨_, _, _, h⟩ | ⟨_, _, _, h⟩ | ⟨_, _, _, _, h⟩
  · rewrite [h]; exact Nat.pow_pos (by omega)
  · rewrite [h]; exact Nat.pow_pos (by omega)
  · rewrite [h]; exact Nat.pow_pos (by omega)
  · exact h

/-- the record the decoder returns carries the resolution `get_resolution` reads -/
theorem deserialize_res (id : Nat) (c : Cell) (h : deserialize id = .ok c) : c.res = getResolution id := by
  have hrange := getResolution_range id
  by_cases hm1 : getResolution id = -1
  · rewrite [deserialize_world id hm1] at h
    cases Outcome.ok.inj h; exact hm1.symm
  by_cases h0 : getResolution id = 0
  · rewrite [deserialize_res0 id h0] at h
    split at h
    · cases h
    · cases Outcome.ok.inj h; exact h0.symm
  by_cases h1 : getResolution id = 1
  · rewrite [deserialize_res1 id h1] at h
    split at h
    · cases h
    · cases Outcome.ok.inj h; exact h1.symm
  · rewrite [deserialize_hilbert id _ (by omega) (by omega) rfl] at h
    split at h
    · cases h
    · cases Outcome.ok.inj h; rfl

/-- a decoder result is `ok` or `err badOrigin` -/
theorem deserialize_cases (id : Nat) : (∃ c, deserialize id = .ok c) ∨ deserialize id = .err .badOrigin := by
  have hrange := getResolution_range id
  by_cases hm1 : getResolution id = -1
  · exact Or.inl ⟨_, deserialize_world id hm1⟩
  by_cases h0 : getResolution id = 0
  · rewrite [deserialize_res0 id h0]; split
    · exact Or.inr rfl
    · exact Or.inl ⟨_, rfl⟩
  by_cases h1 : getResolution id = 1
  · rewrite [deserialize_res1 id h1]; split
    · exact Or.inr rfl
    · exact Or.inl ⟨_, rfl⟩
  · rewrite [deserialize_hilbert id _ (by omega) (by omega) rfl]; split
    · exact Or.inr rfl
    · exact Or.inl ⟨_, rfl⟩

theorem getResolution_zero : getResolution 0 = -1 := by
  rewrite [getResolution_eq]; exact resFrom_zero 30

theorem layout_zero : Layout 0 := Or.inl rfl

/-- the encoder on any record with in-range resolution, a face origin, a quintant segment and a curve
index that fits: a canonical id of that resolution -/
theorem serialize_layout (o seg s : Nat) (r : Int) (ho : o < 12) (hseg : seg < 5) (h0 : 0 ≤ r) (h29 : r ≤ 29)
    (hs : s < 4 ^ (r - 1).toNat) :
    ∃ x, serialize ⟨o, seg, s, r⟩ = .ok x ∧ Layout x ∧ getResolution x = r := by
  by_cases hr0 : r = 0
  · subst hr0
    have hv : (⟨o, 0, 0, 0⟩ : Cell).Valid := Or.inr (Or.inl ⟨rfl, ho, rfl, rfl⟩)
    refine ⟨encNat ⟨o, 0, 0, 0⟩, ?_, layout_enc _ hv, getResolution_enc _ hv⟩
    rewrite [serialize_res0' o seg s ho (by omega), encNat_res0]; rfl
  by_cases hr1 : r = 1
  · subst hr1
    have hv : (⟨o, seg, 0, 1⟩ : Cell).Valid := Or.inr (Or.inr (Or.inl ⟨rfl, ho, hseg, rfl⟩))
    refine ⟨encNat ⟨o, seg, 0, 1⟩, ?_, layout_enc _ hv, getResolution_enc _ hv⟩
    rewrite [serialize_res1' o seg s ho (by omega), encNat_res1]; rfl
  · have hv : (⟨o, seg, s, r⟩ : Cell).Valid := Or.inr (Or.inr (Or.inr ⟨by show 2 ≤ r; omega, h29, ho, hseg, hs⟩))
    exact ⟨encNat ⟨o, seg, s, r⟩, serialize_valid _ hv, layout_enc _ hv, getResolution_enc _ hv⟩

/-! ### `cellToParent` -/

theorem cellToParent_err (id : Nat) (e : ErrKind) (r : Option Int) (hd : deserialize id = .err e) :
    cellToParent id r = .err e := by
  unfold cellToParent; rewrite [hd]; simp only [Outcome.bind_err]

/-- the default target is "one level up" -/
theorem cellToParent_none (id : Nat) (c : Cell) (hd : deserialize id = .ok c) :
    cellToParent id none = cellToParent id (some (c.res - 1)) := by
  have hr := (deserialize_ok_valid' id c hd).res_range
  unfold cellToParent; rewrite [hd]; simp only [Outcome.bind_ok]
  have : i32InRange (c.res - 1) = true := by simp only [i32InRange, decide_eq_true_eq]; omega
  simp only [i32Sub, this, if_true, Outcome.bind_ok]

theorem cellToParent_world (id : Nat) (c : Cell) (hd : deserialize id = .ok c) :
    cellToParent id (some (-1)) = .ok 0 := by
  unfold cellToParent; rewrite [hd]; simp only [Outcome.bind_ok, if_true, Gen.WORLD_CELL]

/-- targets below -1 are rejected -/
theorem cellToParent_negative (id : Nat) (c : Cell) (r : Int) (hd : deserialize id = .ok c) (hr : r < -1) :
    cellToParent id (some r) = .err .negative := by
  unfold cellToParent; rewrite [hd]; simp only [Outcome.bind_ok]
  rewrite [if_neg (by omega), if_pos (by omega)]; rfl

/-- targets finer than the cell are rejected -/
theorem cellToParent_finer (id : Nat) (c : Cell) (r : Int) (hd : deserialize id = .ok c) (h0 : 0 ≤ r)
    (hr : c.res < r) : cellToParent id (some r) = .err .targetFiner := by
  unfold cellToParent; rewrite [hd]; simp only [Outcome.bind_ok]
  rewrite [if_neg (by omega), if_neg (by omega), if_pos (by omega)]; rfl

theorem cellToParent_self (id : Nat) (c : Cell) (hd : deserialize id = .ok c) (h0 : 0 ≤ c.res) :
    cellToParent id (some c.res) = .ok (encNat c) := by
  unfold cellToParent; rewrite [hd]; simp only [Outcome.bind_ok]
  rewrite [if_neg (by omega), if_neg (by omega), if_neg (by omega), if_pos trivial]
  exact serialize_valid c (deserialize_ok_valid' id c hd)

theorem pow4_eq (d : Nat) : 2 ^ (2 * d) = 4 ^ d := by
  rewrite [Nat.pow_mul]; rfl

/-- every target in `0 ..= res` yields a canonical id of exactly that resolution -/
theorem cellToParent_ok (id : Nat) (c : Cell) (r : Int) (hd : deserialize id = .ok c) (h0 : 0 ≤ r)
    (hr : r ≤ c.res) : ∃ x, cellToParent id (some r) = .ok x ∧ Layout x ∧ getResolution x = r := by
  have hv := deserialize_ok_valid' id c hd
  by_cases he : r = c.res
  · subst he
    exact ⟨_, cellToParent_self id c hd h0, layout_enc c hv, getResolution_enc c hv⟩
  have hrr := hv.res_range
  unfold cellToParent; rewrite [hd]; simp only [Outcome.bind_ok]
  rewrite [if_neg (by omega), if_neg (by omega), if_neg (by omega), if_neg he,
    u64Shr_ok _ _ (by omega)]
  simp only [Outcome.bind_ok]
  refine serialize_layout c.origin c.segment _ r hv.origin_lt hv.segment_lt h0 (by omega) ?_
  -- the shifted curve index fits
  have hs := hv.s_lt
  obtain ⟨d, hd'⟩ : ∃ d : Nat, c.res - r = (d : Int) := ⟨(c.res - r).toNat, by omega⟩
  have e1 : (c.res - 1).toNat = (r - 1).toNat + d ∨ (r = 0) := by omega
  rewrite [hd', Int.toNat_natCast, pow4_eq]
  rcases e1 with e1 | e1
  · rewrite [e1, Nat.pow_add] at hs
    exact Nat.div_lt_of_lt_mul (by rewrite [Nat.mul_comm]; exact hs)
  · subst e1
    have e2 : (c.res - 1).toNat + 1 = d := by omega
    refine Nat.div_lt_of_lt_mul ?_
    have : 4 ^ (c.res - 1).toNat ≤ 4 ^ d := Nat.pow_le_pow_right (by omega) (by omega)
    simp only [Int.reduceSub, Int.reduceToNat, Nat.pow_zero, Nat.mul_one]
    omega

/-! ### `cellToChildren` -/

theorem cellToChildren_err (id : Nat) (e : ErrKind) (r : Option Int) (hd : deserialize id = .err e) :
    cellToChildren id r = .err e := by
  unfold cellToChildren; rewrite [hd]; simp only [Outcome.bind_err]

theorem cellToChildren_none (id : Nat) (c : Cell) (hd : deserialize id = .ok c) :
    cellToChildren id none = cellToChildren id (some (c.res + 1)) := by
  have hr := (deserialize_ok_valid' id c hd).res_range
  unfold cellToChildren; rewrite [hd]; simp only [Outcome.bind_ok]
  have : i32InRange (c.res + 1) = true := by simp only [i32InRange, decide_eq_true_eq]; omega
  simp only [i32Add, this, if_true, Outcome.bind_ok]

theorem cellToChildren_coarser (id : Nat) (c : Cell) (r : Int) (hd : deserialize id = .ok c) (hr : r < c.res) :
    cellToChildren id (some r) = .err .targetCoarser := by
  unfold cellToChildren; rewrite [hd]; simp only [Outcome.bind_ok]
  rewrite [if_pos hr]; rfl

theorem cellToChildren_exceeds (id : Nat) (c : Cell) (r : Int) (hd : deserialize id = .ok c) (hr : 30 < r) :
    cellToChildren id (some r) = .err .exceedsMax := by
  have hrr := (deserialize_ok_valid' id c hd).res_range
  unfold cellToChildren; rewrite [hd]; simp only [Outcome.bind_ok, Gen.MAX_RESOLUTION]
  rewrite [if_neg (by omega), if_pos hr]; rfl

theorem cellToChildren_self (id : Nat) (c : Cell) (hd : deserialize id = .ok c) :
    cellToChildren id (some c.res) = .ok [encNat c] := by
  have hrr := (deserialize_ok_valid' id c hd).res_range
  unfold cellToChildren; rewrite [hd]; simp only [Outcome.bind_ok, Gen.MAX_RESOLUTION]
  rewrite [if_neg (by omega), if_neg (by omega), if_pos trivial,
    serialize_valid c (deserialize_ok_valid' id c hd)]
  simp only [Outcome.bind_ok]

theorem cellToChildren_diff (id : Nat) (c : Cell) (r : Int) (hd : deserialize id = .ok c) (hlt : c.res < r)
    (h30 : r ≤ 30) (hdiff : 20 < r - max c.res 1) : cellToChildren id (some r) = .err .diffTooLarge := by
  unfold cellToChildren; rewrite [hd, maxRes_eq, firstHilbert_eq, maxChildDiff_eq]
  simp only [Outcome.bind_ok, Int.reduceSub]
  rewrite [if_neg (show ¬ r < c.res by omega), if_neg (show ¬ r > 30 by omega),
    if_neg (show ¬ r = c.res by omega), if_pos hdiff]; rfl

theorem mapOutcome_all_ok {α β} (P : β → Prop) (f : α → Outcome β) (l : List α)
    (h : ∀ a ∈ l, ∃ b, f a = .ok b ∧ P b) : ∃ bs, mapOutcome f l = .ok bs ∧ ∀ b ∈ bs, P b := by
  induction l with
  | nil => exact ⟨[], rfl, fun b hb => by cases hb⟩
  | cons a as ih =>
    obtain ⟨b, hb, hP⟩ := h a List.mem_cons_self
    obtain ⟨bs, hbs, hPs⟩ := ih (fun x hx => h x (List.mem_cons_of_mem _ hx))
    refine ⟨b :: bs, ?_, ?_⟩
    · rewrite [mapOutcome_cons, hb]; simp only [Outcome.bind_ok]; rewrite [hbs]; simp only [Outcome.bind_ok]
    · intro y hy
      rcases List.mem_cons.mp hy with rfl | hy
      · exact hP
      · exact hPs y hy

theorem flatMapOutcome_all_ok {α β} (P : β → Prop) (f : α → Outcome (List β)) (l : List α)
    (h : ∀ a ∈ l, ∃ bs, f a = .ok bs ∧ ∀ b ∈ bs, P b) :
    ∃ ys, flatMapOutcome f l = .ok ys ∧ ∀ y ∈ ys, P y := by
  induction l with
  | nil => exact ⟨[], rfl, fun b hb => by cases hb⟩
  | cons a as ih =>
    obtain ⟨b, hb, hP⟩ := h a List.mem_cons_self
    obtain ⟨bs, hbs, hPs⟩ := ih (fun x hx => h x (List.mem_cons_of_mem _ hx))
    refine ⟨b ++ bs, ?_, ?_⟩
    · rewrite [flatMapOutcome_cons, hb]; simp only [Outcome.bind_ok]; rewrite [hbs]; simp only [Outcome.bind_ok]
    · intro y hy
      rcases List.mem_append.mp hy with hy | hy
      · exact hP y hy
      · exact hPs y hy

theorem mapOutcome_all_err {α β} (f : α → Outcome β) (l : List α) (e : ErrKind) (hne : l ≠ [])
    (h : ∀ a ∈ l, f a = .err e) : mapOutcome f l = .err e := by
  cases l with
  | nil => exact absurd rfl hne
  | cons a as => rewrite [mapOutcome_cons, h a List.mem_cons_self]; simp only [Outcome.bind_err]

theorem flatMapOutcome_all_err {α β} (f : α → Outcome (List β)) (l : List α) (e : ErrKind) (hne : l ≠ [])
    (h : ∀ a ∈ l, f a = .err e) : flatMapOutcome f l = .err e := by
  cases l with
  | nil => exact absurd rfl hne
  | cons a as => rewrite [flatMapOutcome_cons, h a List.mem_cons_self]; simp only [Outcome.bind_err]

/-- the shifted curve index plus any of the `4^d` offsets fits the child's `2·(r-1)` bits -/
theorem children_arith (c : Cell) (hv : c.Valid) (r : Int) (hlt : c.res < r) :
    c.s * 2 ^ (2 * (r - max c.res 1).toNat) + 4 ^ (r - max c.res 1).toNat ≤ 4 ^ (r - 1).toNat := by
  have hs := hv.s_lt
  have hrr := hv.res_range
  rewrite [pow4_eq]
  by_cases hr0 : r = 0
  · subst hr0
    have e1 : (0 - max c.res 1).toNat = 0 := by omega
    have e2 : (c.res - 1).toNat = 0 := by omega
    rewrite [e2] at hs
    rewrite [e1]
    simp only [Nat.pow_zero, Int.reduceSub, Int.reduceToNat] at hs ⊢
    omega
  · have e : (r - 1).toNat = (c.res - 1).toNat + (r - max c.res 1).toNat := by omega
    rewrite [e, Nat.pow_add]
    have := Nat.mul_le_mul_right (4 ^ (r - max c.res 1).toNat) (show c.s + 1 ≤ 4 ^ (c.res - 1).toNat from hs)
    rewrite [Nat.add_mul, Nat.one_mul] at this
    exact this

theorem four_pow_le_29 (r : Int) (h : r ≤ 30) : 4 ^ (r - 1).toNat ≤ 2 ^ 58 := by
  have : 4 ^ (r - 1).toNat ≤ 4 ^ 29 := Nat.pow_le_pow_right (by omega) (by omega)
  simp only [Nat.reducePow] at this ⊢
  exact this

/-- the state of `cell_to_children` after the guards, for `res < r ≤ 30` and at most 20 levels -/
theorem cellToChildren_unfold (id : Nat) (c : Cell) (r : Int) (hd : deserialize id = .ok c) (hlt : c.res < r)
    (h30 : r ≤ 30) (hdiff : r - max c.res 1 ≤ 20) :
    cellToChildren id (some r) =
      flatMapOutcome (fun o =>
        flatMapOutcome (fun seg =>
          mapOutcome (fun i =>
            u64Add (c.s * 2 ^ (2 * (r - max c.res 1).toNat)) i >>= fun ns => serialize ⟨o, seg, ns, r⟩)
            (List.range (4 ^ (r - max c.res 1).toNat)))
          (if (c.res = -1 ∧ r > 0) ∨ c.res = 0 then Gen.NEW_SEGMENTS else [c.segment]))
        (if c.res = -1 then List.range Gen.NUM_ORIGINS_WORLD else [c.origin]) := by
  have hv := deserialize_ok_valid' id c hd
  have ha := children_arith c hv r hlt
  have hb := four_pow_le_29 r h30
  unfold cellToChildren; rewrite [hd, maxRes_eq, firstHilbert_eq, maxChildDiff_eq]
  simp only [Outcome.bind_ok, Int.reduceSub]
  rewrite [if_neg (show ¬ r < c.res by omega), if_neg (show ¬ r > 30 by omega),
    if_neg (show ¬ r = c.res by omega), if_neg (show ¬ r - max c.res 1 > 20 by omega)]
  have hsh : (if r - max c.res 1 > 0 then u64Shl c.s (2 * (r - max c.res 1).toNat) else Outcome.ok c.s)
      = .ok (c.s * 2 ^ (2 * (r - max c.res 1).toNat)) := by
    by_cases hD : r - max c.res 1 > 0
    · rewrite [if_pos hD]
      have hp := Nat.pow_pos (n := (r - max c.res 1).toNat) (show 0 < 4 by omega)
      exact u64Shl_ok _ _ (by omega) (by omega)
    · rewrite [if_neg hD]
      have e : (r - max c.res 1).toNat = 0 := by omega
      rewrite [e]
      simp only [Nat.mul_zero, Nat.pow_zero, Nat.mul_one]
  have hcount : (if r - max c.res 1 ≤ 0 then 1 else 4 ^ (r - max c.res 1).toNat) = 4 ^ (r - max c.res 1).toNat := by
    by_cases hD : r - max c.res 1 ≤ 0
    · rewrite [if_pos hD]
      have e : (r - max c.res 1).toNat = 0 := by omega
      rewrite [e]; rfl
    · rewrite [if_neg hD]; rfl
  rewrite [hsh, hcount]
  simp only [Outcome.bind_ok]

theorem children_origin_lt (c : Cell) (hv : c.Valid) (o : Nat)
    (ho : o ∈ (if c.res = -1 then List.range Gen.NUM_ORIGINS_WORLD else [c.origin])) : o < 12 := by
  split at ho
  · exact List.mem_range.mp ho
  · rewrite [List.mem_singleton] at ho; subst ho; exact hv.origin_lt

theorem children_segment_lt (c : Cell) (hv : c.Valid) (r : Int) (seg : Nat)
    (hs : seg ∈ (if (c.res = -1 ∧ r > 0) ∨ c.res = 0 then Gen.NEW_SEGMENTS else [c.segment])) : seg < 5 := by
  split at hs
  · simp only [Gen.NEW_SEGMENTS, List.mem_cons, List.mem_nil_iff, or_false] at hs; omega
  · rewrite [List.mem_singleton] at hs; subst hs; exact hv.segment_lt

/-- **children**: for `res < r ≤ 29`, at most 20 levels down, the result is `ok` and every element is a
canonical id of resolution exactly `r` -/
theorem cellToChildren_ok (id : Nat) (c : Cell) (r : Int) (hd : deserialize id = .ok c) (hlt : c.res < r)
    (h29 : r ≤ 29) (hdiff : r - max c.res 1 ≤ 20) :
    ∃ xs, cellToChildren id (some r) = .ok xs ∧ ∀ x ∈ xs, Layout x ∧ getResolution x = r := by
  have hv := deserialize_ok_valid' id c hd
  have hrr := hv.res_range
  have ha := children_arith c hv r hlt
  have hb := four_pow_le_29 r (by omega)
  rewrite [cellToChildren_unfold id c r hd hlt (by omega) hdiff]
  refine flatMapOutcome_all_ok _ _ _ (fun o ho => ?_)
  have ho' := children_origin_lt c hv o ho
  refine flatMapOutcome_all_ok _ _ _ (fun seg hseg => ?_)
  have hseg' := children_segment_lt c hv r seg hseg
  refine mapOutcome_all_ok _ _ _ (fun i hi => ?_)
  have hi' := List.mem_range.mp hi
  rewrite [u64Add_ok _ _ (by omega)]; simp only [Outcome.bind_ok]
  exact serialize_layout o seg _ r ho' hseg' (by omega) h29 (by omega)

/-- **r = 30** is let through by the `> MAX_RESOLUTION` guard but rejected by the encoder (after the
20-level guard): an error, not a panic and not a wrapped value -/
theorem cellToChildren_res30 (id : Nat) (c : Cell) (hd : deserialize id = .ok c) (h10 : 10 ≤ c.res) :
    cellToChildren id (some 30) = .err .resTooLarge := by
  have hv := deserialize_ok_valid' id c hd
  have hrr := hv.res_range
  have ha := children_arith c hv 30 (by omega)
  have hb := four_pow_le_29 30 (by omega)
  rewrite [cellToChildren_unfold id c 30 hd (by omega) (by omega) (by omega)]
  refine flatMapOutcome_all_err _ _ _ ?_ (fun o _ => ?_)
  · split
    · exact List.cons_ne_nil _ _
    · exact List.cons_ne_nil _ _
  refine flatMapOutcome_all_err _ _ _ ?_ (fun seg _ => ?_)
  · split
    · exact List.cons_ne_nil _ _
    · exact List.cons_ne_nil _ _
  have hp := Nat.pow_pos (n := ((30 : Int) - max c.res 1).toNat) (show 0 < 4 by omega)
  refine mapOutcome_all_err _ _ _ ?_ (fun i hi => ?_)
  · intro h; have := List.range_eq_nil.mp h; omega
  have hi' := List.mem_range.mp hi
  rewrite [u64Add_ok _ _ (by omega)]; simp only [Outcome.bind_ok]
  exact serialize_res_too_large _ (by show (30 : Int) ≥ 30; omega)

/-! ### summary: totality and validity of the two hierarchy calls -/

theorem cellToParent_some_never_panics (id : Nat) (r : Int) : (cellToParent id (some r)).isPanic = false := by
  rcases deserialize_cases id with ⟨c, hd⟩ | hd
  · by_cases h1 : r = -1
    · subst h1; rewrite [cellToParent_world id c hd]; rfl
    by_cases h2 : r < -1
    · rewrite [cellToParent_negative id c r hd h2]; rfl
    by_cases h3 : c.res < r
    · rewrite [cellToParent_finer id c r hd (by omega) h3]; rfl
    · obtain ⟨x, hx, _⟩ := cellToParent_ok id c r hd (by omega) (by omega)
      rewrite [hx]; rfl
  · rewrite [cellToParent_err id _ _ hd]; rfl

theorem cellToParent_never_panics (id : Nat) (r : Option Int) : (cellToParent id r).isPanic = false := by
  cases r with
  | some r => exact cellToParent_some_never_panics id r
  | none =>
    rcases deserialize_cases id with ⟨c, hd⟩ | hd
    · rewrite [cellToParent_none id c hd]; exact cellToParent_some_never_panics id _
    · rewrite [cellToParent_err id _ _ hd]; rfl

/-- an `ok` parent is a canonical id of exactly the requested resolution (`0` for `-1`) -/
theorem cellToParent_some_valid (id : Nat) (r : Int) (x : Nat) (h : cellToParent id (some r) = .ok x) :
    Layout x ∧ getResolution x = r ∧ -1 ≤ r ∧ r ≤ getResolution id := by
  rcases deserialize_cases id with ⟨c, hd⟩ | hd
  · have hres := deserialize_res id c hd
    have hrr := (deserialize_ok_valid' id c hd).res_range
    by_cases h1 : r = -1
    · subst h1; rewrite [cellToParent_world id c hd] at h
      cases Outcome.ok.inj h
      exact ⟨layout_zero, getResolution_zero, by omega, by omega⟩
    by_cases h2 : r < -1
    · rewrite [cellToParent_negative id c r hd h2] at h; cases h
    by_cases h3 : c.res < r
    · rewrite [cellToParent_finer id c r hd (by omega) h3] at h; cases h
    · obtain ⟨y, hy, hl, hg⟩ := cellToParent_ok id c r hd (by omega) (by omega)
      rewrite [hy] at h; cases Outcome.ok.inj h
      exact ⟨hl, hg, by omega, by omega⟩
  · rewrite [cellToParent_err id _ _ hd] at h; cases h

theorem cellToParent_none_valid (id : Nat) (x : Nat) (h : cellToParent id none = .ok x) :
    Layout x ∧ getResolution x = getResolution id - 1 ∧ 0 ≤ getResolution id := by
  rcases deserialize_cases id with ⟨c, hd⟩ | hd
  · rewrite [cellToParent_none id c hd] at h
    have hres := deserialize_res id c hd
    obtain ⟨a, b, c', _⟩ := cellToParent_some_valid id _ x h
    exact ⟨a, by omega, by omega⟩
  · rewrite [cellToParent_err id _ _ hd] at h; cases h

theorem cellToChildren_some_never_panics (id : Nat) (r : Int) :
    (cellToChildren id (some r)).isPanic = false := by
  rcases deserialize_cases id with ⟨c, hd⟩ | hd
  · have hrr := (deserialize_ok_valid' id c hd).res_range
    by_cases h1 : r < c.res
    · rewrite [cellToChildren_coarser id c r hd h1]; rfl
    by_cases h2 : 30 < r
    · rewrite [cellToChildren_exceeds id c r hd h2]; rfl
    by_cases h3 : r = c.res
    · subst h3; rewrite [cellToChildren_self id c hd]; rfl
    by_cases h4 : 20 < r - max c.res 1
    · rewrite [cellToChildren_diff id c r hd (by omega) (by omega) h4]; rfl
    by_cases h5 : r = 30
    · subst h5; rewrite [cellToChildren_res30 id c hd (by omega)]; rfl
    · obtain ⟨xs, hx, _⟩ := cellToChildren_ok id c r hd (by omega) (by omega) (by omega)
      rewrite [hx]; rfl
  · rewrite [cellToChildren_err id _ _ hd]; rfl

theorem cellToChildren_never_panics (id : Nat) (r : Option Int) : (cellToChildren id r).isPanic = false := by
  cases r with
  | some r => exact cellToChildren_some_never_panics id r
  | none =>
    rcases deserialize_cases id with ⟨c, hd⟩ | hd
    · rewrite [cellToChildren_none id c hd]; exact cellToChildren_some_never_panics id _
    · rewrite [cellToChildren_err id _ _ hd]; rfl

/-- every element of an `ok` children list is a canonical id of exactly the requested resolution,
which lies in `res ..= 29` -/
theorem cellToChildren_some_valid (id : Nat) (r : Int) (xs : List Nat) (h : cellToChildren id (some r) = .ok xs) :
    (∀ x ∈ xs, Layout x ∧ getResolution x = r) ∧ getResolution id ≤ r ∧ r ≤ 29 := by
  rcases deserialize_cases id with ⟨c, hd⟩ | hd
  · have hv := deserialize_ok_valid' id c hd
    have hrr := hv.res_range
    have hres := deserialize_res id c hd
    by_cases h1 : r < c.res
    · rewrite [cellToChildren_coarser id c r hd h1] at h; cases h
    by_cases h2 : 30 < r
    · rewrite [cellToChildren_exceeds id c r hd h2] at h; cases h
    by_cases h3 : r = c.res
    · subst h3; rewrite [cellToChildren_self id c hd] at h
      cases Outcome.ok.inj h
      refine ⟨fun x hx => ?_, by omega, by omega⟩
      rewrite [List.mem_singleton] at hx; subst hx
      exact ⟨layout_enc c hv, getResolution_enc c hv⟩
    by_cases h4 : 20 < r - max c.res 1
    · rewrite [cellToChildren_diff id c r hd (by omega) (by omega) h4] at h; cases h
    by_cases h5 : r = 30
    · subst h5; rewrite [cellToChildren_res30 id c hd (by omega)] at h; cases h
    · obtain ⟨ys, hy, hP⟩ := cellToChildren_ok id c r hd (by omega) (by omega) (by omega)
      rewrite [hy] at h; cases Outcome.ok.inj h
      exact ⟨hP, by omega, by omega⟩
  · rewrite [cellToChildren_err id _ _ hd] at h; cases h

theorem cellToChildren_none_valid (id : Nat) (xs : List Nat) (h : cellToChildren id none = .ok xs) :
    (∀ x ∈ xs, Layout x ∧ getResolution x = getResolution id + 1) ∧ getResolution id ≤ 28 := by
  rcases deserialize_cases id with ⟨c, hd⟩ | hd
  · rewrite [cellToChildren_none id c hd] at h
    have hres := deserialize_res id c hd
    obtain ⟨a, _, b⟩ := cellToChildren_some_valid id _ xs h
    rewrite [hres] at a
    exact ⟨a, by omega⟩
  · rewrite [cellToChildren_err id _ _ hd] at h; cases h

/-! ### aliasing: the hierarchy calls only look at the decoded record -/

theorem cellToParent_alias (id : Nat) (c : Cell) (r : Option Int) (hd : deserialize id = .ok c) :
    cellToParent id r = cellToParent (encNat c) r := by
  have hd' := deserialize_enc c (deserialize_ok_valid' id c hd)
  unfold cellToParent; rewrite [hd, hd']; rfl

theorem cellToChildren_alias (id : Nat) (c : Cell) (r : Option Int) (hd : deserialize id = .ok c) :
    cellToChildren id r = cellToChildren (encNat c) r := by
  have hd' := deserialize_enc c (deserialize_ok_valid' id c hd)
  unfold cellToChildren; rewrite [hd, hd']; rfl

theorem getResolution_alias (id : Nat) (c : Cell) (hd : deserialize id = .ok c) :
    getResolution (encNat c) = getResolution id := by
  rewrite [getResolution_enc c (deserialize_ok_valid' id c hd)]; exact deserialize_res id c hd

end A5
