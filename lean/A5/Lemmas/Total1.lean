import A5.Lemmas.Deserialize
import A5.Model.Compact
/-! Totality, part 1 (core-only): generic facts about `Outcome`, `mapOutcome`, `flatMapOutcome`;
`serialize` on *arbitrary* resolutions; `getNumChildren`. -/
namespace A5

/-! ### `Outcome` -/

theorem Outcome.isPanic_ok {α} (v : α) : (Outcome.ok v).isPanic = false := rfl
theorem Outcome.isPanic_err {α} (e : ErrKind) : (Outcome.err e : Outcome α).isPanic = false := rfl

/-- a bind does not panic if its first part does not and the continuation does not on its result -/
theorem Outcome.bind_noPanic {α β} (x : Outcome α) (f : α → Outcome β)
    (hx : x.isPanic = false) (hf : ∀ v, x = .ok v → (f v).isPanic = false) :
    (x >>= f).isPanic = false := by
  cases x with
  | ok v => simp only [Outcome.bind_ok]; exact hf v rfl
  | err e => simp only [Outcome.bind_err]; rfl
  | panic k => cases hx

/-- a bind that returns `ok` went through an `ok` -/
theorem Outcome.bind_eq_ok {α β} (x : Outcome α) (f : α → Outcome β) (b : β) (h : (x >>= f) = .ok b) :
    ∃ v, x = .ok v ∧ f v = .ok b := by
  cases x with
  | ok v => simp only [Outcome.bind_ok] at h; exact ⟨v, rfl, h⟩
  | err e => simp only [Outcome.bind_err] at h; cases h
  | panic k => simp only [Outcome.bind_panic] at h; cases h

/-! ### `mapOutcome` / `flatMapOutcome` -/

theorem mapOutcome_nil {α β} (f : α → Outcome β) : mapOutcome f [] = .ok [] := rfl
theorem mapOutcome_cons {α β} (f : α → Outcome β) (a : α) (as : List α) :
    mapOutcome f (a :: as) = (f a >>= fun b => mapOutcome f as >>= fun bs => .ok (b :: bs)) := rfl
theorem flatMapOutcome_nil {α β} (f : α → Outcome (List β)) : flatMapOutcome f [] = .ok [] := rfl
theorem flatMapOutcome_cons {α β} (f : α → Outcome (List β)) (a : α) (as : List α) :
    flatMapOutcome f (a :: as) = (f a >>= fun b => flatMapOutcome f as >>= fun bs => .ok (b ++ bs)) := rfl

theorem mapOutcome_noPanic {α β} (f : α → Outcome β) (l : List α)
    (h : ∀ a ∈ l, (f a).isPanic = false) : (mapOutcome f l).isPanic = false := by
  induction l with
  | nil => rfl
  | cons a as ih =>
    rewrite [mapOutcome_cons]
    refine Outcome.bind_noPanic _ _ (h a List.mem_cons_self) (fun b _ => ?_)
    refine Outcome.bind_noPanic _ _ (ih (fun x hx => h x (List.mem_cons_of_mem _ hx))) (fun bs _ => rfl)

theorem flatMapOutcome_noPanic {α β} (f : α → Outcome (List β)) (l : List α)
    (h : ∀ a ∈ l, (f a).isPanic = false) : (flatMapOutcome f l).isPanic = false := by
  induction l with
  | nil => rfl
  | cons a as ih =>
    rewrite [flatMapOutcome_cons]
    refine Outcome.bind_noPanic _ _ (h a List.mem_cons_self) (fun b _ => ?_)
    refine Outcome.bind_noPanic _ _ (ih (fun x hx => h x (List.mem_cons_of_mem _ hx))) (fun bs _ => rfl)

/-- every element of an `ok` result of `mapOutcome` is an `ok` image of an input element -/
theorem mapOutcome_ok_mem {α β} (f : α → Outcome β) : ∀ (l : List α) (ys : List β),
    mapOutcome f l = .ok ys → ∀ y ∈ ys, ∃ a ∈ l, f a = .ok y := by
  intro l
  induction l with
  | nil => intro ys h y hy; cases Outcome.ok.inj h; cases hy
  | cons a as ih =>
    intro ys h y hy
    rewrite [mapOutcome_cons] at h
    obtain ⟨b, hb, h⟩ := Outcome.bind_eq_ok _ _ _ h
    obtain ⟨bs, hbs, h⟩ := Outcome.bind_eq_ok _ _ _ h
    cases Outcome.ok.inj h
    rcases List.mem_cons.mp hy with rfl | hy
    · exact ⟨a, List.mem_cons_self, hb⟩
    · obtain ⟨a', ha', e⟩ := ih bs hbs y hy
      exact ⟨a', List.mem_cons_of_mem _ ha', e⟩

theorem mapOutcome_ok_length {α β} (f : α → Outcome β) : ∀ (l : List α) (ys : List β),
    mapOutcome f l = .ok ys → ys.length = l.length := by
  intro l
  induction l with
  | nil => intro ys h; cases Outcome.ok.inj h; rfl
  | cons a as ih =>
    intro ys h
    rewrite [mapOutcome_cons] at h
    obtain ⟨b, _, h⟩ := Outcome.bind_eq_ok _ _ _ h
    obtain ⟨bs, hbs, h⟩ := Outcome.bind_eq_ok _ _ _ h
    cases Outcome.ok.inj h
    simp only [List.length_cons, ih bs hbs]

theorem flatMapOutcome_ok_mem {α β} (f : α → Outcome (List β)) : ∀ (l : List α) (ys : List β),
    flatMapOutcome f l = .ok ys → ∀ y ∈ ys, ∃ a ∈ l, ∃ b, f a = .ok b ∧ y ∈ b := by
  intro l
  induction l with
  | nil => intro ys h y hy; cases Outcome.ok.inj h; cases hy
  | cons a as ih =>
    intro ys h y hy
    rewrite [flatMapOutcome_cons] at h
    obtain ⟨b, hb, h⟩ := Outcome.bind_eq_ok _ _ _ h
    obtain ⟨bs, hbs, h⟩ := Outcome.bind_eq_ok _ _ _ h
    cases Outcome.ok.inj h
    rcases List.mem_append.mp hy with hy | hy
    · exact ⟨a, List.mem_cons_self, b, hb, hy⟩
    · obtain ⟨a', ha', b', e, hy'⟩ := ih bs hbs y hy
      exact ⟨a', List.mem_cons_of_mem _ ha', b', e, hy'⟩

/-- if the function agrees on the two lists elementwise (here: same function, lists related by a map
with `f ∘ g = f`), the results agree; we only need the head version below -/
theorem mapOutcome_congr_head {α β} (f : α → Outcome β) (a a' : α) (l : List α) (h : f a = f a') :
    mapOutcome f (a :: l) = mapOutcome f (a' :: l) := by
  rewrite [mapOutcome_cons, mapOutcome_cons, h]; rfl

/-! ### `serialize` for an arbitrary resolution

No assumption on `s`, and the segment only has to satisfy `segment + 5 < 2^64` (the Rust field is a
`usize`; `segment + 5` is the only place it is used). -/

theorem serialize_res0' (o seg s : Nat) (ho : o < 12) (hseg : seg + 5 < 2 ^ 64) :
    serialize ⟨o, seg, s, 0⟩ = .ok (o * 2 ^ 58 + 2 ^ 57) := by
  have hf := firstQuintant_lt o ho
  simp only [serialize, Gen.MAX_RESOLUTION, Gen.FIRST_HILBERT_RESOLUTION, Gen.WORLD_CELL,
      Gen.HILBERT_START_BIT, numOrigins, Gen.ORIGIN_ORDER, List.length]
  simp only [Int.reduceToNat, Int.reduceAdd, Int.reduceSub, Int.reduceLT, Int.reduceEq, if_true, if_false,
      Nat.reduceAdd, Nat.reduceMul, Int.reduceNeg, ge_iff_le, Int.reduceLE]
  rewrite [if_neg (by omega), u64Add_ok _ _ (by omega)]; simp only [Outcome.bind_ok]
  rewrite [u32Sub_ok _ _ (by omega)]; simp only [Outcome.bind_ok]
  rewrite [u64Shl_ok _ _ (by omega) (by omega)]; simp only [Outcome.bind_ok]
  rewrite [u32Sub_ok _ _ (by omega)]; simp only [Outcome.bind_ok]
  rewrite [u64Shl_ok _ _ (by omega) (by omega)]; simp only [Outcome.bind_ok, Nat.reduceSub, Nat.one_mul]
  rewrite [or_marker _ _ (by omega)]
  rfl

theorem serialize_res1' (o seg s : Nat) (ho : o < 12) (hseg : seg + 5 < 2 ^ 64) :
    serialize ⟨o, seg, s, 1⟩ = .ok (rot o seg * 2 ^ 58 + 2 ^ 56) := by
  have hf := firstQuintant_lt o ho
  simp only [serialize, rot, Gen.MAX_RESOLUTION, Gen.FIRST_HILBERT_RESOLUTION, Gen.WORLD_CELL,
      Gen.HILBERT_START_BIT, numOrigins, Gen.ORIGIN_ORDER, List.length]
  simp only [Int.reduceToNat, Int.reduceAdd, Int.reduceSub, Int.reduceLT, Int.reduceEq, if_true, if_false,
      Nat.reduceAdd, Nat.reduceMul, Int.reduceNeg, ge_iff_le, Int.reduceLE]
  rewrite [if_neg (by omega), u64Add_ok _ _ (by omega)]; simp only [Outcome.bind_ok]
  rewrite [u32Sub_ok _ _ (by omega)]; simp only [Outcome.bind_ok]
  rewrite [u64Shl_ok _ _ (by omega) (by omega)]; simp only [Outcome.bind_ok]
  rewrite [u32Sub_ok _ _ (by omega)]; simp only [Outcome.bind_ok]
  rewrite [u64Shl_ok _ _ (by omega) (by omega)]; simp only [Outcome.bind_ok, Nat.reduceSub, Nat.one_mul]
  rewrite [or_marker _ _ (by omega)]
  rfl

/-- the encoder rejects a curve index that does not fit its `2·(r-1)` bits -/
theorem serialize_hilbert_tooLarge (o seg s : Nat) (r : Int) (hr2 : 2 ≤ r) (hr : r ≤ 29) (ho : o < 12)
    (hseg : seg + 5 < 2 ^ 64) (hS : s ≥ 4 ^ (r - 1).toNat) :
    serialize ⟨o, seg, s, r⟩ = .err .sTooLarge := by
  have hf := firstQuintant_lt o ho
  have hc : r = 2 ∨ r = 3 ∨ r = 4 ∨ r = 5 ∨ r = 6 ∨ r = 7 ∨ r = 8 ∨ r = 9 ∨ r = 10 ∨ r = 11 ∨ r = 12 ∨ r = 13 ∨ r = 14 ∨ r = 15 ∨ r = 16 ∨ r = 17 ∨ r = 18 ∨ r = 19 ∨ r = 20 ∨ r = 21 ∨ r = 22 ∨ r = 23 ∨ r = 24 ∨ r = 25 ∨ r = 26 ∨ r = 27 ∨ r = 28 ∨ r = 29 := by omega
  rcases hc with rfl|rfl|rfl|rfl|rfl|rfl|rfl|rfl|rfl|rfl|rfl|rfl|rfl|rfl|rfl|rfl|rfl|rfl|rfl|rfl|rfl|rfl|rfl|rfl|rfl|rfl|rfl|rfl
  all_goals
    simp only [serialize, Gen.MAX_RESOLUTION, Gen.FIRST_HILBERT_RESOLUTION, Gen.WORLD_CELL,
      Gen.HILBERT_START_BIT, numOrigins, Gen.ORIGIN_ORDER, List.length]
    simp only [Int.reduceToNat, Int.reduceAdd, Int.reduceSub, Int.reduceLT, Int.reduceEq, if_true, if_false,
      Nat.reduceAdd, Nat.reduceMul, Int.reduceNeg, ge_iff_le, Int.reduceLE] at hS ⊢
    simp only [Nat.reducePow] at hS
    rewrite [if_neg (by omega), u64Add_ok _ _ (by omega)]; simp only [Outcome.bind_ok]
    rewrite [u32Sub_ok _ _ (by omega)]; simp only [Outcome.bind_ok]
    rewrite [u64Shl_ok _ _ (by omega) (by omega)]; simp only [Outcome.bind_ok]
    rewrite [u64Shl_ok _ _ (by omega) (by omega)]; simp only [Outcome.bind_ok]
    rewrite [if_pos (by omega)]; simp only [Outcome.bind_err]

/-- `serialize_hilbert` with the segment only bounded as a `usize` -/
theorem serialize_hilbert_fits (o seg s : Nat) (r : Int) (hr2 : 2 ≤ r) (hr : r ≤ 29) (ho : o < 12)
    (hseg : seg + 5 < 2 ^ 64) (hS : s < 4 ^ (r - 1).toNat) :
    serialize ⟨o, seg, s, r⟩ = .ok (encNat ⟨o, seg, s, r⟩) := by
  have hf := firstQuintant_lt o ho
  have hc : r = 2 ∨ r = 3 ∨ r = 4 ∨ r = 5 ∨ r = 6 ∨ r = 7 ∨ r = 8 ∨ r = 9 ∨ r = 10 ∨ r = 11 ∨ r = 12 ∨ r = 13 ∨ r = 14 ∨ r = 15 ∨ r = 16 ∨ r = 17 ∨ r = 18 ∨ r = 19 ∨ r = 20 ∨ r = 21 ∨ r = 22 ∨ r = 23 ∨ r = 24 ∨ r = 25 ∨ r = 26 ∨ r = 27 ∨ r = 28 ∨ r = 29 := by omega
  rcases hc with rfl|rfl|rfl|rfl|rfl|rfl|rfl|rfl|rfl|rfl|rfl|rfl|rfl|rfl|rfl|rfl|rfl|rfl|rfl|rfl|rfl|rfl|rfl|rfl|rfl|rfl|rfl|rfl
  all_goals
    simp only [serialize, encNat, top6, markerPos, Gen.MAX_RESOLUTION, Gen.FIRST_HILBERT_RESOLUTION, Gen.WORLD_CELL,
      Gen.HILBERT_START_BIT, numOrigins, Gen.ORIGIN_ORDER, List.length]
    simp only [Int.reduceToNat, Int.reduceAdd, Int.reduceSub, Int.reduceLT, Int.reduceEq, if_true, if_false,
      Nat.reduceAdd, Nat.reduceMul, Nat.reduceSub, Int.reduceNeg, ge_iff_le, Int.reduceLE] at hS ⊢
    simp only [Nat.reducePow] at hS
    rewrite [if_neg (by omega), u64Add_ok _ _ (by omega)]; simp only [Outcome.bind_ok]
    rewrite [u32Sub_ok _ _ (by omega)]; simp only [Outcome.bind_ok]
    rewrite [u64Shl_ok _ _ (by omega) (by omega)]; simp only [Outcome.bind_ok]
    rewrite [u64Shl_ok _ _ (by omega) (by omega)]; simp only [Outcome.bind_ok]
    rewrite [if_neg (by omega), u32Sub_ok _ _ (by omega)]; simp only [Outcome.bind_ok]
    rewrite [u64Shl_ok _ _ (by omega) (by omega)]; simp only [Outcome.bind_ok]
    rewrite [u64Add_ok _ _ (by omega)]; simp only [Outcome.bind_ok]
    rewrite [u32Sub_ok _ _ (by omega)]; simp only [Outcome.bind_ok]
    rewrite [u64Shl_ok _ _ (by omega) (by omega)]; simp only [Outcome.bind_ok, Nat.reduceSub, Nat.one_mul]
    rewrite [if_pos (by omega), or_marker _ _ (by omega)]
    refine congrArg Outcome.ok ?_
    omega

/-- **`serialize` never panics** on a record whose origin names a face and whose segment is a `usize`
that leaves room for `+ 5`: whatever the resolution (any integer) and whatever `s`. -/
theorem serialize_never_panics (c : Cell) (ho : c.origin < 12) (hseg : c.segment + 5 < 2 ^ 64) :
    (serialize c).isPanic = false := by
  obtain ⟨o, seg, s, r⟩ := c
  simp only at ho hseg
  by_cases h30 : r ≥ 30
  · simp only [serialize, Gen.MAX_RESOLUTION]; rewrite [if_pos h30]; rfl
  by_cases hneg : r < -1
  · simp only [serialize, Gen.MAX_RESOLUTION]; rewrite [if_neg h30, if_pos hneg]; rfl
  by_cases hm1 : r = -1
  · simp only [serialize, Gen.MAX_RESOLUTION]; rewrite [if_neg h30, if_neg hneg, if_pos hm1]; rfl
  by_cases h0 : r = 0
  · subst h0; rewrite [serialize_res0' o seg s ho hseg]; rfl
  by_cases h1 : r = 1
  · subst h1; rewrite [serialize_res1' o seg s ho hseg]; rfl
  by_cases hS : s ≥ 4 ^ (r - 1).toNat
  · rewrite [serialize_hilbert_tooLarge o seg s r (by omega) (by omega) ho hseg hS]; rfl
  · rewrite [serialize_hilbert_fits o seg s r (by omega) (by omega) ho hseg (by omega)]; rfl

/-- out-of-range resolutions are rejected by the encoder, never wrapped -/
theorem serialize_res_too_large (c : Cell) (h : c.res ≥ 30) : serialize c = .err .resTooLarge := by
  simp only [serialize, Gen.MAX_RESOLUTION]; rewrite [if_pos h]; rfl

theorem serialize_res_negative (c : Cell) (h : c.res < -1) : serialize c = .err .resNegative := by
  simp only [serialize, Gen.MAX_RESOLUTION]; rewrite [if_neg (by omega), if_pos h]; rfl

/-! ### `getNumChildren` -/

theorem four_pow_lt_iff (d : Nat) : 4 ^ d < 2 ^ 64 ↔ d < 32 := by
  constructor
  · intro h
    apply Classical.byContradiction
    intro hd
    have : 4 ^ 32 ≤ 4 ^ d := Nat.pow_le_pow_right (by omega) (by omega)
    simp only [Nat.reducePow] at this h
    omega
  · intro h
    have : 4 ^ d ≤ 4 ^ 31 := Nat.pow_le_pow_right (by omega) (by omega)
    simp only [Nat.reducePow] at this ⊢
    omega

/-- exact panic set of `get_num_children` (for all integers, hence all `i32`): it overflows `4^d`
iff the parent is on the curve levels and the child is at least 32 levels finer. -/
theorem getNumChildren_isPanic_iff (p c : Int) :
    (getNumChildren p c).isPanic = true ↔ 2 ≤ p ∧ 32 ≤ c - p := by
  unfold getNumChildren
  by_cases h1 : c < p
  · rewrite [if_pos h1]; simp only [Outcome.isPanic, Bool.false_eq_true, false_iff]; omega
  rewrite [if_neg h1]
  by_cases h2 : c = p
  · rewrite [if_pos h2]; simp only [Outcome.isPanic, Bool.false_eq_true, false_iff]; omega
  rewrite [if_neg h2]
  by_cases h3 : p ≥ Gen.FIRST_HILBERT_RESOLUTION
  · rewrite [if_pos h3]
    simp only [Gen.FIRST_HILBERT_RESOLUTION] at h3
    by_cases hr : i32InRange (c - p) = true
    · simp only [i32Sub, hr, if_true, Outcome.bind_ok]
      by_cases h4 : 4 ^ (c - p).toNat < 2 ^ 64
      · rewrite [if_pos h4]
        have := (four_pow_lt_iff _).mp h4
        simp only [Outcome.isPanic, Bool.false_eq_true, false_iff]; omega
      · rewrite [if_neg h4]
        have : ¬ (c - p).toNat < 32 := fun h => h4 ((four_pow_lt_iff _).mpr h)
        simp only [Outcome.isPanic, true_iff]; omega
    · simp only [i32Sub, hr, Bool.false_eq_true, if_false, Outcome.bind_panic, Outcome.isPanic, true_iff]
      simp only [i32InRange, decide_eq_true_eq] at hr
      omega
  · rewrite [if_neg h3]
    simp only [Gen.FIRST_HILBERT_RESOLUTION] at h3
    simp only [Outcome.isPanic, Bool.false_eq_true, false_iff]; omega

/-- in particular: no panic whenever the child resolution is at most 29 (any parent) -/
theorem getNumChildren_never_panics (p c : Int) (hc : c ≤ 29) :
    (getNumChildren p c).isPanic = false := by
  cases h : (getNumChildren p c).isPanic with
  | false => rfl
  | true => have := (getNumChildren_isPanic_iff p c).mp h; omega

theorem getNumChildren_ok (p c : Int) (hc : c ≤ 29) : ∃ k, getNumChildren p c = .ok k := by
  unfold getNumChildren
  split
  · exact ⟨_, rfl⟩
  · split
    · exact ⟨_, rfl⟩
    · split
      · rename_i h1 h2 h3
        simp only [Gen.FIRST_HILBERT_RESOLUTION] at h3
        have hr : i32InRange (c - p) = true := by simp only [i32InRange, decide_eq_true_eq]; omega
        simp only [i32Sub, hr, if_true, Outcome.bind_ok]
        rewrite [if_pos ((four_pow_lt_iff _).mpr (by omega))]
        exact ⟨_, rfl⟩
      · exact ⟨_, rfl⟩

end A5
