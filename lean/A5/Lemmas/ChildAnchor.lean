import A5.Lemmas.HilbertOrient
/-! # Parent ↔ child along the Hilbert walk: digits, anchors, lattice reach (lemmas for C12)

The children of curve position `s` at depth `n` are the positions `4·s + d` (`d < 4`) at depth `n + 1`.
This file relates the two anchors, for every depth, every position, both patterns and both `invertJ`:

* `shiftDigits_cons`, `shiftDown_cons`: the top-down pass of the child is the parent's pass followed by ONE more
  pair step on (parent's least significant shifted digit, `d`);
* `shiftedDigits_child`, `child_digits_cases`: closed form of the child's shifted digits;
* `listAnchor`, `listAnchor_cons`: the forward walk `accumOffset` peeled at the least significant digit;
* `stepData`, `stepTriples`: the finitely many possible triples
  (child offset − 2·parent offset, parent flips, child flips); `internal_step_mem`, `final_step_mem`;
* `finalDelta_hexLe`: the coordinate bound `B = 2` (pattern `PATTERN`) / `B = 3` (pattern `PATTERN_FLIPPED`);
* `final_descendant_bounded`: `|O_desc − 2^k·O_anc| ≤ B·(2^k − 1)` for descendants `k` levels down. -/
namespace A5
open A5.HilbertLocate

/-! ## digits -/

/-- a step at index `≥ 2` of `a :: l` is the step at the index below of `l` -/
theorem shiftDigits_cons (a : Nat) (l : List Nat) (j : Nat) (F : Int × Int) (inv : Bool) (P : List Nat) :
    shiftDigits (a :: l) (j + 2) F inv P = a :: shiftDigits l (j + 1) F inv P := by
  unfold shiftDigits
  simp only [Nat.add_one_ne_zero, if_false, Nat.add_sub_cancel, List.getD_cons_succ,
    (by omega : j + 2 - 1 = j + 1)]
  split <;> split <;> simp only [List.set_cons_succ]

/-- the child's top-down pass expressed through the result `r = (digits, flips)` of the parent's pass:
`Ft` = the flips in force at the parent's last (index 0, no-op) step; the child performs one real step at
index 1 on `d :: digits` with these flips -/
def childPass (inv : Bool) (P : List Nat) (d : Nat) (r : List Nat × (Int × Int)) : List Nat × (Int × Int) :=
  let Ft := mulFlips r.2 (quaternaryToFlips (r.1.getD 0 0))
  let c := shiftDigits (d :: r.1) 1 Ft inv P
  (c, mulFlips (mulFlips Ft (quaternaryToFlips (c.getD 1 0))) (quaternaryToFlips (c.getD 0 0)))

/-- the top-down pass over `d :: ds` (depth `j + 2`) is the pass over `ds` (depth `j + 1`) followed by `childPass` -/
theorem shiftDown_cons {P : List Nat} (hP : ∀ v, P.getD v 0 < 8) (inv : Bool) (d : Nat) {n : Nat} :
    ∀ (j : Nat) (ds : List Nat), Dig4 n ds → ∀ (F : Int × Int),
    shiftDown inv P (j + 2) (d :: ds) F = childPass inv P d (shiftDown inv P (j + 1) ds F) := by
  intro j
  induction j with
  | zero =>
    intro ds hd F
    show (shiftDigits (d :: ds) 1 F inv P, _) = childPass inv P d (ds, mulFlips F (quaternaryToFlips (ds.getD 0 0)))
    unfold childPass
    simp only []
    rewrite [mulFlips_cancel F _ (hd.2 0)]
    rfl
  | succ j ih =>
    intro ds hd F
    show shiftDown inv P (j + 2) (shiftDigits (d :: ds) (j + 2) F inv P)
      (mulFlips F (quaternaryToFlips ((shiftDigits (d :: ds) (j + 2) F inv P).getD (j + 2) 0))) = _
    rewrite [shiftDigits_cons, List.getD_cons_succ, ih _ (shiftDigits_dig4 hd (j + 1) F inv hP)]
    rfl

theorem digitsLSB_child (s n d : Nat) (hd : d < 4) : digitsLSB (4 * s + d) (n + 1) = d :: digitsLSB s n := by
  rewrite [digitsLSB_succ, (by omega : (4 * s + d) % 4 = d), (by omega : (4 * s + d) / 4 = s)]
  rfl

theorem flipsProd_cancel_head (p : Nat) (tail : List Nat) (hp : p < 4) :
    mulFlips (flipsProd (p :: tail)) (quaternaryToFlips p) = flipsProd tail := by
  show mulFlips (mulFlips (quaternaryToFlips p) (flipsProd tail)) (quaternaryToFlips p) = flipsProd tail
  rewrite [mulFlips_comm (quaternaryToFlips p), mulFlips_cancel _ p hp]
  rfl

/-- depth 0 → depth 1: the quintant cell has no digits, its child `d` has the single digit `d` (unshifted) -/
theorem shiftedDigits_child_zero (s d : Nat) (hd : d < 4) (inv fl : Bool) :
    shiftedDigits s 0 inv fl = [] ∧ shiftedDigits (4 * s + d) 1 inv fl = [d] := by
  refine ⟨rfl, ?_⟩
  unfold shiftedDigits
  rewrite [digitsLSB_child s 0 d hd]
  rfl

/-- **T1 (closed form).** The shifted digits of the child `4·s + d` at depth `n + 2` are obtained from the
shifted digits `sd` of the parent `s` at depth `n + 1` by ONE `shiftDigits` step at index 1 on `d :: sd`, with the
flips accumulated over all parent digits but the least significant one. -/
theorem shiftedDigits_child (s n d : Nat) (hd : d < 4) (inv fl : Bool) :
    shiftedDigits (4 * s + d) (n + 2) inv fl =
      shiftDigits (d :: shiftedDigits s (n + 1) inv fl) 1
        (flipsProd (shiftedDigits s (n + 1) inv fl).tail) inv (hilbertPattern fl) := by
  have hP := isPerm8_hilbertPattern fl
  obtain ⟨⟨hl, h4⟩, hb, _⟩ := shiftUp_shiftDown hP inv (n + 1) (digitsLSB s (n + 1))
    (length_digitsLSB s (n + 1)) (digitsLSB_lt s (n + 1))
  have hdig : Dig4 (n + 1) (digitsLSB s (n + 1)) :=
    (dig4_iff _ _).2 ⟨length_digitsLSB s (n + 1), digitsLSB_lt s (n + 1)⟩
  unfold shiftedDigits
  rewrite [digitsLSB_child s (n + 1) d hd, shiftDown_cons hP.getD_lt inv d n _ hdig]
  unfold childPass
  simp only []
  generalize shiftDown inv (hilbertPattern fl) (n + 1) (digitsLSB s (n + 1)) (Gen.NO, Gen.NO) = r at hl h4 hb
  obtain ⟨dg, F⟩ := r
  simp only [] at hl h4 hb ⊢
  subst hb
  cases dg with
  | nil => cases hl
  | cons p tail =>
    rewrite [List.getD_cons_zero, flipsProd_cancel_head p tail (h4 p (List.mem_cons_self ..))]
    rfl

/-- **T1 (explicit).** parent = `p :: tail`, child = `d' :: p' :: tail`: all shifted digits of the child except its
two least significant ones are the parent's, and `(p', d') = pairStep lo P p d` where `lo` is selected by
`invertJ` and the flips of `tail`. -/
theorem child_digits_cases (s n d : Nat) (hd : d < 4) (inv fl : Bool) :
    ∃ p tail, p < 4 ∧ tail.length = n ∧ (∀ x ∈ tail, x < 4) ∧
      shiftedDigits s (n + 1) inv fl = p :: tail ∧
      shiftedDigits (4 * s + d) (n + 2) inv fl =
        (pairStep (shiftLo inv (flipsProd tail)) (hilbertPattern fl) p d).2 ::
          (pairStep (shiftLo inv (flipsProd tail)) (hilbertPattern fl) p d).1 :: tail ∧
      (pairStep (shiftLo inv (flipsProd tail)) (hilbertPattern fl) p d).1 < 4 ∧
      (pairStep (shiftLo inv (flipsProd tail)) (hilbertPattern fl) p d).2 < 4 := by
  have hc := shiftedDigits_child s n d hd inv fl
  obtain ⟨hl, h4⟩ := shiftedDigits_spec s (n + 1) inv fl
  generalize shiftedDigits s (n + 1) inv fl = sd at hc hl h4
  cases sd with
  | nil => cases hl
  | cons p tail =>
    have hp := h4 p (List.mem_cons_self ..)
    have hP := (isPerm8_hilbertPattern fl).getD_lt
    refine ⟨p, tail, hp, by simpa using hl, fun x hx => h4 x (List.mem_cons_of_mem _ hx), rfl, ?_,
      pairStep_lt _ _ p d (shiftLo_le _ _) hp hd hP⟩
    rewrite [hc, shiftDigits_succ (d :: p :: tail) 0 _ inv _ hp hd hP]
    rfl

/-- all digits of the child above its two lowest are the parent's digits one index below -/
theorem child_digits_above (s n d : Nat) (hd : d < 4) (inv fl : Bool) (j : Nat) (hj : 2 ≤ j) :
    (shiftedDigits (4 * s + d) (n + 2) inv fl).getD j 0 = (shiftedDigits s (n + 1) inv fl).getD (j - 1) 0 := by
  obtain ⟨p, tail, _, _, _, e1, e2, _⟩ := child_digits_cases s n d hd inv fl
  rewrite [e1, e2]
  obtain ⟨i, rfl⟩ : ∃ i, j = i + 2 := ⟨j - 2, by omega⟩
  rfl

/-! ## the forward walk, peeled at the least significant digit -/

theorem accumOffset_cons (k a : Nat) (l : List Nat) : ∀ (off F : Int × Int),
    accumOffset (k + 1) (a :: l) off F =
      (((accumOffset k l off F).1.1 * 2 + (quaternaryToKJ a (accumOffset k l off F).2).1,
        (accumOffset k l off F).1.2 * 2 + (quaternaryToKJ a (accumOffset k l off F).2).2),
        mulFlips (accumOffset k l off F).2 (quaternaryToFlips a)) := by
  induction k with
  | zero => intro off F; rfl
  | succ k ih =>
    intro off F
    rewrite [accumOffset_succ, List.getD_cons_succ, ih, accumOffset_succ]
    rfl

/-- (IJ offset, flips) of the anchor built from a digit list (least significant digit first) -/
def listAnchor (ds : List Nat) : (Int × Int) × (Int × Int) :=
  (kjToIJ (accumOffset ds.length ds (0, 0) (Gen.NO, Gen.NO)).1, (accumOffset ds.length ds (0, 0) (Gen.NO, Gen.NO)).2)

theorem listAnchor_nil : listAnchor [] = ((0, 0), (1, 1)) := by decide

theorem listAnchor_cons (a : Nat) (l : List Nat) :
    listAnchor (a :: l) =
      ((2 * (listAnchor l).1.1 + (childIJ a (listAnchor l).2).1, 2 * (listAnchor l).1.2 + (childIJ a (listAnchor l).2).2),
        nextF a (listAnchor l).2) := by
  unfold listAnchor
  rewrite [List.length_cons, accumOffset_cons]
  refine Prod.ext (Prod.ext ?_ ?_) rfl
  · simp only [kjToIJ, childIJ]; omega
  · simp only [kjToIJ, childIJ]; omega

theorem listAnchor_flips (l : List Nat) : (listAnchor l).2 = flipsProd l := by
  induction l with
  | nil => rewrite [listAnchor_nil]; rfl
  | cons a l ih =>
    rewrite [listAnchor_cons]
    show mulFlips (listAnchor l).2 (quaternaryToFlips a) = mulFlips (quaternaryToFlips a) (flipsProd l)
    rewrite [ih, mulFlips_comm]
    rfl

theorem listAnchor_isFlip (l : List Nat) (h : ∀ x ∈ l, x < 4) : IsFlip (listAnchor l).2 :=
  accumOffset_isFlip l.length l h

theorem internal_eq_listAnchor (s n : Nat) (inv fl : Bool) (hs : s < 4 ^ n) :
    ((sToAnchorInternal s n inv fl).offset, (sToAnchorInternal s n inv fl).flips) =
      listAnchor (shiftedDigits s n inv fl) := by
  rewrite [sToAnchorInternal_eq s n inv fl hs]
  unfold listAnchor
  rewrite [(shiftedDigits_spec s n inv fl).1]
  rfl

/-! ## one parent → child step: the finitely many possibilities -/

/-- `(child offset − 2·parent offset, parent flips, child flips)` for a parent whose least significant shifted digit is
`p`, whose flips before that digit are `F`, and its child `d` -/
def stepData (F : Int × Int) (inv : Bool) (P : List Nat) (p d : Nat) : (Int × Int) × (Int × Int) × (Int × Int) :=
  let st := pairStep (shiftLo inv F) P p d
  let a := childIJ st.1 F
  let b := childIJ p F
  let c := childIJ st.2 (nextF st.1 F)
  ((2 * (a.1 - b.1) + c.1, 2 * (a.2 - b.2) + c.2), nextF p F, nextF st.2 (nextF st.1 F))

def flips4 : List (Int × Int) := [(1, 1), (1, -1), (-1, 1), (-1, -1)]

theorem mem_flips4 (F : Int × Int) (h : IsFlip F) : F ∈ flips4 := by
  rcases h with rfl | rfl | rfl | rfl <;> decide

/-- every possible step triple for the pattern selected by `fl` and the given `invertJ`; the first four entries are
the steps from the digit-less quintant cell (depth 0) to its children -/
def stepTriples (inv fl : Bool) : List ((Int × Int) × (Int × Int) × (Int × Int)) :=
  (List.range 4).map (fun d => (childIJ d (1, 1), ((1 : Int), (1 : Int)), nextF d (1, 1))) ++
  flips4.flatMap (fun F => (List.range 4).flatMap (fun p => (List.range 4).map (fun d =>
    stepData F inv (hilbertPattern fl) p d)))

theorem stepData_mem (F : Int × Int) (hF : IsFlip F) (inv fl : Bool) (p d : Nat) (hp : p < 4) (hd : d < 4) :
    stepData F inv (hilbertPattern fl) p d ∈ stepTriples inv fl := by
  unfold stepTriples
  refine List.mem_append_right _ (List.mem_flatMap.2 ⟨F, mem_flips4 F hF, List.mem_flatMap.2 ⟨p, List.mem_range.2 hp,
    List.mem_map.2 ⟨d, List.mem_range.2 hd, rfl⟩⟩⟩)

/-- the step triple of a parent digit list `p :: tail` and a child digit list `d' :: p' :: tail` -/
theorem listAnchor_step' (tail : List Nat) (p p' d' : Nat) :
    (((listAnchor (d' :: p' :: tail)).1.1 - 2 * (listAnchor (p :: tail)).1.1,
      (listAnchor (d' :: p' :: tail)).1.2 - 2 * (listAnchor (p :: tail)).1.2),
      (listAnchor (p :: tail)).2, (listAnchor (d' :: p' :: tail)).2) =
    ((2 * ((childIJ p' (flipsProd tail)).1 - (childIJ p (flipsProd tail)).1) +
        (childIJ d' (nextF p' (flipsProd tail))).1,
      2 * ((childIJ p' (flipsProd tail)).2 - (childIJ p (flipsProd tail)).2) +
        (childIJ d' (nextF p' (flipsProd tail))).2),
      nextF p (flipsProd tail), nextF d' (nextF p' (flipsProd tail))) := by
  rewrite [listAnchor_cons p tail, listAnchor_cons d' (p' :: tail), listAnchor_cons p' tail, listAnchor_flips tail]
  refine Prod.ext (Prod.ext ?_ ?_) rfl
  · dsimp only; omega
  · dsimp only; omega

theorem listAnchor_step (tail : List Nat) (inv : Bool) (P : List Nat) (p d : Nat) :
    (((listAnchor ((pairStep (shiftLo inv (flipsProd tail)) P p d).2 ::
          (pairStep (shiftLo inv (flipsProd tail)) P p d).1 :: tail)).1.1 - 2 * (listAnchor (p :: tail)).1.1,
      (listAnchor ((pairStep (shiftLo inv (flipsProd tail)) P p d).2 ::
          (pairStep (shiftLo inv (flipsProd tail)) P p d).1 :: tail)).1.2 - 2 * (listAnchor (p :: tail)).1.2),
      (listAnchor (p :: tail)).2,
      (listAnchor ((pairStep (shiftLo inv (flipsProd tail)) P p d).2 ::
          (pairStep (shiftLo inv (flipsProd tail)) P p d).1 :: tail)).2) =
    stepData (flipsProd tail) inv P p d :=
  listAnchor_step' tail p _ _

/-- the step triple of the internal anchors of `s` (depth `n`) and its child `4·s + d` (depth `n + 1`) -/
def internalTriple (s n d : Nat) (inv fl : Bool) : (Int × Int) × (Int × Int) × (Int × Int) :=
  (((sToAnchorInternal (4 * s + d) (n + 1) inv fl).offset.1 - 2 * (sToAnchorInternal s n inv fl).offset.1,
    (sToAnchorInternal (4 * s + d) (n + 1) inv fl).offset.2 - 2 * (sToAnchorInternal s n inv fl).offset.2),
    (sToAnchorInternal s n inv fl).flips, (sToAnchorInternal (4 * s + d) (n + 1) inv fl).flips)

theorem child_lt (s n d : Nat) (hs : s < 4 ^ n) (hd : d < 4) : 4 * s + d < 4 ^ (n + 1) := by
  rewrite [Nat.pow_succ]; omega

/-- **one step, internal anchors.**  For every depth, position, child, pattern and `invertJ` the step triple is one of
the finitely many `stepTriples`. -/
theorem internal_step_mem (s n d : Nat) (hs : s < 4 ^ n) (hd : d < 4) (inv fl : Bool) :
    internalTriple s n d inv fl ∈ stepTriples inv fl := by
  have hc := child_lt s n d hs hd
  have eA := internal_eq_listAnchor s n inv fl hs
  have eC := internal_eq_listAnchor (4 * s + d) (n + 1) inv fl hc
  have eA1 := congrArg Prod.fst eA
  have eA2 := congrArg Prod.snd eA
  have eC1 := congrArg Prod.fst eC
  have eC2 := congrArg Prod.snd eC
  dsimp only at eA1 eA2 eC1 eC2
  unfold internalTriple
  rewrite [eA1, eA2, eC1, eC2]
  cases n with
  | zero =>
    have h0 : s = 0 := by rewrite [Nat.pow_zero] at hs; omega
    subst h0
    obtain ⟨z1, z2⟩ := shiftedDigits_child_zero 0 d hd inv fl
    rewrite [z1, z2]
    unfold stepTriples
    refine List.mem_append_left _ (List.mem_map.2 ⟨d, List.mem_range.2 hd, ?_⟩)
    rewrite [listAnchor_cons, listAnchor_nil]
    refine Prod.ext (Prod.ext ?_ ?_) rfl
    · show _ = _ - _; dsimp only; omega
    · show _ = _ - _; dsimp only; omega
  | succ n =>
    obtain ⟨p, tail, hp, _, h4, e1, e2, _, _⟩ := child_digits_cases s n d hd inv fl
    rewrite [e1, e2, listAnchor_step tail inv (hilbertPattern fl) p d]
    have hF : IsFlip (flipsProd tail) := by
      rewrite [← listAnchor_flips]; exact listAnchor_isFlip tail h4
    exact stepData_mem _ hF inv fl p d hp hd

/-! ## the orientation stages on a step -/

/-- `FLIP_SHIFT` compensation of the `flipIJ` stage, as a function of the flips -/
def flipComp (F : Int × Int) : Int × Int :=
  let off : Int × Int := (0, 0)
  let off := if F.1 == Gen.YES then (off.1 + Gen.FLIP_SHIFT.1, off.2 + Gen.FLIP_SHIFT.2) else off
  if F.2 == Gen.YES then (off.1 - Gen.FLIP_SHIFT.1, off.2 - Gen.FLIP_SHIFT.2) else off

theorem flipStage_offset (a : Anchor) :
    (flipStage a).offset = (a.offset.2 + (flipComp a.flips).1, a.offset.1 + (flipComp a.flips).2) := by
  unfold flipStage flipComp
  simp only []
  split <;> split <;> refine Prod.ext ?_ ?_ <;> (dsimp only; omega)

/-- the two stages of `finalAnchor` -/
def stageAnchor (n : Nat) (inv fl : Bool) (a : Anchor) : Anchor :=
  let a := if fl then flipStage a else a
  if inv then invertStage n a else a

theorem finalAnchor_eq_stage (s n : Nat) (inv fl : Bool) :
    finalAnchor s n inv fl = stageAnchor n inv fl (sToAnchorInternal s n inv fl) := rfl

/-- the effect of the stages on a step triple `(Δ, parent flips, child flips)` -/
def finalDelta (inv fl : Bool) (t : (Int × Int) × (Int × Int) × (Int × Int)) : Int × Int :=
  let Δ1 : Int × Int :=
    if fl then (t.1.2 + (flipComp t.2.2).1 - 2 * (flipComp t.2.1).1, t.1.1 + (flipComp t.2.2).2 - 2 * (flipComp t.2.1).2)
    else t.1
  if inv then (Δ1.1, -(Δ1.1 + Δ1.2)) else Δ1

theorem stage_delta (n : Nat) (inv fl : Bool) (A C : Anchor) :
    ((stageAnchor (n + 1) inv fl C).offset.1 - 2 * (stageAnchor n inv fl A).offset.1,
      (stageAnchor (n + 1) inv fl C).offset.2 - 2 * (stageAnchor n inv fl A).offset.2) =
    finalDelta inv fl ((C.offset.1 - 2 * A.offset.1, C.offset.2 - 2 * A.offset.2), A.flips, C.flips) := by
  have hp : (2 : Int) ^ (n + 1) = 2 * 2 ^ n := by rw [pow_succ, mul_comm]
  unfold stageAnchor finalDelta
  cases fl <;> cases inv <;> simp only [if_true, if_false, Bool.false_eq_true]
  · simp only [invertStage, hp]
    refine Prod.ext (by dsimp only) (by dsimp only; omega)
  · simp only [flipStage_offset]
    refine Prod.ext ?_ ?_ <;> (dsimp only; omega)
  · simp only [invertStage, flipStage_offset, hp]
    refine Prod.ext ?_ ?_ <;> (dsimp only; omega)

/-- child offset − 2·parent offset for the FINAL anchors (after the `flipIJ` / `invertJ` stages) -/
def finalStep (s n d : Nat) (inv fl : Bool) : Int × Int :=
  ((finalAnchor (4 * s + d) (n + 1) inv fl).offset.1 - 2 * (finalAnchor s n inv fl).offset.1,
    (finalAnchor (4 * s + d) (n + 1) inv fl).offset.2 - 2 * (finalAnchor s n inv fl).offset.2)

theorem finalStep_eq (s n d : Nat) (inv fl : Bool) :
    finalStep s n d inv fl = finalDelta inv fl (internalTriple s n d inv fl) := by
  unfold finalStep internalTriple
  rewrite [finalAnchor_eq_stage, finalAnchor_eq_stage]
  exact stage_delta n inv fl _ _

/-- **one step, final anchors**: the offset difference is `finalDelta` of one of the finitely many step triples -/
theorem final_step_mem (s n d : Nat) (hs : s < 4 ^ n) (hd : d < 4) (inv fl : Bool) :
    ∃ t ∈ stepTriples inv fl, finalStep s n d inv fl = finalDelta inv fl t :=
  ⟨_, internal_step_mem s n d hs hd inv fl, finalStep_eq s n d inv fl⟩

/-! ## bounds -/

/-- `|v.1| ≤ B`, `|v.2| ≤ B`, `|v.1 + v.2| ≤ B`: the closed lattice hexagon of radius `B` -/
def HexLe (B : Int) (v : Int × Int) : Prop :=
  -B ≤ v.1 ∧ v.1 ≤ B ∧ -B ≤ v.2 ∧ v.2 ≤ B ∧ -B ≤ v.1 + v.2 ∧ v.1 + v.2 ≤ B

instance (B : Int) (v : Int × Int) : Decidable (HexLe B v) := by unfold HexLe; infer_instance

/-- the reach constant: 2 for `PATTERN`, 3 for `PATTERN_FLIPPED` -/
def reachB (fl : Bool) : Int := if fl then 3 else 2

theorem stepTriples_hexLe : ∀ inv fl : Bool, ∀ t ∈ stepTriples inv fl,
    HexLe (reachB fl) t.1 ∧ HexLe (reachB fl) (finalDelta inv fl t) := by decide +kernel

/-- **T2, internal anchors.** -/
theorem internal_step_hexLe (s n d : Nat) (hs : s < 4 ^ n) (hd : d < 4) (inv fl : Bool) :
    HexLe (reachB fl) (internalTriple s n d inv fl).1 :=
  (stepTriples_hexLe inv fl _ (internal_step_mem s n d hs hd inv fl)).1

/-- **T2, final anchors.** -/
theorem final_step_hexLe (s n d : Nat) (hs : s < 4 ^ n) (hd : d < 4) (inv fl : Bool) :
    HexLe (reachB fl) (finalStep s n d inv fl) := by
  rewrite [finalStep_eq]
  exact (stepTriples_hexLe inv fl _ (internal_step_mem s n d hs hd inv fl)).2

/-! ## descendants -/

/-- offset of the descendant minus `2^k` times the offset of the ancestor, final anchors -/
def finalReach (s n k t : Nat) (inv fl : Bool) : Int × Int :=
  ((finalAnchor (s * 4 ^ k + t) (n + k) inv fl).offset.1 - 2 ^ k * (finalAnchor s n inv fl).offset.1,
    (finalAnchor (s * 4 ^ k + t) (n + k) inv fl).offset.2 - 2 ^ k * (finalAnchor s n inv fl).offset.2)

theorem desc_lt (s n k t : Nat) (hs : s < 4 ^ n) (ht : t < 4 ^ k) : s * 4 ^ k + t < 4 ^ (n + k) := by
  rewrite [Nat.pow_add]
  have : (s + 1) * 4 ^ k ≤ 4 ^ n * 4 ^ k := Nat.mul_le_mul_right _ hs
  rewrite [Nat.add_mul, Nat.one_mul] at this
  omega

theorem desc_succ (s k t : Nat) : s * 4 ^ (k + 1) + t = 4 * (s * 4 ^ k + t / 4) + t % 4 := by
  rewrite [Nat.pow_succ, ← Nat.mul_assoc]
  omega

/-- **Corollary (bounded reach at every depth).** -/
theorem final_descendant_bounded (s n : Nat) (hs : s < 4 ^ n) (inv fl : Bool) : ∀ (k t : Nat), t < 4 ^ k →
    HexLe (reachB fl * (2 ^ k - 1)) (finalReach s n k t inv fl) := by
  intro k
  induction k with
  | zero =>
    intro t ht
    have h0 : t = 0 := by rewrite [Nat.pow_zero] at ht; omega
    subst h0
    unfold finalReach HexLe
    simp only [Nat.mul_one, Nat.add_zero, pow_zero, one_mul, sub_self, mul_zero]
    omega
  | succ k ih =>
    intro t ht
    have ht4 : t / 4 < 4 ^ k := by rewrite [Nat.pow_succ] at ht; omega
    have h1 := ih (t / 4) ht4
    have h2 := final_step_hexLe (s * 4 ^ k + t / 4) (n + k) (t % 4) (desc_lt s n k _ hs ht4)
      (Nat.mod_lt _ (by decide)) inv fl
    unfold finalReach HexLe at h1 ⊢
    unfold finalStep HexLe at h2
    rewrite [desc_succ s k t]
    show _ ∧ _ ∧ _ ∧ _ ∧ _ ∧ _
    have hp : (2 : Int) ^ (k + 1) = 2 * 2 ^ k := by rw [pow_succ, mul_comm]
    have hB : (0 : Int) ≤ reachB fl := by unfold reachB; split <;> decide
    have hb2 : reachB fl * (2 * (2 : Int) ^ k - 1) = 2 * (reachB fl * 2 ^ k) - reachB fl := by
      rw [mul_sub, mul_one, mul_left_comm]
    simp only [hp, mul_assoc, hb2] at h1 ⊢
    simp only [mul_sub, mul_one] at h1
    rewrite [(by omega : n + (k + 1) = n + k + 1)]
    generalize (finalAnchor (4 * (s * 4 ^ k + t / 4) + t % 4) (n + k + 1) inv fl).offset = oc at h2 ⊢
    generalize (finalAnchor (s * 4 ^ k + t / 4) (n + k) inv fl).offset = op at h1 h2
    generalize (2 : Int) ^ k * (finalAnchor s n inv fl).offset.1 = x1 at h1 ⊢
    generalize (2 : Int) ^ k * (finalAnchor s n inv fl).offset.2 = x2 at h1 ⊢
    generalize reachB fl * (2 : Int) ^ k = bk at h1 ⊢
    generalize reachB fl = b at *
    omega

end A5
