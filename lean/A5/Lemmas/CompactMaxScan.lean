import A5.Lemmas.CompactMaxKey
/-! # One scan of `compact` on tree paths (core-only)

`pscan L skip` is the path-level counterpart of the model's `compactScan`; `compactScan_enc` says that on the
ids of *any* list of well-formed cells the model's scan never fails and computes exactly `pscan`.
`isHead p rest` is the path-level reading of `groupAt`: `p` is a first child and `rest` starts with its
remaining siblings, in order. -/
namespace A5.CompactMax
open A5 A5.Path A5.Canonical
open A5.Order (child stride)

/-- the siblings number `j, j+1, …, j+n-1` below `P` -/
def sibs (P : Path) (j n : Nat) : List Path := (List.range' j n).map (child P)

theorem sibs_zero (P : Path) (j : Nat) : sibs P j 0 = [] := rfl

theorem sibs_succ (P : Path) (j n : Nat) : sibs P j (n + 1) = child P j :: sibs P (j + 1) n := by
  simp only [sibs, List.range'_succ, List.map_cons]

theorem length_sibs (P : Path) (j n : Nat) : (sibs P j n).length = n := by
  simp only [sibs, List.length_map, List.length_range']

theorem children_eq_sibs (P : Path) : children P = sibs P 0 (fan (res P)) := by
  rw [A5.Order.children_eq_map_child, sibs, List.range_eq_range']

theorem fan_pos' (r : Int) : 1 ≤ fan r := A5.Canonical.fan_pos r

theorem children_eq_cons (P : Path) : children P = child P 0 :: sibs P 1 (fan (res P) - 1) := by
  rw [children_eq_sibs]
  have h := fan_pos' (res P)
  have e : fan (res P) = (fan (res P) - 1) + 1 := by omega
  rw [e, sibs_succ]
  simp only [Nat.add_sub_cancel, Nat.zero_add]

/-- `p` is a first child and `rest` starts with its remaining siblings, in order -/
def isHead (p : Path) (rest : List Path) : Bool :=
  (p == child (parent p) 0) && (sibs (parent p) 1 (fan (res (parent p)) - 1)).isPrefixOf rest

theorem isHead_world (rest : List Path) : isHead world rest = false := by
  have : (world == child (parent world) 0) = false := by decide
  simp only [isHead, this, Bool.false_and]

theorem ne_world_of_isHead {p : Path} {rest : List Path} (h : isHead p rest = true) : p ≠ world := by
  intro e; subst e; rw [isHead_world] at h; exact Bool.false_ne_true h

/-- what a head means: the list starts with all children of the parent, in order -/
theorem isHead_iff (p : Path) (rest : List Path) :
    isHead p rest = true ↔ ∃ post, p :: rest = children (parent p) ++ post := by
  rw [children_eq_cons]
  simp only [isHead, Bool.and_eq_true, beq_iff_eq, List.isPrefixOf_iff_prefix]
  constructor
  · rintro ⟨h1, post, h2⟩
    exact ⟨post, by rw [← h1, List.cons_append, h2]⟩
  · rintro ⟨post, h⟩
    rw [List.cons_append] at h
    injection h with h1 h2
    exact ⟨h1, post, h2.symm⟩

/-! ### the inner loop -/

theorem u64Mul_ok (a b : Nat) (h : a * b < 2 ^ 64) : u64Mul a b = .ok (a * b) := by simp [u64Mul, h]

theorem wf_child {P : Path} (hP : WF P) (hr : res P ≤ 28) {j : Nat} (hj : j < fan (res P)) : WF (child P j) :=
  wf_children hP (by omega) (A5.Order.child_mem_children P j hj)

theorem siblingsFollow_enc {P : Path} (hP : WF P) (hr : res P ≤ 28) (n : Nat) :
    ∀ (j : Nat) (rest : List Path), j + n ≤ fan (res P) → (∀ p ∈ rest, WF p) → n ≤ rest.length →
    siblingsFollow (enc (child P 0)) (stride (res P + 1)) n j (rest.map enc) =
      .ok ((sibs P j n).isPrefixOf rest) := by
  induction n with
  | zero => intro j rest _ _ _; simp only [siblingsFollow, sibs_zero, List.isPrefixOf_nil_left]
  | succ n ih =>
    intro j rest hj hrest hlen
    cases rest with
    | nil => simp only [List.length_nil] at hlen; omega
    | cons x xs =>
      have hcj : WF (child P j) := wf_child hP hr (by omega)
      have hlt := enc_lt hcj
      have hs := A5.Order.enc_child_stride P hP hr j
      simp only [siblingsFollow, List.map_cons]
      rewrite [u64Mul_ok _ _ (by omega)]; simp only [Outcome.bind_ok]
      rewrite [u64Add_ok _ _ (by omega)]; simp only [Outcome.bind_ok]
      rewrite [← hs, sibs_succ]
      have hx : WF x := hrest x (List.mem_cons_self ..)
      by_cases hxe : x = child P j
      · subst hxe
        rewrite [if_neg (by simp)]
        rewrite [ih (j + 1) xs (by omega) (fun p hp => hrest p (List.mem_cons_of_mem _ hp))
          (by simp only [List.length_cons] at hlen; omega)]
        simp only [List.isPrefixOf, beq_self_eq_true, Bool.true_and]
      · have hne : enc x ≠ enc (child P j) := fun e => hxe (enc_injective hx hcj e)
        rewrite [if_pos hne]
        have : (child P j == x) = false := by
          rw [beq_eq_false_iff_ne]; exact fun e => hxe e.symm
        simp only [List.isPrefixOf, this, Bool.false_and]

/-! ### `groupAt` -/

theorem expectedChildren_eq (r : Int) (h : -1 ≤ r) : expectedChildren (r + 1) = fan r := by
  show (if r + 1 ≥ (2 : Int) then 4 else if r + 1 = 0 then 12 else 5) = (if r < 0 then 12 else if r = 0 then 5 else 4)
  split <;> split <;> (try split) <;> (try split) <;> omega

theorem isPrefixOf_length {l₁ l₂ : List Path} (h : l₁.isPrefixOf l₂ = true) : l₁.length ≤ l₂.length :=
  (List.isPrefixOf_iff_prefix.1 h).length_le

/-- `groupAt` on ids of well-formed cells: never fails, answers `isHead`, reports the group size -/
theorem groupAt_enc {p : Path} (hp : WF p) (rest : List Path) (hrest : ∀ q ∈ rest, WF q) :
    groupAt (enc p) (rest.map enc) =
      .ok (isHead p rest, if res p < 0 then 0 else fan (res (parent p))) := by
  unfold groupAt
  simp only [getResolution_enc_path hp]
  by_cases hneg : res p < 0
  · have : p = world := by
      cases p with
      | world => rfl
      | face f => simp only [res] at hneg; omega
      | deep f k ds => simp only [res] at hneg; omega
    subst this
    rewrite [if_pos hneg, if_pos hneg, isHead_world]
    rfl
  · rewrite [if_neg hneg, if_neg hneg]
    have hw : p ≠ world := by intro e; subst e; exact hneg (by decide)
    have hPwf := wf_parent hp
    have hmem := mem_children_parent hp hw
    have hres := res_children hmem
    have hr28 : res (parent p) ≤ 28 := by have := res_le hp; omega
    obtain ⟨j, hj, hpj⟩ := (A5.Order.mem_children_iff _ _).1 hmem
    have hk : expectedChildren (res p) = fan (res (parent p)) := by
      rw [hres]; exact expectedChildren_eq _ (res_ge _)
    rewrite [hk, List.length_map]
    by_cases hlen : fan (res (parent p)) ≤ rest.length + 1
    · rewrite [if_pos hlen]
      have hfc : isFirstChild (enc p) (res p) = .ok (j == 0) := by
        have := A5.Order.isFirstChild_child (parent p) hPwf hr28 j hj
        rw [← hpj, ← hres] at this
        exact this
      rewrite [hfc]; simp only [Outcome.bind_ok]
      by_cases hj0 : j = 0
      · subst hj0
        simp only [beq_self_eq_true, if_true]
        rewrite [hres, A5.Order.getStride_eq _ (by omega) (by have := res_ge (parent p); omega)]
        simp only [Outcome.bind_ok]
        have hp0 : enc p = enc (child (parent p) 0) := by rw [← hpj]
        rewrite [hp0, siblingsFollow_enc hPwf hr28 _ 1 rest (by have := fan_pos' (res (parent p)); omega) hrest
          (by omega)]
        simp only [Outcome.bind_ok]
        have : (p == child (parent p) 0) = true := by rw [beq_iff_eq]; exact hpj
        simp only [isHead, this, Bool.true_and]
      · have : (j == 0) = false := by rw [beq_eq_false_iff_ne]; exact hj0
        rewrite [this]
        simp only [Bool.false_eq_true, if_false]
        have : (p == child (parent p) 0) = false := by
          rw [beq_eq_false_iff_ne]
          intro e
          exact hj0 (A5.Order.child_inj _ _ _ (hpj.symm.trans e))
        simp only [isHead, this, Bool.false_and]
    · rewrite [if_neg hlen]
      have : isHead p rest = false := by
        cases h : isHead p rest with
        | false => rfl
        | true =>
          exfalso
          simp only [isHead, Bool.and_eq_true] at h
          have := isPrefixOf_length h.2
          rw [length_sibs] at this
          omega
      rw [this]

/-! ### the scan -/

/-- the path-level scan: same recursion as `compactScan` -/
def pscan : List Path → Nat → List Path × Bool
  | [], _ => ([], false)
  | _ :: rest, skip + 1 => pscan rest skip
  | p :: rest, 0 =>
    if isHead p rest then (parent p :: (pscan rest (fan (res (parent p)) - 1)).1, true)
    else (p :: (pscan rest 0).1, (pscan rest 0).2)

/-- **refinement.**  On the ids of any well-formed cells, `compactScan` succeeds and computes `pscan`. -/
theorem compactScan_enc (L : List Path) : ∀ (s : Nat), (∀ p ∈ L, WF p) →
    compactScan (L.map enc) s = .ok ((pscan L s).1.map enc, (pscan L s).2) := by
  induction L with
  | nil => intro s _; cases s <;> rfl
  | cons p rest ih =>
    intro s hL
    have hp : WF p := hL p (List.mem_cons_self ..)
    have hrest : ∀ q ∈ rest, WF q := fun q hq => hL q (List.mem_cons_of_mem _ hq)
    cases s with
    | succ s =>
      simp only [List.map_cons, compactScan, pscan]
      exact ih s hrest
    | zero =>
      simp only [List.map_cons, compactScan, pscan]
      rewrite [groupAt_enc hp rest hrest]
      simp only [Outcome.bind_ok]
      by_cases hh : isHead p rest = true
      · have hw := ne_world_of_isHead hh
        have hnn : ¬ res p < 0 := by
          cases p with
          | world => exact absurd rfl hw
          | face f => simp only [res]; omega
          | deep f k ds => simp only [res]; omega
        rewrite [if_pos hh, if_pos hh, if_neg hnn, cellToParent_none_enc hp hw]
        simp only [Outcome.bind_ok]
        rewrite [ih _ hrest]
        simp only [Outcome.bind_ok, List.map_cons]
      · rewrite [if_neg hh, if_neg hh, ih 0 hrest]
        simp only [Outcome.bind_ok, List.map_cons]

end A5.CompactMax
