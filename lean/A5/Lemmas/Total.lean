import A5.Lemmas.Total3
/-! Totality of the integer API (C14): umbrella for `Total1` (Outcome/list combinators, `serialize` on any
resolution, `getNumChildren`), `Total2` (`cellToParent`, `cellToChildren`), `Total3` (`uncompact`, `compact`). -/
