import A5.Lemmas.RealGeo
import Mathlib.Tactic.FieldSimp
/-! # Trigonometric polynomials as list polynomials in `z = e^{2iφ}` (for C19, composition bound)

A real trigonometric polynomial in `θ = 2φ` with frequencies `≤ N` is `z^{-N} · P(z)` for an ordinary polynomial `P`
with `z = e^{iθ}`.  For the sine/cosine polynomials used here, `i·(sine polynomial)` and `cosine polynomial` have
*rational* coefficients, so all arithmetic is list arithmetic over `ℚ` (kernel-evaluable), and
`|trig poly| = ‖P(z)‖ ≤ Σ |coefficients|`.

This file: the list polynomials (`padd`, `psmul`, `pmul`, `pshift`, evaluation `peval` at a complex point, the
coefficient sum `pabs`), their evaluation lemmas, and the casts of `sin (2kφ)`, `cos (2kφ)` to `ℂ`. -/
namespace A5.AuthalicCompose
open A5

/-! ## list polynomials over `ℚ` (lowest degree first) -/

def padd : List ℚ → List ℚ → List ℚ
  | [], q => q
  | a :: p, [] => a :: p
  | a :: p, b :: q => (a + b) :: padd p q

def psmul (c : ℚ) : List ℚ → List ℚ
  | [] => []
  | a :: p => (c * a) :: psmul c p

def pmul : List ℚ → List ℚ → List ℚ
  | [], _ => []
  | a :: p, q => padd (psmul a q) (0 :: pmul p q)

def pshift : Nat → List ℚ → List ℚ
  | 0, p => p
  | n + 1, p => 0 :: pshift n p

/-- `Σ |coefficient|` (with the core-only absolute value `ratAbs`) -/
def pabs : List ℚ → ℚ
  | [] => 0
  | a :: p => ratAbs a + pabs p

/-- Horner evaluation at a complex point -/
noncomputable def peval : List ℚ → ℂ → ℂ
  | [], _ => 0
  | a :: p, z => (a : ℂ) + z * peval p z

@[simp] theorem peval_nil (z : ℂ) : peval [] z = 0 := rfl
@[simp] theorem peval_cons (a : ℚ) (p : List ℚ) (z : ℂ) : peval (a :: p) z = (a : ℂ) + z * peval p z := rfl

theorem peval_padd (p q : List ℚ) (z : ℂ) : peval (padd p q) z = peval p z + peval q z := by
  induction p generalizing q with
  | nil => simp [padd]
  | cons a p ih =>
    cases q with
    | nil => simp [padd]
    | cons b q => simp only [padd, peval_cons, ih]; push_cast; ring

theorem peval_psmul (c : ℚ) (p : List ℚ) (z : ℂ) : peval (psmul c p) z = (c : ℂ) * peval p z := by
  induction p with
  | nil => simp [psmul]
  | cons a p ih => simp only [psmul, peval_cons, ih]; push_cast; ring

theorem peval_pmul (p q : List ℚ) (z : ℂ) : peval (pmul p q) z = peval p z * peval q z := by
  induction p with
  | nil => simp [pmul]
  | cons a p ih =>
    simp only [pmul, peval_padd, peval_psmul, peval_cons, ih]; push_cast; ring

theorem peval_pshift (n : Nat) (p : List ℚ) (z : ℂ) : peval (pshift n p) z = z ^ n * peval p z := by
  induction n with
  | zero => simp [pshift]
  | succ n ih => simp only [pshift, peval_cons, ih]; push_cast; ring

theorem pabs_cast_nonneg (p : List ℚ) : (0 : ℝ) ≤ ((pabs p : ℚ) : ℝ) := by
  induction p with
  | nil => simp [pabs]
  | cons a p ih =>
    simp only [pabs]; push_cast
    rw [A5.RealGeo.ratAbs_eq_abs]
    exact add_nonneg (abs_nonneg _) ih

/-- on the unit circle a polynomial is bounded by the sum of the absolute values of its coefficients -/
theorem norm_peval_le (p : List ℚ) (z : ℂ) (hz : ‖z‖ = 1) : ‖peval p z‖ ≤ ((pabs p : ℚ) : ℝ) := by
  induction p with
  | nil => simp [pabs]
  | cons a p ih =>
    simp only [peval_cons, pabs]; push_cast
    rw [A5.RealGeo.ratAbs_eq_abs]
    calc ‖(a : ℂ) + z * peval p z‖ ≤ ‖(a : ℂ)‖ + ‖z * peval p z‖ := norm_add_le _ _
      _ = |(a : ℝ)| + ‖peval p z‖ := by
          rw [norm_mul, hz, one_mul]
          congr 1
          rw [show ((a : ℚ) : ℂ) = (((a : ℚ) : ℝ) : ℂ) by push_cast; rfl, Complex.norm_real]
          rfl
      _ ≤ |(a : ℝ)| + ((pabs p : ℚ) : ℝ) := by linarith

/-! ## the sine / cosine polynomials of degree 12 (`z^6 · Σ c_k (z^k ∓ z^{-k})/2`) -/

/-- six rational coefficients (of `sin 2φ … sin 12φ`) -/
structure C6 where
  c1 : ℚ
  c2 : ℚ
  c3 : ℚ
  c4 : ℚ
  c5 : ℚ
  c6 : ℚ

/-- `z^6 · Σ_k c_k (z^k − z^{-k})/2` -/
def sinP (c : C6) : List ℚ :=
  [-(c.c6 / 2), -(c.c5 / 2), -(c.c4 / 2), -(c.c3 / 2), -(c.c2 / 2), -(c.c1 / 2), 0,
    c.c1 / 2, c.c2 / 2, c.c3 / 2, c.c4 / 2, c.c5 / 2, c.c6 / 2]

/-- `z^6 · Σ_k c_k (z^k + z^{-k})/2` -/
def cosP (c : C6) : List ℚ :=
  [c.c6 / 2, c.c5 / 2, c.c4 / 2, c.c3 / 2, c.c2 / 2, c.c1 / 2, 0,
    c.c1 / 2, c.c2 / 2, c.c3 / 2, c.c4 / 2, c.c5 / 2, c.c6 / 2]

/-- `(z^k − z^{-k})/2  = i · sin kθ` -/
noncomputable def Sz (z : ℂ) (k : Nat) : ℂ := (z ^ k - z⁻¹ ^ k) / 2
/-- `(z^k + z^{-k})/2  = cos kθ` -/
noncomputable def Cz (z : ℂ) (k : Nat) : ℂ := (z ^ k + z⁻¹ ^ k) / 2

theorem peval_sinP (c : C6) (z : ℂ) (hz : z ≠ 0) :
    peval (sinP c) z = z ^ 6 * ((c.c1 : ℂ) * Sz z 1 + c.c2 * Sz z 2 + c.c3 * Sz z 3 + c.c4 * Sz z 4
      + c.c5 * Sz z 5 + c.c6 * Sz z 6) := by
  simp only [sinP, peval_cons, peval_nil, Sz]
  push_cast
  field_simp
  ring

theorem peval_cosP (c : C6) (z : ℂ) (hz : z ≠ 0) :
    peval (cosP c) z = z ^ 6 * ((c.c1 : ℂ) * Cz z 1 + c.c2 * Cz z 2 + c.c3 * Cz z 3 + c.c4 * Cz z 4
      + c.c5 * Cz z 5 + c.c6 * Cz z 6) := by
  simp only [cosP, peval_cons, peval_nil, Cz]
  push_cast
  field_simp
  ring

/-! ## casts of `sin (kθ)`, `cos (kθ)` -/

theorem sin_cast (t : ℝ) (n : Nat) :
    ((Real.sin (n * t) : ℝ) : ℂ) = -Complex.I * Sz (Complex.exp ((t : ℂ) * Complex.I)) n := by
  rw [Complex.ofReal_sin, Complex.sin, Sz]
  push_cast
  rw [show -((n : ℂ) * (t : ℂ)) * Complex.I = (n : ℂ) * (-((t : ℂ) * Complex.I)) by ring,
    show (n : ℂ) * (t : ℂ) * Complex.I = (n : ℂ) * ((t : ℂ) * Complex.I) by ring,
    Complex.exp_nat_mul, Complex.exp_nat_mul, Complex.exp_neg]
  ring

theorem cos_cast (t : ℝ) (n : Nat) :
    ((Real.cos (n * t) : ℝ) : ℂ) = Cz (Complex.exp ((t : ℂ) * Complex.I)) n := by
  rw [Complex.ofReal_cos, Complex.cos, Cz]
  push_cast
  rw [show -((n : ℂ) * (t : ℂ)) * Complex.I = (n : ℂ) * (-((t : ℂ) * Complex.I)) by ring,
    show (n : ℂ) * (t : ℂ) * Complex.I = (n : ℂ) * ((t : ℂ) * Complex.I) by ring,
    Complex.exp_nat_mul, Complex.exp_nat_mul, Complex.exp_neg]

end A5.AuthalicCompose
