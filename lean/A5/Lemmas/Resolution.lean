import A5.Spec.Layout
/-! `get_resolution`'s loop equals its closed form `resFrom`. -/
namespace A5

theorem loop_eq_resFrom (id : Nat) : ∀ n : Nat, n ≤ 30 → ∀ sh, (n ≥ 1 → sh = id / 2 ^ markerPos (n - 1)) →
    getResolutionLoop (n + 1) ((n : Int) - 1) sh = resFrom id n := by
  intro n
  induction n with
  | zero => intro _ sh _; simp [getResolutionLoop, resFrom]
  | succ n ih =>
    intro hn sh hsh
    have hsh' := hsh (by omega)
    simp only [Nat.add_sub_cancel] at hsh'
    unfold getResolutionLoop
    simp only [resFrom]
    have h1 : ((n + 1 : Nat) : Int) - 1 > -1 := by omega
    by_cases hb : id / 2 ^ markerPos n % 2 = 1
    · have : ¬ (sh % 2 = 0) := by rw [hsh']; omega
      simp [hb, this]
    · have h0 : sh % 2 = 0 := by rw [hsh']; omega
      simp only [h1, h0, and_self, if_true, hb, if_false]
      have e : ((n + 1 : Nat) : Int) - 1 - 1 = (n : Int) - 1 := by omega
      rw [e]
      apply ih (by omega)
      intro hn1
      rw [hsh', Nat.shiftRight_eq_div_pow, Nat.div_div_eq_div_mul, ← Nat.pow_add]
      congr 2
      simp only [Gen.FIRST_HILBERT_RESOLUTION, markerPos]
      by_cases h2 : (n:Int) - 1 < 2 <;> by_cases h3 : n - 1 ≥ 2 <;> by_cases h4 : n ≥ 2 <;>
        simp only [h2, h3, h4, if_true, if_false] <;> omega

theorem getResolution_eq (id : Nat) : getResolution id = resFrom id 30 := by
  unfold getResolution
  have := loop_eq_resFrom id 30 (by omega) (id >>> 1)
    (by intro _; simp [markerPos, Nat.shiftRight_eq_div_pow])
  simpa [Gen.MAX_RESOLUTION] using this

theorem firstQuintant_lt : ∀ o, o < 12 → firstQuintant o < 5 := by decide +kernel

theorem or_marker (x k : Nat) (h : x % 2 ^ (k + 1) = 0) : x ||| 2 ^ k = x + 2 ^ k := by
  obtain ⟨q, rfl⟩ : ∃ q, x = 2 ^ (k + 1) * q :=
    ⟨x / 2 ^ (k+1), by have := Nat.div_add_mod x (2 ^ (k + 1)); omega⟩
  rw [Nat.mul_comm, ← Nat.shiftLeft_eq,
    ← Nat.shiftLeft_add_eq_or_of_lt (Nat.pow_lt_pow_right (by omega) (by omega))]

end A5
