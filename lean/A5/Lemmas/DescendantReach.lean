import A5.Lemmas.ChildPentagon
import Mathlib.Tactic.Positivity
/-! # Planar reach of ALL descendants of a cell (C12, "descendants at any depth stay within a bounded distance")

`A5.CP.child_centre_reach` (T4 of C12) bounds ONE level: the centre of a child pentagon, scaled into the parent's lattice
frame (`centreQ ac / 2`), is within `r = √(0.4213·area)` of the parent's centre, for every parent of curve depth `1..28`.
All cell pentagons of a quintant have the same area `pentArea` in their own frame (`A5.PG.pentagonQ_area`).

This file composes the one-level bound along the chain of intermediate ancestors
`s, s·4 + t/4^(k-1), …, s·4^i + t/4^(k-i), …, s·4^k + t` (`desc_succ`: consecutive members are parent and child) by the
triangle inequality in the plane:

  `centre_k / 2^k − centre_0 = Σ_{i<k} (centre_{i+1}/2 − centre_i) / 2^i`,  each summand of length `< r / 2^i`,

so the descendant's centre, scaled into the ancestor's frame, is within `r·(1 + 1/2 + … + 1/2^(k-1)) = r·(2 − 2/2^k) < 2r`
of the ancestor's centre.  Everything stays in `ℚ`: lengths are compared through their squares
(`sq_add_le`: `|u|² ≤ A·a²`, `|v|² ≤ A·b²` ⟹ `|u+v|² ≤ A·(a+b)²`, Cauchy-Schwarz), with `A = reachA = 0.4213·pentArea`
(`= r²`).

Main results (exact arithmetic on the runtime constants, every orientation `o < 6`, every ancestor depth `n+1 ≥ 1`, every
`k` with `n+1+k ≤ 30`, every `t < 4^k`):
* `descendant_centre_reach_series`: `dist² ≤ reachA · (2 − 2/2^k)²` (the exact geometric series);
* `descendant_centre_reach`: `dist² < 4 · 0.4213 · area(ancestor pentagon)`, i.e. `dist < 2r = 1.2982·√area`.
The versions with `Real.sqrt` and for all points of the descendant pentagons are in `DescendantReach2.lean`. -/
namespace A5.DR
open A5 A5.HilbertLocate A5.PG A5.CP

/-! ## the triangle inequality in `ℚ²`, through squares -/

/-- Cauchy-Schwarz: `u·v ≤ |u||v|`, with `|u|² ≤ A·a²`, `|v|² ≤ A·b²` -/
theorem dot_le {A a b u1 u2 v1 v2 : ℚ} (hA : 0 ≤ A) (ha : 0 ≤ a) (hb : 0 ≤ b)
    (hu : u1 * u1 + u2 * u2 ≤ A * (a * a)) (hv : v1 * v1 + v2 * v2 ≤ A * (b * b)) :
    u1 * v1 + u2 * v2 ≤ A * a * b := by
  by_contra h
  have h := not_le.1 h
  have h0 : 0 ≤ A * a * b := mul_nonneg (mul_nonneg hA ha) hb
  have h1 := mul_self_lt_mul_self h0 h
  have hu0 : 0 ≤ u1 * u1 + u2 * u2 := add_nonneg (mul_self_nonneg _) (mul_self_nonneg _)
  have hv0 : 0 ≤ v1 * v1 + v2 * v2 := add_nonneg (mul_self_nonneg _) (mul_self_nonneg _)
  have h2 : (u1 * u1 + u2 * u2) * (v1 * v1 + v2 * v2) ≤ (A * (a * a)) * (A * (b * b)) :=
    mul_le_mul hu hv hv0 (le_trans hu0 hu)
  nlinarith [mul_self_nonneg (u1 * v2 - u2 * v1)]

/-- the triangle inequality for squared lengths measured in units of `√A` -/
theorem sq_add_le {A a b u1 u2 v1 v2 : ℚ} (hA : 0 ≤ A) (ha : 0 ≤ a) (hb : 0 ≤ b)
    (hu : u1 * u1 + u2 * u2 ≤ A * (a * a)) (hv : v1 * v1 + v2 * v2 ≤ A * (b * b)) :
    (u1 + v1) * (u1 + v1) + (u2 + v2) * (u2 + v2) ≤ A * ((a + b) * (a + b)) := by
  have := dot_le hA ha hb hu hv
  nlinarith

/-! ## the one-level bound, with the flips exported -/

/-- the squared one-level reach `r² = 0.4213 · pentArea` (`r = 0.64908·√area`) -/
def reachA : ℚ := 4213 / 10000 * pentArea

theorem pentArea_pos : 0 < pentArea := by
  have := seed_area_facts.1
  unfold pentArea; linarith

theorem reachA_pos : 0 < reachA := by
  have := pentArea_pos
  unfold reachA; linarith

theorem pentagon_area (a : Anchor) (hF : IsFlip a.flips) : areaG 0 (pentagonQ a) / 2 = pentArea := by
  rewrite [pentagonQ_area a hF]; rfl

/-- `child_centre_reach`, keeping the `±1` flips of both anchors and with the area written as the constant `pentArea` -/
theorem child_reach (n o s d : Nat) (hn : n + 2 ≤ 30) (ho : o < 6) (hs : s < 4 ^ (n + 1)) (hd : d < 4) :
    ∃ ap ac, sToAnchor s (n + 1) o = .ok ap ∧ sToAnchor (4 * s + d) (n + 2) o = .ok ac ∧
      IsFlip ap.flips ∧ IsFlip ac.flips ∧ centreDistSq ap ac < reachA := by
  obtain ⟨ap, ac, h1, h2, hp, hc, hm⟩ := child_quad_mem n o s d hn hs hd
  have hr := reach_table _ _ (fun hh => flags_exclusive o ho hh) _ hm
  have e : centreDistSq ap ac = reachSq (anchorQuad ap ac) := by
    unfold centreDistSq reachSq
    rewrite [← centre_diff ap ac hp hc]
    rfl
  exact ⟨ap, ac, h1, h2, hp, hc, by rewrite [e]; exact hr⟩

/-! ## descendants -/

/-- squared planar distance between the descendant's centre, scaled into the ancestor's frame (`k` levels up: lattice
units shrink by `2` per level), and the ancestor's centre -/
def descDistSq (k : Nat) (ap ad : Anchor) : ℚ :=
  ((centreQ ad).1 / 2 ^ k - (centreQ ap).1) * ((centreQ ad).1 / 2 ^ k - (centreQ ap).1) +
    ((centreQ ad).2 / 2 ^ k - (centreQ ap).2) * ((centreQ ad).2 / 2 ^ k - (centreQ ap).2)

theorem descDistSq_one (ap ad : Anchor) : descDistSq 1 ap ad = centreDistSq ap ad := by
  unfold descDistSq centreDistSq
  rewrite [pow_one]; rfl

theorem descDistSq_self (a : Anchor) : descDistSq 0 a a = 0 := by
  unfold descDistSq
  rewrite [pow_zero, div_one, div_one, sub_self, sub_self]
  ring

/-- one more level: `‖c/2^(k+1) − p‖² ≤ A·(a + 1/2^k)²` from `‖m/2^k − p‖² ≤ A·a²` and `‖c/2 − m‖² < A` -/
theorem descDistSq_step (k : Nat) (ap am ac : Anchor) (a : ℚ) (ha : 0 ≤ a)
    (h1 : descDistSq k ap am ≤ reachA * (a * a)) (h2 : centreDistSq am ac < reachA) :
    descDistSq (k + 1) ap ac ≤ reachA * ((a + 1 / 2 ^ k) * (a + 1 / 2 ^ k)) := by
  have hx : (0 : ℚ) < 1 / 2 ^ k := by positivity
  have hv : ((centreQ ac).1 / 2 - (centreQ am).1) * (1 / 2 ^ k) * (((centreQ ac).1 / 2 - (centreQ am).1) * (1 / 2 ^ k)) +
      ((centreQ ac).2 / 2 - (centreQ am).2) * (1 / 2 ^ k) * (((centreQ ac).2 / 2 - (centreQ am).2) * (1 / 2 ^ k)) ≤
      reachA * (1 / 2 ^ k * (1 / 2 ^ k)) := by
    have e : ((centreQ ac).1 / 2 - (centreQ am).1) * (1 / 2 ^ k) * (((centreQ ac).1 / 2 - (centreQ am).1) * (1 / 2 ^ k)) +
        ((centreQ ac).2 / 2 - (centreQ am).2) * (1 / 2 ^ k) * (((centreQ ac).2 / 2 - (centreQ am).2) * (1 / 2 ^ k)) =
        centreDistSq am ac * (1 / 2 ^ k * (1 / 2 ^ k)) := by
      unfold centreDistSq; ring
    rewrite [e]
    exact mul_le_mul_of_nonneg_right (le_of_lt h2) (by positivity)
  have key := sq_add_le (le_of_lt reachA_pos) ha (le_of_lt hx) h1 hv
  have e : descDistSq (k + 1) ap ac =
      ((centreQ am).1 / 2 ^ k - (centreQ ap).1 + ((centreQ ac).1 / 2 - (centreQ am).1) * (1 / 2 ^ k)) *
        ((centreQ am).1 / 2 ^ k - (centreQ ap).1 + ((centreQ ac).1 / 2 - (centreQ am).1) * (1 / 2 ^ k)) +
      ((centreQ am).2 / 2 ^ k - (centreQ ap).2 + ((centreQ ac).2 / 2 - (centreQ am).2) * (1 / 2 ^ k)) *
        ((centreQ am).2 / 2 ^ k - (centreQ ap).2 + ((centreQ ac).2 / 2 - (centreQ am).2) * (1 / 2 ^ k)) := by
    unfold descDistSq
    rewrite [pow_succ]
    ring
  rewrite [e]
  exact key

/-- the geometric series: `(2 − 2/2^k) + 1/2^k = 2 − 2/2^(k+1)` -/
theorem series_step (k : Nat) : (2 - 2 / 2 ^ k : ℚ) + 1 / 2 ^ k = 2 - 2 / 2 ^ (k + 1) := by
  rewrite [pow_succ]
  have : (2 : ℚ) ^ k ≠ 0 := by positivity
  field_simp
  ring

theorem series_nonneg (k : Nat) : (0 : ℚ) ≤ 2 - 2 / 2 ^ k := by
  have h : (1 : ℚ) ≤ 2 ^ k := one_le_pow₀ (by norm_num)
  have : (2 : ℚ) / 2 ^ k ≤ 2 := by
    rewrite [div_le_iff₀ (by positivity)]
    linarith
  linarith

theorem series_lt_two (k : Nat) : (2 - 2 / 2 ^ k : ℚ) < 2 := by
  have : (0 : ℚ) < 2 / 2 ^ k := by positivity
  linarith

/-- the induction along the chain of intermediate ancestors -/
theorem descendant_chain (n o s : Nat) (ho : o < 6) (hs : s < 4 ^ (n + 1)) : ∀ k t, n + 1 + k ≤ 30 → t < 4 ^ k →
    ∃ ap ad, sToAnchor s (n + 1) o = .ok ap ∧ sToAnchor (s * 4 ^ k + t) (n + 1 + k) o = .ok ad ∧ IsFlip ap.flips ∧
      descDistSq k ap ad ≤ reachA * ((2 - 2 / 2 ^ k) * (2 - 2 / 2 ^ k)) := by
  intro k
  induction k with
  | zero =>
    intro t hn ht
    have e : s * 4 ^ 0 + t = s := by
      simp only [Nat.pow_zero] at ht ⊢; omega
    rewrite [e]
    refine ⟨_, _, sToAnchor_eq s (n + 1) o (by omega) hs, sToAnchor_eq s (n + 1) o (by omega) hs,
      finalAnchor_isFlip _ (n + 1) _ _ (adjustS_lt _ (n + 1) s hs), ?_⟩
    rewrite [descDistSq_self]
    have := reachA_pos
    positivity
  | succ k ih =>
    intro t hn ht
    have ht4 : t / 4 < 4 ^ k := by
      rewrite [Nat.pow_succ] at ht; omega
    obtain ⟨ap, am, h1, h2, hp, hb⟩ := ih (t / 4) (by omega) ht4
    have hm : s * 4 ^ k + t / 4 < 4 ^ (n + k + 1) := by
      have := desc_lt s (n + 1) k (t / 4) hs ht4
      rewrite [show n + k + 1 = n + 1 + k by omega]; exact this
    obtain ⟨am', ac, g1, g2, _, _, g5⟩ := child_reach (n + k) o (s * 4 ^ k + t / 4) (t % 4) (by omega) ho hm
      (Nat.mod_lt _ (by decide))
    rewrite [show n + k + 1 = n + 1 + k by omega] at g1
    rewrite [← desc_succ s k t, show n + k + 2 = n + 1 + (k + 1) by omega] at g2
    cases Outcome.ok.inj (h2.symm.trans g1)
    refine ⟨ap, ac, h1, g2, hp, ?_⟩
    rewrite [← series_step k]
    exact descDistSq_step k ap am ac _ (series_nonneg k) hb g5

/-! ## the theorems -/

/-- **Descendant reach, geometric-series form.**  For every ancestor position `s` at curve depth `n+1 ≥ 1`, every `k`
with `n+1+k ≤ 30`, every descendant `s·4^k + t` (`t < 4^k`) and every orientation: both anchors exist, and the squared
planar distance between the descendant's centre scaled into the ancestor's frame (`centreQ ad / 2^k`) and the ancestor's
centre is at most `r²·(1 + 1/2 + … + 1/2^(k-1))² = r²·(2 − 2/2^k)²`, `r² = reachA = 0.4213·pentArea`. -/
theorem descendant_centre_reach_series (n k o s t : Nat) (hn : n + 1 + k ≤ 30) (ho : o < 6) (hs : s < 4 ^ (n + 1))
    (ht : t < 4 ^ k) :
    ∃ ap ad, sToAnchor s (n + 1) o = .ok ap ∧ sToAnchor (s * 4 ^ k + t) (n + 1 + k) o = .ok ad ∧
      descDistSq k ap ad ≤ 4213 / 10000 * (areaG 0 (pentagonQ ap) / 2) * ((2 - 2 / 2 ^ k) * (2 - 2 / 2 ^ k)) := by
  obtain ⟨ap, ad, h1, h2, hp, hb⟩ := descendant_chain n o s ho hs k t hn ht
  refine ⟨ap, ad, h1, h2, ?_⟩
  rewrite [pentagon_area ap hp]
  exact hb

/-- **Descendant reach** (planar C12 for all depths).  Same hypotheses: the descendant's centre, scaled into the
ancestor's frame, lies at squared distance `< 4·0.4213·area = (2r)²` from the ancestor's centre, where `area` is the area
of the ancestor's pentagon: distance `< 2r = 1.2982·√area`, uniformly in the number `k` of levels. -/
theorem descendant_centre_reach (n k o s t : Nat) (hn : n + 1 + k ≤ 30) (ho : o < 6) (hs : s < 4 ^ (n + 1))
    (ht : t < 4 ^ k) :
    ∃ ap ad, sToAnchor s (n + 1) o = .ok ap ∧ sToAnchor (s * 4 ^ k + t) (n + 1 + k) o = .ok ad ∧
      descDistSq k ap ad < 4 * (4213 / 10000 * (areaG 0 (pentagonQ ap) / 2)) ∧
      descDistSq k ap ad < 169 / 100 * (areaG 0 (pentagonQ ap) / 2) := by
  obtain ⟨ap, ad, h1, h2, hp, hb⟩ := descendant_chain n o s ho hs k t hn ht
  refine ⟨ap, ad, h1, h2, ?_⟩
  rewrite [pentagon_area ap hp]
  have h0 := series_nonneg k
  have h2' := series_lt_two k
  have hA := reachA_pos
  have hP := pentArea_pos
  have hlt : (2 - 2 / 2 ^ k : ℚ) * (2 - 2 / 2 ^ k) < 2 * 2 := mul_self_lt_mul_self h0 h2'
  have : descDistSq k ap ad < 4 * reachA := by nlinarith
  refine ⟨this, ?_⟩
  unfold reachA at this
  linarith

/-- non-vacuity: orientation 3 (reverse + flipIJ), ancestor 2 at depth 1, descendant `2·4^3 + 57 = 185` at depth 4 -/
example : ∃ ap ad, sToAnchor 2 1 3 = .ok ap ∧ sToAnchor 185 4 3 = .ok ad ∧
    descDistSq 3 ap ad < 4 * (4213 / 10000 * (areaG 0 (pentagonQ ap) / 2)) := by
  obtain ⟨ap, ad, h1, h2, h3, _⟩ := descendant_centre_reach 0 3 3 2 57 (by decide) (by decide) (by decide) (by decide)
  exact ⟨ap, ad, h1, h2, h3⟩

/-- the deepest instance the id layout allows: ancestor at depth 1, descendant at depth 30 (`k = 29`) -/
example : ∃ ap ad, sToAnchor 1 1 0 = .ok ap ∧ sToAnchor (1 * 4 ^ 29 + 123456789012345) (0 + 1 + 29) 0 = .ok ad ∧
    descDistSq 29 ap ad < 4 * (4213 / 10000 * (areaG 0 (pentagonQ ap) / 2)) := by
  obtain ⟨ap, ad, h1, h2, h3, _⟩ := descendant_centre_reach 0 29 0 1 123456789012345 (by decide) (by decide) (by decide)
    (by decide)
  exact ⟨ap, ad, h1, h2, h3⟩

/-- the bound `2r` cannot be replaced by the one-level `r`: already two levels down (ancestor 2 at depth 1, orientation 0,
descendant `2·16 + 15 = 47` at depth 3) the squared distance exceeds `0.85·area` (`> 0.4213·area`); the measured maximum
of `dist²/area` over all descendants grows with `k` (0.851, 1.158, 1.330 for `k = 2, 3, 4`) and stays below `4·0.4213 = 1.685` -/
example : sToAnchor 2 1 0 = .ok ⟨2, (0, 1), (1, 1)⟩ ∧ sToAnchor 47 3 0 = .ok ⟨3, (3, 4), (1, 1)⟩ ∧
    85 / 100 * pentArea < descDistSq 2 ⟨2, (0, 1), (1, 1)⟩ ⟨3, (3, 4), (1, 1)⟩ := by
  decide +kernel

end A5.DR
