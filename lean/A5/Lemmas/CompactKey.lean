import A5.Lemmas.PathCodec
import A5.Lemmas.Order
import A5.Model.Compact
/-! # The sort key of `compact` on tree paths (core-only; everything lives in namespace `A5.CompactKey`)

`pkey p` is the closed form of `hierarchyKey (enc p)`:

    world          ↦ 2^57 + 1            (directly above face 0)
    face f         ↦ 5f·2^58 + 2^57      (the id of the face, with `5f` instead of `f` in the six leading bits)
    deep f k ds    ↦ enc (deep f k ds)   (the id itself)

Main results
* `hierarchyKey_enc`       : `hierarchyKey (enc p) = pkey p` for well-formed `p`.
* `pkey_injective`         : distinct cells have distinct keys.
* `pkey_firstChild_lt`, `pkey_lt_lastChild` : every cell (world and faces included) sorts strictly between its
  first and its last child (children in id order = the order of `Path.children`).
* `pkey_between_children`  : a cell whose key lies between the keys of the first and last child of `p` is `p`, a
  descendant of `p`, **or an ancestor of `p` of resolution ≤ 0** (the face key `5f·2^58 + 2^57` lies inside the
  id block of quintant `(f,0)`, and the world key inside the block of quintant `(0,0)`).  For cells of resolution
  ≥ 1 the subtree is therefore contiguous in key order (`pkey_between_children_deep`); the unrestricted
  contiguity statement is false (`not_subtree_contiguous`).
-/
namespace A5.CompactKey
open A5 A5.Path

/-! ### the key -/

/-- closed form of `hierarchyKey ∘ enc` -/
def pkey : Path → Nat
  | world => 2 ^ 57 + 1
  | face f => 5 * f * 2 ^ 58 + 2 ^ 57
  | deep f k ds => enc (deep f k ds)

theorem res_deep_pos (f k : Nat) (ds : List Nat) : 1 ≤ res (deep f k ds) := by
  simp only [res]; omega

theorem hierarchyKey_world : hierarchyKey 0 = 2 ^ 57 + 1 := by decide +kernel

theorem hierarchyKey_face (f : Nat) (hf : f < 12) :
    hierarchyKey (f * 2 ^ 58 + 2 ^ 57) = 5 * f * 2 ^ 58 + 2 ^ 57 := by
  have hr : getResolution (f * 2 ^ 58 + 2 ^ 57) = 0 := (deserialize_shape0 _ f hf rfl).1
  unfold hierarchyKey
  simp only [hr]
  simp only [Gen.HILBERT_START_BIT, and_removal_mask, Nat.shiftRight_eq_div_pow, Nat.shiftLeft_eq]
  rewrite [if_neg (by omega), if_pos True.intro]
  have e1 : (f * 2 ^ 58 + 2 ^ 57) / 2 ^ 58 = f := by omega
  have e2 : (f * 2 ^ 58 + 2 ^ 57) % 2 ^ 58 = 2 ^ 57 := by omega
  rewrite [e1, e2]
  clear e1 e2 hr
  have e3 : 5 * f * 2 ^ 58 % 2 ^ 64 = 5 * f * 2 ^ 58 := by omega
  rewrite [e3]
  have e4 : 5 * f * 2 ^ 58 % 2 ^ (57 + 1) = 0 := by omega
  exact or_marker _ 57 e4

/-- **closed form of the sort key** on canonical ids -/
theorem hierarchyKey_enc {p : Path} (hp : WF p) : hierarchyKey (enc p) = pkey p := by
  cases p with
  | world => exact hierarchyKey_world
  | face f => exact hierarchyKey_face f hp
  | deep f k ds =>
    have h1 := res_deep_pos f k ds
    unfold hierarchyKey
    simp only [getResolution_enc_path hp]
    rewrite [if_neg (by omega), if_neg (by omega)]
    rfl

/-! ### ids of `deep` paths as arithmetic in (six leading bits, curve value, number of digits) -/

/-- `enc (deep f k ds)` as a function of `T = 5f+k`, `v = value ds`, `n = |ds|` -/
def encD (T v n : Nat) : Nat :=
  T * 2 ^ 58 + v * 2 ^ (58 - 2 * n) + (if n = 0 then 2 ^ 56 else 2 ^ (57 - 2 * n))

theorem enc_deep_eq (f k : Nat) (ds : List Nat) :
    enc (deep f k ds) = encD (5 * f + k) (value ds) ds.length := Eq.trans rfl rfl

theorem enc_deep_snoc (f k : Nat) (ds : List Nat) (d : Nat) :
    enc (deep f k (ds ++ [d])) = encD (5 * f + k) (4 * value ds + d) (ds.length + 1) := by
  rewrite [enc_deep_eq, value_append_singleton, List.length_append]
  rfl

/-- 29-way case split on the number of digits; afterwards everything is linear for `omega` -/
macro "digits_cases " n:ident : tactic => `(tactic|
  rcases (show $n = 0 ∨ $n = 1 ∨ $n = 2 ∨ $n = 3 ∨ $n = 4 ∨ $n = 5 ∨ $n = 6 ∨ $n = 7 ∨ $n = 8 ∨ $n = 9 ∨ $n = 10 ∨
      $n = 11 ∨ $n = 12 ∨ $n = 13 ∨ $n = 14 ∨ $n = 15 ∨ $n = 16 ∨ $n = 17 ∨ $n = 18 ∨ $n = 19 ∨ $n = 20 ∨ $n = 21 ∨
      $n = 22 ∨ $n = 23 ∨ $n = 24 ∨ $n = 25 ∨ $n = 26 ∨ $n = 27 ∨ $n = 28 from (by omega)) with
    h|h|h|h|h|h|h|h|h|h|h|h|h|h|h|h|h|h|h|h|h|h|h|h|h|h|h|h|h <;> subst $n)

theorem encD_even (T v n : Nat) (hn : n ≤ 28) : encD T v n % 2 = 0 := by
  digits_cases n
  all_goals
    simp only [encD, Nat.reduceMul, Nat.reduceSub, Nat.reduceEqDiff, if_true, if_false]
    omega

/-- a cell with `n ≤ 27` digits lies strictly between its child `0` and its child `3` -/
theorem encD_child (T v n : Nat) (hn : n ≤ 27) :
    encD T (4 * v) (n + 1) < encD T v n ∧ encD T v n < encD T (4 * v + 3) (n + 1) := by
  digits_cases n
  all_goals
    simp only [encD, Nat.reduceAdd, Nat.reduceMul, Nat.reduceSub, Nat.reduceEqDiff, if_true, if_false]
    omega

/-- no `deep` id equals a face key -/
theorem encD_ne_faceKey (T v n g : Nat) (hn : n ≤ 28) (hv : v < 4 ^ n) :
    encD T v n ≠ 5 * g * 2 ^ 58 + 2 ^ 57 := by
  digits_cases n
  all_goals
    simp only [encD, Nat.reduceMul, Nat.reduceSub, Nat.reduceEqDiff, if_true, if_false]
    simp only [Nat.reducePow] at hv
    omega

/-! ### injectivity -/

theorem pkey_deep_even {f k : Nat} {ds : List Nat} (hp : WF (deep f k ds)) : pkey (deep f k ds) % 2 = 0 := by
  obtain ⟨_, _, _, hl⟩ := hp
  simp only [pkey]
  rewrite [enc_deep_eq]
  exact encD_even _ _ _ hl

/-- **distinct cells have distinct sort keys** -/
theorem pkey_injective {p q : Path} (hp : WF p) (hq : WF q) (h : pkey p = pkey q) : p = q := by
  cases p with
  | world =>
    cases q with
    | world => rfl
    | face g => simp only [pkey] at h; omega
    | deep g j es => have := pkey_deep_even hq; simp only [pkey] at h this; omega
  | face f =>
    cases q with
    | world => simp only [pkey] at h; omega
    | face g =>
      simp only [pkey] at h
      have : f = g := by omega
      rewrite [this]; rfl
    | deep g j es =>
      exfalso
      obtain ⟨_, _, hd, hl⟩ := hq
      simp only [pkey] at h
      rewrite [enc_deep_eq] at h
      exact encD_ne_faceKey _ _ _ f hl (value_lt es hd) h.symm
  | deep f k ds =>
    cases q with
    | world => have := pkey_deep_even hp; simp only [pkey] at h this; omega
    | face g =>
      exfalso
      obtain ⟨_, _, hd, hl⟩ := hp
      simp only [pkey] at h
      rewrite [enc_deep_eq] at h
      exact encD_ne_faceKey _ _ _ g hl (value_lt ds hd) h
    | deep g j es => exact enc_injective hp hq h

/-- on canonical ids `hierarchyKey` is injective -/
theorem hierarchyKey_injective {p q : Path} (hp : WF p) (hq : WF q)
    (h : hierarchyKey (enc p) = hierarchyKey (enc q)) : p = q := by
  rewrite [hierarchyKey_enc hp, hierarchyKey_enc hq] at h
  exact pkey_injective hp hq h

/-! ### first and last child -/

/-- the child with the smallest id -/
def firstChild : Path → Path
  | world => face 0
  | face f => deep f 0 []
  | deep f k ds => deep f k (ds ++ [0])

/-- the child with the largest id -/
def lastChild : Path → Path
  | world => face 11
  | face f => deep f 4 []
  | deep f k ds => deep f k (ds ++ [3])

theorem children_world :
    children world = [face 0, face 1, face 2, face 3, face 4, face 5, face 6, face 7, face 8, face 9, face 10, face 11] :=
  rfl

theorem children_face (f : Nat) :
    children (face f) = [deep f 0 [], deep f 1 [], deep f 2 [], deep f 3 [], deep f 4 []] := rfl

theorem children_deep (f k : Nat) (ds : List Nat) :
    children (deep f k ds) = [deep f k (ds ++ [0]), deep f k (ds ++ [1]), deep f k (ds ++ [2]), deep f k (ds ++ [3])] :=
  rfl

theorem children_eq_firstChild_cons (p : Path) : children p = firstChild p :: (children p).tail := by
  cases p <;> rfl

theorem firstChild_mem (p : Path) : firstChild p ∈ children p := by
  rewrite [children_eq_firstChild_cons]; exact List.mem_cons_self

theorem lastChild_mem (p : Path) : lastChild p ∈ children p := by
  cases p with
  | world => rewrite [children_world]; simp only [lastChild, List.mem_cons, true_or, or_true]
  | face f => rewrite [children_face]; simp only [lastChild, List.mem_cons, true_or, or_true]
  | deep f k ds => rewrite [children_deep]; simp only [lastChild, List.mem_cons, true_or, or_true]

theorem lastChild_mem_tail (p : Path) : lastChild p ∈ (children p).tail := by
  cases p with
  | world => rewrite [children_world]; simp only [lastChild, List.tail_cons, List.mem_cons, true_or, or_true]
  | face f => rewrite [children_face]; simp only [lastChild, List.tail_cons, List.mem_cons, true_or, or_true]
  | deep f k ds => rewrite [children_deep]; simp only [lastChild, List.tail_cons, List.mem_cons, true_or, or_true]

/-- **every cell sorts strictly after its first child** -/
theorem pkey_firstChild_lt {p : Path} (hp : WF p) (h28 : res p ≤ 28) : pkey (firstChild p) < pkey p := by
  cases p with
  | world => simp only [firstChild, pkey]; omega
  | face f =>
    simp only [firstChild, pkey, enc, value_nil, List.length_nil, if_true]
    omega
  | deep f k ds =>
    simp only [res] at h28
    simp only [firstChild, pkey]
    rewrite [enc_deep_snoc, enc_deep_eq]
    exact (encD_child _ _ _ (by omega)).1

/-- **every cell sorts strictly before its last child** -/
theorem pkey_lt_lastChild {p : Path} (hp : WF p) (h28 : res p ≤ 28) : pkey p < pkey (lastChild p) := by
  cases p with
  | world => simp only [lastChild, pkey]; omega
  | face f =>
    simp only [lastChild, pkey, enc, value_nil, List.length_nil, if_true]
    omega
  | deep f k ds =>
    simp only [res] at h28
    simp only [lastChild, pkey]
    rewrite [enc_deep_snoc, enc_deep_eq]
    exact (encD_child _ _ _ (by omega)).2

/-! ### subtree contiguity in key order -/

/-- `a` is `q` or an ancestor of `q` -/
def Covers (a q : Path) : Prop := res a ≤ res q ∧ ancestorAt q (res a) = a

theorem covers_refl (p : Path) : Covers p p := ⟨Int.le_refl _, ancestorAt_self p _ (Int.le_refl _)⟩

theorem covers_world (q : Path) : Covers world q := by
  refine ⟨res_ge q, ?_⟩
  cases q <;> simp [ancestorAt, res]

theorem covers_face_deep (f k : Nat) (ds : List Nat) : Covers (face f) (deep f k ds) := by
  refine ⟨by simp only [res]; omega, ?_⟩
  simp [ancestorAt, res]

/-- the id of a `deep` cell lies strictly inside the `2^58`-block named by its six leading bits -/
theorem enc_deep_block {f k : Nat} {ds : List Nat} (hp : WF (deep f k ds)) :
    (5 * f + k) * 2 ^ 58 + 2 ≤ enc (deep f k ds) ∧ enc (deep f k ds) + 2 ≤ (5 * f + k + 1) * 2 ^ 58 := by
  obtain ⟨_, _, hd, hl⟩ := hp
  have h := Order.tail_bounds 0 ds hd (by omega)
  rewrite [Nat.zero_add, Order.W_zero] at h
  rewrite [Order.enc_deep]
  omega

theorem pkey_world : pkey world = 2 ^ 57 + 1 := Eq.trans rfl rfl
theorem pkey_face (f : Nat) : pkey (face f) = 5 * f * 2 ^ 58 + 2 ^ 57 := Eq.trans rfl rfl
theorem pkey_deep (f k : Nat) (ds : List Nat) : pkey (deep f k ds) = enc (deep f k ds) := Eq.trans rfl rfl
theorem enc_quint (f k : Nat) : enc (deep f k []) = (5 * f + k) * 2 ^ 58 + 2 ^ 56 := by
  simp only [enc, value_nil, List.length_nil, Nat.zero_mul, Nat.add_zero, if_true]

theorem between_face {f : Nat} {q : Path} (hq : WF q)
    (h1 : pkey (firstChild (face f)) ≤ pkey q) (h2 : pkey q ≤ pkey (lastChild (face f))) :
    Covers (face f) q ∨ (res q ≤ 0 ∧ Covers q (face f)) := by
  have e1 : pkey (firstChild (face f)) = (5 * f + 0) * 2 ^ 58 + 2 ^ 56 := enc_quint f 0
  have e2 : pkey (lastChild (face f)) = (5 * f + 4) * 2 ^ 58 + 2 ^ 56 := enc_quint f 4
  rewrite [e1] at h1; rewrite [e2] at h2
  clear e1 e2
  cases q with
  | world => exact Or.inr ⟨by simp only [res]; omega, covers_world _⟩
  | face g =>
    rewrite [pkey_face] at h1 h2
    have : g = f := by omega
    rewrite [this]; exact Or.inl (covers_refl _)
  | deep g j es =>
    have hb := enc_deep_block hq
    obtain ⟨_, hj, _, _⟩ := hq
    rewrite [pkey_deep] at h1 h2
    have : g = f := by omega
    rewrite [this]; exact Or.inl (covers_face_deep f j es)

theorem between_deep {f k : Nat} {ds : List Nat} {q : Path} (hp : WF (deep f k ds)) (h28 : ds.length ≤ 27) (hq : WF q)
    (h1 : pkey (firstChild (deep f k ds)) ≤ pkey q) (h2 : pkey q ≤ pkey (lastChild (deep f k ds))) :
    Covers (deep f k ds) q ∨ (res q ≤ 0 ∧ Covers q (deep f k ds)) := by
  have hwf := hp
  obtain ⟨hf, hk, hd, hl⟩ := hp
  have hd4 : ∀ j, j < 4 → ∀ d ∈ [j], d < 4 := by
    intro j hj d hd'; simp only [List.mem_singleton] at hd'; omega
  have b0 := Order.enc_append_bounds f k ds [0] (hd4 0 (by omega)) (by simp only [List.length_singleton]; omega)
  have b3 := Order.enc_append_bounds f k ds [3] (hd4 3 (by omega)) (by simp only [List.length_singleton]; omega)
  have e1 : pkey (firstChild (deep f k ds)) = enc (deep f k (ds ++ [0])) := Eq.trans rfl rfl
  have e2 : pkey (lastChild (deep f k ds)) = enc (deep f k (ds ++ [3])) := Eq.trans rfl rfl
  rewrite [e1] at h1; rewrite [e2] at h2
  clear e1 e2
  cases q with
  | world => exact Or.inr ⟨by simp only [res]; omega, covers_world _⟩
  | face g =>
    rewrite [pkey_face] at h1 h2
    have hbl := Order.value_mul_W_le ds hd (by omega)
    have hW := Order.W_pos ds.length
    have e : Order.blockBase f k ds = (5 * f + k) * 2 ^ 58 + value ds * Order.W ds.length := Eq.trans rfl rfl
    rewrite [e] at b0 b3
    have : g = f := by omega
    rewrite [this]; exact Or.inr ⟨by simp only [res]; omega, covers_face_deep f k ds⟩
  | deep g j es =>
    rewrite [pkey_deep] at h1 h2
    have e3 : Order.lo (deep f k ds) = Order.blockBase f k ds + 2 := Eq.trans rfl rfl
    have e4 : Order.hi (deep f k ds) = Order.blockBase f k ds + Order.W ds.length - 2 := Eq.trans rfl rfl
    have := Order.ancestor_of_enc_bounds hwf hq (res_deep_pos f k ds) (res_deep_pos g j es)
      (by rewrite [e3]; omega) (by rewrite [e4]; omega)
    exact Or.inl this

/-- **subtree contiguity, true form.**  If the key of `q` lies between the keys of the first and the last child of
`p`, then `q` is `p` or a descendant of `p` — or `q` is the world cell or a face and an ancestor of `p`. -/
theorem pkey_between_children {p q : Path} (hp : WF p) (h28 : res p ≤ 28) (hq : WF q)
    (h1 : pkey (firstChild p) ≤ pkey q) (h2 : pkey q ≤ pkey (lastChild p)) :
    Covers p q ∨ (res q ≤ 0 ∧ Covers q p) := by
  cases p with
  | world => exact Or.inl (covers_world q)
  | face f => exact between_face hq h1 h2
  | deep f k ds =>
    simp only [res] at h28
    exact between_deep hp (by omega) hq h1 h2

/-- for cells of resolution ≥ 1 the subtree of `p` is contiguous in key order -/
theorem pkey_between_children_deep {p q : Path} (hp : WF p) (h28 : res p ≤ 28) (hq : WF q) (hq1 : 1 ≤ res q)
    (h1 : pkey (firstChild p) ≤ pkey q) (h2 : pkey q ≤ pkey (lastChild p)) : Covers p q := by
  rcases pkey_between_children hp h28 hq h1 h2 with h | ⟨h, _⟩
  · exact h
  · omega

/-- the unrestricted contiguity statement ("everything between the first and the last child of `p` is `p` or a
descendant of `p`") -/
def subtree_contiguous_statement : Prop :=
  ∀ p q : Path, WF p → res p ≤ 28 → WF q → pkey (firstChild p) ≤ pkey q → pkey q ≤ pkey (lastChild p) → Covers p q

/-- … is false: face 0 and the world cell sort between the children `[1]` and `[2]` of quintant `(0,0)`. -/
theorem not_subtree_contiguous : ¬ subtree_contiguous_statement := by
  intro h
  have := h (deep 0 0 []) (face 0) (by decide) (by decide) (by decide) (by decide) (by decide)
  exact absurd this.1 (by decide)

/-! non-vacuity: a resolution-3 cell between its children; the key of a face differs from its id -/
example : pkey (deep 7 3 [2, 0]) < pkey (deep 7 3 [2]) ∧ pkey (deep 7 3 [2]) < pkey (deep 7 3 [2, 3]) := by decide
example : hierarchyKey (enc (face 3)) = 15 * 2 ^ 58 + 2 ^ 57 := by decide +kernel
example : pkey (deep 0 0 [1]) < pkey (face 0) ∧ pkey (face 0) < pkey world ∧ pkey world < pkey (deep 0 0 [2]) := by
  decide

end A5.CompactKey
