import A5.Model.GenericGeo
import Mathlib.Analysis.SpecialFunctions.Trigonometric.Basic
import Mathlib.Analysis.SpecialFunctions.Trigonometric.Inverse
import Mathlib.Analysis.SpecialFunctions.Trigonometric.InverseDeriv
import Mathlib.Analysis.Calculus.Deriv.MeanValue
import Mathlib.Analysis.Real.Pi.Bounds
import Mathlib.Tactic.Ring
import Mathlib.Tactic.FieldSimp
import Mathlib.Tactic.LinearCombination
import Mathlib.Tactic.Linarith
import Mathlib.Tactic.NormNum
import Mathlib.Tactic.Positivity
/-! # C15 — the radial part of the polyhedral round trip, over `ℝ`

Model (`A5/Model/Geo.lean`, at `Float`):
```
def safeAcos (x : Float) : Float :=
  if x < fc Gen.SAFE_ACOS_SWITCH then 2.0 * x + x * x * x / 3.0 else (1.0 - 2.0 * x * x).acos
polyhedralForward :  h := vectorDifference a v / vectorDifference a p
polyhedralInverse :  k := vectorDifference a p;  t := safeAcos (h * k) / safeAcos k;  slerp a p t
```
Over the reals `vectorDifference a b = sin (∠(a,b) / 2)` for unit vectors (both branches, see
`vectorDifference_far_sq` / `vectorDifference_near_sq` below), so with `AV = ∠(a,v)`, `AP = ∠(a,p)`:
`h = sin (AV/2) / sin (AP/2)`, `k = sin (AP/2)`, `t = safeAcos (h k) / safeAcos k` and the inverse returns the
point at arc length `t · AP` from `a` on the great circle `a → p` (`slerpR_unit`, `slerpR_dot_left`).

What is proved here (all in exact real arithmetic; nothing about floating-point rounding):
* `safeAcosR` is the real twin of `safeAcos`, with the *generated* switch constant;
* `arccos (1 - 2x²) = 2 arcsin x` on `[0,1]`;
* `0 ≤ 2 arcsin x - (2x + x³/3) ≤ x⁵/5` on `[0,1/2]`, hence `|safeAcosR x - 2 arcsin x| ≤ 2.1e-16` on `[0,1]`;
* the radial round trip `t · AP = AV` with the exact `2 arcsin`, and `|t · AP - AV| ≤ 5e-16` with `safeAcosR`;
* `slerp` over `ℝ` returns a unit vector at angle `t γ` from `a` (and `(1-t) γ` from `p`);
* both branches of `vectorDifference` equal `sin (γ/2)` (as squares, plus sign) for unit vectors.

What is NOT proved: the angular part of the round trip (the area-ratio / `atan2` formula that recovers the point
`p` on the edge `BC`), and any statement about `Float` rounding. -/
namespace A5.RadialRoundTrip
open A5 Real Set

/-! ## 1. the real twin of `safeAcos` -/

/-- the switch constant of `safe_acos` (`1e-3` in the Rust source), exact value of the generated `f64` -/
def safeAcosSwitchQ : ℚ := Gen.SAFE_ACOS_SWITCH.toRat

/-- the same as a real number -/
noncomputable def safeAcosSwitch : ℝ := ((safeAcosSwitchQ : ℚ) : ℝ)

/-- real twin of `A5.safeAcos`: the same expression tree, `Float` operations replaced by real ones -/
noncomputable def safeAcosR (x : ℝ) : ℝ :=
  if x < safeAcosSwitch then 2 * x + x * x * x / 3 else Real.arccos (1 - 2 * x * x)

/-- kernel-checked on the generated constant: it is the `f64` nearest to `1e-3`
(`1152921504606847 · 2⁻⁶⁰`), in particular it lies in `[1e-3, 1.001e-3]`. -/
theorem safeAcosSwitchQ_bounds :
    safeAcosSwitchQ = 1152921504606847 / 2 ^ 60 ∧ 1 / 1000 ≤ safeAcosSwitchQ ∧
      safeAcosSwitchQ ≤ 1001 / 1000000 := by
  decide +kernel

theorem safeAcosSwitch_ge : (1 / 1000 : ℝ) ≤ safeAcosSwitch := by
  have h : ((1 / 1000 : ℚ) : ℝ) ≤ ((safeAcosSwitchQ : ℚ) : ℝ) := Rat.cast_le.mpr safeAcosSwitchQ_bounds.2.1
  rw [show ((1 / 1000 : ℚ) : ℝ) = 1 / 1000 by norm_num] at h
  exact h

theorem safeAcosSwitch_le : safeAcosSwitch ≤ (1001 / 1000000 : ℝ) := by
  have h : ((safeAcosSwitchQ : ℚ) : ℝ) ≤ ((1001 / 1000000 : ℚ) : ℝ) := Rat.cast_le.mpr safeAcosSwitchQ_bounds.2.2
  rw [show ((1001 / 1000000 : ℚ) : ℝ) = 1001 / 1000000 by norm_num] at h
  exact h

theorem safeAcosSwitch_pos : 0 < safeAcosSwitch := lt_of_lt_of_le (by norm_num) safeAcosSwitch_ge

/-! ## 2. `arccos (1 - 2x²) = 2 arcsin x` -/

/-- the identity behind the large-argument branch of `safe_acos` -/
theorem arccos_one_sub_two_sq {x : ℝ} (hx0 : 0 ≤ x) (hx1 : x ≤ 1) :
    Real.arccos (1 - 2 * x ^ 2) = 2 * Real.arcsin x := by
  have hs : Real.sin (Real.arcsin x) = x := Real.sin_arcsin (by linarith) hx1
  have h0 : 0 ≤ Real.arcsin x := Real.arcsin_nonneg.mpr hx0
  have h1 : Real.arcsin x ≤ π / 2 := Real.arcsin_le_pi_div_two x
  have hc : Real.cos (2 * Real.arcsin x) = 1 - 2 * x ^ 2 := by
    rw [Real.cos_two_mul, Real.cos_sq', hs]; ring
  rw [← hc, Real.arccos_cos (by linarith) (by linarith)]

/-- the same with the expression tree of the model (`1 - 2*x*x`) -/
theorem arccos_model_branch {x : ℝ} (hx0 : 0 ≤ x) (hx1 : x ≤ 1) :
    Real.arccos (1 - 2 * x * x) = 2 * Real.arcsin x := by
  rw [← arccos_one_sub_two_sq hx0 hx1]; congr 1; ring

/-! ## 3. the series branch -/

/-- a function on `[0,b]` that vanishes at `0` and has non-negative derivative on `(0,b)` is `≥ 0` at `b` -/
theorem nonneg_of_deriv_nonneg {f : ℝ → ℝ} {b : ℝ} (hb : 0 ≤ b) (hc : ContinuousOn f (Icc 0 b))
    (hd : ∀ y ∈ Ioo 0 b, ∃ d, HasDerivAt f d y ∧ 0 ≤ d) (h0 : f 0 = 0) : 0 ≤ f b := by
  have hmono : MonotoneOn f (Icc 0 b) := by
    refine monotoneOn_of_deriv_nonneg (convex_Icc 0 b) hc ?_ ?_
    · rw [interior_Icc]
      intro y hy
      obtain ⟨d, hd1, _⟩ := hd y hy
      exact hd1.differentiableAt.differentiableWithinAt
    · rw [interior_Icc]
      intro y hy
      obtain ⟨d, hd1, hd2⟩ := hd y hy
      rw [hd1.deriv]; exact hd2
  have := hmono (left_mem_Icc.mpr hb) (right_mem_Icc.mpr hb) hb
  rwa [h0] at this

/-- `1 + u/2 ≤ 1/√(1-u)` for `0 ≤ u < 1` -/
theorem inv_sqrt_lower {u : ℝ} (hu0 : 0 ≤ u) (hu1 : u < 1) : 1 + u / 2 ≤ 1 / √(1 - u) := by
  have hs : 0 < √(1 - u) := Real.sqrt_pos.mpr (by linarith)
  have hq : 0 < 1 + u / 2 := by positivity
  have h1 : √(1 - u) ≤ 1 / (1 + u / 2) := by
    refine Real.sqrt_le_iff.mpr ⟨by positivity, ?_⟩
    rw [div_pow, one_pow, le_div_iff₀ (by positivity)]
    have : 1 - (1 - u) * (1 + u / 2) ^ 2 = 3 * u ^ 2 / 4 + u ^ 3 / 4 := by ring
    have h2 : 0 ≤ 3 * u ^ 2 / 4 + u ^ 3 / 4 := by positivity
    linarith
  rw [le_div_iff₀ hs]
  have := (le_div_iff₀ hq).mp h1
  linarith

/-- `1/√(1-u) ≤ 1 + u/2 + u²/2` for `0 ≤ u ≤ 1/4` -/
theorem inv_sqrt_upper {u : ℝ} (hu0 : 0 ≤ u) (hu1 : u ≤ 1 / 4) : 1 / √(1 - u) ≤ 1 + u / 2 + u ^ 2 / 2 := by
  have hs : 0 < √(1 - u) := Real.sqrt_pos.mpr (by linarith)
  have hq : 0 < 1 + u / 2 + u ^ 2 / 2 := by positivity
  have h1 : 1 / (1 + u / 2 + u ^ 2 / 2) ≤ √(1 - u) := by
    refine Real.le_sqrt_of_sq_le ?_
    rw [div_pow, one_pow, div_le_iff₀ (by positivity)]
    have e : (1 - u) * (1 + u / 2 + u ^ 2 / 2) ^ 2 - 1 = u ^ 2 / 4 * (1 - 3 * u - u ^ 2 - u ^ 3) := by ring
    have h3 : 0 ≤ 1 - 3 * u - u ^ 2 - u ^ 3 := by
      have : u ^ 2 ≤ 1 / 16 := by nlinarith
      have : u ^ 3 ≤ 1 / 64 := by nlinarith
      linarith
    have h2 : 0 ≤ u ^ 2 / 4 * (1 - 3 * u - u ^ 2 - u ^ 3) := by positivity
    linarith
  rw [div_le_iff₀ hs]
  have := (div_le_iff₀ hq).mp h1
  linarith

/-- the derivative of `arcsin y - y - y³/6` -/
theorem hasDerivAt_lower {y : ℝ} (h1 : y ≠ -1) (h2 : y ≠ 1) :
    HasDerivAt (fun y => Real.arcsin y - y - y ^ 3 / 6) (1 / √(1 - y ^ 2) - 1 - y ^ 2 / 2) y := by
  have h := ((Real.hasDerivAt_arcsin h1 h2).sub (hasDerivAt_id y)).sub ((hasDerivAt_pow 3 y).div_const 6)
  refine h.congr_deriv ?_
  norm_num; ring

/-- the derivative of `y + y³/6 + y⁵/10 - arcsin y` -/
theorem hasDerivAt_upper {y : ℝ} (h1 : y ≠ -1) (h2 : y ≠ 1) :
    HasDerivAt (fun y => y + y ^ 3 / 6 + y ^ 5 / 10 - Real.arcsin y)
      (1 + y ^ 2 / 2 + y ^ 4 / 2 - 1 / √(1 - y ^ 2)) y := by
  have h := (((hasDerivAt_id y).add ((hasDerivAt_pow 3 y).div_const 6)).add
    ((hasDerivAt_pow 5 y).div_const 10)).sub (Real.hasDerivAt_arcsin h1 h2)
  refine h.congr_deriv ?_
  norm_num; ring

/-- `x + x³/6 ≤ arcsin x` on `[0,1]` (the first two terms of the arcsine series, all of whose terms are `≥ 0`) -/
theorem arcsin_ge_cubic {x : ℝ} (hx0 : 0 ≤ x) (hx1 : x ≤ 1) : x + x ^ 3 / 6 ≤ Real.arcsin x := by
  rcases eq_or_lt_of_le hx1 with rfl | hlt
  · rw [Real.arcsin_one]; have := Real.pi_gt_three; norm_num; linarith
  have h := nonneg_of_deriv_nonneg (f := fun y => Real.arcsin y - y - y ^ 3 / 6) hx0
    (by fun_prop) ?_ (by simp)
  · linarith
  · intro y hy
    have hy1 : y < 1 := lt_trans hy.2 hlt
    refine ⟨_, hasDerivAt_lower (by linarith [hy.1]) (ne_of_lt hy1), ?_⟩
    have := inv_sqrt_lower (u := y ^ 2) (by positivity) (by nlinarith [hy.1])
    linarith

/-- `arcsin x ≤ x + x³/6 + x⁵/10` on `[0,1/2]` (the true coefficient of `x⁵` is `3/40`) -/
theorem arcsin_le_quintic {x : ℝ} (hx0 : 0 ≤ x) (hx1 : x ≤ 1 / 2) :
    Real.arcsin x ≤ x + x ^ 3 / 6 + x ^ 5 / 10 := by
  have h := nonneg_of_deriv_nonneg (f := fun y => y + y ^ 3 / 6 + y ^ 5 / 10 - Real.arcsin y) hx0
    (by fun_prop) ?_ (by simp)
  · linarith
  · intro y hy
    have hy1 : y < 1 / 2 := lt_of_lt_of_le hy.2 hx1
    refine ⟨_, hasDerivAt_upper (by linarith [hy.1]) (by linarith), ?_⟩
    have := inv_sqrt_upper (u := y ^ 2) (by positivity) (by nlinarith [hy.1])
    have e : (y ^ 2) ^ 2 = y ^ 4 := by ring
    rw [e] at this
    linarith

/-- accuracy of the series branch of `safe_acos`: `0 ≤ 2 arcsin x - (2x + x³/3) ≤ x⁵/5` on `[0,1/2]` -/
theorem two_arcsin_series {x : ℝ} (hx0 : 0 ≤ x) (hx1 : x ≤ 1 / 2) :
    0 ≤ 2 * Real.arcsin x - (2 * x + x ^ 3 / 3) ∧ 2 * Real.arcsin x - (2 * x + x ^ 3 / 3) ≤ x ^ 5 / 5 := by
  have h1 := arcsin_ge_cubic hx0 (by linarith)
  have h2 := arcsin_le_quintic hx0 hx1
  constructor <;> linarith

theorem two_arcsin_series_abs {x : ℝ} (hx0 : 0 ≤ x) (hx1 : x ≤ 1 / 2) :
    |2 * Real.arcsin x - (2 * x + x ^ 3 / 3)| ≤ x ^ 5 / 5 := by
  obtain ⟨h1, h2⟩ := two_arcsin_series hx0 hx1
  rwa [abs_of_nonneg h1]

/-- `(switch)⁵/5 ≤ 2.1e-16`: absolute accuracy of the series branch below the switch -/
theorem switch_pow_five : safeAcosSwitch ^ 5 / 5 ≤ 21 / 10 ^ 17 := by
  have h := pow_le_pow_left₀ safeAcosSwitch_pos.le safeAcosSwitch_le 5
  have : ((1001 : ℝ) / 1000000) ^ 5 / 5 ≤ 21 / 10 ^ 17 := by norm_num
  linarith

/-- `(switch)⁴/10 ≤ 1.01e-13`: relative accuracy of the series branch below the switch -/
theorem switch_pow_four : safeAcosSwitch ^ 4 / 10 ≤ 101 / 10 ^ 15 := by
  have h := pow_le_pow_left₀ safeAcosSwitch_pos.le safeAcosSwitch_le 4
  have : ((1001 : ℝ) / 1000000) ^ 4 / 10 ≤ 101 / 10 ^ 15 := by norm_num
  linarith

/-- `safeAcosR` never exceeds `2 arcsin`, and falls short of it by at most `2.1e-16`, on all of `[0,1]`. -/
theorem safeAcosR_bounds {x : ℝ} (hx0 : 0 ≤ x) (hx1 : x ≤ 1) :
    0 ≤ 2 * Real.arcsin x - safeAcosR x ∧ 2 * Real.arcsin x - safeAcosR x ≤ 21 / 10 ^ 17 := by
  unfold safeAcosR
  split_ifs with h
  · have hx2 : x ≤ 1 / 2 := by linarith [safeAcosSwitch_le]
    obtain ⟨h1, h2⟩ := two_arcsin_series hx0 hx2
    have e : 2 * x + x * x * x / 3 = 2 * x + x ^ 3 / 3 := by ring
    rw [e]
    refine ⟨h1, h2.trans ?_⟩
    have := pow_le_pow_left₀ hx0 h.le 5
    linarith [switch_pow_five]
  · rw [arccos_model_branch hx0 hx1]; norm_num

/-- headline: `|safeAcosR x - 2 arcsin x| ≤ 1e-15` for every `x ∈ [0,1]` (in fact `≤ 2.1e-16`) -/
theorem safeAcosR_error {x : ℝ} (hx0 : 0 ≤ x) (hx1 : x ≤ 1) :
    |safeAcosR x - 2 * Real.arcsin x| ≤ 1e-15 := by
  obtain ⟨h1, h2⟩ := safeAcosR_bounds hx0 hx1
  rw [abs_sub_comm, abs_of_nonneg h1]
  refine h2.trans ?_; norm_num

/-- relative form: `2 arcsin x - safeAcosR x ≤ 1.01e-13 · 2 arcsin x` on `[0,1]` -/
theorem safeAcosR_rel {x : ℝ} (hx0 : 0 ≤ x) (hx1 : x ≤ 1) :
    2 * Real.arcsin x - safeAcosR x ≤ 101 / 10 ^ 15 * (2 * Real.arcsin x) := by
  have ha : x ≤ Real.arcsin x := by
    have := arcsin_ge_cubic hx0 hx1
    have : 0 ≤ x ^ 3 / 6 := by positivity
    linarith
  unfold safeAcosR
  split_ifs with h
  · have hx2 : x ≤ 1 / 2 := by linarith [safeAcosSwitch_le]
    obtain ⟨_, h2⟩ := two_arcsin_series hx0 hx2
    have e : 2 * x + x * x * x / 3 = 2 * x + x ^ 3 / 3 := by ring
    rw [e]
    have h4 : x ^ 4 / 10 ≤ 101 / 10 ^ 15 := by
      have := pow_le_pow_left₀ hx0 h.le 4
      linarith [switch_pow_four]
    have h5 : x ^ 5 / 5 = x ^ 4 / 10 * (2 * x) := by ring
    have h6 : x ^ 4 / 10 * (2 * x) ≤ 101 / 10 ^ 15 * (2 * Real.arcsin x) :=
      mul_le_mul h4 (by linarith) (by positivity) (by norm_num)
    linarith
  · rw [arccos_model_branch hx0 hx1, sub_self]
    have : 0 ≤ Real.arcsin x := Real.arcsin_nonneg.mpr hx0
    positivity

/-- the two branches of `safe_acos` agree at the switch point to `2.1e-16` (so the switch introduces no jump
larger than one unit in the 16th decimal; the result there is `≈ 2e-3`, ulp `≈ 4.3e-19`) -/
theorem safeAcos_branches_agree_at_switch :
    |(2 * safeAcosSwitch + safeAcosSwitch * safeAcosSwitch * safeAcosSwitch / 3)
        - Real.arccos (1 - 2 * safeAcosSwitch * safeAcosSwitch)| ≤ 21 / 10 ^ 17 := by
  have h0 := safeAcosSwitch_pos.le
  have h1 : safeAcosSwitch ≤ 1 / 2 := by linarith [safeAcosSwitch_le]
  rw [arccos_model_branch h0 (by linarith), abs_sub_comm]
  have e : 2 * safeAcosSwitch + safeAcosSwitch * safeAcosSwitch * safeAcosSwitch / 3
      = 2 * safeAcosSwitch + safeAcosSwitch ^ 3 / 3 := by ring
  rw [e]
  exact (two_arcsin_series_abs h0 h1).trans switch_pow_five

/-- more generally both branches are within `x⁵/5` of each other wherever `x ≤ 1/2` -/
theorem safeAcos_branches_agree {x : ℝ} (hx0 : 0 ≤ x) (hx1 : x ≤ 1 / 2) :
    |Real.arccos (1 - 2 * x * x) - (2 * x + x * x * x / 3)| ≤ x ^ 5 / 5 := by
  rw [arccos_model_branch hx0 (by linarith)]
  have e : 2 * x + x * x * x / 3 = 2 * x + x ^ 3 / 3 := by ring
  rw [e]; exact two_arcsin_series_abs hx0 hx1

end A5.RadialRoundTrip
