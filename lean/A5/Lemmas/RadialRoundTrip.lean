import A5.Model.GenericGeo
import Mathlib.Analysis.SpecialFunctions.Trigonometric.Basic
import Mathlib.Analysis.SpecialFunctions.Trigonometric.Inverse
import Mathlib.Analysis.SpecialFunctions.Trigonometric.InverseDeriv
import Mathlib.Analysis.Calculus.Deriv.MeanValue
import Mathlib.Analysis.Real.Pi.Bounds
import Mathlib.Tactic.Ring
import Mathlib.Tactic.FieldSimp
import Mathlib.Tactic.LinearCombination
import Mathlib.Tactic.Linarith
import Mathlib.Tactic.NormNum
import Mathlib.Tactic.Positivity
/-! # C15 — the radial part of the polyhedral round trip, over `ℝ`

Model (`A5/Model/Geo.lean`, at `Float`):
```
def safeAcos (x : Float) : Float :=
  if x < fc Gen.SAFE_ACOS_SWITCH then 2.0 * x + x * x * x / 3.0 else (1.0 - 2.0 * x * x).acos
polyhedralForward :  h := vectorDifference a v / vectorDifference a p
polyhedralInverse :  k := vectorDifference a p;  t := safeAcos (h * k) / safeAcos k;  slerp a p t
```
Over the reals `vectorDifference a b = sin (∠(a,b) / 2)` for unit vectors (both branches, see
`vectorDifference_near` / `vectorDifference_far` / `vectorDifferenceR_eq` below), so with `AV = ∠(a,v)`, `AP = ∠(a,p)`:
`h = sin (AV/2) / sin (AP/2)`, `k = sin (AP/2)`, `t = safeAcos (h k) / safeAcos k` and the inverse returns the
point at arc length `t · AP` from `a` on the great circle `a → p` (`slerpR_spec`, `slerpR_angle`).

What is proved here (all in exact real arithmetic; nothing about floating-point rounding):
* `safeAcosR` is the real twin of `safeAcos`, with the *generated* switch constant;
* `arccos (1 - 2x²) = 2 arcsin x` on `[0,1]`;
* `0 ≤ 2 arcsin x - (2x + x³/3) ≤ x⁵/5` on `[0,1/2]`, hence `|safeAcosR x - 2 arcsin x| ≤ 2.1e-16` on `[0,1]`;
* the radial round trip `t · AP = AV` with the exact `2 arcsin`, and `|t · AP - AV| ≤ 5e-16` with `safeAcosR`;
* `slerp` over `ℝ` returns a unit vector at angle `t γ` from `a` (and `(1-t) γ` from `p`);
* both branches of `vectorDifference` equal `sin (γ/2)` for unit vectors at angle `γ < π`;
* at the level of vectors: for `v = slerp a p s` on the arc, the inverse's `slerp a p t` returns `v` exactly with
  `2 arcsin` (`radial_roundtrip_vector`) and a unit vector within `5e-16` of `v` with `safeAcosR`
  (`radial_roundtrip_vector_safeAcos`).
The real twins `slerpR`, `angleR`, `vectorDifferenceR` are transcriptions of the model's expression trees (not tied
by `rfl`, the model's `V3` has `Float` fields); `safeAcosR` is tied to the model through `safeAcosG` by `rfl`.

What is NOT proved: the angular part of the round trip (the area-ratio / `atan2` formula that recovers the point
`p` on the edge `BC`), and any statement about `Float` rounding. -/
namespace A5.RadialRoundTrip
open A5 Real Set

/-! ## 1. the real twin of `safeAcos` -/

/-- the switch constant of `safe_acos` (`1e-3` in the Rust source), exact value of the generated `f64` -/
def safeAcosSwitchQ : ℚ := Gen.SAFE_ACOS_SWITCH.toRat

/-- the same as a real number -/
noncomputable def safeAcosSwitch : ℝ := ((safeAcosSwitchQ : ℚ) : ℝ)

/-- real twin of `A5.safeAcos`: the same expression tree, `Float` operations replaced by real ones -/
noncomputable def safeAcosR (x : ℝ) : ℝ :=
  if x < safeAcosSwitch then 2 * x + x * x * x / 3 else Real.arccos (1 - 2 * x * x)

/-- generic twin of `safe_acos`: one expression tree, instantiated at `Float` by the model and at `ℝ` here -/
def safeAcosG {α : Type} [Add α] [Sub α] [Mul α] [Div α] [LT α] [DecidableRel (α := α) (· < ·)]
    (acos : α → α) (one two three thr : α) (x : α) : α :=
  if x < thr then two * x + x * x * x / three else acos (one - two * x * x)

/-- the float model is the generic twin at `Float` (by `rfl`) -/
theorem safeAcos_tie (x : Float) :
    safeAcos x = safeAcosG Float.acos 1.0 2.0 3.0 (fc Gen.SAFE_ACOS_SWITCH) x := rfl

/-- `safeAcosR` is the generic twin at `ℝ`, with `arccos` and the exact value of the generated switch -/
theorem safeAcosR_tie (x : ℝ) : safeAcosR x = safeAcosG Real.arccos 1 2 3 safeAcosSwitch x := rfl

/-- kernel-checked on the generated constant: it is the `f64` nearest to `1e-3`
(`1152921504606847 · 2⁻⁶⁰`), in particular it lies in `[1e-3, 1.001e-3]`. -/
theorem safeAcosSwitchQ_bounds :
    safeAcosSwitchQ = 1152921504606847 / 2 ^ 60 ∧ 1 / 1000 ≤ safeAcosSwitchQ ∧
      safeAcosSwitchQ ≤ 1001 / 1000000 := by
  decide +kernel

theorem safeAcosSwitch_ge : (1 / 1000 : ℝ) ≤ safeAcosSwitch := by
  have h : ((1 / 1000 : ℚ) : ℝ) ≤ ((safeAcosSwitchQ : ℚ) : ℝ) := Rat.cast_le.mpr safeAcosSwitchQ_bounds.2.1
  rw [show ((1 / 1000 : ℚ) : ℝ) = 1 / 1000 by norm_num] at h
  exact h

theorem safeAcosSwitch_le : safeAcosSwitch ≤ (1001 / 1000000 : ℝ) := by
  have h : ((safeAcosSwitchQ : ℚ) : ℝ) ≤ ((1001 / 1000000 : ℚ) : ℝ) := Rat.cast_le.mpr safeAcosSwitchQ_bounds.2.2
  rw [show ((1001 / 1000000 : ℚ) : ℝ) = 1001 / 1000000 by norm_num] at h
  exact h

theorem safeAcosSwitch_pos : 0 < safeAcosSwitch := lt_of_lt_of_le (by norm_num) safeAcosSwitch_ge

/-! ## 2. `arccos (1 - 2x²) = 2 arcsin x` -/

/-- the identity behind the large-argument branch of `safe_acos` -/
theorem arccos_one_sub_two_sq {x : ℝ} (hx0 : 0 ≤ x) (hx1 : x ≤ 1) :
    Real.arccos (1 - 2 * x ^ 2) = 2 * Real.arcsin x := by
  have hs : Real.sin (Real.arcsin x) = x := Real.sin_arcsin (by linarith) hx1
  have h0 : 0 ≤ Real.arcsin x := Real.arcsin_nonneg.mpr hx0
  have h1 : Real.arcsin x ≤ π / 2 := Real.arcsin_le_pi_div_two x
  have hc : Real.cos (2 * Real.arcsin x) = 1 - 2 * x ^ 2 := by
    rw [Real.cos_two_mul, Real.cos_sq', hs]; ring
  rw [← hc, Real.arccos_cos (by linarith) (by linarith)]

/-- the same with the expression tree of the model (`1 - 2*x*x`) -/
theorem arccos_model_branch {x : ℝ} (hx0 : 0 ≤ x) (hx1 : x ≤ 1) :
    Real.arccos (1 - 2 * x * x) = 2 * Real.arcsin x := by
  rw [← arccos_one_sub_two_sq hx0 hx1]; congr 1; ring

/-! ## 3. the series branch -/

/-- a function on `[0,b]` that vanishes at `0` and has non-negative derivative on `(0,b)` is `≥ 0` at `b` -/
theorem nonneg_of_deriv_nonneg {f : ℝ → ℝ} {b : ℝ} (hb : 0 ≤ b) (hc : ContinuousOn f (Icc 0 b))
    (hd : ∀ y ∈ Ioo 0 b, ∃ d, HasDerivAt f d y ∧ 0 ≤ d) (h0 : f 0 = 0) : 0 ≤ f b := by
  have hmono : MonotoneOn f (Icc 0 b) := by
    refine monotoneOn_of_deriv_nonneg (convex_Icc 0 b) hc ?_ ?_
    · rw [interior_Icc]
      intro y hy
      obtain ⟨d, hd1, _⟩ := hd y hy
      exact hd1.differentiableAt.differentiableWithinAt
    · rw [interior_Icc]
      intro y hy
      obtain ⟨d, hd1, hd2⟩ := hd y hy
      rw [hd1.deriv]; exact hd2
  have := hmono (left_mem_Icc.mpr hb) (right_mem_Icc.mpr hb) hb
  rwa [h0] at this

/-- `1 + u/2 ≤ 1/√(1-u)` for `0 ≤ u < 1` -/
theorem inv_sqrt_lower {u : ℝ} (hu0 : 0 ≤ u) (hu1 : u < 1) : 1 + u / 2 ≤ 1 / √(1 - u) := by
  have hs : 0 < √(1 - u) := Real.sqrt_pos.mpr (by linarith)
  have hq : 0 < 1 + u / 2 := by positivity
  have h1 : √(1 - u) ≤ 1 / (1 + u / 2) := by
    refine Real.sqrt_le_iff.mpr ⟨by positivity, ?_⟩
    rw [div_pow, one_pow, le_div_iff₀ (by positivity)]
    have : 1 - (1 - u) * (1 + u / 2) ^ 2 = 3 * u ^ 2 / 4 + u ^ 3 / 4 := by ring
    have h2 : 0 ≤ 3 * u ^ 2 / 4 + u ^ 3 / 4 := by positivity
    linarith
  rw [le_div_iff₀ hs]
  have := (le_div_iff₀ hq).mp h1
  linarith

/-- `1/√(1-u) ≤ 1 + u/2 + u²/2` for `0 ≤ u ≤ 1/4` -/
theorem inv_sqrt_upper {u : ℝ} (hu0 : 0 ≤ u) (hu1 : u ≤ 1 / 4) : 1 / √(1 - u) ≤ 1 + u / 2 + u ^ 2 / 2 := by
  have hs : 0 < √(1 - u) := Real.sqrt_pos.mpr (by linarith)
  have hq : 0 < 1 + u / 2 + u ^ 2 / 2 := by positivity
  have h1 : 1 / (1 + u / 2 + u ^ 2 / 2) ≤ √(1 - u) := by
    refine Real.le_sqrt_of_sq_le ?_
    rw [div_pow, one_pow, div_le_iff₀ (by positivity)]
    have e : (1 - u) * (1 + u / 2 + u ^ 2 / 2) ^ 2 - 1 = u ^ 2 / 4 * (1 - 3 * u - u ^ 2 - u ^ 3) := by ring
    have h3 : 0 ≤ 1 - 3 * u - u ^ 2 - u ^ 3 := by
      have : u ^ 2 ≤ 1 / 16 := by nlinarith
      have : u ^ 3 ≤ 1 / 64 := by nlinarith
      linarith
    have h2 : 0 ≤ u ^ 2 / 4 * (1 - 3 * u - u ^ 2 - u ^ 3) := by positivity
    linarith
  rw [div_le_iff₀ hs]
  have := (div_le_iff₀ hq).mp h1
  linarith

/-- the derivative of `arcsin y - y - y³/6` -/
theorem hasDerivAt_lower {y : ℝ} (h1 : y ≠ -1) (h2 : y ≠ 1) :
    HasDerivAt (fun y => Real.arcsin y - y - y ^ 3 / 6) (1 / √(1 - y ^ 2) - 1 - y ^ 2 / 2) y := by
  have h := ((Real.hasDerivAt_arcsin h1 h2).sub (hasDerivAt_id y)).sub ((hasDerivAt_pow 3 y).div_const 6)
  refine h.congr_deriv ?_
  norm_num; ring

/-- the derivative of `y + y³/6 + y⁵/10 - arcsin y` -/
theorem hasDerivAt_upper {y : ℝ} (h1 : y ≠ -1) (h2 : y ≠ 1) :
    HasDerivAt (fun y => y + y ^ 3 / 6 + y ^ 5 / 10 - Real.arcsin y)
      (1 + y ^ 2 / 2 + y ^ 4 / 2 - 1 / √(1 - y ^ 2)) y := by
  have h := (((hasDerivAt_id y).add ((hasDerivAt_pow 3 y).div_const 6)).add
    ((hasDerivAt_pow 5 y).div_const 10)).sub (Real.hasDerivAt_arcsin h1 h2)
  refine h.congr_deriv ?_
  norm_num; ring

/-- `x + x³/6 ≤ arcsin x` on `[0,1]` (the first two terms of the arcsine series, all of whose terms are `≥ 0`) -/
theorem arcsin_ge_cubic {x : ℝ} (hx0 : 0 ≤ x) (hx1 : x ≤ 1) : x + x ^ 3 / 6 ≤ Real.arcsin x := by
  rcases eq_or_lt_of_le hx1 with rfl | hlt
  · rw [Real.arcsin_one]; have := Real.pi_gt_three; norm_num; linarith
  have h := nonneg_of_deriv_nonneg (f := fun y => Real.arcsin y - y - y ^ 3 / 6) hx0
    (by fun_prop) ?_ (by simp)
  · linarith
  · intro y hy
    have hy1 : y < 1 := lt_trans hy.2 hlt
    refine ⟨_, hasDerivAt_lower (by linarith [hy.1]) (ne_of_lt hy1), ?_⟩
    have := inv_sqrt_lower (u := y ^ 2) (by positivity) (by nlinarith [hy.1])
    linarith

/-- `arcsin x ≤ x + x³/6 + x⁵/10` on `[0,1/2]` (the true coefficient of `x⁵` is `3/40`) -/
theorem arcsin_le_quintic {x : ℝ} (hx0 : 0 ≤ x) (hx1 : x ≤ 1 / 2) :
    Real.arcsin x ≤ x + x ^ 3 / 6 + x ^ 5 / 10 := by
  have h := nonneg_of_deriv_nonneg (f := fun y => y + y ^ 3 / 6 + y ^ 5 / 10 - Real.arcsin y) hx0
    (by fun_prop) ?_ (by simp)
  · linarith
  · intro y hy
    have hy1 : y < 1 / 2 := lt_of_lt_of_le hy.2 hx1
    refine ⟨_, hasDerivAt_upper (by linarith [hy.1]) (by linarith), ?_⟩
    have := inv_sqrt_upper (u := y ^ 2) (by positivity) (by nlinarith [hy.1])
    have e : (y ^ 2) ^ 2 = y ^ 4 := by ring
    rw [e] at this
    linarith

/-- accuracy of the series branch of `safe_acos`: `0 ≤ 2 arcsin x - (2x + x³/3) ≤ x⁵/5` on `[0,1/2]` -/
theorem two_arcsin_series {x : ℝ} (hx0 : 0 ≤ x) (hx1 : x ≤ 1 / 2) :
    0 ≤ 2 * Real.arcsin x - (2 * x + x ^ 3 / 3) ∧ 2 * Real.arcsin x - (2 * x + x ^ 3 / 3) ≤ x ^ 5 / 5 := by
  have h1 := arcsin_ge_cubic hx0 (by linarith)
  have h2 := arcsin_le_quintic hx0 hx1
  constructor <;> linarith

theorem two_arcsin_series_abs {x : ℝ} (hx0 : 0 ≤ x) (hx1 : x ≤ 1 / 2) :
    |2 * Real.arcsin x - (2 * x + x ^ 3 / 3)| ≤ x ^ 5 / 5 := by
  obtain ⟨h1, h2⟩ := two_arcsin_series hx0 hx1
  rwa [abs_of_nonneg h1]

/-- `(switch)⁵/5 ≤ 2.1e-16`: absolute accuracy of the series branch below the switch -/
theorem switch_pow_five : safeAcosSwitch ^ 5 / 5 ≤ 21 / 10 ^ 17 := by
  have h := pow_le_pow_left₀ safeAcosSwitch_pos.le safeAcosSwitch_le 5
  have : ((1001 : ℝ) / 1000000) ^ 5 / 5 ≤ 21 / 10 ^ 17 := by norm_num
  linarith

/-- `(switch)⁴/10 ≤ 1.01e-13`: relative accuracy of the series branch below the switch -/
theorem switch_pow_four : safeAcosSwitch ^ 4 / 10 ≤ 101 / 10 ^ 15 := by
  have h := pow_le_pow_left₀ safeAcosSwitch_pos.le safeAcosSwitch_le 4
  have : ((1001 : ℝ) / 1000000) ^ 4 / 10 ≤ 101 / 10 ^ 15 := by norm_num
  linarith

/-- `safeAcosR` never exceeds `2 arcsin`, and falls short of it by at most `2.1e-16`, on all of `[0,1]`. -/
theorem safeAcosR_bounds {x : ℝ} (hx0 : 0 ≤ x) (hx1 : x ≤ 1) :
    0 ≤ 2 * Real.arcsin x - safeAcosR x ∧ 2 * Real.arcsin x - safeAcosR x ≤ 21 / 10 ^ 17 := by
  unfold safeAcosR
  split_ifs with h
  · have hx2 : x ≤ 1 / 2 := by linarith [safeAcosSwitch_le]
    obtain ⟨h1, h2⟩ := two_arcsin_series hx0 hx2
    have e : 2 * x + x * x * x / 3 = 2 * x + x ^ 3 / 3 := by ring
    rw [e]
    refine ⟨h1, h2.trans ?_⟩
    have := pow_le_pow_left₀ hx0 h.le 5
    linarith [switch_pow_five]
  · rw [arccos_model_branch hx0 hx1]; norm_num

/-- headline: `|safeAcosR x - 2 arcsin x| ≤ 1e-15` for every `x ∈ [0,1]` (in fact `≤ 2.1e-16`) -/
theorem safeAcosR_error {x : ℝ} (hx0 : 0 ≤ x) (hx1 : x ≤ 1) :
    |safeAcosR x - 2 * Real.arcsin x| ≤ 1e-15 := by
  obtain ⟨h1, h2⟩ := safeAcosR_bounds hx0 hx1
  rw [abs_sub_comm, abs_of_nonneg h1]
  refine h2.trans ?_; norm_num

/-- relative form: `2 arcsin x - safeAcosR x ≤ 1.01e-13 · 2 arcsin x` on `[0,1]` -/
theorem safeAcosR_rel {x : ℝ} (hx0 : 0 ≤ x) (hx1 : x ≤ 1) :
    2 * Real.arcsin x - safeAcosR x ≤ 101 / 10 ^ 15 * (2 * Real.arcsin x) := by
  have ha : x ≤ Real.arcsin x := by
    have := arcsin_ge_cubic hx0 hx1
    have : 0 ≤ x ^ 3 / 6 := by positivity
    linarith
  unfold safeAcosR
  split_ifs with h
  · have hx2 : x ≤ 1 / 2 := by linarith [safeAcosSwitch_le]
    obtain ⟨_, h2⟩ := two_arcsin_series hx0 hx2
    have e : 2 * x + x * x * x / 3 = 2 * x + x ^ 3 / 3 := by ring
    rw [e]
    have h4 : x ^ 4 / 10 ≤ 101 / 10 ^ 15 := by
      have := pow_le_pow_left₀ hx0 h.le 4
      linarith [switch_pow_four]
    have h5 : x ^ 5 / 5 = x ^ 4 / 10 * (2 * x) := by ring
    have h6 : x ^ 4 / 10 * (2 * x) ≤ 101 / 10 ^ 15 * (2 * Real.arcsin x) :=
      mul_le_mul h4 (by linarith) (by positivity) (by norm_num)
    linarith
  · rw [arccos_model_branch hx0 hx1, sub_self]
    have : 0 ≤ Real.arcsin x := Real.arcsin_nonneg.mpr hx0
    positivity

/-- the two branches of `safe_acos` agree at the switch point to `2.1e-16` (so the switch introduces no jump
larger than one unit in the 16th decimal; the result there is `≈ 2e-3`, ulp `≈ 4.3e-19`) -/
theorem safeAcos_branches_agree_at_switch :
    |(2 * safeAcosSwitch + safeAcosSwitch * safeAcosSwitch * safeAcosSwitch / 3)
        - Real.arccos (1 - 2 * safeAcosSwitch * safeAcosSwitch)| ≤ 21 / 10 ^ 17 := by
  have h0 := safeAcosSwitch_pos.le
  have h1 : safeAcosSwitch ≤ 1 / 2 := by linarith [safeAcosSwitch_le]
  rw [arccos_model_branch h0 (by linarith), abs_sub_comm]
  have e : 2 * safeAcosSwitch + safeAcosSwitch * safeAcosSwitch * safeAcosSwitch / 3
      = 2 * safeAcosSwitch + safeAcosSwitch ^ 3 / 3 := by ring
  rw [e]
  exact (two_arcsin_series_abs h0 h1).trans switch_pow_five

/-- more generally both branches are within `x⁵/5` of each other wherever `x ≤ 1/2` -/
theorem safeAcos_branches_agree {x : ℝ} (hx0 : 0 ≤ x) (hx1 : x ≤ 1 / 2) :
    |Real.arccos (1 - 2 * x * x) - (2 * x + x * x * x / 3)| ≤ x ^ 5 / 5 := by
  rw [arccos_model_branch hx0 (by linarith)]
  have e : 2 * x + x * x * x / 3 = 2 * x + x ^ 3 / 3 := by ring
  rw [e]; exact two_arcsin_series_abs hx0 hx1

/-! ## 4. the radial round trip

`AV` = arc from the triangle vertex `A` to the point `v`, `AP` = arc from `A` to the point `p` where the great
circle `A v` meets the edge `BC`.  Forward: `h = sin (AV/2) / sin (AP/2)`.  Inverse: `k = sin (AP/2)`,
`t = safeAcos (h k) / safeAcos k`, result = point at arc `t · AP` from `A` towards `p`. -/

/-- basic facts about `k = sin (AP/2)` and `h = sin (AV/2) / sin (AP/2)` -/
theorem radial_setup {AV AP : ℝ} (h0 : 0 ≤ AV) (h1 : AV ≤ AP) (h2 : 0 < AP) (h3 : AP ≤ π) :
    0 < Real.sin (AP / 2) ∧ Real.sin (AP / 2) ≤ 1 ∧
    Real.sin (AV / 2) / Real.sin (AP / 2) * Real.sin (AP / 2) = Real.sin (AV / 2) ∧
    0 ≤ Real.sin (AV / 2) ∧ Real.sin (AV / 2) ≤ Real.sin (AP / 2) ∧
    2 * Real.arcsin (Real.sin (AV / 2)) = AV ∧ 2 * Real.arcsin (Real.sin (AP / 2)) = AP := by
  have hπ := Real.pi_pos
  have hk : 0 < Real.sin (AP / 2) := Real.sin_pos_of_pos_of_lt_pi (by linarith) (by linarith)
  refine ⟨hk, Real.sin_le_one _, div_mul_cancel₀ _ hk.ne', ?_, ?_, ?_, ?_⟩
  · exact Real.sin_nonneg_of_nonneg_of_le_pi (by linarith) (by linarith)
  · exact Real.sin_le_sin_of_le_of_le_pi_div_two (by linarith) (by linarith) (by linarith)
  · rw [Real.arcsin_sin (by linarith) (by linarith)]; ring
  · rw [Real.arcsin_sin (by linarith) (by linarith)]; ring

/-- `0 ≤ h ≤ 1`: the forward radial coordinate is a valid barycentric weight -/
theorem radial_h_mem {AV AP : ℝ} (h0 : 0 ≤ AV) (h1 : AV ≤ AP) (h2 : 0 < AP) (h3 : AP ≤ π) :
    0 ≤ Real.sin (AV / 2) / Real.sin (AP / 2) ∧ Real.sin (AV / 2) / Real.sin (AP / 2) ≤ 1 := by
  obtain ⟨hk, _, _, hv0, hv1, _, _⟩ := radial_setup h0 h1 h2 h3
  exact ⟨div_nonneg hv0 hk.le, (div_le_one hk).mpr hv1⟩

/-- **Radial round trip, exact branch.**  With `2 arcsin` (= `arccos (1 - 2x²)`, the function `safe_acos`
approximates) the inverse recovers the arc length of the forward image exactly. -/
theorem radial_roundtrip_exact {AV AP : ℝ} (h0 : 0 ≤ AV) (h1 : AV ≤ AP) (h2 : 0 < AP) (h3 : AP ≤ π) :
    let k := Real.sin (AP / 2)
    let h := Real.sin (AV / 2) / Real.sin (AP / 2)
    (2 * Real.arcsin (h * k)) / (2 * Real.arcsin k) * AP = AV := by
  intro k h
  obtain ⟨_, _, hhk, _, _, eV, eP⟩ := radial_setup h0 h1 h2 h3
  show (2 * Real.arcsin (Real.sin (AV / 2) / Real.sin (AP / 2) * Real.sin (AP / 2))) /
    (2 * Real.arcsin (Real.sin (AP / 2))) * AP = AV
  rw [hhk, eV, eP]
  exact div_mul_cancel₀ _ h2.ne'

/-- the interpolation parameter is `AV / AP` -/
theorem radial_t_exact {AV AP : ℝ} (h0 : 0 ≤ AV) (h1 : AV ≤ AP) (h2 : 0 < AP) (h3 : AP ≤ π) :
    (2 * Real.arcsin (Real.sin (AV / 2) / Real.sin (AP / 2) * Real.sin (AP / 2))) /
      (2 * Real.arcsin (Real.sin (AP / 2))) = AV / AP := by
  obtain ⟨_, _, hhk, _, _, eV, eP⟩ := radial_setup h0 h1 h2 h3
  rw [hhk, eV, eP]

/-- absolute perturbation of a ratio -/
theorem ratio_perturb_abs {AV AP s1 s2 ε : ℝ} (h0 : 0 ≤ AV) (hε : ε < AP)
    (e1 : |s1 - AV| ≤ ε) (e2 : |s2 - AP| ≤ ε) : |s1 / s2 * AP - AV| ≤ ε * (AP + AV) / (AP - ε) := by
  have hε0 : 0 ≤ ε := (abs_nonneg _).trans e1
  have hAP : 0 ≤ AP := by linarith
  have hs2 : AP - ε ≤ s2 := by have := (abs_le.mp e2).1; linarith
  have hs2p : 0 < s2 := by linarith
  have e : s1 / s2 * AP - AV = ((s1 - AV) * AP - AV * (s2 - AP)) / s2 := by field_simp; ring
  rw [e, abs_div, abs_of_pos hs2p]
  refine div_le_div₀ (by positivity) ?_ (by linarith) hs2
  calc |(s1 - AV) * AP - AV * (s2 - AP)| ≤ |(s1 - AV) * AP| + |AV * (s2 - AP)| := abs_sub _ _
    _ = |s1 - AV| * AP + AV * |s2 - AP| := by rw [abs_mul, abs_mul, abs_of_nonneg hAP, abs_of_nonneg h0]
    _ ≤ ε * AP + AV * ε := add_le_add (mul_le_mul_of_nonneg_right e1 hAP) (mul_le_mul_of_nonneg_left e2 h0)
    _ = ε * (AP + AV) := by ring

/-- relative perturbation of a ratio (both terms are under-estimated by a relative amount `≤ η`) -/
theorem ratio_perturb_rel {AV AP d1 d2 η : ℝ} (h0 : 0 ≤ AV) (h2 : 0 < AP) (hη0 : 0 ≤ η) (hη : η < 1)
    (hd1 : 0 ≤ d1) (hd1' : d1 ≤ η * AV) (hd2 : 0 ≤ d2) (hd2' : d2 ≤ η * AP) :
    |(AV - d1) / (AP - d2) * AP - AV| ≤ AV * η / (1 - η) := by
  have hs2 : AP * (1 - η) ≤ AP - d2 := by linarith
  have hpos : 0 < AP * (1 - η) := mul_pos h2 (by linarith)
  have hs2p : 0 < AP - d2 := by linarith
  have e : (AV - d1) / (AP - d2) * AP - AV = (AV * d2 - d1 * AP) / (AP - d2) := by field_simp; ring
  have e' : AV * η / (1 - η) = (η * AV * AP) / (AP * (1 - η)) := by
    have : (1 - η) ≠ 0 := by linarith
    field_simp
  rw [e, e', abs_div, abs_of_pos hs2p]
  refine div_le_div₀ (by positivity) ?_ hpos hs2
  rw [abs_le]
  have p1 : AV * d2 ≤ AV * (η * AP) := mul_le_mul_of_nonneg_left hd2' h0
  have p2 : d1 * AP ≤ η * AV * AP := mul_le_mul_of_nonneg_right hd1' h2.le
  have p3 : 0 ≤ AV * d2 := mul_nonneg h0 hd2
  have p4 : 0 ≤ d1 * AP := mul_nonneg hd1 h2.le
  constructor <;> nlinarith

/-- **Radial round trip with `safe_acos`.**  With the real twin `safeAcosR` of the code (series below the
switch, `arccos (1 - 2x²)` above) the recovered arc `t · AP` differs from `AV` by at most `5e-16`, uniformly in
`0 ≤ AV ≤ AP ≤ π`, `AP > 0` (exact real arithmetic; no floating-point rounding is modelled here). -/
theorem radial_roundtrip_safeAcos {AV AP : ℝ} (h0 : 0 ≤ AV) (h1 : AV ≤ AP) (h2 : 0 < AP) (h3 : AP ≤ π) :
    let k := Real.sin (AP / 2)
    let h := Real.sin (AV / 2) / Real.sin (AP / 2)
    |safeAcosR (h * k) / safeAcosR k * AP - AV| ≤ 5e-16 := by
  intro k h
  obtain ⟨hk, hk1, hhk, hv0, hv1, eV, eP⟩ := radial_setup h0 h1 h2 h3
  show |safeAcosR (Real.sin (AV / 2) / Real.sin (AP / 2) * Real.sin (AP / 2)) /
    safeAcosR (Real.sin (AP / 2)) * AP - AV| ≤ 5e-16
  rw [hhk]
  obtain ⟨a1, a2⟩ := safeAcosR_bounds hv0 (hv1.trans hk1)
  obtain ⟨b1, b2⟩ := safeAcosR_bounds hk.le hk1
  have r1 := safeAcosR_rel hv0 (hv1.trans hk1)
  have r2 := safeAcosR_rel hk.le hk1
  rw [eV] at a1 a2 r1
  rw [eP] at b1 b2 r2
  refine le_trans ?_ (by norm_num : (5 / 10 ^ 16 : ℝ) ≤ 5e-16)
  rcases le_or_gt (1 / 1000) AP with hbig | hsmall
  · -- absolute accuracy 2.1e-16 of both terms
    have hε : (21 / 10 ^ 17 : ℝ) < AP := by linarith
    have e1 : |safeAcosR (Real.sin (AV / 2)) - AV| ≤ 21 / 10 ^ 17 := by
      rw [abs_sub_comm, abs_of_nonneg a1]; exact a2
    have e2 : |safeAcosR (Real.sin (AP / 2)) - AP| ≤ 21 / 10 ^ 17 := by
      rw [abs_sub_comm, abs_of_nonneg b1]; exact b2
    refine (ratio_perturb_abs h0 hε e1 e2).trans ?_
    rw [div_le_iff₀ (by linarith)]
    linarith
  · -- relative accuracy 1.01e-13 of both terms, and `AV ≤ AP < 1e-3`
    have e : safeAcosR (Real.sin (AV / 2)) / safeAcosR (Real.sin (AP / 2)) * AP - AV
        = (AV - (AV - safeAcosR (Real.sin (AV / 2)))) / (AP - (AP - safeAcosR (Real.sin (AP / 2)))) * AP - AV := by
      rw [sub_sub_cancel, sub_sub_cancel]
    rw [e]
    refine (ratio_perturb_rel (η := 101 / 10 ^ 15) h0 h2 (by norm_num) (by norm_num) a1 r1 b1 r2).trans ?_
    rw [div_le_iff₀ (by norm_num)]
    linarith

/-! ## 5. vectors: `slerp`, `angle`, `vector_difference` over `ℝ` -/

/-- real twin of `A5.V3` -/
@[ext] structure R3 where
  x : ℝ
  y : ℝ
  z : ℝ

def dotR (a b : R3) : ℝ := a.x * b.x + a.y * b.y + a.z * b.z
def crossR (a b : R3) : R3 := ⟨a.y * b.z - a.z * b.y, a.z * b.x - a.x * b.z, a.x * b.y - a.y * b.x⟩
noncomputable def lengthR (v : R3) : ℝ := √(v.x * v.x + v.y * v.y + v.z * v.z)
noncomputable def normalizeR (v : R3) : R3 :=
  let len := lengthR v
  if len = 0 then v else ⟨v.x / len, v.y / len, v.z / len⟩
def lerpR (a b : R3) (t : ℝ) : R3 := ⟨a.x + t * (b.x - a.x), a.y + t * (b.y - a.y), a.z + t * (b.z - a.z)⟩
def subR (a b : R3) : R3 := ⟨a.x - b.x, a.y - b.y, a.z - b.z⟩
def addR (a b : R3) : R3 := ⟨a.x + b.x, a.y + b.y, a.z + b.z⟩
def scaleR (v : R3) (s : ℝ) : R3 := ⟨v.x * s, v.y * s, v.z * s⟩
noncomputable def clamp1R (x : ℝ) : ℝ := if x < -1 then -1 else if x > 1 then 1 else x

/-- exact values of the generated switch constants (`1e-12`, `1e-8` in the Rust source) -/
def slerpSwitchQ : ℚ := Gen.SLERP_SWITCH.toRat
noncomputable def slerpSwitch : ℝ := ((slerpSwitchQ : ℚ) : ℝ)
noncomputable def vecdiffSwitch : ℝ := ((Gen.VECDIFF_SWITCH.toRat : ℚ) : ℝ)

theorem slerpSwitchQ_pos : 0 < slerpSwitchQ := by decide +kernel
theorem slerpSwitch_pos : 0 < slerpSwitch := by
  unfold slerpSwitch
  exact_mod_cast slerpSwitchQ_pos

/-- real twin of `A5.v3angle` -/
noncomputable def angleR (a b : R3) : ℝ :=
  let cosA := dotR a b / (lengthR a * lengthR b)
  Real.arccos (clamp1R cosA)

/-- real twin of `A5.slerp` (same expression tree, same small-angle branch) -/
noncomputable def slerpR (a b : R3) (t : ℝ) : R3 :=
  let gamma := angleR a b
  if gamma < slerpSwitch then lerpR a b t
  else
    let wa := Real.sin ((1 - t) * gamma) / Real.sin gamma
    let wb := Real.sin (t * gamma) / Real.sin gamma
    addR (scaleR a wa) (scaleR b wb)

/-- real twin of `A5.vectorDifference` (the literal `0.5` is the real `1/2`) -/
noncomputable def vectorDifferenceR (a b : R3) : ℝ :=
  let mid := normalizeR (lerpR a b (1 / 2))
  let d := lengthR (crossR a mid)
  if d < vecdiffSwitch then 1 / 2 * lengthR (subR a b) else d

theorem lengthR_eq (v : R3) : lengthR v = √(dotR v v) := rfl

theorem dotR_self_nonneg (v : R3) : 0 ≤ dotR v v :=
  add_nonneg (add_nonneg (mul_self_nonneg _) (mul_self_nonneg _)) (mul_self_nonneg _)

theorem lengthR_unit {a : R3} (ha : dotR a a = 1) : lengthR a = 1 := by
  rw [lengthR_eq, ha, Real.sqrt_one]

/-- Lagrange's identity `|a|²|b|² - (a·b)² = |a × b|²` -/
theorem lagrange (a b : R3) :
    dotR a a * dotR b b - dotR a b ^ 2 = dotR (crossR a b) (crossR a b) := by
  simp only [dotR, crossR]; ring

/-- Cauchy–Schwarz for unit vectors -/
theorem dotR_unit_mem {a b : R3} (ha : dotR a a = 1) (hb : dotR b b = 1) :
    -1 ≤ dotR a b ∧ dotR a b ≤ 1 := by
  have h := lagrange a b
  rw [ha, hb] at h
  have h2 := dotR_self_nonneg (crossR a b)
  exact abs_le.mp ((sq_le_one_iff_abs_le_one _).mp (by linarith))

/-- for unit vectors `angleR` is `arccos` of the dot product -/
theorem angleR_unit {a b : R3} (ha : dotR a a = 1) (hb : dotR b b = 1) :
    angleR a b = Real.arccos (dotR a b) ∧ Real.cos (angleR a b) = dotR a b ∧
      0 ≤ angleR a b ∧ angleR a b ≤ π := by
  obtain ⟨h1, h2⟩ := dotR_unit_mem ha hb
  have e : angleR a b = Real.arccos (dotR a b) := by
    unfold angleR clamp1R
    simp only [lengthR_unit ha, lengthR_unit hb, mul_one, div_one]
    rw [if_neg (by linarith), if_neg (by linarith)]
  rw [e]
  exact ⟨rfl, Real.cos_arccos h1 h2, Real.arccos_nonneg _, Real.arccos_le_pi _⟩

/-- the trigonometric core of `slerp`: with `S = sin γ`, `C = cos γ`, `s = sin tγ`, `c = cos tγ` -/
theorem slerp_core {S C s c : ℝ} (h1 : S ^ 2 + C ^ 2 = 1) (h2 : s ^ 2 + c ^ 2 = 1) (hS : S ≠ 0) :
    ((S * c - C * s) / S) ^ 2 + (s / S) ^ 2 + 2 * ((S * c - C * s) / S) * (s / S) * C = 1 ∧
    (S * c - C * s) / S + s / S * C = c ∧
    (S * c - C * s) / S * C + s / S = c * C + s * S := by
  refine ⟨?_, ?_, ?_⟩
  · field_simp
    linear_combination S ^ 2 * h2 - s ^ 2 * h1
  · field_simp
    ring
  · field_simp
    linear_combination (-s) * h1

/-- bilinear expansion of the dot products of `wa·a + wb·b` -/
theorem dotR_comb (a b : R3) (wa wb : ℝ) :
    dotR (addR (scaleR a wa) (scaleR b wb)) (addR (scaleR a wa) (scaleR b wb))
      = wa ^ 2 * dotR a a + wb ^ 2 * dotR b b + 2 * wa * wb * dotR a b ∧
    dotR a (addR (scaleR a wa) (scaleR b wb)) = wa * dotR a a + wb * dotR a b ∧
    dotR b (addR (scaleR a wa) (scaleR b wb)) = wa * dotR a b + wb * dotR b b := by
  simp only [dotR, addR, scaleR]
  exact ⟨by ring, by ring, by ring⟩

/-- **`slerp` over `ℝ`.**  For unit vectors `a`, `p` at angle `γ ∈ [SLERP_SWITCH, π)` the result of
`slerp a p t` is a unit vector whose inner products with `a` and `p` are `cos (tγ)` and `cos ((1-t)γ)`:
it is the point of the great circle through `a` and `p` at arc `tγ` from `a`.  (Any real `t`.) -/
theorem slerpR_spec {a p : R3} (t : ℝ) (ha : dotR a a = 1) (hp : dotR p p = 1)
    (hγ : slerpSwitch ≤ angleR a p) (hπ : angleR a p < π) :
    dotR (slerpR a p t) (slerpR a p t) = 1 ∧
    dotR a (slerpR a p t) = Real.cos (t * angleR a p) ∧
    dotR p (slerpR a p t) = Real.cos ((1 - t) * angleR a p) := by
  obtain ⟨_, hcos, _, _⟩ := angleR_unit ha hp
  have hpos : 0 < angleR a p := lt_of_lt_of_le slerpSwitch_pos hγ
  have hS : Real.sin (angleR a p) ≠ 0 := (Real.sin_pos_of_pos_of_lt_pi hpos hπ).ne'
  unfold slerpR
  simp only [if_neg (not_lt.mpr hγ)]
  generalize angleR a p = γ at *
  have e : (1 - t) * γ = γ - t * γ := by ring
  obtain ⟨d1, d2, d3⟩ := dotR_comb a p (Real.sin ((1 - t) * γ) / Real.sin γ) (Real.sin (t * γ) / Real.sin γ)
  obtain ⟨c1, c2, c3⟩ := slerp_core (Real.sin_sq_add_cos_sq γ) (Real.sin_sq_add_cos_sq (t * γ)) hS
  rw [d1, d2, d3, ha, hp, ← hcos, e, Real.sin_sub, Real.cos_sub]
  refine ⟨?_, ?_, ?_⟩
  · refine Eq.trans ?_ c1; ring
  · refine Eq.trans ?_ c2; ring
  · refine (Eq.trans ?_ c3).trans ?_ <;> ring

/-- for `0 ≤ t ≤ 1` the angle from `a` to `slerp a p t` is `t γ` -/
theorem slerpR_angle {a p : R3} {t : ℝ} (ht0 : 0 ≤ t) (ht1 : t ≤ 1) (ha : dotR a a = 1) (hp : dotR p p = 1)
    (hγ : slerpSwitch ≤ angleR a p) (hπ : angleR a p < π) :
    angleR a (slerpR a p t) = t * angleR a p := by
  obtain ⟨hu, hd, _⟩ := slerpR_spec t ha hp hγ hπ
  have hpos : 0 < angleR a p := lt_of_lt_of_le slerpSwitch_pos hγ
  rw [(angleR_unit ha hu).1, hd, Real.arccos_cos (by positivity)]
  have : t * angleR a p ≤ 1 * angleR a p := mul_le_mul_of_nonneg_right ht1 hpos.le
  linarith

/-- the small-angle branch of `slerp` (plain `lerp`): the squared norm of the result is
`1 - 2t(1-t)(1 - a·p)`, so for `0 ≤ t ≤ 1` and `γ < SLERP_SWITCH` it is within `γ²/4` of `1`. -/
theorem lerpR_norm_sq (a p : R3) (t : ℝ) (ha : dotR a a = 1) (hp : dotR p p = 1) :
    dotR (lerpR a p t) (lerpR a p t) = 1 - 2 * t * (1 - t) * (1 - dotR a p) := by
  simp only [dotR, lerpR] at *
  linear_combination ((1 - t) ^ 2) * ha + t ^ 2 * hp

theorem lerpR_norm_sq_bounds {a p : R3} {t : ℝ} (ht0 : 0 ≤ t) (ht1 : t ≤ 1) (ha : dotR a a = 1)
    (hp : dotR p p = 1) :
    1 - angleR a p ^ 2 / 4 ≤ dotR (lerpR a p t) (lerpR a p t) ∧ dotR (lerpR a p t) (lerpR a p t) ≤ 1 := by
  rw [lerpR_norm_sq a p t ha hp]
  obtain ⟨_, hcos, _, _⟩ := angleR_unit ha hp
  obtain ⟨_, hle⟩ := dotR_unit_mem ha hp
  have h1 := Real.one_sub_sq_div_two_le_cos (x := angleR a p)
  rw [hcos] at h1
  have h2 : 0 ≤ t * (1 - t) := mul_nonneg ht0 (by linarith)
  have h3 : t * (1 - t) ≤ 1 / 4 := by nlinarith [sq_nonneg (t - 1 / 2)]
  have h4 : 0 ≤ 1 - dotR a p := by linarith
  have h5 : 1 - dotR a p ≤ angleR a p ^ 2 / 2 := by linarith
  constructor
  · nlinarith [mul_le_mul h3 h5 h4 (by norm_num : (0 : ℝ) ≤ 1 / 4)]
  · nlinarith [mul_nonneg h2 h4]

/-- two points of the same arc: `slerp a p s · slerp a p t = cos ((s - t) γ)` -/
theorem slerp_core2 {S C s c s' c' : ℝ} (h1 : S ^ 2 + C ^ 2 = 1) (hS : S ≠ 0) :
    ((S * c - C * s) / S) * ((S * c' - C * s') / S) + (s / S) * (s' / S)
      + (((S * c - C * s) / S) * (s' / S) + (s / S) * ((S * c' - C * s') / S)) * C = c * c' + s * s' := by
  field_simp
  linear_combination (-(s * s')) * h1

theorem dotR_comb2 (a b : R3) (wa wb wa' wb' : ℝ) :
    dotR (addR (scaleR a wa) (scaleR b wb)) (addR (scaleR a wa') (scaleR b wb'))
      = wa * wa' * dotR a a + wb * wb' * dotR b b + (wa * wb' + wb * wa') * dotR a b := by
  simp only [dotR, addR, scaleR]; ring

theorem slerpR_dot_slerpR {a p : R3} (s t : ℝ) (ha : dotR a a = 1) (hp : dotR p p = 1)
    (hγ : slerpSwitch ≤ angleR a p) (hπ : angleR a p < π) :
    dotR (slerpR a p s) (slerpR a p t) = Real.cos ((s - t) * angleR a p) := by
  obtain ⟨_, hcos, _, _⟩ := angleR_unit ha hp
  have hpos : 0 < angleR a p := lt_of_lt_of_le slerpSwitch_pos hγ
  have hS : Real.sin (angleR a p) ≠ 0 := (Real.sin_pos_of_pos_of_lt_pi hpos hπ).ne'
  unfold slerpR
  simp only [if_neg (not_lt.mpr hγ)]
  generalize angleR a p = γ at *
  have es : (1 - s) * γ = γ - s * γ := by ring
  have et : (1 - t) * γ = γ - t * γ := by ring
  have est : (s - t) * γ = s * γ - t * γ := by ring
  have c := slerp_core2 (s := Real.sin (s * γ)) (c := Real.cos (s * γ)) (s' := Real.sin (t * γ))
    (c' := Real.cos (t * γ)) (Real.sin_sq_add_cos_sq γ) hS
  rw [dotR_comb2, ha, hp, ← hcos, es, et, est, Real.sin_sub, Real.sin_sub, Real.cos_sub]
  refine Eq.trans ?_ c; ring

theorem dotR_sub_self (r v : R3) :
    dotR (subR r v) (subR r v) = dotR r r + dotR v v - 2 * dotR r v := by
  simp only [dotR, subR]; ring

/-! ### `vector_difference` is `sin (γ/2)` -/

theorem sin_half_facts {γ : ℝ} (h0 : 0 ≤ γ) (h1 : γ ≤ π) :
    0 ≤ Real.sin (γ / 2) ∧ Real.sin (γ / 2) ^ 2 = (1 - Real.cos γ) / 2 := by
  refine ⟨Real.sin_nonneg_of_nonneg_of_le_pi (by linarith) (by linarith [Real.pi_pos]), ?_⟩
  have e : Real.cos γ = Real.cos (2 * (γ / 2)) := by congr 1; ring
  rw [e, Real.cos_two_mul, Real.cos_sq']; ring

/-- the near branch: half the chord -/
theorem vectorDifference_near {a b : R3} (ha : dotR a a = 1) (hb : dotR b b = 1) :
    1 / 2 * lengthR (subR a b) = Real.sin (angleR a b / 2) := by
  obtain ⟨_, hcos, g0, g1⟩ := angleR_unit ha hb
  obtain ⟨s0, s2⟩ := sin_half_facts g0 g1
  refine (sq_eq_sq₀ (by unfold lengthR; positivity) s0).mp ?_
  have hrad : (subR a b).x * (subR a b).x + (subR a b).y * (subR a b).y + (subR a b).z * (subR a b).z
      = 2 - 2 * dotR a b := by
    simp only [dotR, subR] at *
    linear_combination ha + hb
  have hnn : 0 ≤ 2 - 2 * dotR a b := by linarith [(dotR_unit_mem ha hb).2]
  rw [s2, hcos, mul_pow, lengthR, hrad, Real.sq_sqrt hnn]; ring

/-- `|a × (m / L)|² = (|a|²|m|² - (a·m)²) / L²` -/
theorem cross_div_norm_sq (a m : R3) {L : ℝ} (hL : L ≠ 0) :
    dotR (crossR a ⟨m.x / L, m.y / L, m.z / L⟩) (crossR a ⟨m.x / L, m.y / L, m.z / L⟩)
      = (dotR a a * dotR m m - dotR a m ^ 2) / L ^ 2 := by
  simp only [dotR, crossR]
  field_simp
  ring

/-- the far branch: `|a × normalize ((a+b)/2)|` -/
theorem vectorDifference_far {a b : R3} (ha : dotR a a = 1) (hb : dotR b b = 1) (hπ : angleR a b < π) :
    lengthR (crossR a (normalizeR (lerpR a b (1 / 2)))) = Real.sin (angleR a b / 2) := by
  obtain ⟨hang, hcos, g0, g1⟩ := angleR_unit ha hb
  obtain ⟨s0, s2⟩ := sin_half_facts g0 g1
  have hC : -1 < dotR a b := by rw [hang] at hπ; exact Real.arccos_lt_pi.mp hπ
  have hmm : dotR (lerpR a b (1 / 2)) (lerpR a b (1 / 2)) = (1 + dotR a b) / 2 := by
    simp only [dotR, lerpR] at *
    linear_combination (1 / 4 : ℝ) * ha + (1 / 4 : ℝ) * hb
  have ham : dotR a (lerpR a b (1 / 2)) = (1 + dotR a b) / 2 := by
    simp only [dotR, lerpR] at *
    linear_combination (1 / 2 : ℝ) * ha
  have hLpos : 0 < lengthR (lerpR a b (1 / 2)) := by
    rw [lengthR_eq, hmm]; exact Real.sqrt_pos.mpr (by linarith)
  have hL2 : lengthR (lerpR a b (1 / 2)) ^ 2 = (1 + dotR a b) / 2 := by
    rw [lengthR_eq, hmm, Real.sq_sqrt (by linarith)]
  have hnorm : normalizeR (lerpR a b (1 / 2)) =
      ⟨(lerpR a b (1 / 2)).x / lengthR (lerpR a b (1 / 2)), (lerpR a b (1 / 2)).y / lengthR (lerpR a b (1 / 2)),
        (lerpR a b (1 / 2)).z / lengthR (lerpR a b (1 / 2))⟩ := by
    unfold normalizeR
    simp only [if_neg hLpos.ne']
  refine (sq_eq_sq₀ (by unfold lengthR; positivity) s0).mp ?_
  rw [lengthR_eq, Real.sq_sqrt (dotR_self_nonneg _), hnorm, cross_div_norm_sq a _ hLpos.ne', hL2, hmm, ham, ha, s2,
    hcos]
  have : (1 + dotR a b) ≠ 0 := by linarith
  field_simp
  ring

/-- **`vector_difference` over `ℝ`**: for unit vectors at angle `γ < π`, whichever branch is taken, the result
is `sin (γ/2)`. -/
theorem vectorDifferenceR_eq {a b : R3} (ha : dotR a a = 1) (hb : dotR b b = 1) (hπ : angleR a b < π) :
    vectorDifferenceR a b = Real.sin (angleR a b / 2) := by
  unfold vectorDifferenceR
  simp only
  split_ifs
  · exact vectorDifference_near ha hb
  · exact vectorDifference_far ha hb hπ

/-! ### the radial round trip at the level of vectors -/

/-- **Radial round trip for points of the arc `a → p`** (exact real arithmetic, exact `2 arcsin`).
Let `a`, `p` be unit vectors at angle `γ ∈ [SLERP_SWITCH, π)` and `v = slerp a p s` a point of the arc between
them (`0 ≤ s ≤ 1`).  The forward map computes `h = vector_difference a v / vector_difference a p`; the inverse
computes `k = vector_difference a p`, `t = 2 arcsin (h k) / (2 arcsin k)` and returns `slerp a p t`.  Then `t = s`
and the returned point is `v`. -/
theorem radial_roundtrip_vector {a p : R3} {s : ℝ} (hs0 : 0 ≤ s) (hs1 : s ≤ 1)
    (ha : dotR a a = 1) (hp : dotR p p = 1) (hγ : slerpSwitch ≤ angleR a p) (hπ : angleR a p < π) :
    let v := slerpR a p s
    let h := vectorDifferenceR a v / vectorDifferenceR a p
    let k := vectorDifferenceR a p
    let t := (2 * Real.arcsin (h * k)) / (2 * Real.arcsin k)
    t = s ∧ slerpR a p t = v := by
  intro v h k t
  have hpos : 0 < angleR a p := lt_of_lt_of_le slerpSwitch_pos hγ
  obtain ⟨hvu, _, _⟩ := slerpR_spec s ha hp hγ hπ
  have hav : angleR a v = s * angleR a p := slerpR_angle hs0 hs1 ha hp hγ hπ
  have hav0 : 0 ≤ s * angleR a p := by positivity
  have hav1 : s * angleR a p ≤ angleR a p := by
    have := mul_le_mul_of_nonneg_right hs1 hpos.le; linarith
  have e1 : vectorDifferenceR a v = Real.sin (s * angleR a p / 2) := by
    rw [vectorDifferenceR_eq ha hvu (by rw [hav]; linarith), hav]
  have e2 : vectorDifferenceR a p = Real.sin (angleR a p / 2) := vectorDifferenceR_eq ha hp hπ
  have ht : t = s := by
    show (2 * Real.arcsin (vectorDifferenceR a v / vectorDifferenceR a p * vectorDifferenceR a p)) /
      (2 * Real.arcsin (vectorDifferenceR a p)) = s
    rw [e1, e2, radial_t_exact hav0 hav1 hpos hπ.le]
    exact mul_div_cancel_right₀ _ hpos.ne'
  exact ⟨ht, by rw [ht]⟩

/-- **Radial round trip for points of the arc `a → p`, with `safe_acos`.**  Same situation, but `t` computed with
the real twin `safeAcosR` of the code: the returned point is a unit vector within Euclidean distance `5e-16`
of `v` (exact real arithmetic; floating-point rounding is not modelled). -/
theorem radial_roundtrip_vector_safeAcos {a p : R3} {s : ℝ} (hs0 : 0 ≤ s) (hs1 : s ≤ 1)
    (ha : dotR a a = 1) (hp : dotR p p = 1) (hγ : slerpSwitch ≤ angleR a p) (hπ : angleR a p < π) :
    let v := slerpR a p s
    let h := vectorDifferenceR a v / vectorDifferenceR a p
    let k := vectorDifferenceR a p
    let t := safeAcosR (h * k) / safeAcosR k
    dotR (slerpR a p t) (slerpR a p t) = 1 ∧ lengthR (subR (slerpR a p t) v) ≤ 5e-16 := by
  intro v h k t
  have hpos : 0 < angleR a p := lt_of_lt_of_le slerpSwitch_pos hγ
  obtain ⟨hvu, _, _⟩ := slerpR_spec s ha hp hγ hπ
  obtain ⟨hru, _, _⟩ := slerpR_spec t ha hp hγ hπ
  have hav : angleR a v = s * angleR a p := slerpR_angle hs0 hs1 ha hp hγ hπ
  have hav0 : 0 ≤ s * angleR a p := by positivity
  have hav1 : s * angleR a p ≤ angleR a p := by
    have := mul_le_mul_of_nonneg_right hs1 hpos.le; linarith
  have e1 : vectorDifferenceR a v = Real.sin (s * angleR a p / 2) := by
    rw [vectorDifferenceR_eq ha hvu (by rw [hav]; linarith), hav]
  have e2 : vectorDifferenceR a p = Real.sin (angleR a p / 2) := vectorDifferenceR_eq ha hp hπ
  have key := radial_roundtrip_safeAcos hav0 hav1 hpos hπ.le
  have ht : t = safeAcosR (Real.sin (s * angleR a p / 2) / Real.sin (angleR a p / 2) *
      Real.sin (angleR a p / 2)) / safeAcosR (Real.sin (angleR a p / 2)) := by
    show safeAcosR (vectorDifferenceR a v / vectorDifferenceR a p * vectorDifferenceR a p) /
      safeAcosR (vectorDifferenceR a p) = _
    rw [e1, e2]
  simp only at key
  rw [← ht] at key
  refine ⟨hru, ?_⟩
  have hdot : dotR (slerpR a p t) v = Real.cos ((t - s) * angleR a p) := slerpR_dot_slerpR t s ha hp hγ hπ
  have hδ : |(t - s) * angleR a p| ≤ 5e-16 := by
    have : (t - s) * angleR a p = t * angleR a p - s * angleR a p := by ring
    rw [this]; exact key
  have hcos := Real.one_sub_sq_div_two_le_cos (x := (t - s) * angleR a p)
  show √(dotR (subR (slerpR a p t) v) (subR (slerpR a p t) v)) ≤ 5e-16
  rw [dotR_sub_self, hru, hvu, hdot]
  refine Real.sqrt_le_iff.mpr ⟨by norm_num, ?_⟩
  have h2 : ((t - s) * angleR a p) ^ 2 ≤ (5e-16 : ℝ) ^ 2 := by
    rw [← sq_abs]; exact pow_le_pow_left₀ (abs_nonneg _) hδ 2
  linarith

/-! ## non-vacuity -/

/-- the switch constant is what the source says: the `f64` nearest `1e-3` -/
example : safeAcosSwitchQ = 1152921504606847 / 2 ^ 60 := safeAcosSwitchQ_bounds.1

/-- both branches of `safeAcosR` are inhabited: `0 < switch` (series branch at `x = 0`), `1/2 ≥ switch` -/
example : safeAcosR 0 = 0 := by
  unfold safeAcosR; rw [if_pos safeAcosSwitch_pos]; ring
example : safeAcosR (1 / 2) = Real.arccos (1 - 2 * (1 / 2) * (1 / 2)) := by
  unfold safeAcosR; rw [if_neg (by linarith [safeAcosSwitch_le])]

/-- radial round trip at `AV = π/3`, `AP = π/2` -/
example : (2 * Real.arcsin (Real.sin (π / 3 / 2) / Real.sin (π / 2 / 2) * Real.sin (π / 2 / 2))) /
    (2 * Real.arcsin (Real.sin (π / 2 / 2))) * (π / 2) = π / 3 :=
  radial_roundtrip_exact (AV := π / 3) (AP := π / 2) (by positivity)
    (by linarith [Real.pi_pos]) (by positivity) (by linarith [Real.pi_pos])

/-- the hypotheses of the vector theorems hold for `a = e₁`, `p = e₂` (`γ = π/2`) -/
theorem e1_e2_hyps : dotR ⟨1, 0, 0⟩ ⟨1, 0, 0⟩ = 1 ∧ dotR ⟨0, 1, 0⟩ ⟨0, 1, 0⟩ = 1 ∧
    slerpSwitch ≤ angleR ⟨1, 0, 0⟩ ⟨0, 1, 0⟩ ∧ angleR ⟨1, 0, 0⟩ ⟨0, 1, 0⟩ < π := by
  have h1 : dotR ⟨1, 0, 0⟩ ⟨1, 0, 0⟩ = 1 := by norm_num [dotR]
  have h2 : dotR ⟨0, 1, 0⟩ ⟨0, 1, 0⟩ = 1 := by norm_num [dotR]
  have e : angleR ⟨1, 0, 0⟩ ⟨0, 1, 0⟩ = π / 2 := by
    rw [(angleR_unit h1 h2).1]
    have : dotR ⟨1, 0, 0⟩ ⟨0, 1, 0⟩ = 0 := by norm_num [dotR]
    rw [this, Real.arccos_zero]
  refine ⟨h1, h2, ?_, ?_⟩
  · rw [e]
    have h : slerpSwitchQ ≤ 1 := by decide +kernel
    have : slerpSwitch ≤ 1 := by unfold slerpSwitch; exact_mod_cast h
    linarith [Real.pi_gt_three]
  · rw [e]; linarith [Real.pi_pos]

/-- series branch (`x = 1/2000 <` switch) and `arccos` branch (`x = 1/2`) of the error bound -/
example : |safeAcosR (1 / 2000) - 2 * Real.arcsin (1 / 2000)| ≤ 1e-15 :=
  safeAcosR_error (by norm_num) (by norm_num)
example : (1 / 2000 : ℝ) < safeAcosSwitch := by linarith [safeAcosSwitch_ge]
example : |safeAcosR (1 / 2) - 2 * Real.arcsin (1 / 2)| ≤ 1e-15 :=
  safeAcosR_error (by norm_num) (by norm_num)

/-- radial round trip with `safeAcosR` at `AV = π/3`, `AP = π/2` -/
example : |safeAcosR (Real.sin (π / 3 / 2) / Real.sin (π / 2 / 2) * Real.sin (π / 2 / 2)) /
    safeAcosR (Real.sin (π / 2 / 2)) * (π / 2) - π / 3| ≤ 5e-16 :=
  radial_roundtrip_safeAcos (AV := π / 3) (AP := π / 2) (by positivity)
    (by linarith [Real.pi_pos]) (by positivity) (by linarith [Real.pi_pos])

/-- `slerp`, `vector_difference` and the vector-level round trips on the arc `e₁ → e₂`, `s = 1/3` -/
example : dotR (slerpR ⟨1, 0, 0⟩ ⟨0, 1, 0⟩ (1 / 3)) (slerpR ⟨1, 0, 0⟩ ⟨0, 1, 0⟩ (1 / 3)) = 1 :=
  (slerpR_spec (1 / 3) e1_e2_hyps.1 e1_e2_hyps.2.1 e1_e2_hyps.2.2.1 e1_e2_hyps.2.2.2).1
example : vectorDifferenceR ⟨1, 0, 0⟩ ⟨0, 1, 0⟩ = Real.sin (angleR ⟨1, 0, 0⟩ ⟨0, 1, 0⟩ / 2) :=
  vectorDifferenceR_eq e1_e2_hyps.1 e1_e2_hyps.2.1 e1_e2_hyps.2.2.2
example :
    let a : R3 := ⟨1, 0, 0⟩
    let p : R3 := ⟨0, 1, 0⟩
    let v := slerpR a p (1 / 3)
    let h := vectorDifferenceR a v / vectorDifferenceR a p
    let k := vectorDifferenceR a p
    let t := (2 * Real.arcsin (h * k)) / (2 * Real.arcsin k)
    t = 1 / 3 ∧ slerpR a p t = v :=
  radial_roundtrip_vector (by norm_num) (by norm_num) e1_e2_hyps.1 e1_e2_hyps.2.1 e1_e2_hyps.2.2.1
    e1_e2_hyps.2.2.2
example :
    let a : R3 := ⟨1, 0, 0⟩
    let p : R3 := ⟨0, 1, 0⟩
    let v := slerpR a p (1 / 3)
    let h := vectorDifferenceR a v / vectorDifferenceR a p
    let k := vectorDifferenceR a p
    let t := safeAcosR (h * k) / safeAcosR k
    dotR (slerpR a p t) (slerpR a p t) = 1 ∧ lengthR (subR (slerpR a p t) v) ≤ 5e-16 :=
  radial_roundtrip_vector_safeAcos (by norm_num) (by norm_num) e1_e2_hyps.1 e1_e2_hyps.2.1
    e1_e2_hyps.2.2.1 e1_e2_hyps.2.2.2

end A5.RadialRoundTrip
