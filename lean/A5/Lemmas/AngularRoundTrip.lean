import A5.Lemmas.RadialRoundTrip
import Mathlib.Analysis.SpecialFunctions.Trigonometric.Arctan
/-! # C15 — the angular part of the polyhedral round trip, over `ℝ`

Model (`A5/Model/Geo.lean`, at `Float`):
```
sphTriangleArea v1 v2 v3 :  midA := normalize (lerp v2 v3 0.5) …;  s := midA · (midB × midC)
                            if |clamp s| < TRI_AREA_SWITCH then 2 * clamp s else asin (clamp s) * 2
polyhedralForward :  p := normalize (quadrupleProduct a z b c);   w := h / area(a,b,c) * area(a,b,p)
polyhedralInverse :  alpha := (w / h) * area(a,b,c);  S := sin alpha;  halfC := sin (alpha/2);  CC := 2 halfC²
                     f := S*V + CC*(c01*c12 - c20);  g := CC*s12*(1 + c01)
                     q := (2 / acos c12) * atan2 g f;   p := slerp b c q
```
This file (part 1 of 2; part 2 = `AngularRoundTrip2.lean` combines it with the radial half):

* `tripleR`, `quadrupleProductR`, `midTripleR`, `triAreaR`, `edgeF`, `edgeG`, `edgeParamR` : real twins
  (transcriptions of the model's expression trees onto `R3` of `RadialRoundTrip.lean`; not tied by `rfl`, the
  model's `V3` has `Float` fields).  `triAreaR` is the exact (`asin`) branch of `get_triangle_area`, clamp kept;
  the small-`|s|` switch `2*s` of the code is NOT modelled;
* (A) `midpoint_triple_eq` : `s = V / √(2 (1+x·y)(1+y·z)(1+z·x))` for unit `x y z` no two of which are antipodal;
  `gram_unit` : `V² + (1 + x·y + y·z + z·x)² = 2 (1+x·y)(1+y·z)(1+z·x)`;
  `triAreaR_eq_arctan`, `eriksson` : `E = 2 arctan (V / (1 + x·y + y·z + z·x))`, `tan (E/2) = V / (1 + …)`
  when the denominator is positive (area `< π`);
* `atan2R` : IEEE `atan2` on the reals (all quadrants), with `atan2R_polar`;
* (B) `angular_inverse_formula` : for `p = slerp b c q`, `0 ≤ q ≤ 1`, `alpha = area(a,b,p)`:
  `g (1 + cos qθ) = f sin qθ` and the code's `(2 / acos c12) atan2 g f = q`;
* (C) `angular_forward_formula` : for `0 < alpha < area(a,b,c)` the code's `q` lies in `(0,1)` and
  `area(a, b, slerp b c q) = alpha`.

Hypotheses on the triangle throughout: `a b c` unit vectors, `V = a·(b×c) > 0` (counter-clockwise,
non-degenerate), `1 + a·b + b·c + c·a > 0` (area `< π`), `SLERP_SWITCH ≤ ∠(b,c)` (so `slerp` is in its
trigonometric branch).  That the 1/10-face triangles of the dodecahedron satisfy them is not proved here.

Nothing here is about floating-point rounding. -/
namespace A5.AngularRoundTrip
open A5 Real Set A5.RadialRoundTrip

/-! ## 1. vector algebra -/

/-- scalar triple product `a · (b × c)` (the code's `dot(a, cross(b, c))`) -/
def tripleR (a b c : R3) : ℝ := dotR a (crossR b c)

/-- real twin of `A5.quadrupleProduct` -/
def quadrupleProductR (a b c d : R3) : R3 :=
  let ccd := crossR c d
  let tacd := dotR a ccd
  let tbcd := dotR b ccd
  subR (scaleR b tacd) (scaleR a tbcd)

/-- the code's `s`: triple product of the three normalised edge midpoints -/
noncomputable def midTripleR (v1 v2 v3 : R3) : ℝ :=
  let midA := normalizeR (lerpR v2 v3 (1 / 2))
  let midB := normalizeR (lerpR v3 v1 (1 / 2))
  let midC := normalizeR (lerpR v1 v2 (1 / 2))
  dotR midA (crossR midB midC)

/-- real twin of the `asin` branch of `A5.sphTriangleArea` (`get_triangle_area`), clamp included.
The branch `|s| < 1e-8 ↦ 2 s` of the code is not modelled. -/
noncomputable def triAreaR (v1 v2 v3 : R3) : ℝ := Real.arcsin (clamp1R (midTripleR v1 v2 v3)) * 2

theorem dotR_comm (a b : R3) : dotR a b = dotR b a := by simp only [dotR]; ring

/-- Gram determinant: `(x · (y × z))² = det (Gram x y z)` -/
theorem gram (x y z : R3) :
    tripleR x y z ^ 2 = dotR x x * dotR y y * dotR z z + 2 * dotR x y * dotR y z * dotR z x
      - dotR x x * dotR y z ^ 2 - dotR y y * dotR z x ^ 2 - dotR z z * dotR x y ^ 2 := by
  simp only [tripleR, dotR, crossR]; ring

/-- for unit vectors: `V² + (1 + x·y + y·z + z·x)² = 2 (1 + x·y)(1 + y·z)(1 + z·x)` -/
theorem gram_unit {x y z : R3} (hx : dotR x x = 1) (hy : dotR y y = 1) (hz : dotR z z = 1) :
    tripleR x y z ^ 2 + (1 + dotR x y + dotR y z + dotR z x) ^ 2
      = 2 * (1 + dotR x y) * (1 + dotR y z) * (1 + dotR z x) := by
  rw [gram, hx, hy, hz]; ring

/-- `V² ≤ 1 - (x·y)²` for unit vectors: a non-degenerate triangle has no antipodal pair of vertices -/
theorem triple_sq_le {x y z : R3} (hx : dotR x x = 1) (hy : dotR y y = 1) (hz : dotR z z = 1) :
    tripleR x y z ^ 2 ≤ 1 - dotR x y ^ 2 := by
  have h1 : tripleR x y z = dotR z (crossR x y) := by simp only [tripleR, dotR, crossR]; ring
  have h2 := lagrange z (crossR x y)
  have h3 := lagrange x y
  have h4 := dotR_self_nonneg (crossR z (crossR x y))
  rw [hz] at h2; rw [hx, hy] at h3
  rw [h1]; linarith

theorem one_add_dot_pos {x y z : R3} (hx : dotR x x = 1) (hy : dotR y y = 1) (hz : dotR z z = 1)
    (hV : tripleR x y z ≠ 0) : 0 < 1 + dotR x y := by
  have h := triple_sq_le hx hy hz
  have hp : 0 < tripleR x y z ^ 2 := by positivity
  have : dotR x y ^ 2 < 1 := by linarith
  have := (abs_lt.mp ((sq_lt_one_iff_abs_lt_one _).mp this)).1
  linarith

theorem tripleR_rot (x y z : R3) : tripleR y z x = tripleR x y z := by
  simp only [tripleR, dotR, crossR]; ring

/-- the three `1 + dot` factors are positive for a non-degenerate unit triangle -/
theorem one_add_dots_pos {x y z : R3} (hx : dotR x x = 1) (hy : dotR y y = 1) (hz : dotR z z = 1)
    (hV : tripleR x y z ≠ 0) : 0 < 1 + dotR x y ∧ 0 < 1 + dotR y z ∧ 0 < 1 + dotR z x := by
  refine ⟨one_add_dot_pos hx hy hz hV, one_add_dot_pos hy hz hx ?_, one_add_dot_pos hz hx hy ?_⟩
  · rwa [tripleR_rot]
  · rwa [← tripleR_rot]

/-! ## 2. the normalised midpoints -/

/-- the normalised midpoint of two non-antipodal unit vectors -/
theorem normalize_mid {y z : R3} (hy : dotR y y = 1) (hz : dotR z z = 1) (hyz : 0 < 1 + dotR y z) :
    ∃ L : ℝ, 0 < L ∧ L ^ 2 = (1 + dotR y z) / 2 ∧
      normalizeR (lerpR y z (1 / 2)) =
        ⟨(lerpR y z (1 / 2)).x / L, (lerpR y z (1 / 2)).y / L, (lerpR y z (1 / 2)).z / L⟩ := by
  have hmm : dotR (lerpR y z (1 / 2)) (lerpR y z (1 / 2)) = (1 + dotR y z) / 2 := by
    simp only [dotR, lerpR] at *
    linear_combination (1 / 4 : ℝ) * hy + (1 / 4 : ℝ) * hz
  have hLpos : 0 < lengthR (lerpR y z (1 / 2)) := by
    rw [lengthR_eq, hmm]; exact Real.sqrt_pos.mpr (by linarith)
  refine ⟨lengthR (lerpR y z (1 / 2)), hLpos, ?_, ?_⟩
  · rw [lengthR_eq, hmm, Real.sq_sqrt (by linarith)]
  · unfold normalizeR
    simp only [if_neg hLpos.ne']

/-- triple product of the (un-normalised) midpoints, each divided by a scalar -/
theorem triple_mid_div (x y z : R3) (La Lb Lc : ℝ) :
    dotR ⟨(lerpR y z (1 / 2)).x / La, (lerpR y z (1 / 2)).y / La, (lerpR y z (1 / 2)).z / La⟩
      (crossR ⟨(lerpR z x (1 / 2)).x / Lb, (lerpR z x (1 / 2)).y / Lb, (lerpR z x (1 / 2)).z / Lb⟩
        ⟨(lerpR x y (1 / 2)).x / Lc, (lerpR x y (1 / 2)).y / Lc, (lerpR x y (1 / 2)).z / Lc⟩)
      = tripleR x y z / 4 / (La * Lb * Lc) := by
  simp only [tripleR, dotR, crossR, lerpR]
  ring

/-- **(A) the code's `s`.**  For unit vectors `x y z`, no two antipodal, the triple product of the normalised
edge midpoints is `V / √(2 (1+x·y)(1+y·z)(1+z·x))`, `V = x · (y × z)`. -/
theorem midpoint_triple_eq {x y z : R3} (hx : dotR x x = 1) (hy : dotR y y = 1) (hz : dotR z z = 1)
    (hxy : 0 < 1 + dotR x y) (hyz : 0 < 1 + dotR y z) (hzx : 0 < 1 + dotR z x) :
    midTripleR x y z = tripleR x y z / √(2 * (1 + dotR x y) * (1 + dotR y z) * (1 + dotR z x)) := by
  obtain ⟨La, hLa, hLa2, ea⟩ := normalize_mid hy hz hyz
  obtain ⟨Lb, hLb, hLb2, eb⟩ := normalize_mid hz hx hzx
  obtain ⟨Lc, hLc, hLc2, ec⟩ := normalize_mid hx hy hxy
  unfold midTripleR
  simp only
  rw [ea, eb, ec, triple_mid_div]
  have hsq : √(2 * (1 + dotR x y) * (1 + dotR y z) * (1 + dotR z x)) = 4 * (La * Lb * Lc) := by
    refine (Real.sqrt_eq_iff_mul_self_eq (by positivity) (by positivity)).mpr ?_
    have : (4 * (La * Lb * Lc)) * (4 * (La * Lb * Lc)) = 16 * (La ^ 2 * Lb ^ 2 * Lc ^ 2) := by ring
    rw [this, hLa2, hLb2, hLc2]; ring
  rw [hsq]
  have : La * Lb * Lc ≠ 0 := by positivity
  field_simp

/-- `|s| ≤ 1`: the clamp of the code is the identity (in exact arithmetic) -/
theorem midTriple_abs_le {x y z : R3} (hx : dotR x x = 1) (hy : dotR y y = 1) (hz : dotR z z = 1)
    (hxy : 0 < 1 + dotR x y) (hyz : 0 < 1 + dotR y z) (hzx : 0 < 1 + dotR z x) :
    -1 ≤ midTripleR x y z ∧ midTripleR x y z ≤ 1 := by
  rw [midpoint_triple_eq hx hy hz hxy hyz hzx, ← gram_unit hx hy hz]
  set V := tripleR x y z
  set D := 1 + dotR x y + dotR y z + dotR z x
  have hP : 0 < V ^ 2 + D ^ 2 := by
    rw [gram_unit hx hy hz]; positivity
  have hs : 0 < √(V ^ 2 + D ^ 2) := Real.sqrt_pos.mpr hP
  have habs : |V| ≤ √(V ^ 2 + D ^ 2) := by
    rw [← Real.sqrt_sq_eq_abs]
    exact Real.sqrt_le_sqrt (by nlinarith [sq_nonneg D])
  obtain ⟨h1, h2⟩ := abs_le.mp habs
  constructor
  · rw [le_div_iff₀ hs]; linarith
  · rw [div_le_iff₀ hs]; linarith

theorem clamp1R_id {s : ℝ} (h1 : -1 ≤ s) (h2 : s ≤ 1) : clamp1R s = s := by
  unfold clamp1R
  rw [if_neg (by linarith), if_neg (by linarith)]

/-- **(A) area as an arctangent.**  For a unit triangle with `1 + x·y + y·z + z·x > 0` (area `< π`) and no
antipodal pair, the code's area (exact branch) is `2 arctan (V / (1 + x·y + y·z + z·x))`. -/
theorem triAreaR_eq_arctan {x y z : R3} (hx : dotR x x = 1) (hy : dotR y y = 1) (hz : dotR z z = 1)
    (hxy : 0 < 1 + dotR x y) (hyz : 0 < 1 + dotR y z) (hzx : 0 < 1 + dotR z x)
    (hD : 0 < 1 + dotR x y + dotR y z + dotR z x) :
    triAreaR x y z = 2 * Real.arctan (tripleR x y z / (1 + dotR x y + dotR y z + dotR z x)) := by
  obtain ⟨b1, b2⟩ := midTriple_abs_le hx hy hz hxy hyz hzx
  unfold triAreaR
  rw [clamp1R_id b1 b2, midpoint_triple_eq hx hy hz hxy hyz hzx, ← gram_unit hx hy hz, Real.arctan_eq_arcsin]
  set V := tripleR x y z
  set D := 1 + dotR x y + dotR y z + dotR z x
  have e : V / D / √(1 + (V / D) ^ 2) = V / √(V ^ 2 + D ^ 2) := by
    have h1 : 1 + (V / D) ^ 2 = (V ^ 2 + D ^ 2) / D ^ 2 := by field_simp; ring
    rw [h1, Real.sqrt_div (by positivity), Real.sqrt_sq hD.le]
    have : √(V ^ 2 + D ^ 2) ≠ 0 := (Real.sqrt_pos.mpr (by positivity)).ne'
    field_simp
  rw [e]; ring

/-- **(A) Eriksson's formula** `tan (E/2) = V / (1 + x·y + y·z + z·x)`. -/
theorem eriksson {x y z : R3} (hx : dotR x x = 1) (hy : dotR y y = 1) (hz : dotR z z = 1)
    (hxy : 0 < 1 + dotR x y) (hyz : 0 < 1 + dotR y z) (hzx : 0 < 1 + dotR z x)
    (hD : 0 < 1 + dotR x y + dotR y z + dotR z x) :
    Real.tan (triAreaR x y z / 2) = tripleR x y z / (1 + dotR x y + dotR y z + dotR z x) := by
  rw [triAreaR_eq_arctan hx hy hz hxy hyz hzx hD]
  rw [show 2 * Real.arctan (tripleR x y z / (1 + dotR x y + dotR y z + dotR z x)) / 2
    = Real.arctan (tripleR x y z / (1 + dotR x y + dotR y z + dotR z x)) by ring, Real.tan_arctan]

/-- for a counter-clockwise triangle of area `< π` the area lies in `(0, π)` -/
theorem triAreaR_mem {x y z : R3} (hx : dotR x x = 1) (hy : dotR y y = 1) (hz : dotR z z = 1)
    (hV : 0 < tripleR x y z) (hD : 0 < 1 + dotR x y + dotR y z + dotR z x) :
    0 < triAreaR x y z ∧ triAreaR x y z < π := by
  obtain ⟨hxy, hyz, hzx⟩ := one_add_dots_pos hx hy hz hV.ne'
  rw [triAreaR_eq_arctan hx hy hz hxy hyz hzx hD]
  have h1 : 0 < Real.arctan (tripleR x y z / (1 + dotR x y + dotR y z + dotR z x)) :=
    Real.arctan_pos.mpr (div_pos hV hD)
  have h2 := Real.arctan_lt_pi_div_two (tripleR x y z / (1 + dotR x y + dotR y z + dotR z x))
  constructor <;> linarith

/-! ## 3. `atan2` on the reals -/

/-- IEEE-754 `atan2 y x` on the reals (no signed zeros: `atan2R 0 x = π` for `x < 0`, `atan2R 0 0 = 0`). -/
noncomputable def atan2R (y x : ℝ) : ℝ :=
  if 0 < x then Real.arctan (y / x)
  else if x < 0 then (if 0 ≤ y then Real.arctan (y / x) + π else Real.arctan (y / x) - π)
  else if 0 < y then π / 2 else if y < 0 then -(π / 2) else 0

theorem atan2R_zero_zero : atan2R 0 0 = 0 := by
  unfold atan2R; simp

theorem atan2R_of_pos {y x : ℝ} (hx : 0 < x) : atan2R y x = Real.arctan (y / x) := by
  unfold atan2R; rw [if_pos hx]

/-- `atan2R` recovers the polar angle: `atan2R (r sin ψ) (r cos ψ) = ψ` for `r > 0`, `-π < ψ ≤ π`. -/
theorem atan2R_polar {r ψ : ℝ} (hr : 0 < r) (h1 : -π < ψ) (h2 : ψ ≤ π) :
    atan2R (r * Real.sin ψ) (r * Real.cos ψ) = ψ := by
  have hπ := Real.pi_pos
  have hdiv : r * Real.sin ψ / (r * Real.cos ψ) = Real.tan ψ := by
    rw [Real.tan_eq_sin_div_cos, mul_div_mul_left _ _ hr.ne']
  unfold atan2R
  rcases lt_trichotomy (Real.cos ψ) 0 with hc | hc | hc
  · have hx : r * Real.cos ψ < 0 := mul_neg_of_pos_of_neg hr hc
    rw [if_neg (not_lt.mpr hx.le), if_pos hx, hdiv]
    rcases le_or_gt 0 ψ with hp | hn
    · -- ψ ∈ (π/2, π]
      have hgt : π / 2 < ψ := by
        by_contra hle
        have := Real.cos_nonneg_of_mem_Icc (x := ψ) ⟨by linarith, not_lt.mp hle⟩
        linarith
      have hs : 0 ≤ r * Real.sin ψ := mul_nonneg hr.le (Real.sin_nonneg_of_nonneg_of_le_pi hp h2)
      rw [if_pos hs, ← Real.tan_sub_pi ψ, Real.arctan_tan (by linarith) (by linarith)]
      ring
    · -- ψ ∈ (-π, -π/2)
      have hlt : ψ < -(π / 2) := by
        by_contra hle
        have := Real.cos_nonneg_of_mem_Icc (x := ψ) ⟨not_lt.mp hle, by linarith⟩
        linarith
      have hs : r * Real.sin ψ < 0 := mul_neg_of_pos_of_neg hr (Real.sin_neg_of_neg_of_neg_pi_lt hn h1)
      rw [if_neg (not_le.mpr hs), ← Real.tan_add_pi ψ, Real.arctan_tan (by linarith) (by linarith)]
      ring
  · have hx : r * Real.cos ψ = 0 := by rw [hc, mul_zero]
    rw [hx, if_neg (lt_irrefl _), if_neg (lt_irrefl _)]
    have hsq := Real.sin_sq_add_cos_sq ψ
    rw [hc] at hsq
    rcases le_or_gt 0 ψ with hp | hn
    · have hs0 : 0 ≤ Real.sin ψ := Real.sin_nonneg_of_nonneg_of_le_pi hp h2
      have hs1 : Real.sin ψ = 1 := by nlinarith
      rw [hs1, mul_one, if_pos hr]
      have := Real.arccos_cos hp h2
      rw [hc, Real.arccos_zero] at this
      exact this
    · have hs0 : Real.sin ψ < 0 := Real.sin_neg_of_neg_of_neg_pi_lt hn h1
      have hs1 : Real.sin ψ = -1 := by nlinarith
      have hneg : r * Real.sin ψ < 0 := mul_neg_of_pos_of_neg hr hs0
      rw [if_neg (not_lt.mpr hneg.le), if_pos hneg]
      have := Real.arccos_cos (x := -ψ) (by linarith) (by linarith)
      rw [Real.cos_neg, hc, Real.arccos_zero] at this
      linarith
  · have hx : 0 < r * Real.cos ψ := mul_pos hr hc
    rw [if_pos hx, hdiv]
    have hlo : -(π / 2) < ψ := by
      by_contra hle
      have := Real.cos_nonpos_of_pi_div_two_le_of_le (x := -ψ) (by linarith [not_lt.mp hle]) (by linarith)
      rw [Real.cos_neg] at this
      linarith
    have hhi : ψ < π / 2 := by
      by_contra hle
      have := Real.cos_nonpos_of_pi_div_two_le_of_le (x := ψ) (not_lt.mp hle) (by linarith)
      linarith
    exact Real.arctan_tan hlo hhi

/-- for a unit triangle `1 + x·y + y·z + z·x > 0` already excludes antipodal pairs -/
theorem one_add_dots_pos_of_D {x y z : R3} (hx : dotR x x = 1) (hy : dotR y y = 1) (hz : dotR z z = 1)
    (hD : 0 < 1 + dotR x y + dotR y z + dotR z x) :
    0 < 1 + dotR x y ∧ 0 < 1 + dotR y z ∧ 0 < 1 + dotR z x := by
  have h := gram_unit hx hy hz
  have h1 := (dotR_unit_mem hx hy).1
  have h2 := (dotR_unit_mem hy hz).1
  have h3 := (dotR_unit_mem hz hx).1
  have hP : 0 < 2 * (1 + dotR x y) * (1 + dotR y z) * (1 + dotR z x) := by
    rw [← h]; positivity
  refine ⟨?_, ?_, ?_⟩
  · rcases eq_or_lt_of_le (by linarith : 0 ≤ 1 + dotR x y) with e | e
    · rw [← e] at hP; simp at hP
    · exact e
  · rcases eq_or_lt_of_le (by linarith : 0 ≤ 1 + dotR y z) with e | e
    · rw [← e] at hP; simp at hP
    · exact e
  · rcases eq_or_lt_of_le (by linarith : 0 ≤ 1 + dotR z x) with e | e
    · rw [← e] at hP; simp at hP
    · exact e

/-- `triAreaR_eq_arctan` with the single hypothesis `1 + x·y + y·z + z·x > 0` -/
theorem triAreaR_eq_arctan' {x y z : R3} (hx : dotR x x = 1) (hy : dotR y y = 1) (hz : dotR z z = 1)
    (hD : 0 < 1 + dotR x y + dotR y z + dotR z x) :
    triAreaR x y z = 2 * Real.arctan (tripleR x y z / (1 + dotR x y + dotR y z + dotR z x)) := by
  obtain ⟨h1, h2, h3⟩ := one_add_dots_pos_of_D hx hy hz hD
  exact triAreaR_eq_arctan hx hy hz h1 h2 h3 hD

/-! ## 4. the trigonometric core -/

theorem sin_eq_half (θ : ℝ) : Real.sin θ = 2 * Real.sin (θ / 2) * Real.cos (θ / 2) := by
  rw [← Real.sin_two_mul]; congr 1; ring

theorem one_add_cos_eq_half (θ : ℝ) : 1 + Real.cos θ = 2 * Real.cos (θ / 2) ^ 2 := by
  have e : Real.cos θ = Real.cos (2 * (θ / 2)) := by congr 1; ring
  rw [e, Real.cos_two_mul]; ring

/-- `sin φ (1 + cos θ) ≤ sin θ (1 + cos φ)` for `0 ≤ φ ≤ θ < π` (i.e. `tan (φ/2) ≤ tan (θ/2)`) -/
theorem half_tan_mono {θ φ : ℝ} (hφ0 : 0 ≤ φ) (hφθ : φ ≤ θ) (hθπ : θ < π) :
    Real.sin φ * (1 + Real.cos θ) ≤ Real.sin θ * (1 + Real.cos φ) := by
  have hπ := Real.pi_pos
  have e : Real.sin θ * (1 + Real.cos φ) - Real.sin φ * (1 + Real.cos θ)
      = 4 * Real.cos (φ / 2) * Real.cos (θ / 2) * Real.sin (θ / 2 - φ / 2) := by
    rw [sin_eq_half θ, sin_eq_half φ, one_add_cos_eq_half, one_add_cos_eq_half, Real.sin_sub]; ring
  have h1 : 0 ≤ Real.cos (φ / 2) := Real.cos_nonneg_of_mem_Icc ⟨by linarith, by linarith⟩
  have h2 : 0 ≤ Real.cos (θ / 2) := Real.cos_nonneg_of_mem_Icc ⟨by linarith, by linarith⟩
  have h3 : 0 ≤ Real.sin (θ / 2 - φ / 2) := Real.sin_nonneg_of_nonneg_of_le_pi (by linarith) (by linarith)
  have : 0 ≤ 4 * Real.cos (φ / 2) * Real.cos (θ / 2) * Real.sin (θ / 2 - φ / 2) := by positivity
  linarith

/-- `sin θ · (1 + a·b + b·p + p·a) = sin θ (1 + c01)(1 + cos φ) - (c01 cos θ - c20) sin φ`
for `p = (sin (θ-φ) b + sin φ c) / sin θ` -/
theorem Dp_identity (c01 c20 θ φ : ℝ) (hS : Real.sin θ ≠ 0) :
    Real.sin θ * (1 + c01 + Real.cos φ
        + (Real.sin (θ - φ) / Real.sin θ * c01 + Real.sin φ / Real.sin θ * c20))
      = Real.sin θ * (1 + c01) * (1 + Real.cos φ) - (c01 * Real.cos θ - c20) * Real.sin φ := by
  rw [Real.sin_sub]; field_simp; ring

/-- the denominator of Eriksson's formula stays positive along the edge `b → c` -/
theorem Dp_pos {c01 c20 θ φ : ℝ} (hθ0 : 0 < θ) (hθπ : θ < π) (hφ0 : 0 ≤ φ) (hφθ : φ ≤ θ)
    (h01 : 0 < 1 + c01) (hD : 0 < 1 + c01 + Real.cos θ + c20) :
    0 < Real.sin θ * (1 + c01) * (1 + Real.cos φ) - (c01 * Real.cos θ - c20) * Real.sin φ := by
  have hS : 0 < Real.sin θ := Real.sin_pos_of_pos_of_lt_pi hθ0 hθπ
  have hφπ : φ < π := lt_of_le_of_lt hφθ hθπ
  have hsφ : 0 ≤ Real.sin φ := Real.sin_nonneg_of_nonneg_of_le_pi hφ0 hφπ.le
  have hcφ : 0 < 1 + Real.cos φ := by
    have := Real.cos_lt_cos_of_nonneg_of_le_pi hφ0 le_rfl hφπ
    rw [Real.cos_pi] at this; linarith
  have hcθ : 0 < 1 + Real.cos θ := by
    have := Real.cos_lt_cos_of_nonneg_of_le_pi hθ0.le le_rfl hθπ
    rw [Real.cos_pi] at this; linarith
  have hA : 0 < Real.sin θ * (1 + c01) := mul_pos hS h01
  rcases le_or_gt (c01 * Real.cos θ - c20) 0 with hK | hK
  · have h1 : 0 < Real.sin θ * (1 + c01) * (1 + Real.cos φ) := mul_pos hA hcφ
    have h2 : (c01 * Real.cos θ - c20) * Real.sin φ ≤ 0 := mul_nonpos_of_nonpos_of_nonneg hK hsφ
    linarith
  · have hm := half_tan_mono hφ0 hφθ hθπ
    have hend : 0 < Real.sin θ * (1 + c01) * (1 + Real.cos θ) - (c01 * Real.cos θ - c20) * Real.sin θ := by
      have : Real.sin θ * (1 + c01) * (1 + Real.cos θ) - (c01 * Real.cos θ - c20) * Real.sin θ
          = Real.sin θ * (1 + c01 + Real.cos θ + c20) := by ring
      rw [this]; exact mul_pos hS hD
    have h3 : 0 < (1 + Real.cos φ) *
        (Real.sin θ * (1 + c01) * (1 + Real.cos θ) - (c01 * Real.cos θ - c20) * Real.sin θ) :=
      mul_pos hcφ hend
    have h4 : (c01 * Real.cos θ - c20) * (Real.sin φ * (1 + Real.cos θ))
        ≤ (c01 * Real.cos θ - c20) * (Real.sin θ * (1 + Real.cos φ)) :=
      mul_le_mul_of_nonneg_left hm hK.le
    have h5 : 0 < (1 + Real.cos θ) *
        (Real.sin θ * (1 + c01) * (1 + Real.cos φ) - (c01 * Real.cos θ - c20) * Real.sin φ) := by
      nlinarith
    exact (mul_pos_iff_of_pos_left hcθ).mp h5

/-- the algebraic heart of the inverse's closed formula.  `sn, cs` play the role of `sin (α/2), cos (α/2)`,
`Vp / Dp = tan (α/2)` is Eriksson's formula for the triangle `a b p`. -/
theorem core_identity {sn cs V Vp Dp K sθ sφ cφ c01 : ℝ}
    (h1 : sn * Dp = cs * Vp) (h2 : sθ * Vp = sφ * V)
    (h3 : sθ * Dp = sθ * (1 + c01) * (1 + cφ) - K * sφ) :
    (sn * sθ * (1 + c01)) * (1 + cφ) = (cs * V + sn * K) * sφ := by
  linear_combination sθ * h1 + cs * h2 - sn * h3

/-- `atan2 g f = φ/2` when `g (1 + cos φ) = f sin φ`, `g > 0`, `0 < φ < π` -/
theorem atan2R_half {f g φ : ℝ} (hφ0 : 0 < φ) (hφπ : φ < π) (hg : 0 < g)
    (h : g * (1 + Real.cos φ) = f * Real.sin φ) : atan2R g f = φ / 2 := by
  have hπ := Real.pi_pos
  have hs : 0 < Real.sin (φ / 2) := Real.sin_pos_of_pos_of_lt_pi (by linarith) (by linarith)
  have hc : 0 < Real.cos (φ / 2) := Real.cos_pos_of_mem_Ioo ⟨by linarith, by linarith⟩
  rw [sin_eq_half, one_add_cos_eq_half] at h
  have h' : g * Real.cos (φ / 2) = f * Real.sin (φ / 2) := by
    have : (2 * Real.cos (φ / 2)) * (g * Real.cos (φ / 2)) = (2 * Real.cos (φ / 2)) * (f * Real.sin (φ / 2)) := by
      linear_combination h
    exact mul_left_cancel₀ (by positivity) this
  have eg : g = g / Real.sin (φ / 2) * Real.sin (φ / 2) := by field_simp
  have ef : f = g / Real.sin (φ / 2) * Real.cos (φ / 2) := by
    field_simp; linarith
  rw [eg, ef]
  have hr : 0 < g / Real.sin (φ / 2) := div_pos hg hs
  exact atan2R_polar hr (by linarith) (by linarith)

/-! ## 5. the point `p = slerp b c q` and the triangle `a b p` -/

theorem slerpR_unfold {b c : R3} (q : ℝ) (hγ : slerpSwitch ≤ angleR b c) :
    slerpR b c q = addR (scaleR b (Real.sin ((1 - q) * angleR b c) / Real.sin (angleR b c)))
      (scaleR c (Real.sin (q * angleR b c) / Real.sin (angleR b c))) := by
  unfold slerpR
  simp only [if_neg (not_lt.mpr hγ)]

theorem comb_facts (a b c : R3) (wa wb : ℝ) :
    dotR (addR (scaleR b wa) (scaleR c wb)) a = wa * dotR a b + wb * dotR c a ∧
    tripleR a b (addR (scaleR b wa) (scaleR c wb)) = wb * tripleR a b c ∧
    dotR (addR (scaleR b wa) (scaleR c wb)) (crossR b c) = 0 := by
  simp only [tripleR, dotR, crossR, addR, scaleR]
  exact ⟨by ring, by ring, by ring⟩

/-- `|b × c| = sin θ` for unit vectors -/
theorem length_cross_unit {b c : R3} (hb : dotR b b = 1) (hc : dotR c c = 1) :
    lengthR (crossR b c) = Real.sin (angleR b c) := by
  obtain ⟨_, hcos, g0, g1⟩ := angleR_unit hb hc
  have h := lagrange b c
  rw [hb, hc] at h
  rw [lengthR_eq, ← h, ← hcos]
  have : 1 * 1 - Real.cos (angleR b c) ^ 2 = Real.sin (angleR b c) ^ 2 := by
    rw [Real.sin_sq]; ring
  rw [this, Real.sqrt_sq (Real.sin_nonneg_of_nonneg_of_le_pi g0 g1)]

/-- facts about the triangle `a b p`, `p = slerp b c q` (any real `q`) -/
theorem abp_facts {a b c : R3} (q : ℝ) (hb : dotR b b = 1) (hc : dotR c c = 1)
    (hγ : slerpSwitch ≤ angleR b c) (hπ : angleR b c < π) :
    dotR (slerpR b c q) (slerpR b c q) = 1 ∧
    Real.sin (angleR b c) * (1 + dotR a b + dotR b (slerpR b c q) + dotR (slerpR b c q) a)
      = Real.sin (angleR b c) * (1 + dotR a b) * (1 + Real.cos (q * angleR b c))
        - (dotR a b * dotR b c - dotR c a) * Real.sin (q * angleR b c) ∧
    Real.sin (angleR b c) * tripleR a b (slerpR b c q) = Real.sin (q * angleR b c) * tripleR a b c := by
  obtain ⟨hu, hd, _⟩ := slerpR_spec q hb hc hγ hπ
  obtain ⟨_, hcos, _, _⟩ := angleR_unit hb hc
  have hpos : 0 < angleR b c := lt_of_lt_of_le slerpSwitch_pos hγ
  have hS : Real.sin (angleR b c) ≠ 0 := (Real.sin_pos_of_pos_of_lt_pi hpos hπ).ne'
  refine ⟨hu, ?_, ?_⟩
  · rw [hd, slerpR_unfold q hγ, (comb_facts a b c _ _).1, ← hcos,
      show (1 - q) * angleR b c = angleR b c - q * angleR b c by ring]
    exact Dp_identity _ _ _ _ hS
  · rw [slerpR_unfold q hγ, (comb_facts a b c _ _).2.1]
    field_simp

/-! ## 6. the inverse's closed formula -/

/-- the `f` of `polyhedralInverse` as a function of the triangle and of `alpha` -/
noncomputable def edgeF (a b c : R3) (alpha : ℝ) : ℝ :=
  let c1 := crossR b c
  let s := Real.sin alpha
  let halfC := Real.sin (alpha / 2)
  let cc := 2 * halfC * halfC
  let c01 := dotR a b
  let c12 := dotR b c
  let c20 := dotR c a
  let vv := dotR a c1
  s * vv + cc * (c01 * c12 - c20)

/-- the `g` of `polyhedralInverse` -/
noncomputable def edgeG (a b c : R3) (alpha : ℝ) : ℝ :=
  let c1 := crossR b c
  let halfC := Real.sin (alpha / 2)
  let cc := 2 * halfC * halfC
  let c01 := dotR a b
  let s12 := lengthR c1
  cc * s12 * (1 + c01)

/-- the `q` of `polyhedralInverse`: `(2 / acos c12) * atan2 g f` -/
noncomputable def edgeParamR (a b c : R3) (alpha : ℝ) : ℝ :=
  (2 / Real.arccos (dotR b c)) * atan2R (edgeG a b c alpha) (edgeF a b c alpha)

/-- `f` and `g` with the common factor `2 sin (α/2)` pulled out -/
theorem edgeFG_factor {a b c : R3} (alpha : ℝ) (hb : dotR b b = 1) (hc : dotR c c = 1) :
    edgeF a b c alpha = 2 * Real.sin (alpha / 2) *
      (Real.cos (alpha / 2) * tripleR a b c + Real.sin (alpha / 2) * (dotR a b * dotR b c - dotR c a)) ∧
    edgeG a b c alpha = 2 * Real.sin (alpha / 2) *
      (Real.sin (alpha / 2) * Real.sin (angleR b c) * (1 + dotR a b)) := by
  unfold edgeF edgeG
  simp only
  rw [length_cross_unit hb hc, sin_eq_half alpha]
  simp only [tripleR]
  exact ⟨by ring, by ring⟩

/-- the angle `∠(b,c) < π` for a non-degenerate unit triangle -/
theorem angle_bc_lt_pi {a b c : R3} (ha : dotR a a = 1) (hb : dotR b b = 1) (hc : dotR c c = 1)
    (hV : 0 < tripleR a b c) : angleR b c < π := by
  obtain ⟨_, h2, _⟩ := one_add_dots_pos ha hb hc hV.ne'
  rw [(angleR_unit hb hc).1]
  exact Real.arccos_lt_pi.mpr (by linarith)

/-- **(B) the inverse's closed formula inverts the forward area ratio.**
`a b c` unit vectors, counter-clockwise (`V > 0`), area `< π` (`1 + a·b + b·c + c·a > 0`), edge `b c` not in the
small-angle branch of `slerp`.  For `p = slerp b c q`, `0 ≤ q ≤ 1`, and `alpha` = the code's area of `a b p`,
the code's `f`, `g` satisfy `g (1 + cos qθ) = f sin qθ` and the code's `q = (2 / acos c12) atan2 g f` is `q`. -/
theorem angular_inverse_formula {a b c : R3} {q : ℝ} (ha : dotR a a = 1) (hb : dotR b b = 1)
    (hc : dotR c c = 1) (hV : 0 < tripleR a b c) (hD : 0 < 1 + dotR a b + dotR b c + dotR c a)
    (hγ : slerpSwitch ≤ angleR b c) (hq0 : 0 ≤ q) (hq1 : q ≤ 1) :
    let alpha := triAreaR a b (slerpR b c q)
    edgeG a b c alpha * (1 + Real.cos (q * angleR b c)) = edgeF a b c alpha * Real.sin (q * angleR b c) ∧
    edgeParamR a b c alpha = q := by
  intro alpha
  have hπ := angle_bc_lt_pi ha hb hc hV
  obtain ⟨h01, _, _⟩ := one_add_dots_pos ha hb hc hV.ne'
  obtain ⟨hang, hcos, _, _⟩ := angleR_unit hb hc
  have hθ0 : 0 < angleR b c := lt_of_lt_of_le slerpSwitch_pos hγ
  have hS : 0 < Real.sin (angleR b c) := Real.sin_pos_of_pos_of_lt_pi hθ0 hπ
  obtain ⟨hu, hDp, hVp⟩ := abp_facts (a := a) q hb hc hγ hπ
  have hφ0 : 0 ≤ q * angleR b c := by positivity
  have hφθ : q * angleR b c ≤ angleR b c := by
    have := mul_le_mul_of_nonneg_right hq1 hθ0.le; linarith
  -- Eriksson's denominator for `a b p` is positive
  have hDpos : 0 < 1 + dotR a b + dotR b (slerpR b c q) + dotR (slerpR b c q) a := by
    have h := Dp_pos (c01 := dotR a b) (c20 := dotR c a) hθ0 hπ hφ0 hφθ h01 (by rw [hcos]; linarith)
    rw [hcos, ← hDp] at h
    exact (mul_pos_iff_of_pos_left hS).mp h
  have hα : alpha = 2 * Real.arctan (tripleR a b (slerpR b c q) /
      (1 + dotR a b + dotR b (slerpR b c q) + dotR (slerpR b c q) a)) :=
    triAreaR_eq_arctan' ha hb hu hDpos
  set p := slerpR b c q
  set Dp := 1 + dotR a b + dotR b p + dotR p a
  set Vp := tripleR a b p
  have hα2 : alpha / 2 = Real.arctan (Vp / Dp) := by rw [hα]; ring
  have hcs : 0 < Real.cos (alpha / 2) := by rw [hα2]; exact Real.cos_arctan_pos _
  have h1 : Real.sin (alpha / 2) * Dp = Real.cos (alpha / 2) * Vp := by
    have ht : Real.tan (alpha / 2) = Vp / Dp := by rw [hα2, Real.tan_arctan]
    rw [Real.tan_eq_sin_div_cos, div_eq_div_iff hcs.ne' hDpos.ne'] at ht
    linarith
  have hcore := core_identity (sn := Real.sin (alpha / 2)) (cs := Real.cos (alpha / 2))
    (V := tripleR a b c) (K := dotR a b * dotR b c - dotR c a) (c01 := dotR a b) h1 hVp hDp
  obtain ⟨eF, eG⟩ := edgeFG_factor (a := a) alpha hb hc
  have hmain : edgeG a b c alpha * (1 + Real.cos (q * angleR b c))
      = edgeF a b c alpha * Real.sin (q * angleR b c) := by
    rw [eF, eG]; linear_combination 2 * Real.sin (alpha / 2) * hcore
  refine ⟨hmain, ?_⟩
  unfold edgeParamR
  rw [← hang]
  rcases eq_or_lt_of_le hq0 with hq | hq
  · -- `q = 0`: `p = b`, `alpha = 0`, `f = g = 0`, `atan2 0 0 = 0`
    have hVp0 : Vp = 0 := by
      have : Real.sin (angleR b c) * Vp = 0 := by rw [hVp, ← hq]; simp
      exact (mul_eq_zero.mp this).resolve_left hS.ne'
    have hsn : Real.sin (alpha / 2) = 0 := by rw [hα2, hVp0]; simp
    rw [eF, eG, hsn]
    simp only [mul_zero, zero_mul, atan2R_zero_zero]
    exact hq
  · have hφ0' : 0 < q * angleR b c := mul_pos hq hθ0
    have hφπ : q * angleR b c < π := lt_of_le_of_lt hφθ hπ
    have hsφ : 0 < Real.sin (q * angleR b c) := Real.sin_pos_of_pos_of_lt_pi hφ0' hφπ
    have hVpos : 0 < Vp := by
      have : 0 < Real.sin (angleR b c) * Vp := by rw [hVp]; exact mul_pos hsφ hV
      exact (mul_pos_iff_of_pos_left hS).mp this
    have hsn : 0 < Real.sin (alpha / 2) := by
      rw [hα2]; exact Real.sin_arctan_pos.mpr (div_pos hVpos hDpos)
    have hg : 0 < edgeG a b c alpha := by rw [eG]; positivity
    rw [atan2R_half hφ0' hφπ hg hmain]
    field_simp

/-! ## 7. the other composition: the forward area of the inverse's point -/

theorem tan_half_eq {θ : ℝ} (h0 : 0 < θ) (h1 : θ < π) :
    Real.tan (θ / 2) = Real.sin θ / (1 + Real.cos θ) := by
  have hc : 0 < Real.cos (θ / 2) := Real.cos_pos_of_mem_Ioo ⟨by linarith, by linarith⟩
  rw [Real.tan_eq_sin_div_cos, sin_eq_half θ, one_add_cos_eq_half θ]
  field_simp

/-- **(C) the forward area of the point computed by the inverse's closed formula.**
Same triangle hypotheses.  For `0 < alpha < area(a,b,c)` the code's `q = (2 / acos c12) atan2 g f` lies in
`(0,1)` and the code's area of `a b (slerp b c q)` is `alpha`. -/
theorem angular_forward_formula {a b c : R3} {alpha : ℝ} (ha : dotR a a = 1) (hb : dotR b b = 1)
    (hc : dotR c c = 1) (hV : 0 < tripleR a b c) (hD : 0 < 1 + dotR a b + dotR b c + dotR c a)
    (hγ : slerpSwitch ≤ angleR b c) (hα0 : 0 < alpha) (hα1 : alpha < triAreaR a b c) :
    0 < edgeParamR a b c alpha ∧ edgeParamR a b c alpha < 1 ∧
      triAreaR a b (slerpR b c (edgeParamR a b c alpha)) = alpha := by
  have hpi := Real.pi_pos
  have hπ := angle_bc_lt_pi ha hb hc hV
  obtain ⟨h01, h12, _⟩ := one_add_dots_pos ha hb hc hV.ne'
  obtain ⟨hang, hcos, _, _⟩ := angleR_unit hb hc
  have hθ0 : 0 < angleR b c := lt_of_lt_of_le slerpSwitch_pos hγ
  have hS : 0 < Real.sin (angleR b c) := Real.sin_pos_of_pos_of_lt_pi hθ0 hπ
  -- `tan (alpha/2) < V / D`
  have hE := triAreaR_eq_arctan' ha hb hc hD
  have hEhalf := Real.arctan_lt_pi_div_two (tripleR a b c / (1 + dotR a b + dotR b c + dotR c a))
  have hα2 : alpha / 2 < Real.arctan (tripleR a b c / (1 + dotR a b + dotR b c + dotR c a)) := by
    rw [hE] at hα1; linarith
  have hsn : 0 < Real.sin (alpha / 2) := Real.sin_pos_of_pos_of_lt_pi (by linarith) (by linarith)
  have hcs : 0 < Real.cos (alpha / 2) := Real.cos_pos_of_mem_Ioo ⟨by linarith, by linarith⟩
  have htan : Real.sin (alpha / 2) * (1 + dotR a b + dotR b c + dotR c a)
      < Real.cos (alpha / 2) * tripleR a b c := by
    have h := Real.tan_lt_tan_of_lt_of_lt_pi_div_two (by linarith) hEhalf hα2
    rw [Real.tan_arctan, Real.tan_eq_sin_div_cos, div_lt_div_iff₀ hcs hD] at h
    linarith
  obtain ⟨eF, eG⟩ := edgeFG_factor (a := a) alpha hb hc
  set sn := Real.sin (alpha / 2)
  set cs := Real.cos (alpha / 2)
  set K := dotR a b * dotR b c - dotR c a
  -- `f > 0`, `g > 0`
  have hinner : 0 < cs * tripleR a b c + sn * K := by
    have e : sn * (1 + dotR a b + dotR b c + dotR c a) + sn * K = sn * ((1 + dotR a b) * (1 + dotR b c)) := by
      simp only [K]; ring
    have : 0 < sn * ((1 + dotR a b) * (1 + dotR b c)) := by positivity
    linarith
  have hf : 0 < edgeF a b c alpha := by rw [eF]; positivity
  have hg : 0 < edgeG a b c alpha := by rw [eG]; positivity
  -- `ψ = atan2 g f = arctan (g/f) ∈ (0, π/2)`, `φ = 2ψ`
  have hψ : atan2R (edgeG a b c alpha) (edgeF a b c alpha)
      = Real.arctan (edgeG a b c alpha / edgeF a b c alpha) := atan2R_of_pos hf
  set ψ := Real.arctan (edgeG a b c alpha / edgeF a b c alpha)
  have hψ0 : 0 < ψ := Real.arctan_pos.mpr (div_pos hg hf)
  have hψ1 : ψ < π / 2 := Real.arctan_lt_pi_div_two _
  have hcψ : 0 < Real.cos ψ := Real.cos_arctan_pos _
  have hq : edgeParamR a b c alpha = 2 * ψ / angleR b c := by
    unfold edgeParamR; rw [hψ, ← hang]; ring
  have hqθ : edgeParamR a b c alpha * angleR b c = 2 * ψ := by
    rw [hq]; field_simp
  -- `g cos ψ = f sin ψ`
  have hgf : edgeG a b c alpha * Real.cos ψ = edgeF a b c alpha * Real.sin ψ := by
    have ht : Real.tan ψ = edgeG a b c alpha / edgeF a b c alpha := Real.tan_arctan _
    rw [Real.tan_eq_sin_div_cos, div_eq_div_iff hcψ.ne' hf.ne'] at ht
    linarith
  -- `ψ < θ/2`
  have hψθ : ψ < angleR b c / 2 := by
    have h1 : edgeG a b c alpha / edgeF a b c alpha < Real.tan (angleR b c / 2) := by
      rw [tan_half_eq hθ0 hπ, hcos, div_lt_div_iff₀ hf h12, eF, eG]
      have e : sn * (1 + dotR a b + dotR b c + dotR c a) = sn * ((1 + dotR a b) * (1 + dotR b c)) - sn * K := by
        simp only [K]; ring
      have h2 : sn * ((1 + dotR a b) * (1 + dotR b c)) < cs * tripleR a b c + sn * K := by linarith
      have h3 : 0 < 2 * sn * Real.sin (angleR b c) := by positivity
      have := mul_lt_mul_of_pos_left h2 h3
      linarith
    have := Real.arctan_strictMono h1
    rwa [Real.arctan_tan (by linarith) (by linarith)] at this
  have hq0 : 0 < edgeParamR a b c alpha := by rw [hq]; positivity
  have hq1 : edgeParamR a b c alpha < 1 := by
    rw [hq, div_lt_one hθ0]; linarith
  refine ⟨hq0, hq1, ?_⟩
  -- the triangle `a b p`
  obtain ⟨hu, hDp, hVp⟩ := abp_facts (a := a) (edgeParamR a b c alpha) hb hc hγ hπ
  rw [hqθ] at hDp hVp
  set p := slerpR b c (edgeParamR a b c alpha)
  set Dp := 1 + dotR a b + dotR b p + dotR p a
  set Vp := tripleR a b p
  have hs2 : Real.sin (2 * ψ) = 2 * Real.sin ψ * Real.cos ψ := Real.sin_two_mul ψ
  have hc2 : 1 + Real.cos (2 * ψ) = 2 * Real.cos ψ ^ 2 := by rw [Real.cos_two_mul]; ring
  have hsφ : 0 < Real.sin (2 * ψ) := Real.sin_pos_of_pos_of_lt_pi (by linarith) (by linarith)
  -- `sn sinθ (1 + c01) (1 + cos φ) = (cs V + sn K) sin φ`
  have hrel : (sn * Real.sin (angleR b c) * (1 + dotR a b)) * (1 + Real.cos (2 * ψ))
      = (cs * tripleR a b c + sn * K) * Real.sin (2 * ψ) := by
    rw [eF, eG] at hgf
    have h2 : (2 * sn * Real.cos ψ) * ((sn * Real.sin (angleR b c) * (1 + dotR a b)) * Real.cos ψ)
        = (2 * sn * Real.cos ψ) * ((cs * tripleR a b c + sn * K) * Real.sin ψ) := by
      linear_combination Real.cos ψ * hgf
    have h3 := mul_left_cancel₀ (by positivity) h2
    rw [hs2, hc2]; linear_combination 2 * Real.cos ψ * h3
  -- hence `sn sinθ Dp = cs V sin φ`
  have hkey : sn * (Real.sin (angleR b c) * Dp) = cs * (Real.sin (2 * ψ) * tripleR a b c) := by
    rw [hDp]; linear_combination hrel
  have hDpos : 0 < Dp := by
    have h1 : 0 < cs * (Real.sin (2 * ψ) * tripleR a b c) := by positivity
    rw [← hkey] at h1
    have h2 : 0 < Real.sin (angleR b c) * Dp := (mul_pos_iff_of_pos_left hsn).mp h1
    exact (mul_pos_iff_of_pos_left hS).mp h2
  rw [triAreaR_eq_arctan' ha hb hu hDpos]
  have hratio : tripleR a b p / (1 + dotR a b + dotR b p + dotR p a) = Real.tan (alpha / 2) := by
    show Vp / Dp = _
    rw [Real.tan_eq_sin_div_cos, div_eq_div_iff hDpos.ne' hcs.ne']
    have : Real.sin (angleR b c) * (Vp * cs) = Real.sin (angleR b c) * (sn * Dp) := by
      linear_combination cs * hVp - hkey
    exact mul_left_cancel₀ hS.ne' this
  rw [hratio, Real.arctan_tan (by linarith) (by linarith)]
  ring

/-! ## non-vacuity: the octant triangle `a = e₃`, `b = e₁`, `c = e₂` (`V = 1`, `1 + a·b + b·c + c·a = 1`, area `π/2`) -/

theorem octant_hyps :
    dotR ⟨0, 0, 1⟩ ⟨0, 0, 1⟩ = 1 ∧ dotR ⟨1, 0, 0⟩ ⟨1, 0, 0⟩ = 1 ∧ dotR ⟨0, 1, 0⟩ ⟨0, 1, 0⟩ = 1 ∧
    0 < tripleR ⟨0, 0, 1⟩ ⟨1, 0, 0⟩ ⟨0, 1, 0⟩ ∧
    0 < 1 + dotR ⟨0, 0, 1⟩ ⟨1, 0, 0⟩ + dotR ⟨1, 0, 0⟩ ⟨0, 1, 0⟩ + dotR ⟨0, 1, 0⟩ ⟨0, 0, 1⟩ ∧
    slerpSwitch ≤ angleR ⟨1, 0, 0⟩ ⟨0, 1, 0⟩ := by
  refine ⟨by norm_num [dotR], e1_e2_hyps.1, e1_e2_hyps.2.1, by norm_num [tripleR, dotR, crossR],
    by norm_num [dotR], e1_e2_hyps.2.2.1⟩

/-- the code's area of the octant triangle is `π/2` -/
theorem octant_area : triAreaR ⟨0, 0, 1⟩ ⟨1, 0, 0⟩ ⟨0, 1, 0⟩ = π / 2 := by
  obtain ⟨ha, hb, hc, _, hD, _⟩ := octant_hyps
  rw [triAreaR_eq_arctan' ha hb hc hD]
  have : tripleR ⟨0, 0, 1⟩ ⟨1, 0, 0⟩ ⟨0, 1, 0⟩ /
      (1 + dotR ⟨0, 0, 1⟩ ⟨1, 0, 0⟩ + dotR ⟨1, 0, 0⟩ ⟨0, 1, 0⟩ + dotR ⟨0, 1, 0⟩ ⟨0, 0, 1⟩) = 1 := by
    norm_num [tripleR, dotR, crossR]
  rw [this, Real.arctan_one]; ring

example : Real.tan (triAreaR ⟨0, 0, 1⟩ ⟨1, 0, 0⟩ ⟨0, 1, 0⟩ / 2) =
    tripleR ⟨0, 0, 1⟩ ⟨1, 0, 0⟩ ⟨0, 1, 0⟩ /
      (1 + dotR ⟨0, 0, 1⟩ ⟨1, 0, 0⟩ + dotR ⟨1, 0, 0⟩ ⟨0, 1, 0⟩ + dotR ⟨0, 1, 0⟩ ⟨0, 0, 1⟩) := by
  obtain ⟨ha, hb, hc, hV, hD, _⟩ := octant_hyps
  obtain ⟨h1, h2, h3⟩ := one_add_dots_pos ha hb hc hV.ne'
  exact eriksson ha hb hc h1 h2 h3 hD

example : edgeParamR ⟨0, 0, 1⟩ ⟨1, 0, 0⟩ ⟨0, 1, 0⟩
    (triAreaR ⟨0, 0, 1⟩ ⟨1, 0, 0⟩ (slerpR ⟨1, 0, 0⟩ ⟨0, 1, 0⟩ (1 / 3))) = 1 / 3 := by
  obtain ⟨ha, hb, hc, hV, hD, hγ⟩ := octant_hyps
  exact (angular_inverse_formula ha hb hc hV hD hγ (by norm_num) (by norm_num)).2

example : triAreaR ⟨0, 0, 1⟩ ⟨1, 0, 0⟩
    (slerpR ⟨1, 0, 0⟩ ⟨0, 1, 0⟩ (edgeParamR ⟨0, 0, 1⟩ ⟨1, 0, 0⟩ ⟨0, 1, 0⟩ (1 / 2))) = 1 / 2 := by
  obtain ⟨ha, hb, hc, hV, hD, hγ⟩ := octant_hyps
  refine (angular_forward_formula ha hb hc hV hD hγ (by norm_num) ?_).2.2
  rw [octant_area]; linarith [Real.pi_gt_three]

example : atan2R 1 (-1) = 3 * π / 4 := by
  have h := atan2R_polar (r := √2) (ψ := 3 * π / 4) (by positivity) (by linarith [Real.pi_pos])
    (by linarith [Real.pi_pos])
  have e1 : Real.sin (3 * π / 4) = √2 / 2 := by
    rw [show 3 * π / 4 = π - π / 4 by ring, Real.sin_pi_sub, Real.sin_pi_div_four]
  have e2 : Real.cos (3 * π / 4) = -(√2 / 2) := by
    rw [show 3 * π / 4 = π - π / 4 by ring, Real.cos_pi_sub, Real.cos_pi_div_four]
  have hs : √2 * √2 = 2 := Real.mul_self_sqrt (by norm_num)
  rw [e1, e2, show √2 * (√2 / 2) = 1 by linarith, show √2 * -(√2 / 2) = -1 by linarith] at h
  exact h

end A5.AngularRoundTrip
