import A5.Model.Hex
/-! Lemmas about the hex codec `A5/Model/Hex.lean` (core-only).  Strings are lists of byte values. -/
namespace A5

/-- ASCII hex digit, either case (exactly the bytes `from_str_radix(_, 16)` accepts as digits) -/
def IsHexDigit (b : Nat) : Prop := (48 ≤ b ∧ b ≤ 57) ∨ (97 ≤ b ∧ b ≤ 102) ∨ (65 ≤ b ∧ b ≤ 70)

/-- `'0'..'9'` or `'a'..'f'` (what `format!("{:x}")` produces) -/
def IsLowerHexDigit (b : Nat) : Prop := (48 ≤ b ∧ b ≤ 57) ∨ (97 ≤ b ∧ b ≤ 102)

instance (b : Nat) : Decidable (IsHexDigit b) := by unfold IsHexDigit; infer_instance
instance (b : Nat) : Decidable (IsLowerHexDigit b) := by unfold IsLowerHexDigit; infer_instance

theorem IsLowerHexDigit.isHexDigit {b : Nat} (h : IsLowerHexDigit b) : IsHexDigit b := by
  unfold IsLowerHexDigit at h; unfold IsHexDigit; omega

/-- base-16 value of a byte string, most significant digit first, starting from `acc`
(non-digits count as 0; only used on digit strings) -/
def hexValueFrom (acc : Nat) : List Nat → Nat
  | [] => acc
  | b :: bs => hexValueFrom (acc * 16 + (hexVal b).getD 0) bs

/-- base-16 value of a digit string (unbounded) -/
def hexValue (s : List Nat) : Nat := hexValueFrom 0 s

/-! ### digits -/

theorem hexVal_hexDigitChar (d : Nat) (h : d < 16) : hexVal (hexDigitChar d) = some d := by
  by_cases h10 : d < 10
  · simp only [hexDigitChar, if_pos h10, hexVal]
    rewrite [if_pos (by omega)]
    exact congrArg some (by omega)
  · simp only [hexDigitChar, if_neg h10, hexVal]
    rewrite [if_neg (by omega), if_pos (by omega)]
    exact congrArg some (by omega)

theorem hexDigitChar_lower (d : Nat) (h : d < 16) : IsLowerHexDigit (hexDigitChar d) := by
  unfold IsLowerHexDigit hexDigitChar
  split <;> omega

theorem hexDigitChar_eq_zero (d : Nat) (h : d < 16) (h0 : hexDigitChar d = 48) : d = 0 := by
  unfold hexDigitChar at h0
  split at h0 <;> omega

theorem hexVal_isSome_iff (b : Nat) : (hexVal b).isSome = true ↔ IsHexDigit b := by
  unfold hexVal IsHexDigit
  split
  · simp only [Option.isSome_some, true_iff]; omega
  · split
    · simp only [Option.isSome_some, true_iff]; omega
    · split
      · simp only [Option.isSome_some, true_iff]; omega
      · simp only [Option.isSome_none, Bool.false_eq_true, false_iff]; omega

theorem hexVal_of_digit (b : Nat) (h : IsHexDigit b) : ∃ d, hexVal b = some d ∧ d < 16 := by
  unfold hexVal
  unfold IsHexDigit at h
  split
  · exact ⟨_, rfl, by omega⟩
  · split
    · exact ⟨_, rfl, by omega⟩
    · split
      · exact ⟨_, rfl, by omega⟩
      · omega

theorem hexVal_none_of_not_digit (b : Nat) (h : ¬ IsHexDigit b) : hexVal b = none := by
  unfold hexVal
  unfold IsHexDigit at h
  rewrite [if_neg (by omega), if_neg (by omega), if_neg (by omega)]
  rfl

/-! ### `hexDigitsAux` -/

theorem hexDigitsAux_zero (fuel : Nat) (acc : List Nat) : hexDigitsAux fuel 0 acc = acc := by
  cases fuel with
  | zero => rfl
  | succ f => simp only [hexDigitsAux, if_true]

theorem hexDigitsAux_succ (fuel n : Nat) (acc : List Nat) (hn : n ≠ 0) :
    hexDigitsAux (fuel + 1) n acc = hexDigitsAux fuel (n / 16) (hexDigitChar (n % 16) :: acc) := by
  simp only [hexDigitsAux, if_neg hn]

theorem hexDigitsAux_append (fuel : Nat) : ∀ (n : Nat) (acc : List Nat),
    hexDigitsAux fuel n acc = hexDigitsAux fuel n [] ++ acc := by
  induction fuel with
  | zero => intro n acc; rfl
  | succ f ih =>
    intro n acc
    by_cases hn : n = 0
    · subst hn; rewrite [hexDigitsAux_zero, hexDigitsAux_zero]; rfl
    · rewrite [hexDigitsAux_succ f n acc hn, hexDigitsAux_succ f n [] hn, ih (n / 16) (_ :: acc),
        ih (n / 16) [_], List.append_assoc]
      rfl

/-- the digit string of a non-zero `n`: digits of `n / 16` followed by the last digit -/
theorem hexDigitsAux_snoc (fuel n : Nat) (hn : n ≠ 0) :
    hexDigitsAux (fuel + 1) n [] = hexDigitsAux fuel (n / 16) [] ++ [hexDigitChar (n % 16)] := by
  rewrite [hexDigitsAux_succ fuel n [] hn, hexDigitsAux_append]
  rfl

/-- **fuel suffices**: once `n < 16 ^ fuel`, more fuel changes nothing (so fuel 16 is enough for `u64`). -/
theorem hexDigitsAux_fuel (f : Nat) : ∀ (f' n : Nat) (acc : List Nat), n < 16 ^ f → f ≤ f' →
    hexDigitsAux f' n acc = hexDigitsAux f n acc := by
  induction f with
  | zero =>
    intro f' n acc hn _
    have : n = 0 := by simp only [Nat.pow_zero] at hn; omega
    subst this
    rewrite [hexDigitsAux_zero, hexDigitsAux_zero]; rfl
  | succ f ih =>
    intro f' n acc hn hff
    obtain ⟨g, rfl⟩ : ∃ g, f' = g + 1 := ⟨f' - 1, by omega⟩
    by_cases h0 : n = 0
    · subst h0; rewrite [hexDigitsAux_zero, hexDigitsAux_zero]; rfl
    · rewrite [hexDigitsAux_succ g n acc h0, hexDigitsAux_succ f n acc h0]
      refine ih g (n / 16) _ ?_ (by omega)
      rewrite [Nat.pow_succ] at hn
      exact Nat.div_lt_of_lt_mul (by rewrite [Nat.mul_comm]; exact hn)

theorem hexDigitsAux_length (fuel : Nat) : ∀ n, (hexDigitsAux fuel n []).length ≤ fuel := by
  induction fuel with
  | zero => intro n; exact Nat.le_refl 0
  | succ f ih =>
    intro n
    by_cases hn : n = 0
    · subst hn; rewrite [hexDigitsAux_zero]; exact Nat.zero_le _
    · rewrite [hexDigitsAux_snoc f n hn, List.length_append]
      have := ih (n / 16)
      simp only [List.length_cons, List.length_nil]
      omega

theorem hexDigitsAux_lower (fuel : Nat) : ∀ n, ∀ b ∈ hexDigitsAux fuel n [], IsLowerHexDigit b := by
  induction fuel with
  | zero => intro n b hb; cases hb
  | succ f ih =>
    intro n b hb
    by_cases hn : n = 0
    · subst hn; rewrite [hexDigitsAux_zero] at hb; cases hb
    · rewrite [hexDigitsAux_snoc f n hn] at hb
      rcases List.mem_append.mp hb with h | h
      · exact ih _ b h
      · rewrite [List.mem_singleton] at h
        subst h
        exact hexDigitChar_lower _ (Nat.mod_lt _ (by omega))

/-- a non-zero number has a non-empty digit string whose first digit is not `'0'` -/
theorem hexDigitsAux_head (fuel : Nat) : ∀ n, n ≠ 0 → n < 16 ^ fuel →
    ∃ b rest, hexDigitsAux fuel n [] = b :: rest ∧ b ≠ 48 := by
  induction fuel with
  | zero => intro n hn hlt; simp only [Nat.pow_zero] at hlt; omega
  | succ f ih =>
    intro n hn hlt
    rewrite [hexDigitsAux_snoc f n hn]
    by_cases hq : n / 16 = 0
    · rewrite [hq, hexDigitsAux_zero]
      refine ⟨_, [], rfl, ?_⟩
      intro h48
      have := hexDigitChar_eq_zero _ (Nat.mod_lt _ (by omega)) h48
      omega
    · have hlt' : n / 16 < 16 ^ f := by
        rewrite [Nat.pow_succ] at hlt
        exact Nat.div_lt_of_lt_mul (by rewrite [Nat.mul_comm]; exact hlt)
      obtain ⟨b, rest, e, hb⟩ := ih (n / 16) hq hlt'
      rewrite [e]
      exact ⟨b, rest ++ [_], rfl, hb⟩

/-! ### values -/

theorem hexValueFrom_append (l r : List Nat) : ∀ a, hexValueFrom a (l ++ r) = hexValueFrom (hexValueFrom a l) r := by
  induction l with
  | nil => intro a; rfl
  | cons b bs ih => intro a; exact ih _

theorem le_hexValueFrom (s : List Nat) : ∀ a, a ≤ hexValueFrom a s := by
  induction s with
  | nil => intro a; exact Nat.le_refl a
  | cons b bs ih =>
    intro a
    have := ih (a * 16 + (hexVal b).getD 0)
    show a ≤ hexValueFrom (a * 16 + (hexVal b).getD 0) bs
    omega

theorem hexValue_digits (fuel : Nat) : ∀ n, n < 16 ^ fuel → hexValue (hexDigitsAux fuel n []) = n := by
  induction fuel with
  | zero => intro n hn; simp only [Nat.pow_zero] at hn; have : n = 0 := by omega
            subst this; rfl
  | succ f ih =>
    intro n hlt
    by_cases hn : n = 0
    · subst hn; rewrite [hexDigitsAux_zero]; rfl
    · have hlt' : n / 16 < 16 ^ f := by
        rewrite [Nat.pow_succ] at hlt
        exact Nat.div_lt_of_lt_mul (by rewrite [Nat.mul_comm]; exact hlt)
      have h := ih (n / 16) hlt'
      unfold hexValue at h ⊢
      rewrite [hexDigitsAux_snoc f n hn, hexValueFrom_append, h]
      show n / 16 * 16 + (hexVal (hexDigitChar (n % 16))).getD 0 = n
      rewrite [hexVal_hexDigitChar _ (Nat.mod_lt _ (by omega))]
      show n / 16 * 16 + n % 16 = n
      omega

/-! ### the parser -/

/-- the parser on digit strings: exact value, or `hexParse` on overflow -/
theorem hexAccum_digits (s : List Nat) : ∀ acc, acc < 2 ^ 64 → (∀ b ∈ s, IsHexDigit b) →
    hexAccum s acc =
      if hexValueFrom acc s < 2 ^ 64 then .ok (hexValueFrom acc s) else .err .hexParse := by
  induction s with
  | nil =>
    intro acc hacc _
    show Outcome.ok acc = if acc < 2 ^ 64 then Outcome.ok acc else _
    rewrite [if_pos hacc]; rfl
  | cons b bs ih =>
    intro acc hacc hall
    obtain ⟨d, hd, hd16⟩ := hexVal_of_digit b (hall b (List.mem_cons_self))
    have hstep : hexValueFrom acc (b :: bs) = hexValueFrom (acc * 16 + d) bs := by
      show hexValueFrom (acc * 16 + (hexVal b).getD 0) bs = _
      rewrite [hd]; rfl
    rewrite [hstep]
    simp only [hexAccum, hd]
    by_cases hov : acc * 16 < 2 ^ 64 ∧ acc * 16 + d < 2 ^ 64
    · rewrite [if_pos hov]
      exact ih _ hov.2 (fun x hx => hall x (List.mem_cons_of_mem _ hx))
    · rewrite [if_neg hov]
      have := le_hexValueFrom bs (acc * 16 + d)
      rewrite [if_neg (by omega)]; rfl

theorem hexAccum_never_panics (s : List Nat) : ∀ acc, (hexAccum s acc).isPanic = false := by
  induction s with
  | nil => intro acc; rfl
  | cons b bs ih =>
    intro acc
    simp only [hexAccum]
    split
    · rfl
    · split
      · exact ih _
      · rfl

/-- every string that does not start with `+`/`-` is parsed by the digit loop -/
theorem hexToU64_cons (b : Nat) (bs : List Nat) (h43 : b ≠ 43) (h45 : b ≠ 45) :
    hexToU64 (b :: bs) = hexAccum (b :: bs) 0 := by
  unfold hexToU64
  split
  · rename_i h; cases h
  · rename_i h; injection h with h _; omega
  · rename_i h; injection h with h _; omega
  · rename_i h; injection h with h _; omega
  · rfl

theorem hexToU64_nil : hexToU64 [] = .err .hexParse := rfl

/-- `hexToU64` on a non-empty string of hex digits (either case): the exact base-16 value if it fits
64 bits, otherwise the parse error (overflow is detected, never truncated) -/
theorem hexToU64_digits (s : List Nat) (hne : s ≠ []) (hall : ∀ b ∈ s, IsHexDigit b) :
    hexToU64 s = if hexValue s < 2 ^ 64 then .ok (hexValue s) else .err .hexParse := by
  cases s with
  | nil => exact absurd rfl hne
  | cons b bs =>
    have hb := hall b (List.mem_cons_self)
    unfold IsHexDigit at hb
    rewrite [hexToU64_cons b bs (by omega) (by omega)]
    exact hexAccum_digits (b :: bs) 0 (by omega) hall

theorem hexToU64_overflow (s : List Nat) (hall : ∀ b ∈ s, IsHexDigit b) (hov : 2 ^ 64 ≤ hexValue s) :
    hexToU64 s = .err .hexParse := by
  by_cases hne : s = []
  · subst hne; rfl
  · rewrite [hexToU64_digits s hne hall, if_neg (by omega)]; rfl

theorem hexToU64_never_panics (s : List Nat) : (hexToU64 s).isPanic = false := by
  unfold hexToU64
  split
  · rfl
  · rfl
  · rfl
  · exact hexAccum_never_panics _ _
  · exact hexAccum_never_panics _ _

/-- any byte that is not a hex digit (in particular `-`, space, `x`, `g`) makes the parse fail -/
theorem hexAccum_bad_byte (s : List Nat) (b : Nat) (hb : b ∈ s) (hbad : ¬ IsHexDigit b) :
    ∀ acc, hexAccum s acc = .err .hexParse := by
  induction s with
  | nil => cases hb
  | cons x xs ih =>
    intro acc
    rcases List.mem_cons.mp hb with h | h
    · subst h
      simp only [hexAccum, hexVal_none_of_not_digit b hbad]
    · simp only [hexAccum]
      split
      · rfl
      · split
        · exact ih h _
        · rfl

/-! ### the formatter -/

theorem u64ToHex_zero : u64ToHex 0 = [48] := rfl

theorem u64ToHex_pos (n : Nat) (hn : n ≠ 0) : u64ToHex n = hexDigitsAux 16 n [] := by
  unfold u64ToHex; rewrite [if_neg hn]; rfl

theorem lt_16_pow_16 (n : Nat) (h : n < 2 ^ 64) : n < 16 ^ 16 := by
  have e : (16 : Nat) ^ 16 = 2 ^ 64 := by decide
  rewrite [e]; exact h

theorem u64ToHex_lower (n : Nat) : ∀ b ∈ u64ToHex n, IsLowerHexDigit b := by
  intro b hb
  by_cases hn : n = 0
  · subst hn
    rewrite [u64ToHex_zero, List.mem_singleton] at hb
    subst hb; exact Or.inl ⟨Nat.le_refl _, by omega⟩
  · rewrite [u64ToHex_pos n hn] at hb
    exact hexDigitsAux_lower 16 n b hb

theorem u64ToHex_length (n : Nat) (h : n < 2 ^ 64) : 1 ≤ (u64ToHex n).length ∧ (u64ToHex n).length ≤ 16 := by
  by_cases hn : n = 0
  · subst hn; rewrite [u64ToHex_zero]; exact ⟨Nat.le_refl _, by decide⟩
  · rewrite [u64ToHex_pos n hn]
    obtain ⟨b, rest, e, _⟩ := hexDigitsAux_head 16 n hn (lt_16_pow_16 n h)
    refine ⟨?_, hexDigitsAux_length 16 n⟩
    rewrite [e]; exact Nat.succ_le_succ (Nat.zero_le _)

theorem u64ToHex_ne_nil (n : Nat) (h : n < 2 ^ 64) : u64ToHex n ≠ [] := by
  intro e
  have := (u64ToHex_length n h).1
  rewrite [e] at this
  exact absurd this (by decide)

/-- no leading zeros: the first byte is `'0'` only for `n = 0` -/
theorem u64ToHex_head (n : Nat) (h : n < 2 ^ 64) (h0 : (u64ToHex n).head? = some 48) : n = 0 := by
  apply Classical.byContradiction
  intro hn
  rewrite [u64ToHex_pos n hn] at h0
  obtain ⟨b, rest, e, hb⟩ := hexDigitsAux_head 16 n hn (lt_16_pow_16 n h)
  rewrite [e] at h0
  exact hb (Option.some.inj h0)

theorem hexValue_u64ToHex (n : Nat) (h : n < 2 ^ 64) : hexValue (u64ToHex n) = n := by
  by_cases hn : n = 0
  · subst hn; rfl
  · rewrite [u64ToHex_pos n hn]
    exact hexValue_digits 16 n (lt_16_pow_16 n h)

/-- round trip -/
theorem hexToU64_u64ToHex (n : Nat) (h : n < 2 ^ 64) : hexToU64 (u64ToHex n) = .ok n := by
  rewrite [hexToU64_digits _ (u64ToHex_ne_nil n h) (fun b hb => (u64ToHex_lower n b hb).isHexDigit),
    hexValue_u64ToHex n h, if_pos h]
  rfl

/-- fuel 16 is enough: any larger fuel gives the same string for a 64-bit value -/
theorem u64ToHex_fuel (n fuel : Nat) (h : n < 2 ^ 64) (hf : 16 ≤ fuel) (hn : n ≠ 0) :
    hexDigitsAux fuel n [] = u64ToHex n := by
  rewrite [u64ToHex_pos n hn]
  exact hexDigitsAux_fuel 16 fuel n [] (lt_16_pow_16 n h) hf

end A5
