import A5.Lemmas.CompactScan
import A5.Lemmas.Total1
/-! # Sorting, de-duplication and canonicalisation in `compact` (core-only)

* `pairwise_lt_ext`     : two strictly key-sorted lists with the same members are equal;
* `sorted_input`        : the list `compact` starts its loop with (canonical ids, `eraseDups`, `sortByKey
  hierarchyKey`) is the id list of a strictly key-sorted list of cells with the same members as the input —
  for *any* list of cells (duplicates, overlaps, any order);
* `compact_enc_spec`    : `compact` on the ids of any list of well-formed cells: succeeds; the result is strictly
  key-sorted (so duplicate-free), covers the same region, has no finer resolution than the input;
* `compact_enc_congr`   : the result depends only on the *set* of input cells;
* `canon_spec`, `compact_canon` : arbitrary valid (possibly non-canonical) ids: `compact` first replaces every id
  by the canonical id of the same cell. -/
namespace A5.CompactC08
open A5 A5.Path A5.Canonical A5.CompactMax

/-! ### strictly sorted lists are determined by their members -/

theorem pairwise_lt_ext {α : Type} (key : α → Nat) : ∀ (S T : List α),
    S.Pairwise (fun a b => key a < key b) → T.Pairwise (fun a b => key a < key b) →
    (∀ x, x ∈ S ↔ x ∈ T) → S = T := by
  intro S
  induction S with
  | nil =>
    intro T _ _ h
    cases T with
    | nil => rfl
    | cons b T => exact absurd ((h b).2 (List.mem_cons_self ..)) (List.not_mem_nil)
  | cons a S ih =>
    intro T hS hT h
    cases T with
    | nil => exact absurd ((h a).1 (List.mem_cons_self ..)) (List.not_mem_nil)
    | cons b T =>
      have ⟨hS1, hS2⟩ := List.pairwise_cons.1 hS
      have ⟨hT1, hT2⟩ := List.pairwise_cons.1 hT
      have hab : a = b := by
        rcases List.mem_cons.1 ((h a).1 (List.mem_cons_self ..)) with e | ha
        · exact e
        · rcases List.mem_cons.1 ((h b).2 (List.mem_cons_self ..)) with e | hb
          · exact e.symm
          · have := hT1 a ha; have := hS1 b hb; omega
      subst hab
      refine congrArg (List.cons a) (ih T hS2 hT2 (fun x => ⟨fun hx => ?_, fun hx => ?_⟩))
      · rcases List.mem_cons.1 ((h x).1 (List.mem_cons_of_mem _ hx)) with e | hx'
        · have := hS1 x hx; rewrite [e] at this; omega
        · exact hx'
      · rcases List.mem_cons.1 ((h x).2 (List.mem_cons_of_mem _ hx)) with e | hx'
        · have := hT1 x hx; rewrite [e] at this; omega
        · exact hx'

theorem keySorted_ext {S T : List Path} (hS : KeySorted S) (hT : KeySorted T) (h : ∀ p, p ∈ S ↔ p ∈ T) : S = T :=
  pairwise_lt_ext pkey S T hS hT h

/-! ### the list the loop starts with -/

/-- the sorted, de-duplicated id list of **any** list of cells is the id list of a strictly key-sorted list of
cells with the same members -/
theorem sorted_input (A : List Path) (hwf : ∀ p ∈ A, WF p) :
    ∃ S, S.map enc = sortByKey hierarchyKey (A.map enc).eraseDups ∧ SInv S ∧ (∀ p, p ∈ S ↔ p ∈ A) := by
  have hperm := sortByKey_perm hierarchyKey (A.map enc).eraseDups
  have hmem : ∀ x, x ∈ sortByKey hierarchyKey (A.map enc).eraseDups ↔ x ∈ A.map enc := by
    intro x; rw [hperm.mem_iff, List.mem_eraseDups]
  obtain ⟨S, hS, hSwf⟩ := exists_paths (sortByKey hierarchyKey (A.map enc).eraseDups) (by
    intro x hx
    obtain ⟨p, hp, e⟩ := List.mem_map.1 ((hmem x).1 hx)
    exact ⟨p, hwf p hp, e⟩)
  have hiff : ∀ p, p ∈ S ↔ p ∈ A := by
    intro p
    constructor
    · intro hp
      have : enc p ∈ S.map enc := List.mem_map.2 ⟨p, hp, rfl⟩
      rw [hS, hmem] at this
      obtain ⟨a, haA, e⟩ := List.mem_map.1 this
      rw [← enc_injective (hwf a haA) (hSwf p hp) e]; exact haA
    · intro hp
      have : enc p ∈ A.map enc := List.mem_map.2 ⟨p, hp, rfl⟩
      rw [← hmem, ← hS] at this
      obtain ⟨s, hsS, e⟩ := List.mem_map.1 this
      rw [← enc_injective (hSwf s hsS) (hwf p hp) e]; exact hsS
  refine ⟨S, hS, ⟨hSwf, ?_⟩, hiff⟩
  -- strictly sorted: sorted and duplicate-free, and the key is injective
  have hsorted := sortByKey_sorted hierarchyKey (A.map enc).eraseDups
  have hnodup : (sortByKey hierarchyKey (A.map enc).eraseDups).Nodup :=
    hperm.nodup_iff.2 (nodup_eraseDups _ _ (Nat.le_refl _))
  rw [← hS] at hsorted hnodup
  have h1 : S.Pairwise (fun a b => hierarchyKey (enc a) ≤ hierarchyKey (enc b)) :=
    (List.pairwise_map (f := enc) (R := fun a b => hierarchyKey a ≤ hierarchyKey b)).1 hsorted
  have h2 : S.Pairwise (fun a b => enc a ≠ enc b) :=
    (List.pairwise_map (f := enc) (R := fun a b => a ≠ b)).1 hnodup
  refine List.Pairwise.imp_of_mem ?_ (h1.and h2)
  intro a b haS hbS ⟨hle, hne⟩
  rw [CompactMax.hierarchyKey_enc (hSwf a haS), CompactMax.hierarchyKey_enc (hSwf b hbS)] at hle
  have : pkey a ≠ pkey b := fun e => hne (by rw [pkey_inj (hSwf a haS) (hSwf b hbS) e])
  omega

theorem length_sorted_input {A S : List Path} (hS : S.map enc = sortByKey hierarchyKey (A.map enc).eraseDups) :
    (A.map enc).eraseDups.length = S.length := by
  rw [← (sortByKey_perm hierarchyKey _).length_eq, ← hS, List.length_map]

theorem compact_unfold_enc (a : Path) (A : List Path) (hwf : ∀ p ∈ a :: A, WF p) :
    compact ((a :: A).map enc) =
      compactLoop (((a :: A).map enc).eraseDups.length + 1) (sortByKey hierarchyKey ((a :: A).map enc).eraseDups) := by
  unfold compact
  rewrite [if_neg (by simp), mapOutcome_canon _ hwf]
  simp only [Outcome.bind_ok]

/-- **`compact` on the ids of any list of well-formed cells** (duplicates, overlapping cells, mixed resolutions,
any order): it succeeds, and the result is the id list of a strictly key-sorted list `R` of well-formed cells that
covers the same region, contains no resolution finer than the finest input, and on which a scan finds nothing. -/
theorem compact_enc_spec (A : List Path) (hwf : ∀ p ∈ A, WF p) :
    ∃ R, compact (A.map enc) = .ok (R.map enc) ∧ SInv R ∧ SameRegion A R ∧
      (∀ x ∈ R, ∃ p ∈ A, res x ≤ res p) ∧ NoHead R := by
  cases A with
  | nil =>
    exact ⟨[], rfl, ⟨fun p hp => by simp at hp, List.Pairwise.nil⟩, sameRegion_refl _, fun x hx => by simp at hx,
      fun pre p rest e => by simp at e⟩
  | cons a A =>
    obtain ⟨S, hS, hSi, hSm⟩ := sorted_input (a :: A) hwf
    obtain ⟨R, h1, h2, h3, h4, h5, _⟩ := compactLoop_sorted_spec (S.length + 1) S hSi (by omega)
    refine ⟨R, ?_, h2, sameRegion_trans (sameRegion_of_mem_iff (fun p => (hSm p).symm)) h3, ?_, h5⟩
    · rewrite [compact_unfold_enc a A hwf, length_sorted_input hS, ← hS]
      exact h1
    · intro x hx
      obtain ⟨p, hp, hxp⟩ := h4 x hx
      exact ⟨p, (hSm p).1 hp, hxp⟩

/-- **order and multiplicity of the input are irrelevant**: lists of cells with the same members compact to the
same list -/
theorem compact_enc_congr (A B : List Path) (hA : ∀ p ∈ A, WF p) (hB : ∀ p ∈ B, WF p) (h : ∀ p, p ∈ A ↔ p ∈ B) :
    compact (A.map enc) = compact (B.map enc) := by
  cases A with
  | nil =>
    cases B with
    | nil => rfl
    | cons b B => exact absurd ((h b).2 (List.mem_cons_self ..)) (List.not_mem_nil)
  | cons a A =>
    cases B with
    | nil => exact absurd ((h a).1 (List.mem_cons_self ..)) (List.not_mem_nil)
    | cons b B =>
      obtain ⟨S, hS, hSi, hSm⟩ := sorted_input (a :: A) hA
      obtain ⟨T, hT, hTi, hTm⟩ := sorted_input (b :: B) hB
      have hST : S = T := keySorted_ext hSi.sorted hTi.sorted (fun p => (hSm p).trans ((h p).trans (hTm p).symm))
      rewrite [compact_unfold_enc a A hA, compact_unfold_enc b B hB, length_sorted_input hS, length_sorted_input hT,
        ← hS, ← hT, hST]
      rfl

/-! ### arbitrary valid ids -/

/-- an id the decoder accepts has a canonical form, the id of a well-formed cell -/
theorem canon_one (x : Nat) (c : Cell) (h : deserialize x = .ok c) :
    ∃ p, WF p ∧ toCell p = c ∧ (deserialize x >>= serialize) = .ok (enc p) := by
  have hv := deserialize_ok_valid' x c h
  obtain ⟨p, hp, e⟩ := exists_path_of_layout _ (layout_enc c hv)
  refine ⟨p, hp, ?_, ?_⟩
  · exact encNat_injective _ _ (valid_toCell hp) hv (by rewrite [encNat_toCell hp]; exact e)
  · rewrite [h]; simp only [Outcome.bind_ok]
    rewrite [serialize_valid c hv, e]; rfl

/-- canonicalisation of a list of valid ids: cell by cell, the id of the decoded cell -/
theorem canon_spec (xs : List Nat) (hv : ∀ x ∈ xs, ∃ c, deserialize x = .ok c) :
    ∃ A : List Path, (∀ p ∈ A, WF p) ∧ mapOutcome (fun c => deserialize c >>= serialize) xs = .ok (A.map enc) ∧
      xs.map deserialize = A.map (fun p => .ok (toCell p)) := by
  induction xs with
  | nil => exact ⟨[], fun p hp => by simp at hp, rfl, rfl⟩
  | cons x xs ih =>
    obtain ⟨c, hc⟩ := hv x (List.mem_cons_self ..)
    obtain ⟨p, hp, hpc, hx⟩ := canon_one x c hc
    obtain ⟨A, hA, h1, h2⟩ := ih (fun y hy => hv y (List.mem_cons_of_mem _ hy))
    refine ⟨p :: A, ?_, ?_, ?_⟩
    · intro q hq
      rcases List.mem_cons.1 hq with e | hq
      · rw [e]; exact hp
      · exact hA q hq
    · rewrite [mapOutcome_cons, hx]; simp only [Outcome.bind_ok]
      rewrite [h1]; simp only [Outcome.bind_ok, List.map_cons]
    · simp only [List.map_cons]
      rewrite [h2, hc, hpc]; rfl

/-- `compact` only looks at the canonical forms -/
theorem compact_canon (xs : List Nat) (A : List Path) (hA : ∀ p ∈ A, WF p)
    (hc : mapOutcome (fun c => deserialize c >>= serialize) xs = .ok (A.map enc)) :
    compact xs = compact (A.map enc) := by
  have hlen : A.length = xs.length := by
    have := mapOutcome_ok_length _ xs _ hc
    rewrite [List.length_map] at this; exact this
  cases xs with
  | nil =>
    cases A with
    | nil => rfl
    | cons a A => simp only [List.length_cons, List.length_nil] at hlen; omega
  | cons x xs =>
    cases A with
    | nil => simp only [List.length_cons, List.length_nil] at hlen; omega
    | cons a A =>
      rewrite [compact_unfold_enc a A hA]
      unfold compact
      rewrite [if_neg (by simp), hc]
      simp only [Outcome.bind_ok]

end A5.CompactC08
