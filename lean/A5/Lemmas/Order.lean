import A5.Spec.Tree
/-! # Order of cell ids (`Path.enc`) versus the hierarchy — arithmetic core (core-only)

Everything is phrased with two numbers depending only on the number `n` of curve digits of a cell
(`n = res - 1`, `0 ≤ n ≤ 28`):

    W n    = 2^(58-2n)   the width of the id block of a cell with `n` digits (`W n = 4 · W (n+1)`)
    mark n               the marker bit: `2^56` for `n = 0`, `2^(57-2n) = 2 · W (n+1)` for `n ≥ 1`

so that `enc (deep f k ds) = (5f+k)·2^58 + value ds · W |ds| + mark |ds|`  (`enc_deep`), and the
block of a cell is `[blockBase, blockBase + W |ds|)` with `blockBase = (5f+k)·2^58 + value ds · W |ds|`.

Main results of this file
* `value_append`, `value_lt`, `value_inj`: base-4 digit strings.
* `enc_append`, `enc_append_bounds`: the id of a descendant = block base of the ancestor + an offset in
  `[2, W - 2]`.
* `enc_bounds_of_ancestor` / `ancestor_of_enc_bounds`: the two directions of the subtree-interval theorem.
* `block_order`: same-resolution cells with `enc a < enc b` have disjoint, ordered blocks.
All powers are kept symbolic (`W n` is an atom for `omega`); no case split on the resolution. -/
namespace A5.Order
open A5 A5.Path

/-! ### widths and markers -/

/-- width of the id block of a cell with `n` curve digits (resolution `n + 1`) -/
def W (n : Nat) : Nat := 2 ^ (58 - 2 * n)

/-- the marker bit of a cell with `n` curve digits -/
def mark (n : Nat) : Nat := if n = 0 then 2 ^ 56 else 2 ^ (57 - 2 * n)

theorem W_pos (n : Nat) : 0 < W n := Nat.pow_pos (by omega)

theorem W_succ (n : Nat) (h : n ≤ 28) : W n = 4 * W (n + 1) := by
  unfold W
  have e : 58 - 2 * n = (58 - 2 * (n + 1)) + 2 := by omega
  rw [e, Nat.pow_add]; omega

theorem W_zero : W 0 = 2 ^ 58 := Eq.trans rfl rfl

theorem W_29 : W 29 = 1 := Eq.trans rfl rfl

theorem four_le_W (n : Nat) (h : n ≤ 28) : 4 ≤ W n := by
  have := W_succ n h
  have := W_pos (n + 1)
  omega

/-- `W a = 4^e · W (a+e)` -/
theorem W_add (a e : Nat) (h : a + e ≤ 29) : W a = 4 ^ e * W (a + e) := by
  induction e with
  | zero => simp
  | succ e ih =>
    have h1 := ih (by omega)
    have h2 := W_succ (a + e) (by omega)
    rw [h1, h2, Nat.pow_succ, ← Nat.add_assoc, Nat.mul_assoc]

theorem pow4_mul_W (n : Nat) (h : n ≤ 29) : 4 ^ n * W n = 2 ^ 58 := by
  have := W_add 0 n (by omega)
  rw [Nat.zero_add, W_zero] at this
  exact this.symm

theorem mark_zero : mark 0 = 2 ^ 56 := Eq.trans rfl rfl

theorem mark_zero_W : mark 0 = W 1 := Eq.trans rfl rfl

theorem mark_pos_eq (n : Nat) (h1 : 1 ≤ n) (h : n ≤ 28) : mark n = 2 * W (n + 1) := by
  unfold W mark
  rw [if_neg (by omega)]
  have e : 57 - 2 * n = (58 - 2 * (n + 1)) + 1 := by omega
  rw [e, Nat.pow_add]; omega

theorem two_le_mark (n : Nat) (h : n ≤ 28) : 2 ≤ mark n := by
  by_cases h0 : n = 0
  · subst h0; rw [mark_zero]; omega
  · rw [mark_pos_eq n (by omega) h]
    have := W_pos (n + 1); omega

/-- the marker sits strictly inside the block: `2·mark ≤ W` (equality except for quintants) -/
theorem two_mark_le_W (n : Nat) (h : n ≤ 28) : 2 * mark n ≤ W n := by
  by_cases h0 : n = 0
  · subst h0; rw [mark_zero, W_zero]; omega
  · rw [mark_pos_eq n (by omega) h, W_succ n h]; omega

theorem two_mark_eq_W (n : Nat) (h1 : 1 ≤ n) (h : n ≤ 28) : 2 * mark n = W n := by
  rw [mark_pos_eq n h1 h, W_succ n h]; omega

/-- the marker of a coarser cell is a multiple of the width of a finer one -/
theorem mark_mul_W (e l : Nat) (h : e < l) (hl : l ≤ 29) : ∃ c, mark e = c * W l := by
  by_cases h0 : e = 0
  · subst h0
    have := W_add 1 (l - 1) (by omega)
    have e1 : 1 + (l - 1) = l := by omega
    rw [e1] at this
    exact ⟨4 ^ (l - 1), by rw [mark_zero_W, this]⟩
  · have := W_add (e + 1) (l - (e + 1)) (by omega)
    have e1 : e + 1 + (l - (e + 1)) = l := by omega
    rw [e1] at this
    exact ⟨2 * 4 ^ (l - (e + 1)), by rw [mark_pos_eq e (by omega) (by omega), this, Nat.mul_assoc]⟩

/-! ### small nonlinear facts (products are atoms for `omega`) -/

theorem succ_mul_le {v v' : Nat} (X : Nat) (h : v < v') : v * X + X ≤ v' * X := by
  have := Nat.mul_le_mul_right X (Nat.succ_le_of_lt h)
  rwa [Nat.succ_mul] at this

/-- a number `v'·X + s` with `0 ≤ s < X` lying in the block `(v·X, v·X + X)` has `v' = v` -/
theorem block_unique (X v v' s : Nat) (h1 : v * X < v' * X + s) (h2 : v' * X + s < v * X + X) (h3 : s < X) :
    v' = v := by
  rcases Nat.lt_trichotomy v' v with h | h | h
  · have := succ_mul_le X h; omega
  · exact h
  · have := succ_mul_le X h; omega

/-! ### base-4 digit strings -/

theorem foldl_value (a : Nat) (ds : List Nat) :
    ds.foldl (fun a d => 4 * a + d) a = a * 4 ^ ds.length + value ds := by
  induction ds generalizing a with
  | nil => simp [value]
  | cons d ds ih =>
    simp only [List.foldl_cons, List.length_cons, value]
    rw [ih (4 * a + d), ih (4 * 0 + d), Nat.pow_succ]
    grind

theorem value_nil : value [] = 0 := rfl

theorem value_cons (d : Nat) (ds : List Nat) : value (d :: ds) = d * 4 ^ ds.length + value ds := by
  simp only [value, List.foldl_cons]
  rw [foldl_value]; simp [value]

theorem value_append (ds es : List Nat) : value (ds ++ es) = value ds * 4 ^ es.length + value es := by
  simp only [value, List.foldl_append]
  exact foldl_value _ _

theorem value_snoc (ds : List Nat) (d : Nat) : value (ds ++ [d]) = 4 * value ds + d := by
  simp [value, List.foldl_append]

theorem value_lt (ds : List Nat) (h : ∀ d ∈ ds, d < 4) : value ds < 4 ^ ds.length := by
  induction ds with
  | nil => simp [value]
  | cons d ds ih =>
    rw [value_cons, List.length_cons, Nat.pow_succ]
    have h1 := ih (fun x hx => h x (List.mem_cons_of_mem _ hx))
    have h2 : d < 4 := h d (by simp)
    have h3 : d * 4 ^ ds.length ≤ 3 * 4 ^ ds.length := Nat.mul_le_mul_right _ (by omega)
    omega

theorem foldl_inj (ds ds' : List Nat) (a a' : Nat) (hl : ds.length = ds'.length)
    (h : ∀ d ∈ ds, d < 4) (h' : ∀ d ∈ ds', d < 4)
    (e : ds.foldl (fun a d => 4 * a + d) a = ds'.foldl (fun a d => 4 * a + d) a') : a = a' ∧ ds = ds' := by
  induction ds generalizing ds' a a' with
  | nil =>
    cases ds' with
    | nil => exact ⟨e, rfl⟩
    | cons _ _ => simp at hl
  | cons d ds ih =>
    cases ds' with
    | nil => simp at hl
    | cons d' ds' =>
      simp only [List.foldl_cons] at e
      simp only [List.length_cons] at hl
      have := ih ds' (4 * a + d) (4 * a' + d') (by omega)
        (fun x hx => h x (List.mem_cons_of_mem _ hx)) (fun x hx => h' x (List.mem_cons_of_mem _ hx)) e
      have h1 : d < 4 := h d (by simp)
      have h2 : d' < 4 := h' d' (by simp)
      obtain ⟨e1, e2⟩ := this
      have : a = a' ∧ d = d' := by omega
      exact ⟨this.1, by rw [this.2, e2]⟩

/-- digit strings of equal length with equal value are equal -/
theorem value_inj (ds ds' : List Nat) (hl : ds.length = ds'.length)
    (h : ∀ d ∈ ds, d < 4) (h' : ∀ d ∈ ds', d < 4) (e : value ds = value ds') : ds = ds' :=
  (foldl_inj ds ds' 0 0 hl h h' e).2

/-- the value of a prefix is the value divided by a power of four (stated without division) -/
theorem value_take_drop (ds : List Nat) (j : Nat) :
    value ds = value (ds.take j) * 4 ^ (ds.drop j).length + value (ds.drop j) := by
  conv => lhs; rw [← List.take_append_drop j ds]
  exact value_append _ _

/-! ### the id of a `deep` path, blocks -/

theorem enc_deep (f k : Nat) (ds : List Nat) :
    enc (deep f k ds) = (5 * f + k) * 2 ^ 58 + value ds * W ds.length + mark ds.length := Eq.trans rfl rfl

/-- lowest number of the id block of `deep f k ds` (all ids sharing its six leading bits and its digits) -/
def blockBase (f k : Nat) (ds : List Nat) : Nat := (5 * f + k) * 2 ^ 58 + value ds * W ds.length

theorem enc_eq_base_add_mark (f k : Nat) (ds : List Nat) :
    enc (deep f k ds) = blockBase f k ds + mark ds.length := enc_deep f k ds

/-- the digit field never reaches the six leading bits -/
theorem value_mul_W_le (ds : List Nat) (h : ∀ d ∈ ds, d < 4) (hl : ds.length ≤ 29) :
    value ds * W ds.length + W ds.length ≤ 2 ^ 58 := by
  have h1 := value_lt ds h
  have h2 := pow4_mul_W ds.length hl
  have h3 := Nat.mul_le_mul_right (W ds.length) (Nat.succ_le_of_lt h1)
  rw [Nat.succ_mul] at h3
  omega

/-- id of a descendant = block base of the ancestor + offset of the tail -/
theorem enc_append (f k : Nat) (ds es : List Nat) (hl : ds.length + es.length ≤ 29) :
    enc (deep f k (ds ++ es)) =
      blockBase f k ds + (value es * W (ds.length + es.length) + mark (ds.length + es.length)) := by
  rw [enc_deep, List.length_append, value_append, blockBase, W_add ds.length es.length hl]
  grind

/-- the offset of a tail lies in `[2, W - 2]` -/
theorem tail_bounds (n : Nat) (es : List Nat) (hd : ∀ d ∈ es, d < 4) (hl : n + es.length ≤ 28) :
    2 ≤ value es * W (n + es.length) + mark (n + es.length) ∧
    value es * W (n + es.length) + mark (n + es.length) + 2 ≤ W n := by
  have h1 := value_lt es hd
  have h2 := W_add n es.length (by omega)
  have h3 := Nat.mul_le_mul_right (W (n + es.length)) (Nat.succ_le_of_lt h1)
  rw [Nat.succ_mul, ← h2] at h3
  have h4 := two_le_mark (n + es.length) hl
  have h5 := two_mark_le_W (n + es.length) hl
  have h6 := four_le_W (n + es.length) hl
  omega

/-- every descendant id lies in `[base + 2, base + W - 2]` -/
theorem enc_append_bounds (f k : Nat) (ds es : List Nat) (hd : ∀ d ∈ es, d < 4)
    (hl : ds.length + es.length ≤ 28) :
    blockBase f k ds + 2 ≤ enc (deep f k (ds ++ es)) ∧
    enc (deep f k (ds ++ es)) + 2 ≤ blockBase f k ds + W ds.length := by
  rw [enc_append f k ds es (by omega)]
  have := tail_bounds ds.length es hd hl
  omega

/-! ### ancestors of `deep` paths -/

theorem res_deep (f k : Nat) (ds : List Nat) : res (deep f k ds) = 1 + (ds.length : Int) := rfl

theorem ancestorAt_deep (f k : Nat) (es : List Nat) (L : Nat) :
    ancestorAt (deep f k es) (1 + (L : Int)) = deep f k (es.take L) := by
  simp only [ancestorAt]
  rw [if_neg (by omega), if_neg (by omega)]
  have : (1 + (L : Int) - 1).toNat = L := by omega
  rw [this]

/-- a path of resolution ≥ 1 is a `deep` path -/
theorem exists_deep_of_res {q : Path} (h : 1 ≤ res q) : ∃ f k es, q = deep f k es := by
  cases q with
  | world => simp only [res] at h; omega
  | face f => simp only [res] at h; omega
  | deep f k es => exact ⟨f, k, es, rfl⟩

/-! ### the subtree interval -/

/-- smallest id in the subtree of `p` among cells of resolution ≥ 1 (`= ` id of the resolution-29 descendant
with all digits 0; for a face: of its quintant 0) -/
def lo : Path → Nat
  | world => 0
  | face f => 5 * f * 2 ^ 58 + 2
  | deep f k ds => blockBase f k ds + 2

/-- largest id in the subtree of `p` (`=` id of the resolution-29 descendant with all digits 3) -/
def hi : Path → Nat
  | world => 2 ^ 64 - 1
  | face f => (5 * f + 5) * 2 ^ 58 - 2
  | deep f k ds => blockBase f k ds + W ds.length - 2

/-- descendant ⇒ id inside the (tight) interval -/
theorem enc_bounds_of_ancestor {p q : Path} (hq : WF q) (h1 : 1 ≤ res p) (hle : res p ≤ res q)
    (ha : ancestorAt q (res p) = p) : lo p ≤ enc q ∧ enc q ≤ hi p := by
  obtain ⟨f, k, ds, rfl⟩ := exists_deep_of_res h1
  obtain ⟨f', k', es, rfl⟩ := exists_deep_of_res (Int.le_trans h1 hle)
  rw [res_deep, ancestorAt_deep] at ha
  injection ha with hf hk hds
  subst hf hk
  obtain ⟨_, _, hd, hl⟩ := hq
  have hes : es = ds ++ es.drop ds.length := by
    conv => lhs; rw [← List.take_append_drop ds.length es]
    rw [hds]
  have hd' : ∀ d ∈ es.drop ds.length, d < 4 := fun d hd' => hd d (List.mem_of_mem_drop hd')
  have hlen : ds.length + (es.drop ds.length).length ≤ 28 := by
    have : (ds ++ es.drop ds.length).length = es.length := by rw [← hes]
    rw [List.length_append] at this
    omega
  have := enc_append_bounds f' k' ds (es.drop ds.length) hd' hlen
  rw [← hes] at this
  have hW := four_le_W ds.length (by omega)
  simp only [lo, hi]
  omega

/-- id strictly inside the block ⇒ descendant (the loose interval `(base, base + W)` suffices) -/
theorem ancestor_of_enc_bounds {p q : Path} (hp : WF p) (hq : WF q) (h1 : 1 ≤ res p) (hq1 : 1 ≤ res q)
    (hlo : lo p - 1 ≤ enc q) (hhi : enc q ≤ hi p + 1) : res p ≤ res q ∧ ancestorAt q (res p) = p := by
  obtain ⟨f, k, ds, rfl⟩ := exists_deep_of_res h1
  obtain ⟨f', k', es, rfl⟩ := exists_deep_of_res hq1
  obtain ⟨hf, hk, hd, hl⟩ := hp
  obtain ⟨hf', hk', hd', hl'⟩ := hq
  simp only [lo, hi, blockBase] at hlo hhi
  have hW := four_le_W ds.length (by omega)
  have hp58 := value_mul_W_le ds hd (by omega)
  have hq58 := tail_bounds 0 es hd' (by omega)
  rw [Nat.zero_add, W_zero] at hq58
  rw [enc_deep] at hlo hhi
  -- the six leading bits agree
  have hT : 5 * f' + k' = 5 * f + k := by omega
  have hff : f' = f := by omega
  have hkk : k' = k := by omega
  subst hff hkk
  have hlo' : value ds * W ds.length < value es * W es.length + mark es.length := by omega
  have hhi' : value es * W es.length + mark es.length < value ds * W ds.length + W ds.length := by omega
  by_cases hlt : es.length < ds.length
  · -- a coarser cell: its id is a multiple of `W |ds|`, so it cannot be strictly inside the block
    exfalso
    obtain ⟨c, hc⟩ := mark_mul_W es.length ds.length hlt (by omega)
    have hWe := W_add es.length (ds.length - es.length) (by omega)
    have e1 : es.length + (ds.length - es.length) = ds.length := by omega
    rw [e1] at hWe
    have hw : value es * W es.length + mark es.length =
        (value es * 4 ^ (ds.length - es.length) + c) * W ds.length := by
      rw [hc, hWe]; grind
    rw [hw] at hlo' hhi'
    have a1 := Nat.lt_of_mul_lt_mul_right hlo'
    have a2 : (value es * 4 ^ (ds.length - es.length) + c) * W ds.length < (value ds + 1) * W ds.length := by
      rw [Nat.succ_mul]; exact hhi'
    have a3 := Nat.lt_of_mul_lt_mul_right a2
    omega
  · have hge : ds.length ≤ es.length := by omega
    have hes : es = es.take ds.length ++ es.drop ds.length := (List.take_append_drop _ _).symm
    have hlt' : (es.take ds.length).length = ds.length := by rw [List.length_take]; omega
    have hld : (es.take ds.length).length + (es.drop ds.length).length = es.length := by
      rw [← List.length_append, ← hes]
    have hdd : ∀ d ∈ es.drop ds.length, d < 4 := fun d h => hd' d (List.mem_of_mem_drop h)
    have hdt : ∀ d ∈ es.take ds.length, d < 4 := fun d h => hd' d (List.mem_of_mem_take h)
    have happ := enc_append f' k' (es.take ds.length) (es.drop ds.length) (by omega)
    rw [← hes, enc_deep, blockBase, hld, hlt'] at happ
    have htb := tail_bounds (es.take ds.length).length (es.drop ds.length) hdd (by omega)
    rw [hld, hlt'] at htb
    have hv : value (es.take ds.length) = value ds :=
      block_unique (W ds.length) (value ds) (value (es.take ds.length))
        (value (es.drop ds.length) * W es.length + mark es.length) (by omega) (by omega) (by omega)
    have htake : es.take ds.length = ds := value_inj _ _ hlt' hdt hd hv
    refine ⟨by simp only [res]; omega, ?_⟩
    rw [res_deep, ancestorAt_deep, htake]

/-- ids of well-formed paths of resolution ≥ 1 are pairwise distinct -/
theorem enc_inj {p q : Path} (hp : WF p) (hq : WF q) (h1 : 1 ≤ res p) (hq1 : 1 ≤ res q)
    (e : enc p = enc q) : p = q := by
  have hpp := enc_bounds_of_ancestor (p := p) (q := p) hp h1 (Int.le_refl _) (ancestorAt_self p _ (Int.le_refl _))
  have hqq := enc_bounds_of_ancestor (p := q) (q := q) hq hq1 (Int.le_refl _) (ancestorAt_self q _ (Int.le_refl _))
  have a := ancestor_of_enc_bounds hp hq h1 hq1 (by omega) (by omega)
  have b := ancestor_of_enc_bounds hq hp hq1 h1 (by omega) (by omega)
  have : res p = res q := by omega
  rw [← a.2, this, ancestorAt_self q _ (Int.le_refl _)]

/-! ### blocks of same-resolution cells are ordered like the ids -/

/-- same number of digits and `enc a < enc b` ⇒ the whole block of `a` precedes the block of `b` -/
theorem block_order {f k f' k' : Nat} {ds ds' : List Nat} (hl : ds.length = ds'.length) (h28 : ds.length ≤ 28)
    (hd : ∀ d ∈ ds, d < 4) (hd' : ∀ d ∈ ds', d < 4)
    (h : enc (deep f k ds) < enc (deep f' k' ds')) :
    blockBase f k ds + W ds.length ≤ blockBase f' k' ds' := by
  rw [enc_deep, enc_deep, ← hl] at h
  have h1 := value_mul_W_le ds hd (by omega)
  have h2 := value_mul_W_le ds' hd' (by omega)
  rw [← hl] at h2
  have h3 := two_mark_le_W ds.length h28
  simp only [blockBase]
  rw [← hl]
  rcases Nat.lt_trichotomy (5 * f + k) (5 * f' + k') with ht | ht | ht
  · omega
  · rw [ht] at h ⊢
    have hv : value ds * W ds.length < value ds' * W ds.length := by omega
    have := succ_mul_le (W ds.length) (Nat.lt_of_mul_lt_mul_right hv)
    omega
  · omega

/-- `lo`/`hi` version of `block_order`, for paths -/
theorem hi_lt_lo {a b : Path} (ha : WF a) (hb : WF b) (h1 : 1 ≤ res a) (hr : res a = res b)
    (h : enc a < enc b) : hi a < lo b := by
  obtain ⟨f, k, ds, rfl⟩ := exists_deep_of_res h1
  obtain ⟨f', k', ds', rfl⟩ := exists_deep_of_res (hr ▸ h1)
  obtain ⟨_, _, hd, hl⟩ := ha
  obtain ⟨_, _, hd', hl'⟩ := hb
  simp only [res] at hr
  have := block_order (by omega) hl hd hd' h
  have hW := four_le_W ds.length hl
  simp only [lo, hi]
  omega

theorem lo_le_enc {p : Path} (hp : WF p) (h1 : 1 ≤ res p) : lo p ≤ enc p ∧ enc p ≤ hi p :=
  enc_bounds_of_ancestor hp h1 (Int.le_refl _) (ancestorAt_self p _ (Int.le_refl _))

end A5.Order
