import A5.Model.CellGeo
import A5.Lemmas.Deserialize
import A5.Lemmas.HilbertDigits
/-! Integer/list *skeleton* of the point-to-cell lookup (`lonlat_to_estimate`, `a5cell_contains_point`,
the sample loop of `lonlat_to_cell`).  Every `Float` is treated as an arbitrary value: the lemmas are
about which outcomes (`ok` / which `err` / which `panic`) are possible and which integer fields the
produced cells have.  Core-only. -/
namespace A5

/-! ### outcomes restricted to given error / panic kinds -/

/-- `x` is `ok`, or an error satisfying `E`, or a panic satisfying `K` -/
def Outcome.Within {α : Type} (E : ErrKind → Prop) (K : PanicKind → Prop) : Outcome α → Prop
  | .ok _ => True
  | .err e => E e
  | .panic k => K k

theorem Outcome.Within.bind {α β : Type} {E : ErrKind → Prop} {K : PanicKind → Prop} {x : Outcome α}
    {f : α → Outcome β} (hx : x.Within E K) (hf : ∀ v, x = .ok v → (f v).Within E K) :
    (x >>= f).Within E K := by
  cases x with
  | ok v => simp only [Outcome.bind_ok]; exact hf v rfl
  | err e => simp only [Outcome.bind_err]; exact hx
  | panic k => simp only [Outcome.bind_panic]; exact hx

theorem Outcome.Within.mono {α : Type} {E E' : ErrKind → Prop} {K K' : PanicKind → Prop} {x : Outcome α}
    (hx : x.Within E K) (hE : ∀ e, E e → E' e) (hK : ∀ k, K k → K' k) : x.Within E' K' := by
  cases x with
  | ok v => trivial
  | err e => exact hE e hx
  | panic k => exact hK k hx

theorem Outcome.Within.ok {α : Type} {E : ErrKind → Prop} {K : PanicKind → Prop} (v : α) :
    (Outcome.ok v).Within E K := trivial

theorem Outcome.Within.err_iff {α : Type} {E : ErrKind → Prop} {K : PanicKind → Prop} (e : ErrKind) :
    (Outcome.err e : Outcome α).Within E K ↔ E e := Iff.rfl

theorem Outcome.Within.panic_iff {α : Type} {E : ErrKind → Prop} {K : PanicKind → Prop} (k : PanicKind) :
    (Outcome.panic k : Outcome α).Within E K ↔ K k := Iff.rfl

/-- only `crsVertex` errors, no panic -/
abbrev OkOrCrs {α : Type} (x : Outcome α) : Prop := x.Within (· = .crsVertex) (fun _ => False)

/-- only `crsVertex` errors and `notCCW` panics -/
abbrev Benign {α : Type} (x : Outcome α) : Prop := x.Within (· = .crsVertex) (· = .notCCW)

theorem OkOrCrs.benign {α : Type} {x : Outcome α} (h : OkOrCrs x) : Benign x :=
  Outcome.Within.mono h (fun _ h => h) (fun _ h => h.elim)

theorem OkOrCrs.cases {α : Type} {x : Outcome α} (h : OkOrCrs x) : x = .err .crsVertex ∨ ∃ v, x = .ok v := by
  cases x with
  | ok v => exact Or.inr ⟨v, rfl⟩
  | err e => exact Or.inl (congrArg Outcome.err h)
  | panic k => exact h.elim

attribute [irreducible] Outcome.Within

/-! ### origins -/

theorem origins_length : origins.length = 12 := by
  unfold origins
  rewrite [List.length_map, List.length_range]
  rfl

theorem origins_id (o : Origin) (h : o ∈ origins) : o.id < 12 := by
  unfold origins at h
  obtain ⟨i, hi, rfl⟩ := List.mem_map.1 h
  have hi' : i < 12 := List.mem_range.1 hi
  dsimp only
  generalize rawOrigins.getD (Gen.ORIGIN_ORDER.getD i 0) (0.0, 0.0, 0.0, 0) = t
  obtain ⟨a, b, c, d⟩ := t
  exact hi'

theorem originAt_id_lt (o : Nat) : (originAt o).id < 12 := by
  unfold originAt
  rewrite [List.getD_eq_getElem?_getD]
  cases h : origins[o]? with
  | none => show (default : Origin).id < 12; exact (by decide : (0 : Nat) < 12)
  | some x => exact origins_id x (List.mem_of_getElem? h)

theorem findNearestOrigin_go_ind (theta phi : Float) (P : Origin → Prop) :
    ∀ (l : List Origin) (d : Float) (best : Origin), (∀ o ∈ l, P o) → P best →
      P (findNearestOrigin.go theta phi l d best) := by
  intro l
  induction l with
  | nil => intro d best _ hb; exact hb
  | cons o os ih =>
    intro d best hl hb
    unfold findNearestOrigin.go
    dsimp only
    split
    · exact ih _ _ (fun x hx => hl x (List.mem_cons_of_mem _ hx)) (hl o List.mem_cons_self)
    · exact ih _ _ (fun x hx => hl x (List.mem_cons_of_mem _ hx)) hb

/-- the nearest-origin search always returns one of the twelve faces -/
theorem findNearestOrigin_id (theta phi : Float) : (findNearestOrigin theta phi).id < 12 := by
  unfold findNearestOrigin
  exact findNearestOrigin_go_ind theta phi (fun o => o.id < 12) _ _ _ origins_id (originAt_id_lt 0)

theorem quintantToSegment_lt (q : Nat) (o : Origin) : (quintantToSegment q o).1 < 5 := by
  unfold quintantToSegment
  exact Nat.mod_lt _ (by omega)

/-! ### the projection: only `crsVertex` can go wrong for a real face -/

theorem faceTriangleIndex_le (gamma : Float) : faceTriangleIndex gamma ≤ 9 := by
  unfold faceTriangleIndex
  dsimp only
  generalize f64ToI32 (gamma / fc Gen.PI_OVER_5).floor + 10 = a
  have h1 := Int.tmod_lt_of_pos a (b := 10) (by omega)
  have h2 := Int.lt_tmod_of_pos a (b := 10) (by omega)
  split <;> omega

theorem getFaceTriangle_ok (idx : Nat) (h : idx ≤ 9) (refl sq : Bool) :
    ∃ ft, getFaceTriangle idx refl sq = .ok ft := by
  unfold getFaceTriangle
  rewrite [if_neg (by simp only [Gen.FACE_TRIANGLE_MAX]; omega)]
  exact ⟨_, rfl⟩

theorem crsGetVertex_okOrCrs (p : V3) : OkOrCrs (crsGetVertex p) := by
  unfold crsGetVertex
  split
  · exact Outcome.Within.ok _
  · exact (Outcome.Within.err_iff _).2 rfl

theorem computeSphericalTriangle_okOrCrs (idx o : Nat) (refl : Bool) (hidx : idx ≤ 9) (ho : o < 12) :
    OkOrCrs (computeSphericalTriangle idx o refl) := by
  unfold computeSphericalTriangle
  rewrite [if_neg (by rewrite [origins_length]; omega)]
  obtain ⟨ft, hft⟩ := getFaceTriangle_ok idx hidx refl true
  dsimp only [toPolar, gnomonicInverse]
  rewrite [hft]
  simp only [Outcome.bind_ok]
  refine Outcome.Within.bind (crsGetVertex_okOrCrs _) fun va _ => ?_
  refine Outcome.Within.bind (crsGetVertex_okOrCrs _) fun vb _ => ?_
  refine Outcome.Within.bind (crsGetVertex_okOrCrs _) fun vc _ => ?_
  exact Outcome.Within.ok _

theorem dodecaForward_okOrCrs (theta phi : Float) (o : Nat) (ho : o < 12) :
    OkOrCrs (dodecaForward theta phi o) := by
  unfold dodecaForward
  rewrite [if_neg (by rewrite [origins_length]; omega)]
  dsimp only [toSpherical, gnomonicForward]
  obtain ⟨ft, hft⟩ := getFaceTriangle_ok _ (faceTriangleIndex_le _) _ false
  rewrite [hft]
  simp only [Outcome.bind_ok]
  refine Outcome.Within.bind (computeSphericalTriangle_okOrCrs _ _ _ (faceTriangleIndex_le _) ho) fun st _ => ?_
  exact Outcome.Within.ok _

/-! ### `serialize` on cells whose ignored fields are not normalised -/

/-- at resolution 0 the `segment` and `s` fields are ignored by the encoder -/
theorem serialize_res0_skel (o seg s : Nat) (ho : o < 12) (hs : seg < 5) :
    serialize ⟨o, seg, s, 0⟩ = .ok (encNat ⟨o, 0, 0, 0⟩) := by
  have hf := firstQuintant_lt o ho
  simp only [serialize, encNat, top6, markerPos, Gen.MAX_RESOLUTION, Gen.FIRST_HILBERT_RESOLUTION, Gen.WORLD_CELL,
      Gen.HILBERT_START_BIT, numOrigins, Gen.ORIGIN_ORDER, List.length]
  simp only [Int.reduceToNat, Int.reduceAdd, Int.reduceSub, Int.reduceLT, Int.reduceEq, if_true, if_false,
      Nat.reduceAdd, Nat.reduceMul, Nat.reduceSub, Int.reduceNeg, ge_iff_le, Int.reduceLE]
  rewrite [if_neg (by omega), u64Add_ok _ _ (by omega)]; simp only [Outcome.bind_ok]
  rewrite [u32Sub_ok _ _ (by omega)]; simp only [Outcome.bind_ok]
  rewrite [u64Shl_ok _ _ (by omega) (by omega)]; simp only [Outcome.bind_ok]
  rewrite [u32Sub_ok _ _ (by omega)]; simp only [Outcome.bind_ok]
  rewrite [u64Shl_ok _ _ (by omega) (by omega)]; simp only [Outcome.bind_ok, Nat.reduceSub, Nat.one_mul]
  rewrite [if_neg (by omega), or_marker _ _ (by omega)]
  refine congrArg Outcome.ok ?_
  omega

/-- at resolution 1 the `s` field is ignored by the encoder -/
theorem serialize_res1_skel (o seg s : Nat) (ho : o < 12) (hs : seg < 5) :
    serialize ⟨o, seg, s, 1⟩ = .ok (encNat ⟨o, seg, 0, 1⟩) := by
  have hf := firstQuintant_lt o ho
  simp only [serialize, encNat, top6, markerPos, Gen.MAX_RESOLUTION, Gen.FIRST_HILBERT_RESOLUTION, Gen.WORLD_CELL,
      Gen.HILBERT_START_BIT, numOrigins, Gen.ORIGIN_ORDER, List.length]
  simp only [Int.reduceToNat, Int.reduceAdd, Int.reduceSub, Int.reduceLT, Int.reduceEq, if_true, if_false,
      Nat.reduceAdd, Nat.reduceMul, Nat.reduceSub, Int.reduceNeg, ge_iff_le, Int.reduceLE]
  rewrite [if_neg (by omega), u64Add_ok _ _ (by omega)]; simp only [Outcome.bind_ok]
  rewrite [u32Sub_ok _ _ (by omega)]; simp only [Outcome.bind_ok]
  rewrite [u64Shl_ok _ _ (by omega) (by omega)]; simp only [Outcome.bind_ok]
  rewrite [u32Sub_ok _ _ (by omega)]; simp only [Outcome.bind_ok]
  rewrite [u64Shl_ok _ _ (by omega) (by omega)]; simp only [Outcome.bind_ok, Nat.reduceSub, Nat.one_mul]
  rewrite [if_neg (by omega), or_marker _ _ (by omega)]
  refine congrArg Outcome.ok ?_
  omega

/-- a curve position that does not fit its `2·(r-1)` bits is rejected, never truncated -/
theorem serialize_sTooLarge (o seg s : Nat) (r : Int) (hr2 : 2 ≤ r) (hr : r ≤ 29) (ho : o < 12) (hs : seg < 5)
    (hS : ¬ s < 4 ^ (r - 1).toNat) : serialize ⟨o, seg, s, r⟩ = .err .sTooLarge := by
  have hf := firstQuintant_lt o ho
  have hc : r = 2 ∨ r = 3 ∨ r = 4 ∨ r = 5 ∨ r = 6 ∨ r = 7 ∨ r = 8 ∨ r = 9 ∨ r = 10 ∨ r = 11 ∨ r = 12 ∨ r = 13 ∨ r = 14 ∨ r = 15 ∨ r = 16 ∨ r = 17 ∨ r = 18 ∨ r = 19 ∨ r = 20 ∨ r = 21 ∨ r = 22 ∨ r = 23 ∨ r = 24 ∨ r = 25 ∨ r = 26 ∨ r = 27 ∨ r = 28 ∨ r = 29 := by omega
  rcases hc with rfl|rfl|rfl|rfl|rfl|rfl|rfl|rfl|rfl|rfl|rfl|rfl|rfl|rfl|rfl|rfl|rfl|rfl|rfl|rfl|rfl|rfl|rfl|rfl|rfl|rfl|rfl|rfl
  all_goals
    simp only [serialize, Gen.MAX_RESOLUTION, Gen.FIRST_HILBERT_RESOLUTION, Gen.WORLD_CELL,
      Gen.HILBERT_START_BIT, numOrigins, Gen.ORIGIN_ORDER, List.length]
    simp only [Int.reduceToNat, Int.reduceAdd, Int.reduceSub, Int.reduceLT, Int.reduceEq, if_true, if_false,
      Nat.reduceAdd, Nat.reduceMul, Int.reduceNeg, ge_iff_le, Int.reduceLE] at hS ⊢
    simp only [Nat.reducePow] at hS
    rewrite [if_neg (by omega), u64Add_ok _ _ (by omega)]; simp only [Outcome.bind_ok]
    rewrite [u32Sub_ok _ _ (by omega)]; simp only [Outcome.bind_ok]
    rewrite [u64Shl_ok _ _ (by omega) (by omega)]; simp only [Outcome.bind_ok]
    rewrite [u64Shl_ok _ _ (by omega) (by omega)]; simp only [Outcome.bind_ok]
    rewrite [if_pos (by omega)]; simp only [Outcome.bind_err]

theorem getResolution_zero' : getResolution 0 = -1 := by
  rewrite [getResolution_eq]; exact resFrom_zero 30

/-- GENERAL: whenever the encoder succeeds on a cell naming a real face and quintant, the id is in the
documented layout and carries the cell's resolution (ignored fields need not be normalised). -/
theorem serialize_ok_layout (c : Cell) (id : Nat) (h : serialize c = .ok id) (ho : c.origin < 12)
    (hs : c.segment < 5) : Layout id ∧ getResolution id = c.res ∧ -1 ≤ c.res ∧ c.res ≤ 29 := by
  obtain ⟨o, seg, s, r⟩ := c
  simp only at ho hs
  show Layout id ∧ getResolution id = r ∧ -1 ≤ r ∧ r ≤ 29
  by_cases h30 : r ≥ 30
  · simp only [serialize, Gen.MAX_RESOLUTION] at h; rewrite [if_pos h30] at h; cases h
  by_cases hneg : r < -1
  · simp only [serialize, Gen.MAX_RESOLUTION] at h; rewrite [if_neg h30, if_pos hneg] at h; cases h
  by_cases hm1 : r = -1
  · subst hm1
    have e : serialize ⟨o, seg, s, -1⟩ = .ok 0 := by simp [serialize, Gen.MAX_RESOLUTION, Gen.WORLD_CELL]
    rewrite [e] at h
    cases Outcome.ok.inj h
    exact ⟨Or.inl rfl, getResolution_zero', by omega, by omega⟩
  by_cases h0 : r = 0
  · subst h0
    rewrite [serialize_res0_skel o seg s ho hs] at h
    cases Outcome.ok.inj h
    have hv : (⟨o, 0, 0, 0⟩ : Cell).Valid := Or.inr (Or.inl ⟨rfl, ho, rfl, rfl⟩)
    exact ⟨layout_enc _ hv, getResolution_enc _ hv, by omega, by omega⟩
  by_cases h1 : r = 1
  · subst h1
    rewrite [serialize_res1_skel o seg s ho hs] at h
    cases Outcome.ok.inj h
    have hv : (⟨o, seg, 0, 1⟩ : Cell).Valid := Or.inr (Or.inr (Or.inl ⟨rfl, ho, hs, rfl⟩))
    exact ⟨layout_enc _ hv, getResolution_enc _ hv, by omega, by omega⟩
  by_cases hS : s < 4 ^ (r - 1).toNat
  · have hv : (⟨o, seg, s, r⟩ : Cell).Valid := Or.inr (Or.inr (Or.inr ⟨by show 2 ≤ r; omega, by show r ≤ 29; omega, ho, hs, hS⟩))
    rewrite [serialize_valid _ hv] at h
    cases Outcome.ok.inj h
    exact ⟨layout_enc _ hv, getResolution_enc _ hv, by omega, by omega⟩
  · rewrite [serialize_sTooLarge o seg s r (by omega) (by omega) ho hs hS] at h
    cases h

/-! ### the Hilbert index never overflows for curve depths ≤ 30 -/

section generic
variable {α : Type} [Add α] [Sub α] [Mul α] [Neg α] [LT α] [DecidableLT α]

omit [Sub α] [Mul α] in
theorem ijToQuaternary_lt_skel (L : Lits α) (u v : α) (F : Int × Int) : ijToQuaternary L u v F < 4 := by
  unfold ijToQuaternary
  dsimp only
  repeat' split
  all_goals omega

theorem locateDigits_lt (L : Lits α) (x y : α) (n : Nat) :
    ∀ (pivot : α × α) (F : Int × Int) (acc : List Nat), (∀ d ∈ acc, d < 4) →
      ∀ d ∈ (locateDigits L x y n pivot F acc).1, d < 4 := by
  induction n with
  | zero => intro pivot F acc h; exact h
  | succ i ih =>
    intro pivot F acc h
    unfold locateDigits
    dsimp only
    refine ih _ _ _ ?_
    intro d hd
    rcases List.mem_cons.1 hd with rfl | hd
    · exact ijToQuaternary_lt_skel ..
    · exact h d hd

theorem ijToSInternal_lt_skel (L : Lits α) (x y : α) (invertJ flipIJ : Bool) (n : Nat) :
    ijToSInternal L x y invertJ flipIJ n < 4 ^ n := by
  rewrite [ijToSInternal_eq]
  have h := shiftUp_dig4 (isPerm8_hilbertPattern flipIJ) invertJ n
    (locateDigits L x y n (L.ofInt 0, L.ofInt 0) (Gen.NO, Gen.NO) []).1 (locateDigits_length L x y n)
    (locateDigits_lt L x y n _ _ [] (fun d hd => absurd hd List.not_mem_nil))
    (flipsProd (locateDigits L x y n (L.ofInt 0, L.ofInt 0) (Gen.NO, Gen.NO) []).1)
  have h2 := digitsValue_lt _ h.2
  rewrite [h.1] at h2
  exact h2

/-- `ij_to_s` at depth ≤ 30 never trips an overflow guard and returns a position below `4^depth` -/
theorem ijToS_ok (L : Lits α) (x y : α) (n : Nat) (o : Orientation) (hn : n ≤ 30) :
    ∃ s, ijToS L x y n o = .ok s ∧ s < 4 ^ n := by
  unfold ijToS
  generalize Gen.IJ2S_REVERSE_SET.contains o = rev
  generalize Gen.IJ2S_INVERT_J_SET.contains o = inv
  generalize Gen.IJ2S_FLIP_IJ_SET.contains o = flip
  have key : ∀ (x y : α), ∃ s,
      (let s := ijToSInternal L x y inv flip n
        if rev then
          if 2 * n ≥ 64 then Outcome.panic PanicKind.shlOverflow
          else if s + 1 > 4 ^ n then Outcome.panic PanicKind.subOverflow
          else Outcome.ok (4 ^ n - s - 1)
        else Outcome.ok s) = .ok s ∧ s < 4 ^ n := by
    intro x y
    have hlt := ijToSInternal_lt_skel L x y inv flip n
    have hpos : 0 < 4 ^ n := Nat.pow_pos (by omega)
    dsimp only
    cases rev
    · exact ⟨_, rfl, hlt⟩
    · simp only [if_true]
      rewrite [if_neg (by omega), if_neg (by omega)]
      exact ⟨_, rfl, by omega⟩
  cases flip <;> cases inv
  all_goals
    simp only [Bool.false_eq_true, if_false, if_true, Outcome.bind_ok]
    try rewrite [if_neg (by omega)]
    try simp only [Outcome.bind_ok]
    exact key _ _

end generic

/-- `s_to_anchor` at depth ≤ 30 never trips an overflow guard when the position fits the depth -/
theorem sToAnchor_ok (s n : Nat) (o : Orientation) (hn : n ≤ 30) (hs : s < 4 ^ n) :
    ∃ a, sToAnchor s n o = .ok a := by
  unfold sToAnchor
  generalize oriReverse o = rev
  generalize oriInvertJ o = inv
  generalize oriFlipIJ o = flip
  dsimp only
  have h1 : ∃ adj, (if rev = true then
        if 2 * n ≥ 64 then Outcome.panic PanicKind.shlOverflow
        else if s + 1 > 4 ^ n then Outcome.panic PanicKind.subOverflow else Outcome.ok (4 ^ n - s - 1)
      else Outcome.ok s) = Outcome.ok adj := by
    cases rev
    · exact ⟨_, rfl⟩
    · simp only [if_true]
      rewrite [if_neg (by omega), if_neg (by omega)]
      exact ⟨_, rfl⟩
  obtain ⟨adj, hadj⟩ := h1
  rewrite [hadj]
  simp only [Outcome.bind_ok]
  cases inv
  · exact ⟨_, rfl⟩
  · simp only [if_true]
    rewrite [if_neg (by omega)]
    exact ⟨_, rfl⟩

/-! ### the estimate -/

/-- integer fields of a cell produced by `lonlat_to_estimate` at resolution `r` -/
def EstOK (r : Int) (c : Cell) : Prop :=
  c.res = r ∧ c.origin < 12 ∧ c.segment < 5 ∧ (if r < 2 then c.s = 0 else c.s < 4 ^ (r - 1).toNat)

/-- `lonlat_to_estimate` either fails with `crsVertex` (from the projection) or returns a cell with the
requested resolution, a real face, a real quintant and a curve position that fits.  No panic. -/
theorem lonlatToEstimate_cases (lon lat : Float) (r : Int) (hr : r ≤ 29) :
    lonlatToEstimate lon lat r = .err .crsVertex ∨ ∃ c, lonlatToEstimate lon lat r = .ok c ∧ EstOK r c := by
  unfold lonlatToEstimate
  generalize fromLonLat lon lat = tp
  obtain ⟨theta, phi⟩ := tp
  dsimp only
  have hid := findNearestOrigin_id theta phi
  rcases (dodecaForward_okOrCrs theta phi _ hid).cases with h | ⟨dp, h⟩
  · rewrite [h]; exact Or.inl rfl
  · rewrite [h]
    simp only [Outcome.bind_ok]
    refine Or.inr ?_
    have hseg := quintantToSegment_lt (getQuintantPolar (toPolar dp).2) (findNearestOrigin theta phi)
    generalize quintantToSegment (getQuintantPolar (toPolar dp).2) (findNearestOrigin theta phi) = so at hseg ⊢
    obtain ⟨seg, ori⟩ := so
    dsimp only at hseg ⊢
    by_cases h2 : r < Gen.FIRST_HILBERT_RESOLUTION
    · rewrite [if_pos h2]
      have h2' : r < 2 := h2
      exact ⟨_, rfl, rfl, hid, hseg, by rewrite [if_pos h2']; rfl⟩
    · rewrite [if_neg h2]
      have h2' : ¬ r < 2 := h2
      have hF : Gen.FIRST_HILBERT_RESOLUTION = 2 := rfl
      generalize faceToIJ _ = ij
      obtain ⟨i, j⟩ := ij
      dsimp only
      obtain ⟨s, hs, hlt⟩ := ijToS_ok floatLits i j (1 + r - Gen.FIRST_HILBERT_RESOLUTION).toNat ori (by omega)
      rewrite [hs]
      simp only [Outcome.bind_ok]
      refine ⟨_, rfl, rfl, hid, hseg, ?_⟩
      rewrite [if_neg h2']
      have e : (1 + r - Gen.FIRST_HILBERT_RESOLUTION).toNat = (r - 1).toNat := by omega
      rewrite [e] at hlt
      exact hlt

/-- estimates always encode: `serialize` succeeds and the id has the requested resolution -/
theorem serialize_est (r : Int) (c : Cell) (h : EstOK r c) (h0 : 0 ≤ r) (hr : r ≤ 29) :
    ∃ id, serialize c = .ok id ∧ Layout id ∧ getResolution id = r := by
  obtain ⟨o, seg, s, r'⟩ := c
  obtain ⟨h1, h2, h3, h4⟩ := h
  simp only at h1 h2 h3 h4
  subst h1
  by_cases hr0 : r' = 0
  · subst hr0
    have hv : (⟨o, 0, 0, 0⟩ : Cell).Valid := Or.inr (Or.inl ⟨rfl, h2, rfl, rfl⟩)
    exact ⟨_, serialize_res0_skel o seg s h2 h3, layout_enc _ hv, getResolution_enc _ hv⟩
  by_cases hr1 : r' = 1
  · subst hr1
    have hv : (⟨o, seg, 0, 1⟩ : Cell).Valid := Or.inr (Or.inr (Or.inl ⟨rfl, h2, h3, rfl⟩))
    exact ⟨_, serialize_res1_skel o seg s h2 h3, layout_enc _ hv, getResolution_enc _ hv⟩
  rewrite [if_neg (by omega)] at h4
  have hv : (⟨o, seg, s, r'⟩ : Cell).Valid :=
    Or.inr (Or.inr (Or.inr ⟨by show 2 ≤ r'; omega, hr, h2, h3, h4⟩))
  exact ⟨_, serialize_valid _ hv, layout_enc _ hv, getResolution_enc _ hv⟩

/-! ### containment test -/

theorem getPentagon_est (r : Int) (c : Cell) (h : EstOK r c) (h2 : 2 ≤ r) (hr : r ≤ 29) :
    ∃ p, getPentagon c = .ok p := by
  obtain ⟨h1, ho, hs, h4⟩ := h
  rewrite [if_neg (by omega)] at h4
  have hF : Gen.FIRST_HILBERT_RESOLUTION = 2 := rfl
  unfold getPentagon
  rewrite [if_neg (by rewrite [origins_length]; omega)]
  generalize segmentToQuintant c.segment (originAt c.origin) = qo
  obtain ⟨q, o⟩ := qo
  dsimp only
  rewrite [if_neg (by omega), if_neg (by omega), if_neg (by omega)]
  have e : (c.res - Gen.FIRST_HILBERT_RESOLUTION + 1).toNat = (r - 1).toNat := by omega
  rewrite [e]
  obtain ⟨a, ha⟩ := sToAnchor_ok c.s (r - 1).toNat o (by omega) h4
  rewrite [ha]
  exact ⟨_, rfl⟩

theorem polyContains_benign (vs : Poly) (p : V2) : Benign (polyContains vs p) := by
  unfold polyContains
  split
  · exact (Outcome.Within.panic_iff _).2 rfl
  · exact Outcome.Within.ok _

/-- the containment test on an estimate: `ok`, `crsVertex` (projection), or `notCCW` (winding test) -/
theorem cellContainsPoint_benign (r : Int) (c : Cell) (h : EstOK r c) (h2 : 2 ≤ r) (hr : r ≤ 29)
    (lon lat : Float) : Benign (cellContainsPoint c lon lat) := by
  have hF : Gen.FIRST_HILBERT_RESOLUTION = 2 := rfl
  obtain ⟨p, hp⟩ := getPentagon_est r c h h2 hr
  obtain ⟨h1, ho, hs, h4⟩ := h
  unfold cellContainsPoint
  generalize fromLonLat lon lat = tp
  obtain ⟨theta, phi⟩ := tp
  dsimp only
  refine Outcome.Within.bind (dodecaForward_okOrCrs theta phi c.origin ho).benign fun pp _ => ?_
  rewrite [if_neg (by rewrite [origins_length]; omega)]
  generalize segmentToQuintant c.segment (originAt c.origin) = qo
  obtain ⟨q, o⟩ := qo
  dsimp only
  rewrite [if_neg (by omega), if_neg (by omega), hp]
  simp only [Outcome.bind_ok]
  exact polyContains_benign p pp

/-- the distance used to rank a miss (fix for F16): `ok` or `crsVertex` (projection) - it has no winding test, hence no panic -/
theorem cellDistanceOutside_okOrCrs (r : Int) (c : Cell) (h : EstOK r c) (h2 : 2 ≤ r) (hr : r ≤ 29)
    (lon lat : Float) : OkOrCrs (cellDistanceOutside c lon lat) := by
  obtain ⟨p, hp⟩ := getPentagon_est r c h h2 hr
  obtain ⟨h1, ho, hs, h4⟩ := h
  unfold cellDistanceOutside
  generalize fromLonLat lon lat = tp
  obtain ⟨theta, phi⟩ := tp
  dsimp only
  refine Outcome.Within.bind (dodecaForward_okOrCrs theta phi c.origin ho) fun pp _ => ?_
  rewrite [hp]
  simp only [Outcome.bind_ok]
  exact Outcome.Within.ok _

/-! ### the sample loop -/

/-- the fallback choice: first maximum of the recorded distances (stable descending sort, head) -/
def firstMax (c0 : Cell × Float) (rest : List (Cell × Float)) : Cell × Float :=
  rest.foldl (fun (b : Cell × Float) c => if c.2 > b.2 then c else b) c0

theorem firstMax_mem : ∀ (rest : List (Cell × Float)) (c0 : Cell × Float), firstMax c0 rest ∈ c0 :: rest := by
  intro rest
  induction rest with
  | nil => intro c0; exact List.mem_cons_self
  | cons x xs ih =>
    intro c0
    show firstMax (if x.2 > c0.2 then x else c0) xs ∈ c0 :: x :: xs
    have h := ih (if x.2 > c0.2 then x else c0)
    rcases List.mem_cons.1 h with h | h
    · rewrite [h]
      split
      · exact List.mem_cons_of_mem _ List.mem_cons_self
      · exact List.mem_cons_self
    · exact List.mem_cons_of_mem _ (List.mem_cons_of_mem _ h)

theorem lookupLoop_nil_nil (lon lat : Float) (r : Int) (seen : List Nat) :
    lookupLoop lon lat r [] seen [] = .panic .indexOOB := rfl

theorem lookupLoop_nil_cons (lon lat : Float) (r : Int) (seen : List Nat) (c0 : Cell × Float)
    (rest : List (Cell × Float)) :
    lookupLoop lon lat r [] seen (c0 :: rest) =
      (serialize (firstMax c0 rest).1 >>= fun id => .ok ⟨id, -1⟩) := rfl

theorem lookupLoop_cons (lon lat : Float) (r : Int) (slon slat : Float) (samples : List (Float × Float))
    (seen : List Nat) (cells : List (Cell × Float)) :
    lookupLoop lon lat r ((slon, slat) :: samples) seen cells =
      (lonlatToEstimate slon slat r >>= fun est =>
        serialize est >>= fun key =>
        if seen.contains key then lookupLoop lon lat r samples seen cells
        else
          cellContainsPoint est lon lat >>= fun distance =>
          if distance > 0.0 then serialize est >>= fun id => .ok ⟨id, seen.length⟩
          else
            cellDistanceOutside est lon lat >>= fun outside =>
            lookupLoop lon lat r samples (seen ++ [key]) (cells ++ [(est, -outside)])) := rfl

/-- a hit: `id` encodes the estimate of one of the samples, and the model's own containment test of
that cell against the *query point* is strictly positive -/
def HitAt (lon lat : Float) (r : Int) (samples : List (Float × Float)) (id : Nat) : Prop :=
  ∃ c d, EstOK r c ∧ (∃ smp ∈ samples, lonlatToEstimate smp.1 smp.2 r = .ok c) ∧ serialize c = .ok id ∧
    cellContainsPoint c lon lat = .ok d ∧ d > 0.0

/-- a recorded miss: an estimate of one of the samples whose containment value is not positive, recorded with its
(negated) perpendicular distance to the query point -/
def Miss (lon lat : Float) (r : Int) (samples : List (Float × Float)) (e : Cell × Float) : Prop :=
  EstOK r e.1 ∧ (∃ smp ∈ samples, lonlatToEstimate smp.1 smp.2 r = .ok e.1) ∧
    (∃ d, cellContainsPoint e.1 lon lat = .ok d ∧ ¬ (d > 0.0)) ∧
    (∃ o, cellDistanceOutside e.1 lon lat = .ok o ∧ e.2 = -o)

/-- the fallback: `id` encodes the first maximum of the non-empty list of recorded misses -/
def FallbackAt (lon lat : Float) (r : Int) (samples : List (Float × Float)) (cells : List (Cell × Float))
    (id : Nat) : Prop :=
  ∃ extra c0 rest, (∀ e ∈ extra, Miss lon lat r samples e) ∧ cells ++ extra = c0 :: rest ∧
    EstOK r (firstMax c0 rest).1 ∧ serialize (firstMax c0 rest).1 = .ok id

def LoopPost (lon lat : Float) (r : Int) (samples : List (Float × Float)) (cells : List (Cell × Float)) :
    Outcome LookupResult → Prop
  | .err e => e = .crsVertex
  | .panic k => k = .notCCW
  | .ok res => (0 ≤ res.branch ∧ HitAt lon lat r samples res.id) ∨
      (res.branch = -1 ∧ FallbackAt lon lat r samples cells res.id)

theorem Miss.mono {lon lat : Float} {r : Int} {samples : List (Float × Float)} {e : Cell × Float}
    (smp : Float × Float) (h : Miss lon lat r samples e) : Miss lon lat r (smp :: samples) e := by
  obtain ⟨h1, ⟨s, hs, h2⟩, h3, h4⟩ := h
  exact ⟨h1, ⟨s, List.mem_cons_of_mem _ hs, h2⟩, h3, h4⟩

theorem LoopPost.weaken {lon lat : Float} {r : Int} {samples : List (Float × Float)}
    {cells new : List (Cell × Float)} {x : Outcome LookupResult} (smp : Float × Float)
    (h : LoopPost lon lat r samples (cells ++ new) x) (hnew : ∀ e ∈ new, Miss lon lat r (smp :: samples) e) :
    LoopPost lon lat r (smp :: samples) cells x := by
  cases x with
  | err e => exact h
  | panic k => exact h
  | ok res =>
    rcases h with ⟨hb, c, d, h1, ⟨s, hs, h2⟩, h3, h4, h5⟩ | ⟨hb, extra, c0, rest, h1, h2, h3, h4⟩
    · exact Or.inl ⟨hb, c, d, h1, ⟨s, List.mem_cons_of_mem _ hs, h2⟩, h3, h4, h5⟩
    · refine Or.inr ⟨hb, new ++ extra, c0, rest, ?_, ?_, h3, h4⟩
      · intro e he
        rcases List.mem_append.1 he with he | he
        · exact hnew e he
        · exact (h1 e he).mono smp
      · rewrite [← List.append_assoc]; exact h2

/-- MAIN loop invariant.  For curve resolutions `2 ≤ r ≤ 29`: if all recorded cells are estimates and
the fallback list is non-empty or nothing has been tried yet (and a sample remains), then the loop ends
in a hit, a fallback, a `crsVertex` error or a `notCCW` panic — nothing else. -/
theorem lookupLoop_post (lon lat : Float) (r : Int) (h2 : 2 ≤ r) (hr : r ≤ 29) :
    ∀ (samples : List (Float × Float)) (seen : List Nat) (cells : List (Cell × Float)),
      (∀ e ∈ cells, EstOK r e.1) → (cells ≠ [] ∨ (seen = [] ∧ samples ≠ [])) →
      LoopPost lon lat r samples cells (lookupLoop lon lat r samples seen cells) := by
  intro samples
  induction samples with
  | nil =>
    intro seen cells hall hJ
    cases cells with
    | nil => rcases hJ with h | ⟨_, h⟩ <;> exact absurd rfl h
    | cons c0 rest =>
      rewrite [lookupLoop_nil_cons]
      have hest := hall _ (firstMax_mem rest c0)
      obtain ⟨id, hid, _, _⟩ := serialize_est r _ hest (by omega) hr
      rewrite [hid]
      simp only [Outcome.bind_ok]
      exact Or.inr ⟨rfl, [], c0, rest, fun e he => absurd he List.not_mem_nil, List.append_nil _, hest, hid⟩
  | cons smp samples ih =>
    intro seen cells hall hJ
    obtain ⟨slon, slat⟩ := smp
    rewrite [lookupLoop_cons]
    rcases lonlatToEstimate_cases slon slat r hr with he | ⟨est, he, hest⟩
    · rewrite [he]; exact rfl
    rewrite [he]
    simp only [Outcome.bind_ok]
    obtain ⟨key, hkey, _, _⟩ := serialize_est r est hest (by omega) hr
    rewrite [hkey]
    simp only [Outcome.bind_ok]
    by_cases hc : seen.contains key = true
    · rewrite [if_pos hc]
      have hcells : cells ≠ [] := by
        rcases hJ with h | ⟨h, _⟩
        · exact h
        · subst h; cases hc
      have := ih seen (cells ++ []) (by rewrite [List.append_nil]; exact hall)
        (Or.inl (by rewrite [List.append_nil]; exact hcells))
      rewrite [List.append_nil] at this
      refine LoopPost.weaken (new := []) (slon, slat) ?_ (fun e he => absurd he List.not_mem_nil)
      rewrite [List.append_nil]
      exact this
    · rewrite [if_neg hc]
      have hb := cellContainsPoint_benign r est hest h2 hr lon lat
      cases hd : cellContainsPoint est lon lat with
      | err e => rewrite [hd] at hb; exact (Outcome.Within.err_iff e).1 hb
      | panic k => rewrite [hd] at hb; exact (Outcome.Within.panic_iff k).1 hb
      | ok d =>
        simp only [Outcome.bind_ok]
        by_cases hpos : d > 0.0
        · rewrite [if_pos hpos]
          exact Or.inl ⟨Int.natCast_nonneg _, est, d, hest, ⟨(slon, slat), List.mem_cons_self, he⟩, hkey, hd, hpos⟩
        · rewrite [if_neg hpos]
          have hbo := cellDistanceOutside_okOrCrs r est hest h2 hr lon lat
          cases ho : cellDistanceOutside est lon lat with
          | err e => rewrite [ho] at hbo; exact (Outcome.Within.err_iff e).1 hbo
          | panic k => rewrite [ho] at hbo; exact ((Outcome.Within.panic_iff k).1 hbo).elim
          | ok o =>
            simp only [Outcome.bind_ok]
            refine LoopPost.weaken (new := [(est, -o)]) (slon, slat) ?_ ?_
            · refine ih _ _ ?_ (Or.inl (by simp))
              intro e he'
              rcases List.mem_append.1 he' with h | h
              · exact hall e h
              · cases List.mem_singleton.1 h; exact hest
            · intro e he'
              cases List.mem_singleton.1 he'
              exact ⟨hest, ⟨(slon, slat), List.mem_cons_self, he⟩, ⟨d, hd, hpos⟩, ⟨o, ho, rfl⟩⟩

/-! ### `lonlat_to_cell` -/

theorem probeSamples_eq (lon lat : Float) (hres : Int) :
    ∃ tail, probeSamples lon lat hres = (lon, lat) :: tail ∧ tail.length = 25 := by
  unfold probeSamples
  exact ⟨_, rfl, by rewrite [List.length_map, List.length_range]; rfl⟩

theorem lonlatToCellB_outOfRange (lon lat : Float) (r : Int) (h : r < -1 ∨ 29 < r) :
    lonlatToCellB lon lat r = .err .resOutOfRange := by
  unfold lonlatToCellB
  rewrite [if_neg (by omega)]
  have e : (!(decide (-1 ≤ r) && decide (r < Gen.MAX_RESOLUTION))) = true := by
    have hM : Gen.MAX_RESOLUTION = 30 := rfl
    rcases h with h | h
    · have : decide (-1 ≤ r) = false := decide_eq_false (by omega)
      rewrite [this]; rfl
    · have : decide (r < Gen.MAX_RESOLUTION) = false := decide_eq_false (by omega)
      rewrite [this, Bool.and_false]; rfl
  rewrite [if_pos e]
  rfl

theorem lonlatToCellB_world (lon lat : Float) : lonlatToCellB lon lat (-1) = .ok ⟨0, -3⟩ := by
  unfold lonlatToCellB
  rewrite [if_pos rfl]
  rfl

theorem lonlatToCellB_inRange (lon lat : Float) (r : Int) (h0 : 0 ≤ r) (hr : r ≤ 29) :
    lonlatToCellB lon lat r =
      if r < 2 then lonlatToEstimate lon lat r >>= fun est => serialize est >>= fun id => .ok ⟨id, -2⟩
      else lookupLoop lon lat r (probeSamples lon lat (1 + r - 2)) [] [] := by
  unfold lonlatToCellB
  rewrite [if_neg (by omega)]
  have e : (!(decide (-1 ≤ r) && decide (r < Gen.MAX_RESOLUTION))) = false := by
    have hM : Gen.MAX_RESOLUTION = 30 := rfl
    have h1 : decide (-1 ≤ r) = true := decide_eq_true (by omega)
    have h2 : decide (r < Gen.MAX_RESOLUTION) = true := decide_eq_true (by omega)
    rewrite [h1, h2]; rfl
  rewrite [if_neg (by rewrite [e]; exact Bool.false_ne_true)]
  rfl

/-- complete description of the outcomes of `lonlat_to_cell` (with the branch tag) for `-1 ≤ r ≤ 29` -/
def CellBPost (lon lat : Float) (r : Int) : Outcome LookupResult → Prop
  | .err e => e = .crsVertex ∧ 0 ≤ r
  | .panic k => k = .notCCW ∧ 2 ≤ r
  | .ok res => Layout res.id ∧ getResolution res.id = r ∧
      ((r = -1 ∧ res.id = 0 ∧ res.branch = -3) ∨
       (0 ≤ r ∧ r < 2 ∧ res.branch = -2 ∧
          ∃ c, EstOK r c ∧ lonlatToEstimate lon lat r = .ok c ∧ serialize c = .ok res.id) ∨
       (2 ≤ r ∧ 0 ≤ res.branch ∧ HitAt lon lat r (probeSamples lon lat (1 + r - 2)) res.id) ∨
       (2 ≤ r ∧ res.branch = -1 ∧ FallbackAt lon lat r (probeSamples lon lat (1 + r - 2)) [] res.id))

theorem lonlatToCellB_post (lon lat : Float) (r : Int) (hm : -1 ≤ r) (hr : r ≤ 29) :
    CellBPost lon lat r (lonlatToCellB lon lat r) := by
  by_cases hw : r = -1
  · subst hw
    rewrite [lonlatToCellB_world]
    exact ⟨Or.inl rfl, getResolution_zero', Or.inl ⟨rfl, rfl, rfl⟩⟩
  rewrite [lonlatToCellB_inRange lon lat r (by omega) hr]
  by_cases h2 : r < 2
  · rewrite [if_pos h2]
    rcases lonlatToEstimate_cases lon lat r hr with he | ⟨est, he, hest⟩
    · rewrite [he]; exact ⟨rfl, by omega⟩
    · obtain ⟨id, hid, hlay, hres⟩ := serialize_est r est hest (by omega) hr
      rewrite [he]
      simp only [Outcome.bind_ok]
      rewrite [hid]
      simp only [Outcome.bind_ok]
      exact ⟨hlay, hres, Or.inr (Or.inl ⟨by omega, h2, rfl, est, hest, he, hid⟩)⟩
  · rewrite [if_neg h2]
    obtain ⟨tail, hps, _⟩ := probeSamples_eq lon lat (1 + r - 2)
    have hpost := lookupLoop_post lon lat r (by omega) hr (probeSamples lon lat (1 + r - 2)) [] []
      (fun e he => absurd he List.not_mem_nil) (Or.inr ⟨rfl, by rewrite [hps]; exact List.cons_ne_nil _ _⟩)
    cases hl : lookupLoop lon lat r (probeSamples lon lat (1 + r - 2)) [] [] with
    | err e => rewrite [hl] at hpost; exact ⟨hpost, by omega⟩
    | panic k => rewrite [hl] at hpost; exact ⟨hpost, by omega⟩
    | ok res =>
      rewrite [hl] at hpost
      rcases hpost with ⟨hb, hhit⟩ | ⟨hb, hfb⟩
      · have hhit' := hhit
        obtain ⟨c, d, hest, _, hser, _, _⟩ := hhit'
        obtain ⟨hlay, hres, _, _⟩ := serialize_ok_layout c res.id hser hest.2.1 hest.2.2.1
        exact ⟨hlay, hres.trans hest.1, Or.inr (Or.inr (Or.inl ⟨by omega, hb, hhit⟩))⟩
      · have hfb' := hfb
        obtain ⟨extra, c0, rest, _, _, hest, hser⟩ := hfb'
        obtain ⟨hlay, hres, _, _⟩ := serialize_ok_layout _ res.id hser hest.2.1 hest.2.2.1
        exact ⟨hlay, hres.trans hest.1, Or.inr (Or.inr (Or.inr ⟨by omega, hb, hfb⟩))⟩

theorem lonlatToCell_eq (lon lat : Float) (r : Int) :
    lonlatToCell lon lat r = (lonlatToCellB lon lat r >>= fun x => .ok x.id) := rfl

/-! ### `cell_to_lonlat` skeleton -/

theorem cellToLonLat_ok_deserialize (id : Nat) (p : Float × Float) (h : cellToLonLat id = .ok p) :
    (deserialize id).isOk = true := by
  unfold cellToLonLat at h
  by_cases h0 : id = Gen.WORLD_CELL
  · have : id = 0 := h0
    subst this
    rewrite [deserialize_world 0 getResolution_zero']; rfl
  · rewrite [if_neg h0] at h
    cases hd : deserialize id with
    | ok c => rfl
    | err e => rewrite [hd] at h; cases h
    | panic k => rewrite [hd] at h; cases h

/-- ids without a resolution marker (the world cell and its aliases) map to `(0, 0)` -/
theorem cellToLonLat_world (id : Nat) (h : getResolution id = -1) : cellToLonLat id = .ok (0.0, 0.0) := by
  unfold cellToLonLat
  by_cases h0 : id = Gen.WORLD_CELL
  · rewrite [if_pos h0]; rfl
  · rewrite [if_neg h0, deserialize_world id h]
    simp only [Outcome.bind_ok, if_true]

end A5
