import A5.Model.CellGeo
import A5.Lemmas.Deserialize
import A5.Lemmas.HilbertDigits
/-! Integer/list *skeleton* of the point-to-cell lookup (`lonlat_to_estimate`, `a5cell_contains_point`,
the sample loop of `lonlat_to_cell`).  Every `Float` is treated as an arbitrary value: the lemmas are
about which outcomes (`ok` / which `err` / which `panic`) are possible and which integer fields the
produced cells have.  Core-only. -/
namespace A5

/-! ### outcomes restricted to given error / panic kinds -/

/-- `x` is `ok`, or an error satisfying `E`, or a panic satisfying `K` -/
def Outcome.Within {α : Type} (E : ErrKind → Prop) (K : PanicKind → Prop) : Outcome α → Prop
  | .ok _ => True
  | .err e => E e
  | .panic k => K k

theorem Outcome.Within.bind {α β : Type} {E : ErrKind → Prop} {K : PanicKind → Prop} {x : Outcome α}
    {f : α → Outcome β} (hx : x.Within E K) (hf : ∀ v, x = .ok v → (f v).Within E K) :
    (x >>= f).Within E K := by
  cases x with
  | ok v => simp only [Outcome.bind_ok]; exact hf v rfl
  | err e => simp only [Outcome.bind_err]; exact hx
  | panic k => simp only [Outcome.bind_panic]; exact hx

theorem Outcome.Within.mono {α : Type} {E E' : ErrKind → Prop} {K K' : PanicKind → Prop} {x : Outcome α}
    (hx : x.Within E K) (hE : ∀ e, E e → E' e) (hK : ∀ k, K k → K' k) : x.Within E' K' := by
  cases x with
  | ok v => trivial
  | err e => exact hE e hx
  | panic k => exact hK k hx

theorem Outcome.Within.ok {α : Type} {E : ErrKind → Prop} {K : PanicKind → Prop} (v : α) :
    (Outcome.ok v).Within E K := trivial

theorem Outcome.Within.err_iff {α : Type} {E : ErrKind → Prop} {K : PanicKind → Prop} (e : ErrKind) :
    (Outcome.err e : Outcome α).Within E K ↔ E e := Iff.rfl

theorem Outcome.Within.panic_iff {α : Type} {E : ErrKind → Prop} {K : PanicKind → Prop} (k : PanicKind) :
    (Outcome.panic k : Outcome α).Within E K ↔ K k := Iff.rfl

/-- only `crsVertex` errors, no panic -/
abbrev OkOrCrs {α : Type} (x : Outcome α) : Prop := x.Within (· = .crsVertex) (fun _ => False)

/-- only `crsVertex` errors and `notCCW` panics -/
abbrev Benign {α : Type} (x : Outcome α) : Prop := x.Within (· = .crsVertex) (· = .notCCW)

theorem OkOrCrs.benign {α : Type} {x : Outcome α} (h : OkOrCrs x) : Benign x :=
  Outcome.Within.mono h (fun _ h => h) (fun _ h => h.elim)

theorem OkOrCrs.cases {α : Type} {x : Outcome α} (h : OkOrCrs x) : x = .err .crsVertex ∨ ∃ v, x = .ok v := by
  cases x with
  | ok v => exact Or.inr ⟨v, rfl⟩
  | err e => exact Or.inl (congrArg Outcome.err h)
  | panic k => exact h.elim

attribute [irreducible] Outcome.Within

/-! ### origins -/

theorem origins_length : origins.length = 12 := by
  unfold origins
  rewrite [List.length_map, List.length_range]
  rfl

theorem origins_id (o : Origin) (h : o ∈ origins) : o.id < 12 := by
  unfold origins at h
  obtain ⟨i, hi, rfl⟩ := List.mem_map.1 h
  have hi' : i < 12 := List.mem_range.1 hi
  dsimp only
  generalize rawOrigins.getD (Gen.ORIGIN_ORDER.getD i 0) (0.0, 0.0, 0.0, 0) = t
  obtain ⟨a, b, c, d⟩ := t
  exact hi'

theorem originAt_id (o : Nat) : (originAt o).id < 12 := by
  unfold originAt
  rewrite [List.getD_eq_getElem?_getD]
  cases h : origins[o]? with
  | none => show (default : Origin).id < 12; exact (by decide : (0 : Nat) < 12)
  | some x => exact origins_id x (List.mem_of_getElem? h)

theorem findNearestOrigin_go_ind (theta phi : Float) (P : Origin → Prop) :
    ∀ (l : List Origin) (d : Float) (best : Origin), (∀ o ∈ l, P o) → P best →
      P (findNearestOrigin.go theta phi l d best) := by
  intro l
  induction l with
  | nil => intro d best _ hb; exact hb
  | cons o os ih =>
    intro d best hl hb
    unfold findNearestOrigin.go
    dsimp only
    split
    · exact ih _ _ (fun x hx => hl x (List.mem_cons_of_mem _ hx)) (hl o List.mem_cons_self)
    · exact ih _ _ (fun x hx => hl x (List.mem_cons_of_mem _ hx)) hb

/-- the nearest-origin search always returns one of the twelve faces -/
theorem findNearestOrigin_id (theta phi : Float) : (findNearestOrigin theta phi).id < 12 := by
  unfold findNearestOrigin
  exact findNearestOrigin_go_ind theta phi (fun o => o.id < 12) _ _ _ origins_id (originAt_id 0)

theorem quintantToSegment_lt (q : Nat) (o : Origin) : (quintantToSegment q o).1 < 5 := by
  unfold quintantToSegment
  exact Nat.mod_lt _ (by omega)

/-! ### the projection: only `crsVertex` can go wrong for a real face -/

theorem faceTriangleIndex_le (gamma : Float) : faceTriangleIndex gamma ≤ 9 := by
  unfold faceTriangleIndex
  dsimp only
  generalize f64ToI32 (gamma / fc Gen.PI_OVER_5).floor + 10 = a
  have h1 := Int.tmod_lt_of_pos a (b := 10) (by omega)
  have h2 := Int.lt_tmod_of_pos a (b := 10) (by omega)
  split <;> omega

theorem getFaceTriangle_ok (idx : Nat) (h : idx ≤ 9) (refl sq : Bool) :
    ∃ ft, getFaceTriangle idx refl sq = .ok ft := by
  unfold getFaceTriangle
  rewrite [if_neg (by simp only [Gen.FACE_TRIANGLE_MAX]; omega)]
  exact ⟨_, rfl⟩

theorem crsGetVertex_okOrCrs (p : V3) : OkOrCrs (crsGetVertex p) := by
  unfold crsGetVertex
  split
  · exact Outcome.Within.ok _
  · exact (Outcome.Within.err_iff _).2 rfl

theorem computeSphericalTriangle_okOrCrs (idx o : Nat) (refl : Bool) (hidx : idx ≤ 9) (ho : o < 12) :
    OkOrCrs (computeSphericalTriangle idx o refl) := by
  unfold computeSphericalTriangle
  rewrite [if_neg (by rewrite [origins_length]; omega)]
  obtain ⟨ft, hft⟩ := getFaceTriangle_ok idx hidx refl true
  dsimp only [toPolar, gnomonicInverse]
  rewrite [hft]
  simp only [Outcome.bind_ok]
  refine Outcome.Within.bind (crsGetVertex_okOrCrs _) fun va _ => ?_
  refine Outcome.Within.bind (crsGetVertex_okOrCrs _) fun vb _ => ?_
  refine Outcome.Within.bind (crsGetVertex_okOrCrs _) fun vc _ => ?_
  exact Outcome.Within.ok _

theorem dodecaForward_okOrCrs (theta phi : Float) (o : Nat) (ho : o < 12) :
    OkOrCrs (dodecaForward theta phi o) := by
  unfold dodecaForward
  rewrite [if_neg (by rewrite [origins_length]; omega)]
  dsimp only [toSpherical, gnomonicForward]
  obtain ⟨ft, hft⟩ := getFaceTriangle_ok _ (faceTriangleIndex_le _) _ false
  rewrite [hft]
  simp only [Outcome.bind_ok]
  refine Outcome.Within.bind (computeSphericalTriangle_okOrCrs _ _ _ (faceTriangleIndex_le _) ho) fun st _ => ?_
  exact Outcome.Within.ok _

/-! ### `serialize` on cells whose ignored fields are not normalised -/

/-- at resolution 0 the `segment` and `s` fields are ignored by the encoder -/
theorem serialize_res0' (o seg s : Nat) (ho : o < 12) (hs : seg < 5) :
    serialize ⟨o, seg, s, 0⟩ = .ok (encNat ⟨o, 0, 0, 0⟩) := by
  have hf := firstQuintant_lt o ho
  simp only [serialize, encNat, top6, markerPos, Gen.MAX_RESOLUTION, Gen.FIRST_HILBERT_RESOLUTION, Gen.WORLD_CELL,
      Gen.HILBERT_START_BIT, numOrigins, Gen.ORIGIN_ORDER, List.length]
  simp only [Int.reduceToNat, Int.reduceAdd, Int.reduceSub, Int.reduceLT, Int.reduceEq, if_true, if_false,
      Nat.reduceAdd, Nat.reduceMul, Nat.reduceSub, Int.reduceNeg, ge_iff_le, Int.reduceLE]
  rewrite [if_neg (by omega), u64Add_ok _ _ (by omega)]; simp only [Outcome.bind_ok]
  rewrite [u32Sub_ok _ _ (by omega)]; simp only [Outcome.bind_ok]
  rewrite [u64Shl_ok _ _ (by omega) (by omega)]; simp only [Outcome.bind_ok]
  rewrite [u32Sub_ok _ _ (by omega)]; simp only [Outcome.bind_ok]
  rewrite [u64Shl_ok _ _ (by omega) (by omega)]; simp only [Outcome.bind_ok, Nat.reduceSub, Nat.one_mul]
  rewrite [if_neg (by omega), or_marker _ _ (by omega)]
  refine congrArg Outcome.ok ?_
  omega

/-- at resolution 1 the `s` field is ignored by the encoder -/
theorem serialize_res1' (o seg s : Nat) (ho : o < 12) (hs : seg < 5) :
    serialize ⟨o, seg, s, 1⟩ = .ok (encNat ⟨o, seg, 0, 1⟩) := by
  have hf := firstQuintant_lt o ho
  simp only [serialize, encNat, top6, markerPos, Gen.MAX_RESOLUTION, Gen.FIRST_HILBERT_RESOLUTION, Gen.WORLD_CELL,
      Gen.HILBERT_START_BIT, numOrigins, Gen.ORIGIN_ORDER, List.length]
  simp only [Int.reduceToNat, Int.reduceAdd, Int.reduceSub, Int.reduceLT, Int.reduceEq, if_true, if_false,
      Nat.reduceAdd, Nat.reduceMul, Nat.reduceSub, Int.reduceNeg, ge_iff_le, Int.reduceLE]
  rewrite [if_neg (by omega), u64Add_ok _ _ (by omega)]; simp only [Outcome.bind_ok]
  rewrite [u32Sub_ok _ _ (by omega)]; simp only [Outcome.bind_ok]
  rewrite [u64Shl_ok _ _ (by omega) (by omega)]; simp only [Outcome.bind_ok]
  rewrite [u32Sub_ok _ _ (by omega)]; simp only [Outcome.bind_ok]
  rewrite [u64Shl_ok _ _ (by omega) (by omega)]; simp only [Outcome.bind_ok, Nat.reduceSub, Nat.one_mul]
  rewrite [if_neg (by omega), or_marker _ _ (by omega)]
  refine congrArg Outcome.ok ?_
  omega

/-- a curve position that does not fit its `2·(r-1)` bits is rejected, never truncated -/
theorem serialize_sTooLarge (o seg s : Nat) (r : Int) (hr2 : 2 ≤ r) (hr : r ≤ 29) (ho : o < 12) (hs : seg < 5)
    (hS : ¬ s < 4 ^ (r - 1).toNat) : serialize ⟨o, seg, s, r⟩ = .err .sTooLarge := by
  have hf := firstQuintant_lt o ho
  have hc : r = 2 ∨ r = 3 ∨ r = 4 ∨ r = 5 ∨ r = 6 ∨ r = 7 ∨ r = 8 ∨ r = 9 ∨ r = 10 ∨ r = 11 ∨ r = 12 ∨ r = 13 ∨ r = 14 ∨ r = 15 ∨ r = 16 ∨ r = 17 ∨ r = 18 ∨ r = 19 ∨ r = 20 ∨ r = 21 ∨ r = 22 ∨ r = 23 ∨ r = 24 ∨ r = 25 ∨ r = 26 ∨ r = 27 ∨ r = 28 ∨ r = 29 := by omega
  rcases hc with rfl|rfl|rfl|rfl|rfl|rfl|rfl|rfl|rfl|rfl|rfl|rfl|rfl|rfl|rfl|rfl|rfl|rfl|rfl|rfl|rfl|rfl|rfl|rfl|rfl|rfl|rfl|rfl
  all_goals
    simp only [serialize, Gen.MAX_RESOLUTION, Gen.FIRST_HILBERT_RESOLUTION, Gen.WORLD_CELL,
      Gen.HILBERT_START_BIT, numOrigins, Gen.ORIGIN_ORDER, List.length]
    simp only [Int.reduceToNat, Int.reduceAdd, Int.reduceSub, Int.reduceLT, Int.reduceEq, if_true, if_false,
      Nat.reduceAdd, Nat.reduceMul, Int.reduceNeg, ge_iff_le, Int.reduceLE] at hS ⊢
    simp only [Nat.reducePow] at hS
    rewrite [if_neg (by omega), u64Add_ok _ _ (by omega)]; simp only [Outcome.bind_ok]
    rewrite [u32Sub_ok _ _ (by omega)]; simp only [Outcome.bind_ok]
    rewrite [u64Shl_ok _ _ (by omega) (by omega)]; simp only [Outcome.bind_ok]
    rewrite [u64Shl_ok _ _ (by omega) (by omega)]; simp only [Outcome.bind_ok]
    rewrite [if_pos (by omega)]; simp only [Outcome.bind_err]

theorem getResolution_zero' : getResolution 0 = -1 := by
  rewrite [getResolution_eq]; exact resFrom_zero 30

/-- GENERAL: whenever the encoder succeeds on a cell naming a real face and quintant, the id is in the
documented layout and carries the cell's resolution (ignored fields need not be normalised). -/
theorem serialize_ok_layout (c : Cell) (id : Nat) (h : serialize c = .ok id) (ho : c.origin < 12)
    (hs : c.segment < 5) : Layout id ∧ getResolution id = c.res ∧ -1 ≤ c.res ∧ c.res ≤ 29 := by
  obtain ⟨o, seg, s, r⟩ := c
  simp only at ho hs
  by_cases h30 : r ≥ 30
  · simp only [serialize, Gen.MAX_RESOLUTION] at h; rewrite [if_pos h30] at h; cases h
  by_cases hneg : r < -1
  · simp only [serialize, Gen.MAX_RESOLUTION] at h; rewrite [if_neg h30, if_pos hneg] at h; cases h
  by_cases hm1 : r = -1
  · subst hm1
    have e : serialize ⟨o, seg, s, -1⟩ = .ok 0 := by simp [serialize, Gen.MAX_RESOLUTION, Gen.WORLD_CELL]
    rewrite [e] at h
    cases Outcome.ok.inj h
    exact ⟨Or.inl rfl, getResolution_zero', by decide, by decide⟩
  by_cases h0 : r = 0
  · subst h0
    rewrite [serialize_res0' o seg s ho hs] at h
    cases Outcome.ok.inj h
    have hv : (⟨o, 0, 0, 0⟩ : Cell).Valid := Or.inr (Or.inl ⟨rfl, ho, rfl, rfl⟩)
    exact ⟨layout_enc _ hv, getResolution_enc _ hv, by decide, by decide⟩
  by_cases h1 : r = 1
  · subst h1
    rewrite [serialize_res1' o seg s ho hs] at h
    cases Outcome.ok.inj h
    have hv : (⟨o, seg, 0, 1⟩ : Cell).Valid := Or.inr (Or.inr (Or.inl ⟨rfl, ho, hs, rfl⟩))
    exact ⟨layout_enc _ hv, getResolution_enc _ hv, by decide, by decide⟩
  by_cases hS : s < 4 ^ (r - 1).toNat
  · have hv : (⟨o, seg, s, r⟩ : Cell).Valid := Or.inr (Or.inr (Or.inr ⟨by show 2 ≤ r; omega, by show r ≤ 29; omega, ho, hs, hS⟩))
    rewrite [serialize_valid _ hv] at h
    cases Outcome.ok.inj h
    exact ⟨layout_enc _ hv, getResolution_enc _ hv, by show -1 ≤ r; omega, by show r ≤ 29; omega⟩
  · rewrite [serialize_sTooLarge o seg s r (by omega) (by omega) ho hs hS] at h
    cases h

/-! ### the Hilbert index never overflows for curve depths ≤ 30 -/

section generic
variable {α : Type} [Add α] [Sub α] [Mul α] [Neg α] [LT α] [DecidableLT α]

omit [Sub α] [Mul α] in
theorem ijToQuaternary_lt (L : Lits α) (u v : α) (F : Int × Int) : ijToQuaternary L u v F < 4 := by
  unfold ijToQuaternary
  dsimp only
  repeat' split
  all_goals omega

theorem locateDigits_lt (L : Lits α) (x y : α) (n : Nat) :
    ∀ (pivot : α × α) (F : Int × Int) (acc : List Nat), (∀ d ∈ acc, d < 4) →
      ∀ d ∈ (locateDigits L x y n pivot F acc).1, d < 4 := by
  induction n with
  | zero => intro pivot F acc h; exact h
  | succ i ih =>
    intro pivot F acc h
    unfold locateDigits
    dsimp only
    refine ih _ _ _ ?_
    intro d hd
    rcases List.mem_cons.1 hd with rfl | hd
    · exact ijToQuaternary_lt ..
    · exact h d hd

theorem ijToSInternal_lt (L : Lits α) (x y : α) (invertJ flipIJ : Bool) (n : Nat) :
    ijToSInternal L x y invertJ flipIJ n < 4 ^ n := by
  rewrite [ijToSInternal_eq]
  have h := shiftUp_dig4 (isPerm8_hilbertPattern flipIJ) invertJ n
    (locateDigits L x y n (L.ofInt 0, L.ofInt 0) (Gen.NO, Gen.NO) []).1 (locateDigits_length L x y n)
    (locateDigits_lt L x y n _ _ [] (fun d hd => absurd hd List.not_mem_nil))
    (flipsProd (locateDigits L x y n (L.ofInt 0, L.ofInt 0) (Gen.NO, Gen.NO) []).1)
  have h2 := digitsValue_lt _ h.2
  rewrite [h.1] at h2
  exact h2

/-- `ij_to_s` at depth ≤ 30 never trips an overflow guard and returns a position below `4^depth` -/
theorem ijToS_ok (L : Lits α) (x y : α) (n : Nat) (o : Orientation) (hn : n ≤ 30) :
    ∃ s, ijToS L x y n o = .ok s ∧ s < 4 ^ n := by
  unfold ijToS
  generalize Gen.IJ2S_REVERSE_SET.contains o = rev
  generalize Gen.IJ2S_INVERT_J_SET.contains o = inv
  generalize Gen.IJ2S_FLIP_IJ_SET.contains o = flip
  have key : ∀ (x y : α), ∃ s,
      (let s := ijToSInternal L x y inv flip n
        if rev then
          if 2 * n ≥ 64 then Outcome.panic PanicKind.shlOverflow
          else if s + 1 > 4 ^ n then Outcome.panic PanicKind.subOverflow
          else Outcome.ok (4 ^ n - s - 1)
        else Outcome.ok s) = .ok s ∧ s < 4 ^ n := by
    intro x y
    have hlt := ijToSInternal_lt L x y inv flip n
    have hpos : 0 < 4 ^ n := Nat.pow_pos (by omega)
    dsimp only
    cases rev
    · exact ⟨_, rfl, hlt⟩
    · simp only [if_true]
      rewrite [if_neg (by omega), if_neg (by omega)]
      exact ⟨_, rfl, by omega⟩
  cases flip <;> cases inv
  all_goals
    simp only [Bool.false_eq_true, if_false, if_true, Outcome.bind_ok]
    try rewrite [if_neg (by omega)]
    try simp only [Outcome.bind_ok]
    exact key _ _

end generic

/-- `s_to_anchor` at depth ≤ 30 never trips an overflow guard when the position fits the depth -/
theorem sToAnchor_ok (s n : Nat) (o : Orientation) (hn : n ≤ 30) (hs : s < 4 ^ n) :
    ∃ a, sToAnchor s n o = .ok a := by
  unfold sToAnchor
  generalize oriReverse o = rev
  generalize oriInvertJ o = inv
  generalize oriFlipIJ o = flip
  dsimp only
  have h1 : ∃ adj, (if rev = true then
        if 2 * n ≥ 64 then Outcome.panic PanicKind.shlOverflow
        else if s + 1 > 4 ^ n then Outcome.panic PanicKind.subOverflow else Outcome.ok (4 ^ n - s - 1)
      else Outcome.ok s) = Outcome.ok adj := by
    cases rev
    · exact ⟨_, rfl⟩
    · simp only [if_true]
      rewrite [if_neg (by omega), if_neg (by omega)]
      exact ⟨_, rfl⟩
  obtain ⟨adj, hadj⟩ := h1
  rewrite [hadj]
  simp only [Outcome.bind_ok]
  cases inv
  · exact ⟨_, rfl⟩
  · simp only [if_true]
    rewrite [if_neg (by omega)]
    exact ⟨_, rfl⟩

end A5
