import A5.Lemmas.LookupSkel
/-! # C02, `Float` skeleton of the direct branch of `lonlat_to_cell`

(Separate from `A5/Props/C02.lean`: `A5.Lemmas.LookupSkel` and `A5.Lemmas.HilbertOrient` cannot be imported together.)

All floats are arbitrary values; the statements are about the integer skeleton, for every `lon lat : Float`.

* `lonlatToEstimate_hilbert`: at a curve resolution the estimate is (nearest face, segment of the polar quintant,
  `ij_to_s` of the scaled lattice coordinates `estLattice`, resolution).
* T2 `lookup_direct_hit_is_roundtrip`: if `lonlat_to_cell` answers through branch 0, the id is `serialize` of the estimate
  of the QUERY POINT ITSELF (first sample), whose containment test was positive.
* `roundtrip_of_direct_hit` (converse, the form used for the centre): if the estimate of the point is the cell `c` and the
  model's containment test accepts the point, the lookup returns `serialize c` through branch 0.
* `lookupLoop_branch_ge`: later samples never report branch 0. -/
namespace A5.C02L
open A5

/-- the lattice coordinates handed to `ij_to_s` by `lonlat_to_estimate`: face-plane point `dp`, rotated back by the
quintant, scaled by `2^n`, converted with `faceToIJ` -/
def estLattice (dp : V2) (quintant : Nat) (n : Nat) : Float × Float :=
  let dp : V2 :=
    if quintant != 0 then
      let extra := 2.0 * fc Gen.PI_OVER_5 * Float.ofNat quintant
      let c := (-extra).cos
      let s := (-extra).sin
      ⟨c * dp.x - s * dp.y, s * dp.x + c * dp.y⟩
    else dp
  let scale := Float.ofNat (2 ^ n)
  faceToIJ ⟨dp.x * scale, dp.y * scale⟩

/-- curve depth of resolution `r` -/
def depthOf (r : Int) : Nat := (1 + r - Gen.FIRST_HILBERT_RESOLUTION).toNat

theorem depthOf_eq (r : Int) : depthOf r = (r - 1).toNat := by
  have hF : Gen.FIRST_HILBERT_RESOLUTION = 2 := rfl
  unfold depthOf
  omega

/-- `lonlat_to_estimate` at a curve resolution, in one line -/
theorem lonlatToEstimate_hilbert (lon lat : Float) (r : Int) (h2 : 2 ≤ r) :
    lonlatToEstimate lon lat r =
      (dodecaForward (fromLonLat lon lat).1 (fromLonLat lon lat).2
          (findNearestOrigin (fromLonLat lon lat).1 (fromLonLat lon lat).2).id >>= fun dp =>
        ijToS floatLits (estLattice dp (getQuintantPolar (toPolar dp).2) (depthOf r)).1
            (estLattice dp (getQuintantPolar (toPolar dp).2) (depthOf r)).2 (depthOf r)
            (quintantToSegment (getQuintantPolar (toPolar dp).2)
              (findNearestOrigin (fromLonLat lon lat).1 (fromLonLat lon lat).2)).2 >>= fun s =>
        .ok ⟨(findNearestOrigin (fromLonLat lon lat).1 (fromLonLat lon lat).2).id,
          (quintantToSegment (getQuintantPolar (toPolar dp).2)
            (findNearestOrigin (fromLonLat lon lat).1 (fromLonLat lon lat).2)).1, s, r⟩) := by
  have hF : ¬ r < Gen.FIRST_HILBERT_RESOLUTION := by
    have : Gen.FIRST_HILBERT_RESOLUTION = 2 := rfl
    omega
  unfold lonlatToEstimate
  simp only [if_neg hF]
  rfl

/-- with `seen` non-empty no later answer carries branch 0: the branch tag of a hit is `seen.length` at that moment -/
theorem lookupLoop_branch_ge (lon lat : Float) (r : Int) : ∀ (samples : List (Float × Float)) (seen : List Nat)
    (cells : List (Cell × Float)) (res : LookupResult), lookupLoop lon lat r samples seen cells = .ok res →
    res.branch = -1 ∨ (seen.length : Int) ≤ res.branch := by
  intro samples
  induction samples with
  | nil =>
    intro seen cells res h
    cases cells with
    | nil => rewrite [lookupLoop_nil_nil] at h; cases h
    | cons c0 rest =>
      rewrite [lookupLoop_nil_cons] at h
      cases hs : serialize (firstMax c0 rest).1 with
      | ok id => rewrite [hs] at h; simp only [Outcome.bind_ok] at h; cases h; exact Or.inl rfl
      | err e => rewrite [hs] at h; cases h
      | panic k => rewrite [hs] at h; cases h
  | cons smp samples ih =>
    intro seen cells res h
    obtain ⟨slon, slat⟩ := smp
    rewrite [lookupLoop_cons] at h
    cases he : lonlatToEstimate slon slat r with
    | err e => rewrite [he] at h; cases h
    | panic k => rewrite [he] at h; cases h
    | ok est =>
      rewrite [he] at h
      simp only [Outcome.bind_ok] at h
      cases hk : serialize est with
      | err e => rewrite [hk] at h; cases h
      | panic k => rewrite [hk] at h; cases h
      | ok key =>
        rewrite [hk] at h
        simp only [Outcome.bind_ok] at h
        by_cases hc : seen.contains key = true
        · rewrite [if_pos hc] at h
          exact ih seen cells res h
        · rewrite [if_neg hc] at h
          cases hd : cellContainsPoint est lon lat with
          | err e => rewrite [hd] at h; cases h
          | panic k => rewrite [hd] at h; cases h
          | ok d =>
            rewrite [hd] at h
            simp only [Outcome.bind_ok] at h
            by_cases hpos : d > 0.0
            · rewrite [if_pos hpos] at h
              cases h
              exact Or.inr (Int.le_refl _)
            · rewrite [if_neg hpos] at h
              cases ho : cellDistanceOutside est lon lat with
              | err e => rewrite [ho] at h; cases h
              | panic k => rewrite [ho] at h; cases h
              | ok o =>
                rewrite [ho] at h
                simp only [Outcome.bind_ok] at h
                rcases ih _ _ res h with h1 | h1
                · exact Or.inl h1
                · refine Or.inr ?_
                  rewrite [List.length_append] at h1
                  simp only [List.length_cons, List.length_nil] at h1
                  omega

/-- **T2 `lookup_direct_hit_is_roundtrip`.**  If the lookup answers `⟨id, 0⟩` (branch 0) then `2 ≤ r ≤ 29`, the estimate
of the query point itself is a cell `c` of resolution `r` with a real face and quintant and a position that fits, the
model's containment test of `c` at the query point is positive, and `id = serialize c`; in the words of
`lonlatToEstimate_hilbert`: `id` encodes (nearest face, segment of the quintant, `ij_to_s` of the scaled lattice
coordinates). -/
theorem lookup_direct_hit_is_roundtrip (lon lat : Float) (r : Int) (id : Nat)
    (h : lonlatToCellB lon lat r = .ok ⟨id, 0⟩) :
    2 ≤ r ∧ r ≤ 29 ∧ ∃ c d, lonlatToEstimate lon lat r = .ok c ∧ EstOK r c ∧ serialize c = .ok id ∧
      cellContainsPoint c lon lat = .ok d ∧ d > 0.0 := by
  by_cases hrange : r < -1 ∨ 29 < r
  · rewrite [lonlatToCellB_outOfRange lon lat r hrange] at h; cases h
  have hpost := lonlatToCellB_post lon lat r (by omega) (by omega)
  rewrite [h] at hpost
  obtain ⟨_, _, hbr⟩ := hpost
  have h2 : 2 ≤ r := by
    rcases hbr with ⟨_, _, hb⟩ | ⟨_, _, hb, _⟩ | ⟨h2, _⟩ | ⟨h2, _⟩
    · simp only at hb; omega
    · simp only at hb; omega
    · exact h2
    · exact h2
  refine ⟨h2, by omega, ?_⟩
  rewrite [lonlatToCellB_inRange lon lat r (by omega) (by omega), if_neg (by omega)] at h
  obtain ⟨tail, hps, _⟩ := probeSamples_eq lon lat (1 + r - 2)
  rewrite [hps, lookupLoop_cons] at h
  rcases lonlatToEstimate_cases lon lat r (by omega) with he | ⟨est, he, hest⟩
  · rewrite [he] at h; cases h
  rewrite [he] at h
  simp only [Outcome.bind_ok] at h
  obtain ⟨key, hkey, _, _⟩ := serialize_est r est hest (by omega) (by omega)
  rewrite [hkey] at h
  simp only [Outcome.bind_ok] at h
  rewrite [if_neg (by simp)] at h
  cases hd : cellContainsPoint est lon lat with
  | err e => rewrite [hd] at h; cases h
  | panic k => rewrite [hd] at h; cases h
  | ok d =>
    rewrite [hd] at h
    simp only [Outcome.bind_ok] at h
    by_cases hpos : d > 0.0
    · rewrite [if_pos hpos] at h
      cases h
      exact ⟨est, d, he, hest, hkey, hd, hpos⟩
    · rewrite [if_neg hpos] at h
      cases ho : cellDistanceOutside est lon lat with
      | err e => rewrite [ho] at h; cases h
      | panic k => rewrite [ho] at h; cases h
      | ok o =>
        rewrite [ho] at h
        simp only [Outcome.bind_ok] at h
        rcases lookupLoop_branch_ge lon lat r _ _ _ _ h with h1 | h1
        · simp only at h1; omega
        · simp only [List.nil_append, List.length_cons, List.length_nil] at h1
          omega

/-- **Converse (`roundtrip_of_direct_hit`).**  For a curve resolution: if the estimate of the point is `c` and the
containment test of `c` accepts the point, then the lookup returns the encoding of `c`, through branch 0.  Applied to the
centre of a cell this is the step "centre inside its own lattice triangle and pentagon ⇒ round trip". -/
theorem roundtrip_of_direct_hit (lon lat : Float) (r : Int) (h2 : 2 ≤ r) (hr : r ≤ 29) (c : Cell) (d : Float)
    (he : lonlatToEstimate lon lat r = .ok c) (hd : cellContainsPoint c lon lat = .ok d) (hpos : d > 0.0) :
    ∃ id, serialize c = .ok id ∧ lonlatToCellB lon lat r = .ok ⟨id, 0⟩ ∧ lonlatToCell lon lat r = .ok id ∧
      Layout id ∧ getResolution id = r := by
  rcases lonlatToEstimate_cases lon lat r hr with he' | ⟨est, he', hest⟩
  · rewrite [he] at he'; cases he'
  cases Outcome.ok.inj (he.symm.trans he')
  obtain ⟨key, hkey, hlay, hres⟩ := serialize_est r c hest (by omega) hr
  have hB : lonlatToCellB lon lat r = .ok ⟨key, 0⟩ := by
    rewrite [lonlatToCellB_inRange lon lat r (by omega) hr, if_neg (by omega)]
    obtain ⟨tail, hps, _⟩ := probeSamples_eq lon lat (1 + r - 2)
    rewrite [hps, lookupLoop_cons, he]
    simp only [Outcome.bind_ok]
    rewrite [hkey]
    simp only [Outcome.bind_ok]
    rewrite [if_neg (by simp), hd]
    simp only [Outcome.bind_ok]
    rewrite [if_pos hpos]
    rfl
  refine ⟨key, hkey, hB, ?_, hlay, hres⟩
  rewrite [lonlatToCell_eq, hB]
  rfl

/-- for a valid cell of a curve resolution the encoding is the documented one, so the round trip returns `encNat c` -/
theorem roundtrip_of_direct_hit_valid (lon lat : Float) (c : Cell) (hv : c.Valid) (h2 : 2 ≤ c.res) (d : Float)
    (he : lonlatToEstimate lon lat c.res = .ok c) (hd : cellContainsPoint c lon lat = .ok d) (hpos : d > 0.0) :
    lonlatToCell lon lat c.res = .ok (encNat c) := by
  have h29 : c.res ≤ 29 := by
    rcases hv with ⟨h, _⟩ | ⟨h, _⟩ | ⟨h, _⟩ | ⟨_, h29, _⟩ <;> omega
  obtain ⟨id, hs, _, hl, _⟩ := roundtrip_of_direct_hit lon lat c.res h2 h29 c d he hd hpos
  rewrite [serialize_valid c hv] at hs
  cases Outcome.ok.inj hs
  exact hl

/-! ## non-vacuity -/

/-- the hypotheses of `roundtrip_of_direct_hit` are jointly satisfiable in shape: an estimate cell of resolution 4 -/
example : EstOK 4 ⟨7, 3, 0x2d, 4⟩ := ⟨rfl, by decide, by decide, by decide⟩
/-- the depth of resolution 4 is 3 -/
example : depthOf 4 = 3 := by decide
/-- `lookupLoop_branch_ge` on the empty sample list with one recorded miss: the fallback, branch −1 -/
example (lon lat d : Float) : ∃ res, lookupLoop lon lat 4 [] [5] [(⟨7, 3, 0x2d, 4⟩, d)] = .ok res ∧ res.branch = -1 := by
  rewrite [lookupLoop_nil_cons]
  have h : serialize (firstMax ((⟨7, 3, 0x2d, 4⟩ : Cell), d) []).1 = .ok (encNat ⟨7, 3, 0x2d, 4⟩) :=
    serialize_valid _ (by show (⟨7, 3, 0x2d, 4⟩ : Cell).Valid; decide)
  rewrite [h]
  exact ⟨_, rfl, rfl⟩

end A5.C02L
