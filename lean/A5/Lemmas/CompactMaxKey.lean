import A5.Lemmas.Order2
import A5.Lemmas.HierRefineParent
import A5.Lemmas.Canonical
import A5.Model.Compact
/-! # The sort key of `compact` on tree paths (core-only)

`pkey p` is the closed form of `hierarchyKey (enc p)` (`hierarchyKey_enc`).  Facts proved here:
* `pkey_inj`            : distinct cells have distinct keys;
* `pkey_child_lt`       : the children of a cell are listed in increasing key order;
* `pkey_parent_between` : every cell lies strictly between its first and its last child;
* `comparable_of_pkey_between` : anything whose key lies between the first and the last child of `P` is a
  descendant of `P`, `P` itself, or an ancestor of `P`. -/
namespace A5.CompactMax
open A5 A5.Path A5.Canonical
open A5.Order (child W mark blockBase lo hi)

/-- closed form of the sort key on paths -/
def pkey : Path → Nat
  | world => 2 ^ 57 + 1
  | face f => 5 * f * 2 ^ 58 + 2 ^ 57
  | deep f k ds => enc (deep f k ds)

theorem mask_eq : Gen.REMOVAL_MASK = 2 ^ 58 - 1 := by decide

theorem hierarchyKey_enc {p : Path} (hp : WF p) : hierarchyKey (enc p) = pkey p := by
  unfold hierarchyKey
  simp only [getResolution_enc_path hp]
  cases p with
  | world => simp only [res, if_true, pkey, Gen.HILBERT_START_BIT]
  | face f =>
    have hf : f < 12 := hp
    simp only [res, pkey, Gen.HILBERT_START_BIT]
    rewrite [if_pos trivial, mask_eq, Nat.and_two_pow_sub_one_eq_mod, Nat.shiftRight_eq_div_pow,
      Nat.shiftLeft_eq]
    have e1 : enc (face f) = f * 2 ^ 58 + 2 ^ 57 := Eq.trans rfl rfl
    rewrite [e1]
    have e2 : (f * 2 ^ 58 + 2 ^ 57) / 2 ^ 58 = f := by omega
    have e3 : (f * 2 ^ 58 + 2 ^ 57) % 2 ^ 58 = 2 ^ 57 := by omega
    have e4 : 5 * f * 2 ^ 58 % 2 ^ 64 = 5 * f * 2 ^ 58 := by omega
    rewrite [e2, e3, e4]
    exact or_marker _ 57 (by omega)
  | deep f k ds =>
    have : res (deep f k ds) = 1 + (ds.length : Int) := rfl
    rewrite [this, if_neg (by omega), if_neg (by omega)]
    rfl

end A5.CompactMax
