import A5.Lemmas.Order2
import A5.Lemmas.HierRefineParent
import A5.Lemmas.Canonical
import A5.Model.Compact
/-! # The sort key of `compact` on tree paths (core-only)

`pkey p` is the closed form of `hierarchyKey (enc p)` (`hierarchyKey_enc`).  Facts proved here:
* `pkey_inj`            : distinct cells have distinct keys;
* `pkey_child_lt`       : the children of a cell are listed in increasing key order;
* `pkey_parent_between` : every cell lies strictly between its first and its last child;
* `comparable_of_pkey_between` : anything whose key lies between the first and the last child of `P` is a
  descendant of `P`, `P` itself, or an ancestor of `P`. -/
namespace A5.CompactMax
open A5 A5.Path A5.Canonical
open A5.Order (child W mark blockBase lo hi)

/-- closed form of the sort key on paths -/
def pkey : Path → Nat
  | world => 2 ^ 57 + 1
  | face f => 5 * f * 2 ^ 58 + 2 ^ 57
  | deep f k ds => enc (deep f k ds)

theorem mask_eq : Gen.REMOVAL_MASK = 2 ^ 58 - 1 := by decide

theorem hierarchyKey_world : hierarchyKey 0 = 2 ^ 57 + 1 := by decide

theorem hierarchyKey_enc {p : Path} (hp : WF p) : hierarchyKey (enc p) = pkey p := by
  cases p with
  | world => exact hierarchyKey_world
  | face f =>
    have hf : f < 12 := hp
    unfold hierarchyKey
    simp only [getResolution_enc_path hp]
    simp only [res, pkey, Gen.HILBERT_START_BIT]
    rewrite [if_neg (by omega), if_pos trivial, mask_eq, Nat.and_two_pow_sub_one_eq_mod, Nat.shiftRight_eq_div_pow,
      Nat.shiftLeft_eq, A5.Order.enc_face]
    have e2 : (f * 2 ^ 58 + 2 ^ 57) / 2 ^ 58 = f := by omega
    have e3 : (f * 2 ^ 58 + 2 ^ 57) % 2 ^ 58 = 2 ^ 57 := by omega
    have e4 : 5 * f * 2 ^ 58 % 2 ^ 64 = 5 * f * 2 ^ 58 := Nat.mod_eq_of_lt (by omega)
    rewrite [e2, e3, e4]
    exact or_marker _ 57 (Nat.mul_mod_left _ _)
  | deep f k ds =>
    unfold hierarchyKey
    simp only [getResolution_enc_path hp]
    have : res (deep f k ds) = 1 + (ds.length : Int) := rfl
    rewrite [this, if_neg (by omega), if_neg (by omega)]
    rfl

/-! ### elementary facts -/

theorem below_world (x : Path) : Below world x := by
  refine ⟨res_ge x, ?_⟩
  have : res world = -1 := rfl
  rw [this]
  cases x with
  | world => rfl
  | face f => simp [ancestorAt]
  | deep f k ds => simp [ancestorAt]

theorem below_face_deep (f k : Nat) (ds : List Nat) : Below (face f) (deep f k ds) := by
  refine ⟨by simp only [res]; omega, ?_⟩
  simp [ancestorAt, res]

/-- the id of a `deep` cell lies strictly inside the `2^58`-block named by its six leading bits -/
theorem enc_deep_bounds {f k : Nat} {ds : List Nat} (hp : WF (deep f k ds)) :
    (5 * f + k) * 2 ^ 58 + 2 ≤ enc (deep f k ds) ∧ enc (deep f k ds) + 2 ≤ (5 * f + k) * 2 ^ 58 + 2 ^ 58 := by
  obtain ⟨_, _, hd, hl⟩ := hp
  have h := A5.Order.tail_bounds 0 ds hd (by omega)
  rw [Nat.zero_add, A5.Order.W_zero] at h
  rw [A5.Order.enc_deep]
  omega

theorem enc_deep_even {f k : Nat} {ds : List Nat} (hp : WF (deep f k ds)) : enc (deep f k ds) % 2 = 0 := by
  obtain ⟨_, _, hd, hl⟩ := hp
  rw [A5.Order.enc_deep, A5.Order.W_succ _ hl, Nat.mul_left_comm]
  by_cases h0 : ds.length = 0
  · rw [h0, A5.Order.mark_zero]; omega
  · rw [A5.Order.mark_pos_eq _ (by omega) hl]; omega

theorem pkey_deep (f k : Nat) (ds : List Nat) : pkey (deep f k ds) = enc (deep f k ds) := rfl
theorem pkey_face (f : Nat) : pkey (face f) = 5 * f * 2 ^ 58 + 2 ^ 57 := rfl
theorem pkey_world : pkey world = 2 ^ 57 + 1 := rfl

/-- the key of a base cell is not the id of a `deep` cell -/
theorem face_key_ne_deep (f' : Nat) {f k : Nat} {ds : List Nat} (hp : WF (deep f k ds)) :
    5 * f' * 2 ^ 58 + 2 ^ 57 ≠ enc (deep f k ds) := by
  intro e
  by_cases h0 : ds.length = 0
  · have : ds = [] := List.eq_nil_of_length_eq_zero h0
    subst this
    rw [A5.Order.enc_quintant] at e
    omega
  · have h1 := A5.Order.lo_le_enc hp (by simp only [res]; omega)
    rw [← e] at h1
    have := A5.Order.face_not_in_block f k ds hp (by omega) (5 * f')
    rw [A5.Order.enc_face] at this
    exact this h1

/-! ### K1: the key is injective -/

theorem pkey_inj {p q : Path} (hp : WF p) (hq : WF q) (h : pkey p = pkey q) : p = q := by
  cases p with
  | world =>
    cases q with
    | world => rfl
    | face g => rw [pkey_world, pkey_face] at h; omega
    | deep g j es => rw [pkey_world, pkey_deep] at h; have := enc_deep_even hq; omega
  | face f =>
    cases q with
    | world => rw [pkey_world, pkey_face] at h; omega
    | face g => rw [pkey_face, pkey_face] at h; have : f = g := by omega
                rw [this]
    | deep g j es => rw [pkey_face, pkey_deep] at h; exact absurd h (face_key_ne_deep f hq)
  | deep f k ds =>
    cases q with
    | world => rw [pkey_world, pkey_deep] at h; have := enc_deep_even hp; omega
    | face g => rw [pkey_face, pkey_deep] at h; exact absurd h.symm (face_key_ne_deep g hp)
    | deep g j es => exact enc_injective hp hq h

/-! ### K2: children in increasing key order -/

theorem pkey_child_lt {P : Path} (hP : WF P) (hr : res P ≤ 28) {i j : Nat} (hij : i < j) :
    pkey (child P i) < pkey (child P j) := by
  cases P with
  | world => show pkey (face i) < pkey (face j); rw [pkey_face, pkey_face]; omega
  | face f =>
    show pkey (deep f i []) < pkey (deep f j [])
    rw [pkey_deep, pkey_deep, A5.Order.enc_quintant, A5.Order.enc_quintant]; omega
  | deep f k ds =>
    obtain ⟨_, _, _, hl⟩ := hP
    show pkey (deep f k (ds ++ [i])) < pkey (deep f k (ds ++ [j]))
    rw [pkey_deep, pkey_deep]
    have h1 := A5.Order.enc_child_deep f k ds i hl
    have h2 := A5.Order.enc_child_deep f k ds j hl
    simp only [child] at h1 h2
    rw [h1, h2]
    have := Nat.mul_lt_mul_of_lt_of_le hij (Nat.le_refl (W (ds.length + 1))) (A5.Order.W_pos _)
    omega

/-! ### K3: every cell lies strictly between its first and its last child -/

theorem pkey_parent_between {P : Path} (hP : WF P) (hr : res P ≤ 28) :
    pkey (child P 0) < pkey P ∧ pkey P < pkey (child P (fan (res P) - 1)) := by
  cases P with
  | world =>
    rw [A5.Order.fan_world]
    show pkey (face 0) < pkey world ∧ pkey world < pkey (face (12 - 1))
    rw [pkey_face, pkey_face, pkey_world]; omega
  | face f =>
    rw [A5.Order.fan_face]
    show pkey (deep f 0 []) < pkey (face f) ∧ pkey (face f) < pkey (deep f (5 - 1) [])
    rw [pkey_deep, pkey_deep, A5.Order.enc_quintant, A5.Order.enc_quintant, pkey_face]; omega
  | deep f k ds =>
    rw [A5.Order.fan_deep]
    have := A5.Order.parent_between_children (deep f k ds) hP (by simp only [res]; omega) hr
    exact this

/-! ### K4: what lies between the first and the last child -/

theorem comparable_of_pkey_between {P x : Path} (hP : WF P) (hr : res P ≤ 28) (hx : WF x)
    (h1 : pkey (child P 0) < pkey x) (h2 : pkey x < pkey (child P (fan (res P) - 1))) :
    Below P x ∨ Below x P := by
  cases P with
  | world => exact Or.inl (below_world x)
  | face f =>
    rw [A5.Order.fan_face] at h2
    have e1 : pkey (child (face f) 0) = (5 * f + 0) * 2 ^ 58 + 2 ^ 56 := A5.Order.enc_quintant f 0
    have e2 : pkey (child (face f) (5 - 1)) = (5 * f + (5 - 1)) * 2 ^ 58 + 2 ^ 56 := A5.Order.enc_quintant f _
    rw [e1] at h1; rw [e2] at h2
    cases x with
    | world => exact Or.inr (below_world _)
    | face g =>
      rw [pkey_face] at h1 h2
      have : g = f := by omega
      rw [this]; exact Or.inl (below_refl _)
    | deep g j es =>
      rw [pkey_deep] at h1 h2
      have hb := enc_deep_bounds hx
      obtain ⟨_, hj, _, _⟩ := hx
      have : g = f := by omega
      rw [this]; exact Or.inl (below_face_deep f j es)
  | deep f k ds =>
    rw [A5.Order.fan_deep] at h2
    have hP' := hP
    obtain ⟨hf, hk, hd, hl⟩ := hP
    have hres : res (deep f k ds) = 1 + (ds.length : Int) := rfl
    rw [hres] at hr
    have e1 := A5.Order.enc_child_deep f k ds 0 hl
    have e2 := A5.Order.enc_child_deep f k ds (4 - 1) hl
    have k1 : pkey (child (deep f k ds) 0) = enc (child (deep f k ds) 0) := rfl
    have k2 : pkey (child (deep f k ds) (4 - 1)) = enc (child (deep f k ds) (4 - 1)) := rfl
    rw [k1, e1] at h1; rw [k2, e2] at h2
    have hW := A5.Order.W_succ ds.length hl
    have hm1 := A5.Order.two_mark_le_W (ds.length + 1) (by omega)
    have hm2 := A5.Order.two_le_mark (ds.length + 1) (by omega)
    cases x with
    | world => exact Or.inr (below_world _)
    | face g =>
      rw [pkey_face] at h1 h2
      by_cases h0 : ds.length = 0
      · have : ds = [] := List.eq_nil_of_length_eq_zero h0
        subst this
        simp only [blockBase, A5.Order.value_nil, List.length_nil, Nat.zero_mul, Nat.add_zero] at h1 h2
        simp only [List.length_nil, Nat.zero_add] at hm1 hm2 h1 h2
        have w1 : W 1 = 2 ^ 56 := Eq.trans rfl rfl
        have : g = f := by omega
        rw [this]; exact Or.inr (below_face_deep f k [])
      · exfalso
        have := A5.Order.face_not_in_block f k ds hP' (by omega) (5 * g)
        rw [A5.Order.enc_face] at this
        apply this
        simp only [lo, hi]
        omega
    | deep g j es =>
      rw [pkey_deep] at h1 h2
      have := A5.Order.ancestor_of_enc_bounds hP' hx (by rw [hres]; omega) (by simp only [res]; omega)
        (by simp only [lo]; omega) (by simp only [hi]; omega)
      exact Or.inl this

end A5.CompactMax
