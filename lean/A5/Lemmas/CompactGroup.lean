import A5.Lemmas.CompactKey
import A5.Lemmas.HierRefineParent
/-! # `groupAt` finds exactly the complete sibling runs (core-only)

Closed forms of `isFirstChild` / `getStride`, a specification of the inner loop `siblingsFollow`, and the main
result `groupAt_enc`: on the id of a cell `p` followed by arbitrary ids `rest`, `groupAt` never panics and answers
`true` iff `p` is not the world cell and the ids of **all** children of `parent p`, in id order, are a prefix of
`enc p :: rest` (so `p` is the first child and the next `k-1` entries are its siblings). -/
namespace A5.CompactKey
open A5 A5.Path


theorem and_three_shl (x s : Nat) : x &&& 3 * 2 ^ s = (x / 2 ^ s % 4) * 2 ^ s := by
  apply Nat.eq_of_testBit_eq
  intro i
  have e3 : (3 : Nat) = 2 ^ 2 - 1 := rfl
  have e4 : (4 : Nat) = 2 ^ 2 := rfl
  rw [Nat.testBit_and, Nat.testBit_mul_two_pow, Nat.testBit_mul_two_pow, e4, Nat.testBit_mod_two_pow,
    Nat.testBit_div_two_pow, e3, Nat.testBit_two_pow_sub_one]
  by_cases h : s ≤ i
  · have : s + (i - s) = i := by omega
    simp [h, Bool.and_comm]
  · simp [h]

theorem and_three_shl_eq_zero (x s : Nat) : (x &&& 3 * 2 ^ s == 0) = (x / 2 ^ s % 4 == 0) := by
  rw [and_three_shl]
  have hp : 0 < 2 ^ s := Nat.pow_pos (by omega)
  by_cases h : x / 2 ^ s % 4 = 0
  · simp [h]
  · have : x / 2 ^ s % 4 * 2 ^ s ≠ 0 := Nat.mul_ne_zero h (by omega)
    rw [beq_false_of_ne this, beq_false_of_ne h]



theorem isFirstChild_res0 (id : Nat) : isFirstChild id 0 = .ok (id / 2 ^ 58 % 12 == 0) := by
  simp only [isFirstChild, Gen.HILBERT_START_BIT, Gen.FIRST_CHILD_COUNT_RES0, Nat.shiftRight_eq_div_pow]
  rewrite [if_pos (by omega), if_pos True.intro]
  rfl

theorem isFirstChild_res1 (id : Nat) : isFirstChild id 1 = .ok (id / 2 ^ 58 % 5 == 0) := by
  simp only [isFirstChild, Gen.HILBERT_START_BIT, Gen.FIRST_CHILD_COUNT_RES1, Nat.shiftRight_eq_div_pow]
  rewrite [if_pos (by omega), if_neg (by omega)]
  rfl

/-- resolution `r = n + 1 ≥ 2`: the mask selects the last curve digit -/
theorem isFirstChild_hilbert (id n : Nat) (h1 : 1 ≤ n) (h28 : n ≤ 28) :
    isFirstChild id (1 + (n : Int)) = .ok (id / 2 ^ (58 - 2 * n) % 4 == 0) := by
  simp only [isFirstChild, Gen.MAX_RESOLUTION]
  rewrite [if_neg (by omega), i32Sub_ok _ _ (by omega)]
  simp only [Outcome.bind_ok]
  rewrite [if_neg (by omega)]
  have e : (2 * (30 - (1 + (n : Int))).toNat) % 2 ^ 32 = 58 - 2 * n := by omega
  rewrite [e]
  have hle : 2 ^ (58 - 2 * n) ≤ 2 ^ 56 := Nat.pow_le_pow_right (by omega) (by omega)
  rewrite [u64Shl_ok _ _ (by omega) (by omega)]
  simp only [Outcome.bind_ok]
  rewrite [and_three_shl_eq_zero]
  rfl

theorem getStride_low (r : Int) (h : r < 2) : getStride r = .ok (2 ^ 58) := by
  simp only [getStride, Gen.HILBERT_START_BIT]
  rewrite [if_pos h, u64Shl_ok _ _ (by omega) (by omega), Nat.one_mul]
  rfl

theorem getStride_hilbert (n : Nat) (h1 : 1 ≤ n) (h28 : n ≤ 28) :
    getStride (1 + (n : Int)) = .ok (2 ^ (58 - 2 * n)) := by
  simp only [getStride, Gen.MAX_RESOLUTION]
  rewrite [if_neg (by omega), i32Sub_ok _ _ (by omega)]
  simp only [Outcome.bind_ok]
  rewrite [if_neg (by omega)]
  have e : (2 * (30 - (1 + (n : Int))).toNat) % 2 ^ 32 = 58 - 2 * n := by omega
  rewrite [e]
  have hle : 2 ^ (58 - 2 * n) ≤ 2 ^ 56 := Nat.pow_le_pow_right (by omega) (by omega)
  rewrite [u64Shl_ok _ _ (by omega) (by omega), Nat.one_mul]
  rfl


theorem u64Mul_ok (a b : Nat) (h : a * b < 2 ^ 64) : u64Mul a b = .ok (a * b) := by simp [u64Mul, h]

theorem siblingsFollow_spec (cell stride : Nat) : ∀ (n j : Nat) (rest : List Nat), n ≤ rest.length →
    cell + (j + n) * stride < 2 ^ 64 →
    ∃ b, siblingsFollow cell stride n j rest = .ok b ∧
      (b = true ↔ rest.take n = (List.range n).map (fun i => cell + (j + i) * stride)) := by
  intro n
  induction n with
  | zero => intro j rest _ _; exact ⟨true, rfl, by simp⟩
  | succ n ih =>
    intro j rest hlen hb
    cases rest with
    | nil => simp only [List.length_nil] at hlen; omega
    | cons x xs =>
      simp only [List.length_cons] at hlen
      have h1 : j * stride ≤ (j + (n + 1)) * stride := Nat.mul_le_mul_right _ (by omega)
      simp only [siblingsFollow]
      rewrite [u64Mul_ok _ _ (by omega), Outcome.bind_ok, u64Add_ok _ _ (by omega), Outcome.bind_ok]
      have hr : (List.range (n + 1)).map (fun i => cell + (j + i) * stride) =
          (cell + j * stride) :: (List.range n).map (fun i => cell + (j + 1 + i) * stride) := by
        rewrite [List.range_succ_eq_map, List.map_cons, List.map_map]
        refine List.cons_eq_cons.2 ⟨rfl, List.map_congr_left (fun i _ => ?_)⟩
        show cell + (j + (i + 1)) * stride = cell + (j + 1 + i) * stride
        have : j + (i + 1) = j + 1 + i := by omega
        rewrite [this]; rfl
      rewrite [hr, List.take_succ_cons]
      by_cases hx : x = cell + j * stride
      · rewrite [if_neg (by simpa using hx)]
        have e : j + 1 + n = j + (n + 1) := by omega
        obtain ⟨b, hb1, hb2⟩ := ih (j + 1) xs (by omega) (by rewrite [e]; exact hb)
        refine ⟨b, hb1, hb2.trans ?_⟩
        rewrite [hx]
        exact ⟨fun h => (by rewrite [h]; rfl), fun h => (List.cons.inj h).2⟩
      · rewrite [if_pos hx]
        exact ⟨false, rfl, ⟨fun h => (by cases h), fun h => absurd (List.cons.inj h).1 hx⟩⟩

/-- `groupAt` in terms of the closed forms of its ingredients -/
theorem groupAt_of (c : Nat) (rest : List Nat) (r : Int) (k stride : Nat) (b0 : Bool)
    (hr : getResolution c = r) (hr0 : 0 ≤ r) (hk : expectedChildren r = k) (hk1 : 1 ≤ k)
    (hfc : isFirstChild c r = .ok b0) (hst : getStride r = .ok stride)
    (hbound : b0 = true → c + k * stride < 2 ^ 64) :
    ∃ b, groupAt c rest = .ok (b, k) ∧
      (b = true ↔ b0 = true ∧ (List.range k).map (fun i => c + i * stride) <+: c :: rest) := by
  obtain ⟨m, rfl⟩ : ∃ m, k = m + 1 := ⟨k - 1, by omega⟩
  have hrange : (List.range (m + 1)).map (fun i => c + i * stride) =
      c :: (List.range m).map (fun i => c + (1 + i) * stride) := by
    rewrite [List.range_succ_eq_map, List.map_cons, List.map_map]
    refine List.cons_eq_cons.2 ⟨by omega, List.map_congr_left (fun i _ => ?_)⟩
    show c + (i + 1) * stride = c + (1 + i) * stride
    rewrite [Nat.add_comm i 1]; rfl
  simp only [groupAt, hr, hk]
  rewrite [if_neg (by omega)]
  by_cases hlen : m + 1 ≤ rest.length + 1
  · rewrite [if_pos hlen, hfc, Outcome.bind_ok]
    cases b0 with
    | false =>
      exact ⟨false, rfl, ⟨fun h => (by cases h), fun h => (by cases h.1)⟩⟩
    | true =>
      simp only [if_true]
      rewrite [hst, Outcome.bind_ok]
      have h1 : (1 + m) * stride = (m + 1) * stride := by rewrite [Nat.add_comm]; rfl
      obtain ⟨b, hb1, hb2⟩ := siblingsFollow_spec c stride m 1 rest (by omega)
        (by rewrite [h1]; exact hbound rfl)
      rewrite [Nat.add_sub_cancel, hb1, Outcome.bind_ok]
      refine ⟨b, rfl, hb2.trans ?_⟩
      rewrite [hrange, List.cons_prefix_cons]
      constructor
      · intro h
        refine ⟨True.intro, rfl, ?_⟩
        rewrite [← h]; exact List.take_prefix _ _
      · intro ⟨_, _, h⟩
        have := List.prefix_iff_eq_take.1 h
        rewrite [List.length_map, List.length_range] at this
        exact this.symm
  · rewrite [if_neg hlen]
    refine ⟨false, rfl, ⟨fun h => (by cases h), fun h => ?_⟩⟩
    have := h.2.length_le
    rewrite [List.length_map, List.length_range, List.length_cons] at this
    omega


/-! ### the ids of the children of a cell form an arithmetic progression -/

/-- distance between the ids of consecutive children of `P` -/
def cstride : Path → Nat
  | world => 2 ^ 58
  | face _ => 2 ^ 58
  | deep _ _ ds => 2 ^ (58 - 2 * (ds.length + 1))

theorem range5 : List.range 5 = [0, 1, 2, 3, 4] := by decide
theorem range4 : List.range 4 = [0, 1, 2, 3] := by decide

theorem fan_world : fan (res world) = 12 := by decide
theorem fan_face (f : Nat) : fan (res (face f)) = 5 := rfl
theorem fan_deep (f k : Nat) (ds : List Nat) : fan (res (deep f k ds)) = 4 := by
  rewrite [← length_children, children_deep]; rfl

theorem encD_add (T v j m : Nat) : encD T (4 * v + j) m = encD T (4 * v) m + j * 2 ^ (58 - 2 * m) := by
  simp only [encD, Nat.add_mul]
  omega

theorem children_enc_world :
    (children world).map enc = (List.range (fan (res world))).map (fun i => enc (firstChild world) + i * cstride world) := by
  decide +kernel

theorem children_enc_face (f : Nat) :
    (children (face f)).map enc =
      (List.range (fan (res (face f)))).map (fun i => enc (firstChild (face f)) + i * cstride (face f)) := by
  rewrite [fan_face, range5, children_face]
  simp only [List.map_cons, List.map_nil, firstChild, cstride]
  rewrite [enc_quint, enc_quint, enc_quint, enc_quint, enc_quint]
  simp only [List.cons.injEq, and_true]
  refine ⟨trivial, ?_, ?_, ?_, ?_⟩ <;> omega

theorem children_enc_deep (f k : Nat) (ds : List Nat) :
    (children (deep f k ds)).map enc =
      (List.range (fan (res (deep f k ds)))).map (fun i => enc (firstChild (deep f k ds)) + i * cstride (deep f k ds)) := by
  rewrite [fan_deep, range4, children_deep]
  simp only [List.map_cons, List.map_nil, firstChild, cstride]
  rewrite [enc_deep_snoc, enc_deep_snoc, enc_deep_snoc, enc_deep_snoc]
  rewrite [encD_add _ _ 1, encD_add _ _ 2, encD_add _ _ 3]
  simp only [Nat.add_zero, Nat.zero_mul, Nat.one_mul]

/-- **the children of a cell, in id order, are `first + i·stride`** -/
theorem children_enc (P : Path) :
    (children P).map enc = (List.range (fan (res P))).map (fun i => enc (firstChild P) + i * cstride P) := by
  cases P with
  | world => exact children_enc_world
  | face f => exact children_enc_face f
  | deep f k ds => exact children_enc_deep f k ds

theorem fan_pos (r : Int) : 2 ≤ fan r := by
  unfold fan; split
  · omega
  · split <;> omega

theorem expectedChildren_hilbert (r : Int) (h : 2 ≤ r) : expectedChildren r = 4 := by
  unfold expectedChildren
  rewrite [if_pos (show r ≥ Gen.FIRST_HILBERT_RESOLUTION from h)]
  rfl

theorem expectedChildren_succ (P : Path) : expectedChildren (res P + 1) = fan (res P) := by
  cases P with
  | world => rfl
  | face f => rfl
  | deep f k ds =>
    rewrite [fan_deep]
    exact expectedChildren_hilbert _ (by simp only [res]; omega)

theorem getStride_child (P : Path) (h28 : res P ≤ 28) : getStride (res P + 1) = .ok (cstride P) := by
  cases P with
  | world => exact getStride_low _ (by simp only [res]; omega)
  | face f => exact getStride_low _ (by simp only [res]; omega)
  | deep f k ds =>
    simp only [res] at h28
    have e : res (deep f k ds) + 1 = 1 + ((ds.length + 1 : Nat) : Int) := by simp only [res]; omega
    rewrite [e, getStride_hilbert _ (by omega) (by omega)]
    rfl

theorem encD_digit (T v n : Nat) (h1 : 1 ≤ n) (hn : n ≤ 28) : encD T v n / 2 ^ (58 - 2 * n) % 4 = v % 4 := by
  digits_cases n
  all_goals
    simp only [encD, Nat.reduceMul, Nat.reduceSub, Nat.reduceEqDiff, if_true, if_false]
    omega

/-- `isFirstChild` recognises exactly the first child -/
theorem isFirstChild_child {P c : Path} (hP : WF P) (h28 : res P ≤ 28) (hc : c ∈ children P) :
    ∃ b0, isFirstChild (enc c) (res P + 1) = .ok b0 ∧ (b0 = true ↔ c = firstChild P) := by
  cases P with
  | world =>
    simp only [children, List.mem_map, List.mem_range] at hc
    obtain ⟨j, hj, rfl⟩ := hc
    refine ⟨_, isFirstChild_res0 _, ?_⟩
    have e : enc (face j) / 2 ^ 58 = j := by simp only [enc]; omega
    rewrite [e]
    simp only [firstChild, beq_iff_eq, face.injEq]
    omega
  | face f =>
    simp only [children, List.mem_map, List.mem_range] at hc
    obtain ⟨j, hj, rfl⟩ := hc
    refine ⟨_, isFirstChild_res1 _, ?_⟩
    have e : enc (deep f j []) / 2 ^ 58 = 5 * f + j := by rewrite [enc_quint]; omega
    rewrite [e]
    simp only [firstChild, beq_iff_eq, deep.injEq, true_and, and_true]
    omega
  | deep f k ds =>
    obtain ⟨_, _, hd, hl⟩ := hP
    simp only [res] at h28
    simp only [children, List.mem_map, List.mem_range] at hc
    obtain ⟨d, hd4, rfl⟩ := hc
    have e : res (deep f k ds) + 1 = 1 + ((ds.length + 1 : Nat) : Int) := by simp only [res]; omega
    rewrite [e]
    refine ⟨_, isFirstChild_hilbert _ _ (by omega) (by omega), ?_⟩
    rewrite [enc_deep_snoc, encD_digit _ _ _ (by omega) (by omega)]
    simp only [firstChild, beq_iff_eq, deep.injEq, true_and, List.append_cancel_left_eq, List.cons.injEq, and_true]
    omega

/-- the last child's id is still a 64-bit number (no overflow in the sibling test) -/
theorem children_bound {P : Path} (hP : WF P) (h28 : res P ≤ 28) :
    enc (firstChild P) + fan (res P) * cstride P < 2 ^ 64 := by
  cases P with
  | world => decide +kernel
  | face f =>
    have hf : f < 12 := hP
    rewrite [fan_face]
    simp only [firstChild, cstride]
    rewrite [enc_quint]
    omega
  | deep f k ds =>
    have hwf := hP
    obtain ⟨hf, hk, hd, hl⟩ := hP
    simp only [res] at h28
    rewrite [fan_deep]
    simp only [firstChild, cstride]
    have hw : WF (deep f k (ds ++ [0])) := wf_children hwf (by simp only [res]; omega) (firstChild_mem _)
    have hb := enc_deep_block hw
    have hle : 2 ^ (58 - 2 * (ds.length + 1)) ≤ 2 ^ 56 := Nat.pow_le_pow_right (by omega) (by omega)
    omega

/-- **`groupAt` on a child of `P`**: never panics, reports `fan` = number of children of `P`, and answers `true`
iff the ids of all children of `P` are a prefix of `enc c :: rest`. -/
theorem groupAt_child {P c : Path} (hP : WF P) (h28 : res P ≤ 28) (hc : c ∈ children P) (rest : List Nat) :
    ∃ b, groupAt (enc c) rest = .ok (b, fan (res P)) ∧ (b = true ↔ (children P).map enc <+: enc c :: rest) := by
  have hwc : WF c := wf_children hP (by omega) hc
  have hwf : WF (firstChild P) := wf_children hP (by omega) (firstChild_mem P)
  have hres : res c = res P + 1 := res_children hc
  obtain ⟨b0, hb0, hb0'⟩ := isFirstChild_child hP h28 hc
  have hrp := res_ge P
  obtain ⟨b, hb, hb'⟩ := groupAt_of (enc c) rest (res P + 1) (fan (res P)) (cstride P) b0
    (by rewrite [getResolution_enc_path hwc]; exact hres) (by omega) (expectedChildren_succ P)
    (by have := fan_pos (res P); omega) hb0 (getStride_child P h28)
    (fun h => by rewrite [hb0'.1 h]; exact children_bound hP h28)
  refine ⟨b, hb, hb'.trans ?_⟩
  constructor
  · intro ⟨h1, h2⟩
    rewrite [children_enc P, ← hb0'.1 h1]
    exact h2
  · intro h
    have hfc : c = firstChild P := by
      rewrite [children_eq_firstChild_cons, List.map_cons, List.cons_prefix_cons] at h
      exact (enc_injective hwf hwc h.1).symm
    refine ⟨hb0'.2 hfc, ?_⟩
    rewrite [children_enc P, ← hfc] at h
    exact h

theorem groupAt_world (rest : List Nat) : groupAt (enc world) rest = .ok (false, 0) := by
  have : getResolution (enc world) = -1 := getResolution_enc_path (p := world) trivial
  simp only [groupAt, this]
  rfl

/-- **soundness and completeness of the sibling-run test** (`sibling_run_is_complete_group`) -/
theorem groupAt_enc {p : Path} (hp : WF p) (rest : List Nat) :
    ∃ b k, groupAt (enc p) rest = .ok (b, k) ∧ (p ≠ world → k = fan (res (parent p))) ∧
      (b = true ↔ p ≠ world ∧ (children (parent p)).map enc <+: enc p :: rest) := by
  by_cases hw : p = world
  · subst hw
    exact ⟨false, 0, groupAt_world rest, fun h => absurd rfl h, ⟨fun h => (by cases h), fun h => absurd rfl h.1⟩⟩
  · have hc := mem_children_parent hp hw
    have hP := wf_parent hp
    have h28 : res (parent p) ≤ 28 := by
      have := res_children hc
      have := res_le hp
      omega
    obtain ⟨b, hb, hb'⟩ := groupAt_child hP h28 hc rest
    exact ⟨b, _, hb, fun _ => rfl, hb'.trans ⟨fun h => ⟨hw, h⟩, fun h => h.2⟩⟩

end A5.CompactKey
