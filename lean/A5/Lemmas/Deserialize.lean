import A5.Lemmas.Serialize
/-! `deserialize` / `get_resolution` on encoded cells, the layout predicate as the image of the
encoder, and totality/validity of `deserialize` on arbitrary ids (core-only).

Structure: (1) bit lemmas about the marker, (2) a *closed form* of `deserialize` for every id, split by
the value of `getResolution id`, (3) arithmetic facts about the three layout shapes (28-way case split on
the resolution, `omega` on literal powers of two), (4) the theorems (a)–(g). -/
namespace A5

/-! ### 1. marker bits -/

theorem div_pow_mod_two_of_mod (id a b : Nat) (hab : a < b) (h : id % 2 ^ b = 0) :
    id / 2 ^ a % 2 = 0 := by
  obtain ⟨q, rfl⟩ := Nat.dvd_of_mod_eq_zero h
  obtain ⟨k, rfl⟩ : ∃ k, b = a + (k + 1) := ⟨b - a - 1, by omega⟩
  have e : 2 ^ (a + (k + 1)) * q = 2 ^ a * (2 * (2 ^ k * q)) := by
    rw [Nat.pow_add, Nat.pow_succ, Nat.mul_assoc, Nat.mul_comm (2 ^ k) 2, Nat.mul_assoc]
  rw [e, Nat.mul_div_cancel_left _ (Nat.pow_pos (by omega)), Nat.mul_mod_right]

theorem markerPos_lt (r n : Nat) (h : r < n) (hn : n ≤ 29) : markerPos n < markerPos r := by
  unfold markerPos
  split <;> split <;> omega

/-- (a) if bit `markerPos r` is set and everything below it is zero, the resolution is `r`. -/
theorem resFrom_of_marker (id r : Nat) (h0 : id % 2 ^ markerPos r = 0)
    (h1 : id / 2 ^ markerPos r % 2 = 1) : ∀ n, r < n → n ≤ 30 → resFrom id n = (r : Int) := by
  intro n
  induction n with
  | zero => intro h; omega
  | succ n ih =>
    intro hrn hn
    simp only [resFrom]
    by_cases hnr : n = r
    · subst hnr; rewrite [if_pos h1]; rfl
    · have := div_pow_mod_two_of_mod id (markerPos n) (markerPos r)
        (markerPos_lt r n (by omega) (by omega)) h0
      rewrite [if_neg (by omega)]
      exact ih (by omega) (by omega)

theorem getResolution_of_marker (id r : Nat) (hr : r ≤ 29) (h0 : id % 2 ^ markerPos r = 0)
    (h1 : id / 2 ^ markerPos r % 2 = 1) : getResolution id = (r : Int) := by
  rewrite [getResolution_eq]
  exact resFrom_of_marker id r h0 h1 30 (by omega) (by omega)

theorem resFrom_zero : ∀ n, resFrom 0 n = -1 := by
  intro n
  induction n with
  | zero => rfl
  | succ n ih => simp only [resFrom, Nat.zero_div, Nat.zero_mod]; rewrite [if_neg (by omega)]; exact ih

theorem resFrom_range (id : Nat) : ∀ n, -1 ≤ resFrom id n ∧ resFrom id n < (n : Int) := by
  intro n
  induction n with
  | zero => simp only [resFrom]; omega
  | succ n ih =>
    simp only [resFrom]
    split
    · omega
    · omega

theorem getResolution_range (id : Nat) : -1 ≤ getResolution id ∧ getResolution id ≤ 29 := by
  rewrite [getResolution_eq]
  have := resFrom_range id 30
  omega

/-! ### 2. closed form of `deserialize` by resolution -/

theorem and_removal_mask (id : Nat) : id &&& Gen.REMOVAL_MASK = id % 2 ^ 58 := by
  have e : Gen.REMOVAL_MASK = 2 ^ 58 - 1 := by decide
  rewrite [e]
  exact Nat.and_two_pow_sub_one_eq_mod id 58

theorem deserialize_world (id : Nat) (hr : getResolution id = -1) :
    deserialize id = .ok ⟨0, 0, 0, -1⟩ := by
  simp only [deserialize, hr, if_true]

theorem deserialize_res0 (id : Nat) (hr : getResolution id = 0) :
    deserialize id = if id / 2 ^ 58 ≥ 12 then .err .badOrigin else .ok ⟨id / 2 ^ 58, 0, 0, 0⟩ := by
  simp only [deserialize, hr, numOrigins, Gen.ORIGIN_ORDER, List.length, Gen.FIRST_HILBERT_RESOLUTION,
    Nat.shiftRight_eq_div_pow]
  simp only [Int.reduceNeg, Int.reduceEq, Int.reduceLT, if_true, if_false, Nat.reduceAdd]
  by_cases h : id / 2 ^ 58 ≥ 12
  · rewrite [if_pos h, if_pos h]; simp only [Outcome.bind_err]
  · rewrite [if_neg h, if_neg h]; simp only [Outcome.bind_ok]

theorem deserialize_res1 (id : Nat) (hr : getResolution id = 1) :
    deserialize id = if id / 2 ^ 58 / 5 ≥ 12 then .err .badOrigin
      else .ok ⟨id / 2 ^ 58 / 5, (id / 2 ^ 58 + firstQuintant (id / 2 ^ 58 / 5)) % 5, 0, 1⟩ := by
  simp only [deserialize, hr, numOrigins, Gen.ORIGIN_ORDER, List.length, Gen.FIRST_HILBERT_RESOLUTION,
    Nat.shiftRight_eq_div_pow]
  simp only [Int.reduceNeg, Int.reduceEq, Int.reduceLT, if_true, if_false, Nat.reduceAdd]
  by_cases h : id / 2 ^ 58 / 5 ≥ 12
  · rewrite [if_pos h, if_pos h]; simp only [Outcome.bind_err]
  · rewrite [if_neg h, if_neg h]; simp only [Outcome.bind_ok]

theorem deserialize_hilbert (id : Nat) (r : Int) (h2 : 2 ≤ r) (h29 : r ≤ 29) (hr : getResolution id = r) :
    deserialize id = if id / 2 ^ 58 / 5 ≥ 12 then .err .badOrigin
      else .ok ⟨id / 2 ^ 58 / 5, (id / 2 ^ 58 + firstQuintant (id / 2 ^ 58 / 5)) % 5,
                id % 2 ^ 58 / 2 ^ (60 - 2 * r.toNat), r⟩ := by
  simp only [deserialize, hr, numOrigins, Gen.ORIGIN_ORDER, List.length, Gen.FIRST_HILBERT_RESOLUTION,
    Gen.HILBERT_START_BIT, Nat.shiftRight_eq_div_pow, and_removal_mask, Nat.reduceAdd]
  rewrite [if_neg (by omega), if_neg (by omega)]
  by_cases h : id / 2 ^ 58 / 5 ≥ 12
  · rewrite [if_pos h, if_pos h]; simp only [Outcome.bind_err]
  · rewrite [if_neg h, if_neg h]; simp only [Outcome.bind_ok]
    rewrite [if_neg (by omega), u32Sub_ok _ _ (by omega)]; simp only [Outcome.bind_ok]
    have e : 58 - 2 * (r - 2 + 1).toNat = 60 - 2 * r.toNat := by omega
    rewrite [e]; rfl

/-! ### 3. arithmetic of the three layout shapes -/

theorem shape0_arith (id f : Nat) (hid : id = f * 2 ^ 58 + 2 ^ 57) :
    id % 2 ^ markerPos 0 = 0 ∧ id / 2 ^ markerPos 0 % 2 = 1 ∧ id / 2 ^ 58 = f := by
  simp only [markerPos, ge_iff_le, Nat.reduceLeDiff, if_false, Nat.sub_zero]
  omega

theorem shape1_arith (id t : Nat) (hid : id = t * 2 ^ 58 + 2 ^ 56) :
    id % 2 ^ markerPos 1 = 0 ∧ id / 2 ^ markerPos 1 % 2 = 1 ∧ id / 2 ^ 58 = t := by
  simp only [markerPos, ge_iff_le, Nat.reduceLeDiff, if_false, Nat.reduceSub]
  omega

theorem shapeH_arith (id r t s : Nat) (h2 : 2 ≤ r) (h29 : r ≤ 29) (hs : s < 4 ^ (r - 1))
    (hid : id = t * 2 ^ 58 + s * 2 ^ (60 - 2 * r) + 2 ^ (59 - 2 * r)) :
    id % 2 ^ markerPos r = 0 ∧ id / 2 ^ markerPos r % 2 = 1 ∧ id / 2 ^ 58 = t ∧
      id % 2 ^ 58 / 2 ^ (60 - 2 * r) = s ∧ s * 2 ^ (60 - 2 * r) + 2 ^ (59 - 2 * r) < 2 ^ 58 := by
  have hc : r = 2 ∨ r = 3 ∨ r = 4 ∨ r = 5 ∨ r = 6 ∨ r = 7 ∨ r = 8 ∨ r = 9 ∨ r = 10 ∨ r = 11 ∨ r = 12 ∨ r = 13 ∨ r = 14 ∨ r = 15 ∨ r = 16 ∨ r = 17 ∨ r = 18 ∨ r = 19 ∨ r = 20 ∨ r = 21 ∨ r = 22 ∨ r = 23 ∨ r = 24 ∨ r = 25 ∨ r = 26 ∨ r = 27 ∨ r = 28 ∨ r = 29 := by omega
  rcases hc with rfl|rfl|rfl|rfl|rfl|rfl|rfl|rfl|rfl|rfl|rfl|rfl|rfl|rfl|rfl|rfl|rfl|rfl|rfl|rfl|rfl|rfl|rfl|rfl|rfl|rfl|rfl|rfl
  all_goals
    simp only [markerPos, ge_iff_le, Nat.reduceLeDiff, if_true, Nat.reduceMul, Nat.reduceSub] at hs hid ⊢
    simp only [Nat.reducePow] at hs
    omega

/-- for every id, the Hilbert field extracted by the decoder fits its `2·(r-1)` bits -/
theorem field_lt (id r : Nat) (h2 : 2 ≤ r) (h29 : r ≤ 29) :
    id % 2 ^ 58 / 2 ^ (60 - 2 * r) < 4 ^ (r - 1) := by
  have hc : r = 2 ∨ r = 3 ∨ r = 4 ∨ r = 5 ∨ r = 6 ∨ r = 7 ∨ r = 8 ∨ r = 9 ∨ r = 10 ∨ r = 11 ∨ r = 12 ∨ r = 13 ∨ r = 14 ∨ r = 15 ∨ r = 16 ∨ r = 17 ∨ r = 18 ∨ r = 19 ∨ r = 20 ∨ r = 21 ∨ r = 22 ∨ r = 23 ∨ r = 24 ∨ r = 25 ∨ r = 26 ∨ r = 27 ∨ r = 28 ∨ r = 29 := by omega
  rcases hc with rfl|rfl|rfl|rfl|rfl|rfl|rfl|rfl|rfl|rfl|rfl|rfl|rfl|rfl|rfl|rfl|rfl|rfl|rfl|rfl|rfl|rfl|rfl|rfl|rfl|rfl|rfl|rfl
  all_goals
    simp only [Nat.reduceMul, Nat.reduceSub]
    simp only [Nat.reducePow]
    omega

/-! ### 4. the decoder on the three layout shapes -/

theorem deserialize_shape0 (id f : Nat) (hf : f < 12) (hid : id = f * 2 ^ 58 + 2 ^ 57) :
    getResolution id = 0 ∧ deserialize id = .ok ⟨f, 0, 0, 0⟩ := by
  obtain ⟨a, b, c⟩ := shape0_arith id f hid
  have hr : getResolution id = 0 := getResolution_of_marker id 0 (by omega) a b
  refine ⟨hr, ?_⟩
  rewrite [deserialize_res0 id hr, c, if_neg (by omega)]
  rfl

theorem deserialize_shape1 (id t : Nat) (ht : t < 60) (hid : id = t * 2 ^ 58 + 2 ^ 56) :
    getResolution id = 1 ∧
    deserialize id = .ok ⟨t / 5, (t + firstQuintant (t / 5)) % 5, 0, 1⟩ := by
  obtain ⟨a, b, c⟩ := shape1_arith id t hid
  have hr : getResolution id = 1 := getResolution_of_marker id 1 (by omega) a b
  refine ⟨hr, ?_⟩
  rewrite [deserialize_res1 id hr, c, if_neg (by omega)]
  rfl

theorem deserialize_shapeH (id r t s : Nat) (h2 : 2 ≤ r) (h29 : r ≤ 29) (ht : t < 60)
    (hs : s < 4 ^ (r - 1)) (hid : id = t * 2 ^ 58 + s * 2 ^ (60 - 2 * r) + 2 ^ (59 - 2 * r)) :
    getResolution id = (r : Int) ∧
    deserialize id = .ok ⟨t / 5, (t + firstQuintant (t / 5)) % 5, s, (r : Int)⟩ := by
  obtain ⟨a, b, c, d, _⟩ := shapeH_arith id r t s h2 h29 hs hid
  have hr : getResolution id = (r : Int) := getResolution_of_marker id r h29 a b
  refine ⟨hr, ?_⟩
  rewrite [deserialize_hilbert id (r : Int) (by omega) (by omega) hr, c, Int.toNat_natCast, d,
    if_neg (by omega)]
  rfl

/-! ### 5. the encoder's closed form on the three kinds of valid cells -/

/-- the six leading bits of a res ≥ 1 cell -/
def rot (o seg : Nat) : Nat := 5 * o + (seg + 5 - firstQuintant o) % 5

theorem rot_lt (o seg : Nat) (ho : o < 12) : rot o seg < 60 := by
  unfold rot; omega

theorem rot_div (o seg : Nat) : rot o seg / 5 = o := by
  unfold rot; omega

theorem rot_unrot (o seg : Nat) (ho : o < 12) (hs : seg < 5) :
    (rot o seg + firstQuintant (rot o seg / 5)) % 5 = seg := by
  rewrite [rot_div]
  have hf := firstQuintant_lt o ho
  unfold rot; omega

theorem unrot_rot (t : Nat) (ht : t < 60) :
    rot (t / 5) ((t + firstQuintant (t / 5)) % 5) = t := by
  have hf := firstQuintant_lt (t / 5) (by omega)
  unfold rot; omega

theorem encNat_world : encNat ⟨0, 0, 0, -1⟩ = 0 := by
  simp only [encNat, if_true]

theorem encNat_res0 (o : Nat) : encNat ⟨o, 0, 0, 0⟩ = o * 2 ^ 58 + 2 ^ 57 := by
  simp only [encNat, top6, markerPos, Int.reduceNeg, Int.reduceEq, Int.reduceToNat, if_true, if_false,
    ge_iff_le, Int.reduceLE, Nat.reduceLeDiff, Nat.sub_zero, Nat.add_zero]

theorem encNat_res1 (o seg : Nat) : encNat ⟨o, seg, 0, 1⟩ = rot o seg * 2 ^ 58 + 2 ^ 56 := by
  simp only [encNat, top6, markerPos, rot, Int.reduceNeg, Int.reduceEq, Int.reduceToNat, if_false,
    ge_iff_le, Int.reduceLE, Nat.reduceLeDiff, Nat.reduceSub, Nat.add_zero]

theorem encNat_hilbert (o seg s r : Nat) (h2 : 2 ≤ r) :
    encNat ⟨o, seg, s, (r : Int)⟩ = rot o seg * 2 ^ 58 + s * 2 ^ (60 - 2 * r) + 2 ^ (59 - 2 * r) := by
  simp only [encNat, top6, markerPos, rot, Int.toNat_natCast]
  rewrite [if_neg (show ¬ ((r : Int) = -1) by omega), if_neg (show ¬ ((r : Int) = 0) by omega),
    if_pos (show (r : Int) ≥ 2 by omega), if_pos (show r ≥ 2 by omega)]
  rfl

/-! ### 6. main theorems -/

/-- (b)+(c) together -/
theorem decode_enc (c : Cell) (h : c.Valid) :
    getResolution (encNat c) = c.res ∧ deserialize (encNat c) = .ok c := by
  obtain ⟨o, seg, s, r⟩ := c
  rcases h with ⟨h1, h2, h3, h4⟩ | ⟨h1, h2, h3, h4⟩ | ⟨h1, h2, h3, h4⟩ | ⟨h1, h2, h3, h4, h5⟩
  · simp only at h1 h2 h3 h4; subst h1 h2 h3 h4
    rewrite [encNat_world]
    have hr : getResolution 0 = -1 := by rewrite [getResolution_eq]; exact resFrom_zero 30
    exact ⟨hr, deserialize_world 0 hr⟩
  · simp only at h1 h2 h3 h4; subst h1 h3 h4
    exact deserialize_shape0 _ o h2 (encNat_res0 o)
  · simp only at h1 h2 h3 h4; subst h1 h4
    have := deserialize_shape1 _ (rot o seg) (rot_lt o seg h2) (encNat_res1 o seg)
    rewrite [rot_unrot o seg h2 h3, rot_div] at this
    exact this
  · simp only at h1 h2 h3 h4 h5
    obtain ⟨n, rfl⟩ : ∃ n : Nat, r = (n : Int) := ⟨r.toNat, by omega⟩
    have e : ((n : Int) - 1).toNat = n - 1 := by omega
    rewrite [e] at h5
    have := deserialize_shapeH _ n (rot o seg) s (by omega) (by omega) (rot_lt o seg h3) h5
      (encNat_hilbert o seg s n (by omega))
    rewrite [rot_unrot o seg h3 h4, rot_div] at this
    exact this

/-- (b) -/
theorem getResolution_enc (c : Cell) (h : c.Valid) : getResolution (encNat c) = c.res :=
  (decode_enc c h).1

/-- (c) -/
theorem deserialize_enc (c : Cell) (h : c.Valid) : deserialize (encNat c) = .ok c :=
  (decode_enc c h).2

/-- (d) -/
theorem encNat_injective (c c' : Cell) (h : c.Valid) (h' : c'.Valid) (e : encNat c = encNat c') : c = c' := by
  have a := deserialize_enc c h
  have b := deserialize_enc c' h'
  rewrite [e] at a
  exact Outcome.ok.inj (a.symm.trans b)

theorem Layout.lt (id : Nat) (h : Layout id) : id < 2 ^ 64 := by
  rcases h with rfl | ⟨f, hf, rfl⟩ | ⟨t, ht, rfl⟩ | ⟨r, t, s, h2, h29, ht, hs, hid⟩
  · omega
  · omega
  · omega
  · obtain ⟨_, _, _, _, hlt⟩ := shapeH_arith id r t s h2 h29 hs hid
    omega

/-- `←` of (e) -/
theorem layout_enc (c : Cell) (h : c.Valid) : Layout (encNat c) := by
  obtain ⟨o, seg, s, r⟩ := c
  rcases h with ⟨h1, h2, h3, h4⟩ | ⟨h1, h2, h3, h4⟩ | ⟨h1, h2, h3, h4⟩ | ⟨h1, h2, h3, h4, h5⟩
  · simp only at h1 h2 h3 h4; subst h1 h2 h3 h4
    exact Or.inl encNat_world
  · simp only at h1 h2 h3 h4; subst h1 h3 h4
    exact Or.inr (Or.inl ⟨o, h2, encNat_res0 o⟩)
  · simp only at h1 h2 h3 h4; subst h1 h4
    exact Or.inr (Or.inr (Or.inl ⟨rot o seg, rot_lt o seg h2, encNat_res1 o seg⟩))
  · simp only at h1 h2 h3 h4 h5
    obtain ⟨n, rfl⟩ : ∃ n : Nat, r = (n : Int) := ⟨r.toNat, by omega⟩
    have e : ((n : Int) - 1).toNat = n - 1 := by omega
    rewrite [e] at h5
    exact Or.inr (Or.inr (Or.inr ⟨n, rot o seg, s, by omega, by omega, rot_lt o seg h3, h5,
      encNat_hilbert o seg s n (by omega)⟩))

theorem encNat_lt (c : Cell) (h : c.Valid) : encNat c < 2 ^ 64 := Layout.lt _ (layout_enc c h)

/-- (f) -/
theorem deserialize_layout (id : Nat) (h : Layout id) :
    ∃ c, c.Valid ∧ deserialize id = .ok c ∧ encNat c = id := by
  rcases h with rfl | ⟨f, hf, hid⟩ | ⟨t, ht, hid⟩ | ⟨r, t, s, h2, h29, ht, hs, hid⟩
  · have hr : getResolution 0 = -1 := by rewrite [getResolution_eq]; exact resFrom_zero 30
    exact ⟨⟨0, 0, 0, -1⟩, Or.inl ⟨rfl, rfl, rfl, rfl⟩, deserialize_world 0 hr, encNat_world⟩
  · refine ⟨⟨f, 0, 0, 0⟩, Or.inr (Or.inl ⟨rfl, hf, rfl, rfl⟩), (deserialize_shape0 id f hf hid).2, ?_⟩
    rewrite [encNat_res0]; exact hid.symm
  · have hf := firstQuintant_lt (t / 5) (by omega)
    refine ⟨⟨t / 5, (t + firstQuintant (t / 5)) % 5, 0, 1⟩,
      Or.inr (Or.inr (Or.inl ⟨rfl, by show t / 5 < 12; omega, Nat.mod_lt _ (by omega), rfl⟩)),
      (deserialize_shape1 id t ht hid).2, ?_⟩
    rewrite [encNat_res1, unrot_rot t ht]; exact hid.symm
  · have hf := firstQuintant_lt (t / 5) (by omega)
    have e : ((r : Int) - 1).toNat = r - 1 := by omega
    refine ⟨⟨t / 5, (t + firstQuintant (t / 5)) % 5, s, (r : Int)⟩,
      Or.inr (Or.inr (Or.inr ⟨by show (2 : Int) ≤ r; omega, by show (r : Int) ≤ 29; omega,
        by show t / 5 < 12; omega, Nat.mod_lt _ (by omega), by show s < 4 ^ ((r : Int) - 1).toNat; rewrite [e]; exact hs⟩)),
      (deserialize_shapeH id r t s h2 h29 ht hs hid).2, ?_⟩
    rewrite [encNat_hilbert _ _ _ _ h2, unrot_rot t ht]; exact hid.symm

/-- (e) -/
theorem layout_iff_enc (id : Nat) : Layout id ↔ ∃ c, c.Valid ∧ encNat c = id := by
  constructor
  · intro h
    obtain ⟨c, hv, _, he⟩ := deserialize_layout id h
    exact ⟨c, hv, he⟩
  · rintro ⟨c, hv, rfl⟩
    exact layout_enc c hv

/-! ### 7. arbitrary ids: `deserialize` never panics and only produces valid cells -/

/-- (g) no bound on `id` is needed: the checks on the six leading bits reject everything else. -/
theorem deserialize_ok_valid' (id : Nat) (c : Cell) (h : deserialize id = .ok c) : c.Valid := by
  have hrange := getResolution_range id
  by_cases hm1 : getResolution id = -1
  · rewrite [deserialize_world id hm1] at h
    cases Outcome.ok.inj h
    exact Or.inl ⟨rfl, rfl, rfl, rfl⟩
  by_cases h0 : getResolution id = 0
  · rewrite [deserialize_res0 id h0] at h
    by_cases hb : id / 2 ^ 58 ≥ 12
    · rewrite [if_pos hb] at h; cases h
    · rewrite [if_neg hb] at h
      cases Outcome.ok.inj h
      exact Or.inr (Or.inl ⟨rfl, by show id / 2 ^ 58 < 12; omega, rfl, rfl⟩)
  by_cases hb : id / 2 ^ 58 / 5 ≥ 12
  · by_cases h1 : getResolution id = 1
    · rewrite [deserialize_res1 id h1, if_pos hb] at h; cases h
    · rewrite [deserialize_hilbert id _ (by omega) (by omega) rfl, if_pos hb] at h; cases h
  have hf := firstQuintant_lt (id / 2 ^ 58 / 5) (by omega)
  by_cases h1 : getResolution id = 1
  · rewrite [deserialize_res1 id h1, if_neg hb] at h
    cases Outcome.ok.inj h
    exact Or.inr (Or.inr (Or.inl ⟨rfl, by show id / 2 ^ 58 / 5 < 12; omega, Nat.mod_lt _ (by omega), rfl⟩))
  · rewrite [deserialize_hilbert id _ (by omega) (by omega) rfl, if_neg hb] at h
    cases Outcome.ok.inj h
    refine Or.inr (Or.inr (Or.inr ⟨by show 2 ≤ getResolution id; omega, by show getResolution id ≤ 29; omega,
      by show id / 2 ^ 58 / 5 < 12; omega, Nat.mod_lt _ (by omega), ?_⟩))
    show id % 2 ^ 58 / 2 ^ (60 - 2 * (getResolution id).toNat) < 4 ^ (getResolution id - 1).toNat
    have e : (getResolution id - 1).toNat = (getResolution id).toNat - 1 := by omega
    rewrite [e]
    exact field_lt id _ (by omega) (by omega)

theorem deserialize_ok_valid (id : Nat) (c : Cell) (_hid : id < 2 ^ 64) (h : deserialize id = .ok c) :
    c.Valid := deserialize_ok_valid' id c h

theorem deserialize_never_panics' (id : Nat) : (deserialize id).isPanic = false := by
  have hrange := getResolution_range id
  by_cases hm1 : getResolution id = -1
  · rewrite [deserialize_world id hm1]; rfl
  by_cases h0 : getResolution id = 0
  · rewrite [deserialize_res0 id h0]; split <;> rfl
  by_cases h1 : getResolution id = 1
  · rewrite [deserialize_res1 id h1]; split <;> rfl
  · rewrite [deserialize_hilbert id _ (by omega) (by omega) rfl]; split <;> rfl

theorem deserialize_never_panics (id : Nat) (_hid : id < 2 ^ 64) : (deserialize id).isPanic = false :=
  deserialize_never_panics' id

end A5
