import A5.Model.Codec
/-! The documented ID layout, as explicit arithmetic (read this in a minute):

    world:  0
    res 0:  face·2^58 + 2^57                                   face < 12
    res 1:  t·2^58 + 2^56                                      t = 5·face + k < 60
    res r ≥ 2 (L = r-1 curve levels):
            t·2^58 + s·2^(60-2r) + 2^(59-2r)                   s < 4^L

i.e. 6 bits, then 2 bits per curve level, then one marker bit, then zeros. -/
namespace A5

/-- bit index of the marker of resolution `n` (0..29) -/
def markerPos (n : Nat) : Nat := if n ≥ 2 then 59 - 2 * n else 57 - n

/-- closed form of `get_resolution`: the highest resolution `< n` whose marker bit is set -/
def resFrom (id : Nat) : Nat → Int
  | 0 => -1
  | n + 1 => if id / 2 ^ markerPos n % 2 = 1 then (n : Int) else resFrom id n

/-- a well-formed cell description, in the normal form the decoder produces -/
def Cell.Valid (c : Cell) : Prop :=
  (c.res = -1 ∧ c.origin = 0 ∧ c.segment = 0 ∧ c.s = 0) ∨
  (c.res = 0 ∧ c.origin < 12 ∧ c.segment = 0 ∧ c.s = 0) ∨
  (c.res = 1 ∧ c.origin < 12 ∧ c.segment < 5 ∧ c.s = 0) ∨
  (2 ≤ c.res ∧ c.res ≤ 29 ∧ c.origin < 12 ∧ c.segment < 5 ∧ c.s < 4 ^ (c.res - 1).toNat)

instance (c : Cell) : Decidable c.Valid := by unfold Cell.Valid; infer_instance

/-- the six leading bits: the face at resolution 0, else `5·face + rotated quintant code` -/
def top6 (c : Cell) : Nat :=
  if c.res = 0 then c.origin
  else 5 * c.origin + (c.segment + 5 - firstQuintant c.origin) % 5

/-- the encoder as plain arithmetic -/
def encNat (c : Cell) : Nat :=
  if c.res = -1 then 0
  else top6 c * 2 ^ 58 + (if c.res ≥ 2 then c.s * 2 ^ (60 - 2 * c.res.toNat) else 0)
        + 2 ^ markerPos c.res.toNat

/-- the documented layout as a predicate on 64-bit values -/
def Layout (id : Nat) : Prop :=
  id = 0 ∨
  (∃ f, f < 12 ∧ id = f * 2 ^ 58 + 2 ^ 57) ∨
  (∃ t, t < 60 ∧ id = t * 2 ^ 58 + 2 ^ 56) ∨
  (∃ r t s, 2 ≤ r ∧ r ≤ 29 ∧ t < 60 ∧ s < 4 ^ (r - 1) ∧
      id = t * 2 ^ 58 + s * 2 ^ (60 - 2 * r) + 2 ^ (59 - 2 * r))

end A5
