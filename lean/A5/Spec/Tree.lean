import A5.Spec.Layout
/-! The cell hierarchy as an inductive specification (read this in two minutes).

    world                      resolution -1, 12 children: the faces
    face f          f < 12     resolution  0,  5 children: the quintants `deep f k []`
    deep f k ds     k < 5      resolution 1 + |ds|, 4 children `deep f k (ds ++ [d])`, d < 4
                    ds: base-4 digits, most significant first, at most 28 of them

`k` is the quintant code *as stored in the id* (the six leading bits are `5·f + k`); the segment number
the library reports is `(k + firstQuintant f) % 5`.

`enc` is the 64-bit id of a path; `toCell` the decoded record (`encNat (toCell p) = enc p`).
Everything below `enc` in this file is pure list reasoning: no bit arithmetic. -/
namespace A5

inductive Path where
  | world
  | face (f : Nat)
  | deep (f k : Nat) (ds : List Nat)
  deriving Repr, DecidableEq, Inhabited

namespace Path

/-- well-formed paths = the cells of the grid -/
def WF : Path → Prop
  | world => True
  | face f => f < 12
  | deep f k ds => f < 12 ∧ k < 5 ∧ (∀ d ∈ ds, d < 4) ∧ ds.length ≤ 28

instance : DecidablePred WF := fun p => by cases p <;> unfold WF <;> infer_instance

def res : Path → Int
  | world => -1
  | face _ => 0
  | deep _ _ ds => 1 + ds.length

def parent : Path → Path
  | world => world
  | face _ => world
  | deep f k ds => match ds with
    | [] => face f
    | _ :: _ => deep f k ds.dropLast

def children : Path → List Path
  | world => (List.range 12).map face
  | face f => (List.range 5).map (fun k => deep f k [])
  | deep f k ds => (List.range 4).map (fun d => deep f k (ds ++ [d]))

/-- the ancestor at resolution `r` (`world` for `r < 0`, the path itself for `r ≥ res p`) -/
def ancestorAt : Path → Int → Path
  | world, _ => world
  | face f, r => if r < 0 then world else face f
  | deep f k ds, r =>
    if r < 0 then world else if r = 0 then face f else deep f k (ds.take (r - 1).toNat)

/-- all descendants exactly `n` levels down, in the order "children first" -/
def descend : Nat → Path → List Path
  | 0, p => [p]
  | n + 1, p => (children p).flatMap (descend n)

/-- the descendants at resolution `r` (`[p]` for `r = res p`, nothing for `r < res p`) -/
def descendantsAt (p : Path) (r : Int) : List Path :=
  if r < res p then [] else descend (r - res p).toNat p

/-- number of children of a cell of resolution `r` -/
def fan (r : Int) : Nat := if r < 0 then 12 else if r = 0 then 5 else 4

/-- number of descendants `n` levels below a cell of resolution `r`: `fan r · fan (r+1) ⋯` -/
def fanout : Nat → Int → Nat
  | 0, _ => 1
  | n + 1, r => fan r * fanout n (r + 1)

/-- the number a digit string denotes in base 4 -/
def value (ds : List Nat) : Nat := ds.foldl (fun a d => 4 * a + d) 0

/-- the `n` base-4 digits of `i`, most significant first -/
def digits : Nat → Nat → List Nat
  | 0, _ => []
  | n + 1, i => (i / 4 ^ n) :: digits n (i % 4 ^ n)

/-- the 64-bit id: six bits `5f+k`, two bits per digit, one marker bit, zeros -/
def enc : Path → Nat
  | world => 0
  | face f => f * 2 ^ 58 + 2 ^ 57
  | deep f k ds =>
    (5 * f + k) * 2 ^ 58 + value ds * 2 ^ (58 - 2 * ds.length)
      + (if ds.length = 0 then 2 ^ 56 else 2 ^ (57 - 2 * ds.length))

/-- the record the decoder produces for `enc p` -/
def toCell : Path → Cell
  | world => ⟨0, 0, 0, -1⟩
  | face f => ⟨f, 0, 0, 0⟩
  | deep f k ds => ⟨f, (k + firstQuintant f) % 5, value ds, 1 + ds.length⟩

/-- the quintants of face `f` in the order of their *segment numbers* 0..4 (the order in which
`cell_to_children` produces them): a rotation of the stored codes 0..4. -/
def quintsOrdered (f : Nat) : List Path :=
  (List.range 5).map (fun seg => deep f ((seg + 5 - firstQuintant f) % 5) [])

/-- the descendants at resolution `r` in the order `cell_to_children` produces them: identical to
`descendantsAt` except that below a face the quintants come in segment order. -/
def descendantsOrdered : Path → Int → List Path
  | world, r =>
    if r ≤ 0 then descendantsAt world r
    else (List.range 12).flatMap (fun f => (quintsOrdered f).flatMap (fun q => descendantsAt q r))
  | face f, r =>
    if r ≤ 0 then descendantsAt (face f) r
    else (quintsOrdered f).flatMap (fun q => descendantsAt q r)
  | deep f k ds, r => descendantsAt (deep f k ds) r

/-! ### small list facts (core has no `flatMap_congr`, `Perm.flatMap_left`, `Nodup.map`) -/

theorem flatMap_congr' {α β} {l : List α} {f g : α → List β} (h : ∀ a ∈ l, f a = g a) :
    l.flatMap f = l.flatMap g := by
  induction l with
  | nil => rfl
  | cons a l ih =>
    simp only [List.flatMap_cons]
    rw [h a (by simp), ih (fun b hb => h b (by simp [hb]))]

theorem perm_flatMap_left {α β} {l : List α} {f g : α → List β} (h : ∀ a ∈ l, (f a).Perm (g a)) :
    (l.flatMap f).Perm (l.flatMap g) := by
  induction l with
  | nil => exact List.Perm.refl _
  | cons a l ih =>
    simp only [List.flatMap_cons]
    exact List.Perm.append (h a (by simp)) (ih (fun b hb => h b (by simp [hb])))

theorem nodup_map_of_inj {α β} {l : List α} {f : α → β} (hl : l.Nodup)
    (hf : ∀ a ∈ l, ∀ b ∈ l, f a = f b → a = b) : (l.map f).Nodup := by
  induction l with
  | nil => simp
  | cons a l ih =>
    rw [List.nodup_cons] at hl
    rw [List.map_cons, List.nodup_cons]
    refine ⟨?_, ih hl.2 (fun x hx y hy => hf x (by simp [hx]) y (by simp [hy]))⟩
    intro hm
    obtain ⟨b, hb, hfb⟩ := List.mem_map.1 hm
    have := hf b (by simp [hb]) a (by simp) hfb
    subst this
    exact hl.1 hb

/-- `0..a·m-1` enumerated as `a` blocks of `m` -/
theorem range_mul_map {β} (a m : Nat) (g : Nat → β) :
    (List.range (a * m)).map g = (List.range a).flatMap (fun d => (List.range m).map (fun i => g (d * m + i))) := by
  induction a with
  | zero => simp
  | succ a ih =>
    rw [Nat.succ_mul, List.range_add, List.map_append, ih, List.range_succ, List.flatMap_append]
    simp [List.map_map, Function.comp_def]

/-! ### resolution, children, ancestors -/

theorem res_children {p c : Path} (h : c ∈ children p) : res c = res p + 1 := by
  cases p with
  | world => simp only [children, List.mem_map] at h; obtain ⟨f, _, rfl⟩ := h; simp [res]
  | face f => simp only [children, List.mem_map] at h; obtain ⟨k, _, rfl⟩ := h; simp [res]
  | deep f k ds =>
    simp only [children, List.mem_map] at h; obtain ⟨d, _, rfl⟩ := h
    simp only [res, List.length_append, List.length_singleton]; omega

theorem ancestorAt_children {p c : Path} (h : c ∈ children p) : ancestorAt c (res p) = p := by
  cases p with
  | world => simp only [children, List.mem_map] at h; obtain ⟨f, _, rfl⟩ := h; simp [res, ancestorAt]
  | face f => simp only [children, List.mem_map] at h; obtain ⟨k, _, rfl⟩ := h; simp [res, ancestorAt]
  | deep f k ds =>
    simp only [children, List.mem_map] at h; obtain ⟨d, _, rfl⟩ := h
    have hres : res (deep f k ds) = 1 + (ds.length : Int) := rfl
    rw [hres]; simp only [ancestorAt]
    rw [if_neg (by omega), if_neg (by omega)]
    have : (1 + (ds.length : Int) - 1).toNat = ds.length := by omega
    rw [this, List.take_left' rfl]

theorem ancestorAt_self (p : Path) (r : Int) (h : res p ≤ r) : ancestorAt p r = p := by
  cases p with
  | world => rfl
  | face f => simp only [res] at h; simp only [ancestorAt]; rw [if_neg (by omega)]
  | deep f k ds =>
    simp only [res] at h; simp only [ancestorAt]
    rw [if_neg (by omega), if_neg (by omega), List.take_of_length_le (by omega)]

theorem res_ancestorAt (p : Path) (r : Int) (h1 : -1 ≤ r) (h2 : r ≤ res p) : res (ancestorAt p r) = r := by
  cases p with
  | world => simp only [res] at h2; simp only [ancestorAt, res]; omega
  | face f =>
    simp only [res] at h2; simp only [ancestorAt]
    by_cases h : r < 0
    · rw [if_pos h]; simp only [res]; omega
    · rw [if_neg h]; simp only [res]; omega
  | deep f k ds =>
    simp only [res] at h2; simp only [ancestorAt]
    by_cases h : r < 0
    · rw [if_pos h]; simp only [res]; omega
    · rw [if_neg h]
      by_cases h0 : r = 0
      · rw [if_pos h0]; simp only [res]; omega
      · rw [if_neg h0]; simp only [res, List.length_take]; omega

/-- ancestor lookup composes -/
theorem ancestorAt_ancestorAt (p : Path) (a b : Int) (h : b ≤ a) :
    ancestorAt (ancestorAt p a) b = ancestorAt p b := by
  cases p with
  | world => rfl
  | face f =>
    simp only [ancestorAt]
    by_cases ha : a < 0
    · rw [if_pos ha, if_pos (by omega)]
    · rw [if_neg ha]
  | deep f k ds =>
    simp only [ancestorAt]
    by_cases ha : a < 0
    · rw [if_pos ha, if_pos (by omega)]
    · rw [if_neg ha]
      by_cases ha0 : a = 0
      · rw [if_pos ha0]; simp only [ancestorAt]
        by_cases hb : b < 0
        · rw [if_pos hb, if_pos hb]
        · rw [if_neg hb, if_neg hb, if_pos (by omega)]
      · rw [if_neg ha0]; simp only [ancestorAt]
        by_cases hb : b < 0
        · rw [if_pos hb, if_pos hb]
        · rw [if_neg hb, if_neg hb]
          by_cases hb0 : b = 0
          · rw [if_pos hb0, if_pos hb0]
          · rw [if_neg hb0, if_neg hb0, List.take_take]
            have : min (b - 1).toNat (a - 1).toNat = (b - 1).toNat := by omega
            rw [this]

theorem wf_ancestorAt {p : Path} (hp : WF p) (r : Int) : WF (ancestorAt p r) := by
  cases p with
  | world => trivial
  | face f => simp only [ancestorAt]; split <;> first | trivial | exact hp
  | deep f k ds =>
    obtain ⟨hf, hk, hd, hl⟩ := hp
    simp only [ancestorAt]
    split
    · trivial
    · split
      · exact hf
      · exact ⟨hf, hk, fun d hd' => hd d (List.mem_of_mem_take hd'), by simp only [List.length_take]; omega⟩

theorem wf_children {p c : Path} (hp : WF p) (hr : res p < 29) (h : c ∈ children p) : WF c := by
  cases p with
  | world =>
    simp only [children, List.mem_map, List.mem_range] at h; obtain ⟨f, hf, rfl⟩ := h; exact hf
  | face f =>
    simp only [children, List.mem_map, List.mem_range] at h; obtain ⟨k, hk, rfl⟩ := h
    exact ⟨hp, hk, by simp, by simp⟩
  | deep f k ds =>
    obtain ⟨hf, hk, hd, hl⟩ := hp
    simp only [res] at hr
    simp only [children, List.mem_map, List.mem_range] at h; obtain ⟨d, hd4, rfl⟩ := h
    refine ⟨hf, hk, ?_, by simp only [List.length_append, List.length_singleton]; omega⟩
    intro x hx
    rcases List.mem_append.1 hx with hx | hx
    · exact hd x hx
    · simp only [List.mem_singleton] at hx; omega

/-- one step up from any level: the next ancestor is a child of the previous one -/
theorem ancestorAt_succ_mem_children {q : Path} (hq : WF q) (r : Int) (h1 : -1 ≤ r) (h2 : r < res q) :
    ancestorAt q (r + 1) ∈ children (ancestorAt q r) := by
  cases q with
  | world => simp only [res] at h2; omega
  | face f =>
    simp only [res] at h2
    have : r = -1 := by omega
    subst this
    have e1 : ancestorAt (face f) (-1 + 1) = face f := by simp [ancestorAt]
    have e2 : ancestorAt (face f) (-1) = world := by simp [ancestorAt]
    rw [e1, e2]
    exact List.mem_map.2 ⟨f, List.mem_range.2 hq, rfl⟩
  | deep f k ds =>
    obtain ⟨hf, hk, hd, hl⟩ := hq
    simp only [res] at h2
    by_cases hr : r < 0
    · have : r = -1 := by omega
      subst this
      have e1 : ancestorAt (deep f k ds) (-1 + 1) = face f := by simp [ancestorAt]
      have e2 : ancestorAt (deep f k ds) (-1) = world := by simp [ancestorAt]
      rw [e1, e2]
      exact List.mem_map.2 ⟨f, List.mem_range.2 hf, rfl⟩
    · by_cases h0 : r = 0
      · subst h0
        have e1 : ancestorAt (deep f k ds) (0 + 1) = deep f k [] := by simp [ancestorAt]
        have e2 : ancestorAt (deep f k ds) 0 = face f := by simp [ancestorAt]
        rw [e1, e2]
        exact List.mem_map.2 ⟨k, List.mem_range.2 hk, rfl⟩
      · obtain ⟨m, hm⟩ : ∃ m : Nat, r = m + 1 := ⟨(r - 1).toNat, by omega⟩
        subst hm
        have hm : m < ds.length := by omega
        have e1 : ancestorAt (deep f k ds) ((m:Int) + 1 + 1) = deep f k (ds.take (m+1)) := by
          simp only [ancestorAt]; rw [if_neg (by omega), if_neg (by omega)]
          have : ((m : Int) + 1 + 1 - 1).toNat = m + 1 := by omega
          rw [this]
        have e2 : ancestorAt (deep f k ds) ((m:Int) + 1) = deep f k (ds.take m) := by
          simp only [ancestorAt]; rw [if_neg (by omega), if_neg (by omega)]
          have : ((m : Int) + 1 - 1).toNat = m := by omega
          rw [this]
        rw [e1, e2]
        simp only [children]
        refine List.mem_map.2 ⟨ds[m], List.mem_range.2 (hd _ (List.getElem_mem hm)), ?_⟩
        rw [List.take_succ_eq_append_getElem hm]

theorem children_nodup (p : Path) : (children p).Nodup := by
  cases p with
  | world =>
    exact nodup_map_of_inj List.nodup_range (fun a _ b _ h => by injection h)
  | face f =>
    exact nodup_map_of_inj List.nodup_range (fun a _ b _ h => by injection h)
  | deep f k ds =>
    refine nodup_map_of_inj List.nodup_range (fun a _ b _ h => ?_)
    injection h with _ _ h
    have := List.append_cancel_left h
    injection this

theorem length_children (p : Path) : (children p).length = fan (res p) := by
  cases p with
  | world => simp [children, fan, res]
  | face f => simp [children, fan, res]
  | deep f k ds =>
    have hres : res (deep f k ds) = 1 + (ds.length : Int) := rfl
    rw [hres]
    simp only [children, fan, List.length_map, List.length_range]
    rw [if_neg (by omega), if_neg (by omega)]

/-! ### descendants -/

theorem descend_one (p : Path) : descend 1 p = children p := by
  simp [descend]

theorem descend_add (a b : Nat) (p : Path) :
    descend (a + b) p = (descend a p).flatMap (descend b) := by
  induction a generalizing p with
  | zero => simp [descend]
  | succ a ih =>
    have : a + 1 + b = (a + b) + 1 := by omega
    rw [this]
    simp only [descend]
    rw [List.flatMap_assoc]
    exact flatMap_congr' (fun c _ => ih c)

theorem res_descend {n : Nat} {p d : Path} (h : d ∈ descend n p) : res d = res p + n := by
  induction n generalizing p with
  | zero => simp only [descend, List.mem_singleton] at h; subst h; simp
  | succ n ih =>
    simp only [descend, List.mem_flatMap] at h
    obtain ⟨c, hc, hd⟩ := h
    rw [ih hd, res_children hc]; omega

theorem ancestorAt_descend {n : Nat} {p d : Path} (h : d ∈ descend n p) : ancestorAt d (res p) = p := by
  induction n generalizing p with
  | zero =>
    simp only [descend, List.mem_singleton] at h; subst h
    exact ancestorAt_self _ _ (Int.le_refl _)
  | succ n ih =>
    simp only [descend, List.mem_flatMap] at h
    obtain ⟨c, hc, hd⟩ := h
    have h1 := ih hd
    have h2 := ancestorAt_children hc
    rw [← ancestorAt_ancestorAt d (res c) (res p) (by rw [res_children hc]; omega), h1, h2]

theorem wf_descend {n : Nat} {p d : Path} (hp : WF p) (hr : res p + n ≤ 29) (h : d ∈ descend n p) : WF d := by
  induction n generalizing p with
  | zero => simp only [descend, List.mem_singleton] at h; subst h; exact hp
  | succ n ih =>
    simp only [descend, List.mem_flatMap] at h
    obtain ⟨c, hc, hd⟩ := h
    have hrc := res_children hc
    exact ih (wf_children hp (by omega) hc) (by omega) hd

/-- descendants are pairwise distinct -/
theorem descend_nodup (n : Nat) (p : Path) : (descend n p).Nodup := by
  induction n generalizing p with
  | zero => simp [descend]
  | succ n ih =>
    simp only [descend, List.Nodup, List.pairwise_flatMap]
    refine ⟨fun c _ => ih c, ?_⟩
    refine List.Pairwise.imp_of_mem ?_ (children_nodup p)
    intro c c' hc hc' hne x hx y hy hxy
    subst hxy
    apply hne
    rw [← ancestorAt_descend hx, ← ancestorAt_descend hy, res_children hc, res_children hc']

/-- as many as the hierarchy dictates -/
theorem length_descend (n : Nat) (p : Path) : (descend n p).length = fanout n (res p) := by
  induction n generalizing p with
  | zero => simp [descend, fanout]
  | succ n ih =>
    simp only [descend, fanout, List.length_flatMap]
    have : (children p).map (fun c => (descend n c).length) = (children p).map (fun _ => fanout n (res p + 1)) :=
      List.map_congr_left (fun c hc => by rw [ih c, res_children hc])
    rw [this, List.map_const', List.sum_replicate_nat, length_children]

/-- completeness: a well-formed path `n` levels below `p` whose ancestor is `p` is listed -/
theorem mem_descend_of_ancestor {n : Nat} {p q : Path} (hq : WF q) (hp : -1 ≤ res p) (hr : res q = res p + n)
    (ha : ancestorAt q (res p) = p) : q ∈ descend n p := by
  induction n generalizing p with
  | zero => rw [ancestorAt_self q _ (by omega)] at ha; subst ha; simp [descend]
  | succ n ih =>
    simp only [descend, List.mem_flatMap]
    have hc := ancestorAt_succ_mem_children hq (res p) hp (by omega)
    rw [ha] at hc
    refine ⟨_, hc, ih ?_ ?_ ?_⟩
    · rw [res_children hc]; omega
    · rw [res_children hc]; omega
    · rw [res_children hc]

theorem res_ge (p : Path) : -1 ≤ res p := by
  cases p <;> simp only [res] <;> omega

theorem descendantsAt_self (p : Path) : descendantsAt p (res p) = [p] := by
  simp [descendantsAt, descend]

theorem descendantsAt_of_le {p : Path} {r : Int} (h : res p ≤ r) :
    descendantsAt p r = descend (r - res p).toNat p := by
  simp only [descendantsAt]; rw [if_neg (by omega)]

theorem descendantsAt_of_lt {p : Path} {r : Int} (h : r < res p) : descendantsAt p r = [] := by
  simp only [descendantsAt]; rw [if_pos h]

/-- descendants are pairwise distinct -/
theorem descendantsAt_nodup (p : Path) (r : Int) : (descendantsAt p r).Nodup := by
  simp only [descendantsAt]; split
  · simp
  · exact descend_nodup _ _

/-- exactly as many as the hierarchy dictates: the product of the fan-outs 12, 5, 4, 4, … -/
theorem length_descendantsAt (p : Path) (r : Int) (h : res p ≤ r) :
    (descendantsAt p r).length = fanout (r - res p).toNat (res p) := by
  rw [descendantsAt_of_le h, length_descend]

/-- every descendant has the target resolution and `p` as its ancestor -/
theorem res_of_mem_descendantsAt {p d : Path} {r : Int} (h : d ∈ descendantsAt p r) : res d = r := by
  simp only [descendantsAt] at h
  split at h
  · simp at h
  · rw [res_descend h]; omega

theorem ancestorAt_of_mem_descendantsAt {p d : Path} {r : Int} (h : d ∈ descendantsAt p r) :
    ancestorAt d (res p) = p := by
  simp only [descendantsAt] at h
  split at h
  · simp at h
  · exact ancestorAt_descend h

theorem wf_of_mem_descendantsAt {p d : Path} {r : Int} (hp : WF p) (hr : r ≤ 29) (h : d ∈ descendantsAt p r) :
    WF d := by
  simp only [descendantsAt] at h
  split at h
  · simp at h
  · exact wf_descend hp (by omega) h

/-- membership in `descendantsAt`, for well-formed paths: right resolution and `p` as ancestor -/
theorem mem_descendantsAt_iff {p q : Path} {r : Int} (hp : WF p) (hq : WF q) (hr : res p ≤ r) (hr29 : r ≤ 29) :
    q ∈ descendantsAt p r ↔ res q = r ∧ ancestorAt q (res p) = p := by
  constructor
  · exact fun h => ⟨res_of_mem_descendantsAt h, ancestorAt_of_mem_descendantsAt h⟩
  · intro ⟨h1, h2⟩
    rw [descendantsAt_of_le hr]
    exact mem_descend_of_ancestor hq (res_ge p) (by omega) h2

/-- `descendantsAt` composes: descendants of descendants are the descendants at the deeper level -/
theorem descendantsAt_flatMap (p : Path) (a b : Int) (h1 : res p ≤ a) (h2 : a ≤ b) :
    (descendantsAt p a).flatMap (fun d => descendantsAt d b) = descendantsAt p b := by
  rw [descendantsAt_of_le (by omega : res p ≤ b)]
  have : (b - res p).toNat = (a - res p).toNat + (b - a).toNat := by omega
  rw [this, descend_add, ← descendantsAt_of_le h1]
  refine flatMap_congr' (fun d hd => ?_)
  have := res_of_mem_descendantsAt hd
  rw [descendantsAt_of_le (by omega), this]

/-- children are the descendants one level down -/
theorem descendantsAt_succ (p : Path) : descendantsAt p (res p + 1) = children p := by
  rw [descendantsAt_of_le (by omega)]
  have : (res p + 1 - res p).toNat = 1 := by omega
  rw [this, descend_one]

/-- the children of all cells of resolution `r` enumerate resolution `r + 1` (exactly once, by
`descendantsAt_nodup`) -/
theorem flatMap_children_level (r : Int) (h : -1 ≤ r) :
    (descendantsAt world r).flatMap children = descendantsAt world (r + 1) := by
  rw [← descendantsAt_flatMap world r (r + 1) (by simp only [res]; omega) (by omega)]
  refine flatMap_congr' (fun d hd => ?_)
  rw [← res_of_mem_descendantsAt hd, descendantsAt_succ]

/-- every cell of resolution `r` is listed below the world cell -/
theorem mem_descendantsAt_world {q : Path} (hq : WF q) (h29 : res q ≤ 29) : q ∈ descendantsAt world (res q) := by
  refine (mem_descendantsAt_iff (p := world) trivial hq (res_ge q) h29).2 ⟨rfl, ?_⟩
  cases q <;> simp [ancestorAt, res]

/-! ### parents -/

theorem parent_eq_ancestorAt (p : Path) : parent p = ancestorAt p (res p - 1) := by
  cases p with
  | world => rfl
  | face f => simp [parent, ancestorAt, res]
  | deep f k ds =>
    cases ds with
    | nil => simp [parent, ancestorAt, res]
    | cons d ds =>
      have hres : res (deep f k (d :: ds)) = 1 + ((ds.length + 1 : Nat) : Int) := rfl
      rw [hres]
      simp only [parent, ancestorAt]
      rw [if_neg (by omega), if_neg (by omega), List.dropLast_eq_take]
      have : (1 + ((ds.length + 1 : Nat) : Int) - 1 - 1).toNat = (d :: ds).length - 1 := by
        simp only [List.length_cons]; omega
      rw [this]

/-- every non-world cell is among its parent's children … -/
theorem mem_children_parent {p : Path} (hp : WF p) (h : p ≠ world) : p ∈ children (parent p) := by
  have hr : 0 ≤ res p := by cases p <;> simp only [res] <;> first | omega | exact absurd rfl h
  have := ancestorAt_succ_mem_children hp (res p - 1) (by omega) (by omega)
  rw [parent_eq_ancestorAt]
  have e : res p - 1 + 1 = res p := by omega
  rw [e, ancestorAt_self p _ (Int.le_refl _)] at this
  exact this

/-- … and of no other cell: exactly one parent -/
theorem parent_unique {p q : Path} (h : p ∈ children q) : q = parent p := by
  rw [parent_eq_ancestorAt, res_children h]
  have e : res q + 1 - 1 = res q := by omega
  rw [e, ancestorAt_children h]

theorem wf_parent {p : Path} (hp : WF p) : WF (parent p) := by
  rw [parent_eq_ancestorAt]; exact wf_ancestorAt hp _

theorem existsUnique_parent {p : Path} (hp : WF p) (h : p ≠ world) :
    ∃ q, (WF q ∧ p ∈ children q) ∧ ∀ q', WF q' ∧ p ∈ children q' → q' = q :=
  ⟨parent p, ⟨wf_parent hp, mem_children_parent hp h⟩, fun _ h' => parent_unique h'.2⟩

/-! ### the order `cell_to_children` uses is a rearrangement -/

theorem quintsOrdered_perm (f : Nat) (hf : f < 12) : (quintsOrdered f).Perm (children (face f)) := by
  have key : ∀ c, c < 5 → ((List.range 5).map (fun seg => (seg + 5 - c) % 5)).Perm (List.range 5) := by
    intro c hc
    have hc' : c = 0 ∨ c = 1 ∨ c = 2 ∨ c = 3 ∨ c = 4 := by omega
    rcases hc' with rfl | rfl | rfl | rfl | rfl <;> exact List.isPerm_iff.1 (by decide)
  have hq : firstQuintant f < 5 := by
    have : ∀ o, o < 12 → firstQuintant o < 5 := by decide +kernel
    exact this f hf
  have := (key _ hq).map (fun k => deep f k [])
  simpa [quintsOrdered, children, List.map_map, Function.comp_def] using this

theorem descendantsOrdered_perm (p : Path) (hp : WF p) (r : Int) :
    (descendantsOrdered p r).Perm (descendantsAt p r) := by
  have face_case : ∀ f, f < 12 → 0 < r →
      ((quintsOrdered f).flatMap (fun q => descendantsAt q r)).Perm (descendantsAt (face f) r) := by
    intro f hf hr
    rw [← descendantsAt_flatMap (face f) 1 r (by simp [res]) (by omega)]
    have : descendantsAt (face f) 1 = children (face f) := descendantsAt_succ (face f)
    rw [this]
    exact List.Perm.flatMap_right _ (quintsOrdered_perm f hf)
  cases p with
  | world =>
    simp only [descendantsOrdered]
    split
    · exact List.Perm.refl _
    · rename_i h
      rw [← descendantsAt_flatMap world 0 r (by simp [res]) (by omega)]
      have : descendantsAt world 0 = children world := descendantsAt_succ world
      rw [this]
      simp only [children, List.flatMap_map]
      exact perm_flatMap_left (fun f hf => face_case f (List.mem_range.1 hf) (by omega))
  | face f =>
    simp only [descendantsOrdered]
    split
    · exact List.Perm.refl _
    · exact face_case f hp (by omega)
  | deep f k ds => exact List.Perm.refl _

theorem mem_descendantsOrdered_iff (p : Path) (hp : WF p) (r : Int) (q : Path) :
    q ∈ descendantsOrdered p r ↔ q ∈ descendantsAt p r :=
  (descendantsOrdered_perm p hp r).mem_iff

theorem descendantsOrdered_nodup (p : Path) (hp : WF p) (r : Int) : (descendantsOrdered p r).Nodup :=
  (descendantsOrdered_perm p hp r).nodup_iff.2 (descendantsAt_nodup p r)

theorem length_descendantsOrdered (p : Path) (hp : WF p) (r : Int) :
    (descendantsOrdered p r).length = (descendantsAt p r).length :=
  (descendantsOrdered_perm p hp r).length_eq

end Path
end A5
