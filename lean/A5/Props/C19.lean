import A5.Lemmas.RealGeo
import A5.Lemmas.AuthalicCompose
import Mathlib.Tactic.FieldSimp
/-! # C19 — geodetic ⇄ authalic latitude and lon/lat ⇄ sphere

Model: `A5.applyCoefficients`, `A5.authalicForward`, `A5.authalicInverse`, `A5.fromLonLat`, `A5.toLonLat`
(`A5/Model/Geo.lean`, at `Float`).  Method: the generic twins `A5.G.applyCoefficientsG`, `A5.G.scaleG`,
`A5.G.fromLonLatG`, `A5.G.toLonLatG` (`A5/Model/GenericGeo.lean`) are the *same expression trees* with the
scalar type abstract; the tie lemmas (all `rfl`)

* `A5.G.applyCoefficients_tie`, `A5.G.authalicForward_tie`, `A5.G.authalicInverse_tie`,
* `A5.G.degToRad_tie`, `A5.G.radToDeg_tie`, `A5.G.fromLonLat_tie`, `A5.G.toLonLat_tie`

say that the float model *is* the twin at `α := Float` with `Float.sin`, `Float.cos`, the literal `2.0` and
the generated constants.  The theorems below are about the twin at `ℝ` (`Real.sin`, `Real.cos`) with
arbitrary coefficients, resp. with the exact rational values of the generated coefficients
(`A5.RealGeo.authalicForwardR`, `authalicInverseR`).

**Finding (T4).**  The recurrence in `apply_coefficients` is *not* Clenshaw's summation of
`φ + Σ_{k=1..6} c_k sin 2kφ`: its second step `u1 = x*u0 + c[3]` lacks the term `− c[5]`.  What it
evaluates is the series whose `sin 8φ` coefficient is `c_4 + c_6` (`clenshaw_is_fourier`); the difference to
the intended series is exactly `c_6 · sin 8φ` (`clenshaw_is_fourier_statement_false`,
`clenshaw_defect_bound`): at most `|c_6|`, i.e. `6.7·10^-18` rad (forward) and `4.9·10^-17` rad (inverse)
with the generated tables — below `f64` resolution at these magnitudes, so numerically harmless, but the
intended identity is false as stated. -/
namespace A5.C19
open A5 A5.G A5.RealGeo

/-! ## T1–T3: symmetry and fixed points, for ANY coefficients -/

/-- T1. The conversion is odd. -/
theorem authalic_odd (c1 c2 c3 c4 c5 c6 φ : ℝ) :
    applyCoefficientsG Real.sin Real.cos 2 (-φ) c1 c2 c3 c4 c5 c6 =
      -applyCoefficientsG Real.sin Real.cos 2 φ c1 c2 c3 c4 c5 c6 :=
  authalicR_neg c1 c2 c3 c4 c5 c6 φ

/-- T2. The equator is fixed. -/
theorem authalic_fixes_equator (c1 c2 c3 c4 c5 c6 : ℝ) :
    applyCoefficientsG Real.sin Real.cos 2 0 c1 c2 c3 c4 c5 c6 = 0 :=
  authalicR_zero c1 c2 c3 c4 c5 c6

/-- T3. The poles are fixed (the factor `sin φ · cos φ` vanishes). -/
theorem authalic_fixes_poles (c1 c2 c3 c4 c5 c6 : ℝ) :
    applyCoefficientsG Real.sin Real.cos 2 (Real.pi / 2) c1 c2 c3 c4 c5 c6 = Real.pi / 2 ∧
    applyCoefficientsG Real.sin Real.cos 2 (-(Real.pi / 2)) c1 c2 c3 c4 c5 c6 = -(Real.pi / 2) :=
  ⟨authalicR_pi_div_two c1 c2 c3 c4 c5 c6, authalicR_neg_pi_div_two c1 c2 c3 c4 c5 c6⟩

/-- T1–T3 hold over any commutative ring for any `sin`, `cos` with `sin` odd and `cos` even: they do not
depend on the series identity T4. -/
theorem authalic_odd_generic {R : Type} [CommRing R] (sin cos : R → R) (two : R)
    (hs : ∀ x, sin (-x) = -sin x) (hc : ∀ x, cos (-x) = cos x) (φ c1 c2 c3 c4 c5 c6 : R) :
    applyCoefficientsG sin cos two (-φ) c1 c2 c3 c4 c5 c6 =
      -applyCoefficientsG sin cos two φ c1 c2 c3 c4 c5 c6 :=
  applyCoefficientsG_neg sin cos two hs hc φ c1 c2 c3 c4 c5 c6

/-! ## T4: what the recurrence computes -/

/-- the statement one expects: the recurrence is the 6-term sine series -/
def clenshaw_is_fourier_statement : Prop :=
  ∀ c1 c2 c3 c4 c5 c6 φ : ℝ,
    applyCoefficientsG Real.sin Real.cos 2 φ c1 c2 c3 c4 c5 c6 =
      φ + c1 * Real.sin (2 * φ) + c2 * Real.sin (4 * φ) + c3 * Real.sin (6 * φ)
        + c4 * Real.sin (8 * φ) + c5 * Real.sin (10 * φ) + c6 * Real.sin (12 * φ)

/-- T4 (true variant). The recurrence evaluates the sine series with `sin 8φ`-coefficient `c4 + c6`. -/
theorem clenshaw_is_fourier (c1 c2 c3 c4 c5 c6 φ : ℝ) :
    applyCoefficientsG Real.sin Real.cos 2 φ c1 c2 c3 c4 c5 c6 =
      φ + c1 * Real.sin (2 * φ) + c2 * Real.sin (4 * φ) + c3 * Real.sin (6 * φ)
        + (c4 + c6) * Real.sin (8 * φ) + c5 * Real.sin (10 * φ) + c6 * Real.sin (12 * φ) :=
  authalicR_eq_series c1 c2 c3 c4 c5 c6 φ

/-- T4 (finding). The expected statement is false: `c6 = 1`, all other coefficients `0`, `φ = π/16`. -/
theorem clenshaw_is_fourier_statement_false : ¬ clenshaw_is_fourier_statement := by
  intro h
  have h1 := h 0 0 0 0 0 1 (Real.pi / 16)
  exact authalicR_ne_fourier6 0 0 0 0 0 1 one_ne_zero h1

/-- The defect is exactly `c6 · sin 8φ`, hence at most `|c6|`. -/
theorem clenshaw_defect (c1 c2 c3 c4 c5 c6 φ : ℝ) :
    applyCoefficientsG Real.sin Real.cos 2 φ c1 c2 c3 c4 c5 c6
      = fourier6 c1 c2 c3 c4 c5 c6 φ + c6 * Real.sin (8 * φ) :=
  authalicR_eq_fourier6_add c1 c2 c3 c4 c5 c6 φ

theorem clenshaw_defect_bound (c1 c2 c3 c4 c5 c6 φ : ℝ) :
    |applyCoefficientsG Real.sin Real.cos 2 φ c1 c2 c3 c4 c5 c6 - fourier6 c1 c2 c3 c4 c5 c6 φ| ≤ |c6| :=
  abs_authalicR_sub_fourier6_le c1 c2 c3 c4 c5 c6 φ

/-- With the generated tables `|c6| < 2^-56` (forward) and `< 2^-54 ` (inverse): kernel-checked. -/
theorem generated_c6_small :
    ratAbs (coeffQ Gen.GEODETIC_TO_AUTHALIC 5) < (2 : Rat) ^ (-56 : Int) ∧
    ratAbs (coeffQ Gen.AUTHALIC_TO_GEODETIC 5) < (2 : Rat) ^ (-54 : Int) ∧
    coeffQ Gen.GEODETIC_TO_AUTHALIC 5 ≠ 0 ∧ coeffQ Gen.AUTHALIC_TO_GEODETIC 5 ≠ 0 := by
  decide +kernel

/-! ## T5: strictly increasing -/

/-- T5a. `f′ ≥ 1 − Σ 2k|a_k|` (here `authalicDeriv` is the derivative, `hasDerivAt_authalicR`). -/
theorem authalic_deriv_lower_bound (c1 c2 c3 c4 c5 c6 φ : ℝ) :
    HasDerivAt (fun t => applyCoefficientsG Real.sin Real.cos 2 t c1 c2 c3 c4 c5 c6)
      (authalicDeriv c1 c2 c3 c4 c5 c6 φ) φ ∧
    1 - (2 * |c1| + 4 * |c2| + 6 * |c3| + 8 * |c4 + c6| + 10 * |c5| + 12 * |c6|)
      ≤ authalicDeriv c1 c2 c3 c4 c5 c6 φ :=
  ⟨hasDerivAt_authalicR c1 c2 c3 c4 c5 c6 φ, authalicDeriv_ge c1 c2 c3 c4 c5 c6 φ⟩

/-- T5b. With the exact values of the generated coefficients the derivative of both conversions is
`> 0.995` everywhere … -/
theorem authalic_deriv_gt (φ : ℝ) :
    (0.995 : ℝ) < deriv authalicForwardR φ ∧ (0.995 : ℝ) < deriv authalicInverseR φ := by
  constructor
  · rw [authalicForwardR, (hasDerivAt_authalicR _ _ _ _ _ _ φ).deriv]
    have h1 := authalicDeriv_ge (coeffR Gen.GEODETIC_TO_AUTHALIC 0) (coeffR Gen.GEODETIC_TO_AUTHALIC 1)
      (coeffR Gen.GEODETIC_TO_AUTHALIC 2) (coeffR Gen.GEODETIC_TO_AUTHALIC 3)
      (coeffR Gen.GEODETIC_TO_AUTHALIC 4) (coeffR Gen.GEODETIC_TO_AUTHALIC 5) φ
    have h2 := coeffBound_forward
    norm_num at h2 ⊢
    linarith
  · rw [authalicInverseR, (hasDerivAt_authalicR _ _ _ _ _ _ φ).deriv]
    have h1 := authalicDeriv_ge (coeffR Gen.AUTHALIC_TO_GEODETIC 0) (coeffR Gen.AUTHALIC_TO_GEODETIC 1)
      (coeffR Gen.AUTHALIC_TO_GEODETIC 2) (coeffR Gen.AUTHALIC_TO_GEODETIC 3)
      (coeffR Gen.AUTHALIC_TO_GEODETIC 4) (coeffR Gen.AUTHALIC_TO_GEODETIC 5) φ
    have h2 := coeffBound_inverse
    norm_num at h2 ⊢
    linarith

/-- T5c. … so both conversions are strictly increasing on all of `ℝ`. -/
theorem authalic_strict_mono : StrictMono authalicForwardR ∧ StrictMono authalicInverseR :=
  ⟨authalicR_strictMono _ _ _ _ _ _ (lt_trans coeffBound_forward (by norm_num)),
   authalicR_strictMono _ _ _ _ _ _ (lt_trans coeffBound_inverse (by norm_num))⟩

/-- The conversions with the generated coefficients are odd and fix equator and poles (T1–T3 instantiated). -/
theorem authalic_generated_symmetry :
    (∀ φ, authalicForwardR (-φ) = -authalicForwardR φ) ∧ authalicForwardR 0 = 0 ∧
    authalicForwardR (Real.pi / 2) = Real.pi / 2 ∧ authalicForwardR (-(Real.pi / 2)) = -(Real.pi / 2) ∧
    (∀ φ, authalicInverseR (-φ) = -authalicInverseR φ) ∧ authalicInverseR 0 = 0 ∧
    authalicInverseR (Real.pi / 2) = Real.pi / 2 ∧ authalicInverseR (-(Real.pi / 2)) = -(Real.pi / 2) :=
  ⟨fun φ => authalicR_neg _ _ _ _ _ _ φ, authalicR_zero _ _ _ _ _ _, authalicR_pi_div_two _ _ _ _ _ _,
   authalicR_neg_pi_div_two _ _ _ _ _ _, fun φ => authalicR_neg _ _ _ _ _ _ φ, authalicR_zero _ _ _ _ _ _,
   authalicR_pi_div_two _ _ _ _ _ _, authalicR_neg_pi_div_two _ _ _ _ _ _⟩

/-- Consequently every latitude strictly between the poles is mapped strictly between the poles. -/
theorem authalic_maps_open_interval (φ : ℝ) (h1 : -(Real.pi / 2) < φ) (h2 : φ < Real.pi / 2) :
    -(Real.pi / 2) < authalicForwardR φ ∧ authalicForwardR φ < Real.pi / 2 := by
  obtain ⟨_, _, hp, hn, _⟩ := authalic_generated_symmetry
  have hm := authalic_strict_mono.1
  exact ⟨hn ▸ hm h1, hp ▸ hm h2⟩

/-! ## T6: lon/lat ⇄ sphere -/

section field
variable {K : Type} [Field K]

/-- T6a. Longitude round trip: `radToDeg (degToRad (λ + 93)) − 93 = λ` when the two scale constants are
reciprocal. -/
theorem lon_roundtrip (k1 k2 off lon : K) (h : k1 * k2 = 1) :
    scaleG k2 (scaleG k1 (lon + off)) - off = lon := by
  unfold scaleG
  linear_combination (lon + off) * h

/-- T6b. Colatitude round trip: `π/2 − (π/2 − a) = a`. -/
theorem colat_roundtrip (halfPi a : K) : halfPi - (halfPi - a) = a := by ring

/-- T6c. The full round trip `toLonLat ∘ fromLonLat = id` of the twins, provided the scale constants are
reciprocal and `inv` undoes `fwd` (for the truncated series this holds only approximately; with `fwd = inv =
id`, i.e. on a sphere, it is exact). -/
theorem lonlat_roundtrip (fwd inv : K → K) (k1 k2 off halfPi lon lat : K) (h : k1 * k2 = 1)
    (hinv : ∀ x, inv (fwd x) = x) :
    toLonLatG inv k2 off halfPi (fromLonLatG fwd k1 off halfPi lon lat).1
      (fromLonLatG fwd k1 off halfPi lon lat).2 = (lon, lat) := by
  simp only [toLonLatG, fromLonLatG, colat_roundtrip, hinv, lon_roundtrip _ _ _ _ h]
  congr 1
  unfold scaleG
  linear_combination lat * h

/-- and the other way round, `fromLonLat ∘ toLonLat = id` -/
theorem sphere_roundtrip (fwd inv : K → K) (k1 k2 off halfPi theta phi : K) (h : k1 * k2 = 1)
    (hinv : ∀ x, fwd (inv x) = x) :
    fromLonLatG fwd k1 off halfPi (toLonLatG inv k2 off halfPi theta phi).1
      (toLonLatG inv k2 off halfPi theta phi).2 = (theta, phi) := by
  have e1 : ∀ x : K, scaleG k1 (scaleG k2 x) = x := fun x => by
    unfold scaleG; linear_combination x * h
  simp only [toLonLatG, fromLonLatG, sub_add_cancel, e1, hinv, colat_roundtrip]

end field

/-- T6d. The generated constants `PI_OVER_180` and `DEG_PER_RAD` are reciprocal up to `2^-55`: as exact
rationals their product exceeds 1 by exactly `90256656525575 · 2^-102` … -/
theorem deg_rad_constants_product :
    Gen.PI_OVER_180.toRat * Gen.DEG_PER_RAD.toRat - 1 = 90256656525575 * (2 : Rat) ^ (-102 : Int) ∧
    Gen.PI_OVER_180.toRat * Gen.DEG_PER_RAD.toRat - 1 < (2 : Rat) ^ (-55 : Int) := by
  decide +kernel

/-- … and in `f64` arithmetic the product is exactly `1.0`; `FRAC_PI_2` is exactly half of `PI`; the
longitude offset is exactly 93. -/
theorem deg_rad_constants_float :
    (fc Gen.PI_OVER_180 * fc Gen.DEG_PER_RAD).toBits = (1.0 : Float).toBits ∧
    Gen.FRAC_PI_2.toRat * 2 = Gen.PI.toRat ∧ Gen.LONGITUDE_OFFSET.toRat = 93 := by
  decide +kernel

/-- Note: in `f64` arithmetic the degree round trip is *not* the identity on every input (the real-number
statement T6a does not transfer verbatim): `radToDeg (degToRad 3.0) ≠ 3.0`, while e.g. 93.0 survives. -/
theorem deg_roundtrip_float_examples :
    (radToDeg (degToRad 3.0)).toBits ≠ (3.0 : Float).toBits ∧
    (radToDeg (degToRad 93.0)).toBits = (93.0 : Float).toBits := by
  decide +kernel

/-! ## the ties to the executable model (restated; all `rfl`) -/

theorem model_is_twin (φ lon lat θ : Float) :
    authalicForward φ = applyCoefficientsG Float.sin Float.cos (2.0 : Float) φ
        (coeffF Gen.GEODETIC_TO_AUTHALIC 0) (coeffF Gen.GEODETIC_TO_AUTHALIC 1)
        (coeffF Gen.GEODETIC_TO_AUTHALIC 2) (coeffF Gen.GEODETIC_TO_AUTHALIC 3)
        (coeffF Gen.GEODETIC_TO_AUTHALIC 4) (coeffF Gen.GEODETIC_TO_AUTHALIC 5) ∧
    authalicInverse φ = applyCoefficientsG Float.sin Float.cos (2.0 : Float) φ
        (coeffF Gen.AUTHALIC_TO_GEODETIC 0) (coeffF Gen.AUTHALIC_TO_GEODETIC 1)
        (coeffF Gen.AUTHALIC_TO_GEODETIC 2) (coeffF Gen.AUTHALIC_TO_GEODETIC 3)
        (coeffF Gen.AUTHALIC_TO_GEODETIC 4) (coeffF Gen.AUTHALIC_TO_GEODETIC 5) ∧
    fromLonLat lon lat =
      fromLonLatG authalicForward (fc Gen.PI_OVER_180) (fc Gen.LONGITUDE_OFFSET) (fc Gen.FRAC_PI_2) lon lat ∧
    toLonLat θ φ =
      toLonLatG authalicInverse (fc Gen.DEG_PER_RAD) (fc Gen.LONGITUDE_OFFSET) (fc Gen.FRAC_PI_2) θ φ :=
  ⟨rfl, rfl, rfl, rfl⟩

/-! ## non-vacuity -/

/-- the coefficient hypothesis of `authalicR_strictMono` is met by the generated table; a concrete
coefficient value -/
example : coeffQ Gen.GEODETIC_TO_AUTHALIC 0 = -322704147042479 * (2 : Rat) ^ (-57 : Int) := by decide +kernel
example : StrictMono (authalicR 0.001 0 0 0 0 0) := authalicR_strictMono _ _ _ _ _ _ (by norm_num)
example : authalicForwardR 0 < authalicForwardR 1 := authalic_strict_mono.1 (by norm_num)
/-- `lon_roundtrip` with `k1 = 1/4`, `k2 = 4`, offset 93, longitude 10 -/
example : scaleG (4 : ℚ) (scaleG (1 / 4) (10 + 93)) - 93 = 10 := lon_roundtrip (1 / 4) 4 93 10 (by norm_num)
/-- `lonlat_roundtrip` on a sphere (all coefficients zero: the conversion is the identity) -/
example (φ : ℝ) : authalicR 0 0 0 0 0 0 φ = φ := by rw [authalicR_eq_series]; ring
example : toLonLatG (id : ℚ → ℚ) 4 93 2 (fromLonLatG id (1 / 4) 93 2 10 20).1 (fromLonLatG id (1 / 4) 93 2 10 20).2
    = (10, 20) := lonlat_roundtrip id id (1 / 4) 4 93 2 10 20 (by norm_num) (fun _ => rfl)

/-! ## the round trip geodetic → authalic → geodetic, over ℝ -/

/-- **`authalic_roundtrip`** - the first clause of the property in exact real arithmetic: for EVERY real latitude the two
order-6 series, with the exact rational values of the coefficient tables regenerated from `authalic.rs` and including
the Clenshaw recurrence's defect term, are inverse to each other within 1.35e-13 rad (hence within the property's 1e-12),
in both orders.  Proof (`A5/Lemmas/AuthalicCompose.lean`): addition formulas with explicit sine/cosine remainders reduce
`g(f φ) - φ` to a polynomial in `e^{2iφ}` with 49 rational coefficients computed by the kernel from the tables, plus a
remainder bounded by an explicit rational.  Not covered: the `f64` rounding of the recurrence. -/
theorem authalic_roundtrip (φ : ℝ) :
    |authalicInverseR (authalicForwardR φ) - φ| ≤ 1.35e-13 ∧ |authalicForwardR (authalicInverseR φ) - φ| ≤ 1.35e-13 ∧
    |authalicInverseR (authalicForwardR φ) - φ| ≤ 1e-12 ∧ |authalicForwardR (authalicInverseR φ) - φ| ≤ 1e-12 :=
  ⟨AuthalicCompose.inverse_forward_sharp φ, AuthalicCompose.forward_inverse_sharp φ,
    AuthalicCompose.compose_bound φ, AuthalicCompose.compose_bound' φ⟩

/-- non-vacuity: the statement at 45 degrees -/
example : |authalicInverseR (authalicForwardR (Real.pi / 4)) - Real.pi / 4| ≤ 1e-12 := (authalic_roundtrip _).2.2.1

end A5.C19
