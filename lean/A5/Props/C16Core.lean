import A5.Model.GenericGeo
import A5.Lemmas.AngularRoundTrip2
import Mathlib.Analysis.SpecialFunctions.Trigonometric.Basic
import Mathlib.Analysis.SpecialFunctions.Trigonometric.Deriv
import Mathlib.Analysis.SpecialFunctions.Trigonometric.Inverse
import Mathlib.Analysis.Real.Sqrt
import Mathlib.Analysis.Real.Pi.Bounds
import Mathlib.Analysis.Calculus.FDeriv.Basic
import Mathlib.Tactic.Ring
import Mathlib.Tactic.FieldSimp
import Mathlib.Tactic.LinearCombination
import Mathlib.Tactic.Linarith
import Mathlib.Tactic.NormNum
/-! # C16 — the face projection is area-preserving: what is proved and what is not

Model (`A5/Model/Geo.lean`): `polyhedralForward` maps a point of a spherical triangle `abc` to barycentric
weights `(1 − h, h·area(apc)/area(abc), h·area(abp)/area(abc))` and then, by `barycentricToFace`, into the
planar face triangle.  Generic twins used here: `A5.G.barycentricToFaceG`, `A5.G.triDetG`
(`A5/Model/GenericGeo.lean`; tie lemma `A5.G.barycentricToFace_tie`, by `rfl`).

Proved:
* T1 `affine_area`: the last step is affine, so it multiplies every area by the same constant, the
  determinant of the face triangle (over any commutative ring);
* T2 `planar_wedge_area`, `cap_fraction`, `equal_area_jacobian_polar`: the two "`h²` laws" (planar wedge and
  spherical cap) and the resulting Jacobian identity in polar coordinates about the apex, *assuming* the
  polar area-sweep formula for the spherical triangle as a hypothesis;
* T3 `sphere_area_per_triangle`: the constant `4π/(12·10) = π/30` with a rational enclosure.

* T4 `angular_area_fraction` (from `A5/Lemmas/AngularRoundTrip.lean`): the inverse map sends the planar edge fraction
  `r = w/h` to the point `P` of the spherical edge with `area(a, b, P) = r · area(a, b, c)` - with the code's own area
  formula - so planar and spherical sub-triangle areas are in the same ratio for every `r`; together with the radial
  `h²` law (`cap_fraction`) this is the equal-area property in integrated (sector) form, without the sweep hypothesis.

Not proved (kept as `equal_area_jacobian_statement`, assumed nowhere): that the idealised real-number version
of `polyhedralForward` has constant Jacobian with respect to the sphere's area form. -/
namespace A5.C16
open A5 A5.G

/-! ## T1: the barycentric → face step scales all areas by one constant -/

section ring
variable {K : Type} [CommRing K]

/-- twice the signed area of the planar triangle `P Q R` (shoelace formula) -/
def shoelace (px py qx qy rx ry : K) : K := (qx - px) * (ry - py) - (rx - px) * (qy - py)

/-- 3×3 determinant, rows `(a1 a2 a3) (b1 b2 b3) (c1 c2 c3)` -/
def det3 (a1 a2 a3 b1 b2 b3 c1 c2 c3 : K) : K :=
  a1 * (b2 * c3 - b3 * c2) - a2 * (b1 * c3 - b3 * c1) + a3 * (b1 * c2 - b2 * c1)

/-- the shoelace expression is the 3×3 determinant with a column of ones -/
theorem shoelace_eq_det3 (px py qx qy rx ry : K) :
    shoelace px py qx qy rx ry = det3 px py 1 qx qy 1 rx ry 1 := by
  simp only [shoelace, det3]; ring

/-- the denominator of `faceToBarycentric` is the same quantity -/
theorem triDet_eq_shoelace (ax ay bx «by» cx cy : K) :
    triDetG ax ay bx «by» cx cy = shoelace ax ay bx «by» cx cy := by
  simp only [triDetG, shoelace]; ring

/-- T1 (general form, no hypothesis on the weights): multiplicativity of the determinant.  `P_i` is the
image of the weight triple `(u_i, v_i, w_i)`, `s_i = u_i + v_i + w_i`. -/
theorem affine_area_det (u1 v1 w1 u2 v2 w2 u3 v3 w3 ax ay bx «by» cx cy : K) :
    det3 (barycentricToFaceG u1 v1 w1 ax ay bx «by» cx cy).1 (barycentricToFaceG u1 v1 w1 ax ay bx «by» cx cy).2
         (u1 + v1 + w1)
         (barycentricToFaceG u2 v2 w2 ax ay bx «by» cx cy).1 (barycentricToFaceG u2 v2 w2 ax ay bx «by» cx cy).2
         (u2 + v2 + w2)
         (barycentricToFaceG u3 v3 w3 ax ay bx «by» cx cy).1 (barycentricToFaceG u3 v3 w3 ax ay bx «by» cx cy).2
         (u3 + v3 + w3)
      = det3 u1 v1 w1 u2 v2 w2 u3 v3 w3 * shoelace ax ay bx «by» cx cy := by
  simp only [barycentricToFaceG, det3, shoelace]; ring

/-- T1. For weights that sum to 1 (which `polyhedralForward` intends and `faceToBarycentric` guarantees):
the signed area of the image triangle is the determinant of the weight triples times the signed area of the
face triangle — the same factor for every triangle, so `barycentricToFace` preserves area ratios. -/
theorem affine_area (u1 v1 w1 u2 v2 w2 u3 v3 w3 ax ay bx «by» cx cy : K)
    (h1 : u1 + v1 + w1 = 1) (h2 : u2 + v2 + w2 = 1) (h3 : u3 + v3 + w3 = 1) :
    shoelace (barycentricToFaceG u1 v1 w1 ax ay bx «by» cx cy).1 (barycentricToFaceG u1 v1 w1 ax ay bx «by» cx cy).2
             (barycentricToFaceG u2 v2 w2 ax ay bx «by» cx cy).1 (barycentricToFaceG u2 v2 w2 ax ay bx «by» cx cy).2
             (barycentricToFaceG u3 v3 w3 ax ay bx «by» cx cy).1 (barycentricToFaceG u3 v3 w3 ax ay bx «by» cx cy).2
      = det3 u1 v1 w1 u2 v2 w2 u3 v3 w3 * shoelace ax ay bx «by» cx cy := by
  rw [shoelace_eq_det3, ← affine_area_det, h1, h2, h3]

/-- … and for such weights the determinant of the triples is the shoelace area of their `(u,v)` parts: the
map is the affine map that sends the standard triangle to the face triangle. -/
theorem det3_of_sum_one (u1 v1 w1 u2 v2 w2 u3 v3 w3 : K)
    (h1 : u1 + v1 + w1 = 1) (h2 : u2 + v2 + w2 = 1) (h3 : u3 + v3 + w3 = 1) :
    det3 u1 v1 w1 u2 v2 w2 u3 v3 w3 = shoelace u1 v1 u2 v2 u3 v3 := by
  have e1 : w1 = 1 - u1 - v1 := by linear_combination h1
  have e2 : w2 = 1 - u2 - v2 := by linear_combination h2
  have e3 : w3 = 1 - u3 - v3 := by linear_combination h3
  subst e1 e2 e3
  simp only [det3, shoelace]; ring

/-! ## T2: the planar `h²` law -/

/-- The weights produced by `polyhedralForward` have the form `(1 − h, h·β, h·(1 − β))`.  The planar wedge
with apex `A` between the rays of parameters `β₁`, `β₂`, cut at height `h`, has area `h²·(β₁ − β₂)` times the
triangle: quadratic in `h`, linear in `β`. -/
theorem planar_wedge_area (h β₁ β₂ ax ay bx «by» cx cy : K) :
    shoelace ax ay
      (barycentricToFaceG (1 - h) (h * β₁) (h * (1 - β₁)) ax ay bx «by» cx cy).1
      (barycentricToFaceG (1 - h) (h * β₁) (h * (1 - β₁)) ax ay bx «by» cx cy).2
      (barycentricToFaceG (1 - h) (h * β₂) (h * (1 - β₂)) ax ay bx «by» cx cy).1
      (barycentricToFaceG (1 - h) (h * β₂) (h * (1 - β₂)) ax ay bx «by» cx cy).2
      = h ^ 2 * (β₁ - β₂) * shoelace ax ay bx «by» cx cy := by
  simp only [barycentricToFaceG, shoelace]; ring

end ring

/-! ## T2 continued: the spherical `h²` law and the Jacobian in polar coordinates -/

private theorem one_sub_cos (t : ℝ) : 1 - Real.cos t = 2 * Real.sin (t / 2) ^ 2 := by
  have h1 := Real.cos_two_mul (t / 2)
  have h2 := Real.sin_sq_add_cos_sq (t / 2)
  rw [show 2 * (t / 2) = t by ring] at h1
  linear_combination (-1 : ℝ) * h1 - 2 * h2

/-- For unit vectors `vector_difference(a, v) = sin(θ/2)` with `θ` the angle between them, so the code's
`h = sin(θ_v/2) / sin(θ_p/2)`.  Its square is the ratio of the spherical cap heights `1 − cos θ`, i.e. the
fraction of the area of a thin spherical wedge with apex `a` that lies within distance `θ_v` of `a`. -/
theorem cap_fraction (θv θp : ℝ) (hp : Real.sin (θp / 2) ≠ 0) :
    (Real.sin (θv / 2) / Real.sin (θp / 2)) ^ 2 = (1 - Real.cos θv) / (1 - Real.cos θp) := by
  rw [one_sub_cos, one_sub_cos, div_pow]
  field_simp

/-- The Jacobian identity in polar coordinates `(θ, α)` about the apex (`θ` = arc distance from `a`, `α` =
azimuth).  Write `T` for the arc distance from `a` to the opposite side in direction `α`, `W α` for the area
of the part of the triangle swept up to azimuth `α`, `Ω` for the whole area, `S` for twice the planar triangle
area.  The code uses `h = sin(θ/2)/sin(T/2)` and `β = W(α)/Ω`; since `β` does not depend on `θ` the Jacobian
determinant of `(θ, α) ↦ (h, β)` is `∂h/∂θ · β′(α)`, and the planar area element in `(h, β)` is `h·S`
(`planar_wedge_area`).  **Hypothesis** (standard, not proved here): the sweep formula `W′(α) = 1 − cos T`.
Conclusion: planar area element `= S/(2Ω) · sin θ dθ dα`, a constant multiple of the sphere's. -/
theorem equal_area_jacobian_polar (W : ℝ → ℝ) (T Ω S θ α : ℝ)
    (hsweep : HasDerivAt W (1 - Real.cos T) α) (hT : Real.sin (T / 2) ≠ 0) (hΩ : Ω ≠ 0) :
    ∃ hθ βα : ℝ,
      HasDerivAt (fun t => Real.sin (t / 2) / Real.sin (T / 2)) hθ θ ∧
      HasDerivAt (fun a => W a / Ω) βα α ∧
      (Real.sin (θ / 2) / Real.sin (T / 2)) * S * (hθ * βα) = S / (2 * Ω) * Real.sin θ := by
  refine ⟨Real.cos (θ / 2) * (1 / 2) / Real.sin (T / 2), (1 - Real.cos T) / Ω, ?_, hsweep.div_const Ω, ?_⟩
  · have h1 : HasDerivAt (fun t : ℝ => t / 2) (1 / 2) θ := by
      simpa using (hasDerivAt_id θ).div_const 2
    exact ((Real.hasDerivAt_sin (θ / 2)).comp θ h1).div_const _
  · have hs : Real.sin θ = 2 * Real.sin (θ / 2) * Real.cos (θ / 2) := by
      rw [← Real.sin_two_mul]; congr 1; ring
    rw [one_sub_cos, hs]
    field_simp

/-! ## T3: the constant -/

/-- The sphere (area `4π`) is cut into 12 faces × 10 triangles, so every spherical triangle `abc` handled by
`polyhedralForward` has area `4π/120 = π/30`; enclosure from Mathlib's `Real.pi_gt_d20`, `Real.pi_lt_d20`
(`3.14159265358979323846 < π < 3.14159265358979323847`). -/
theorem sphere_area_per_triangle :
    4 * Real.pi / (12 * 10) = Real.pi / 30 ∧
    (0.1047197551196597746 : ℝ) < Real.pi / 30 ∧ Real.pi / 30 < (0.1047197551196597747 : ℝ) := by
  refine ⟨by ring, ?_, ?_⟩
  · have := Real.pi_gt_d20; linarith
  · have := Real.pi_lt_d20; linarith

/-- The planar face triangle is a right triangle with legs `d = DISTANCE_TO_EDGE` and `d·tan(π/5)`; the
generated `d` is the `f64` nearest to `(√5 − 1)/2`: kernel-checked `d² + d − 1` is within `2^-52` of 0. -/
theorem distance_to_edge_value :
    ratAbs (Gen.DISTANCE_TO_EDGE.toRat ^ 2 + Gen.DISTANCE_TO_EDGE.toRat - 1) < (2 : Rat) ^ (-52 : Int) := by
  decide +kernel

/-! ## the unproved part -/

/-- vectors of `ℝ³` as triples -/
abbrev R3 := ℝ × ℝ × ℝ

def dot (a b : R3) : ℝ := a.1 * b.1 + a.2.1 * b.2.1 + a.2.2 * b.2.2
def cross (a b : R3) : R3 :=
  (a.2.1 * b.2.2 - a.2.2 * b.2.1, a.2.2 * b.1 - a.1 * b.2.2, a.1 * b.2.1 - a.2.1 * b.1)
noncomputable def len (a : R3) : ℝ := Real.sqrt (dot a a)
noncomputable def normalize (a : R3) : R3 := (a.1 / len a, a.2.1 / len a, a.2.2 / len a)
/-- `normalize (lerp a b 0.5)` -/
noncomputable def midR (a b : R3) : R3 :=
  normalize (a.1 + (b.1 - a.1) / 2, a.2.1 + (b.2.1 - a.2.1) / 2, a.2.2 + (b.2.2 - a.2.2) / 2)
/-- idealised `vector_difference` (no small-angle switch): `sin` of half the angle, for unit vectors -/
noncomputable def vecDiffR (a b : R3) : ℝ := len (cross a (midR a b))
/-- `quadruple_product` -/
def quadR (a b c d : R3) : R3 :=
  (b.1 * dot a (cross c d) - a.1 * dot b (cross c d),
   b.2.1 * dot a (cross c d) - a.2.1 * dot b (cross c d),
   b.2.2 * dot a (cross c d) - a.2.2 * dot b (cross c d))
/-- idealised `get_triangle_area` (no small-angle switch, no clamp) -/
noncomputable def sphAreaR (v1 v2 v3 : R3) : ℝ :=
  2 * Real.arcsin (dot (midR v2 v3) (cross (midR v3 v1) (midR v1 v2)))

/-- the idealised real-number `polyhedralForward`: same formulas as the model with `Real.sqrt`,
`Real.arcsin`, exact arithmetic and without the small-angle switches; the last step is the twin
`barycentricToFaceG` -/
noncomputable def polyhedralForwardR (a b c : R3) (ax ay bx «by» cx cy : ℝ) (v : R3) : ℝ × ℝ :=
  let z := normalize (v.1 - a.1, v.2.1 - a.2.1, v.2.2 - a.2.2)
  let p := normalize (quadR a z b c)
  let h := vecDiffR a v / vecDiffR a p
  let scaled := h / sphAreaR a b c
  barycentricToFaceG (1 - h) (scaled * sphAreaR a p c) (scaled * sphAreaR a b p) ax ay bx «by» cx cy

/-- **Not proved, not assumed anywhere.**  The equal-area property of the idealised map: for any
differentiable parametrisation `w` of a piece of the unit sphere inside the open spherical triangle `abc`,
the Jacobian determinant of `polyhedralForwardR ∘ w` is, up to sign, the constant
`S/(2Ω)` (planar over spherical triangle area) times the sphere's area form `w · (∂₁w × ∂₂w)`. -/
def equal_area_jacobian_statement : Prop :=
  ∀ (a b c : R3) (ax ay bx «by» cx cy : ℝ) (w : ℝ × ℝ → R3) (x : ℝ × ℝ),
    dot a a = 1 → dot b b = 1 → dot c c = 1 → 0 < dot a (cross b c) →
    (∀ y, dot (w y) (w y) = 1) → DifferentiableAt ℝ w x →
    0 < dot (w x) (cross a b) → 0 < dot (w x) (cross b c) → 0 < dot (w x) (cross c a) →
    let G : ℝ × ℝ → ℝ × ℝ := fun y => polyhedralForwardR a b c ax ay bx «by» cx cy (w y)
    let J := fderiv ℝ G x
    let w1 : R3 := fderiv ℝ w x (1, 0)
    let w2 : R3 := fderiv ℝ w x (0, 1)
    DifferentiableAt ℝ G x ∧
    |(J (1, 0)).1 * (J (0, 1)).2 - (J (0, 1)).1 * (J (1, 0)).2|
      = |shoelace ax ay bx «by» cx cy / (2 * sphAreaR a b c)| * |dot (w x) (cross w1 w2)|

/-! ## non-vacuity -/

/-- T1 on the face triangle `(0,0) (4,0) (0,2)` (shoelace 8) with weight triples `(1,0,0)`,
`(1/2,1/2,0)`, `(1/2,0,1/2)` (determinant 1/4): the image `(0,0) (2,0) (0,1)` has shoelace 2 -/
example : shoelace (0 : ℚ) 0 2 0 0 1 = det3 (1 : ℚ) 0 0 (1 / 2) (1 / 2) 0 (1 / 2) 0 (1 / 2) * shoelace (0 : ℚ) 0 4 0 0 2 := by
  norm_num [shoelace, det3]
example : barycentricToFaceG (1 / 2 : ℚ) (1 / 2) 0 0 0 4 0 0 2 = (2, 0) := by norm_num [barycentricToFaceG]
/-- `cap_fraction` at `θ_v = π/2`, `θ_p = π`: half of the hemisphere's height -/
example : (1 - Real.cos (Real.pi / 2)) / (1 - Real.cos Real.pi) = 1 / 2 := by
  rw [Real.cos_pi_div_two, Real.cos_pi]; norm_num
/-- the hypotheses of `equal_area_jacobian_polar` are satisfiable: `W α = (1 − cos T)·α`, `T = π/2` -/
example : HasDerivAt (fun a : ℝ => (1 - Real.cos (Real.pi / 2)) * a) (1 - Real.cos (Real.pi / 2)) 0 := by
  simpa using (hasDerivAt_id (0 : ℝ)).const_mul (1 - Real.cos (Real.pi / 2))

/-! ## T4: area fractions along the edge are preserved exactly -/

open A5.RadialRoundTrip A5.AngularRoundTrip in
/-- T4. `angular_area_fraction`: for a counter-clockwise spherical triangle `a b c` (area `E < π`) and every fraction
`0 < r < 1`, the point `P = slerp(b, c, q)` that the inverse projection designates for the planar edge fraction `r`
(`q = edgeParamR a b c (r·E)`, the code's `(2/θ)·atan2(g, f)`) lies strictly inside the edge and cuts off exactly the
fraction `r` of the triangle's area: `area(a, b, P) = r · area(a, b, c)` - the planar sub-triangle `A B P'` with
`P' = B + r (C - B)` has the fraction `r` of the planar area, so the two area ratios agree for every `r`. -/
theorem angular_area_fraction {a b c : RadialRoundTrip.R3} (ha : dotR a a = 1) (hb : dotR b b = 1) (hc : dotR c c = 1)
    (hV : 0 < tripleR a b c) (hD : 0 < 1 + dotR a b + dotR b c + dotR c a) (hγ : slerpSwitch ≤ angleR b c)
    (r : ℝ) (hr0 : 0 < r) (hr1 : r < 1) :
    0 < edgeParamR a b c (r * triAreaR a b c) ∧ edgeParamR a b c (r * triAreaR a b c) < 1 ∧
      triAreaR a b (slerpR b c (edgeParamR a b c (r * triAreaR a b c))) = r * triAreaR a b c := by
  have hE := (triAreaR_mem ha hb hc hV hD).1
  exact angular_forward_formula ha hb hc hV hD hγ (mul_pos hr0 hE) (by nlinarith)

end A5.C16
