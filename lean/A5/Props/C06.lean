import A5.Gen.Tables
import A5.Ref.Tables
/-! # C06 — cell IDs keep denoting the same place as in the reference release (v0.6.2)

T1 `tables_unchanged`: every table and constant that `tools/translate.py` regenerates from the current Rust source
(`A5.Gen`) is identical — integers, layouts, and the IEEE-754 bit pattern and exact dyadic value of every float
constant — to the frozen tables of the reference release (`A5.Ref`).  The model function bodies are frozen too
(written against v0.6.2 + the fix: commits) and take the tables from `A5.Gen`, so together with the bit-exact
correspondence run this pins "which ID goes with which place".  A self-consistent edit of `PATTERN`, `QUINTANT_FIRST`,
`ORIGIN_ORDER`, a quaternion, `LONGITUDE_OFFSET`, an authalic coefficient or a threshold passes all 150 tests and
breaks exactly one lemma below (named after the item). -/
namespace A5.C06
open A5

theorem FIRST_HILBERT_RESOLUTION_unchanged : Gen.FIRST_HILBERT_RESOLUTION = Ref.FIRST_HILBERT_RESOLUTION := by decide +kernel
theorem MAX_RESOLUTION_unchanged : Gen.MAX_RESOLUTION = Ref.MAX_RESOLUTION := by decide +kernel
theorem HILBERT_START_BIT_unchanged : Gen.HILBERT_START_BIT = Ref.HILBERT_START_BIT := by decide +kernel
theorem REMOVAL_MASK_unchanged : Gen.REMOVAL_MASK = Ref.REMOVAL_MASK := by decide +kernel
theorem ORIGIN_SEGMENT_MASK_unchanged : Gen.ORIGIN_SEGMENT_MASK = Ref.ORIGIN_SEGMENT_MASK := by decide +kernel
theorem WORLD_CELL_unchanged : Gen.WORLD_CELL = Ref.WORLD_CELL := by decide +kernel
theorem FIRST_CHILD_COUNT_RES0_unchanged : Gen.FIRST_CHILD_COUNT_RES0 = Ref.FIRST_CHILD_COUNT_RES0 := by decide +kernel
theorem FIRST_CHILD_COUNT_RES1_unchanged : Gen.FIRST_CHILD_COUNT_RES1 = Ref.FIRST_CHILD_COUNT_RES1 := by decide +kernel
theorem MAX_CHILD_DIFF_unchanged : Gen.MAX_CHILD_DIFF = Ref.MAX_CHILD_DIFF := by decide +kernel
theorem NUM_ORIGINS_WORLD_unchanged : Gen.NUM_ORIGINS_WORLD = Ref.NUM_ORIGINS_WORLD := by decide +kernel
theorem NEW_SEGMENTS_unchanged : Gen.NEW_SEGMENTS = Ref.NEW_SEGMENTS := by decide +kernel
theorem SIBLINGS_HILBERT_unchanged : Gen.SIBLINGS_HILBERT = Ref.SIBLINGS_HILBERT := by decide +kernel
theorem SIBLINGS_RES0_unchanged : Gen.SIBLINGS_RES0 = Ref.SIBLINGS_RES0 := by decide +kernel
theorem SIBLINGS_RES1_unchanged : Gen.SIBLINGS_RES1 = Ref.SIBLINGS_RES1 := by decide +kernel
theorem CLOCKWISE_FAN_unchanged : Gen.CLOCKWISE_FAN = Ref.CLOCKWISE_FAN := by decide +kernel
theorem CLOCKWISE_STEP_unchanged : Gen.CLOCKWISE_STEP = Ref.CLOCKWISE_STEP := by decide +kernel
theorem COUNTER_STEP_unchanged : Gen.COUNTER_STEP = Ref.COUNTER_STEP := by decide +kernel
theorem COUNTER_JUMP_unchanged : Gen.COUNTER_JUMP = Ref.COUNTER_JUMP := by decide +kernel
theorem QUINTANT_ORIENTATIONS_ARRAYS_unchanged : Gen.QUINTANT_ORIENTATIONS_ARRAYS = Ref.QUINTANT_ORIENTATIONS_ARRAYS := by decide +kernel
theorem QUINTANT_FIRST_unchanged : Gen.QUINTANT_FIRST = Ref.QUINTANT_FIRST := by decide +kernel
theorem ORIGIN_ORDER_unchanged : Gen.ORIGIN_ORDER = Ref.ORIGIN_ORDER := by decide +kernel
theorem CLOCKWISE_LAYOUTS_unchanged : Gen.CLOCKWISE_LAYOUTS = Ref.CLOCKWISE_LAYOUTS := by decide +kernel
theorem RING2_QUAT_ADD_unchanged : Gen.RING2_QUAT_ADD = Ref.RING2_QUAT_ADD := by decide +kernel
theorem RING2_QUAT_MOD_unchanged : Gen.RING2_QUAT_MOD = Ref.RING2_QUAT_MOD := by decide +kernel
theorem RING2_QUAT_BASE_unchanged : Gen.RING2_QUAT_BASE = Ref.RING2_QUAT_BASE := by decide +kernel
theorem SOUTH_QUAT_INDEX_unchanged : Gen.SOUTH_QUAT_INDEX = Ref.SOUTH_QUAT_INDEX := by decide +kernel
theorem IS_NEAREST_THRESHOLD_unchanged : Gen.IS_NEAREST_THRESHOLD = Ref.IS_NEAREST_THRESHOLD := by decide +kernel
theorem PATTERN_unchanged : Gen.PATTERN = Ref.PATTERN := by decide +kernel
theorem PATTERN_FLIPPED_unchanged : Gen.PATTERN_FLIPPED = Ref.PATTERN_FLIPPED := by decide +kernel
theorem YES_unchanged : Gen.YES = Ref.YES := by decide +kernel
theorem NO_unchanged : Gen.NO = Ref.NO := by decide +kernel
theorem QUATERNARY_TO_FLIPS_unchanged : Gen.QUATERNARY_TO_FLIPS = Ref.QUATERNARY_TO_FLIPS := by decide +kernel
theorem KJ_PQ_TABLE_unchanged : Gen.KJ_PQ_TABLE = Ref.KJ_PQ_TABLE := by decide +kernel
theorem KJ_DIGIT_COEFF_unchanged : Gen.KJ_DIGIT_COEFF = Ref.KJ_DIGIT_COEFF := by decide +kernel
theorem FLIP_SHIFT_unchanged : Gen.FLIP_SHIFT = Ref.FLIP_SHIFT := by decide +kernel
theorem S2A_REVERSE_SET_unchanged : Gen.S2A_REVERSE_SET = Ref.S2A_REVERSE_SET := by decide +kernel
theorem IJ2S_REVERSE_SET_unchanged : Gen.IJ2S_REVERSE_SET = Ref.IJ2S_REVERSE_SET := by decide +kernel
theorem S2A_INVERT_J_SET_unchanged : Gen.S2A_INVERT_J_SET = Ref.S2A_INVERT_J_SET := by decide +kernel
theorem IJ2S_INVERT_J_SET_unchanged : Gen.IJ2S_INVERT_J_SET = Ref.IJ2S_INVERT_J_SET := by decide +kernel
theorem S2A_FLIP_IJ_SET_unchanged : Gen.S2A_FLIP_IJ_SET = Ref.S2A_FLIP_IJ_SET := by decide +kernel
theorem IJ2S_FLIP_IJ_SET_unchanged : Gen.IJ2S_FLIP_IJ_SET = Ref.IJ2S_FLIP_IJ_SET := by decide +kernel
theorem PHI_unchanged : Gen.PHI = Ref.PHI := by decide +kernel
theorem TWO_PI_unchanged : Gen.TWO_PI = Ref.TWO_PI := by decide +kernel
theorem TWO_PI_OVER_5_unchanged : Gen.TWO_PI_OVER_5 = Ref.TWO_PI_OVER_5 := by decide +kernel
theorem PI_OVER_5_unchanged : Gen.PI_OVER_5 = Ref.PI_OVER_5 := by decide +kernel
theorem PI_OVER_10_unchanged : Gen.PI_OVER_10 = Ref.PI_OVER_10 := by decide +kernel
theorem DIHEDRAL_ANGLE_unchanged : Gen.DIHEDRAL_ANGLE = Ref.DIHEDRAL_ANGLE := by decide +kernel
theorem INTERHEDRAL_ANGLE_unchanged : Gen.INTERHEDRAL_ANGLE = Ref.INTERHEDRAL_ANGLE := by decide +kernel
theorem FACE_EDGE_ANGLE_unchanged : Gen.FACE_EDGE_ANGLE = Ref.FACE_EDGE_ANGLE := by decide +kernel
theorem DISTANCE_TO_EDGE_unchanged : Gen.DISTANCE_TO_EDGE = Ref.DISTANCE_TO_EDGE := by decide +kernel
theorem DISTANCE_TO_VERTEX_unchanged : Gen.DISTANCE_TO_VERTEX = Ref.DISTANCE_TO_VERTEX := by decide +kernel
theorem R_INSCRIBED_unchanged : Gen.R_INSCRIBED = Ref.R_INSCRIBED := by decide +kernel
theorem R_MIDEDGE_unchanged : Gen.R_MIDEDGE = Ref.R_MIDEDGE := by decide +kernel
theorem R_CIRCUMSCRIBED_unchanged : Gen.R_CIRCUMSCRIBED = Ref.R_CIRCUMSCRIBED := by decide +kernel
theorem PI_unchanged : Gen.PI = Ref.PI := by decide +kernel
theorem FRAC_PI_2_unchanged : Gen.FRAC_PI_2 = Ref.FRAC_PI_2 := by decide +kernel
theorem PI_OVER_180_unchanged : Gen.PI_OVER_180 = Ref.PI_OVER_180 := by decide +kernel
theorem DEG_PER_RAD_unchanged : Gen.DEG_PER_RAD = Ref.DEG_PER_RAD := by decide +kernel
theorem QUATERNIONS_unchanged : Gen.QUATERNIONS = Ref.QUATERNIONS := by decide +kernel
theorem LONGITUDE_OFFSET_unchanged : Gen.LONGITUDE_OFFSET = Ref.LONGITUDE_OFFSET := by decide +kernel
theorem POLE_LAT_LO_unchanged : Gen.POLE_LAT_LO = Ref.POLE_LAT_LO := by decide +kernel
theorem POLE_LAT_HI_unchanged : Gen.POLE_LAT_HI = Ref.POLE_LAT_HI := by decide +kernel
theorem AUTHALIC_AREA_unchanged : Gen.AUTHALIC_AREA = Ref.AUTHALIC_AREA := by decide +kernel
theorem NUM_CELLS_SPECIAL_unchanged : Gen.NUM_CELLS_SPECIAL = Ref.NUM_CELLS_SPECIAL := by decide +kernel
theorem NUM_CELLS_FACTOR_unchanged : Gen.NUM_CELLS_FACTOR = Ref.NUM_CELLS_FACTOR := by decide +kernel
theorem CELL_AREA_TABLE_unchanged : Gen.CELL_AREA_TABLE = Ref.CELL_AREA_TABLE := by decide +kernel
theorem GEODETIC_TO_AUTHALIC_unchanged : Gen.GEODETIC_TO_AUTHALIC = Ref.GEODETIC_TO_AUTHALIC := by decide +kernel
theorem AUTHALIC_TO_GEODETIC_unchanged : Gen.AUTHALIC_TO_GEODETIC = Ref.AUTHALIC_TO_GEODETIC := by decide +kernel
theorem PENT_SEED_C_X_unchanged : Gen.PENT_SEED_C_X = Ref.PENT_SEED_C_X := by decide +kernel
theorem PENT_SEED_C_Y_unchanged : Gen.PENT_SEED_C_Y = Ref.PENT_SEED_C_Y := by decide +kernel
theorem PENT_SEED_D_X_unchanged : Gen.PENT_SEED_D_X = Ref.PENT_SEED_D_X := by decide +kernel
theorem PENT_SEED_D_Y_unchanged : Gen.PENT_SEED_D_Y = Ref.PENT_SEED_D_Y := by decide +kernel
theorem PROBE_COUNT_unchanged : Gen.PROBE_COUNT = Ref.PROBE_COUNT := by decide +kernel
theorem PROBE_SCALE_unchanged : Gen.PROBE_SCALE = Ref.PROBE_SCALE := by decide +kernel
theorem DEFAULT_SEGMENTS_BASE_unchanged : Gen.DEFAULT_SEGMENTS_BASE = Ref.DEFAULT_SEGMENTS_BASE := by decide +kernel
theorem POLY_SNAP_EPS_unchanged : Gen.POLY_SNAP_EPS = Ref.POLY_SNAP_EPS := by decide +kernel
theorem SAFE_ACOS_SWITCH_unchanged : Gen.SAFE_ACOS_SWITCH = Ref.SAFE_ACOS_SWITCH := by decide +kernel
theorem VECDIFF_SWITCH_unchanged : Gen.VECDIFF_SWITCH = Ref.VECDIFF_SWITCH := by decide +kernel
theorem SLERP_SWITCH_unchanged : Gen.SLERP_SWITCH = Ref.SLERP_SWITCH := by decide +kernel
theorem CRS_TOL_unchanged : Gen.CRS_TOL = Ref.CRS_TOL := by decide +kernel
theorem CRS_ADD_TOL_unchanged : Gen.CRS_ADD_TOL = Ref.CRS_ADD_TOL := by decide +kernel
theorem CRS_WARN_AT_unchanged : Gen.CRS_WARN_AT = Ref.CRS_WARN_AT := by decide +kernel
theorem TRI_AREA_SWITCH_unchanged : Gen.TRI_AREA_SWITCH = Ref.TRI_AREA_SWITCH := by decide +kernel
theorem MEMO_FACE_SLOTS_unchanged : Gen.MEMO_FACE_SLOTS = Ref.MEMO_FACE_SLOTS := by decide +kernel
theorem MEMO_SPH_SLOTS_unchanged : Gen.MEMO_SPH_SLOTS = Ref.MEMO_SPH_SLOTS := by decide +kernel
theorem MEMO_FACE_SQUASHED_OFFSET_unchanged : Gen.MEMO_FACE_SQUASHED_OFFSET = Ref.MEMO_FACE_SQUASHED_OFFSET := by decide +kernel
theorem MEMO_FACE_REFLECTED_OFFSET_unchanged : Gen.MEMO_FACE_REFLECTED_OFFSET = Ref.MEMO_FACE_REFLECTED_OFFSET := by decide +kernel
theorem MEMO_SPH_STRIDE_unchanged : Gen.MEMO_SPH_STRIDE = Ref.MEMO_SPH_STRIDE := by decide +kernel
theorem MEMO_SPH_REFLECTED_OFFSET_unchanged : Gen.MEMO_SPH_REFLECTED_OFFSET = Ref.MEMO_SPH_REFLECTED_OFFSET := by decide +kernel
theorem FACE_TRIANGLE_MAX_unchanged : Gen.FACE_TRIANGLE_MAX = Ref.FACE_TRIANGLE_MAX := by decide +kernel

/-- T1. all generated tables equal the frozen reference tables -/
theorem tables_unchanged :
    Gen.FIRST_HILBERT_RESOLUTION = Ref.FIRST_HILBERT_RESOLUTION ∧
    Gen.MAX_RESOLUTION = Ref.MAX_RESOLUTION ∧
    Gen.HILBERT_START_BIT = Ref.HILBERT_START_BIT ∧
    Gen.REMOVAL_MASK = Ref.REMOVAL_MASK ∧
    Gen.ORIGIN_SEGMENT_MASK = Ref.ORIGIN_SEGMENT_MASK ∧
    Gen.WORLD_CELL = Ref.WORLD_CELL ∧
    Gen.FIRST_CHILD_COUNT_RES0 = Ref.FIRST_CHILD_COUNT_RES0 ∧
    Gen.FIRST_CHILD_COUNT_RES1 = Ref.FIRST_CHILD_COUNT_RES1 ∧
    Gen.MAX_CHILD_DIFF = Ref.MAX_CHILD_DIFF ∧
    Gen.NUM_ORIGINS_WORLD = Ref.NUM_ORIGINS_WORLD ∧
    Gen.NEW_SEGMENTS = Ref.NEW_SEGMENTS ∧
    Gen.SIBLINGS_HILBERT = Ref.SIBLINGS_HILBERT ∧
    Gen.SIBLINGS_RES0 = Ref.SIBLINGS_RES0 ∧
    Gen.SIBLINGS_RES1 = Ref.SIBLINGS_RES1 ∧
    Gen.CLOCKWISE_FAN = Ref.CLOCKWISE_FAN ∧
    Gen.CLOCKWISE_STEP = Ref.CLOCKWISE_STEP ∧
    Gen.COUNTER_STEP = Ref.COUNTER_STEP ∧
    Gen.COUNTER_JUMP = Ref.COUNTER_JUMP ∧
    Gen.QUINTANT_ORIENTATIONS_ARRAYS = Ref.QUINTANT_ORIENTATIONS_ARRAYS ∧
    Gen.QUINTANT_FIRST = Ref.QUINTANT_FIRST ∧
    Gen.ORIGIN_ORDER = Ref.ORIGIN_ORDER ∧
    Gen.CLOCKWISE_LAYOUTS = Ref.CLOCKWISE_LAYOUTS ∧
    Gen.RING2_QUAT_ADD = Ref.RING2_QUAT_ADD ∧
    Gen.RING2_QUAT_MOD = Ref.RING2_QUAT_MOD ∧
    Gen.RING2_QUAT_BASE = Ref.RING2_QUAT_BASE ∧
    Gen.SOUTH_QUAT_INDEX = Ref.SOUTH_QUAT_INDEX ∧
    Gen.IS_NEAREST_THRESHOLD = Ref.IS_NEAREST_THRESHOLD ∧
    Gen.PATTERN = Ref.PATTERN ∧
    Gen.PATTERN_FLIPPED = Ref.PATTERN_FLIPPED ∧
    Gen.YES = Ref.YES ∧
    Gen.NO = Ref.NO ∧
    Gen.QUATERNARY_TO_FLIPS = Ref.QUATERNARY_TO_FLIPS ∧
    Gen.KJ_PQ_TABLE = Ref.KJ_PQ_TABLE ∧
    Gen.KJ_DIGIT_COEFF = Ref.KJ_DIGIT_COEFF ∧
    Gen.FLIP_SHIFT = Ref.FLIP_SHIFT ∧
    Gen.S2A_REVERSE_SET = Ref.S2A_REVERSE_SET ∧
    Gen.IJ2S_REVERSE_SET = Ref.IJ2S_REVERSE_SET ∧
    Gen.S2A_INVERT_J_SET = Ref.S2A_INVERT_J_SET ∧
    Gen.IJ2S_INVERT_J_SET = Ref.IJ2S_INVERT_J_SET ∧
    Gen.S2A_FLIP_IJ_SET = Ref.S2A_FLIP_IJ_SET ∧
    Gen.IJ2S_FLIP_IJ_SET = Ref.IJ2S_FLIP_IJ_SET ∧
    Gen.PHI = Ref.PHI ∧
    Gen.TWO_PI = Ref.TWO_PI ∧
    Gen.TWO_PI_OVER_5 = Ref.TWO_PI_OVER_5 ∧
    Gen.PI_OVER_5 = Ref.PI_OVER_5 ∧
    Gen.PI_OVER_10 = Ref.PI_OVER_10 ∧
    Gen.DIHEDRAL_ANGLE = Ref.DIHEDRAL_ANGLE ∧
    Gen.INTERHEDRAL_ANGLE = Ref.INTERHEDRAL_ANGLE ∧
    Gen.FACE_EDGE_ANGLE = Ref.FACE_EDGE_ANGLE ∧
    Gen.DISTANCE_TO_EDGE = Ref.DISTANCE_TO_EDGE ∧
    Gen.DISTANCE_TO_VERTEX = Ref.DISTANCE_TO_VERTEX ∧
    Gen.R_INSCRIBED = Ref.R_INSCRIBED ∧
    Gen.R_MIDEDGE = Ref.R_MIDEDGE ∧
    Gen.R_CIRCUMSCRIBED = Ref.R_CIRCUMSCRIBED ∧
    Gen.PI = Ref.PI ∧
    Gen.FRAC_PI_2 = Ref.FRAC_PI_2 ∧
    Gen.PI_OVER_180 = Ref.PI_OVER_180 ∧
    Gen.DEG_PER_RAD = Ref.DEG_PER_RAD ∧
    Gen.QUATERNIONS = Ref.QUATERNIONS ∧
    Gen.LONGITUDE_OFFSET = Ref.LONGITUDE_OFFSET ∧
    Gen.POLE_LAT_LO = Ref.POLE_LAT_LO ∧
    Gen.POLE_LAT_HI = Ref.POLE_LAT_HI ∧
    Gen.AUTHALIC_AREA = Ref.AUTHALIC_AREA ∧
    Gen.NUM_CELLS_SPECIAL = Ref.NUM_CELLS_SPECIAL ∧
    Gen.NUM_CELLS_FACTOR = Ref.NUM_CELLS_FACTOR ∧
    Gen.CELL_AREA_TABLE = Ref.CELL_AREA_TABLE ∧
    Gen.GEODETIC_TO_AUTHALIC = Ref.GEODETIC_TO_AUTHALIC ∧
    Gen.AUTHALIC_TO_GEODETIC = Ref.AUTHALIC_TO_GEODETIC ∧
    Gen.PENT_SEED_C_X = Ref.PENT_SEED_C_X ∧
    Gen.PENT_SEED_C_Y = Ref.PENT_SEED_C_Y ∧
    Gen.PENT_SEED_D_X = Ref.PENT_SEED_D_X ∧
    Gen.PENT_SEED_D_Y = Ref.PENT_SEED_D_Y ∧
    Gen.PROBE_COUNT = Ref.PROBE_COUNT ∧
    Gen.PROBE_SCALE = Ref.PROBE_SCALE ∧
    Gen.DEFAULT_SEGMENTS_BASE = Ref.DEFAULT_SEGMENTS_BASE ∧
    Gen.POLY_SNAP_EPS = Ref.POLY_SNAP_EPS ∧
    Gen.SAFE_ACOS_SWITCH = Ref.SAFE_ACOS_SWITCH ∧
    Gen.VECDIFF_SWITCH = Ref.VECDIFF_SWITCH ∧
    Gen.SLERP_SWITCH = Ref.SLERP_SWITCH ∧
    Gen.CRS_TOL = Ref.CRS_TOL ∧
    Gen.CRS_ADD_TOL = Ref.CRS_ADD_TOL ∧
    Gen.CRS_WARN_AT = Ref.CRS_WARN_AT ∧
    Gen.TRI_AREA_SWITCH = Ref.TRI_AREA_SWITCH ∧
    Gen.MEMO_FACE_SLOTS = Ref.MEMO_FACE_SLOTS ∧
    Gen.MEMO_SPH_SLOTS = Ref.MEMO_SPH_SLOTS ∧
    Gen.MEMO_FACE_SQUASHED_OFFSET = Ref.MEMO_FACE_SQUASHED_OFFSET ∧
    Gen.MEMO_FACE_REFLECTED_OFFSET = Ref.MEMO_FACE_REFLECTED_OFFSET ∧
    Gen.MEMO_SPH_STRIDE = Ref.MEMO_SPH_STRIDE ∧
    Gen.MEMO_SPH_REFLECTED_OFFSET = Ref.MEMO_SPH_REFLECTED_OFFSET ∧
    Gen.FACE_TRIANGLE_MAX = Ref.FACE_TRIANGLE_MAX :=
  ⟨FIRST_HILBERT_RESOLUTION_unchanged, MAX_RESOLUTION_unchanged, HILBERT_START_BIT_unchanged, REMOVAL_MASK_unchanged, ORIGIN_SEGMENT_MASK_unchanged, WORLD_CELL_unchanged, FIRST_CHILD_COUNT_RES0_unchanged, FIRST_CHILD_COUNT_RES1_unchanged, MAX_CHILD_DIFF_unchanged, NUM_ORIGINS_WORLD_unchanged, NEW_SEGMENTS_unchanged, SIBLINGS_HILBERT_unchanged, SIBLINGS_RES0_unchanged, SIBLINGS_RES1_unchanged, CLOCKWISE_FAN_unchanged, CLOCKWISE_STEP_unchanged, COUNTER_STEP_unchanged, COUNTER_JUMP_unchanged, QUINTANT_ORIENTATIONS_ARRAYS_unchanged, QUINTANT_FIRST_unchanged, ORIGIN_ORDER_unchanged, CLOCKWISE_LAYOUTS_unchanged, RING2_QUAT_ADD_unchanged, RING2_QUAT_MOD_unchanged, RING2_QUAT_BASE_unchanged, SOUTH_QUAT_INDEX_unchanged, IS_NEAREST_THRESHOLD_unchanged, PATTERN_unchanged, PATTERN_FLIPPED_unchanged, YES_unchanged, NO_unchanged, QUATERNARY_TO_FLIPS_unchanged, KJ_PQ_TABLE_unchanged, KJ_DIGIT_COEFF_unchanged, FLIP_SHIFT_unchanged, S2A_REVERSE_SET_unchanged, IJ2S_REVERSE_SET_unchanged, S2A_INVERT_J_SET_unchanged, IJ2S_INVERT_J_SET_unchanged, S2A_FLIP_IJ_SET_unchanged, IJ2S_FLIP_IJ_SET_unchanged, PHI_unchanged, TWO_PI_unchanged, TWO_PI_OVER_5_unchanged, PI_OVER_5_unchanged, PI_OVER_10_unchanged, DIHEDRAL_ANGLE_unchanged, INTERHEDRAL_ANGLE_unchanged, FACE_EDGE_ANGLE_unchanged, DISTANCE_TO_EDGE_unchanged, DISTANCE_TO_VERTEX_unchanged, R_INSCRIBED_unchanged, R_MIDEDGE_unchanged, R_CIRCUMSCRIBED_unchanged, PI_unchanged, FRAC_PI_2_unchanged, PI_OVER_180_unchanged, DEG_PER_RAD_unchanged, QUATERNIONS_unchanged, LONGITUDE_OFFSET_unchanged, POLE_LAT_LO_unchanged, POLE_LAT_HI_unchanged, AUTHALIC_AREA_unchanged, NUM_CELLS_SPECIAL_unchanged, NUM_CELLS_FACTOR_unchanged, CELL_AREA_TABLE_unchanged, GEODETIC_TO_AUTHALIC_unchanged, AUTHALIC_TO_GEODETIC_unchanged, PENT_SEED_C_X_unchanged, PENT_SEED_C_Y_unchanged, PENT_SEED_D_X_unchanged, PENT_SEED_D_Y_unchanged, PROBE_COUNT_unchanged, PROBE_SCALE_unchanged, DEFAULT_SEGMENTS_BASE_unchanged, POLY_SNAP_EPS_unchanged, SAFE_ACOS_SWITCH_unchanged, VECDIFF_SWITCH_unchanged, SLERP_SWITCH_unchanged, CRS_TOL_unchanged, CRS_ADD_TOL_unchanged, CRS_WARN_AT_unchanged, TRI_AREA_SWITCH_unchanged, MEMO_FACE_SLOTS_unchanged, MEMO_SPH_SLOTS_unchanged, MEMO_FACE_SQUASHED_OFFSET_unchanged, MEMO_FACE_REFLECTED_OFFSET_unchanged, MEMO_SPH_STRIDE_unchanged, MEMO_SPH_REFLECTED_OFFSET_unchanged, FACE_TRIANGLE_MAX_unchanged⟩

/-- non-vacuity: the tables are not trivial -/
example : Gen.PATTERN.length = 8 ∧ Gen.QUATERNIONS.length = 12 ∧ Gen.CELL_AREA_TABLE.length = 31 := by decide

end A5.C06
