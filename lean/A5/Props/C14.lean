import A5.Lemmas.Total3
import A5.Lemmas.HexLemmas
import A5.Lemmas.PentagonConvex2
import A5.Lemmas.FloatApiTotal2
/-! # C14 — the integer API is total: no panic, no overflow, no non-termination; errors or valid results

Model: `A5/Model/Codec.lean`, `Hier.lean`, `Compact.lean`, `Hex.lean`.  `Outcome.panic k` marks every point
where the overflow-checked build of the Rust code panics (checked `+ - * <<`, index out of bounds,
allocation capacity, fuel exhaustion = non-termination), so `isPanic = false` is the statement
"returns normally in every build profile".

All theorems quantify over **every** `id : Nat` (not even `id < 2^64` is needed), **every** integer
resolution `r : Int` (hence every `i32`) and every finite list.  Scope conditions that are genuinely
needed are explicit hypotheses and each has a kernel-checked witness in the section *findings* below:

* `serialize` takes a record, not an id: its origin must name a face (`origin < 12`);
* `uncompact`: the honest result must be small, `uncompactSize cells R < 2^60`
  (`Vec::with_capacity` of more than `2^63` bytes aborts);
* `getNumChildren p c` (helper, not re-exported at the crate root): `c ≤ 29`; exact panic set given.

`compact` needs **no** hypothesis. -/
namespace A5.C14
open A5

/-! ## T1. Totality -/

/-- T1a. `get_resolution` is a total function with values in `-1 ..= 29`; `get_num_cells` is a total
function into `u64` (saturating) for every integer. -/
theorem resolution_and_count_total (id : Nat) (r : Int) :
    (-1 ≤ getResolution id ∧ getResolution id ≤ 29) ∧ getNumCells r < 2 ^ 64 :=
  ⟨getResolution_range id, getNumCells_lt r⟩

/-- T1b. exact panic set of `get_num_children`, for all integers: `4^(c-p)` overflows iff the parent is
on the curve levels and the child is ≥ 32 levels finer.  Never for `c ≤ 29`. -/
theorem getNumChildren_panics_iff (p c : Int) :
    (getNumChildren p c).isPanic = true ↔ 2 ≤ p ∧ 32 ≤ c - p := getNumChildren_isPanic_iff p c

/-- T1c. `compact` never panics and always terminates, for every list whatsoever.  (The termination
argument: every pass of the `while changed` loop that reports a change replaces `k ≥ 4` elements by
one, so the fuel `length + 1` is never exhausted: `compactLoop_ok`.) -/
theorem compact_total (cells : List Nat) : (compact cells).isPanic = false := compact_never_panics cells

/-- T1c'. the ingredients of the termination argument, as stated in the model's terms: one scan of a
list of canonical ids is `ok`, stays canonical, does not grow, and shrinks when it reports a change. -/
theorem compact_scan_measure (xs : List Nat) (h : ∀ x ∈ xs, Layout x) :
    ∃ out ch, compactScan xs 0 = .ok (out, ch) ∧ (∀ x ∈ out, Layout x) ∧ out.length ≤ xs.length ∧
      (ch = true → out.length < xs.length) := by
  obtain ⟨out, ch, e, ho, hle, hch⟩ := compactScan_ok xs 0 h
  exact ⟨out, ch, e, ho, by omega, hch rfl⟩

/-- T1c''. the loop with fuel exceeding the length never reaches `.panic .fuel`. -/
theorem compact_loop_terminates (fuel : Nat) (xs : List Nat) (h : ∀ x ∈ xs, Layout x) (hf : xs.length < fuel) :
    ∃ out, compactLoop fuel xs = .ok out ∧ (∀ x ∈ out, Layout x) ∧ out.length ≤ xs.length :=
  compactLoop_ok fuel xs h hf

/-- T1d. `uncompact` never panics when the honest result has fewer than `2^60` cells. -/
theorem uncompact_total (cells : List Nat) (R : Int) (hsmall : uncompactSize cells R < 2 ^ 60) :
    (uncompact cells R).isPanic = false := uncompact_never_panics cells R hsmall

/-- **T1 `int_api_total`.** -/
theorem int_api_total :
    (∀ id : Nat, (deserialize id).isPanic = false) ∧
    (∀ c : Cell, c.origin < 12 → c.segment + 5 < 2 ^ 64 → (serialize c).isPanic = false) ∧
    (∀ (id : Nat) (r : Option Int), (cellToParent id r).isPanic = false) ∧
    (∀ (id : Nat) (r : Option Int), (cellToChildren id r).isPanic = false) ∧
    getRes0Cells.isPanic = false ∧
    (∀ p c : Int, c ≤ 29 → (getNumChildren p c).isPanic = false) ∧
    (∀ s : List Nat, (hexToU64 s).isPanic = false) ∧
    (∀ n : Nat, n < 2 ^ 64 → 1 ≤ (u64ToHex n).length ∧ (u64ToHex n).length ≤ 16) ∧
    (∀ (cells : List Nat) (R : Int), uncompactSize cells R < 2 ^ 60 → (uncompact cells R).isPanic = false) ∧
    (∀ cells : List Nat, (compact cells).isPanic = false) :=
  ⟨deserialize_never_panics',
   fun c ho hs => serialize_never_panics c ho hs,
   cellToParent_never_panics,
   cellToChildren_never_panics,
   cellToChildren_never_panics _ _,
   fun p c hc => getNumChildren_never_panics p c hc,
   hexToU64_never_panics,
   u64ToHex_length,
   uncompact_never_panics,
   compact_never_panics⟩

/-! ## T2. Results are valid; non-canonical bit patterns are treated as the cell they alias -/

/-- **T2 `int_api_valid_results`.** -/
theorem int_api_valid_results :
    -- parents: canonical id of exactly the requested resolution (the world cell `0` for `-1`)
    (∀ (id : Nat) (r : Int) (x : Nat), cellToParent id (some r) = .ok x →
        Layout x ∧ getResolution x = r ∧ (r = -1 → x = 0)) ∧
    (∀ (id x : Nat), cellToParent id none = .ok x → Layout x ∧ getResolution x = getResolution id - 1) ∧
    -- children: canonical ids of exactly the requested resolution
    (∀ (id : Nat) (r : Int) (xs : List Nat), cellToChildren id (some r) = .ok xs →
        ∀ x ∈ xs, Layout x ∧ getResolution x = r) ∧
    (∀ (id : Nat) (xs : List Nat), cellToChildren id none = .ok xs →
        ∀ x ∈ xs, Layout x ∧ getResolution x = getResolution id + 1) ∧
    (∃ xs, getRes0Cells = .ok xs ∧ xs.length = 12 ∧ ∀ x ∈ xs, Layout x ∧ getResolution x = 0) ∧
    -- uncompact / compact
    (∀ (cells : List Nat) (R : Int) (ys : List Nat), uncompact cells R = .ok ys →
        ∀ y ∈ ys, Layout y ∧ getResolution y = R) ∧
    (∀ cells out : List Nat, compact cells = .ok out → (∀ x ∈ out, Layout x) ∧ out.length ≤ cells.length) := by
  refine ⟨?_, ?_, ?_, ?_, ?_, ?_, ?_⟩
  · intro id r x h
    obtain ⟨a, b, _, _⟩ := cellToParent_some_valid id r x h
    exact ⟨a, b, fun hr => layout_res_neg x a (by omega)⟩
  · intro id x h
    obtain ⟨a, b, _⟩ := cellToParent_none_valid id x h
    exact ⟨a, b⟩
  · intro id r xs h; exact (cellToChildren_some_valid id r xs h).1
  · intro id xs h; exact (cellToChildren_none_valid id xs h).1
  · refine ⟨_, getRes0Cells_eq, by decide, ?_⟩
    exact (cellToChildren_some_valid 0 0 _ getRes0Cells_eq).1
  · intro cells R ys h; exact (uncompact_valid cells R ys h).1
  · intro cells out h; exact compact_valid cells out h

/-- **T2 aliasing.**  Every id either does not decode (`badOrigin`) or decodes to a valid record `c`
whose canonical id `encNat c` is in the documented layout, has the same resolution, and is
indistinguishable from `id` for every hierarchy call. -/
theorem alias_canonical (id : Nat) :
    deserialize id = .err .badOrigin ∨
    ∃ c, deserialize id = .ok c ∧ c.Valid ∧ Layout (encNat c) ∧ deserialize (encNat c) = .ok c ∧
      getResolution (encNat c) = getResolution id ∧
      (∀ r, cellToParent id r = cellToParent (encNat c) r) ∧
      (∀ r, cellToChildren id r = cellToChildren (encNat c) r) ∧
      (∀ l R, uncompact (id :: l) R = uncompact (encNat c :: l) R) ∧
      (∀ l, compact (id :: l) = compact (encNat c :: l)) := by
  rcases deserialize_cases id with ⟨c, hd⟩ | hd
  · have hv := deserialize_ok_valid' id c hd
    exact Or.inr ⟨c, hd, hv, layout_enc c hv, deserialize_enc c hv, getResolution_alias id c hd,
      fun r => cellToParent_alias id c r hd, fun r => cellToChildren_alias id c r hd,
      fun l R => uncompact_alias id c l R hd, fun l => compact_alias id c l hd⟩
  · exact Or.inl hd

/-- a bit pattern that is not a cell is rejected by every call (never silently mapped to a cell) -/
theorem non_cell_rejected (id : Nat) (hd : deserialize id = .err .badOrigin) :
    (∀ r, cellToParent id r = .err .badOrigin) ∧ (∀ r, cellToChildren id r = .err .badOrigin) ∧
    (∀ l, compact (id :: l) = .err .badOrigin) ∧
    (∀ cells out, id ∈ cells → compact cells ≠ .ok out) ∧
    (∀ cells R ys, id ∈ cells → uncompact cells R ≠ .ok ys) := by
  refine ⟨fun r => cellToParent_err id _ r hd, fun r => cellToChildren_err id _ r hd,
    fun l => compact_bad_head id l hd, ?_, ?_⟩
  · intro cells out hm h
    obtain ⟨cell, hc⟩ := compact_ok_decodes cells out h id hm
    rewrite [hd] at hc; cases hc
  · intro cells R ys hm h
    obtain ⟨⟨cell, hc⟩, _⟩ := uncompact_ok_decodes cells R ys h id hm
    rewrite [hd] at hc; cases hc

/-! ## T3. Out-of-range resolutions are rejected, never wrapped -/

/-- exact success condition of `cell_to_parent` -/
theorem cellToParent_isOk_iff (id : Nat) (r : Int) :
    (cellToParent id (some r)).isOk = true ↔
      (∃ c, deserialize id = .ok c) ∧ -1 ≤ r ∧ r ≤ getResolution id := by
  constructor
  · intro h
    cases hx : cellToParent id (some r) with
    | ok x =>
      obtain ⟨_, _, a, b⟩ := cellToParent_some_valid id r x hx
      rcases deserialize_cases id with hd | hd
      · exact ⟨hd, a, b⟩
      · rewrite [cellToParent_err id _ _ hd] at hx; cases hx
    | err e => rewrite [hx] at h; cases h
    | panic k => rewrite [hx] at h; cases h
  · rintro ⟨⟨c, hd⟩, h1, h2⟩
    have hres := deserialize_res id c hd
    by_cases hm : r = -1
    · subst hm; rewrite [cellToParent_world id c hd]; rfl
    · obtain ⟨x, hx, _⟩ := cellToParent_ok id c r hd (by omega) (by omega)
      rewrite [hx]; rfl

/-- exact success condition of `cell_to_children` -/
theorem cellToChildren_isOk_iff (id : Nat) (r : Int) :
    (cellToChildren id (some r)).isOk = true ↔
      (∃ c, deserialize id = .ok c) ∧ getResolution id ≤ r ∧ r ≤ 29 ∧
        (r = getResolution id ∨ r - max (getResolution id) 1 ≤ 20) := by
  constructor
  · intro h
    cases hx : cellToChildren id (some r) with
    | ok xs =>
      obtain ⟨_, a, b⟩ := cellToChildren_some_valid id r xs hx
      rcases deserialize_cases id with ⟨c, hd⟩ | hd
      · refine ⟨⟨c, hd⟩, a, b, ?_⟩
        have hres := deserialize_res id c hd
        by_cases he : r = getResolution id
        · exact Or.inl he
        · refine Or.inr ?_
          apply Classical.byContradiction
          intro hbig
          rewrite [cellToChildren_diff id c r hd (by omega) (by omega) (by omega)] at hx
          cases hx
      · rewrite [cellToChildren_err id _ _ hd] at hx; cases hx
    | err e => rewrite [hx] at h; cases h
    | panic k => rewrite [hx] at h; cases h
  · rintro ⟨⟨c, hd⟩, h1, h2, h3⟩
    have hres := deserialize_res id c hd
    by_cases he : r = c.res
    · subst he; rewrite [cellToChildren_self id c hd]; rfl
    · obtain ⟨xs, hx, _⟩ := cellToChildren_ok id c r hd (by omega) h2 (by omega)
      rewrite [hx]; rfl

/-- **T3 `errors_exact`.**  For an id that decodes (`deserialize id = .ok c`, so `c.res = getResolution id`): -/
theorem errors_exact (id : Nat) (c : Cell) (hd : deserialize id = .ok c) (r : Int) :
    c.res = getResolution id ∧
    -- cell_to_parent
    (r < -1 → cellToParent id (some r) = .err .negative) ∧
    (0 ≤ r → getResolution id < r → cellToParent id (some r) = .err .targetFiner) ∧
    -- cell_to_children
    (r < getResolution id → cellToChildren id (some r) = .err .targetCoarser) ∧
    (30 < r → cellToChildren id (some r) = .err .exceedsMax) ∧
    (getResolution id < r → r ≤ 30 → 20 < r - max (getResolution id) 1 →
        cellToChildren id (some r) = .err .diffTooLarge) ∧
    -- r = 30 passes the `> MAX_RESOLUTION` guard of the model/Rust code, and is then rejected:
    (r = 30 → getResolution id < 10 → cellToChildren id (some r) = .err .diffTooLarge) ∧
    (r = 30 → 10 ≤ getResolution id → cellToChildren id (some r) = .err .resTooLarge) ∧
    -- default targets at the ends of the range
    (getResolution id = -1 → cellToParent id none = .err .negative) ∧
    (getResolution id = 29 → cellToChildren id none = .err .resTooLarge) := by
  have hres := deserialize_res id c hd
  have hrr := getResolution_range id
  refine ⟨hres, ?_, ?_, ?_, ?_, ?_, ?_, ?_, ?_, ?_⟩
  · intro h; exact cellToParent_negative id c r hd h
  · intro h0 h; exact cellToParent_finer id c r hd h0 (by omega)
  · intro h; exact cellToChildren_coarser id c r hd (by omega)
  · intro h; exact cellToChildren_exceeds id c r hd h
  · intro h1 h2 h3; exact cellToChildren_diff id c r hd (by omega) h2 (by rewrite [hres]; exact h3)
  · intro h1 h2; subst h1
    exact cellToChildren_diff id c 30 hd (by omega) (by omega) (by omega)
  · intro h1 h2; subst h1; exact cellToChildren_res30 id c hd (by omega)
  · intro h
    rewrite [cellToParent_none id c hd]
    exact cellToParent_negative id c _ hd (by omega)
  · intro h
    rewrite [cellToChildren_none id c hd, show c.res + 1 = 30 by omega]
    exact cellToChildren_res30 id c hd (by omega)

/-- T3 for the list functions and the encoder -/
theorem errors_exact_lists :
    (∀ (cells : List Nat) (R : Int), 30 ≤ R → uncompact cells R = .err .exceedsMax) ∧
    (∀ (c : Nat) (cs : List Nat) (R : Int), R < getResolution c → uncompact (c :: cs) R = .err .targetCoarser) ∧
    (∀ (c : Nat) (cs : List Nat) (R : Int), R < -1 → uncompact (c :: cs) R = .err .targetCoarser) ∧
    (∀ c : Cell, 30 ≤ c.res → serialize c = .err .resTooLarge) ∧
    (∀ c : Cell, c.res < -1 → serialize c = .err .resNegative) := by
  refine ⟨uncompact_exceeds, uncompact_coarser, ?_, serialize_res_too_large, serialize_res_negative⟩
  intro c cs R h
  have := getResolution_range c
  exact uncompact_coarser c cs R (by omega)

/-! ## non-vacuity -/

-- a non-canonical alias (stray low bit) of the resolution-4 cell `0x92d8000000000000`
example : deserialize 0x92d8000000000001 = .ok ⟨7, 3, 0x2d, 4⟩ := by decide
example : encNat ⟨7, 3, 0x2d, 4⟩ = 0x92d8000000000000 := by decide
example : cellToChildren 0x92d8000000000001 (some 5) =
    .ok [0x92d2000000000000, 0x92d6000000000000, 0x92da000000000000, 0x92de000000000000] := by decide
example : cellToParent 0x92d8000000000001 (some 4) = .ok 0x92d8000000000000 := by decide
example : cellToParent 0x92d8000000000001 (some 30) = .err .targetFiner := by decide
example : cellToChildren 0x92d8000000000001 (some 30) = .err .diffTooLarge := by decide
example : cellToChildren 0x92d8000000000001 (some (-2147483648)) = .err .targetCoarser := by decide
example : cellToChildren 0x92d8000000000001 (some 2147483647) = .err .exceedsMax := by decide
-- a merge, with an alias and a duplicate in the input
example : compact [0x92d2000000000000, 0x92d6000000000001, 0x92da000000000000, 0x92de000000000000,
    0x92d6000000000000] = .ok [0x92d8000000000000] := by decide
-- malformed input is an error, not a panic
example : compact [0xf200000000000000, 1, 3] = .err .badOrigin := by decide
example : deserialize 0xf200000000000000 = .err .badOrigin := by decide
-- the scope condition of `uncompact_total` is met by a non-trivial input
example : uncompactSize [0x92d8000000000001, 0x92d2000000000000] 6 = 20 := by decide
example : (uncompact [0x92d8000000000001, 0x92d2000000000000] 6).isPanic = false :=
  uncompact_total _ _ (by decide)
example : uncompact [0x92d8000000000001, 0] 0 = .err .targetCoarser := by decide
-- hypotheses of `compact_scan_measure`
example : Layout 0x92d8000000000000 := layout_enc ⟨7, 3, 0x2d, 4⟩ (by decide)

/-! ## findings: where the model (= the overflow-checked build) *does* panic, with witnesses

These are exactly the scope conditions above; each is the weakest hypothesis of its theorem. -/

/-- F-a. `serialize` indexes the origin table with the record's origin: a record whose origin is not a
face panics (index out of bounds).  Not reachable from the id-based API (`deserialize` only produces
origins `< 12`: `deserialize_ok_valid'`). -/
example : (serialize ⟨12, 0, 0, 0⟩).isPanic = true := by decide

/-- F-b. `uncompact` of the world cell to resolution 29 asks for `4.3·10^18` cells:
`Vec::with_capacity` aborts ("capacity overflow").  Five such inputs overflow the `usize` sum first. -/
example : uncompact [0] 29 = .panic .capacity := by decide
example : uncompact [0, 0, 0, 0, 0] 29 = .panic .addOverflow := by decide

/-- F-c. `get_num_children(2, 34)` computes `4^32` in a `usize` (debug: panic; release: wraps to 0).
Public in `core::cell_info` but not re-exported; all internal callers pass a child resolution ≤ 29. -/
example : getNumChildren 2 34 = .panic .powOverflow := by decide

/-- F-d (known, F12; fixed by the canonicalisation in `compact`).  Without canonicalisation the sibling
test `cell + j·stride` overflows on malformed ids with top-6 bits 60..63: the frozen v0.6.2 algorithm
panics on this list, the current `compact` rejects it. -/
example : (compactV062 [0xf200000000000000, 0xf600000000000000, 0xfa00000000000000, 0xfe00000000000000,
    0xfe00000000000001, 0xfe00000000000002, 0xfe00000000000003, 0xfe00000000000004, 0xfe00000000000005,
    0xfe00000000000006, 0xfe00000000000007, 0xfe00000000000008]).isPanic = true := by decide
example : compact [0xf200000000000000, 0xf600000000000000, 0xfa00000000000000, 0xfe00000000000000,
    0xfe00000000000001, 0xfe00000000000002, 0xfe00000000000003, 0xfe00000000000004, 0xfe00000000000005,
    0xfe00000000000006, 0xfe00000000000007, 0xfe00000000000008] = .err .badOrigin := by decide
/-- the hypothesis `Layout c` of `groupAt_ok` is therefore necessary -/
example : (groupAt 0xf200000000000000 [0xf600000000000000, 0xfa00000000000000, 0xfe00000000000000,
    1, 2, 3, 4, 5, 6, 7, 8]).isPanic = true := by decide

/-! ## the one float-dependent panic of the lookup: `contains_point` on a clockwise pentagon -/

/-- `contains_point` panics exactly when its pentagon fails the winding test (for ALL float values). -/
theorem contains_panics_iff_not_ccw (vs : Poly) (p : V2) :
    polyContains vs p = .panic .notCCW ↔ windingCorrect vs = false :=
  PG.polyContains_panic_iff vs p

open A5.PG A5.HilbertLocate in
/-- ... and in exact arithmetic on the runtime constants that never happens: the pentagon drawn for ANY anchor, scaled by
any `s > 0` and transformed by any matrix of positive determinant, passes the winding test strictly (positive trapezoid
sum) and `PentagonShape::new` leaves it as it is.  What separates this from the `f64` run is rounding only (relative
2^-52·|offset| against an area of 0.6·s²) - not proved. -/
theorem exact_pentagon_passes_winding (a : Anchor) (hF : IsFlip a.flips) (s : Rat) (hs : 0 < s)
    (m : Rat × Rat × Rat × Rat) (hd : 0 < detG m) :
    WindingCorrectG 0 (placedQ a s m) ∧ 0 < areaG 0 (placedQ a s m) ∧ polyNewG 0 (placedQ a s m) = placedQ a s m := by
  obtain ⟨_, h2, h3, _⟩ := placedQ_facts a hF s hs m hd
  exact ⟨Rat.le_of_lt h2, h2, h3⟩

/-! ## the float-valued API: outcome-level totality for every id and every float -/

/-- `float_api_total`.  For EVERY id (indeed every natural number), every `Float` (NaN and infinities included), every
ring option and every origin id: `cell_to_lonlat` ends in ok / `badOrigin` (exactly for ids that do not decode) /
`crsVertex`; `cell_to_boundary` in ok / `badOrigin` / `crsVertex` / the fuel of the longitude-unwrapping loop (float
dependent: finite longitudes terminate); `a5cell_contains_point` on a decodable non-world id in ok / `crsVertex` /
`notCCW`; the projection in ok / `crsVertex` / `invalidOrigin` (exactly for origin ids ≥ 12); `get_pentagon` succeeds on
every decodable non-world id; the saturating cell count fits a `u64`.  No index, overflow, shift or unwrap panic is
reachable through the id-based float API. -/
theorem float_api_total :
    (∀ id : Nat, (∃ p, cellToLonLat id = .ok p) ∨ cellToLonLat id = .err .badOrigin ∨
        cellToLonLat id = .err .crsVertex) ∧
    (∀ (id : Nat) (closed : Bool) (segs : Option Nat),
        (∃ ring, cellToBoundary id closed segs = .ok ring) ∨ cellToBoundary id closed segs = .err .badOrigin ∨
        cellToBoundary id closed segs = .err .crsVertex ∨ cellToBoundary id closed segs = .panic .fuel) ∧
    (∀ (id : Nat) (c : Cell) (lon lat : Float), deserialize id = .ok c → getResolution id ≠ -1 →
        (∃ d, cellContainsPoint c lon lat = .ok d) ∨ cellContainsPoint c lon lat = .err .crsVertex ∨
        cellContainsPoint c lon lat = .panic .notCCW) ∧
    (∀ (theta phi : Float) (o : Nat),
        (∃ v, dodecaForward theta phi o = .ok v) ∨ (dodecaForward theta phi o = .err .crsVertex ∧ o < 12) ∨
        (dodecaForward theta phi o = .err .invalidOrigin ∧ 12 ≤ o)) ∧
    (∀ (f : V2) (o : Nat),
        (∃ v, dodecaInverse f o = .ok v) ∨ (dodecaInverse f o = .err .crsVertex ∧ o < 12) ∨
        (dodecaInverse f o = .err .invalidOrigin ∧ 12 ≤ o)) ∧
    (∀ (id : Nat) (c : Cell), deserialize id = .ok c → getResolution id ≠ -1 → ∃ p, getPentagon c = .ok p) ∧
    (∀ r : Int, getNumCells r < 2 ^ 64) :=
  _root_.A5.float_api_total

/-- Observation (outside the property's quantifiers, which range over ids, coordinates and resolutions): the two public
functions that take a hand-built `A5Cell` RECORD are not total on records no id decodes to - `get_pentagon` indexes the
origin table out of bounds for `origin_id ≥ 12`, and runs the digit loop with depth `-2 as usize` on a negative
resolution (the world record included). -/
theorem record_api_observation :
    (∀ c : Cell, 12 ≤ c.origin → getPentagon c = .panic .indexOOB) ∧
    (∀ c : Cell, c.origin < 12 → c.res < 0 → getPentagon c = .panic .fuel) :=
  ⟨_root_.A5.record_api_findings.1, _root_.A5.record_api_findings.2.1⟩

end A5.C14
