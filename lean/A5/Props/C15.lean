import A5.Model.GenericGeo
import A5.Lemmas.RadialRoundTrip
import A5.Lemmas.AngularRoundTrip2
import A5.Lemmas.PolyTies
import A5.Lemmas.RuntimeTriangles4
import Mathlib.Tactic.Ring
import Mathlib.Tactic.FieldSimp
import Mathlib.Tactic.LinearCombination
import Mathlib.Tactic.Linarith
import Mathlib.Algebra.Order.Field.Basic
/-! # C15 — the dodecahedron projection is invertible: algebraic skeleton and totality

Model (`A5/Model/Geo.lean`, at `Float`): `faceToBarycentric`, `barycentricToFace`, `baseFaceTriangle`,
`reflectedFaceTriangle`, `faceTriangleIndex`, `getFaceTriangle`, `polyhedralInverse`.
Generic twins (`A5/Model/GenericGeo.lean`): `A5.G.faceToBarycentricG`, `A5.G.barycentricToFaceG`,
`A5.G.triDetG`, `A5.G.midpointG`, `A5.G.reflectApexG`; tie lemmas (all `rfl`): `A5.G.faceToBarycentric_tie`,
`A5.G.barycentricToFace_tie`, `A5.G.baseFaceTriangle_tie`, `A5.G.reflectedFaceTriangle_tie`.

T1, T2 are proved about the twins over an arbitrary field; T3, T5 are theorems about the float model itself
(every `Float`, including NaN and ±∞).  The analytic part of the property (the spherical ⇄ planar triangle
maps `polyhedralForward` / `polyhedralInverse` being mutually inverse) is proved only in its RADIAL half (T6, over ℝ,
`A5/Lemmas/RadialRoundTrip.lean`): `safe_acos x = acos(1 - 2x²) = 2·asin x` up to 2.1e-16 on [0,1] including across
its small-angle switch (the switch value is the regenerated `Gen.SAFE_ACOS_SWITCH`, pinned to [1e-3, 1.001e-3] by
`safe_acos_switch_value`), `vector_difference` is the sine of half the angle, `slerp` walks the great circle, and the
inverse's `t = safe_acos(h k)/safe_acos(k)` recovers exactly the arc fraction the forward's `h = sin(AV/2)/sin(AP/2)`
encodes.  The ANGULAR half (T7, `A5/Lemmas/AngularRoundTrip*.lean`): the code's triangle area (2·asin of the triple product of
the normalised edge midpoints) satisfies Eriksson's formula `tan(E/2) = V/(1 + a·b + b·c + c·a)`, and the inverse's closed
formula `q = (2/θ)·atan2(g, f)` is exactly the parameter of the point `P = slerp(b, c, q)` with `area(a, b, P) = α`, in
both directions; T8 combines the halves: `inverse(forward v) = v` in exact real arithmetic for every `v` in the open
triangle, and within 5e-16 with the two-branch `safe_acos`.  NOT proved: float rounding; the small-|s| branch of the
area, the vertex snapping and the small-angle slerp branch (excluded by hypothesis); that the 120 dodecahedron triangles
built from the runtime constants satisfy the hypotheses (closed inequalities on constants, checked numerically on every
run by the round-trip search).  T9 restates the combined round trip on the GENERIC TWINS of `polyhedralForward` /
`polyhedralInverse` (`A5/Model/GenericPoly.lean`: one expression tree, tied to the Float model by `polyhedralForward_tie` /
`polyhedralInverse_tie` and to the real transcriptions used in T6-T8 by `A5/Lemmas/PolyTies.lean`, whose header lists the
five places where a transcription drops a branch: the small-|s| area branch, the vertex snapping, `2·asin` for `safe_acos`).
The full `Float` statement stays `projection_roundtrip_statement`. -/
namespace A5.C15
open A5 A5.G

/-! ## T1: face ⇄ barycentric coordinates are mutually inverse -/

section field
variable {K : Type} [Field K]

/-- T1a. `barycentricToFace (faceToBarycentric p t) t = p` whenever the triangle is non-degenerate. -/
theorem bary_roundtrip (px py ax ay bx «by» cx cy : K) (hdet : triDetG ax ay bx «by» cx cy ≠ 0) :
    barycentricToFaceG
      (faceToBarycentricG 1 px py ax ay bx «by» cx cy).1
      (faceToBarycentricG 1 px py ax ay bx «by» cx cy).2.1
      (faceToBarycentricG 1 px py ax ay bx «by» cx cy).2.2 ax ay bx «by» cx cy = (px, py) := by
  unfold triDetG at hdet
  simp only [faceToBarycentricG, barycentricToFaceG]
  refine Prod.ext ?_ ?_
  · simp only; field_simp; ring
  · simp only; field_simp; ring

/-- T1b. The three barycentric coordinates sum to 1 (for every triangle, even a degenerate one). -/
theorem bary_sum_one (px py ax ay bx «by» cx cy : K) :
    (faceToBarycentricG 1 px py ax ay bx «by» cx cy).1
      + (faceToBarycentricG 1 px py ax ay bx «by» cx cy).2.1
      + (faceToBarycentricG 1 px py ax ay bx «by» cx cy).2.2 = 1 := by
  simp only [faceToBarycentricG]; ring

/-- T1c. Conversely `faceToBarycentric (barycentricToFace b t) t = b` for weights that sum to 1. -/
theorem bary_roundtrip' (u v w ax ay bx «by» cx cy : K) (hdet : triDetG ax ay bx «by» cx cy ≠ 0)
    (hsum : u + v + w = 1) :
    faceToBarycentricG 1
      (barycentricToFaceG u v w ax ay bx «by» cx cy).1 (barycentricToFaceG u v w ax ay bx «by» cx cy).2
      ax ay bx «by» cx cy = (u, v, w) := by
  unfold triDetG at hdet
  have hw : w = 1 - u - v := by linear_combination hsum
  subst hw
  simp only [faceToBarycentricG, barycentricToFaceG]
  refine Prod.ext ?_ (Prod.ext ?_ ?_)
  · simp only; rw [div_eq_iff hdet]; ring
  · simp only; rw [div_eq_iff hdet]; ring
  · simp only
    rw [sub_sub]
    congr 1; congr 1 <;> (rw [div_eq_iff hdet]; ring)

/-- The corners have barycentric coordinates `(1,0,0)`, `(0,1,0)`, `(0,0,1)`. -/
theorem bary_corners (ax ay bx «by» cx cy : K) (hdet : triDetG ax ay bx «by» cx cy ≠ 0) :
    faceToBarycentricG 1 ax ay ax ay bx «by» cx cy = (1, 0, 0) ∧
    faceToBarycentricG 1 bx «by» ax ay bx «by» cx cy = (0, 1, 0) ∧
    faceToBarycentricG 1 cx cy ax ay bx «by» cx cy = (0, 0, 1) := by
  have h1 := bary_roundtrip' 1 0 0 ax ay bx «by» cx cy hdet (by ring)
  have h2 := bary_roundtrip' 0 1 0 ax ay bx «by» cx cy hdet (by ring)
  have h3 := bary_roundtrip' 0 0 1 ax ay bx «by» cx cy hdet (by ring)
  simp only [barycentricToFaceG, one_mul, zero_mul, add_zero, zero_add] at h1 h2 h3
  exact ⟨h1, h2, h3⟩

/-! ## T2: the reflected triangle

`baseFaceTriangle idx` is built from the quintant triangle `(c0, c1, c2)` (`c0` = face centre, `c1`, `c2` = two
adjacent pentagon corners) and `mid = (c1 + c2)/2`: it is `(c0, mid, c1)` for even `idx` and `(c0, c2, mid)` for
odd `idx` (`A5.G.baseFaceTriangle_tie`).  `reflectedFaceTriangle` replaces the apex `a = c0` by
`a' = −a + mid·scale` and swaps the other two vertices; the point called `midpoint` in the code is `base.b` for
even and `base.c` for odd triangles, i.e. in both cases the *edge midpoint* `mid` — an end point of the side
`BC` of the half-triangle, not its midpoint (`reflect_midpoint_is_edge_midpoint`). -/

/-- T2a. With `scale = 2` the new apex is the point reflection of the old apex through `mid`:
`a' = 2·mid − a`, i.e. `mid` is the midpoint of `a a'`. -/
theorem reflected_apex_point_reflection (ax ay mx my : K) :
    (reflectApexG 2 ax ay mx my).1 = 2 * mx - ax ∧ (reflectApexG 2 ax ay mx my).2 = 2 * my - ay ∧
    (reflectApexG 2 ax ay mx my).1 + ax = 2 * mx ∧ (reflectApexG 2 ax ay mx my).2 + ay = 2 * my := by
  simp only [reflectApexG]
  exact ⟨by ring, by ring, by ring, by ring⟩

/-- T2b. When `mid` is the midpoint of the pentagon edge `c1 c2` and the apex is equidistant from `c1` and
`c2` (the quintant triangle is isosceles), the point reflection through `mid` *is* the mirror image in the
line `c1 c2`: the segment `a a'` is perpendicular to the edge (and its midpoint `mid` lies on the edge).
Moreover the distances to `c1` and `c2` are preserved. -/
theorem reflected_triangle_is_mirror (h2 : (2 : K) ≠ 0) (ax ay c1x c1y c2x c2y : K)
    (hiso : (c1x - ax) ^ 2 + (c1y - ay) ^ 2 = (c2x - ax) ^ 2 + (c2y - ay) ^ 2) :
    let m := midpointG (2 : K) c1x c1y c2x c2y
    let a' := reflectApexG 2 ax ay m.1 m.2
    (a'.1 - ax) * (c2x - c1x) + (a'.2 - ay) * (c2y - c1y) = 0 ∧
    (a'.1 - c1x) ^ 2 + (a'.2 - c1y) ^ 2 = (ax - c1x) ^ 2 + (ay - c1y) ^ 2 ∧
    (a'.1 - c2x) ^ 2 + (a'.2 - c2y) ^ 2 = (ax - c2x) ^ 2 + (ay - c2y) ^ 2 := by
  simp only [midpointG, reflectApexG]
  have e1 : (c1x + c2x) / 2 * 2 = c1x + c2x := by field_simp
  have e2 : (c1y + c2y) / 2 * 2 = c1y + c2y := by field_simp
  rw [e1, e2]
  refine ⟨?_, ?_, ?_⟩
  · linear_combination (-1 : K) * hiso
  · linear_combination (-1 : K) * hiso
  · linear_combination hiso

/-- twice the signed area of the triangle `P Q R` (shoelace formula) -/
def shoelace (px py qx qy rx ry : K) : K := (qx - px) * (ry - py) - (rx - px) * (qy - py)

/-- T2c. Swapping `B` and `C` restores the orientation: the reflected triangle `(a', C, B)` has the same signed
area as `(a, B, C)` whenever the reflection centre is one of `B`, `C` (which it is: `mid = B` for even,
`mid = C` for odd triangles).  No isosceles hypothesis is needed. -/
theorem reflected_triangle_same_area (ax ay bx «by» cx cy : K) :
    (let a' := reflectApexG 2 ax ay bx «by»
     shoelace a'.1 a'.2 cx cy bx «by» = shoelace ax ay bx «by» cx cy) ∧
    (let a' := reflectApexG 2 ax ay cx cy
     shoelace a'.1 a'.2 cx cy bx «by» = shoelace ax ay bx «by» cx cy) := by
  simp only [reflectApexG, shoelace]
  exact ⟨by ring, by ring⟩

end field

/-- The isosceles hypothesis is needed in T2b: for `a = (0,0)`, `c1 = (1,0)`, `c2 = (0,2)` the segment `a a'`
is not perpendicular to the edge. -/
example : let m := midpointG (2 : ℚ) 1 0 0 2
    let a' := reflectApexG 2 0 0 m.1 m.2
    (a'.1 - 0) * (0 - 1) + (a'.2 - 0) * (2 - 0) ≠ 0 := by
  norm_num [midpointG, reflectApexG]

/-- In the float model the point used as reflection centre is, for even and odd triangles alike, the
midpoint of the pentagon edge `c1 c2` computed by `midpointG`. -/
theorem reflect_midpoint_is_edge_midpoint (idx : Nat) :
    (if idx % 2 == 0 then (baseFaceTriangle idx).b else (baseFaceTriangle idx).c) =
      ⟨(midpointG (2.0 : Float) (quintantCorner idx 1).x (quintantCorner idx 1).y
          (quintantCorner idx 2).x (quintantCorner idx 2).y).1,
       (midpointG (2.0 : Float) (quintantCorner idx 1).x (quintantCorner idx 1).y
          (quintantCorner idx 2).x (quintantCorner idx 2).y).2⟩ := by
  rewrite [baseFaceTriangle_tie]
  cases h : (idx % 2 == 0) <;> rfl

/-- In the float model the reflected triangle swaps `B` and `C`, and its apex is `reflectApexG` applied to
the base apex and that edge midpoint; the unsquashed scale is the literal `2.0`. -/
theorem reflected_triangle_model (idx : Nat) (squashed : Bool) :
    (reflectedFaceTriangle idx squashed).b = (baseFaceTriangle idx).c ∧
    (reflectedFaceTriangle idx squashed).c = (baseFaceTriangle idx).b ∧
    reflectScale false = (2.0 : Float) :=
  ⟨rfl, rfl, rfl⟩

/-! ## T3: the triangle index is total -/

/-- T3a. `faceTriangleIndex γ < 10` for every float `γ`, including NaN and ±∞ (whatever integer the
saturating cast produces, `tmod 10` lies in `(-10, 10)` and negative values are shifted by 10). -/
theorem triangle_index_total (γ : Float) : faceTriangleIndex γ < 10 := by
  unfold faceTriangleIndex
  generalize f64ToI32 ((γ / fc Gen.PI_OVER_5).floor) + 10 = z
  have h1 := Int.tmod_lt_of_pos z (b := 10) (by decide)
  have h2 := Int.lt_tmod_of_pos z (b := 10) (by decide)
  simp only
  split <;> omega

/-- T3b. The quintant derived from a triangle index is a valid quintant. -/
theorem triangle_quintant_lt (idx : Nat) : ((idx + 1) / 2) % 5 < 5 := Nat.mod_lt _ (by decide)

/-- T3c. Hence the face-triangle lookup never fails on an index produced by `faceTriangleIndex`. -/
theorem face_triangle_lookup_total (γ : Float) (reflected squashed : Bool) :
    getFaceTriangle (faceTriangleIndex γ) reflected squashed =
      .ok (if reflected then reflectedFaceTriangle (faceTriangleIndex γ) squashed
           else baseFaceTriangle (faceTriangleIndex γ)) := by
  have h := triangle_index_total γ
  unfold getFaceTriangle
  rewrite [if_neg (by simp only [Gen.FACE_TRIANGLE_MAX]; omega)]
  rfl

/-- and it does fail beyond 9 -/
theorem face_triangle_lookup_fails (idx : Nat) (h : 9 < idx) (reflected squashed : Bool) :
    getFaceTriangle idx reflected squashed = .err .other := by
  unfold getFaceTriangle
  rewrite [if_pos (by simp only [Gen.FACE_TRIANGLE_MAX]; omega)]
  rfl

/-! ## T5: corner snapping in the inverse -/

/-- the interior branch of `polyhedralInverse` (everything after the three early returns), as a function of
the barycentric coordinates `bu`, `bw` -/
def polyhedralInverseInterior (bu bw : Float) (st : SphTriangle) : V3 :=
  let a := st.a; let b := st.b; let c := st.c
  let c1 := v3cross b c
  let areaABC := sphTriangleArea a b c
  let h := 1.0 - bu
  let r := bw / h
  let alpha := r * areaABC
  let s := alpha.sin
  let halfC := (alpha / 2.0).sin
  let cc := 2.0 * halfC * halfC
  let c01 := v3dot a b
  let c12 := v3dot b c
  let c20 := v3dot c a
  let s12 := v3length c1
  let vv := v3dot a c1
  let f := s * vv + cc * (c01 * c12 - c20)
  let g := cc * s12 * (1.0 + c01)
  let q := (2.0 / c12.acos) * Float.atan2 g f
  let p := slerp b c q
  let k := vectorDifference a p
  let t := safeAcos (h * k) / safeAcos k
  slerp a p t

/-- the snapping threshold `1 − POLY_SNAP_EPS` -/
def snapThreshold : Float := 1.0 - fc Gen.POLY_SNAP_EPS

/-- T5. `polyhedralInverse` is: barycentric coordinates, then three early returns that fire exactly when
the first / second / third coordinate exceeds `1 − POLY_SNAP_EPS` (in this order), else the interior
formula.  (`rfl`: this *is* the model.) -/
theorem inverse_snaps_corners (fp : V2) (ft : FaceTriangle) (st : SphTriangle) :
    polyhedralInverse fp ft st =
      (let b := faceToBarycentric fp ft
       if b.1 > snapThreshold then st.a
       else if b.2.1 > snapThreshold then st.b
       else if b.2.2 > snapThreshold then st.c
       else polyhedralInverseInterior b.1 b.2.2 st) := rfl

/-- T5, spelled out as implications. -/
theorem inverse_snaps_corners' (fp : V2) (ft : FaceTriangle) (st : SphTriangle) :
    let b := faceToBarycentric fp ft
    (b.1 > snapThreshold → polyhedralInverse fp ft st = st.a) ∧
    (¬ b.1 > snapThreshold → b.2.1 > snapThreshold → polyhedralInverse fp ft st = st.b) ∧
    (¬ b.1 > snapThreshold → ¬ b.2.1 > snapThreshold → b.2.2 > snapThreshold →
      polyhedralInverse fp ft st = st.c) ∧
    (¬ b.1 > snapThreshold → ¬ b.2.1 > snapThreshold → ¬ b.2.2 > snapThreshold →
      polyhedralInverse fp ft st = polyhedralInverseInterior b.1 b.2.2 st) := by
  intro b
  rewrite [inverse_snaps_corners]
  refine ⟨fun h => ?_, fun h1 h => ?_, fun h1 h2 h => ?_, fun h1 h2 h3 => ?_⟩
  · exact if_pos h
  · exact (if_neg h1).trans (if_pos h)
  · exact (if_neg h1).trans ((if_neg h2).trans (if_pos h))
  · exact (if_neg h1).trans ((if_neg h2).trans (if_neg h3))

/-- The threshold is the `f64` `0x3fefffffffffffa6 = 1 − 90·2^-53` (kernel-checked with the float model):
strictly below 1, so at an exact corner (`b = 1.0`) the snap fires, and a NaN coordinate never snaps. -/
theorem snap_threshold_value :
    snapThreshold.toBits = 0x3fefffffffffffa6 ∧ (1.0 : Float) > snapThreshold ∧
    ¬ ((0.0 / 0.0 : Float) > snapThreshold) ∧ ¬ ((0.5 : Float) > snapThreshold) := by
  decide +kernel

/-! ## what is not proved -/

/-- The full property, *not proved and not assumed anywhere*: for every point of the sphere, projecting onto
the nearest dodecahedron face and back returns the point up to a small error.  (Over the reals the two
triangle maps `polyhedralForward` / `polyhedralInverse` are exact inverses away from the snapped corners; at
`Float` only an error bound can hold, and proving one needs interval reasoning about the opaque libm
functions.)  The comparisons exclude NaN inputs. -/
def projection_roundtrip_statement : Prop :=
  ∃ eps : Float, eps < 1.0e-9 ∧ ∀ θ φ : Float,
    0.0 ≤ φ → φ ≤ fc Gen.PI → -(fc Gen.PI) ≤ θ → θ ≤ fc Gen.PI →
    ∃ (p : V2) (tp : Float × Float),
      dodecaForward θ φ (findNearestOrigin θ φ).id = .ok p ∧
      dodecaInverse p (findNearestOrigin θ φ).id = .ok tp ∧
      v3distance (toCartesian tp.1 tp.2) (toCartesian θ φ) < eps

/-! ## non-vacuity -/

/-- T1 on the triangle `(0,0) (4,0) (0,2)` and the point `(1,1)`: coordinates `(1/4, 1/4, 1/2)` -/
example : faceToBarycentricG (1 : ℚ) 1 1 0 0 4 0 0 2 = (1 / 4, 1 / 4, 1 / 2) := by
  norm_num [faceToBarycentricG]
example : triDetG (0 : ℚ) 0 4 0 0 2 ≠ 0 := by norm_num [triDetG]
example : barycentricToFaceG (1 / 4 : ℚ) (1 / 4) (1 / 2) 0 0 4 0 0 2 = (1, 1) := by
  norm_num [barycentricToFaceG]
/-- T2b on the isosceles triangle `a = (0,0)`, `c1 = (2,1)`, `c2 = (2,-1)`: `mid = (2,0)`, `a' = (4,0)` -/
example : reflectApexG (2 : ℚ) 0 0 (midpointG (2 : ℚ) 2 1 2 (-1)).1 (midpointG (2 : ℚ) 2 1 2 (-1)).2 = (4, 0) := by
  norm_num [reflectApexG, midpointG]
example : ((2 : ℚ) - 0) ^ 2 + (1 - 0) ^ 2 = (2 - 0) ^ 2 + (-1 - 0) ^ 2 := by norm_num

/-! ## T6: the radial half of the round trip, over ℝ -/

open A5.RadialRoundTrip in
/-- T6a. the small-angle switch of `safe_acos`, as regenerated from `polyhedral.rs`, is the `f64` nearest to `1e-3` -/
theorem safe_acos_switch_value :
    safeAcosSwitchQ = 1152921504606847 / 2 ^ 60 ∧ 1 / 1000 ≤ safeAcosSwitchQ ∧ safeAcosSwitchQ ≤ 1001 / 1000000 :=
  safeAcosSwitchQ_bounds

open A5.RadialRoundTrip in
/-- T6b. the real twin of `safe_acos` (tied to the Float model by `safeAcos_tie`, `rfl`) is `2·arcsin x` to 1e-15 on
`[0, 1]`, on both sides of the switch. -/
theorem safe_acos_is_two_arcsin {x : ℝ} (hx0 : 0 ≤ x) (hx1 : x ≤ 1) :
    |safeAcosR x - 2 * Real.arcsin x| ≤ 1e-15 ∧ Real.arccos (1 - 2 * x ^ 2) = 2 * Real.arcsin x :=
  ⟨safeAcosR_error hx0 hx1, arccos_one_sub_two_sq hx0 hx1⟩

open A5.RadialRoundTrip in
/-- T6c. `radial_roundtrip`: for a point `V` on the arc from the apex `A` to `P` (arc lengths `0 ≤ AV ≤ AP ≤ π`), the
forward map stores `h = sin(AV/2)/sin(AP/2)`; the inverse computes `t = safe_acos(h k)/safe_acos(k)` with
`k = sin(AP/2)` and walks the fraction `t` of the arc: it arrives at arc length `AV` exactly with the exact
`2·arcsin`, and within 5e-16 rad with the code's two-branch `safe_acos`. -/
theorem radial_roundtrip {AV AP : ℝ} (h0 : 0 ≤ AV) (h1 : AV ≤ AP) (h2 : 0 < AP) (h3 : AP ≤ Real.pi) :
    (2 * Real.arcsin (Real.sin (AV / 2) / Real.sin (AP / 2) * Real.sin (AP / 2))) /
        (2 * Real.arcsin (Real.sin (AP / 2))) * AP = AV ∧
    |safeAcosR (Real.sin (AV / 2) / Real.sin (AP / 2) * Real.sin (AP / 2)) / safeAcosR (Real.sin (AP / 2)) * AP - AV|
      ≤ 5e-16 :=
  ⟨radial_roundtrip_exact h0 h1 h2 h3, radial_roundtrip_safeAcos h0 h1 h2 h3⟩

open A5.RadialRoundTrip in
/-- T6d. the vector form: `vector_difference` of unit vectors is the sine of half their angle, `slerp` (non-lerp
branch) stays on the unit sphere at angle `t·γ` from its first argument, and unprojecting the forward image of
`v = slerp a p s` along the same arc returns `v` (exactly with `2·arcsin`, within 5e-16 with `safe_acos`). -/
theorem radial_roundtrip_vectors {a p : R3} {s : ℝ} (hs0 : 0 ≤ s) (hs1 : s ≤ 1)
    (ha : dotR a a = 1) (hp : dotR p p = 1) (hγ : slerpSwitch ≤ angleR a p) (hπ : angleR a p < Real.pi) :
    vectorDifferenceR a p = Real.sin (angleR a p / 2) ∧
    angleR a (slerpR a p s) = s * angleR a p ∧
    slerpR a p ((2 * Real.arcsin (vectorDifferenceR a (slerpR a p s) / vectorDifferenceR a p * vectorDifferenceR a p)) /
        (2 * Real.arcsin (vectorDifferenceR a p))) = slerpR a p s ∧
    lengthR (subR (slerpR a p (safeAcosR (vectorDifferenceR a (slerpR a p s) / vectorDifferenceR a p *
        vectorDifferenceR a p) / safeAcosR (vectorDifferenceR a p))) (slerpR a p s)) ≤ 5e-16 :=
  ⟨vectorDifferenceR_eq ha hp hπ, slerpR_angle hs0 hs1 ha hp hγ hπ,
    (radial_roundtrip_vector hs0 hs1 ha hp hγ hπ).2, (radial_roundtrip_vector_safeAcos hs0 hs1 ha hp hγ hπ).2⟩

/-! ## T7-T8: the angular half and the combined round trip, over ℝ -/

open A5.RadialRoundTrip A5.AngularRoundTrip in
/-- T7a. the triangle area the code computes obeys Eriksson's formula. -/
theorem triangle_area_eriksson {x y z : R3} (hx : dotR x x = 1) (hy : dotR y y = 1) (hz : dotR z z = 1)
    (hV : 0 < tripleR x y z) (hD : 0 < 1 + dotR x y + dotR y z + dotR z x) :
    Real.tan (triAreaR x y z / 2) = tripleR x y z / (1 + dotR x y + dotR y z + dotR z x) ∧
      0 < triAreaR x y z ∧ triAreaR x y z < Real.pi := by
  obtain ⟨hxy, hyz, hzx⟩ := one_add_dots_pos hx hy hz hV.ne'
  exact ⟨eriksson hx hy hz hxy hyz hzx hD, triAreaR_mem hx hy hz hV hD⟩

open A5.RadialRoundTrip A5.AngularRoundTrip in
/-- T7b. `angular_roundtrip`: the inverse's `q = (2/θ)·atan2(g, f)` recovers the parameter of `P = slerp(b, c, q)` from
`α = area(a, b, P)`, and conversely the point it designates for a given `α ∈ (0, area(a,b,c))` has `area(a, b, P) = α`. -/
theorem angular_roundtrip {a b c : R3} (ha : dotR a a = 1) (hb : dotR b b = 1) (hc : dotR c c = 1)
    (hV : 0 < tripleR a b c) (hD : 0 < 1 + dotR a b + dotR b c + dotR c a) (hγ : slerpSwitch ≤ angleR b c) :
    (∀ q : ℝ, 0 ≤ q → q ≤ 1 → edgeParamR a b c (triAreaR a b (slerpR b c q)) = q) ∧
    (∀ alpha : ℝ, 0 < alpha → alpha < triAreaR a b c →
      0 < edgeParamR a b c alpha ∧ edgeParamR a b c alpha < 1 ∧
        triAreaR a b (slerpR b c (edgeParamR a b c alpha)) = alpha) :=
  ⟨fun _ h0 h1 => (angular_inverse_formula ha hb hc hV hD hγ h0 h1).2,
   fun _ h0 h1 => angular_forward_formula ha hb hc hV hD hγ h0 h1⟩

open A5.RadialRoundTrip A5.AngularRoundTrip in
/-- T8. `polyhedral_roundtrip_real`: for every point `v = slerp(a, slerp(b, c, q), s)` of the spherical triangle
(`0 ≤ q ≤ 1`, `0 < s ≤ 1`), the forward map finds `P = slerp(b, c, q)` and `inverse(forward v) = v` - exactly with
`2·arcsin`, and within 5e-16 (as a chord) with the code's two-branch `safe_acos`. -/
theorem polyhedral_roundtrip_real {a b c : R3} {q s : ℝ} (ha : dotR a a = 1) (hb : dotR b b = 1)
    (hc : dotR c c = 1) (hV : 0 < tripleR a b c) (hD : 0 < 1 + dotR a b + dotR b c + dotR c a)
    (hγ : slerpSwitch ≤ angleR b c) (hγ' : slerpSwitch ≤ angleR a (slerpR b c q))
    (hq0 : 0 ≤ q) (hq1 : q ≤ 1) (hs0 : 0 < s) (hs1 : s ≤ 1) :
    forwardPointR a b c (slerpR a (slerpR b c q) s) = slerpR b c q ∧
    inverseBaryR a b c (forwardBaryR a b c (slerpR a (slerpR b c q) s)) = slerpR a (slerpR b c q) s ∧
    lengthR (subR (inverseBarySafeR a b c (forwardBaryR a b c (slerpR a (slerpR b c q) s)))
      (slerpR a (slerpR b c q) s)) ≤ 5e-16 :=
  ⟨(polyhedral_roundtrip_exact ha hb hc hV hD hγ hγ' hq0 hq1 hs0 hs1).1,
   (polyhedral_roundtrip_exact ha hb hc hV hD hγ hγ' hq0 hq1 hs0 hs1).2,
   (polyhedral_roundtrip_safeAcos ha hb hc hV hD hγ hγ' hq0 hq1 hs0 hs1).2⟩

/-! ## T9: the round trip on the generic twins of the model functions -/

open A5.GP A5.PolyTies in
/-- T9. `polyhedral_roundtrip_twin`: the SAME generic definitions that, instantiated at `Float`, are the model's
`polyhedralForward` / `polyhedralInverse` (`GP.polyhedralForward_tie`, `GP.polyhedralInverse_tie`), instantiated at `ℝ`
(libm read as the real functions, generated switches as their exact values) satisfy `inverse (forward v) = v` within
5e-16 on every point `v = slerp(a, slerp(b, c, q), s)` of a counter-clockwise unit triangle - including the vertex
snapping and the two-branch `safe_acos` - under the stated branch hypotheses (areas on the asin branch, no snap). -/
theorem polyhedral_roundtrip_twin {a b c : T3 ℝ} {q s : ℝ} (ha : dotG a a = 1) (hb : dotG b b = 1)
    (hc : dotG c c = 1) (hV : 0 < tripleG a b c) (hD : 0 < 1 + dotG a b + dotG b c + dotG c a)
    (hγ : realKit.slerpSwitch ≤ angleG realKit b c)
    (hγ' : realKit.slerpSwitch ≤ angleG realKit a (slerpG realKit b c q))
    (hq0 : 0 ≤ q) (hq1 : q ≤ 1) (hs0 : 0 < s) (hs1 : s ≤ 1)
    (hE : AreaAgreesG a b c) (hE2 : AreaAgreesG a (slerpG realKit b c q) c)
    (hE3 : AreaAgreesG a b (slerpG realKit b c q))
    (hn1 : ¬ (forwardBaryG realKit a b c (slerpG realKit a (slerpG realKit b c q) s)).1
      > realKit.one - realKit.snapEps)
    (hn2 : ¬ (forwardBaryG realKit a b c (slerpG realKit a (slerpG realKit b c q) s)).2.1
      > realKit.one - realKit.snapEps)
    (hn3 : ¬ (forwardBaryG realKit a b c (slerpG realKit a (slerpG realKit b c q) s)).2.2
      > realKit.one - realKit.snapEps) :
    dotG (inverseBaryG realKit a b c (forwardBaryG realKit a b c (slerpG realKit a (slerpG realKit b c q) s)))
        (inverseBaryG realKit a b c (forwardBaryG realKit a b c (slerpG realKit a (slerpG realKit b c q) s))) = 1 ∧
    lengthG realKit (subG (inverseBaryG realKit a b c (forwardBaryG realKit a b c
        (slerpG realKit a (slerpG realKit b c q) s))) (slerpG realKit a (slerpG realKit b c q) s)) ≤ 5e-16 :=
  polyhedral_roundtrip_full_twin ha hb hc hV hD hγ hγ' hq0 hq1 hs0 hs1 hE hE2 hE3 hn1 hn2 hn3

/-- the Float model IS the twin at `Float` (no float arithmetic is reasoned about: structure only) -/
theorem model_is_twin (v : V3) (st : SphTriangle) (ft : FaceTriangle) (fp : V2) :
    polyhedralForward v st ft =
      barycentricToFace (GP.forwardBaryG GP.floatKit (GP.toT st.a) (GP.toT st.b) (GP.toT st.c) (GP.toT v)) ft ∧
    GP.toT (polyhedralInverse fp ft st) =
      GP.inverseBaryG GP.floatKit (GP.toT st.a) (GP.toT st.b) (GP.toT st.c) (faceToBarycentric fp ft) :=
  ⟨GP.polyhedralForward_tie v st ft, GP.polyhedralInverse_tie fp ft st⟩

/-! ### T10-T13: the triangles the running library actually uses

`A5.Gen.Runtime.SPH_TRIANGLES` holds the 240 spherical triangles (12 faces x 10 face triangles x plain / reflected) as the library computes
them at start-up, as exact rationals; `tools/gen_runtime.py` regenerates the table on every run, compares it bit for bit with what
the model computes and cross-checks every vertex with the library's own CRS snap.  T7-T9 above are stated for ANY triangle that
satisfies their hypotheses; the theorems below discharge those hypotheses for every row of the table (a rational certificate
evaluated in the kernel on all 240 rows, then lifted to the normalised real triangle), so the round trip is a theorem about the
configuration the code runs with, not about a hypothetical one. -/

open A5.RuntimeTriangles A5.RadialRoundTrip A5.AngularRoundTrip A5.Gen.Runtime in
/-- **T10.** the table is complete - one row for every (face, face triangle, reflected) - and every row passes the certificate -/
theorem runtime_table_complete :
    SPH_TRIANGLES.length = 240 ∧ (∀ t ∈ SPH_TRIANGLES, TriOK t.2.2.2) ∧
    ∀ t ∈ SPH_TRIANGLES, TriHyp (entryA t) (entryB t) (entryC t) :=
  ⟨runtime_count, runtime_triangles_ok, runtime_hyp⟩

open A5.RuntimeTriangles A5.RadialRoundTrip A5.AngularRoundTrip A5.Gen.Runtime in
/-- **T11.** T8 (`polyhedral_roundtrip_real`) for every triangle of the table and EVERY point `slerp(a, slerp(b, c, q), s)`,
`0 ≤ q ≤ 1`, `0 < s ≤ 1`, with no hypothesis left: exact round trip with `2 arcsin`, within 5e-16 with the code's `safe_acos` -/
theorem runtime_roundtrip : ∀ t ∈ SPH_TRIANGLES, ∀ q s : ℝ, 0 ≤ q → q ≤ 1 → 0 < s → s ≤ 1 →
    forwardPointR (entryA t) (entryB t) (entryC t) (slerpR (entryA t) (slerpR (entryB t) (entryC t) q) s)
      = slerpR (entryB t) (entryC t) q ∧
    inverseBaryR (entryA t) (entryB t) (entryC t)
        (forwardBaryR (entryA t) (entryB t) (entryC t) (slerpR (entryA t) (slerpR (entryB t) (entryC t) q) s))
      = slerpR (entryA t) (slerpR (entryB t) (entryC t) q) s ∧
    lengthR (subR (inverseBarySafeR (entryA t) (entryB t) (entryC t)
        (forwardBaryR (entryA t) (entryB t) (entryC t) (slerpR (entryA t) (slerpR (entryB t) (entryC t) q) s)))
      (slerpR (entryA t) (slerpR (entryB t) (entryC t) q) s)) ≤ 5e-16 :=
  A5.RuntimeTriangles.runtime_roundtrip

open A5.RuntimeTriangles A5.RadialRoundTrip A5.AngularRoundTrip A5.Gen.Runtime in
/-- **T12.** T7b (`angular_roundtrip`) for every triangle of the table -/
theorem runtime_angular_roundtrip : ∀ t ∈ SPH_TRIANGLES,
    (∀ q : ℝ, 0 ≤ q → q ≤ 1 →
      edgeParamR (entryA t) (entryB t) (entryC t) (triAreaR (entryA t) (entryB t) (slerpR (entryB t) (entryC t) q)) = q) ∧
    (∀ alpha : ℝ, 0 < alpha → alpha < triAreaR (entryA t) (entryB t) (entryC t) →
      0 < edgeParamR (entryA t) (entryB t) (entryC t) alpha ∧ edgeParamR (entryA t) (entryB t) (entryC t) alpha < 1 ∧
        triAreaR (entryA t) (entryB t)
          (slerpR (entryB t) (entryC t) (edgeParamR (entryA t) (entryB t) (entryC t) alpha)) = alpha) :=
  A5.RuntimeTriangles.runtime_angular_roundtrip

open A5.RuntimeTriangles A5.RadialRoundTrip A5.AngularRoundTrip A5.Gen.Runtime A5.GP A5.PolyTies in
/-- **T13.** T9 (`polyhedral_roundtrip_twin`: the generic twins of the code's forward / inverse at the reals, vertex snapping and
two-branch `safe_acos` included) for every triangle of the table, every `q` in `[1e-4, 1 - 1e-4]` and `0 < s ≤ 1`; the only
hypotheses left are the three no-snap conditions (no barycentric coordinate above `1 - POLY_SNAP_EPS`) -/
theorem runtime_roundtrip_twin_mid : ∀ t ∈ SPH_TRIANGLES, ∀ q s : ℝ, 1 / 10 ^ 4 ≤ q → q ≤ 1 - 1 / 10 ^ 4 →
    0 < s → s ≤ 1 →
    ¬ (forwardBaryG realKit (toTR (entryA t)) (toTR (entryB t)) (toTR (entryC t))
        (slerpG realKit (toTR (entryA t)) (slerpG realKit (toTR (entryB t)) (toTR (entryC t)) q) s)).1
      > realKit.one - realKit.snapEps →
    ¬ (forwardBaryG realKit (toTR (entryA t)) (toTR (entryB t)) (toTR (entryC t))
        (slerpG realKit (toTR (entryA t)) (slerpG realKit (toTR (entryB t)) (toTR (entryC t)) q) s)).2.1
      > realKit.one - realKit.snapEps →
    ¬ (forwardBaryG realKit (toTR (entryA t)) (toTR (entryB t)) (toTR (entryC t))
        (slerpG realKit (toTR (entryA t)) (slerpG realKit (toTR (entryB t)) (toTR (entryC t)) q) s)).2.2
      > realKit.one - realKit.snapEps →
    dotG (inverseBaryG realKit (toTR (entryA t)) (toTR (entryB t)) (toTR (entryC t))
          (forwardBaryG realKit (toTR (entryA t)) (toTR (entryB t)) (toTR (entryC t))
            (slerpG realKit (toTR (entryA t)) (slerpG realKit (toTR (entryB t)) (toTR (entryC t)) q) s)))
        (inverseBaryG realKit (toTR (entryA t)) (toTR (entryB t)) (toTR (entryC t))
          (forwardBaryG realKit (toTR (entryA t)) (toTR (entryB t)) (toTR (entryC t))
            (slerpG realKit (toTR (entryA t)) (slerpG realKit (toTR (entryB t)) (toTR (entryC t)) q) s))) = 1 ∧
    lengthG realKit (subG (inverseBaryG realKit (toTR (entryA t)) (toTR (entryB t)) (toTR (entryC t))
          (forwardBaryG realKit (toTR (entryA t)) (toTR (entryB t)) (toTR (entryC t))
            (slerpG realKit (toTR (entryA t)) (slerpG realKit (toTR (entryB t)) (toTR (entryC t)) q) s)))
        (slerpG realKit (toTR (entryA t)) (slerpG realKit (toTR (entryB t)) (toTR (entryC t)) q) s)) ≤ 5e-16 :=
  A5.RuntimeTriangles.runtime_roundtrip_twin_mid

open A5.RuntimeTriangles A5.RadialRoundTrip A5.AngularRoundTrip A5.Gen.Runtime A5.GP A5.PolyTies in
/-- **T14.** T13 with the no-snap conditions DISCHARGED: for every triangle of the table, every `q` in `[1e-4, 1 - 1e-4]` and
every `s` in `[2e-14, 1]` the generic twins of the code's forward and inverse (vertex snapping, two-branch `safe_acos`, both area
branches) round-trip within 5e-16 - no hypothesis about the point besides the two ranges.  (Below `s` ~ 1e-14 the code snaps to
the apex; within 1e-4 of the ends of the far edge the sub-triangle area may be on the other branch of `get_triangle_area`.)
Ingredients proved for this: additivity of the code's area function along the edge (`area_additive`), `3/5 s ≤ h ≤ 1` for the
radial coordinate, a kernel-checked bound on the regenerated snap constant. -/
theorem runtime_roundtrip_twin_interior : ∀ t ∈ SPH_TRIANGLES, ∀ q s : ℝ, 1 / 10 ^ 4 ≤ q → q ≤ 1 - 1 / 10 ^ 4 →
    2 / 10 ^ 14 ≤ s → s ≤ 1 →
    dotG (inverseBaryG realKit (toTR (entryA t)) (toTR (entryB t)) (toTR (entryC t))
          (forwardBaryG realKit (toTR (entryA t)) (toTR (entryB t)) (toTR (entryC t))
            (slerpG realKit (toTR (entryA t)) (slerpG realKit (toTR (entryB t)) (toTR (entryC t)) q) s)))
        (inverseBaryG realKit (toTR (entryA t)) (toTR (entryB t)) (toTR (entryC t))
          (forwardBaryG realKit (toTR (entryA t)) (toTR (entryB t)) (toTR (entryC t))
            (slerpG realKit (toTR (entryA t)) (slerpG realKit (toTR (entryB t)) (toTR (entryC t)) q) s))) = 1 ∧
    lengthG realKit (subG (inverseBaryG realKit (toTR (entryA t)) (toTR (entryB t)) (toTR (entryC t))
          (forwardBaryG realKit (toTR (entryA t)) (toTR (entryB t)) (toTR (entryC t))
            (slerpG realKit (toTR (entryA t)) (slerpG realKit (toTR (entryB t)) (toTR (entryC t)) q) s)))
        (slerpG realKit (toTR (entryA t)) (slerpG realKit (toTR (entryB t)) (toTR (entryC t)) q) s)) ≤ 5e-16 :=
  A5.RuntimeTriangles.runtime_roundtrip_twin_interior

end A5.C15
