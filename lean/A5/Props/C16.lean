import A5.Props.C16Core
import A5.Lemmas.SweepFormula3
import A5.Lemmas.RuntimeTriangles2
/-! # C16 — the face projection is area-preserving at every point (continued)

`A5/Props/C16Core.lean` holds T1-T4 (affine step, the two h² laws, the Jacobian identity in polar coordinates UNDER the
sweep hypothesis, the constant, the area-fraction law).  This file adds T5-T7, which discharge the sweep hypothesis for
the code's own area function (`A5/Lemmas/SweepFormula*.lean`; the lemma files import `C16Core`, hence the split):

* T5 `sweep_formula`: for a point moving along a great circle through `b`, parametrised by its apex angle `ψ` at `a`,
  the area of the spherical triangle `(a, b, P(ψ))` - computed as the code computes it (2·asin of the triple product of the
  normalised edge midpoints) - has derivative `1 - cos ∠(a, P(ψ))`: Eriksson's excess IS the polar-coordinate area integral.
* T6 `equal_area_pointwise`: hence, with NO hypothesis about areas, at every point of every edge `P = slerp(b, c, t)` of a
  counter-clockwise triangle with `b·c > 0`: in the coordinates `(θ, ψ)` (arc distance from the apex, apex angle) the map
  `(θ, ψ) ↦ (h, β) = (sin(θ/2)/sin(ρ/2), area(a, b, P(ψ))/Ω)` that the forward projection computes has Jacobian
  determinant × planar density `h·S` equal to `S/(2Ω)·sin θ`: a constant multiple of the sphere's own area density `sin θ`.
* T7 `equal_area_two_variable`: the same as a statement about the Fréchet derivative of the two-variable map, including the
  dependence of `h` on `ψ` through `ρ(ψ)` (the off-diagonal entry drops out of the determinant because `β` does not depend
  on `θ`).

Still NOT proved: that the 120 runtime triangles satisfy the hypotheses (closed inequalities on rounded constants); the
passage from this polar chart to `equal_area_jacobian_statement` about `polyhedralForwardR` as a map into the plane; the
small-|s| branch of the area function; anything about `f64` rounding. -/
namespace A5.C16
open A5 A5.RadialRoundTrip A5.AngularRoundTrip A5.SweepFormula

/-- T5. the sweep formula for the code's own triangle area. -/
theorem sweep_formula {a b d : RadialRoundTrip.R3} (ha : dotR a a = 1) (hb : dotR b b = 1) (hd : dotR d d = 1)
    (hbd : dotR b d = 0) {ψ : ℝ}
    (hMq : 0 < Real.cos ψ * tripleR a b d + Real.sin ψ * (dotR a b * dotR a d))
    (hD : 0 < 1 + dotR a b + dotR b (gcPoint b d (edgeArcR a b d ψ)) + dotR (gcPoint b d (edgeArcR a b d ψ)) a) :
    HasDerivAt (fun x => triAreaR a b (gcPoint b d (edgeArcR a b d x)))
      (1 - Real.cos (angleR a (gcPoint b d (edgeArcR a b d ψ)))) ψ :=
  A5.SweepFormula.sweep_formula ha hb hd hbd hMq hD

/-- T6. equal area, pointwise, at every point of an edge of a counter-clockwise triangle - no sweep hypothesis. -/
theorem equal_area_pointwise {a b c : RadialRoundTrip.R3} (ha : dotR a a = 1) (hb : dotR b b = 1) (hc : dotR c c = 1)
    (hV : 0 < tripleR a b c) (hD : 0 < 1 + dotR a b + dotR b c + dotR c a)
    (hγ : slerpSwitch ≤ angleR b c) (hbc : 0 < dotR b c) {t : ℝ} (ht0 : 0 ≤ t) (ht1 : t ≤ 1) (S θ : ℝ) :
    gcPoint b (edgeDirR b c) (edgeArcR a b (edgeDirR b c) (azimuthR a b (slerpR b c t))) = slerpR b c t ∧
    Real.sin (angleR a (slerpR b c t) / 2) ≠ 0 ∧ 0 < triAreaR a b c ∧
    ∃ hθ βψ : ℝ,
      HasDerivAt (fun x => Real.sin (x / 2) / Real.sin (angleR a (slerpR b c t) / 2)) hθ θ ∧
      HasDerivAt (fun x => triAreaR a b (gcPoint b (edgeDirR b c) (edgeArcR a b (edgeDirR b c) x)) / triAreaR a b c) βψ
        (azimuthR a b (slerpR b c t)) ∧
      (Real.sin (θ / 2) / Real.sin (angleR a (slerpR b c t) / 2)) * S * (hθ * βψ) =
        S / (2 * triAreaR a b c) * Real.sin θ :=
  equal_area_pointwise_edge ha hb hc hV hD hγ hbc ht0 ht1 S θ

/-- T7. the two-variable form: Fréchet derivative of `(θ, ψ) ↦ (h, β)`, determinant × planar density = constant × `sin θ`. -/
theorem equal_area_two_variable {a b d : RadialRoundTrip.R3} (ha : dotR a a = 1) (hb : dotR b b = 1) (hd : dotR d d = 1)
    (hbd : dotR b d = 0) (hT : 0 < tripleR a b d) {ψ : ℝ}
    (hMq : 0 < Real.cos ψ * tripleR a b d + Real.sin ψ * (dotR a b * dotR a d))
    (hD : 0 < 1 + dotR a b + dotR b (gcPoint b d (edgeArcR a b d ψ)) + dotR (gcPoint b d (edgeArcR a b d ψ)) a)
    (S Ω θ : ℝ) (hΩ : Ω ≠ 0) :
    ∃ F' : ℝ × ℝ →L[ℝ] ℝ × ℝ,
      HasFDerivAt (fun z : ℝ × ℝ =>
        (Real.sin (z.1 / 2) / Real.sin (angleR a (gcPoint b d (edgeArcR a b d z.2)) / 2),
          triAreaR a b (gcPoint b d (edgeArcR a b d z.2)) / Ω)) F' (θ, ψ) ∧ (F' (1, 0)).2 = 0 ∧
      (Real.sin (θ / 2) / Real.sin (angleR a (gcPoint b d (edgeArcR a b d ψ)) / 2)) * S *
          ((F' (1, 0)).1 * (F' (0, 1)).2 - (F' (0, 1)).1 * (F' (1, 0)).2)
        = S / (2 * Ω) * Real.sin θ :=
  equal_area_pointwise_fderiv ha hb hd hbd hT hMq hD S Ω θ hΩ

open A5.RuntimeTriangles A5.Gen.Runtime in
/-- **`runtime_equal_area`**: `equal_area_pointwise` for every one of the 240 triangles the running library uses (table
`A5.Gen.Runtime.SPH_TRIANGLES`, regenerated and cross-checked on every run), at every point of its far edge, with no hypothesis left -/
theorem runtime_equal_area : ∀ e ∈ SPH_TRIANGLES, ∀ t : ℝ, 0 ≤ t → t ≤ 1 → ∀ S θ : ℝ,
    gcPoint (entryB e) (edgeDirR (entryB e) (entryC e))
        (edgeArcR (entryA e) (entryB e) (edgeDirR (entryB e) (entryC e))
          (azimuthR (entryA e) (entryB e) (slerpR (entryB e) (entryC e) t))) = slerpR (entryB e) (entryC e) t ∧
    Real.sin (angleR (entryA e) (slerpR (entryB e) (entryC e) t) / 2) ≠ 0 ∧
    0 < triAreaR (entryA e) (entryB e) (entryC e) ∧
    ∃ hθ βψ : ℝ,
      HasDerivAt (fun x => Real.sin (x / 2) / Real.sin (angleR (entryA e) (slerpR (entryB e) (entryC e) t) / 2)) hθ θ ∧
      HasDerivAt (fun x => triAreaR (entryA e) (entryB e)
          (gcPoint (entryB e) (edgeDirR (entryB e) (entryC e))
            (edgeArcR (entryA e) (entryB e) (edgeDirR (entryB e) (entryC e)) x)) /
          triAreaR (entryA e) (entryB e) (entryC e)) βψ
        (azimuthR (entryA e) (entryB e) (slerpR (entryB e) (entryC e) t)) ∧
      (Real.sin (θ / 2) / Real.sin (angleR (entryA e) (slerpR (entryB e) (entryC e) t) / 2)) * S * (hθ * βψ) =
        S / (2 * triAreaR (entryA e) (entryB e) (entryC e)) * Real.sin θ :=
  A5.RuntimeTriangles.runtime_equal_area

end A5.C16
