import A5.Gen.Tables
import A5.Ref.Tables
/-! # The model's state inventory is the source's

Every model function is a pure function of its arguments, except for the one memo the model carries (the projection's triangle
caches, `Model/MemoFloat.lean`, proved to refine the pure functions in `Props/C13`).  That is only a faithful picture of the crate
while the crate has no OTHER place to keep something between calls.  `tools/translate.py` therefore regenerates, on every run,
the list of all such places in `/repo/src` - every `static` item (also inside `thread_local!` / `lazy_static!` and inside function
bodies) with its type, and the field list of every struct - and this theorem compares it with the frozen list of the tree the
model was written against.  A cache, memo table, scratch buffer, counter or pool added anywhere in the crate shows up as a new
entry and breaks this obligation for EVERY property (each check builds this module first); whether the new state is harmless
is then for the searches to find out - a lookup memo keyed by a 64-bit fingerprint is wrong only for pairs of inputs that no
search will ever meet. -/
namespace A5
theorem STATE_INVENTORY_unchanged : Gen.STATE_INVENTORY = Ref.STATE_INVENTORY := by decide +kernel
end A5
