import A5.Lemmas.Deserialize
import A5.Lemmas.HexLemmas
/-! # C05 — the cell-ID codec (bits and hex) is a bijection with the documented layout

Model: `A5.serialize`, `A5.deserialize`, `A5.getResolution` (`A5/Model/Codec.lean`),
`A5.u64ToHex`, `A5.hexToU64` (`A5/Model/Hex.lean`).  Spec: `Cell.Valid`, `Layout`, `encNat`
(`A5/Spec/Layout.lean`).  All theorems quantify over *every* cell description / every id / every byte
string; there is no bound on the resolution (0..29 and the world cell are all covered by `Cell.Valid`). -/
namespace A5.C05
open A5

/-- T1. On every valid cell description the encoder succeeds and produces exactly the documented
arithmetic layout `top6·2^58 + s·2^(60-2r) + marker` (no panic in the overflow-checked profile). -/
theorem serialize_closed_form (c : Cell) (h : c.Valid) : serialize c = .ok (encNat c) :=
  serialize_valid c h

/-- T2. decode ∘ encode = id on valid cells. -/
theorem decode_encode (c : Cell) (h : c.Valid) : (serialize c >>= deserialize) = .ok c := by
  rewrite [serialize_valid c h]
  simp only [Outcome.bind_ok]
  exact deserialize_enc c h

/-- T3. encode ∘ decode = id on every id in the documented layout. -/
theorem encode_decode (id : Nat) (h : Layout id) :
    ∃ c, c.Valid ∧ deserialize id = .ok c ∧ serialize c = .ok id := by
  obtain ⟨c, hv, hd, he⟩ := deserialize_layout id h
  refine ⟨c, hv, hd, ?_⟩
  rewrite [serialize_valid c hv, he]; rfl

/-- T4. The documented layout is exactly the image of the encoder on valid cells. -/
theorem layout_iff_image (id : Nat) : Layout id ↔ ∃ c, c.Valid ∧ serialize c = .ok id := by
  constructor
  · intro h
    obtain ⟨c, hv, _, hs⟩ := encode_decode id h
    exact ⟨c, hv, hs⟩
  · rintro ⟨c, hv, hs⟩
    rewrite [serialize_valid c hv] at hs
    cases Outcome.ok.inj hs
    exact layout_enc c hv

/-- T5. The resolution read from an id equals the encoded resolution. -/
theorem resolution_of_encode (c : Cell) (h : c.Valid) (id : Nat) (hs : serialize c = .ok id) :
    getResolution id = c.res := by
  rewrite [serialize_valid c h] at hs
  cases Outcome.ok.inj hs
  exact getResolution_enc c h

/-- T6. Different cells never share an id. -/
theorem encode_injective (c c' : Cell) (h : c.Valid) (h' : c'.Valid) (id : Nat)
    (hs : serialize c = .ok id) (hs' : serialize c' = .ok id) : c = c' := by
  rewrite [serialize_valid c h] at hs
  rewrite [serialize_valid c' h'] at hs'
  exact encNat_injective c c' h h' ((Outcome.ok.inj hs).trans (Outcome.ok.inj hs').symm)

/-- T7. The per-face rotation of the quintant code and its inverse are mutually inverse on 0..4, for
each entry of the *generated* `QUINTANT_FIRST` / `ORIGIN_ORDER` tables. -/
theorem segment_rotation_bijective (o seg : Nat) (ho : o < 12) (hs : seg < 5) :
    ((seg + 5 - firstQuintant o) % 5 + firstQuintant o) % 5 = seg ∧
    ((seg + firstQuintant o) % 5 + 5 - firstQuintant o) % 5 = seg := by
  have hf := firstQuintant_lt o ho
  omega

/-- T8a. Every encoded id is a 64-bit value. -/
theorem encode_lt_two_pow_64 (c : Cell) (h : c.Valid) (id : Nat) (hs : serialize c = .ok id) : id < 2 ^ 64 := by
  rewrite [serialize_valid c h] at hs
  cases Outcome.ok.inj hs
  exact encNat_lt c h

/-- T8b. Whatever 64-bit pattern is decoded, a successful decode yields a valid description, so
re-encoding it yields an id in canonical layout (this is how the API canonicalises stray low bits). -/
theorem reencode_canonical (id : Nat) (c : Cell) (h : deserialize id = .ok c) :
    ∃ id', serialize c = .ok id' ∧ Layout id' := by
  have hv := deserialize_ok_valid' id c h
  exact ⟨encNat c, serialize_valid c hv, layout_enc c hv⟩

/-- T8c. The decoder never panics, on any input. -/
theorem deserialize_total (id : Nat) : (deserialize id).isPanic = false := deserialize_never_panics' id

/-! ## hexadecimal form -/

/-- T9. Formatting then parsing any 64-bit value returns it. -/
theorem hex_roundtrip (n : Nat) (h : n < 2 ^ 64) : hexToU64 (u64ToHex n) = .ok n := hexToU64_u64ToHex n h

/-- T10. The string is 1–16 lower-case hex digits, without prefix, and starts with `'0'` only for 0. -/
theorem hex_format (n : Nat) (h : n < 2 ^ 64) :
    1 ≤ (u64ToHex n).length ∧ (u64ToHex n).length ≤ 16 ∧ (∀ b ∈ u64ToHex n, IsLowerHexDigit b) ∧
    ((u64ToHex n).head? = some 48 → n = 0) :=
  ⟨(u64ToHex_length n h).1, (u64ToHex_length n h).2, u64ToHex_lower n, u64ToHex_head n h⟩

/-- T11. The empty string is an error, and every digit string whose value does not fit 64 bits is an
error (never a truncated value); a digit string that fits parses to its value. -/
theorem hex_parse_strict :
    hexToU64 [] = .err .hexParse ∧
    (∀ s : List Nat, (∀ b ∈ s, IsHexDigit b) → 2 ^ 64 ≤ hexValue s → hexToU64 s = .err .hexParse) ∧
    (∀ s : List Nat, s ≠ [] → (∀ b ∈ s, IsHexDigit b) → hexValue s < 2 ^ 64 → hexToU64 s = .ok (hexValue s)) := by
  refine ⟨rfl, fun s hall hov => hexToU64_overflow s hall hov, fun s hne hall hlt => ?_⟩
  rewrite [hexToU64_digits s hne hall, if_pos hlt]; rfl

/-- T12. Parsing never panics, on any byte string. -/
theorem hex_parse_total (s : List Nat) : (hexToU64 s).isPanic = false := hexToU64_never_panics s

/-! ## non-vacuity: the hypotheses are met by concrete non-trivial values -/

example : (⟨7, 3, 0x2d, 4⟩ : Cell).Valid := by decide
example : Layout (encNat ⟨7, 3, 0x2d, 4⟩) := layout_enc _ (by decide)
example : encNat ⟨7, 3, 0x2d, 4⟩ = 0x92d8000000000000 := by decide
example : hexToU64 (u64ToHex 0x92d8000000000000) = .ok 0x92d8000000000000 := hex_roundtrip _ (by decide)
example : hexToU64 [0x31, 0x30, 0x30, 0x30, 0x30, 0x30, 0x30, 0x30, 0x30, 0x30, 0x30, 0x30, 0x30, 0x30, 0x30, 0x30, 0x30]
    = .err .hexParse := by decide

end A5.C05
