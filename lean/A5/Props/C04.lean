import A5.Model.GenericGeo
import A5.Lemmas.PentagonArea
import A5.Lemmas.SplitEdges
/-! # C04 — all cells of a resolution have equal area: sphere area / number of cells

Model: `A5.getNumCells` (`A5/Model/Hier.lean`), `A5.cellArea` (`A5/Model/CellGeo.lean`), the generated
`Gen.AUTHALIC_AREA`, `Gen.CELL_AREA_TABLE`, `Gen.NUM_CELLS_SPECIAL` (`A5/Gen/Tables.lean`, regenerated from
`src/core/cell_info.rs` on every run).  A generated float constant `c` is read as the exact rational
`c.toRat = num * 2^exp` (`A5/Model/GenericGeo.lean`).  Everything here is a finite fact checked by the
kernel (`decide +kernel`, no axioms beyond the standard three).

The planar half of the polygon clause (T4, `A5/Lemmas/PentagonArea.lean`): in exact arithmetic on the runtime constants
every cell pentagon of a quintant has the same planar area as the seed pentagon (for every anchor, hence every depth
and position), scaling by `2^-res` divides it by `4^res`, and the seed's area is the area of one lattice triangle to
2^-50.  What is left for the sphere is the equal-area property of the projection itself (C16).

Findings recorded below:
* `get_num_cells` returns JavaScript-rounded literals at resolutions 28, 29, 30 which differ from the exact
  count `60·4^(r-1)` by 40, 160 and 360 (`num_cells_js_literals`); they round to the same `f64`.
* every row of the area table is within one unit in the last place (relative `2^-52`) of the exact quotient,
  but rows 4, 12, 17, 19, 29, 30 are **not** the correctly rounded quotient (they are one ulp off; row 4 one
  ulp above, the others one ulp below): `cell_area_half_ulp_rows`, `cell_area_float_quotient`. -/
namespace A5.C04
open A5

/-- The exact number of cells of resolution `r`: 12 pentagonal faces, then `12·5·4^(r-1)`. -/
def exactNumCells (r : Nat) : Nat := if r = 0 then 12 else 60 * 4 ^ (r - 1)

/-- the `r`-th row of the generated area table -/
def areaRow (r : Nat) : FConst := Gen.CELL_AREA_TABLE.getD r ⟨0, 0, 0⟩

/-! ## T1: the cell count -/

private theorem numCells_fin : ∀ n : Fin 28, getNumCells (n.val : Int) = exactNumCells n.val := by
  decide +kernel

/-- T1a. `get_num_cells(r)` is the exact count for every resolution `0 ≤ r ≤ 27`. -/
theorem num_cells_exact (r : Int) (h0 : 0 ≤ r) (h27 : r ≤ 27) : getNumCells r = exactNumCells r.toNat := by
  obtain ⟨n, rfl⟩ := Int.eq_ofNat_of_zero_le h0
  have := numCells_fin ⟨n, by omega⟩
  simpa using this

/-- T1a, spelled out: 12 at resolution 0 and `60·4^(r-1)` for `1 ≤ r ≤ 27`. -/
theorem num_cells_exact' :
    getNumCells 0 = 12 ∧ ∀ r : Int, 1 ≤ r → r ≤ 27 → getNumCells r = 60 * 4 ^ (r - 1).toNat := by
  refine ⟨by decide +kernel, fun r h1 h27 => ?_⟩
  rewrite [num_cells_exact r (by omega) h27]
  unfold exactNumCells
  rewrite [if_neg (by omega)]
  have : r.toNat - 1 = (r - 1).toNat := by omega
  rewrite [this]; rfl

/-- T1b. Negative resolutions (in particular the world cell, `-1`) have count 0. -/
theorem num_cells_negative (r : Int) (h : r < 0) : getNumCells r = 0 := by
  unfold getNumCells; rewrite [if_pos h]; rfl

/-- T1c (finding). At resolutions 28, 29, 30 the function returns the JavaScript-rounded decimal literals,
which are *not* the exact counts: they differ by exactly 40, 160 and 360 cells … -/
theorem num_cells_js_literals :
    getNumCells 28 + 40 = exactNumCells 28 ∧
    getNumCells 29 + 160 = exactNumCells 29 ∧
    getNumCells 30 = exactNumCells 30 + 360 := by decide +kernel

/-- … which is less than one part in `10^16` of the count … -/
theorem num_cells_js_literals_relative :
    40 * 10 ^ 16 < exactNumCells 28 ∧ 160 * 10 ^ 16 < exactNumCells 29 ∧ 360 * 10 ^ 16 < exactNumCells 30 := by
  decide +kernel

/-- … and invisible after conversion to `f64` (the literal is the shortest decimal form of the exact count,
which is a float: `15·2^(2r)`). -/
theorem num_cells_js_literals_same_float :
    (Float.ofNat (getNumCells 28)).toBits = (Float.ofNat (exactNumCells 28)).toBits ∧
    (Float.ofNat (getNumCells 29)).toBits = (Float.ofNat (exactNumCells 29)).toBits ∧
    (Float.ofNat (getNumCells 30)).toBits = (Float.ofNat (exactNumCells 30)).toBits := by decide +kernel

/-- T1d. Beyond the supported range the count saturates at `u64::MAX` (so it is *not* `60·4^(r-1)`);
checked for the first few values. -/
theorem num_cells_saturates :
    getNumCells 31 = 2 ^ 64 - 1 ∧ getNumCells 32 = 2 ^ 64 - 1 ∧ getNumCells 33 = 2 ^ 64 - 1 ∧
    getNumCells 40 = 2 ^ 64 - 1 := by decide +kernel

/-! ## T2: the tabulated area is the quotient -/

/-- T2. For every resolution `0 ≤ r ≤ 30` the tabulated cell area, read as an exact rational, is within a
relative error of `2^-52` (one unit in the last place of an `f64`) of the exact quotient
`AUTHALIC_AREA / N(r)` with the *exact* cell count `N(r)`. -/
theorem cell_area_is_quotient : ∀ r : Fin 31,
    ratAbs ((areaRow r.val).toRat - Gen.AUTHALIC_AREA.toRat / (exactNumCells r.val : Rat))
      ≤ (2 : Rat) ^ (-52 : Int) * (Gen.AUTHALIC_AREA.toRat / (exactNumCells r.val : Rat)) := by
  decide +kernel

/-- The same fact cross-multiplied into integer arithmetic (everything scaled by `2^64`):
`|t·N − A| · 2^52 ≤ A`. -/
theorem cell_area_is_quotient_int : ∀ r : Fin 31,
    ((areaRow r.val).num * 2 ^ ((areaRow r.val).exp + 64).toNat * (exactNumCells r.val : Int)
        - Gen.AUTHALIC_AREA.num * 2 ^ (Gen.AUTHALIC_AREA.exp + 64).toNat).natAbs * 2 ^ 52
      ≤ (Gen.AUTHALIC_AREA.num * 2 ^ (Gen.AUTHALIC_AREA.exp + 64).toNat).natAbs ∧
    0 ≤ (areaRow r.val).exp + 64 ∧ 0 ≤ Gen.AUTHALIC_AREA.exp + 64 := by
  decide +kernel

/-- Finding: the rows that are *not* within half a unit in the last place (relative `2^-53`) are exactly
12, 17, 19, 29, 30, so these five entries cannot be the correctly rounded quotient. -/
theorem cell_area_half_ulp_rows : ∀ r : Fin 31,
    (ratAbs ((areaRow r.val).toRat - Gen.AUTHALIC_AREA.toRat / (exactNumCells r.val : Rat))
      ≤ (2 : Rat) ^ (-53 : Int) * (Gen.AUTHALIC_AREA.toRat / (exactNumCells r.val : Rat)))
    ↔ r.val ∉ [12, 17, 19, 29, 30] := by
  decide +kernel

/-- The areas sum to the sphere up to the same relative error: `N(r) · area(r)` is within `2^-52` of
`AUTHALIC_AREA`. -/
theorem cells_tile_the_sphere : ∀ r : Fin 31,
    ratAbs ((exactNumCells r.val : Rat) * (areaRow r.val).toRat - Gen.AUTHALIC_AREA.toRat)
      ≤ (2 : Rat) ^ (-52 : Int) * Gen.AUTHALIC_AREA.toRat := by
  decide +kernel

/-! ## the metadata call `cell_area` -/

/-- `cell_area(r)` for a negative resolution (the world cell) is the whole authalic area. -/
theorem cell_area_negative (r : Int) (h : r < 0) : cellArea r = fc Gen.AUTHALIC_AREA := by
  unfold cellArea; rewrite [if_pos h]; rfl

/-- … i.e. the `f64` with the bit pattern of the literal `510065624779439.1`. -/
theorem cell_area_negative_bits (r : Int) (h : r < 0) : (cellArea r).toBits = 0x42fcfe6e8608aaf2 := by
  rewrite [cell_area_negative r h]; decide +kernel

/-- `cell_area(r)` for `0 ≤ r ≤ 30` returns exactly the tabulated `f64` of row `r`. -/
theorem cell_area_is_table : ∀ r : Fin 31, (cellArea (r.val : Int)).toBits = (areaRow r.val).bits := by
  decide +kernel

/-- The bit pattern and the exact rational of each generated constant agree (the translator emits both):
`Float.ofBits bits` is the float whose value is `num * 2^exp`; checked here through the kernel's float
model by re-deriving the bit pattern from `num`, `exp` for every row (`Float.ofNat num` is exact since
`|num| < 2^53`, and scaling by a power of two is exact). -/
theorem area_rows_bits_match_value : ∀ r : Fin 31,
    0 ≤ (areaRow r.val).num ∧ (areaRow r.val).num < 2 ^ 53 ∧ (areaRow r.val).exp < 0 ∧
    (Float.ofNat (areaRow r.val).num.toNat / Float.ofNat (2 ^ (-(areaRow r.val).exp).toNat)).toBits
      = (areaRow r.val).bits := by
  decide +kernel

/-! ## T3: the table against the float quotient -/

/-- T3. In `f64` arithmetic `AUTHALIC_AREA / N(r)` (correctly rounded IEEE division, evaluated by the
kernel's float model) has exactly the tabulated bit pattern for every row except 4, 12, 17, 19, 29, 30. -/
theorem cell_area_float_quotient : ∀ r : Fin 31,
    ((fc Gen.AUTHALIC_AREA / Float.ofNat (exactNumCells r.val)).toBits = (areaRow r.val).bits)
    ↔ r.val ∉ [4, 12, 17, 19, 29, 30] := by
  decide +kernel

/-- Finding: in the six exceptional rows the table is off by exactly one unit in the last place: one above
the float quotient in row 4, one below in rows 12, 17, 19, 29, 30. -/
theorem cell_area_float_quotient_exceptions :
    (areaRow 4).bits = (fc Gen.AUTHALIC_AREA / Float.ofNat (exactNumCells 4)).toBits + 1 ∧
    ∀ r ∈ [12, 17, 19, 29, 30],
      (areaRow r).bits + 1 = (fc Gen.AUTHALIC_AREA / Float.ofNat (exactNumCells r)).toBits := by
  decide +kernel

/-- The same holds with the count actually returned by `get_num_cells` (rows 28–30 use the JS literals). -/
theorem cell_area_float_quotient_model : ∀ r : Fin 31,
    ((fc Gen.AUTHALIC_AREA / Float.ofNat (getNumCells (r.val : Int))).toBits = (areaRow r.val).bits)
    ↔ r.val ∉ [4, 12, 17, 19, 29, 30] := by
  decide +kernel

/-! ## non-vacuity -/

example : exactNumCells 0 = 12 ∧ exactNumCells 1 = 60 ∧ exactNumCells 2 = 240 ∧ exactNumCells 30 = 60 * 4 ^ 29 := by
  decide +kernel
example : getNumCells 5 = 15360 := by decide +kernel
example : getNumCells (-1) = 0 := num_cells_negative _ (by decide)
example : Gen.AUTHALIC_AREA.toRat = 4080524998235513 / 8 := by decide +kernel
example : (areaRow 1).toRat = 8705119996235761 / 1024 := by decide +kernel
example : Gen.CELL_AREA_TABLE.length = 31 := by decide +kernel
/-- the bound of T2 is a genuinely small positive number, e.g. just under `0.002` m² out of `8.5·10^12` m² at r = 1 -/
example : (0 : Rat) < (2 : Rat) ^ (-52 : Int) * (Gen.AUTHALIC_AREA.toRat / (exactNumCells 1 : Rat)) ∧
    (2 : Rat) ^ (-52 : Int) * (Gen.AUTHALIC_AREA.toRat / (exactNumCells 1 : Rat)) < 1 / 500 := by decide +kernel
example : (cellArea (-1)).toBits = 0x42fcfe6e8608aaf2 := cell_area_negative_bits _ (by decide)

/-! ## T4: the planar half of the polygon clause -/

/-- T4a. `planar_area_equal`: in exact arithmetic on the constants the library computes at start-up, the pentagon
`get_pentagon_vertices` draws for ANY anchor (lattice frame of the quintant) has the same signed area as the seed
pentagon — the placement is a composition of a half-turn, a mirror image with reversed vertex order and translations. -/
theorem planar_area_equal (a : Anchor) (hF : HilbertLocate.IsFlip a.flips) :
    PG.areaG 0 (PG.pentagonQ a) = PG.areaG 0 PG.seedQ :=
  PG.pentagonQ_area a hF

/-- T4a for the anchors of the curve: all `4^n` cells of a quintant at depth `n` have equal planar area. -/
theorem planar_area_equal_positions (n o s t : Nat) (hn : n ≤ 30) (ho : o < 6) (hs : s < 4 ^ n) (ht : t < 4 ^ n) :
    ∃ a b, sToAnchor s n o = .ok a ∧ sToAnchor t n o = .ok b ∧
      PG.areaG 0 (PG.pentagonQ a) = PG.areaG 0 (PG.pentagonQ b) := by
  obtain ⟨a, ha, hFa, _⟩ := A5.locate_anchor ℚ n o s hn ho hs
  obtain ⟨b, hb, hFb, _⟩ := A5.locate_anchor ℚ n o t hn ho ht
  exact ⟨a, b, ha, hb, (PG.pentagonQ_area a hFa).trans (PG.pentagonQ_area b hFb).symm⟩

/-- T4b. scaling a pentagon by `s` (the `2^-res` of `get_pentagon_vertices`) multiplies its area by `s²`, over any field. -/
theorem planar_area_scale {K : Type} [Field K] (p0 p1 p2 p3 p4 : K × K) (s : K) :
    PG.areaG 0 (PG.scaleG' [p0, p1, p2, p3, p4] s) = s * s * PG.areaG 0 [p0, p1, p2, p3, p4] :=
  PG.area_scale p0 p1 p2 p3 p4 s

/-- T4c. the seed pentagon has positive area, and its area is the area of one lattice triangle (half `det BASIS`) to
2^-50: the `4^n` pentagons of depth `n` together have the area of the quintant triangle `2^n · (0, v, w)`. -/
theorem pentagon_area_is_triangle_area :
    0 < PG.areaG 0 PG.seedQ ∧ -(1 / 2 ^ 50 : Rat) < PG.areaG 0 PG.seedQ + PG.basisDet ∧
      PG.areaG 0 PG.seedQ + PG.basisDet < 1 / 2 ^ 50 :=
  PG.seed_area_facts

/-- T4a is not vacuous: the anchor of position 6, depth 2, orientation 3 has a `±1` flip pair -/
example : HilbertLocate.IsFlip (⟨1, (3, 0), (1, -1)⟩ : Anchor).flips := Or.inr (Or.inl rfl)

/-! ## T5: subdividing the edges does not change the polygon -/

/-- T5. `split_edges_preserves_area`: over any field of characteristic zero, for ANY polygon and any `n ≥ 1`, the ring
`split_edges` produces (the generic twin `splitEdgesG`, tied to the Float model by `PG.polySplitEdges_tie`) has the same
trapezoid-sum area as the polygon: the boundary "with finely subdivided edges" encloses, in the plane, exactly the cell's
pentagon. -/
theorem split_edges_preserves_area {K : Type} [Field K] [CharZero K] (vs : List (K × K)) (n : Nat) (hn : 1 ≤ n) :
    PG.areaG 0 (PG.splitEdgesG Nat.cast 0 vs n) = PG.areaG 0 vs :=
  PG.area_split vs n hn

end A5.C04
