import A5.Model.CellGeo
/-! scratch -/
namespace A5.C04
open A5

theorem t0 : getNumCells 0 = 12 := by decide +kernel
theorem t28 : getNumCells 28 = 1080863910568919000 := by decide +kernel

theorem tall : ∀ r : Fin 28, 1 ≤ r.val → getNumCells (r.val : Int) = 60 * 4 ^ (r.val - 1) := by decide +kernel

example : (Float.ofBits Gen.AUTHALIC_AREA.bits / Float.ofNat 12).toBits = 0x42c35449aeb071f7 := by decide +kernel

end A5.C04
