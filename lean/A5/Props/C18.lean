import A5.Lemmas.OriginLemmas
import A5.Lemmas.Haversine
/-! # C18 — the twelve base cells: dodecahedron frame, nearest-face rule, quintant ↔ segment relabelling

Rust: `src/core/origin.rs`, `src/core/dodecahedron_quaternions.rs`.
Model: `A5.origins`, `A5.originAt`, `A5.quintantToSegment`, `A5.segmentToQuintant`, `A5.haversine`,
`A5.findNearestOrigin`, `A5.quatAt`, `A5.transformQuat` (`A5/Model/Geo.lean`); the tables
(`A5/Gen/Tables.lean`) are regenerated from the Rust source on every run.
Float-free mirrors with the same bodies: `quintantToSegmentI`, `segmentToQuintantI`, `haversineG`, `argminGo`,
`transformQuatG`, `quatAtG` (`A5/Model/OriginInt.lean`); the model is their `Float` instance by `rfl`
(`quintantToSegment_eq`, `segmentToQuintant_eq`, `haversine_eq`, `findNearestOrigin_eq`, `transformQuat_eq`,
`quatAt_eq` in `A5/Lemmas/OriginLemmas.lean`).

What is proved about which object:
* T1, T5 are about the *model functions on the model's `Origin` records* (finite, kernel-checked).
* T2 is about the formula of `haversine` read over ℝ (`haversineG Real.sin 2`); the `Float` model is the same
  expression tree at `Float.sin` (`haversine_eq`, `rfl`).  Rounding is *not* covered ("ties on seams aside").
* T3 is about the loop of `findNearestOrigin` read over any linear order; the `Float` model is the same loop
  (`nearest_is_fold`).  `Float`'s `<` is not a linear order because of NaN.
* T4 is about the exact rational values of the `f64` constants in `QUATERNIONS` (48 components, each checked to
  be the value of its IEEE bit pattern) pushed through `transform_quat` over ℚ. -/
namespace A5.C18
open A5

/-! ## T1 — quintant ↔ segment relabelling is an orientation-preserving bijection on every face -/

/-- **T1.** On each of the 12 faces: `quintant_to_segment` maps 0..4 into 0..4 with an orientation code in
0..5, `segment_to_quintant` undoes it *and reports the same orientation*; and the same with the roles
exchanged.  Hence both are bijections of 0..4, inverse to each other, preserving the curve orientation in
both directions. -/
theorem segment_quintant_bijection (o : Nat) (ho : o < 12) :
    (∀ q, q < 5 →
      (quintantToSegment q (originAt o)).1 < 5 ∧ (quintantToSegment q (originAt o)).2 < 6 ∧
      segmentToQuintant (quintantToSegment q (originAt o)).1 (originAt o)
        = (q, (quintantToSegment q (originAt o)).2)) ∧
    (∀ s, s < 5 →
      (segmentToQuintant s (originAt o)).1 < 5 ∧ (segmentToQuintant s (originAt o)).2 < 6 ∧
      quintantToSegment (segmentToQuintant s (originAt o)).1 (originAt o)
        = (s, (segmentToQuintant s (originAt o)).2)) := by
  simp only [quintantToSegment_originAt _ o ho, segmentToQuintant_originAt _ o ho]
  exact ⟨relabelI_roundtrip_q o ho, relabelI_roundtrip_s o ho⟩

/-- injectivity, spelled out -/
theorem quintantToSegment_injective (o : Nat) (ho : o < 12) (q q' : Nat) (hq : q < 5) (hq' : q' < 5)
    (h : (quintantToSegment q (originAt o)).1 = (quintantToSegment q' (originAt o)).1) : q = q' := by
  have h1 := ((segment_quintant_bijection o ho).1 q hq).2.2
  have h2 := ((segment_quintant_bijection o ho).1 q' hq').2.2
  rw [h] at h1
  exact congrArg Prod.fst (h1.symm.trans h2)

theorem segmentToQuintant_injective (o : Nat) (ho : o < 12) (s s' : Nat) (hs : s < 5) (hs' : s' < 5)
    (h : (segmentToQuintant s (originAt o)).1 = (segmentToQuintant s' (originAt o)).1) : s = s' := by
  have h1 := ((segment_quintant_bijection o ho).2 s hs).2.2
  have h2 := ((segment_quintant_bijection o ho).2 s' hs').2.2
  rw [h] at h1
  exact congrArg Prod.fst (h1.symm.trans h2)

/-- The data behind T1: the record of face `o` carries its id, and the rows of the generated tables selected
through `ORIGIN_ORDER`; the layout is one of the four named fans (five codes in 0..5), clockwise exactly for
`CLOCKWISE_FAN`/`CLOCKWISE_STEP`; the first quintant is in 0..4. -/
theorem face_tables (o : Nat) (ho : o < 12) :
    (originAt o).id = o ∧
    (originAt o).firstQuintant = Gen.QUINTANT_FIRST.getD (Gen.ORIGIN_ORDER.getD o 0) 0 ∧
    (originAt o).orientation = Gen.QUINTANT_ORIENTATIONS_ARRAYS.getD (Gen.ORIGIN_ORDER.getD o 0) [] ∧
    ((originAt o).orientation = Gen.CLOCKWISE_FAN ∨ (originAt o).orientation = Gen.CLOCKWISE_STEP ∨
     (originAt o).orientation = Gen.COUNTER_STEP ∨ (originAt o).orientation = Gen.COUNTER_JUMP) ∧
    (isLayoutClockwise (originAt o).orientation = true ↔
      ((originAt o).orientation = Gen.CLOCKWISE_FAN ∨ (originAt o).orientation = Gen.CLOCKWISE_STEP)) ∧
    (originAt o).orientation.length = 5 ∧ (∀ c ∈ (originAt o).orientation, c < 6) ∧
    (originAt o).firstQuintant < 5 := by
  have hn := faceLayout_named o ho
  refine ⟨originAt_id o ho, originAt_firstQuintant o ho, originAt_orientation o ho, ?_, ?_, ?_, ?_, ?_⟩
  · rw [originAt_layout o ho]; exact hn.1
  · rw [originAt_layout o ho, isLayoutClockwise_eq]
    rcases hn.1 with h | h | h | h <;> rw [h] <;> decide
  · rw [originAt_layout o ho]; exact hn.2.1
  · rw [originAt_layout o ho]; exact hn.2.2.1
  · rw [originAt_first o ho]; exact hn.2.2.2

/-- how the relabelling winds: on a counter-clockwise face the segment *is* the quintant; on a clockwise face
it is the quintant mirrored about the face's first quintant.  The orientation of a segment is the entry of
the face's fan at the segment's offset from the first quintant. -/
theorem relabelling_winding (o : Nat) (ho : o < 12) (q : Nat) (hq : q < 5) :
    (quintantToSegment q (originAt o)).1 =
      (if isLayoutClockwise (originAt o).orientation
        then (2 * (originAt o).firstQuintant + 5 - q) % 5 else q) ∧
    (segmentToQuintant q (originAt o)).2 =
      (originAt o).orientation.getD ((q + 5 - (originAt o).firstQuintant) % 5) 0 := by
  refine ⟨?_, rfl⟩
  rw [quintantToSegment_originAt q o ho, originAt_first o ho, originAt_layout o ho, isLayoutClockwise_eq]
  exact relabelI_winding o ho q hq

/-- `ORIGIN_ORDER` is a permutation of 0..11, and there are 12 origins. -/
theorem origin_order_permutation :
    origins.length = 12 ∧ Gen.ORIGIN_ORDER.length = 12 ∧
    (∀ o, o < 12 → Gen.ORIGIN_ORDER.getD o 0 < 12) ∧
    (∀ o, o < 12 → ∀ o', o' < 12 → Gen.ORIGIN_ORDER.getD o 0 = Gen.ORIGIN_ORDER.getD o' 0 → o = o') ∧
    (∀ k, k < 12 → ∃ o, o < 12 ∧ Gen.ORIGIN_ORDER.getD o 0 = k) :=
  ⟨origins_length, originOrder_perm⟩

/-- a counter-clockwise face (face 3 = slot 4, `COUNTER_STEP`, first quintant 0): 2 ↦ segment 2, code WV -/
example : quintantToSegment 2 (originAt 3) = (2, 5) ∧ segmentToQuintant 2 (originAt 3) = (2, 5) := by
  rw [quintantToSegment_originAt 2 3 (by decide), segmentToQuintant_originAt 2 3 (by decide)]; decide
/-- a clockwise face (face 4 = slot 3, `CLOCKWISE_STEP`, first quintant 2): 3 ↦ segment 1, code UW -/
example : quintantToSegment 3 (originAt 4) = (1, 2) ∧ segmentToQuintant 1 (originAt 4) = (3, 2) := by
  rw [quintantToSegment_originAt 3 4 (by decide), segmentToQuintant_originAt 1 4 (by decide)]; decide
/-- outside 0..4 the maps are *not* injective (5 and 0 collide), so the range hypothesis is needed -/
example : quintantToSegment 5 (originAt 3) = quintantToSegment 0 (originAt 3) := by
  rw [quintantToSegment_originAt 5 3 (by decide), quintantToSegment_originAt 0 3 (by decide)]; decide

/-! ## T2 — the distance measure is (1 − ⟪p,a⟫)/2: minimising it is minimising great-circle distance -/

/-- the `Float` model and the real formula are the same expression tree -/
theorem haversine_same_formula (θ φ θ₂ φ₂ : Float) (x y x₂ y₂ : ℝ) :
    haversine θ φ θ₂ φ₂ = haversineG Float.sin 2.0 θ φ θ₂ φ₂ ∧
    haversineR x y x₂ y₂ = haversineG Real.sin 2 x y x₂ y₂ :=
  ⟨rfl, haversineR_eq_haversineG x y x₂ y₂⟩

/-- **T2.** For all real angles, with `p = to_cartesian(θ, φ)`, `a = to_cartesian(θ₂, φ₂)`:
`sin²((φ₂-φ)/2) + sin²((θ₂-θ)/2)·sin φ·sin φ₂ = (1 - ⟪p, a⟫)/2`. -/
theorem haversine_is_chord (θ φ θ₂ φ₂ : ℝ) :
    haversineR θ φ θ₂ φ₂ = (1 - dot3 (toCartesianR θ φ) (toCartesianR θ₂ φ₂)) / 2 :=
  A5.haversine_is_chord θ φ θ₂ φ₂

/-- … which is the haversine `sin²(δ/2)` of the great-circle distance `δ = arccos ⟪p, a⟫`, in `[0, 1]`. -/
theorem haversine_is_hav_of_distance (θ φ θ₂ φ₂ : ℝ) :
    haversineR θ φ θ₂ φ₂ = Real.sin (gcDist θ φ θ₂ φ₂ / 2) ^ 2 ∧
    0 ≤ haversineR θ φ θ₂ φ₂ ∧ haversineR θ φ θ₂ φ₂ ≤ 1 :=
  ⟨haversine_is_hav_gcDist θ φ θ₂ φ₂, (haversineR_mem θ φ θ₂ φ₂).1, (haversineR_mem θ φ θ₂ φ₂).2⟩

/-- Corollary: comparing the measure of two axes is comparing dot products (reversed) and is comparing
great-circle distances. -/
theorem haversine_orders_by_distance (θ φ θa φa θb φb : ℝ) :
    (haversineR θ φ θa φa ≤ haversineR θ φ θb φb ↔
      dot3 (toCartesianR θ φ) (toCartesianR θa φa) ≥ dot3 (toCartesianR θ φ) (toCartesianR θb φb)) ∧
    (haversineR θ φ θa φa ≤ haversineR θ φ θb φb ↔ gcDist θ φ θa φa ≤ gcDist θ φ θb φb) ∧
    (haversineR θ φ θa φa < haversineR θ φ θb φb ↔ gcDist θ φ θa φa < gcDist θ φ θb φb) :=
  ⟨haversine_le_iff_dot θ φ θa φa θb φb, haversine_le_iff_gcDist θ φ θa φa θb φb,
   haversine_lt_iff_gcDist θ φ θa φa θb φb⟩

/-- north pole against south pole: the measure is 1, the distance π -/
example : haversineR 0 0 0 Real.pi = 1 := by
  unfold haversineR; simp
example : gcDist 0 0 0 Real.pi = Real.pi := by
  unfold gcDist dot3 toCartesianR; simp
/-- a negative `sin φ · sin φ₂` (angles outside `[0, π]`) is covered too: the identity needs no range -/
example : haversineR 0 (-Real.pi / 2) Real.pi (Real.pi / 2) = 0 := by
  rw [haversine_is_chord]; unfold dot3 toCartesianR; simp [neg_div]

/-! ## T3 — `find_nearest_origin` returns the first minimiser -/

/-- the model's loop is the generic loop `argminGo` at `Float`, keyed by `haversine` to the face axis,
started at `+∞` with candidate face 0 -/
theorem nearest_is_fold (θ φ : Float) :
    findNearestOrigin θ φ =
      argminGo (fun o => haversine θ φ o.theta o.phi) origins (1.0 / 0.0) (originAt 0) :=
  findNearestOrigin_eq θ φ

/-- **T3.** Over a linear order the loop returns `b` if no value is below the initial bound `m`, and
otherwise the *first* element attaining the minimum of `f` over the list. -/
theorem nearest_is_argmin {α β : Type} [LinearOrder β] (f : α → β) (l : List α) (m : β) (b : α) :
    ((∀ y ∈ l, m ≤ f y) ∧ argminGo f l m b = b) ∨
    (∃ pre x post, l = pre ++ x :: post ∧ argminGo f l m b = x ∧ f x < m ∧
        (∀ y ∈ pre, f x < f y) ∧ (∀ y ∈ post, f x ≤ f y)) :=
  argminGo_spec f l m b

/-- T2 + T3 over ℝ: the loop of `find_nearest_origin` run in exact arithmetic on any non-empty list of axes
returns an axis of the list such that no axis of the list is closer by great-circle distance (with several
nearest axes — a seam — it returns the first). -/
theorem nearest_is_nearest_real (θ φ : ℝ) (axes : List (ℝ × ℝ)) (b : ℝ × ℝ) (hne : axes ≠ []) :
    argminGo (fun a : ℝ × ℝ => haversineR θ φ a.1 a.2) axes 2 b ∈ axes ∧
    ∀ a ∈ axes, gcDist θ φ (argminGo (fun a : ℝ × ℝ => haversineR θ φ a.1 a.2) axes 2 b).1
                            (argminGo (fun a : ℝ × ℝ => haversineR θ φ a.1 a.2) axes 2 b).2
                  ≤ gcDist θ φ a.1 a.2 :=
  nearest_real θ φ axes b hne

/-- two keys share the minimum 1: the first one (41) wins -/
example : argminGo (fun x : Nat => x % 10) [23, 41, 11, 57] 100 0 = 41 := by decide
example : ∃ y ∈ [23, 41, 11, 57], (fun x : Nat => x % 10) y < 100 := ⟨23, by decide, by decide⟩

/-! ## T4 — the frame is a regular dodecahedron's face-centre set -/

/-- The twelve face centres (pole `(0,0,1)` rotated by the face's quaternion, exact rational arithmetic on
the `f64` constants of `QUATERNIONS`):
1. every quaternion has `| |q|² − 1 | < 2⁻⁴⁸`;
2. face 0 is exactly the north pole and face 9 exactly the south pole;
3. face 1 lies on the zero meridian of the frame (`y = 0`, `x > 0`) — the meridian that `LONGITUDE_OFFSET`
   places at longitude −93°;
4. for all `i, j`: `⟪cᵢ,cᵢ⟫` is within `2⁻⁴⁰` of 1; `⟪cᵢ,c_{antipode i}⟫` within `2⁻⁴⁰` of −1; every other pair
   has `|5·d² − 1| < 2⁻⁴⁰`, i.e. `d = ±1/√5` (63.435° or 116.565°);
5. `antipode` is a fixed-point-free involution of 0..11;
6. every face has exactly five faces at `+1/√5`. -/
def FrameRegular : Prop :=
  (∀ k, k < 12 → nearQ (normSqQ (quatQ k)) 1 (2 ^ (-48 : Int))) ∧
  (centreQ 0 = (0, 0, 1) ∧ centreQ 9 = (0, 0, -1)) ∧
  ((centreQ 1).2.1 = 0 ∧ 0 < (centreQ 1).1) ∧
  (∀ i, i < 12 → ∀ j, j < 12 →
    (j = i → nearQ (dotQ (centreQ i) (centreQ j)) 1 (2 ^ (-40 : Int))) ∧
    (j = antipode.getD i 0 → nearQ (dotQ (centreQ i) (centreQ j)) (-1) (2 ^ (-40 : Int))) ∧
    (j ≠ i → j ≠ antipode.getD i 0 →
      nearQ (5 * (dotQ (centreQ i) (centreQ j) * dotQ (centreQ i) (centreQ j))) 1 (2 ^ (-40 : Int)))) ∧
  (∀ i, i < 12 → antipode.getD i 0 < 12 ∧ antipode.getD i 0 ≠ i ∧
      antipode.getD (antipode.getD i 0) 0 = i) ∧
  (∀ i, i < 12 → (nearFaces i).length = 5)

/-- **T4.** (each of the six clauses is evaluated by the kernel on exact rationals) -/
theorem frame_regular : FrameRegular :=
  ⟨by decide +kernel, by decide +kernel, by decide +kernel, by decide +kernel, by decide +kernel,
   by decide +kernel⟩

/-- the rational quaternions / centres are those of the model: same table rows, same rotation formula, and
each `f64` component's bit pattern denotes the rational used here. -/
theorem frame_is_models (o : Nat) (ho : o < 12) (v : V3) :
    (originAt o).quat = quatAtG fc (0.0, 0.0, 0.0, 1.0) (faceQuatIndex o) ∧
    quatQ (faceQuatIndex o) = quatAtG FConst.toRat (0, 0, 0, 1) (faceQuatIndex o) ∧
    transformQuat v (originAt o).quat
      = (let r := transformQuatG (v.x, v.y, v.z) (originAt o).quat; ⟨r.1, r.2.1, r.2.2⟩) ∧
    (∀ row ∈ Gen.QUATERNIONS, row.length = 4 ∧ ∀ c ∈ row, c.Consistent) :=
  ⟨(originAt_quat o ho).trans (quatAt_eq _), rfl, rfl, quaternions_consistent⟩

/-- concrete values: the poles are exact, a neighbour pair is not (so the tolerances are needed) -/
example : dotQ (centreQ 0) (centreQ 9) = -1 := by decide +kernel
example : 5 * (dotQ (centreQ 0) (centreQ 1) * dotQ (centreQ 0) (centreQ 1)) ≠ 1 ∧
    nearFaces 0 = [1, 4, 5, 6, 11] ∧ antipode.getD 3 0 = 11 := by decide +kernel

/-! ## T5 — longitude offset, second-ring quaternion index -/

/-- **T5a.** `LONGITUDE_OFFSET` is exactly 93 (dyadic `93·2⁰`, bit pattern of `93.0_f64`). -/
theorem longitude_offset_is_93 :
    Gen.LONGITUDE_OFFSET.num = 93 ∧ Gen.LONGITUDE_OFFSET.exp = 0 ∧ Gen.LONGITUDE_OFFSET.toRat = 93 ∧
    Gen.LONGITUDE_OFFSET.Consistent ∧ (fc Gen.LONGITUDE_OFFSET).toBits = (93.0 : Float).toBits :=
  ⟨longitude_offset_93.1, longitude_offset_93.2.1, longitude_offset_93.2.2.1, longitude_offset_93.2.2.2,
   longitude_offset_float⟩

/-- **T5b.** The second-ring quaternion index `(i + RING2_QUAT_ADD) % RING2_QUAT_MOD + RING2_QUAT_BASE`,
`i < 5`, hits each of 6..10 exactly once; and over all twelve faces every row of `QUATERNIONS` is used by
exactly one face. -/
theorem ring2_index_bijective :
    (∀ i, i < 5 → 6 ≤ (i + Gen.RING2_QUAT_ADD) % Gen.RING2_QUAT_MOD + Gen.RING2_QUAT_BASE ∧
                  (i + Gen.RING2_QUAT_ADD) % Gen.RING2_QUAT_MOD + Gen.RING2_QUAT_BASE ≤ 10) ∧
    (∀ i, i < 5 → ∀ j, j < 5 →
        (i + Gen.RING2_QUAT_ADD) % Gen.RING2_QUAT_MOD + Gen.RING2_QUAT_BASE
          = (j + Gen.RING2_QUAT_ADD) % Gen.RING2_QUAT_MOD + Gen.RING2_QUAT_BASE → i = j) ∧
    (∀ k, 6 ≤ k → k ≤ 10 → ∃ i, i < 5 ∧
        (i + Gen.RING2_QUAT_ADD) % Gen.RING2_QUAT_MOD + Gen.RING2_QUAT_BASE = k) ∧
    (∀ o, o < 12 → (originAt o).quat = quatAt (faceQuatIndex o)) ∧
    (∀ o, o < 12 → ∀ o', o' < 12 → faceQuatIndex o = faceQuatIndex o' → o = o') ∧
    (∀ k, k < 12 → ∃ o, o < 12 ∧ faceQuatIndex o = k) :=
  ⟨ring2_index_perm.1, ring2_index_perm.2.1, ring2_index_perm.2.2, originAt_quat,
   faceQuatIndex_perm.2.1, faceQuatIndex_perm.2.2⟩

example : (List.range 5).map (fun i => (i + Gen.RING2_QUAT_ADD) % Gen.RING2_QUAT_MOD + Gen.RING2_QUAT_BASE)
    = [9, 10, 6, 7, 8] := by decide
example : (List.range 12).map faceQuatIndex = [0, 1, 9, 10, 2, 3, 4, 7, 6, 11, 8, 5] := by decide

end A5.C18
