import A5.Props.C17
import A5.Spec.Layout
import A5.Model.CellGeo
import A5.Lemmas.PentagonDisjoint5
import Mathlib.MeasureTheory.Measure.Typeclasses.Finite
import Mathlib.MeasureTheory.Measure.Count
/-! # C03 — cells of one resolution partition the sphere: no overlaps, no gaps (combinatorial half + abstract reduction)

"Cells of one resolution partition the sphere: no overlaps, no gaps."

PROVED here:
* T1 `lattice_partition` (from C17, every depth `n ≤ 30`, every orientation `o < 6`, every linearly ordered field `K`):
  every point of the quintant triangle `{x > 0, y > 0, x + y < 2^n}` that is on no lattice line lies in the lattice
  triangle of EXACTLY ONE position `s < 4^n`; every lattice triangle is non-empty and lies inside the quintant
  triangle.  So no unit lattice triangle is claimed twice and none is left out.  `cells_partition_quintant` is the same
  statement about the valid cells `⟨face, segment, s, r⟩` of one quintant.
* T2 `disjoint_of_cover_and_equal_area` [ABSTRACT, CONDITIONAL]: in a finite measure space, finitely many measurable
  sets of equal measure `μ(univ)/N` that cover `univ` up to a null set intersect pairwise in null sets
  (`null_inter_of_cover_of_sum_le`: it is enough that the measures sum to at most `μ(univ)`).  This reduces
  "no overlap" on the sphere to "every point is in some cell" (C01) and "all cells have equal area" (C04/C16); neither
  hypothesis is proved here for the spherical cells.

* T3 `pentagons_do_not_overlap` (planar, exact rational arithmetic on the runtime constants, EVERY depth `n ≤ 30`, every
  orientation, all positions `s ≠ t`; `A5/Lemmas/PentagonDisjoint*.lean`): no point lies more than `2⁻⁵⁴` (in cross-product
  units; `< 2⁻⁵²` lattice units from an edge line) inside the pentagons of two different positions; pentagons whose anchors
  are more than 2 lattice steps apart have exactly disjoint interiors.  The plain statement "disjoint interiors" is FALSE on
  the rounded constants (`pentagons_disjoint_exact_is_false`: neighbours that ideally share an edge overlap in a sliver
  about 3·10⁻¹⁷ wide) and the margin is sharp up to a factor 4 (`overlap_margin_sharp`).  Proof: the relative
  configuration of two cells (offset difference, flips, k digits) lives in a finite set closed under subdivision
  (15 616 kernel-checked cases), every near configuration (588) carries a separating edge with slack, far ones are
  separated by bounding hexagons.

NOT proved (`sphere_partition_statement`): coverage by the pentagons (no gaps) other than through the lattice triangles,
the seams between the five quintants of a face (rotation by 72°), across the 30 dodecahedron edges and at the 20
vertices, and the transfer through the projection and to `f64`. -/
set_option linter.unusedSectionVars false
namespace A5.C03
open A5 A5.HilbertLocate

/-! ## T1: the lattice triangles of the `4^n` positions tile the quintant triangle -/

section field
variable (K : Type) [Field K] [LinearOrder K] [IsStrictOrderedRing K]

/-- **T1 `lattice_partition`.**  No gaps and no overlaps at lattice level: every off-lattice point of the quintant
triangle lies in the lattice triangle of exactly one position. -/
theorem lattice_partition (n o : Nat) (hn : n ≤ 30) (ho : o < 6) (x y : K)
    (hq : 0 < x ∧ 0 < y ∧ x + y < 2 ^ n) (hoff : OffLattice x y) :
    ∃! s, s < 4 ^ n ∧ ∃ a, sToAnchor s n o = .ok a ∧ anchorTri a x y := by
  obtain ⟨s, ⟨hs, ha, _⟩, huniq⟩ := C17.positions_onto_lattice_triangles K n o hn ho x y hq hoff
  exact ⟨s, ⟨hs, ha⟩, fun t ⟨ht, hb⟩ => huniq t ht hb⟩

/-- T1, converse direction: every position has an anchor; its lattice triangle is non-empty, lies inside the quintant
triangle, and meets the triangle of no other position. -/
theorem lattice_triangles_proper (n o s : Nat) (hn : n ≤ 30) (ho : o < 6) (hs : s < 4 ^ n) :
    ∃ a, sToAnchor s n o = .ok a ∧ (∃ x y : K, anchorTri a x y) ∧
      (∀ x y : K, anchorTri a x y → 0 < x ∧ 0 < y ∧ x + y < 2 ^ n) ∧
      ∀ t, t < 4 ^ n → ∀ b, sToAnchor t n o = .ok b → ∀ x y : K, anchorTri a x y → anchorTri b x y → s = t := by
  obtain ⟨a, ha, hF, _⟩ := C17.locate_anchor K n o s hn ho hs
  exact ⟨a, ha, ⟨_, _, anchorTri_nonempty a hF⟩,
    fun x y h => C17.centres_in_quintant_triangle K n o s hn ho hs a ha x y h,
    fun t ht b hb x y hxa hxb => C17.triangles_disjoint K n o s t hn ho hs ht a b ha hb x y hxa hxb⟩

/-- T1 for cells: in the quintant `(face og, segment seg)` at a curve resolution `2 ≤ r ≤ 29` (depth `r − 1`), every
off-lattice point of the quintant triangle lies in the lattice triangle of exactly one valid cell. -/
theorem cells_partition_quintant (og seg : Nat) (hog : og < 12) (hseg : seg < 5) (r : Int) (h2 : 2 ≤ r) (h29 : r ≤ 29)
    (o : Nat) (ho : o < 6) (x y : K) (hq : 0 < x ∧ 0 < y ∧ x + y < 2 ^ (r - 1).toNat) (hoff : OffLattice x y) :
    ∃! c : Cell, c.Valid ∧ c.origin = og ∧ c.segment = seg ∧ c.res = r ∧
      ∃ a, sToAnchor c.s (r - 1).toNat o = .ok a ∧ anchorTri a x y := by
  obtain ⟨s, ⟨hs, ha⟩, huniq⟩ := lattice_partition K (r - 1).toNat o (by omega) ho x y hq hoff
  refine ⟨⟨og, seg, s, r⟩, ⟨Or.inr (Or.inr (Or.inr ⟨h2, h29, hog, hseg, hs⟩)), rfl, rfl, rfl, ha⟩, ?_⟩
  rintro ⟨o', g', s', r'⟩ ⟨hv, rfl, rfl, rfl, ha'⟩
  change 2 ≤ r' at h2
  have hs' : s' < 4 ^ (r' - 1).toNat := by
    rcases hv with ⟨h, _⟩ | ⟨h, _⟩ | ⟨h, _⟩ | ⟨_, _, _, _, h⟩
    · change r' = -1 at h; omega
    · change r' = 0 at h; omega
    · change r' = 1 at h; omega
    · exact h
  have := huniq s' ⟨hs', ha'⟩
  subst this
  rfl

end field

/-! ## T2: cover + equal area ⇒ pairwise null intersections (abstract) -/

open MeasureTheory

/-- General form: finitely many measurable sets that cover the space (in measure) and whose measures sum to at most the
total measure intersect pairwise in null sets. -/
theorem null_inter_of_cover_of_sum_le {α ι : Type*} [MeasurableSpace α] (μ : Measure α) [IsFiniteMeasure μ]
    (s : Finset ι) (A : ι → Set α) (hm : ∀ k ∈ s, MeasurableSet (A k))
    (hcover : μ Set.univ ≤ μ (⋃ k ∈ s, A k)) (hsum : ∑ k ∈ s, μ (A k) ≤ μ Set.univ)
    {i j : ι} (hi : i ∈ s) (hj : j ∈ s) (hij : i ≠ j) : μ (A i ∩ A j) = 0 := by
  classical
  have hj' : j ∈ s.erase i := Finset.mem_erase.2 ⟨hij.symm, hj⟩
  have hsplit : ∑ k ∈ s, μ (A k) = μ (A i) + (μ (A j) + ∑ k ∈ (s.erase i).erase j, μ (A k)) := by
    rw [← Finset.add_sum_erase s _ hi, ← Finset.add_sum_erase (s.erase i) _ hj']
  have hsub : (⋃ k ∈ s, A k) ⊆ (A i ∪ A j) ∪ ⋃ k ∈ (s.erase i).erase j, A k := by
    intro x hx
    obtain ⟨k, hk, hxk⟩ := Set.mem_iUnion₂.1 hx
    by_cases h1 : k = i
    · subst h1; exact Or.inl (Or.inl hxk)
    by_cases h2 : k = j
    · subst h2; exact Or.inl (Or.inr hxk)
    exact Or.inr (Set.mem_iUnion₂.2 ⟨k, Finset.mem_erase.2 ⟨h2, Finset.mem_erase.2 ⟨h1, hk⟩⟩, hxk⟩)
  have h1 : μ Set.univ ≤ μ (A i ∪ A j) + ∑ k ∈ (s.erase i).erase j, μ (A k) :=
    hcover.trans ((measure_mono hsub).trans ((measure_union_le _ _).trans
      (add_le_add le_rfl (measure_biUnion_finset_le _ A))))
  have h2 := measure_union_add_inter (μ := μ) (A i) (hm j hj)
  have h3 : μ Set.univ + μ (A i ∩ A j) ≤ μ Set.univ + 0 := by
    calc μ Set.univ + μ (A i ∩ A j)
        ≤ (μ (A i ∪ A j) + ∑ k ∈ (s.erase i).erase j, μ (A k)) + μ (A i ∩ A j) := add_le_add h1 le_rfl
      _ = (μ (A i ∪ A j) + μ (A i ∩ A j)) + ∑ k ∈ (s.erase i).erase j, μ (A k) := add_right_comm _ _ _
      _ = μ (A i) + (μ (A j) + ∑ k ∈ (s.erase i).erase j, μ (A k)) := by rw [h2, add_assoc]
      _ = ∑ k ∈ s, μ (A k) := hsplit.symm
      _ ≤ μ Set.univ := hsum
      _ = μ Set.univ + 0 := (add_zero _).symm
  exact le_zero_iff.1 ((ENNReal.add_le_add_iff_left (measure_ne_top μ _)).1 h3)

/-- **T2 `disjoint_of_cover_and_equal_area`** [abstract; CONDITIONAL on the two hypotheses].  In a finite measure space,
let `A k` (`k ∈ s`, `N = |s|`) be measurable sets with `μ (A k) = μ univ / N` whose union has null complement.  Then
distinct members intersect in a null set. -/
theorem disjoint_of_cover_and_equal_area {α ι : Type*} [MeasurableSpace α] (μ : Measure α) [IsFiniteMeasure μ]
    (s : Finset ι) (A : ι → Set α) (hm : ∀ k ∈ s, MeasurableSet (A k))
    (hcover : μ (⋃ k ∈ s, A k)ᶜ = 0) (harea : ∀ k ∈ s, μ (A k) = μ Set.univ / s.card)
    {i j : ι} (hi : i ∈ s) (hj : j ∈ s) (hij : i ≠ j) : μ (A i ∩ A j) = 0 := by
  have hc : (s.card : ENNReal) ≠ 0 := by
    have : 0 < s.card := Finset.card_pos.2 ⟨i, hi⟩
    exact_mod_cast this.ne'
  refine null_inter_of_cover_of_sum_le μ s A hm ?_ ?_ hi hj hij
  · have := measure_univ_le_add_compl (μ := μ) (⋃ k ∈ s, A k)
    rwa [hcover, add_zero] at this
  · rw [Finset.sum_congr rfl harea, Finset.sum_const, nsmul_eq_mul,
      ENNReal.mul_div_cancel hc (ENNReal.natCast_ne_top _)]

/-- the version with an honest cover `⋃ A k = univ` -/
theorem disjoint_of_cover_and_equal_area' {α ι : Type*} [MeasurableSpace α] (μ : Measure α) [IsFiniteMeasure μ]
    (s : Finset ι) (A : ι → Set α) (hm : ∀ k ∈ s, MeasurableSet (A k))
    (hcover : (⋃ k ∈ s, A k) = Set.univ) (harea : ∀ k ∈ s, μ (A k) = μ Set.univ / s.card)
    {i j : ι} (hi : i ∈ s) (hj : j ∈ s) (hij : i ≠ j) : μ (A i ∩ A j) = 0 :=
  disjoint_of_cover_and_equal_area μ s A hm (by rw [hcover, Set.compl_univ, measure_empty]) harea hi hj hij

/-! ## the geometric claim, not proved -/

/-- Intended full statement (NOT proved; float- and projection-dependent).  For every resolution `0 ≤ r ≤ 29` and every
finite point: (no gaps) some valid cell of resolution `r` passes the model's containment test non-strictly, and
(no overlaps) no two distinct valid cells of resolution `r` both contain the point strictly. -/
def sphere_partition_statement : Prop :=
  ∀ (r : Int), 0 ≤ r → r ≤ 29 → ∀ lon lat : Float, lon.isFinite = true → lat.isFinite = true →
    (∃ c : Cell, c.Valid ∧ c.res = r ∧ ∃ d, cellContainsPoint c lon lat = .ok d ∧ d ≥ 0.0) ∧
    (∀ c c' : Cell, c.Valid → c'.Valid → c.res = r → c'.res = r → c ≠ c' →
      ∀ d d', cellContainsPoint c lon lat = .ok d → cellContainsPoint c' lon lat = .ok d' → ¬(d > 0.0 ∧ d' > 0.0))

/-! ## non-vacuity -/

/-- T1's hypotheses on a concrete point: `(8/3, 2/3)` at depth 2 — in the quintant triangle, on no lattice line -/
theorem offLattice_example : OffLattice (8 / 3 : ℚ) (2 / 3) := by
  have key : ∀ (q : ℚ), q.den ≠ 1 → ∀ z : Int, q ≠ (z : ℚ) := by
    intro q hq z hz
    rewrite [hz] at hq
    exact hq (Rat.den_intCast z)
  intro z
  exact ⟨key _ (by decide +kernel) z, key _ (by decide +kernel) z, key _ (by decide +kernel) z⟩

example : ∃! s, s < 4 ^ 2 ∧ ∃ a, sToAnchor s 2 3 = .ok a ∧ anchorTri a (8 / 3 : ℚ) (2 / 3) :=
  lattice_partition ℚ 2 3 (by decide) (by decide) _ _ (by norm_num) offLattice_example

/-- the unique position is 6 (anchor `(3,0)`, flips `(1,-1)`), cf. C17 -/
example : sToAnchor 6 2 3 = .ok ⟨1, (3, 0), (1, -1)⟩ ∧ anchorTri ⟨1, (3, 0), (1, -1)⟩ (8 / 3 : ℚ) (2 / 3) :=
  ⟨by decide, by rw [anchorTri, inT_pm]; norm_num⟩

example : ∃! c : Cell, c.Valid ∧ c.origin = 7 ∧ c.segment = 3 ∧ c.res = 3 ∧
    ∃ a, sToAnchor c.s (3 - 1 : Int).toNat 3 = .ok a ∧ anchorTri a (8 / 3 : ℚ) (2 / 3) :=
  cells_partition_quintant ℚ 7 3 (by decide) (by decide) 3 (by decide) (by decide) 3 (by decide) _ _
    (by refine ⟨by norm_num, by norm_num, ?_⟩; show (8 / 3 : ℚ) + 2 / 3 < 2 ^ 2; norm_num) offLattice_example

/-- T2's hypotheses on a concrete family: the two singletons of `Bool` under the counting measure
(`μ univ = 2`, each member has measure `1 = 2/2`, the union is everything) -/
theorem count_bool_univ : (Measure.count : Measure Bool) Set.univ = 2 := by
  have : (Set.univ : Set Bool) = {false} ∪ {true} := by ext b; cases b <;> simp
  rw [this, measure_union (by simp) (measurableSet_singleton _), Measure.count_singleton, Measure.count_singleton]
  norm_num

example : (Measure.count : Measure Bool) (({false} : Set Bool) ∩ {true}) = 0 := by
  refine disjoint_of_cover_and_equal_area' (Measure.count : Measure Bool) Finset.univ (fun b => ({b} : Set Bool))
    (fun k _ => measurableSet_singleton k) ?_ ?_ (Finset.mem_univ false) (Finset.mem_univ true) (by decide)
  · ext b; simp
  · intro k _
    rw [Measure.count_singleton, count_bool_univ]
    simp
    exact (ENNReal.div_self (by norm_num) (by norm_num)).symm

/-! ## T3: the pentagons of different positions do not overlap (planar, exact arithmetic, every depth) -/

open A5.PG A5.CP A5.PD in
/-- T3. `pentagons_do_not_overlap`: within a quintant, for every depth, orientation and pair of different positions, no
point is more than `2⁻⁵⁴` inside both pentagons; equivalently every common interior point lies within `2⁻⁵²` lattice
units of an edge line of one of the two. -/
theorem pentagons_do_not_overlap (n o s t : Nat) (hn : n ≤ 30) (ho : o < 6) (hs : s < 4 ^ n) (ht : t < 4 ^ n)
    (hne : s ≠ t) (a b : Anchor) (ha : sToAnchor s n o = .ok a) (hb : sToAnchor t n o = .ok b) :
    (¬∃ w, DeepIn (1 / 2 ^ 54) (pentagonQ a) w ∧ DeepIn (1 / 2 ^ 54) (pentagonQ b) w) ∧
    ∀ w : ℚ × ℚ, StrictIn (pentagonQ a) w → StrictIn (pentagonQ b) w →
      ∃ e ∈ edges (pentagonQ a) ++ edges (pentagonQ b), cross e.1 e.2 w < 0 ∧
        cross e.1 e.2 w * cross e.1 e.2 w ≤ (1 / 2 ^ 52) * (1 / 2 ^ 52) * sqLen e :=
  ⟨pentagons_disjoint_margin n o s t hn ho hs ht hne a b ha hb,
   fun w hwa hwb => pentagons_overlap_within n o s t hn ho hs ht hne a b ha hb w hwa hwb⟩

open A5.PG A5.CP A5.PD in
/-- T3, far pairs: anchors more than 2 lattice steps apart have exactly disjoint pentagon interiors. -/
theorem far_pentagons_do_not_overlap (a b : Anchor) (ha : IsFlip a.flips) (hb : IsFlip b.flips)
    (hfar : ¬HexLe 2 (b.offset.1 - a.offset.1, b.offset.2 - a.offset.2)) :
    ¬∃ w, StrictIn (pentagonQ a) w ∧ StrictIn (pentagonQ b) w :=
  far_pentagons_disjoint a b ha hb hfar

/-- the exact statement is false on the rounded runtime constants (kernel-checked witness), and the margin of T3 cannot be
improved by more than a factor 4 -/
theorem pentagons_disjoint_exact_is_false : ¬A5.PD.pentagons_disjoint_statement :=
  A5.PD.pentagons_disjoint_statement_false

open A5.PG A5.PD in
theorem overlap_margin_sharp : ∃ w : ℚ × ℚ, DeepIn (1 / 2 ^ 56) (pentagonQ ⟨0, (0, 0), (1, 1)⟩) w ∧
    DeepIn (1 / 2 ^ 56) (pentagonQ ⟨3, (1, 1), (-1, 1)⟩) w :=
  margin_sharp

end A5.C03
