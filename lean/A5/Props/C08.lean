import A5.Lemmas.CompactSort
import A5.Lemmas.CompactGroup
import A5.Props.C09
/-! # C08 — `compact` preserves the covered region, removes duplicates, and ignores order and multiplicity

"For any collection of valid cells, in any order, with duplicates and mixed resolutions, expanding the compacted
result to a resolution R at least as fine as every input yields exactly the same set of resolution-R cells as
expanding the input itself.  The compacted result contains no duplicates and does not depend on the order or
multiplicity of the input."

Model: `A5.compact`, `A5.uncompact` (`A5/Model/Compact.lean`, the model of `src/core/compact.rs` after the `fix:`
commits); `A5.compactV062` is the frozen algorithm of the pinned release, used only for the witnesses at the end.
Spec: the cell tree `Path` of `A5/Spec/Tree.lean`; `Below p q` (`A5/Lemmas/Canonical.lean`) = "`p` is `q` or an
ancestor of `q`".

Inputs.  A *valid* id is one the decoder accepts (`deserialize x = .ok c`); `compact` first replaces every id by
the canonical id of the same cell (`compact_canonicalises`), and canonical ids are exactly the `enc p` of
well-formed paths (`Path.layout_iff_path`).  So the region theorems are stated for inputs `ps.map enc` with `ps`
an **arbitrary** list of well-formed paths: any length, any order, repetitions, a cell together with its own
descendants, every resolution -1..29.  Nothing is bounded.

All theorems are about every finite list; there is no `sorry`, and `#print axioms` shows only the three standard
axioms. -/
namespace A5.C08
open A5 A5.Path A5.Canonical A5.CompactMax A5.CompactC08

/-- an id the decoder accepts -/
def ValidId (x : Nat) : Prop := ∃ c, deserialize x = .ok c

theorem validId_enc {p : Path} (hp : WF p) : ValidId (enc p) := ⟨_, deserialize_enc_path hp⟩

/-! ## T0. canonicalisation -/

/-- T0.  On valid ids `compact` only sees the cells: there is a list `A` of well-formed cells, cell `i` being the
one id `i` decodes to, such that `compact xs = compact (A.map enc)`. -/
theorem compact_canonicalises (xs : List Nat) (hv : ∀ x ∈ xs, ValidId x) :
    ∃ A : List Path, (∀ p ∈ A, WF p) ∧ xs.map deserialize = A.map (fun p => .ok (toCell p)) ∧
      compact xs = compact (A.map enc) := by
  obtain ⟨A, hA, h1, h2⟩ := canon_spec xs hv
  exact ⟨A, hA, h2, compact_canon xs A hA h1⟩

/-- canonical ids are their own canonical form -/
theorem canonical_enc (ps : List Path) (hps : ∀ p ∈ ps, WF p) :
    mapOutcome (fun c => deserialize c >>= serialize) (ps.map enc) = .ok (ps.map enc) := mapOutcome_canon ps hps

/-! ## T1. `compact` succeeds -/

/-- T1 (`compact_ok`).  On every list of valid ids `compact` returns `.ok`, and every returned id is canonical. -/
theorem compact_ok (xs : List Nat) (hv : ∀ x ∈ xs, ValidId x) :
    ∃ out, compact xs = .ok out ∧ ∀ y ∈ out, Layout y := by
  obtain ⟨A, hA, _, hc⟩ := compact_canonicalises xs hv
  obtain ⟨R, hR, hi, _⟩ := compact_enc_spec A hA
  refine ⟨R.map enc, by rewrite [hc]; exact hR, fun y hy => ?_⟩
  obtain ⟨p, hp, rfl⟩ := List.mem_map.1 hy
  exact layout_enc_path (hi.wf p hp)

/-! ## T2. the region is preserved -/

/-- T2 (`compact_preserves_region`).  For **any** list `ps` of cells, `compact` returns the ids of a list `qs` of
cells such that
* no cell of `qs` is finer than the finest cell of `ps`, and
* for every cell `q` at least as fine as every input: `q` lies in (= is, or is a descendant of) some input cell
  iff it lies in some output cell. -/
theorem compact_preserves_region (ps : List Path) (hps : ∀ p ∈ ps, WF p) :
    ∃ qs : List Path, compact (ps.map enc) = .ok (qs.map enc) ∧ (∀ p' ∈ qs, WF p') ∧
      (∀ p' ∈ qs, ∃ p ∈ ps, res p' ≤ res p) ∧
      ∀ q, WF q → (∀ p ∈ ps, res p ≤ res q) →
        ((∃ p ∈ ps, res p ≤ res q ∧ ancestorAt q (res p) = p) ↔
         (∃ p' ∈ qs, res p' ≤ res q ∧ ancestorAt q (res p') = p')) := by
  obtain ⟨R, hR, hi, hreg, hres, _⟩ := compact_enc_spec ps hps
  refine ⟨R, hR, hi.wf, hres, fun q hq hfine => ?_⟩
  have hfineR : ∀ p' ∈ R, res p' ≤ res q := by
    intro p' hp'
    obtain ⟨p, hp, hle⟩ := hres p' hp'
    have := hfine p hp
    omega
  exact (sameRegion_iff_at (res q) (res_le hq) hfine hfineR).1 hreg q hq rfl

/-- T2, stated with `Path.descendantsAt`: at every resolution `r` at least as fine as every input, the input and
the output have the same descendants. -/
theorem compact_preserves_descendants (ps : List Path) (hps : ∀ p ∈ ps, WF p) :
    ∃ qs : List Path, compact (ps.map enc) = .ok (qs.map enc) ∧ (∀ p' ∈ qs, WF p') ∧
      ∀ r : Int, r ≤ 29 → (∀ p ∈ ps, res p ≤ r) →
        ∀ d, d ∈ ps.flatMap (fun p => descendantsAt p r) ↔ d ∈ qs.flatMap (fun p' => descendantsAt p' r) := by
  obtain ⟨qs, hc, hwf, hres, hreg⟩ := compact_preserves_region ps hps
  refine ⟨qs, hc, hwf, fun r hr29 hfine d => ?_⟩
  have hfineq : ∀ p' ∈ qs, res p' ≤ r := by
    intro p' hp'
    obtain ⟨p, hp, hle⟩ := hres p' hp'
    have := hfine p hp
    omega
  simp only [List.mem_flatMap]
  constructor
  · rintro ⟨p, hp, hd⟩
    have hwd := wf_of_mem_descendantsAt (hps p hp) hr29 hd
    have hrd := res_of_mem_descendantsAt hd
    obtain ⟨p', hp', hle, ha⟩ := (hreg d hwd (fun p hp => by rewrite [hrd]; exact hfine p hp)).1
      ⟨p, hp, by rewrite [hrd]; exact hfine p hp, ancestorAt_of_mem_descendantsAt hd⟩
    exact ⟨p', hp', (mem_descendantsAt_iff (hwf p' hp') hwd (hfineq p' hp') hr29).2 ⟨hrd, ha⟩⟩
  · rintro ⟨p', hp', hd⟩
    have hwd := wf_of_mem_descendantsAt (hwf p' hp') hr29 hd
    have hrd := res_of_mem_descendantsAt hd
    obtain ⟨p, hp, hle, ha⟩ := (hreg d hwd (fun p hp => by rewrite [hrd]; exact hfine p hp)).2
      ⟨p', hp', by rewrite [hrd]; exact hfineq p' hp', ancestorAt_of_mem_descendantsAt hd⟩
    exact ⟨p, hp, (mem_descendantsAt_iff (hps p hp) hwd (hfine p hp) hr29).2 ⟨hrd, ha⟩⟩

/-! ## T3. the model-level statement with `uncompact` -/

theorem expand_ok_inv (R : Int) : ∀ (ps : List Path) (a : List Nat), flatMapOutcome (C09.expand R) ps = .ok a →
    a = ps.flatMap (fun p => (descendantsOrdered p R).map enc) := by
  intro ps
  induction ps with
  | nil => intro a h; cases Outcome.ok.inj h; rfl
  | cons p ps ih =>
    intro a h
    rewrite [flatMapOutcome_cons] at h
    obtain ⟨b, hb, h⟩ := Outcome.bind_eq_ok _ _ _ h
    obtain ⟨bs, hbs, h⟩ := Outcome.bind_eq_ok _ _ _ h
    cases Outcome.ok.inj h
    rewrite [List.flatMap_cons, ← ih bs hbs]
    refine congrArg (· ++ bs) ?_
    simp only [C09.expand] at hb
    split at hb
    · cases hb
    · exact (Outcome.ok.inj hb).symm

/-- whenever `uncompact` succeeds on canonical ids, the target is in range, no input is finer than the target,
and the result is the list of descendants -/
theorem uncompact_ok_inv (ps : List Path) (hps : ∀ p ∈ ps, WF p) (R : Int) (a : List Nat)
    (h : uncompact (ps.map enc) R = .ok a) :
    R ≤ 29 ∧ (∀ p ∈ ps, res p ≤ R) ∧ a = ps.flatMap (fun p => (descendantsOrdered p R).map enc) := by
  rewrite [C09.uncompact_closed_form ps hps] at h
  by_cases hR : R ≥ 30
  · rewrite [if_pos hR] at h; cases h
  · rewrite [if_neg hR] at h
    obtain ⟨n, hn, h⟩ := Outcome.bind_eq_ok _ _ _ h
    by_cases hcap : n * 8 ≥ 2 ^ 63
    · rewrite [if_pos hcap] at h; cases h
    · rewrite [if_neg hcap] at h
      exact ⟨by omega, (C09.countSpec_of_ok R ps 0 n hn).1, expand_ok_inv R ps a h⟩

/-- the ids produced by expanding `ps` to resolution `R`: the ids of the resolution-`R` cells inside some input -/
theorem mem_expansion_iff (ps : List Path) (hps : ∀ p ∈ ps, WF p) (R : Int) (hR : R ≤ 29)
    (hfine : ∀ p ∈ ps, res p ≤ R) (x : Nat) :
    x ∈ ps.flatMap (fun p => (descendantsOrdered p R).map enc) ↔
      ∃ d, WF d ∧ res d = R ∧ enc d = x ∧ Covers ps d := by
  simp only [List.mem_flatMap, List.mem_map]
  constructor
  · rintro ⟨p, hp, d, hd, rfl⟩
    have hd' := (mem_descendantsOrdered_iff p (hps p hp) R d).1 hd
    have hrd := res_of_mem_descendantsAt hd'
    exact ⟨d, wf_of_mem_descendantsAt (hps p hp) hR hd', hrd, rfl, p, hp,
      by rewrite [hrd]; exact hfine p hp, ancestorAt_of_mem_descendantsAt hd'⟩
  · rintro ⟨d, hwd, hrd, rfl, p, hp, _, ha⟩
    exact ⟨p, hp, d, (mem_descendantsOrdered_iff p (hps p hp) R d).2
      ((mem_descendantsAt_iff (hps p hp) hwd (hfine p hp) hR).2 ⟨hrd, ha⟩), rfl⟩

/-- T3 (`uncompact_compact_same_cells`, the property as stated).  For **any** list of canonical ids: whenever
`compact` returned `out` and both expansions succeed — `uncompact` succeeding on the input forces `R ≤ 29` and
`R` at least as fine as every input — expanding the compacted result to `R` yields exactly the same set of
resolution-`R` ids as expanding the input itself.  (`compact` always succeeds here, T1; the two `uncompact` calls
succeed iff the scope guards of `uncompact` hold for the respective list, see `C09.uncompact_spec`: 20-level
guard of `cell_to_children` per cell and the `Vec::with_capacity` limit.) -/
theorem uncompact_compact_same_cells (ps : List Path) (hps : ∀ p ∈ ps, WF p) (R : Int) (out a b : List Nat)
    (hc : compact (ps.map enc) = .ok out) (ha : uncompact (ps.map enc) R = .ok a) (hb : uncompact out R = .ok b) :
    ∀ x, x ∈ a ↔ x ∈ b := by
  obtain ⟨qs, hq, hi, hreg, hres, _⟩ := compact_enc_spec ps hps
  rewrite [hc] at hq
  cases Outcome.ok.inj hq
  obtain ⟨hR, hfine, rfl⟩ := uncompact_ok_inv ps hps R a ha
  obtain ⟨_, hfineq, rfl⟩ := uncompact_ok_inv qs hi.wf R b hb
  have hat := (sameRegion_iff_at R hR hfine hfineq).1 hreg
  intro x
  rewrite [mem_expansion_iff ps hps R hR hfine, mem_expansion_iff qs hi.wf R hR hfineq]
  constructor
  · rintro ⟨d, hwd, hrd, hx, hcov⟩; exact ⟨d, hwd, hrd, hx, (hat d hwd hrd).1 hcov⟩
  · rintro ⟨d, hwd, hrd, hx, hcov⟩; exact ⟨d, hwd, hrd, hx, (hat d hwd hrd).2 hcov⟩

/-- T3, with the guards spelt out instead of assumed successes: if `R ≤ 29`, every input and every output cell
is within the 20-level guard and both expansions fit the allocation limit, then all three calls succeed and the two
expansions have the same members. -/
theorem uncompact_compact_same_cells_guarded (ps : List Path) (R : Int) (hR : R ≤ 29)
    (hps : ∀ p ∈ ps, WF p ∧ res p ≤ R ∧ R - max (res p) 1 ≤ 20) (hcap : C09.total R ps * 8 < 2 ^ 63) :
    ∃ qs : List Path, compact (ps.map enc) = .ok (qs.map enc) ∧
      ((∀ p' ∈ qs, R - max (res p') 1 ≤ 20) → C09.total R qs * 8 < 2 ^ 63 →
        ∃ a b, uncompact (ps.map enc) R = .ok a ∧ uncompact (qs.map enc) R = .ok b ∧ ∀ x, x ∈ a ↔ x ∈ b) := by
  have hwf : ∀ p ∈ ps, WF p := fun p hp => (hps p hp).1
  obtain ⟨qs, hq, hi, hreg, hres, _⟩ := compact_enc_spec ps hwf
  refine ⟨qs, hq, fun hg hcapq => ?_⟩
  have hqs : ∀ p' ∈ qs, WF p' ∧ res p' ≤ R ∧ R - max (res p') 1 ≤ 20 := by
    intro p' hp'
    obtain ⟨p, hp, hle⟩ := hres p' hp'
    have := (hps p hp).2.1
    exact ⟨hi.wf p' hp', by omega, hg p' hp'⟩
  have ha := C09.uncompact_spec ps R hR hps hcap
  have hb := C09.uncompact_spec qs R hR hqs hcapq
  exact ⟨_, _, ha, hb, uncompact_compact_same_cells ps hwf R _ _ _ hq ha hb⟩

/-! ## T4. no duplicates -/

/-- strictly increasing sort key along an id list -/
def SortedByKey (ids : List Nat) : Prop := (ids.map hierarchyKey).Pairwise (· < ·)

/-- T4a.  The result of `compact` on valid ids is strictly sorted by `hierarchy_key` … -/
theorem compact_sorted (xs : List Nat) (hv : ∀ x ∈ xs, ValidId x) (out : List Nat) (h : compact xs = .ok out) :
    SortedByKey out := by
  obtain ⟨A, hA, _, hc⟩ := compact_canonicalises xs hv
  obtain ⟨R, hR, hi, _⟩ := compact_enc_spec A hA
  rewrite [hc, hR] at h
  cases Outcome.ok.inj h
  unfold SortedByKey
  rewrite [keyMap_eq hi.wf, ← keySorted_iff_map]
  exact hi.sorted

/-- T4 (`compact_nodup`).  … in particular it contains no id twice, whatever repetitions or overlapping cells
the input contained. -/
theorem compact_nodup (xs : List Nat) (hv : ∀ x ∈ xs, ValidId x) (out : List Nat) (h : compact xs = .ok out) :
    out.Nodup := by
  obtain ⟨A, hA, _, hc⟩ := compact_canonicalises xs hv
  obtain ⟨R, hR, hi, _⟩ := compact_enc_spec A hA
  rewrite [hc, hR] at h
  cases Outcome.ok.inj h
  exact nodup_map_of_inj (keySorted_nodup hi.sorted) (fun a ha b hb e => enc_injective (hi.wf a ha) (hi.wf b hb) e)

/-! ## T5. order and multiplicity of the input are irrelevant -/

/-- T5 (general form).  If two lists of valid ids denote the same *set of cells*, `compact` returns the same
list (not just the same set) for both. -/
theorem compact_depends_on_cells_only (xs ys : List Nat) (hx : ∀ x ∈ xs, ValidId x) (hy : ∀ y ∈ ys, ValidId y)
    (h : ∀ c : Cell, (∃ x ∈ xs, deserialize x = .ok c) ↔ (∃ y ∈ ys, deserialize y = .ok c)) :
    compact xs = compact ys := by
  obtain ⟨A, hA, hAx, hcx⟩ := compact_canonicalises xs hx
  obtain ⟨B, hB, hBy, hcy⟩ := compact_canonicalises ys hy
  rewrite [hcx, hcy]
  -- `p ∈ A` iff some id of `xs` decodes to `toCell p`
  have key : ∀ (zs : List Nat) (C : List Path), (∀ p ∈ C, WF p) →
      zs.map deserialize = C.map (fun p => Outcome.ok (toCell p)) →
      ∀ p, WF p → (p ∈ C ↔ ∃ z ∈ zs, deserialize z = .ok (toCell p)) := by
    intro zs C hC hz p hp
    constructor
    · intro hpC
      have : Outcome.ok (toCell p) ∈ zs.map deserialize := by
        rewrite [hz]; exact List.mem_map.2 ⟨p, hpC, rfl⟩
      obtain ⟨z, hz1, hz2⟩ := List.mem_map.1 this
      exact ⟨z, hz1, hz2⟩
    · rintro ⟨z, hz1, hz2⟩
      have : Outcome.ok (toCell p) ∈ zs.map deserialize := List.mem_map.2 ⟨z, hz1, hz2⟩
      rewrite [hz] at this
      obtain ⟨p', hp', e⟩ := List.mem_map.1 this
      rewrite [← toCell_injective (hC p' hp') hp (Outcome.ok.inj e)]
      exact hp'
  refine compact_enc_congr A B hA hB (fun p => ⟨fun hp => ?_, fun hp => ?_⟩)
  · have hw := hA p hp
    exact (key ys B hB hBy p hw).2 ((h _).1 ((key xs A hA hAx p hw).1 hp))
  · have hw := hB p hp
    exact (key xs A hA hAx p hw).2 ((h _).2 ((key ys B hB hBy p hw).1 hp))

/-- T5 (`compact_input_order_irrelevant`).  Lists of valid ids with the same members — any rearrangement, any
repetition of entries — give the same result. -/
theorem compact_input_order_irrelevant (xs ys : List Nat) (hx : ∀ x ∈ xs, ValidId x)
    (h : ∀ x, x ∈ xs ↔ x ∈ ys) : compact xs = compact ys :=
  compact_depends_on_cells_only xs ys hx (fun y hy => hx y ((h y).2 hy))
    (fun _ => ⟨fun ⟨x, hx', e⟩ => ⟨x, (h x).1 hx', e⟩, fun ⟨y, hy', e⟩ => ⟨y, (h y).2 hy', e⟩⟩)

/-- T5, corollary: permuting the input does not change the result -/
theorem compact_perm (xs ys : List Nat) (hx : ∀ x ∈ xs, ValidId x) (h : xs.Perm ys) : compact xs = compact ys :=
  compact_input_order_irrelevant xs ys hx (fun _ => h.mem_iff)

/-- T5, corollary: repeating input cells does not change the result -/
theorem compact_append_self (xs : List Nat) (hx : ∀ x ∈ xs, ValidId x) : compact (xs ++ xs) = compact xs :=
  (compact_input_order_irrelevant xs (xs ++ xs) hx (fun x => by simp)).symm

/-! ## the ingredients, for the record -/

/-- `hierarchy_key` in closed form: `2^57+1` for the world cell, the id with `5·face` in the leading bits for a
base cell, the id itself otherwise; it is injective on cells, and every cell — world and base cells included —
sorts strictly between its first and its last child. -/
theorem hierarchy_key_facts :
    (∀ p, WF p → hierarchyKey (enc p) = CompactKey.pkey p) ∧
    (∀ p q, WF p → WF q → hierarchyKey (enc p) = hierarchyKey (enc q) → p = q) ∧
    (∀ p, WF p → res p ≤ 28 →
      hierarchyKey (enc (CompactKey.firstChild p)) < hierarchyKey (enc p) ∧
      hierarchyKey (enc p) < hierarchyKey (enc (CompactKey.lastChild p))) := by
  refine ⟨fun p hp => CompactKey.hierarchyKey_enc hp, fun p q hp hq h => CompactKey.hierarchyKey_injective hp hq h,
    fun p hp h28 => ?_⟩
  have h1 : WF (CompactKey.firstChild p) := wf_children hp (by omega) (CompactKey.firstChild_mem p)
  have h2 : WF (CompactKey.lastChild p) := wf_children hp (by omega) (CompactKey.lastChild_mem p)
  rewrite [CompactKey.hierarchyKey_enc hp, CompactKey.hierarchyKey_enc h1, CompactKey.hierarchyKey_enc h2]
  exact ⟨CompactKey.pkey_firstChild_lt hp h28, CompactKey.pkey_lt_lastChild hp h28⟩

/-- `sibling_run_is_complete_group`: on the id of any cell `p` followed by arbitrary 64-bit values, the group test
never panics and answers `true` iff `p` is not the world cell and the list starts with the ids of **all**
children of the parent of `p`, in id order; the merge then emits the id of that parent. -/
theorem sibling_run_is_complete_group {p : Path} (hp : WF p) (rest : List Nat) :
    ∃ b k, groupAt (enc p) rest = .ok (b, k) ∧ (p ≠ world → k = fan (res (parent p))) ∧
      (b = true ↔ p ≠ world ∧ (children (parent p)).map enc <+: enc p :: rest) ∧
      (p ≠ world → cellToParent (enc p) none = .ok (enc (parent p))) := by
  obtain ⟨b, k, h1, h2, h3⟩ := CompactKey.groupAt_enc hp rest
  exact ⟨b, k, h1, h2, h3, fun hw => cellToParent_none_enc hp hw⟩

/-- one scan (`compactScan`) on the ids of any list of cells: never fails; region, coarseness and strict key order
are kept; `changed = false` means "returned unchanged", `changed = true` means "strictly shorter" -/
theorem scan_facts (L : List Path) (hwf : ∀ p ∈ L, WF p) :
    ∃ (L' : List Path) (ch : Bool), compactScan (L.map enc) 0 = .ok (L'.map enc, ch) ∧ (∀ p ∈ L', WF p) ∧
      SameRegion L L' ∧ (∀ x ∈ L', ∃ p ∈ L, res x ≤ res p) ∧
      (SortedByKey (L.map enc) → SortedByKey (L'.map enc)) ∧
      (ch = false → L' = L) ∧ (ch = true → L'.length < L.length) := by
  obtain ⟨L', ch, h1, h2, h3, h4, h5, h6, h7⟩ := compactScan_sorted_spec L hwf
  refine ⟨L', ch, h1, h2, h3, h4, fun hs => ?_, h6, h7⟩
  unfold SortedByKey at hs ⊢
  rewrite [keyMap_eq hwf, ← keySorted_iff_map] at hs
  rewrite [keyMap_eq h2, ← keySorted_iff_map]
  exact h5 hs

/-! ## the pinned release (v0.6.2) violated the property: kernel-checked witnesses

`compactV062` sorts by raw id and does not canonicalise.  Base cell 1 has id `1·2^58 + 2^57 = 0x0600…0`, its five
quintants have ids `(5·1+k)·2^58 + 2^56`; sorted by raw id the base cell comes first, the five quintants follow as
a complete run, are merged into a second copy of the base cell, and nothing removes the duplicate. -/

def base1 : Nat := 0x0600000000000000
def quintantsOfBase1 : List Nat := (List.range 5).map (fun k => (5 * 1 + k) * 2 ^ 58 + 2 ^ 56)
def res0Cells : List Nat := (List.range 12).map (fun f => f * 2 ^ 58 + 2 ^ 57)

example : base1 = enc (face 1) ∧ quintantsOfBase1 = (children (face 1)).map enc ∧
    res0Cells = (children world).map enc := by decide +kernel
example : getRes0Cells = .ok res0Cells := by decide +kernel
example : cellToChildren base1 (some 1) = .ok [8 * 2 ^ 58 + 2 ^ 56, 9 * 2 ^ 58 + 2 ^ 56, 5 * 2 ^ 58 + 2 ^ 56,
    6 * 2 ^ 58 + 2 ^ 56, 7 * 2 ^ 58 + 2 ^ 56] := by decide +kernel

/-- v0.6.2: a cell together with its complete set of children compacts to the cell **twice** -/
theorem v062_duplicate_witness_base1 : compactV062 (base1 :: quintantsOfBase1) = .ok [base1, base1] := by
  decide +kernel

/-- v0.6.2: the twelve base cells together with the world cell compact to the world cell **twice** -/
theorem v062_duplicate_witness_world : compactV062 (res0Cells ++ [0]) = .ok [0, 0] := by decide +kernel

/-- v0.6.2: the result depended on multiplicity of *cells*: a non-canonical spelling of base cell 1 (stray low
bit) next to the canonical one survives as a second entry -/
theorem v062_noncanonical_witness : compactV062 [base1, base1 + 1] = .ok [base1, base1 + 1] ∧
    deserialize (base1 + 1) = deserialize base1 := by decide +kernel

/-- the repaired algorithm on the same inputs: no duplicates (T4), same region (T2) -/
example : compact (base1 :: quintantsOfBase1) =
    .ok [5 * 2 ^ 58 + 2 ^ 56, base1, 6 * 2 ^ 58 + 2 ^ 56, 7 * 2 ^ 58 + 2 ^ 56, 8 * 2 ^ 58 + 2 ^ 56,
      9 * 2 ^ 58 + 2 ^ 56] := by decide +kernel
example : compact (res0Cells ++ [0]) = .ok (2 ^ 57 :: 0 :: res0Cells.tail) := by decide +kernel
example : compact [base1, base1 + 1] = .ok [base1] := by decide +kernel

/-! ## non-vacuity: the theorems on concrete non-trivial inputs

`exampleInput`: the four children of the resolution-2 cell `deep 3 2 [1]`, out of order and one of them twice,
plus a stray base cell: duplicates are removed, the siblings merged, the stray cell kept.
`exampleOverlap` adds a resolution-4 cell lying *inside* one of the siblings (overlapping input).  Its key sorts
between the siblings `[1,1]` and `[1,2]`, so the sibling run is interrupted and nothing is merged — C08 does not
ask for maximality (that is C10, for non-overlapping inputs); region, uniqueness and order-independence hold. -/

def exampleInput : List Path :=
  [deep 3 2 [1, 3], deep 3 2 [1, 0], face 7, deep 3 2 [1, 2], deep 3 2 [1, 1], deep 3 2 [1, 1]]

def exampleOverlap : List Path := deep 3 2 [1, 1, 2] :: exampleInput

example : ∀ p ∈ exampleOverlap, WF p := by decide
example : ∀ x ∈ exampleOverlap.map enc, ValidId x :=
  fun x hx => by obtain ⟨p, hp, rfl⟩ := List.mem_map.1 hx; exact validId_enc ((by decide : ∀ p ∈ exampleOverlap, WF p) p hp)

/-- duplicates removed, siblings merged, stray cell kept -/
example : compact (exampleInput.map enc) = .ok ([deep 3 2 [1], face 7].map enc) := by decide +kernel
/-- overlapping input: nothing lost, nothing duplicated -/
example : compact (exampleOverlap.map enc) =
    .ok ([deep 3 2 [1, 0], deep 3 2 [1, 1], deep 3 2 [1, 1, 2], deep 3 2 [1, 2], deep 3 2 [1, 3], face 7].map enc) := by
  decide +kernel
/-- T5 on a concrete rearrangement with other multiplicities -/
example : compact ((exampleInput.reverse ++ [face 7, face 7]).map enc) = compact (exampleInput.map enc) :=
  compact_input_order_irrelevant _ _
    (fun x hx => by
      obtain ⟨p, hp, rfl⟩ := List.mem_map.1 hx
      exact validId_enc ((by decide : ∀ p ∈ exampleInput.reverse ++ [face 7, face 7], WF p) p hp))
    (fun x => ⟨fun h => (by decide +kernel : ∀ x ∈ (exampleInput.reverse ++ [face 7, face 7]).map enc,
        x ∈ exampleInput.map enc) x h,
      fun h => (by decide +kernel : ∀ x ∈ exampleInput.map enc,
        x ∈ (exampleInput.reverse ++ [face 7, face 7]).map enc) x h⟩)
/-- T3 on a concrete input: all three calls succeed at resolution 4, and the expansions agree as sets (the
expansion of the input lists the children of `[1,1]` twice and `[1,1,2]` three times; 320 of the cells are those of base cell 7) -/
example : ∃ out a b, compact (exampleOverlap.map enc) = .ok out ∧ uncompact (exampleOverlap.map enc) 4 = .ok a ∧
    uncompact out 4 = .ok b ∧ a.length = 341 ∧ b.length = 337 ∧ (∀ x, x ∈ a ↔ x ∈ b) := by
  have hc : compact (exampleOverlap.map enc) =
      .ok ([deep 3 2 [1, 0], deep 3 2 [1, 1], deep 3 2 [1, 1, 2], deep 3 2 [1, 2], deep 3 2 [1, 3], face 7].map enc) := by
    decide +kernel
  have hps : ∀ p ∈ exampleOverlap, WF p ∧ res p ≤ 4 ∧ (4 : Int) - max (res p) 1 ≤ 20 := by decide
  have hqs : ∀ p ∈ [deep 3 2 [1, 0], deep 3 2 [1, 1], deep 3 2 [1, 1, 2], deep 3 2 [1, 2], deep 3 2 [1, 3], face 7],
      WF p ∧ res p ≤ 4 ∧ (4 : Int) - max (res p) 1 ≤ 20 := by decide
  have ha := C09.uncompact_spec exampleOverlap 4 (by decide) hps (by decide)
  have hb := C09.uncompact_spec _ 4 (by decide) hqs (by decide)
  refine ⟨_, _, _, hc, ha, hb, by decide +kernel, by decide +kernel, ?_⟩
  exact uncompact_compact_same_cells exampleOverlap (fun p hp => (hps p hp).1) 4 _ _ _ hc ha hb

end A5.C08
