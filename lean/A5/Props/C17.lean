import A5.Lemmas.HilbertOrient
import A5.Lemmas.PentagonCentre
/-! # C17 — within a quintant, curve position ↦ cell is a bijection, and locating a cell returns its position

"For every curve depth n and each of the six curve orientations, the 4^n positions map to 4^n pairwise
distinct pentagons whose centres all lie in the quintant's triangle, and locating the centre of the pentagon at
position s returns s.  Thus positions and cells of a quintant correspond one-to-one, with no position unused
and no cell reachable twice."

Model: `A5.sToAnchor`, `A5.ijToS` and everything below them (`A5/Model/Hilbert.lean`); the tables `PATTERN`,
`PATTERN_FLIPPED`, `QUATERNARY_TO_FLIPS`, `KJ_PQ_TABLE`, `KJ_DIGIT_COEFF`, `FLIP_SHIFT` and the orientation
flag sets are the generated ones.  All theorems hold for EVERY depth `n ≤ 30` (the range in which the
overflow-checked shifts `1 << 2n` (u64) and `1 << n` (i32) do not panic; the API uses 0..29), every orientation
code `o < 6` and all `4^n` positions.  The geometric statements are over an arbitrary linearly ordered field
`K` (ℚ, ℝ); `ijToS` is evaluated with exact field arithmetic (`fieldLits`).

The cell of position `s` is represented by its *anchor* `a = sToAnchor s n o` (integer lattice offset + flip
pair) and the open unit lattice triangle `anchorTri a = a.offset + T(a.flips)` (`InT`, four triangle shapes):
the pentagon of the cell is drawn inside this triangle by `getPentagonVertices`.

The pentagon layer (T12-T15): `A5.PG.pentagonQ a` is the pentagon `get_pentagon_vertices` draws for anchor `a` in
the lattice frame of the quintant (`A5/Model/PentagonG.lean`: generic twin of the `Float` model, tied to it by
`pentagonLocal_tie`), evaluated in EXACT rational arithmetic on the `f64` constants the running library computes at
start-up (`A5.Gen.Runtime`, regenerated from the running code and cross-checked bit-for-bit on every check run).
T12 proves that its centre (`get_center`, then `face_to_ij`) lies strictly inside `anchorTri a`, more than 0.14
lattice units from every side, for every position of every depth; T13 that locating that centre returns `s`;
T14 that the `4^n` pentagons are pairwise distinct; T15 that all centres lie in the quintant triangle.

NOT covered (the float residue): that the `f64` evaluation of the same expressions stays within the 0.14 margin
of the exact one (the rounding error of five additions and a 2x2 product is about 1e-16 relative to coordinates
below 2^30, i.e. below 1e-6 lattice units; this is measured on every run by the C17 suite, not proved), and the
final scale by `2^-res` and quintant rotation, which C17 ("within a quintant") does not involve. -/
namespace A5.C17
open A5 A5.HilbertLocate

/-! ## the digit permutation layer -/

/-- T1. Both shift patterns are permutations of `0..7`, and `reversePattern` is the inverse permutation. -/
theorem patterns_are_permutations :
    IsPerm8 Gen.PATTERN ∧ IsPerm8 Gen.PATTERN_FLIPPED ∧
    ∀ P, IsPerm8 P → IsPerm8 (reversePattern P) ∧
      ∀ v, v < 8 → (reversePattern P).getD (P.getD v 0) 0 = v ∧ P.getD ((reversePattern P).getD v 0) 0 = v :=
  ⟨isPerm8_PATTERN, isPerm8_PATTERN_FLIPPED, fun _ h =>
    ⟨h.reverse, fun v hv => ⟨h.reversePattern_getD v hv, h.getD_reversePattern v hv⟩⟩⟩

/-- T2. `unshift ∘ shift = id`: the bottom-up pass of `ij_to_s` (reversed pattern, started from the product of
the flips of the shifted digits) undoes the top-down pass of `s_to_anchor`, for every depth, every digit
list, both values of `invertJ` and every permutation pattern. -/
theorem unshift_shift {P : List Nat} (hP : IsPerm8 P) (invertJ : Bool) (n : Nat) (ds : List Nat)
    (hlen : ds.length = n) (hlt : ∀ x ∈ ds, x < 4) :
    ((shiftDown invertJ P n ds (Gen.NO, Gen.NO)).1.length = n ∧
      ∀ x ∈ (shiftDown invertJ P n ds (Gen.NO, Gen.NO)).1, x < 4) ∧
    (shiftDown invertJ P n ds (Gen.NO, Gen.NO)).2 = flipsProd (shiftDown invertJ P n ds (Gen.NO, Gen.NO)).1 ∧
    shiftUp invertJ (reversePattern P) n 0 (shiftDown invertJ P n ds (Gen.NO, Gen.NO)).1
      (shiftDown invertJ P n ds (Gen.NO, Gen.NO)).2 = ds :=
  shiftUp_shiftDown hP invertJ n ds hlen hlt

/-- T3. `shift ∘ unshift = id`: so the two passes are mutually inverse bijections of the set of digit lists. -/
theorem shift_unshift {P : List Nat} (hP : IsPerm8 P) (invertJ : Bool) (n : Nat) (e : List Nat)
    (hlen : e.length = n) (hlt : ∀ x ∈ e, x < 4) :
    shiftDown invertJ P n (shiftUp invertJ (reversePattern P) n 0 e (flipsProd e)) (Gen.NO, Gen.NO) =
      (e, flipsProd e) :=
  shiftDown_shiftUp hP invertJ n e hlen hlt

/-- T4. Position ↦ shifted digit list is a bijection from `{s < 4^n}` onto the lists of `n` base-4 digits. -/
theorem shifted_digits_bijective (n : Nat) (invertJ flipIJ : Bool) :
    (∀ s, (shiftedDigits s n invertJ flipIJ).length = n ∧ ∀ x ∈ shiftedDigits s n invertJ flipIJ, x < 4) ∧
    (∀ s t, s < 4 ^ n → t < 4 ^ n → shiftedDigits s n invertJ flipIJ = shiftedDigits t n invertJ flipIJ → s = t) ∧
    (∀ e : List Nat, e.length = n → (∀ x ∈ e, x < 4) → ∃ s, s < 4 ^ n ∧ shiftedDigits s n invertJ flipIJ = e) :=
  ⟨fun s => shiftedDigits_spec s n invertJ flipIJ,
    fun s t hs ht h => shiftedDigits_injective n invertJ flipIJ s t hs ht h,
    fun e hl hlt => shiftedDigits_surjective n invertJ flipIJ e hl hlt⟩

/-! ## the orientation flags -/

/-- The two Rust functions derive the same `reverse` / `invert_j` / `flip_ij` flags from an orientation, and no
orientation sets both `flip_ij` and `invert_j` (the stage orders of the two functions are only compatible
because of this). -/
theorem orientation_flags_consistent : ∀ o, o < 6 →
    Gen.IJ2S_REVERSE_SET.contains o = oriReverse o ∧ Gen.IJ2S_INVERT_J_SET.contains o = oriInvertJ o ∧
      Gen.IJ2S_FLIP_IJ_SET.contains o = oriFlipIJ o ∧ ¬(oriFlipIJ o = true ∧ oriInvertJ o = true) :=
  fun o ho => ⟨(flags_agree o ho).1, (flags_agree o ho).2.1, (flags_agree o ho).2.2, flags_exclusive o ho⟩

/-! ## positions ↔ lattice triangles -/

section field
variable (K : Type) [Field K] [LinearOrder K] [IsStrictOrderedRing K]

/-- T5. `locate_anchor`: `s_to_anchor` never panics on `s < 4^n` (`n ≤ 30`), its flips are a `±1` pair, and
`ij_to_s` of ANY point strictly inside the anchor's lattice triangle returns `s`. -/
theorem locate_anchor (n o s : Nat) (hn : n ≤ 30) (ho : o < 6) (hs : s < 4 ^ n) :
    ∃ a, sToAnchor s n o = .ok a ∧ IsFlip a.flips ∧
      ∀ x y : K, anchorTri a x y → ijToS fieldLits x y n o = .ok s :=
  A5.locate_anchor K n o s hn ho hs

/-- T5'. In particular the explicit interior point `offset + interiorPt flips` (the centroid of the lattice
triangle) is located at `s`: the hypothesis of T5 is never vacuous. -/
theorem locate_centroid (n o s : Nat) (hn : n ≤ 30) (ho : o < 6) (hs : s < 4 ^ n) :
    ∃ a, sToAnchor s n o = .ok a ∧
      ijToS (fieldLits : Lits K) ((a.offset.1 : K) + (interiorPt a.flips).1)
        ((a.offset.2 : K) + (interiorPt a.flips).2) n o = .ok s := by
  obtain ⟨a, ha, hF, h⟩ := A5.locate_anchor K n o s hn ho hs
  exact ⟨a, ha, h _ _ (anchorTri_nonempty a hF)⟩

/-- T6a. The lattice triangles of two different positions are disjoint. -/
theorem triangles_disjoint (n o s t : Nat) (hn : n ≤ 30) (ho : o < 6) (hs : s < 4 ^ n) (ht : t < 4 ^ n)
    (a b : Anchor) (ha : sToAnchor s n o = .ok a) (hb : sToAnchor t n o = .ok b) (x y : K)
    (hxa : anchorTri a x y) (hxb : anchorTri b x y) : s = t := by
  obtain ⟨a', ha', _, h1⟩ := A5.locate_anchor K n o s hn ho hs
  obtain ⟨b', hb', _, h2⟩ := A5.locate_anchor K n o t hn ho ht
  cases Outcome.ok.inj (ha.symm.trans ha')
  cases Outcome.ok.inj (hb.symm.trans hb')
  exact Outcome.ok.inj ((h1 x y hxa).symm.trans (h2 x y hxb))

/-- T8. `centres_in_quintant_triangle` (lattice form): every anchor triangle, hence every point located at a
position of the curve, lies in the quintant triangle `{x > 0, y > 0, x + y < 2^n}`. -/
theorem centres_in_quintant_triangle (n o s : Nat) (hn : n ≤ 30) (ho : o < 6) (hs : s < 4 ^ n) (a : Anchor)
    (ha : sToAnchor s n o = .ok a) (x y : K) (h : anchorTri a x y) : 0 < x ∧ 0 < y ∧ x + y < 2 ^ n :=
  anchor_in_quintant K n o s hn ho hs a ha x y h

/-- T7. `positions_onto_lattice_triangles`: the `4^n` anchor triangles TILE the quintant triangle.  Every point
of `{x > 0, y > 0, x + y < 2^n}` that is on no lattice line (`x`, `y`, `x + y ∉ ℤ`) lies in the anchor
triangle of exactly one position `s < 4^n` — no unit lattice triangle of the quintant is missed and none
is used twice — and `ij_to_s` returns that position. -/
theorem positions_onto_lattice_triangles (n o : Nat) (hn : n ≤ 30) (ho : o < 6) (x y : K)
    (hq : 0 < x ∧ 0 < y ∧ x + y < 2 ^ n) (hoff : OffLattice x y) :
    ∃ s, (s < 4 ^ n ∧ (∃ a, sToAnchor s n o = .ok a ∧ anchorTri a x y) ∧ ijToS fieldLits x y n o = .ok s) ∧
      ∀ t, t < 4 ^ n → (∃ b, sToAnchor t n o = .ok b ∧ anchorTri b x y) → t = s := by
  obtain ⟨s, hs, a, ha, hxa⟩ := anchor_onto n o hn ho x y hq hoff
  obtain ⟨a', ha', _, h1⟩ := A5.locate_anchor K n o s hn ho hs
  cases Outcome.ok.inj (ha.symm.trans ha')
  refine ⟨s, ⟨hs, ⟨a, ha, hxa⟩, h1 x y hxa⟩, ?_⟩
  rintro t ht ⟨b, hb, hxb⟩
  exact triangles_disjoint K n o t s hn ho ht hs b a hb ha x y hxb hxa

end field

/-- T6. `positions_injective`: two different positions never have the same anchor — already the pair
`(offset, flips)` differs. -/
theorem positions_injective (n o s t : Nat) (hn : n ≤ 30) (ho : o < 6) (hs : s < 4 ^ n) (ht : t < 4 ^ n)
    (hne : s ≠ t) (a b : Anchor) (ha : sToAnchor s n o = .ok a) (hb : sToAnchor t n o = .ok b) :
    (a.offset, a.flips) ≠ (b.offset, b.flips) := by
  intro h
  exact hne (anchor_injective n o s t hn ho hs ht a b ha hb (congrArg Prod.fst h) (congrArg Prod.snd h))

/-- T9. `s_to_anchor` is total on the positions of the curve (overflow-checked build, `n ≤ 30`). -/
theorem sToAnchor_total (n o s : Nat) (hn : n ≤ 30) (hs : s < 4 ^ n) : ∃ a, sToAnchor s n o = .ok a :=
  ⟨_, sToAnchor_eq s n o hn hs⟩

/-! ## `ij_to_s` at an arbitrary scalar type (in particular `Float`) -/

section generic
variable {α : Type} [Add α] [Sub α] [Mul α] [Neg α] [LT α] [DecidableLT α]

/-- T10. `ijToS_lt`: every successful result of `ij_to_s` is a position `< 4^n` — for every scalar type and
literal structure (so also for the `f64` executable), every input point, depth and orientation code. -/
theorem ijToS_lt (L : Lits α) (x y : α) (n o s : Nat) (h : ijToS L x y n o = .ok s) : s < 4 ^ n :=
  A5.ijToS_lt L x y n o s h

/-- T11. For `n ≤ 30` and `o < 6`, `ij_to_s` never panics, whatever the scalar type and the input point. -/
theorem ijToS_total (L : Lits α) (x y : α) (n o : Nat) (hn : n ≤ 30) (ho : o < 6) :
    ∃ s, ijToS L x y n o = .ok s ∧ s < 4 ^ n :=
  ⟨_, ijToS_eq L x y n o hn ho, A5.ijToS_lt L x y n o _ (ijToS_eq L x y n o hn ho)⟩

end generic

/-! ## positions ↔ pentagons (exact arithmetic on the runtime constants) -/

/-- the offsets of every anchor of the curve are within `0 .. 2^n` -/
theorem anchor_offset_range (n o s : Nat) (hn : n ≤ 30) (ho : o < 6) (hs : s < 4 ^ n) (a : Anchor)
    (ha : sToAnchor s n o = .ok a) :
    (-1 ≤ a.offset.1 ∧ a.offset.1 ≤ 2 ^ n + 1) ∧ (-1 ≤ a.offset.2 ∧ a.offset.2 ≤ 2 ^ n + 1) := by
  obtain ⟨a', ha', hF, _⟩ := A5.locate_anchor ℚ n o s hn ho hs
  cases Outcome.ok.inj (ha.symm.trans ha')
  have h := anchor_in_quintant ℚ n o s hn ho hs a ha _ _ (anchorTri_nonempty (K := ℚ) a hF)
  obtain ⟨h1, h2, h3⟩ := h
  have e : ∀ z : Int, ((z : ℚ) ≤ 2 ^ n + 1) → z ≤ 2 ^ n + 1 := by
    intro z hz; exact_mod_cast hz
  have e' : ∀ z : Int, ((-1 : ℚ) ≤ (z : ℚ)) → -1 ≤ z := by
    intro z hz; exact_mod_cast hz
  rcases hF with hf | hf | hf | hf <;> rewrite [hf] at h1 h2 h3 <;>
    simp only [interiorPt, Prod.mk.injEq, if_true, if_false, and_false, false_and, and_self,
      show ((1 : Int) = -1) = False from by decide, show ((-1 : Int) = 1) = False from by decide] at h1 h2 h3 <;>
    exact ⟨⟨e' _ (by linarith), e _ (by linarith)⟩, ⟨e' _ (by linarith), e _ (by linarith)⟩⟩

/-- T12. `centre_in_anchor_triangle`: for every depth `n ≤ 30`, orientation and position, the exact centre of the
pentagon drawn for position `s` lies strictly inside the lattice triangle of its anchor. -/
theorem centre_in_anchor_triangle (n o s : Nat) (hn : n ≤ 30) (ho : o < 6) (hs : s < 4 ^ n) :
    ∃ a, sToAnchor s n o = .ok a ∧ anchorTri a (PG.centreIJ a).1 (PG.centreIJ a).2 := by
  obtain ⟨a, ha, hF, _⟩ := A5.locate_anchor ℚ n o s hn ho hs
  obtain ⟨⟨l1, u1⟩, ⟨l2, u2⟩⟩ := anchor_offset_range n o s hn ho hs a ha
  have hp : (2 : Int) ^ n + 1 ≤ 2 ^ 31 := by
    have : (2 : Int) ^ n ≤ 2 ^ 30 := pow_le_pow_right₀ (by norm_num) hn
    omega
  refine ⟨a, ha, PG.centreIJ_in_anchorTri a hF ⟨by omega, by omega⟩ ⟨by omega, by omega⟩⟩

/-- T13. `centre_located`: "locating the centre of the pentagon at position `s` returns `s`" — in exact arithmetic,
for the pentagon built from the constants the library really uses. -/
theorem centre_located (n o s : Nat) (hn : n ≤ 30) (ho : o < 6) (hs : s < 4 ^ n) :
    ∃ a, sToAnchor s n o = .ok a ∧
      ijToS fieldLits (PG.centreIJ a).1 (PG.centreIJ a).2 n o = .ok s := by
  obtain ⟨a, ha, hc⟩ := centre_in_anchor_triangle n o s hn ho hs
  obtain ⟨a', ha', _, h⟩ := A5.locate_anchor ℚ n o s hn ho hs
  cases Outcome.ok.inj (ha.symm.trans ha')
  exact ⟨a, ha, h _ _ hc⟩

/-- T14. `pentagons_distinct`: different positions get different pentagons (already their centres differ). -/
theorem pentagons_distinct (n o s t : Nat) (hn : n ≤ 30) (ho : o < 6) (hs : s < 4 ^ n) (ht : t < 4 ^ n) (hne : s ≠ t)
    (a b : Anchor) (ha : sToAnchor s n o = .ok a) (hb : sToAnchor t n o = .ok b) :
    PG.centreIJ a ≠ PG.centreIJ b ∧ PG.pentagonQ a ≠ PG.pentagonQ b := by
  have key : PG.centreIJ a ≠ PG.centreIJ b := by
    intro h
    obtain ⟨a', ha', ha2⟩ := centre_located n o s hn ho hs
    obtain ⟨b', hb', hb2⟩ := centre_located n o t hn ho ht
    cases Outcome.ok.inj (ha.symm.trans ha')
    cases Outcome.ok.inj (hb.symm.trans hb')
    rewrite [h] at ha2
    exact hne (Outcome.ok.inj (ha2.symm.trans hb2))
  refine ⟨key, fun h => key ?_⟩
  unfold PG.centreIJ PG.centreQ
  rewrite [h]
  rfl

/-- T15. `centres_in_quintant`: every pentagon centre lies in the (open) quintant triangle
`{x > 0, y > 0, x + y < 2^n}` of lattice coordinates. -/
theorem centres_in_quintant (n o s : Nat) (hn : n ≤ 30) (ho : o < 6) (hs : s < 4 ^ n) (a : Anchor)
    (ha : sToAnchor s n o = .ok a) :
    0 < (PG.centreIJ a).1 ∧ 0 < (PG.centreIJ a).2 ∧ (PG.centreIJ a).1 + (PG.centreIJ a).2 < 2 ^ n := by
  obtain ⟨a', ha', hc⟩ := centre_in_anchor_triangle n o s hn ho hs
  cases Outcome.ok.inj (ha.symm.trans ha')
  exact anchor_in_quintant ℚ n o s hn ho hs a ha _ _ hc

/-- T12/T13 on a concrete position, evaluated independently of the theorems: the exact centre of the pentagon of
position 6, depth 2, orientation 3 and where `ij_to_s` puts it -/
example : sToAnchor 6 2 3 = .ok ⟨1, (3, 0), (1, -1)⟩ ∧
    ijToS fieldLits (PG.centreIJ ⟨1, (3, 0), (1, -1)⟩).1 (PG.centreIJ ⟨1, (3, 0), (1, -1)⟩).2 2 3 = .ok 6 := by
  decide +kernel

/-! ## non-vacuity: concrete instances at depth 2, orientations 3 (`WU`: reverse + flipIJ) and 5 (`WV`: invertJ) -/

/-- the anchors of position 6 in orientation 3 and of position 11 in orientation 5 -/
example : sToAnchor 6 2 3 = .ok ⟨1, (3, 0), (1, -1)⟩ := by decide
example : sToAnchor 11 2 5 = .ok ⟨2, (2, 1), (-1, -1)⟩ := by decide

/-- T5 instantiated (orientation 3): `(8/3, 2/3) = (3,0) + (-1/3, 2/3)` lies in the triangle of position 6 -/
example : ijToS fieldLits (8 / 3 : ℚ) (2 / 3) 2 3 = .ok 6 := by
  obtain ⟨a, ha, _, h⟩ := locate_anchor ℚ 2 3 6 (by decide) (by decide) (by decide)
  have e : sToAnchor 6 2 3 = .ok ⟨1, (3, 0), (1, -1)⟩ := by decide
  cases Outcome.ok.inj (ha.symm.trans e)
  exact h _ _ (by rw [anchorTri, inT_pm]; norm_num)

/-- T5 instantiated (orientation 5): `(5/3, 2/3) = (2,1) + (-1/3, -1/3)` lies in the triangle of position 11 -/
example : ijToS fieldLits (5 / 3 : ℚ) (2 / 3) 2 5 = .ok 11 := by
  obtain ⟨a, ha, _, h⟩ := locate_anchor ℚ 2 5 11 (by decide) (by decide) (by decide)
  have e : sToAnchor 11 2 5 = .ok ⟨2, (2, 1), (-1, -1)⟩ := by decide
  cases Outcome.ok.inj (ha.symm.trans e)
  exact h _ _ (by rw [anchorTri, inT_mm]; norm_num)

/-- the same two facts by direct evaluation of the model over `ℚ`, independently of the theorems -/
example : ijToS fieldLits (8 / 3 : ℚ) (2 / 3) 2 3 = .ok 6 := by decide +kernel
example : ijToS fieldLits (5 / 3 : ℚ) (2 / 3) 2 5 = .ok 11 := by decide +kernel

/-- T6 is not vacuous: positions 8 and 12 of orientation 3 share the offset `(2,1)` and differ in the flips -/
example : sToAnchor 8 2 3 = .ok ⟨2, (2, 1), (1, -1)⟩ ∧ sToAnchor 12 2 3 = .ok ⟨3, (2, 1), (-1, -1)⟩ := by decide

/-- T7's hypotheses are satisfiable: `(8/3, 2/3)` is in the quintant triangle of depth 2 and on no lattice line -/
example : (0 : ℚ) < 8 / 3 ∧ (0 : ℚ) < 2 / 3 ∧ (8 / 3 : ℚ) + 2 / 3 < 2 ^ 2 := by norm_num
example : OffLattice (8 / 3 : ℚ) (2 / 3) := by
  have key : ∀ (q : ℚ), q.den ≠ 1 → ∀ z : Int, q ≠ (z : ℚ) := by
    intro q hq z hz
    rewrite [hz] at hq
    exact hq (Rat.den_intCast z)
  intro z
  refine ⟨key _ (by decide +kernel) z, key _ (by decide +kernel) z, key _ (by decide +kernel) z⟩

/-- T10 at the executable scalar type -/
example (x y : Float) (n o s : Nat) (h : ijToS floatLits x y n o = .ok s) : s < 4 ^ n := ijToS_lt floatLits x y n o s h

end A5.C17
