import A5.Lemmas.HierRefine
/-! # C07 — parent / children form a tree: 12 base cells, 5 quintants per base cell, 4 children per level

Model: `A5.cellToChildren`, `A5.cellToParent`, `A5.getRes0Cells` (`A5/Model/Hier.lean`), `A5.getResolution`.
Spec: the inductive tree of `A5/Spec/Tree.lean` (`Path`: world, `face f`, `deep f k digits`), whose encodings
`Path.enc p` for well-formed `p` are exactly the canonical ids (`canonical_ids_are_paths`).  Every theorem is about
the *model functions* applied to the id `enc p` of an arbitrary well-formed path, i.e. to every canonical id, at
every resolution -1..29.

The only side condition that is not a resolution range is the library's own guard: `cell_to_children` refuses
more than 20 levels, counted from `max (res p) 1` (written `r' - max (res p) 1 ≤ 20` below). -/
namespace A5.C07
open A5 A5.Path

/-! ## the ids in question -/

/-- T0. The canonical ids (documented layout) are exactly the encodings of the well-formed tree paths, and
different paths have different ids.  So "for every well-formed `p`, … `enc p` …" means "for every cell id". -/
theorem canonical_ids_are_paths (id : Nat) :
    Layout id ↔ ∃ p, (WF p ∧ enc p = id) ∧ ∀ q, WF q ∧ enc q = id → q = p := by
  constructor
  · exact existsUnique_path_of_layout id
  · rintro ⟨p, ⟨hp, rfl⟩, _⟩; exact layout_enc_path hp

/-- T0'. The resolution stored in the id of a path is the depth of the path. -/
theorem resolution_of_path {p : Path} (hp : WF p) : getResolution (enc p) = res p := getResolution_enc_path hp

/-! ## children -/

/-- T1. Complete behaviour of `cell_to_children(id, Some(r'))` on every cell id: the four errors, `[id]` at the
cell's own resolution, and otherwise exactly the ids of the tree descendants at resolution `r'`, in the order
`descendantsOrdered` (tree order, except that the five quintants of a base cell come in segment order). -/
theorem children_closed_form {p : Path} (hp : WF p) (r' : Int) :
    cellToChildren (enc p) (some r') =
      if r' < res p then .err .targetCoarser
      else if r' > 30 then .err .exceedsMax
      else if r' = res p then .ok [enc p]
      else if r' - max (res p) 1 > 20 then .err .diffTooLarge
      else if r' = 30 then .err .resTooLarge
      else .ok ((descendantsOrdered p r').map enc) := cellToChildren_enc hp r'

/-- T1a. At a legal target the result is the list of descendants. -/
theorem children_spec {p : Path} (hp : WF p) (r' : Int) (h1 : res p ≤ r') (h2 : r' ≤ 29)
    (h3 : r' - max (res p) 1 ≤ 20) :
    cellToChildren (enc p) (some r') = .ok ((descendantsOrdered p r').map enc) := cellToChildren_enc_ok hp r' h1 h2 h3

/-- T1b. Default argument: one level down; at resolution 29 the default target 30 is an error (not a panic). -/
theorem children_default {p : Path} (hp : WF p) :
    cellToChildren (enc p) none =
      if res p = 29 then .err .resTooLarge else .ok ((descendantsOrdered p (res p + 1)).map enc) := by
  have := res_le hp
  by_cases h : res p = 29
  · rewrite [if_pos h]; exact cellToChildren_none_29 hp h
  · rewrite [if_neg h]; exact cellToChildren_none_enc hp (by omega)

/-- T1c. The twelve base cells. -/
theorem res0_cells : getRes0Cells = .ok ((List.range 12).map (fun f => enc (face f))) := getRes0Cells_eq

/-- T2. The children at `r'` are pairwise distinct. -/
theorem children_distinct {p : Path} (hp : WF p) (r' : Int) (h1 : res p ≤ r') (h2 : r' ≤ 29)
    (h3 : r' - max (res p) 1 ≤ 20) :
    ∃ l, cellToChildren (enc p) (some r') = .ok l ∧ l.Nodup :=
  ⟨_, children_spec hp r' h1 h2 h3, nodup_map_enc_ordered hp r' h2⟩

/-- T3. Every child at `r'` has resolution `r'` and is a canonical id. -/
theorem children_resolution {p : Path} (hp : WF p) (r' : Int) (h1 : res p ≤ r') (h2 : r' ≤ 29)
    (h3 : r' - max (res p) 1 ≤ 20) :
    ∃ l, cellToChildren (enc p) (some r') = .ok l ∧ ∀ c ∈ l, getResolution c = r' ∧ Layout c := by
  refine ⟨_, children_spec hp r' h1 h2 h3, fun c hc => ?_⟩
  obtain ⟨d, hd, rfl⟩ := List.mem_map.1 hc
  have hw := wf_of_mem_ordered hp h2 hd
  exact ⟨by rewrite [getResolution_enc_path hw]; exact res_of_mem_ordered hp hd, layout_enc_path hw⟩

/-- T4. There are exactly `fanout` many: the product of the per-level fan-outs 12, 5, 4, 4, … -/
theorem children_count {p : Path} (hp : WF p) (r' : Int) (h1 : res p ≤ r') (h2 : r' ≤ 29)
    (h3 : r' - max (res p) 1 ≤ 20) :
    ∃ l, cellToChildren (enc p) (some r') = .ok l ∧ l.length = fanout (r' - res p).toNat (res p) := by
  refine ⟨_, children_spec hp r' h1 h2 h3, ?_⟩
  rewrite [List.length_map]
  exact length_ordered hp r' h1

/-- T4'. The product in closed form: `4^n` below a cell of resolution ≥ 1; `5·4^n` for `n+1` levels below a
base cell; 12 base cells and `60·4^n` cells `n+2` levels below the world cell. -/
theorem fanout_closed (n : Nat) :
    (∀ r : Int, 1 ≤ r → fanout n r = 4 ^ n) ∧ fanout (n + 1) 0 = 5 * 4 ^ n ∧
    fanout 1 (-1) = 12 ∧ fanout (n + 2) (-1) = 60 * 4 ^ n :=
  ⟨fun r h => fanout_deep n r h, fanout_face n, fanout_world_one, fanout_world n⟩

/-- ancestor lookup in its legal range, without case distinction -/
theorem parent_spec {p : Path} (hp : WF p) (a : Int) (h1 : -1 ≤ a) (h2 : a ≤ res p) :
    cellToParent (enc p) (some a) = .ok (enc (ancestorAt p a)) := cellToParent_anc hp a h1 h2

/-- T5. Each child at `r'` has the cell it came from as its ancestor at the cell's resolution. -/
theorem children_parent {p : Path} (hp : WF p) (r' : Int) (h1 : res p ≤ r') (h2 : r' ≤ 29)
    (h3 : r' - max (res p) 1 ≤ 20) :
    ∃ l, cellToChildren (enc p) (some r') = .ok l ∧ ∀ c ∈ l, cellToParent c (some (res p)) = .ok (enc p) := by
  refine ⟨_, children_spec hp r' h1 h2 h3, fun c hc => ?_⟩
  obtain ⟨d, hd, rfl⟩ := List.mem_map.1 hc
  have hw := wf_of_mem_ordered hp h2 hd
  rewrite [parent_spec hw (res p) (res_ge p) (by rewrite [res_of_mem_ordered hp hd]; exact h1),
    ancestorAt_of_mem_ordered hp hd]
  rfl

/-! ## parents -/

/-- T6. Complete behaviour of `cell_to_parent(id, Some(r'))` on every cell id. -/
theorem parent_closed_form {p : Path} (hp : WF p) (r' : Int) :
    cellToParent (enc p) (some r') =
      if r' = -1 then .ok 0 else if r' < 0 then .err .negative
      else if r' > res p then .err .targetFiner else .ok (enc (ancestorAt p r')) := cellToParent_enc hp r'

/-- T6a. Default argument: the tree parent; on the world cell the default target `-2` is the error "negative". -/
theorem parent_default {p : Path} (hp : WF p) :
    cellToParent (enc p) none = if p = world then .err .negative else .ok (enc (parent p)) := by
  by_cases h : p = world
  · rewrite [if_pos h, h]; exact cellToParent_none_world
  · rewrite [if_neg h]; exact cellToParent_none_enc hp h

/-- T7. Ancestor lookup composes: the ancestor at `b` of the ancestor at `a` is the ancestor at `b`. -/
theorem parent_compose {p : Path} (hp : WF p) (a b : Int) (h1 : -1 ≤ b) (h2 : b ≤ a) (h3 : a ≤ res p) :
    (cellToParent (enc p) (some a) >>= fun x => cellToParent x (some b)) = cellToParent (enc p) (some b) := by
  rewrite [parent_spec hp a (by omega) h3, parent_spec hp b h1 (by omega)]
  simp only [Outcome.bind_ok]
  rewrite [parent_spec (wf_ancestorAt hp a) b h1 (by rewrite [res_ancestorAt p a (by omega) h3]; exact h2),
    ancestorAt_ancestorAt p a b h2]
  rfl

/-- T8. Children of children are the children at the deeper level — equal as lists, in the same order. -/
theorem children_compose {p : Path} (hp : WF p) (a b : Int) (h1 : res p ≤ a) (h2 : a ≤ b) (h3 : b ≤ 29)
    (h4 : b - max (res p) 1 ≤ 20) :
    (cellToChildren (enc p) (some a) >>= fun l => flatMapOutcome (fun c => cellToChildren c (some b)) l)
      = cellToChildren (enc p) (some b) := by
  rewrite [children_spec hp a h1 (by omega) (by omega), children_spec hp b (by omega) h3 h4]
  simp only [Outcome.bind_ok]
  rewrite [flatMapOutcome_map_ok _ enc (fun d => (descendantsOrdered d b).map enc) _ (fun d hd => by
    have hw := wf_of_mem_ordered hp (by omega : a ≤ 29) hd
    have hr := res_of_mem_ordered hp hd
    exact children_spec hw b (by omega) h3 (by omega))]
  refine congrArg Outcome.ok ?_
  rewrite [← List.map_flatMap, ordered_flatMap a b h1 h2]
  rfl

/-! ## exactly one parent; each level is enumerated exactly once -/

theorem enc_eq_zero {p : Path} (hp : WF p) (h : enc p = 0) : p = world :=
  enc_injective hp (q := world) trivial h

theorem res_parent {p : Path} (h : p ≠ world) : res (parent p) = res p - 1 := by
  have h0 : 0 ≤ res p := by cases p <;> simp only [res] <;> first | omega | exact absurd rfl h
  rewrite [parent_eq_ancestorAt]
  exact res_ancestorAt p _ (by omega) (by omega)

/-- T9. Every cell id other than the world cell is among the children of exactly one cell id, and that one is
what `cell_to_parent(id, None)` returns. -/
theorem exactly_one_parent (c : Nat) (hc : Layout c) (h0 : c ≠ 0) :
    ∃ q, (Layout q ∧ ∃ l, cellToChildren q none = .ok l ∧ c ∈ l) ∧
      (∀ q', (Layout q' ∧ ∃ l, cellToChildren q' none = .ok l ∧ c ∈ l) → q' = q) ∧
      cellToParent c none = .ok q := by
  obtain ⟨p, hp, rfl⟩ := exists_path_of_layout c hc
  have hne : p ≠ world := fun h => h0 (by rewrite [h]; rfl)
  have hwp := wf_parent hp
  have hrp := res_parent hne
  have hr := res_le hp
  refine ⟨enc (parent p), ⟨layout_enc_path hwp, _, cellToChildren_none_enc hwp (by omega), ?_⟩, ?_,
    cellToParent_none_enc hp hne⟩
  · refine List.mem_map.2 ⟨p, ?_, rfl⟩
    rewrite [mem_descendantsOrdered_iff _ hwp, descendantsAt_succ]
    exact mem_children_parent hp hne
  · rintro q' ⟨hq', l, hl, hm⟩
    obtain ⟨p', hp', rfl⟩ := exists_path_of_layout q' hq'
    rewrite [children_default hp'] at hl
    by_cases h29 : res p' = 29
    · rewrite [if_pos h29] at hl; cases hl
    · rewrite [if_neg h29] at hl
      cases Outcome.ok.inj hl
      obtain ⟨d, hd, he⟩ := List.mem_map.1 hm
      have hr' := res_le hp'
      have hd' := wf_of_mem_ordered hp' (by omega) hd
      cases enc_injective hd' hp he
      rewrite [mem_descendantsOrdered_iff _ hp', descendantsAt_succ] at hd
      rewrite [parent_unique hd]; rfl

/-- T10a. The ids of resolution `r` are the encodings of the tree level `descendantsAt world r`, each listed
exactly once. -/
theorem level_complete (r : Int) (h2 : r ≤ 29) :
    ((descendantsAt world r).map enc).Nodup ∧
    ∀ id, id ∈ (descendantsAt world r).map enc ↔ Layout id ∧ getResolution id = r := by
  have hwf : ∀ d ∈ descendantsAt world r, WF d := fun d hd => wf_of_mem_descendantsAt (p := world) trivial h2 hd
  refine ⟨nodup_map_of_inj (descendantsAt_nodup world r) (fun a ha b hb h => enc_injective (hwf a ha) (hwf b hb) h),
    fun id => ⟨?_, ?_⟩⟩
  · intro h
    obtain ⟨d, hd, rfl⟩ := List.mem_map.1 h
    exact ⟨layout_enc_path (hwf d hd), by rewrite [getResolution_enc_path (hwf d hd)]; exact res_of_mem_descendantsAt hd⟩
  · rintro ⟨hl, hr⟩
    obtain ⟨p, hp, rfl⟩ := exists_path_of_layout id hl
    rewrite [getResolution_enc_path hp] at hr
    refine List.mem_map.2 ⟨p, ?_, rfl⟩
    rewrite [← hr]
    exact mem_descendantsAt_world hp (res_le hp)

/-- T10b. Taking the children of all cells of resolution `r` (in tree order) succeeds and enumerates resolution
`r + 1` exactly once: the result is a rearrangement of the next tree level, hence without repetition, and it
contains precisely the ids of resolution `r + 1`. -/
theorem level_children (r : Int) (h1 : -1 ≤ r) (h2 : r ≤ 28) :
    ∃ l, flatMapOutcome (fun c => cellToChildren c none) ((descendantsAt world r).map enc) = .ok l ∧
      l.Perm ((descendantsAt world (r + 1)).map enc) ∧ l.Nodup ∧
      ∀ id, id ∈ l ↔ Layout id ∧ getResolution id = r + 1 := by
  have hwf : ∀ d ∈ descendantsAt world r, WF d :=
    fun d hd => wf_of_mem_descendantsAt (p := world) trivial (by omega) hd
  have hperm : ((descendantsAt world r).flatMap (fun d => (descendantsOrdered d (r + 1)).map enc)).Perm
      ((descendantsAt world (r + 1)).map enc) := by
    rewrite [← flatMap_children_level r h1, List.map_flatMap]
    refine perm_flatMap_left (fun d hd => ?_)
    have hr := res_of_mem_descendantsAt hd
    have := (descendantsOrdered_perm d (hwf d hd) (r + 1)).map enc
    rewrite [← hr, descendantsAt_succ] at this
    rewrite [← hr]
    exact this
  have hlev := level_complete (r + 1) (by omega)
  refine ⟨_, flatMapOutcome_map_ok _ enc (fun d => (descendantsOrdered d (r + 1)).map enc) _ (fun d hd => ?_),
    hperm, hperm.nodup_iff.2 hlev.1, fun id => ?_⟩
  · have hr := res_of_mem_descendantsAt hd
    rewrite [cellToChildren_none_enc (hwf d hd) (by omega), hr]
    rfl
  · rewrite [hperm.mem_iff]
    exact hlev.2 id

/-! ## non-vacuity: the hypotheses are met by concrete non-trivial cells -/

/-- the sample cell: face 7, stored quintant code 3, curve digits 2,3,1 (resolution 4) -/
abbrev sample : Path := deep 7 3 [2, 3, 1]

example : WF sample := by decide
example : enc sample = 0x9ad8000000000000 := by decide
example : res sample = 4 := by decide
example : ∃ l, cellToChildren (enc sample) (some 6) = .ok l ∧ l.Nodup :=
  children_distinct (p := sample) (by decide) 6 (by decide) (by decide) (by decide)
example : ∃ l, cellToChildren (enc sample) (some 6) = .ok l ∧ ∀ c ∈ l, getResolution c = 6 ∧ Layout c :=
  children_resolution (p := sample) (by decide) 6 (by decide) (by decide) (by decide)
example : ∃ l, cellToChildren (enc sample) (some 6) = .ok l ∧ l.length = fanout 2 4 :=
  children_count (p := sample) (by decide) 6 (by decide) (by decide) (by decide)
example : fanout 2 4 = 16 := by decide
example : ∃ l, cellToChildren (enc sample) (some 6) = .ok l ∧
    ∀ c ∈ l, cellToParent c (some 4) = .ok (enc sample) :=
  children_parent (p := sample) (by decide) 6 (by decide) (by decide) (by decide)
example : cellToChildren 0x9ad8000000000000 (some 5) =
    .ok [0x9ad2000000000000, 0x9ad6000000000000, 0x9ada000000000000, 0x9ade000000000000] := by decide +kernel
/-- world → resolution 2 (three source levels at once): 240 cells -/
example : ∃ l, cellToChildren (enc world) (some 2) = .ok l ∧ l.length = fanout 3 (-1) :=
  children_count (p := world) trivial 2 (by decide) (by decide) (by decide)
example : fanout 3 (-1) = 240 := by decide
example : (cellToParent (enc sample) (some 2) >>= fun x => cellToParent x (some 0))
    = cellToParent (enc sample) (some 0) :=
  parent_compose (p := sample) (by decide) 2 0 (by decide) (by decide) (by decide)
example : cellToParent 0x9ad8000000000000 (some 0) = .ok 0x1e00000000000000 := by decide +kernel
example : (cellToChildren (enc (face 7)) (some 1) >>= fun l => flatMapOutcome (fun c => cellToChildren c (some 3)) l)
    = cellToChildren (enc (face 7)) (some 3) :=
  children_compose (p := face 7) (by decide) 1 3 (by decide) (by decide) (by decide) (by decide)
example : Layout (enc sample) ∧ enc sample ≠ 0 := ⟨layout_enc_path (p := sample) (by decide), by decide⟩
example : cellToParent 0x9ad8000000000000 none = .ok 0x9ae0000000000000 := by decide +kernel
example : cellToChildren (enc (deep 0 0 (List.replicate 28 0))) none = .err .resTooLarge :=
  cellToChildren_none_29 (by decide) (by decide)
/-- levels: the 12 base cells have 60 children in total -/
example : ∃ l, flatMapOutcome (fun c => cellToChildren c none) ((descendantsAt world 0).map enc) = .ok l ∧
      l.Perm ((descendantsAt world (0 + 1)).map enc) ∧ l.Nodup ∧
      ∀ id, id ∈ l ↔ Layout id ∧ getResolution id = 0 + 1 := level_children 0 (by decide) (by decide)

end A5.C07
