import A5.Lemmas.MemoLemmas
/-! # C13 — every projection call is a pure function of its arguments (no history or thread effects)

Model: `A5/Model/Memo.lean` — the per-thread `DodecahedronProjection` (memo vectors of
`MEMO_FACE_SLOTS = 30` face triangles and `MEMO_SPH_SLOTS = 240` spherical triangles, CRS lookup counter)
as an explicit state machine `call : MemoState → Args → MemoState × Outcome Res`, generic in the float
stages (`Params`).  Reference: `pureCall : Args → Outcome Res` (no state).  Threads: `World = ThreadId →
MemoState`, a step of thread `t` applies `call` to component `t` (`thread_local!`).

All theorems quantify over every parameter instance satisfying `Params.WF` (12 origins; the unreflected
face triangle ignores `squashed`), every history and every interleaving.  The layout numbers are the
generated `A5.Gen.MEMO_*` constants; nothing here hard-codes them.

Not provable in Lean (stated in DESIGN.md): data-race freedom / aliasing of the `&'static mut` handed out
by `get_thread_local`; that `thread_local!` really gives one instance per thread.

**Finding (release v0.6.2, repaired in /repo d95ab4f).**  `inverse` did not validate `origin_id` before
`get_spherical_triangle`, whose slot lookup `10*origin + idx` precedes the origin check inside
`compute_spherical_triangle`.  For a non-reflected point and `origin_id ∈ 12..23` the slot (120..239)
aliases the reflected slot of origin `origin_id - 12`: a fresh thread returns `Err("Invalid origin ID")`,
a thread that earlier handled a reflected point on that face returns `Ok(garbage)`.  Reproduced on the
real library; frozen here as `callV062` with the kernel-checked history `v062_history_dependent`. -/
namespace A5.C13
open A5 A5.Gen A5.Memo

variable {FT ST Args Res : Type} {P : Params FT ST Args Res}

/-! ## T1 — the slot functions are sound -/

/-- T1.  For in-range keys (`idx ≤ FACE_TRIANGLE_MAX`, `origin < numOrigins`):
two face keys that share a slot have the same value (the unreflected squashed/unsquashed keys share a slot
*and* a value; apart from that `slotF` is injective); `slotS` is injective; every slot lies inside its
table.  Proved from the generated constants. -/
theorem slot_sound (hw : P.WF) :
    (∀ k k' : FKey, k.idx ≤ FACE_TRIANGLE_MAX → k'.idx ≤ FACE_TRIANGLE_MAX → slotF k = slotF k' →
        P.faceVal k = P.faceVal k' ∧
        k.idx = k'.idx ∧ k.reflected = k'.reflected ∧ (k.reflected = true → k.squashed = k'.squashed)) ∧
    (∀ k k' : SKey, k.idx ≤ FACE_TRIANGLE_MAX → k.origin < P.numOrigins →
        k'.idx ≤ FACE_TRIANGLE_MAX → k'.origin < P.numOrigins → slotS k = slotS k' → k = k') ∧
    (∀ k : FKey, k.idx ≤ FACE_TRIANGLE_MAX → slotF k < MEMO_FACE_SLOTS) ∧
    (∀ k : SKey, k.idx ≤ FACE_TRIANGLE_MAX → k.origin < P.numOrigins → slotS k < MEMO_SPH_SLOTS) := by
  refine ⟨fun k k' hk hk' h => ⟨faceVal_of_slot_eq hw k k' hk hk' h, slotF_inj k k' hk hk' h⟩, ?_, slotF_lt, ?_⟩
  · intro k k' hk ho hk' ho' h
    rw [hw.numOrigins_eq] at ho ho'
    exact slotS_inj k k' hk ho hk' ho' h
  · intro k hk ho
    rw [hw.numOrigins_eq] at ho
    exact slotS_lt k hk ho

/-- T1 (complement).  The tables are used exactly: every one of the 30 + 240 slots is the slot of some
in-range key, so "all fill orders of the slots" is "all orders of first use of the keys". -/
theorem slot_cover :
    (∀ j, j < MEMO_FACE_SLOTS → ∃ k : FKey, k.idx ≤ FACE_TRIANGLE_MAX ∧ slotF k = j) ∧
    (∀ j, j < MEMO_SPH_SLOTS → ∃ k : SKey, k.idx ≤ FACE_TRIANGLE_MAX ∧ k.origin < NUM_ORIGINS_WORLD ∧ slotS k = j) := by
  constructor
  · intro j hj
    memo_consts
    by_cases h1 : j < 10
    · exact ⟨⟨j, false, false⟩, (by omega : j ≤ 9), by simp [slotF]⟩
    · by_cases h2 : j < 20
      · exact ⟨⟨j - 10, true, false⟩, (by omega : j - 10 ≤ 9),
          by simp only [slotF, MEMO_FACE_REFLECTED_OFFSET]; simp; omega⟩
      · exact ⟨⟨j - 20, true, true⟩, (by omega : j - 20 ≤ 9),
          by simp only [slotF, MEMO_FACE_SQUASHED_OFFSET]; simp; omega⟩
  · intro j hj
    memo_consts
    by_cases h1 : j < 120
    · exact ⟨⟨j / 10, j % 10, false⟩, (by omega : j % 10 ≤ 9), (by omega : j / 10 < 12), by simp only [slotS, MEMO_SPH_STRIDE]; simp; omega⟩
    · exact ⟨⟨(j - 120) / 10, (j - 120) % 10, true⟩, (by omega : (j - 120) % 10 ≤ 9), (by omega : (j - 120) / 10 < 12),
        by simp only [slotS, MEMO_SPH_STRIDE, MEMO_SPH_REFLECTED_OFFSET]; simp; omega⟩

/-! ## T2 — the memoised machine refines the stateless function -/

/-- T2.  `Inv` ("every filled slot holds the pure value of every in-range key that maps to it") holds
initially and is preserved by every call, and under `Inv` the result of a call is `pureCall` of its
arguments — for *all* arguments (valid or not).  Hence after every history the result of every call is
`pureCall`: it does not depend on which slots are already filled, in any fill order. -/
theorem memo_refines_pure (hw : P.WF) :
    Inv P (init : MemoState FT ST) ∧
    (∀ (s : MemoState FT ST) (a : Args), Inv P s → Inv P (call P s a).1 ∧ (call P s a).2 = pureCall P a) ∧
    (∀ (h : List Args) (a : Args), (call P (run P init h) a).2 = pureCall P a) ∧
    (∀ h : List Args, runResults P init h = h.map (pureCall P)) :=
  ⟨inv_init, fun _ a hs => ⟨call_inv hw hs a, call_res hw hs a⟩,
   fun h a => call_res hw (run_inv hw h inv_init) a, fun h => runResults_eq hw h inv_init⟩

/-- `pureCall` is what the first call in a fresh thread returns. -/
theorem pureCall_is_fresh_call (hw : P.WF) (a : Args) : (call P (init : MemoState FT ST) a).2 = pureCall P a :=
  call_res hw inv_init a

/-- T2, history form: the same call after two arbitrary histories gives the same result. -/
theorem result_history_independent (hw : P.WF) (h h' : List Args) (a : Args) :
    (call P (run P (init : MemoState FT ST) h) a).2 = (call P (run P (init : MemoState FT ST) h') a).2 := by
  rw [(memo_refines_pure hw).2.2.1 h a, (memo_refines_pure hw).2.2.1 h' a]

/-! ## T3 — threads -/

/-- T3.  From any world whose components satisfy `Inv` (in particular the all-fresh world), along every
interleaving: each step returns `pureCall` of its arguments; the component of thread `t` at the end is
what `t` reaches by running its own calls alone (no step observes another thread's state); a step of
thread `t` leaves every other component unchanged. -/
theorem threads_independent (hw : P.WF) (w : World FT ST) (hi : ∀ t, Inv P (w t)) (h : List (ThreadId × Args)) :
    runWorldResults P w h = h.map (fun ta => pureCall P ta.2) ∧
    (∀ t, runWorld P w h t = run P (w t) ((h.filter (fun ta => ta.1 == t)).map (·.2))) ∧
    (∀ t, Inv P (runWorld P w h t)) ∧
    (∀ (t u : ThreadId) (a : Args), u ≠ t → (stepWorld P w t a).1 u = w u) := by
  refine ⟨runWorldResults_eq hw h hi, fun t => runWorld_proj h t w, fun t => ?_, fun t u a hne => stepWorld_other w t u a hne⟩
  rw [runWorld_proj h t w]
  exact run_inv hw _ (hi t)

theorem threads_independent_fresh (hw : P.WF) (h : List (ThreadId × Args)) :
    runWorldResults P (World.init : World FT ST) h = h.map (fun ta => pureCall P ta.2) :=
  (threads_independent hw World.init (fun _ => inv_init) h).1

/-! ## T4 — the CRS warning is unreachable -/

/-- T4.  If the spherical-triangle computation succeeds for each in-range key (`SphTotal`: a finite fact
about the float model, checked by evaluation elsewhere), then in every reachable state the CRS lookup
counter is at most `3 · MEMO_SPH_SLOTS`, which is below `CRS_WARN_AT`: the stderr warning — the only
history-dependent side effect — cannot happen. -/
theorem crs_quiet (hw : P.WF) (ht : SphTotal P) (h : List Args) :
    (run P (init : MemoState FT ST) h).crsCalls ≤ CRS_LOOKUPS_PER_TRIANGLE * MEMO_SPH_SLOTS ∧
    CRS_LOOKUPS_PER_TRIANGLE * MEMO_SPH_SLOTS < CRS_WARN_AT := by
  refine ⟨?_, by decide⟩
  have hi : Inv P (run P (init : MemoState FT ST) h) := run_inv hw h inv_init
  have hc : CrsInv (run P (init : MemoState FT ST) h) :=
    run_crs hw ht h inv_init (by simp [CrsInv, init])
  exact Nat.le_trans hc (Nat.mul_le_mul_left _ (sphFilled_le hi))

/-- T4 for threads: every thread's counter stays below the warning threshold along every interleaving. -/
theorem crs_quiet_threads (hw : P.WF) (ht : SphTotal P) (h : List (ThreadId × Args)) (t : ThreadId) :
    (runWorld P (World.init : World FT ST) h t).crsCalls < CRS_WARN_AT := by
  rw [runWorld_proj h t World.init]
  exact Nat.lt_of_le_of_lt (crs_quiet hw ht _).1 (crs_quiet hw ht []).2

/-- T4, honest residue (no `SphTotal`).  A failing computation is not cached: if for some in-range key
the CRS lookup fails after `n` lookups, then `m` repetitions of that call add `m · n` to the counter
(each returning the same error, by T2).  So without `SphTotal` the counter is unbounded, and the warning
fires at the call that makes it hit `CRS_WARN_AT`. -/
theorem crs_grows_without_success (hw : P.WF) (a : Args)
    (hk : (P.classify a).idx ≤ FACE_TRIANGLE_MAX) (ho : (P.classify a).origin < P.numOrigins)
    (hf : ∀ st, (sphVal P (P.classify a)).1 ≠ .ok st) (h : List Args) (m : Nat) :
    (run P (init : MemoState FT ST) (h ++ List.replicate m a)).crsCalls =
      (run P (init : MemoState FT ST) h).crsCalls + m * (sphVal P (P.classify a)).2 := by
  rw [run_append]
  exact run_fail_grows hw a hk ho hf m (run_inv hw h inv_init)

/-! ## T5 — results never turn into errors -/

/-- T5.  If a call succeeds when made first in a fresh thread, it succeeds with the same value after any
history (and, by T3, in any thread under any interleaving). -/
theorem ok_stays_ok (hw : P.WF) (a : Args) (v : Res) (hv : pureCall P a = .ok v) (h : List Args) :
    (call P (run P (init : MemoState FT ST) h) a).2 = .ok v := by
  rw [(memo_refines_pure hw).2.2.1 h a, hv]

/-- …and likewise an error stays the same error: no history "repairs" or changes a failing call. -/
theorem err_stays_err (hw : P.WF) (a : Args) (e : ErrKind) (hv : pureCall P a = .err e) (h : List Args) :
    (call P (run P (init : MemoState FT ST) h) a).2 = .err e := by
  rw [(memo_refines_pure hw).2.2.1 h a, hv]

/-! ## the frozen v0.6.2 behaviour -/

/-- The old `inverse` still preserves the invariant, and agrees with the repaired code on `forward` calls
and on every valid origin; the defect is confined to `inverse` with `origin ≥ numOrigins`. -/
theorem v062_agrees_on_valid (hw : P.WF) (isInverse : Args → Bool) (s : MemoState FT ST) (hs : Inv P s) (a : Args) :
    Inv P (callV062 P isInverse s a).1 ∧
    (isInverse a = false ∨ (P.classify a).origin < P.numOrigins → callV062 P isInverse s a = call P s a) :=
  ⟨callV062_inv hw isInverse hs a, callV062_eq_call isInverse s a⟩

/-! ## non-vacuity and the defect witness: a concrete instance -/

/-- A small instance: triangles are numbers that encode their key; `Args = (isInverse, key)`. -/
def demo : Params Nat Nat (Bool × SKey) Nat where
  numOrigins := NUM_ORIGINS_WORLD
  faceVal k := if k.reflected then (if k.squashed then 200 + k.idx else 100 + k.idx) else k.idx
  sphFrom ft k := (.ok (1000 * ft + 7 * k.origin + (if k.reflected then 500 else 0)), CRS_LOOKUPS_PER_TRIANGLE)
  classify a := a.2
  finish _ ft st := 1000000 * ft + st

theorem demo_wf : demo.WF := ⟨rfl, fun _ _ _ => rfl⟩

theorem demo_total : SphTotal demo := ⟨fun _ _ _ => ⟨_, rfl⟩, fun _ _ _ => Nat.le_refl _⟩

/-- Same, but the CRS lookup for the triangle (origin 3, idx 4, unreflected) fails at its second vertex. -/
def demoFail : Params Nat Nat (Bool × SKey) Nat :=
  { demo with sphFrom := fun ft k => if k.origin = 3 ∧ k.idx = 4 then (.err .crsVertex, 2) else demo.sphFrom ft k }

theorem demoFail_wf : demoFail.WF := ⟨rfl, fun _ _ _ => rfl⟩

-- T1: hypotheses met; the shared slot really is shared, and a reflected pair really is separated
example : slotF ⟨4, false, true⟩ = slotF ⟨4, false, false⟩ ∧ slotF ⟨4, true, true⟩ ≠ slotF ⟨4, true, false⟩ := by decide +kernel
example : slotS ⟨11, 9, true⟩ = 239 ∧ slotS ⟨0, 0, false⟩ = 0 := by decide +kernel
example := (slot_sound demo_wf).2.1 ⟨11, 9, true⟩ ⟨11, 9, true⟩ (by decide) (by decide) (by decide) (by decide) rfl

-- T2: a history of three calls (reflected, then the same key again, then another origin), then a call:
-- computed on the machine it equals the stateless value
example :
    (call demo (run demo init [(true, ⟨0, 3, true⟩), (false, ⟨0, 3, true⟩), (true, ⟨5, 3, false⟩)]) (true, ⟨0, 3, false⟩)).2
      = .ok 3003000 ∧ pureCall demo (true, ⟨0, 3, false⟩) = .ok 3003000 := by decide +kernel
example :
    runResults demo init [(true, ⟨0, 3, true⟩), (false, ⟨0, 3, true⟩), (false, ⟨12, 3, false⟩), (true, ⟨2, 10, false⟩)]
      = [.ok 103203500, .ok 103203500, .err .invalidOrigin, .err .other] := by decide +kernel
-- the history really fills slots (so the second call above is a cache hit)
example : (fillBitmap (run demo init [(true, ⟨0, 3, true⟩)])).2.1.getD 123 false = true ∧
    (fillBitmap (run demo init [(true, ⟨0, 3, true⟩)])).1.getD 13 false = true ∧
    (fillBitmap (run demo init [(true, ⟨0, 3, true⟩)])).1.getD 23 false = true ∧
    (fillBitmap (run demo init [(true, ⟨0, 3, true⟩)])).2.2 = 3 := by decide +kernel

-- T3: two threads interleaved
example :
    runWorldResults demo World.init [(0, (true, ⟨0, 3, true⟩)), (1, (true, ⟨0, 3, true⟩)), (0, (false, ⟨0, 3, true⟩)), (1, (true, ⟨12, 3, false⟩))]
      = [.ok 103203500, .ok 103203500, .ok 103203500, .err .invalidOrigin] := by decide +kernel
example : (runWorld demo World.init [(0, (true, ⟨0, 3, true⟩))] 1).crsCalls = 0 ∧
    (runWorld demo World.init [(0, (true, ⟨0, 3, true⟩))] 0).crsCalls = 3 := by decide +kernel

-- T4: the hypothesis is satisfiable, and the residue is real
example := crs_quiet demo_wf demo_total [(true, ⟨0, 3, true⟩)]
example : (run demoFail init (List.replicate 5 (true, ⟨3, 4, false⟩))).crsCalls = 10 ∧
    (call demoFail (run demoFail init (List.replicate 5 (true, ⟨3, 4, false⟩))) (true, ⟨3, 4, false⟩)).2 = .err .crsVertex := by decide +kernel
example := crs_grows_without_success demoFail_wf (true, ⟨3, 4, false⟩) (by decide) (by decide)
  (fun st h => by simp [sphVal, demoFail, demo] at h) [] 5000

-- T5
example := ok_stays_ok demo_wf (true, ⟨0, 3, false⟩) 3003000 (by decide) [(true, ⟨0, 3, true⟩)]

/-- DEFECT WITNESS (v0.6.2).  `inverse` on an unreflected point of triangle 3 with `origin_id = 12`:
first call in a fresh thread → `Err(Invalid origin ID)`; after one `inverse` on a reflected point of
triangle 3 of origin 0 (which fills spherical slot 123 = 10·12 + 3 = 10·0 + 3 + 120) → `Ok`, carrying the
reflected triangle of origin 0.  The repaired `call` returns the error in both situations. -/
theorem v062_history_dependent :
    (callV062 demo (·.1) init (true, ⟨12, 3, false⟩)).2 = .err .invalidOrigin ∧
    (callV062 demo (·.1) (run demo init [(true, ⟨0, 3, true⟩)]) (true, ⟨12, 3, false⟩)).2 = .ok 3203500 ∧
    (call demo (run demo init [(true, ⟨0, 3, true⟩)]) (true, ⟨12, 3, false⟩)).2 = .err .invalidOrigin := by decide +kernel

end A5.C13
