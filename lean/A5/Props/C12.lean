import A5.Lemmas.ChildAnchor
import A5.Lemmas.ChildPentagon3
import A5.Lemmas.DescendantReach2
/-! # C12 — children stay within a bounded reach of their parent (combinatorial / lattice core)

"Children geometrically overlap their parent and stay within its reach … Hence a cell's descendants at any depth
stay within a bounded distance of it."

Model: `A5.sToAnchor`, `A5.sToAnchorInternal`, `A5.shiftDigits`, `A5.shiftDown`, `A5.accumOffset`
(`A5/Model/Hilbert.lean`), generated tables `PATTERN`, `PATTERN_FLIPPED`, `QUATERNARY_TO_FLIPS`, `KJ_PQ_TABLE`,
`KJ_DIGIT_COEFF`, `FLIP_SHIFT` and the orientation flag sets.  In a quintant the children of curve position `s` at
depth `n` are the positions `4·s + d` (`d < 4`) at depth `n + 1` (the id layout appends two bits per level, C05), the
descendants `k` levels down are `s·4^k + t`, `t < 4^k`.

PROVED here, for EVERY depth, EVERY position, all four children, both patterns, both `invertJ`, all six orientations:
* T1 `child_digits_extend_parent`: the shifted digit string of the child is the parent's, except that the parent's
  least significant digit `p` and the new digit `d` are rewritten to `(p', d') = pairStep lo P p d` (the closed form of
  ONE `shift_digits` step); depth 0 → 1: the single digit `d`, unshifted.
* T2 `child_offset_close`: `O_child − 2·O_parent` lies in an explicit finite set (15 vectors for orientations 0, 1, 4, 5;
  13 vectors for the `flipIJ` orientations 2, 3), whence `|Δi|, |Δj|, |Δi + Δj| ≤ B` with `B = 2` resp. `B = 3`; the
  sets are exact (every vector occurs at depth ≤ 3) and the bounds are attained.
  `descendant_offset_bounded`: `|O_desc − 2^k·O_anc| ≤ B·(2^k − 1)` coordinatewise, i.e. the anchor of a descendant
  stays within `B·(1 − 2⁻ᵏ)` ancestor-lattice units of its ancestor's anchor — bounded reach at every depth.
* T3 `descendant_triangle_reach`: every point of the lattice triangle of a descendant, scaled back by `2⁻ᵏ`, lies in
  the OPEN lattice hexagon of radius `B` about the ancestor's anchor vertex (the ancestor's own triangle lies in
  the radius-1 hexagon about the same vertex).  Lattice containment child ⊂ parent is FALSE in general
  (`child_triangle_not_contained`: child 3 of position 0 at depth 1 is edge-adjacent to, and disjoint from, its parent's
  triangle) — the statement's "overlap" is about the pentagons, which are not the lattice triangles.

The PLANAR pentagon statements (T4-T6, `A5/Lemmas/ChildPentagon*.lean`), in exact rational arithmetic on the constants the
library computes at start-up (`A5.Gen.Runtime`), for EVERY parent depth 1..28, every orientation, position and child:
* T4 `child_centre_within_reach`: squared distance between the child's centre (in the parent's frame) and the parent's
  centre `< 0.4213·area(parent)`, i.e. distance `< 0.6491·√area < 0.8·√area`; the constant is sharp to four digits.
* T5 `child_overlaps_parent`: parent and child pentagon have a common strictly interior point (and the child's own
  centre need not be inside the parent: the pentagons do not nest).
* T6 `children_cover_parent`: a certificate of pairwise line-separated convex pieces, each inside the parent and inside
  one child, whose areas sum to more than 0.579 of the parent's (> 1/2).
The depth 0 → 1 step has the quintant TRIANGLE as parent (`get_quintant_vertices`), proved separately (`root_*`); for the
pentagon of the depth-0 anchor the reach bound is false (`root_pentagon_reach_fails`, ratio 0.917) - that pentagon is never
drawn.  The anchors' `k` digits, needed for the mirror decision, extend the step table (`stepQuads`, 64 entries).

* T7 `descendants_within_reach` (`A5/Lemmas/DescendantReach*.lean`): by induction over the levels, with the exact geometric
  series `r·(2 - 2^(1-k))`: the centre of EVERY descendant, k levels down, scaled into the ancestor's frame, lies within
  `2r = 1.2982·√area` of the ancestor's centre, and the whole pentagon of every descendant (convex hull of its vertices)
  lies in that same disc - "a cell's descendants at any depth stay within a bounded distance of it", planar form.

NOT proved: the same statements on the sphere (the equal-area projection distorts distances by a bounded factor: measured
maximum 0.68-0.70·√area against the planar 0.649) and for the `f64` evaluation; they stay with the differential search. -/
set_option linter.unusedSectionVars false
namespace A5.C12
open A5 A5.HilbertLocate

/-! ## T1: digits -/

/-- T1. parent (depth `n+1`) `= p :: tail`, child `4s+d` (depth `n+2`) `= d' :: p' :: tail` with
`(p', d') = pairStep (shiftLo invertJ (flips of tail)) pattern p d`, all digits `< 4`. -/
theorem child_digits_extend_parent (s n d : Nat) (hd : d < 4) (inv fl : Bool) :
    ∃ p tail, p < 4 ∧ tail.length = n ∧ (∀ x ∈ tail, x < 4) ∧
      shiftedDigits s (n + 1) inv fl = p :: tail ∧
      shiftedDigits (4 * s + d) (n + 2) inv fl =
        (pairStep (shiftLo inv (flipsProd tail)) (hilbertPattern fl) p d).2 ::
          (pairStep (shiftLo inv (flipsProd tail)) (hilbertPattern fl) p d).1 :: tail ∧
      (pairStep (shiftLo inv (flipsProd tail)) (hilbertPattern fl) p d).1 < 4 ∧
      (pairStep (shiftLo inv (flipsProd tail)) (hilbertPattern fl) p d).2 < 4 :=
  child_digits_cases s n d hd inv fl

/-- T1, in the model's own words: one `shiftDigits` step at index 1 on `d :: parent digits`. -/
theorem child_digits_one_step (s n d : Nat) (hd : d < 4) (inv fl : Bool) :
    shiftedDigits (4 * s + d) (n + 2) inv fl =
      shiftDigits (d :: shiftedDigits s (n + 1) inv fl) 1
        (flipsProd (shiftedDigits s (n + 1) inv fl).tail) inv (hilbertPattern fl) :=
  shiftedDigits_child s n d hd inv fl

/-- T1, depth 0 → 1: the quintant cell has no digits; its child `d` has the digit string `[d]`. -/
theorem child_digits_depth0 (s d : Nat) (hd : d < 4) (inv fl : Bool) :
    shiftedDigits s 0 inv fl = [] ∧ shiftedDigits (4 * s + d) 1 inv fl = [d] :=
  shiftedDigits_child_zero s d hd inv fl

/-- T1, index form: every digit of the child above its two lowest is the parent's digit one index below. -/
theorem child_digits_above (s n d : Nat) (hd : d < 4) (inv fl : Bool) (j : Nat) (hj : 2 ≤ j) :
    (shiftedDigits (4 * s + d) (n + 2) inv fl).getD j 0 = (shiftedDigits s (n + 1) inv fl).getD (j - 1) 0 :=
  A5.child_digits_above s n d hd inv fl j hj

/-- the one step really rewrites digits: parent 1 at depth 1 has the digit string `[1]`; its child `7 = 4·1 + 3` has
`[2, 0]` (not `[3, 1]`): both the new digit and the parent's digit are rewritten -/
example : shiftedDigits 1 1 false false = [1] ∧ shiftedDigits 7 2 false false = [2, 0] := by decide
/-- … while the digits above stay: parent 7 (depth 2) `[2, 0]`, child 31 (depth 3) -/
example : (shiftedDigits 31 3 false false).getD 2 0 = (shiftedDigits 7 2 false false).getD 1 0 :=
  child_digits_above 7 0 3 (by decide) false false 2 (by decide)

/-! ## T2: offsets -/

/-- `O_child − 2·O_parent` of the INTERNAL anchors (before the orientation stages) -/
def internalDeltaSet (inv fl : Bool) : List (Int × Int) :=
  match inv, fl with
  | false, false => [(0, 0), (1, 0), (0, 1), (1, 1), (2, 0), (-1, 1), (-1, 2), (-2, 1), (1, -1), (0, -1), (1, -2),
      (-1, 0), (-1, -1), (-2, 0), (2, -1)]
  | true, false => [(0, 0), (1, 0), (0, 1), (1, 1), (-1, 1), (-1, 2), (-2, 2), (2, -1), (1, -1), (0, -1), (1, -2),
      (-1, 0), (-1, -1), (2, -2), (-2, 1)]
  | false, true => [(0, 0), (1, 0), (0, 1), (1, 1), (1, 2), (-1, 1), (1, -1), (0, -1), (1, -2), (-1, 2), (-1, 0),
      (-1, -1), (-1, -2)]
  | true, true => [(0, 0), (1, 0), (0, 1), (1, 1), (-1, 1), (-1, 3), (1, -1), (0, -1), (1, -2), (-1, 2), (-1, 0),
      (-1, -1), (1, -3)]

/-- `O_child − 2·O_parent` of the anchors returned by `s_to_anchor` (after the `flipIJ` / `invertJ` stages).
Orientations 0, 1: `(false, false)`; 4, 5: `(true, false)`; 2, 3: `(false, true)`; `(true, true)` does not occur. -/
def childDeltaSet (inv fl : Bool) : List (Int × Int) :=
  match inv, fl with
  | false, false => [(0, 0), (1, 0), (0, 1), (1, 1), (2, 0), (-1, 1), (-1, 2), (-2, 1), (1, -1), (0, -1), (1, -2),
      (-1, 0), (-1, -1), (-2, 0), (2, -1)]
  | true, false => [(0, 0), (1, -1), (0, -1), (1, -2), (-1, 0), (-1, -1), (-2, 0), (2, -1), (1, 0), (0, 1), (1, 1),
      (-1, 1), (-1, 2), (2, 0), (-2, 1)]
  | false, true => [(0, 0), (1, 0), (0, 2), (2, 1), (-2, 2), (-1, 1), (0, 1), (1, -1), (0, -1), (-1, 0), (0, -2),
      (-2, -1), (2, -2)]
  | true, true => [(0, 0), (1, -1), (0, -2), (-1, 0), (0, -1), (1, 0), (0, 1), (-1, 1), (0, 2)]

theorem stepTriples_sets : ∀ inv fl : Bool, ∀ t ∈ stepTriples inv fl,
    t.1 ∈ internalDeltaSet inv fl ∧ finalDelta inv fl t ∈ childDeltaSet inv fl := by decide +kernel

/-- the two sets lie in the hexagon of radius `B = reachB fl` (2 for `PATTERN`, 3 for `PATTERN_FLIPPED`) -/
theorem deltaSets_hexLe : ∀ inv fl : Bool,
    (∀ v ∈ internalDeltaSet inv fl, HexLe (reachB fl) v) ∧ (∀ v ∈ childDeltaSet inv fl, HexLe (reachB fl) v) := by
  decide +kernel

/-- T2 (internal anchors `O_p`, `O_c` of `sToAnchorInternal`): for every depth `n`, position `s < 4^n`, child `d < 4`,
`invertJ` and pattern, `O_c − 2·O_p` is in the finite set, hence `|Δi|, |Δj|, |Δi + Δj| ≤ B`. -/
theorem child_offset_close_internal (s n d : Nat) (hs : s < 4 ^ n) (hd : d < 4) (inv fl : Bool) :
    let Op := (sToAnchorInternal s n inv fl).offset
    let Oc := (sToAnchorInternal (4 * s + d) (n + 1) inv fl).offset
    (Oc.1 - 2 * Op.1, Oc.2 - 2 * Op.2) ∈ internalDeltaSet inv fl ∧
      HexLe (reachB fl) (Oc.1 - 2 * Op.1, Oc.2 - 2 * Op.2) := by
  intro Op Oc
  have h := (stepTriples_sets inv fl _ (internal_step_mem s n d hs hd inv fl)).1
  exact ⟨h, (deltaSets_hexLe inv fl).1 _ h⟩

/-- T2 for the staged anchors `finalAnchor` (any combination of the two stages) -/
theorem child_offset_close_final (s n d : Nat) (hs : s < 4 ^ n) (hd : d < 4) (inv fl : Bool) :
    finalStep s n d inv fl ∈ childDeltaSet inv fl ∧ HexLe (reachB fl) (finalStep s n d inv fl) := by
  have h : finalStep s n d inv fl ∈ childDeltaSet inv fl := by
    rewrite [finalStep_eq]
    exact (stepTriples_sets inv fl _ (internal_step_mem s n d hs hd inv fl)).2
  exact ⟨h, (deltaSets_hexLe inv fl).2 _ h⟩

/-- position of the child after the optional reversal: the reversed curve visits the children in the order `3 - d` -/
theorem adjustS_child (rev : Bool) (n s d : Nat) (hs : s < 4 ^ n) (hd : d < 4) :
    adjustS rev (n + 1) (4 * s + d) = 4 * adjustS rev n s + (if rev then 3 - d else d) := by
  unfold adjustS
  cases rev <;> simp only [if_true, if_false, Bool.false_eq_true]
  rewrite [Nat.pow_succ]
  omega

/-- **T2 `child_offset_close`** (public `s_to_anchor`, all six orientations).  For every depth `n < 30`, orientation
`o < 6`, position `s < 4^n` and child `d < 4`: both anchors exist, and `O_child − 2·O_parent` lies in the explicit
finite set of the orientation, hence in the lattice hexagon of radius `B` (`B = 2`, or `3` for orientations 2, 3). -/
theorem child_offset_close (n o s d : Nat) (hn : n + 1 ≤ 30) (hs : s < 4 ^ n) (hd : d < 4) :
    ∃ ap ac, sToAnchor s n o = .ok ap ∧ sToAnchor (4 * s + d) (n + 1) o = .ok ac ∧
      (ac.offset.1 - 2 * ap.offset.1, ac.offset.2 - 2 * ap.offset.2) ∈ childDeltaSet (oriInvertJ o) (oriFlipIJ o) ∧
      HexLe (reachB (oriFlipIJ o)) (ac.offset.1 - 2 * ap.offset.1, ac.offset.2 - 2 * ap.offset.2) := by
  have hc := child_lt s n d hs hd
  refine ⟨_, _, sToAnchor_eq s n o (by omega) hs, sToAnchor_eq (4 * s + d) (n + 1) o hn hc, ?_⟩
  rewrite [adjustS_child _ n s d hs hd]
  exact child_offset_close_final (adjustS (oriReverse o) n s) n _ (adjustS_lt _ n s hs)
    (by split <;> omega) (oriInvertJ o) (oriFlipIJ o)

/-- the sets are exact: every listed vector occurs for some position at depth `≤ 3` (orientation classes that occur) -/
theorem childDeltaSet_exact : ∀ inv fl : Bool, ¬(fl = true ∧ inv = true) → ∀ v ∈ childDeltaSet inv fl,
    ∃ n ∈ List.range 4, ∃ s ∈ List.range (4 ^ n), ∃ d ∈ List.range 4, finalStep s n d inv fl = v := by
  decide +kernel

/-- non-vacuity and tightness of the bound `B`: orientation 0 attains hex norm 2, orientation 2 attains 3 -/
example : ∃ ap ac, sToAnchor 0 1 0 = .ok ap ∧ sToAnchor 3 2 0 = .ok ac ∧
    (ac.offset.1 - 2 * ap.offset.1, ac.offset.2 - 2 * ap.offset.2) = (2, 0) := ⟨_, _, rfl, rfl, by decide⟩
example : ∃ ap ac, sToAnchor 0 1 2 = .ok ap ∧ sToAnchor 3 2 2 = .ok ac ∧
    (ac.offset.1 - 2 * ap.offset.1, ac.offset.2 - 2 * ap.offset.2) = (2, 1) := ⟨_, _, rfl, rfl, by decide⟩
example : ¬ HexLe 2 ((2, 1) : Int × Int) := by decide
/-- instance of the theorem at a reversing, inverting orientation (4), depth 2 → 3 -/
example : ∃ ap ac, sToAnchor 11 2 4 = .ok ap ∧ sToAnchor 46 3 4 = .ok ac ∧
    HexLe 2 (ac.offset.1 - 2 * ap.offset.1, ac.offset.2 - 2 * ap.offset.2) := by
  obtain ⟨ap, ac, h1, h2, _, h4⟩ := child_offset_close 2 4 11 2 (by decide) (by decide) (by decide)
  exact ⟨ap, ac, h1, h2, h4⟩

/-! ## descendants -/

theorem adjustS_desc (rev : Bool) (n k s t : Nat) (hs : s < 4 ^ n) (ht : t < 4 ^ k) :
    adjustS rev (n + k) (s * 4 ^ k + t) = adjustS rev n s * 4 ^ k + adjustS rev k t := by
  unfold adjustS
  cases rev <;> simp only [if_true, if_false, Bool.false_eq_true]
  obtain ⟨r, hr⟩ : ∃ r, 4 ^ n = s + 1 + r := ⟨4 ^ n - s - 1, by omega⟩
  have e : 4 ^ n - s - 1 = r := by omega
  rewrite [e, Nat.pow_add, hr, Nat.add_mul, Nat.add_mul, Nat.one_mul]
  generalize s * 4 ^ k = a
  generalize r * 4 ^ k = b
  omega

/-- **Corollary `descendant_offset_bounded`** (public `s_to_anchor`, all six orientations).  For a descendant
`s·4^k + t` (`t < 4^k`) `k` levels below `s`: `|O_desc − 2^k·O_anc| ≤ B·(2^k − 1)` in each of the three lattice
coordinates `i`, `j`, `i + j`. -/
theorem descendant_offset_bounded (n k o s t : Nat) (hn : n + k ≤ 30) (hs : s < 4 ^ n) (ht : t < 4 ^ k) :
    ∃ aa ad, sToAnchor s n o = .ok aa ∧ sToAnchor (s * 4 ^ k + t) (n + k) o = .ok ad ∧
      HexLe (reachB (oriFlipIJ o) * (2 ^ k - 1))
        (ad.offset.1 - 2 ^ k * aa.offset.1, ad.offset.2 - 2 ^ k * aa.offset.2) := by
  have hd := desc_lt s n k t hs ht
  refine ⟨_, _, sToAnchor_eq s n o (by omega) hs, sToAnchor_eq _ (n + k) o hn hd, ?_⟩
  rewrite [adjustS_desc _ n k s t hs ht]
  exact final_descendant_bounded (adjustS (oriReverse o) n s) n (adjustS_lt _ n s hs) (oriInvertJ o) (oriFlipIJ o) k
    (adjustS (oriReverse o) k t) (adjustS_lt _ k t ht)

/-- instance: position 2 at depth 1 and its descendant `2·4^3 + 57` at depth 4, orientation 3 (reverse + flipIJ):
the bound is `3·(2^3 − 1) = 21` -/
example : ∃ aa ad, sToAnchor 2 1 3 = .ok aa ∧ sToAnchor 185 4 3 = .ok ad ∧
    HexLe 21 (ad.offset.1 - 8 * aa.offset.1, ad.offset.2 - 8 * aa.offset.2) := by
  obtain ⟨aa, ad, h1, h2, h3⟩ := descendant_offset_bounded 1 3 3 2 57 (by decide) (by decide) (by decide)
  exact ⟨aa, ad, h1, h2, h3⟩

/-! ## T3: lattice triangles -/

section field
variable {K : Type} [Field K] [LinearOrder K] [IsStrictOrderedRing K]

/-- every unit lattice triangle `T(F)` lies in the open unit hexagon -/
theorem inT_hex (F : Int × Int) (hF : IsFlip F) (u v : K) (h : InT F u v) :
    -1 < u ∧ u < 1 ∧ -1 < v ∧ v < 1 ∧ -1 < u + v ∧ u + v < 1 := by
  rcases hF with rfl | rfl | rfl | rfl
  · rewrite [inT_pp] at h; obtain ⟨a, b, c⟩ := h
    exact ⟨by linarith, by linarith, by linarith, by linarith, by linarith, by linarith⟩
  · rewrite [inT_pm] at h; obtain ⟨a, b, c, d, e⟩ := h
    exact ⟨by linarith, by linarith, by linarith, by linarith, by linarith, by linarith⟩
  · rewrite [inT_mp] at h; obtain ⟨a, b, c, d, e⟩ := h
    exact ⟨by linarith, by linarith, by linarith, by linarith, by linarith, by linarith⟩
  · rewrite [inT_mm] at h; obtain ⟨a, b, c, d, e⟩ := h
    exact ⟨by linarith, by linarith, by linarith, by linarith, by linarith, by linarith⟩

/-- **T3 `descendant_triangle_reach`.**  Let `aa` be the anchor of `s` (depth `n`) and `ad` the anchor of a descendant
`k` levels down.  Every point `(x, y)` of the descendant's lattice triangle (coordinates of depth `n + k`) satisfies
`|x − 2^k·O.i| < B·2^k`, `|y − 2^k·O.j| < B·2^k`, `|(x + y) − 2^k·(O.i + O.j)| < B·2^k` with `O = aa.offset`: scaled back
by `2⁻ᵏ` it lies in the open lattice hexagon of radius `B` about the ancestor's anchor vertex, for every `k`. -/
theorem descendant_triangle_reach (n k o s t : Nat) (hn : n + k ≤ 30) (ho : o < 6) (hs : s < 4 ^ n) (ht : t < 4 ^ k)
    (aa ad : Anchor) (ha : sToAnchor s n o = .ok aa) (hd : sToAnchor (s * 4 ^ k + t) (n + k) o = .ok ad)
    (x y : K) (h : anchorTri ad x y) :
    let B : K := ((reachB (oriFlipIJ o) : Int) : K);
    -(B * 2 ^ k) < x - 2 ^ k * (aa.offset.1 : K) ∧ x - 2 ^ k * (aa.offset.1 : K) < B * 2 ^ k ∧
    -(B * 2 ^ k) < y - 2 ^ k * (aa.offset.2 : K) ∧ y - 2 ^ k * (aa.offset.2 : K) < B * 2 ^ k ∧
    -(B * 2 ^ k) < x + y - 2 ^ k * ((aa.offset.1 : K) + (aa.offset.2 : K)) ∧
      x + y - 2 ^ k * ((aa.offset.1 : K) + (aa.offset.2 : K)) < B * 2 ^ k := by
  intro B
  obtain ⟨aa', ad', ha', hd', hb⟩ := descendant_offset_bounded n k o s t hn hs ht
  cases Outcome.ok.inj (ha.symm.trans ha')
  cases Outcome.ok.inj (hd.symm.trans hd')
  obtain ⟨ad'', hd'', hF, _⟩ := A5.locate_anchor K (n + k) o _ hn ho (desc_lt s n k t hs ht)
  cases Outcome.ok.inj (hd.symm.trans hd'')
  obtain ⟨t1, t2, t3, t4, t5, t6⟩ := inT_hex _ hF _ _ h
  obtain ⟨b1, b2, b3, b4, b5, b6⟩ := hb
  dsimp only at b1 b2 b3 b4 b5 b6
  have hB1 : (1 : K) ≤ B := by
    have : (1 : Int) ≤ reachB (oriFlipIJ o) := by unfold reachB; split <;> decide
    show (1 : K) ≤ ((reachB (oriFlipIJ o) : Int) : K)
    exact_mod_cast this
  have hpk : (0 : K) < 2 ^ k := by positivity
  have c1 := (Int.cast_le (R := K)).2 b1
  have c2 := (Int.cast_le (R := K)).2 b2
  have c3 := (Int.cast_le (R := K)).2 b3
  have c4 := (Int.cast_le (R := K)).2 b4
  have c5 := (Int.cast_le (R := K)).2 b5
  have c6 := (Int.cast_le (R := K)).2 b6
  push_cast at c1 c2 c3 c4 c5 c6
  change -(B * (2 ^ k - 1)) ≤ _ at c1
  change _ ≤ B * (2 ^ k - 1) at c2
  change -(B * (2 ^ k - 1)) ≤ _ at c3
  change _ ≤ B * (2 ^ k - 1) at c4
  change -(B * (2 ^ k - 1)) ≤ _ at c5
  change _ ≤ B * (2 ^ k - 1) at c6
  refine ⟨?_, ?_, ?_, ?_, ?_, ?_⟩ <;> nlinarith

/-- the ancestor's own triangle lies in the open hexagon of radius 1 about the same vertex -/
theorem own_triangle_reach (n o s : Nat) (hn : n ≤ 30) (ho : o < 6) (hs : s < 4 ^ n) (a : Anchor)
    (ha : sToAnchor s n o = .ok a) (x y : K) (h : anchorTri a x y) :
    -1 < x - (a.offset.1 : K) ∧ x - (a.offset.1 : K) < 1 ∧ -1 < y - (a.offset.2 : K) ∧ y - (a.offset.2 : K) < 1 ∧
      -1 < x - (a.offset.1 : K) + (y - (a.offset.2 : K)) ∧ x - (a.offset.1 : K) + (y - (a.offset.2 : K)) < 1 := by
  obtain ⟨a', ha', hF, _⟩ := A5.locate_anchor K n o s hn ho hs
  cases Outcome.ok.inj (ha.symm.trans ha')
  exact inT_hex _ hF _ _ h

/-- Lattice containment of the child in the parent is FALSE: in orientation 0 the triangle of child 3 (position 3,
depth 2, anchor `(2,0)`, flips `(1,-1)`) scaled by 1/2 is disjoint from the triangle of its parent (position 0,
depth 1, anchor `(0,0)`, flips `(1,1)`); the two share the edge `x + y = 2`. -/
theorem child_triangle_not_contained :
    sToAnchor 0 1 0 = .ok ⟨0, (0, 0), (1, 1)⟩ ∧ sToAnchor 3 2 0 = .ok ⟨0, (2, 0), (1, -1)⟩ ∧
    ∀ x y : K, anchorTri ⟨0, (2, 0), (1, -1)⟩ x y → ¬ anchorTri ⟨0, (0, 0), (1, 1)⟩ (x * (1 / 2)) (y * (1 / 2)) := by
  refine ⟨by decide, by decide, fun x y h hc => ?_⟩
  unfold anchorTri at h hc
  rewrite [inT_pm] at h
  rewrite [inT_pp] at hc
  obtain ⟨_, _, _, _, h5⟩ := h
  obtain ⟨_, _, c3⟩ := hc
  push_cast at h5 c3
  linarith

end field

/-- T3 instantiated over `ℚ`: the centroid of the triangle of position 185 (depth 4, orientation 3) is within the
radius-3 hexagon (scaled by `2^3`) about the anchor vertex of its ancestor 2 at depth 1 -/
example : ∃ aa ad, sToAnchor 2 1 3 = .ok aa ∧ sToAnchor 185 4 3 = .ok ad ∧
    ((ad.offset.1 : ℚ) + (interiorPt ad.flips).1) - 2 ^ 3 * (aa.offset.1 : ℚ) < 3 * 2 ^ 3 := by
  obtain ⟨aa, ad, h1, h2, _⟩ := descendant_offset_bounded 1 3 3 2 57 (by decide) (by decide) (by decide)
  obtain ⟨ad', h2', hF, _⟩ := A5.locate_anchor ℚ 4 3 185 (by decide) (by decide) (by decide)
  cases Outcome.ok.inj (h2.symm.trans h2')
  have := descendant_triangle_reach (K := ℚ) 1 3 3 2 57 (by decide) (by decide) (by decide) (by decide) aa ad h1 h2
    _ _ (anchorTri_nonempty ad hF)
  have e : ((reachB (oriFlipIJ 3) : Int) : ℚ) = 3 := by decide +kernel
  rewrite [e] at this
  exact ⟨aa, ad, h1, h2, this.2.1⟩

/-! ## T4-T6: the planar pentagon statements (exact arithmetic on the runtime constants) -/

open A5.PG A5.CP in
/-- T4. `child_centre_within_reach`: for every parent depth `n+1` (1..28), orientation, position and child, the child's
centre lies within `0.6491·√area` (hence `0.8·√area`) of the parent's centre, in the plane. -/
theorem child_centre_within_reach (n o s d : Nat) (hn : n + 2 ≤ 30) (ho : o < 6) (hs : s < 4 ^ (n + 1)) (hd : d < 4) :
    ∃ ap ac, sToAnchor s (n + 1) o = .ok ap ∧ sToAnchor (4 * s + d) (n + 2) o = .ok ac ∧
      centreDistSq ap ac < 4213 / 10000 * (areaG 0 (pentagonQ ap) / 2) ∧
      centreDistSq ap ac < 64 / 100 * (areaG 0 (pentagonQ ap) / 2) :=
  child_centre_reach n o s d hn ho hs hd

open A5.PG A5.CP in
/-- T4, sharpness: every orientation class has a parent/child pair with squared distance above `0.4212·area`. -/
theorem child_reach_sharp : ∀ inv fl : Bool, ¬(fl = true ∧ inv = true) → ∃ q ∈ finalQuads inv fl,
    4212 / 10000 * pentArea < reachSq q :=
  reach_table_sharp

open A5.PG A5.CP in
/-- T5. `child_overlaps_parent`: parent and child pentagons share a strictly interior point. -/
theorem child_overlaps_parent (n o s d : Nat) (hn : n + 2 ≤ 30) (ho : o < 6) (hs : s < 4 ^ (n + 1)) (hd : d < 4) :
    ∃ ap ac, sToAnchor s (n + 1) o = .ok ap ∧ sToAnchor (4 * s + d) (n + 2) o = .ok ac ∧
      ∃ w : ℚ × ℚ, StrictIn (pentagonQ ap) w ∧ StrictIn (scaleG' (pentagonQ ac) (1 / 2)) w :=
  A5.CP.child_overlaps_parent n o s d hn ho hs hd

open A5.PG A5.CP in
/-- T6. `children_cover_parent`: the four children together cover more than half (indeed more than 0.579) of the
parent's area - as a certificate of pairwise separated convex pieces inside parent ∩ child. -/
theorem children_cover_parent (n o s : Nat) (hn : n + 2 ≤ 30) (ho : o < 6) (hs : s < 4 ^ (n + 1)) :
    ∃ ap, sToAnchor s (n + 1) o = .ok ap ∧ ∃ kids : List Anchor, kids.length = 4 ∧
      (∀ d, d < 4 → sToAnchor (4 * s + d) (n + 2) o = .ok (kids.getD d default)) ∧
      ∃ pieces : List (List (ℚ × ℚ)),
        CoverCert (pentagonQ ap) (kids.map (fun ac => scaleG' (pentagonQ ac) (1 / 2))) pieces ∧
        579 / 1000 * areaG 0 (pentagonQ ap) < (pieces.map fanArea2).sum ∧
        1 / 2 * areaG 0 (pentagonQ ap) < (pieces.map fanArea2).sum :=
  A5.CP.children_cover_parent n o s hn ho hs

open A5.PG A5.CP in
/-- T4-T6 for the step from the quintant triangle (resolution 1) to its four children (resolution 2). -/
theorem root_children (o : Nat) (ho : o < 6) :
    (∀ d, d < 4 → ∃ ac, sToAnchor (4 * 0 + d) 1 o = .ok ac ∧ rootDistSq ac < 3773 / 10000 * (areaG 0 quintantTriQ / 2)) ∧
    ∃ kids : List Anchor, kids.length = 4 ∧ (∀ d, d < 4 → sToAnchor (4 * 0 + d) 1 o = .ok (kids.getD d default)) ∧
      (∀ ac ∈ kids, ∃ w : ℚ × ℚ, StrictIn quintantTriQ w ∧ StrictIn (scaleG' (pentagonQ ac) (1 / 2)) w) ∧
      ∃ pieces : List (List (ℚ × ℚ)),
        CoverCert quintantTriQ (kids.map (fun ac => scaleG' (pentagonQ ac) (1 / 2))) pieces ∧
        787 / 1000 * areaG 0 quintantTriQ < (pieces.map fanArea2).sum :=
  ⟨fun d hd => root_centre_reach o d ho hd, root_children_cover o ho⟩

/-! ## T7: all descendants, every depth -/

open A5.PG A5.CP A5.DR in
/-- T7. `descendants_within_reach`: for every ancestor at depth `n+1 ≥ 1`, every `k` with `n+1+k ≤ 30`, every descendant
`s·4^k + t`: (i) the squared distance between the descendant's centre (scaled by `2^-k` into the ancestor's frame) and the
ancestor's centre is at most `0.4213·area·(2 - 2/2^k)²` - the exact geometric series - hence `< (1.2982)²·area`; (ii) every
point of the convex hull of the descendant's pentagon, scaled the same way, lies within `1.2982·√area` of the ancestor's
centre. -/
theorem descendants_within_reach (n k o s t : Nat) (hn : n + 1 + k ≤ 30) (ho : o < 6) (hs : s < 4 ^ (n + 1))
    (ht : t < 4 ^ k) :
    (∃ ap ad, sToAnchor s (n + 1) o = .ok ap ∧ sToAnchor (s * 4 ^ k + t) (n + 1 + k) o = .ok ad ∧
      descDistSq k ap ad ≤ 4213 / 10000 * (areaG 0 (pentagonQ ap) / 2) * ((2 - 2 / 2 ^ k) * (2 - 2 / 2 ^ k)) ∧
      descDistSq k ap ad < 169 / 100 * (areaG 0 (pentagonQ ap) / 2)) ∧
    (∃ ap ad, sToAnchor s (n + 1) o = .ok ap ∧ sToAnchor (s * 4 ^ k + t) (n + 1 + k) o = .ok ad ∧
      ∀ p, InHull (pentagonQ ad) p →
        distSq (scaleDown k p) (centreQ ap) < 16854 / 10000 * (areaG 0 (pentagonQ ap) / 2) ∧
        planeDist (scaleDown k p) (centreQ ap) < 12982 / 10000 * Real.sqrt ((areaG 0 (pentagonQ ap) / 2 : ℚ) : ℝ)) := by
  constructor
  · obtain ⟨ap, ad, h1, h2, h3⟩ := descendant_centre_reach_series n k o s t hn ho hs ht
    obtain ⟨ap', ad', h1', h2', _, h4⟩ := descendant_centre_reach n k o s t hn ho hs ht
    cases Outcome.ok.inj (h1.symm.trans h1')
    cases Outcome.ok.inj (h2.symm.trans h2')
    exact ⟨ap, ad, h1, h2, h3, h4⟩
  · obtain ⟨ap, ad, h1, h2, h3⟩ := descendant_pentagon_reach n k o s t hn ho hs ht
    exact ⟨ap, ad, h1, h2, fun p hp => ⟨(h3 p hp).2.1, (h3 p hp).2.2⟩⟩

end A5.C12
