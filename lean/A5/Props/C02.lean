import A5.Props.C17
import A5.Props.C05
import A5.Model.CellGeo
/-! # C02 — a cell's centre and every interior point map back to that cell (exact-arithmetic skeleton)

"A cell's centre and every interior point map back to that cell."

The public round trip is `cell_to_lonlat` (`deserialize` → `s_to_anchor` → pentagon → centre → inverse projection)
followed by `lonlat_to_cell` (projection → quintant → lattice coordinates → `ij_to_s` → `serialize`).  This file
composes the two exact halves that are already proved — the codec (C05) and the curve (C17) — over an arbitrary
linearly ordered field `K`, for EVERY valid cell of a curve resolution `2 ≤ r ≤ 29` and EVERY orientation code
`o < 6` (the orientation is a table function of face and segment; we quantify over all six):

* T1 `cell_roundtrip_exact`: `id → cell → anchor → ANY point of the cell's lattice triangle → curve position → id`
  is the identity; `id_roundtrip_exact` is the same starting from an arbitrary id in the documented layout.
* `cells_disjoint_triangles`: two cells of one quintant and resolution whose lattice triangles share a point are equal.
* `segment_quintant_roundtrip`: the two table conversions segment ↔ (quintant, orientation) used by the two directions
  are mutually inverse and name the same orientation (for every origin record with `firstQuintant < 5`).

The `Float` skeleton of the lookup (T2 `lookup_direct_hit_is_roundtrip`, `roundtrip_of_direct_hit`) is in
`A5/Lemmas/C02Lookup.lean`; it cannot be imported here because `A5.Lemmas.LookupSkel` and `A5.Lemmas.HilbertOrient`
declare two lemmas with the same names.

* T1c `centre_roundtrip_exact`: the exact centre of the pentagon `get_pentagon_vertices` draws from the library's
  start-up constants (`A5.Gen.Runtime`, exact rationals) lies in the cell's lattice triangle (margin > 0.14), so the
  chain `id → pentagon centre → ij_to_s → serialize` returns the id in exact arithmetic.

NOT proved (float residue, kept as `centre_roundtrip_statement` / `centre_in_triangle_statement`): that the `f64`
evaluation of that centre, pushed through the inverse and the forward projection, stays within the 0.14 margin of
`anchorTri a` and in the same face and quintant.  Interior points in the parts of a pentagon that stick out of its lattice triangle
are found by the probe search, not by the direct branch; they stay with the differential search. -/
set_option linter.unusedSectionVars false
namespace A5.C02
open A5 A5.HilbertLocate

/-- the integer facts about a valid cell of a curve resolution -/
theorem valid_hilbert (c : Cell) (hv : c.Valid) (h2 : 2 ≤ c.res) :
    c.res ≤ 29 ∧ c.origin < 12 ∧ c.segment < 5 ∧ c.s < 4 ^ (c.res - 1).toNat ∧ (c.res - 1).toNat ≤ 28 := by
  rcases hv with ⟨h, _⟩ | ⟨h, _⟩ | ⟨h, _⟩ | ⟨_, h29, ho, hs, hlt⟩
  · omega
  · omega
  · omega
  · exact ⟨h29, ho, hs, hlt, by omega⟩

section field
variable (K : Type) [Field K] [LinearOrder K] [IsStrictOrderedRing K]

/-- **T1 `cell_roundtrip_exact`.**  For every valid cell `c` of a curve resolution and every orientation `o < 6`, with
`id = encNat c` and `n = res − 1`:  the id decodes to `c`; `s_to_anchor c.s n o` succeeds with an anchor `a` whose lattice
triangle is non-empty; and for EVERY point `(x, y)` of that triangle `ij_to_s` (exact arithmetic) returns `c.s`, so that
re-encoding (face, segment, located position, resolution) gives back `id`. -/
theorem cell_roundtrip_exact (c : Cell) (hv : c.Valid) (h2 : 2 ≤ c.res) (o : Nat) (ho : o < 6) :
    deserialize (encNat c) = .ok c ∧
    ∃ a, sToAnchor c.s (c.res - 1).toNat o = .ok a ∧ IsFlip a.flips ∧
      anchorTri a ((a.offset.1 : K) + (interiorPt a.flips).1) ((a.offset.2 : K) + (interiorPt a.flips).2) ∧
      ∀ x y : K, anchorTri a x y →
        ijToS fieldLits x y (c.res - 1).toNat o = .ok c.s ∧
        (ijToS fieldLits x y (c.res - 1).toNat o >>= fun s' => serialize ⟨c.origin, c.segment, s', c.res⟩) =
          .ok (encNat c) := by
  obtain ⟨_, _, _, hlt, hn⟩ := valid_hilbert c hv h2
  obtain ⟨a, ha, hF, hloc⟩ := C17.locate_anchor K (c.res - 1).toNat o c.s (by omega) ho hlt
  refine ⟨deserialize_enc c hv, a, ha, hF, anchorTri_nonempty a hF, fun x y h => ⟨hloc x y h, ?_⟩⟩
  rewrite [hloc x y h]
  simp only [Outcome.bind_ok]
  exact serialize_valid c hv

/-- T1 starting from an id: every id in the documented layout whose resolution is a curve resolution decodes to a
valid cell, and the chain of T1 returns the id itself. -/
theorem id_roundtrip_exact (id : Nat) (hl : Layout id) (h2 : 2 ≤ getResolution id) (o : Nat) (ho : o < 6) :
    ∃ c, deserialize id = .ok c ∧ c.Valid ∧ c.res = getResolution id ∧
      ∃ a, sToAnchor c.s (c.res - 1).toNat o = .ok a ∧
        ∀ x y : K, anchorTri a x y →
          (ijToS fieldLits x y (c.res - 1).toNat o >>= fun s' => serialize ⟨c.origin, c.segment, s', c.res⟩) = .ok id := by
  obtain ⟨c, hv, hd, he⟩ := deserialize_layout id hl
  have hr : c.res = getResolution id := by rewrite [← he]; exact (getResolution_enc c hv).symm
  obtain ⟨_, a, ha, _, _, h⟩ := cell_roundtrip_exact K c hv (by omega) o ho
  refine ⟨c, hd, hv, hr, a, ha, fun x y hxy => ?_⟩
  rewrite [(h x y hxy).2, he]
  rfl

/-- Distinct cells of one quintant (same face, segment, resolution, hence same orientation) have disjoint lattice
triangles: if the triangles share a point, the cells are equal. -/
theorem cells_disjoint_triangles (c c' : Cell) (hv : c.Valid) (hv' : c'.Valid) (h2 : 2 ≤ c.res)
    (ho : c.origin = c'.origin) (hs : c.segment = c'.segment) (hr : c.res = c'.res) (o : Nat) (hoo : o < 6)
    (a a' : Anchor) (ha : sToAnchor c.s (c.res - 1).toNat o = .ok a) (ha' : sToAnchor c'.s (c.res - 1).toNat o = .ok a')
    (x y : K) (hx : anchorTri a x y) (hx' : anchorTri a' x y) : c = c' := by
  obtain ⟨_, _, _, hlt, hn⟩ := valid_hilbert c hv h2
  obtain ⟨_, _, _, hlt', _⟩ := valid_hilbert c' hv' (by omega)
  rewrite [← hr] at hlt'
  have := C17.triangles_disjoint K (c.res - 1).toNat o c.s c'.s (by omega) hoo hlt hlt' a a' ha ha' x y hx hx'
  obtain ⟨o1, s1, p1, r1⟩ := c
  obtain ⟨o2, s2, p2, r2⟩ := c'
  simp only at ho hs hr this
  subst ho hs hr this
  rfl

end field

/-- **T1c `centre_roundtrip_exact`.**  The centre clause of the property in exact arithmetic, for the pentagon built
from the constants the library really uses (`A5.Gen.Runtime`): for every valid cell of a curve resolution and every
orientation, the exact centre of the cell's pentagon (`get_center` then `face_to_ij`, lattice frame of the quintant)
lies strictly inside the cell's lattice triangle, `ij_to_s` locates it at the cell's own position, and re-encoding
returns the cell's id.  (What remains for `centre_roundtrip_statement` is float rounding and the projection pair.) -/
theorem centre_roundtrip_exact (c : Cell) (hv : c.Valid) (h2 : 2 ≤ c.res) (o : Nat) (ho : o < 6) :
    ∃ a, sToAnchor c.s (c.res - 1).toNat o = .ok a ∧
      anchorTri a (PG.centreIJ a).1 (PG.centreIJ a).2 ∧
      (ijToS fieldLits (PG.centreIJ a).1 (PG.centreIJ a).2 (c.res - 1).toNat o >>=
        fun s' => serialize ⟨c.origin, c.segment, s', c.res⟩) = .ok (encNat c) := by
  obtain ⟨_, _, _, hlt, hn⟩ := valid_hilbert c hv h2
  obtain ⟨a, ha, hc⟩ := C17.centre_in_anchor_triangle (c.res - 1).toNat o c.s (by omega) ho hlt
  obtain ⟨_, a', ha', _, _, h⟩ := cell_roundtrip_exact ℚ c hv h2 o ho
  cases Outcome.ok.inj (ha.symm.trans ha')
  exact ⟨a, ha, hc, (h _ _ hc).2⟩

/-! ## the two table conversions agree -/

/-- `segment_to_quintant` undoes `quintant_to_segment` and reports the same orientation: the orientation used by
`get_pentagon` for the cell `(face, segment)` is the one `lonlat_to_estimate` used when it produced that segment. -/
theorem segment_quintant_roundtrip (og : Origin) (hf : og.firstQuintant < 5) (q : Nat) (hq : q < 5) :
    segmentToQuintant (quintantToSegment q og).1 og = (q, (quintantToSegment q og).2) := by
  obtain ⟨id, th, ph, qu, iq, an, ori, f⟩ := og
  simp only at hf
  unfold segmentToQuintant quintantToSegment
  simp only []
  generalize isLayoutClockwise ori = b
  have hc : f = 0 ∨ f = 1 ∨ f = 2 ∨ f = 3 ∨ f = 4 := by omega
  have hc' : q = 0 ∨ q = 1 ∨ q = 2 ∨ q = 3 ∨ q = 4 := by omega
  rcases hc with rfl | rfl | rfl | rfl | rfl <;> rcases hc' with rfl | rfl | rfl | rfl | rfl <;> cases b <;> rfl

/-- and conversely on segments -/
theorem quintant_segment_roundtrip (og : Origin) (hf : og.firstQuintant < 5) (seg : Nat) (hs : seg < 5) :
    quintantToSegment (segmentToQuintant seg og).1 og = (seg, (segmentToQuintant seg og).2) := by
  obtain ⟨id, th, ph, qu, iq, an, ori, f⟩ := og
  simp only at hf
  unfold segmentToQuintant quintantToSegment
  simp only []
  generalize isLayoutClockwise ori = b
  have hc : f = 0 ∨ f = 1 ∨ f = 2 ∨ f = 3 ∨ f = 4 := by omega
  have hc' : seg = 0 ∨ seg = 1 ∨ seg = 2 ∨ seg = 3 ∨ seg = 4 := by omega
  rcases hc with rfl | rfl | rfl | rfl | rfl <;> rcases hc' with rfl | rfl | rfl | rfl | rfl <;> cases b <;> rfl

/-! ## the float residue -/

/-- Intended full statement for the centre (NOT proved; float-dependent): `lonlat_to_cell ∘ cell_to_lonlat = id` on
every valid cell. -/
def centre_roundtrip_statement : Prop :=
  ∀ (c : Cell), c.Valid → ∀ lon lat : Float, cellToLonLat (encNat c) = .ok (lon, lat) →
    lonlatToCell lon lat c.res = .ok (encNat c)

/-- The numeric fact that would close the gap for curve resolutions (NOT proved): the estimate of the computed centre is
the cell itself — i.e. the `f64` centre of `getPentagonVertices`, after the inverse and forward projection, lies in the
cell's own face, quintant and (with the margin absorbing the rounding of `ij_to_s`) lattice triangle — and the model's
own containment test accepts it.  Together with `A5.C02L.roundtrip_of_direct_hit` (`A5/Lemmas/C02Lookup.lean`) this
implies `centre_roundtrip_statement` for `2 ≤ res`. -/
def centre_in_triangle_statement : Prop :=
  ∀ (c : Cell), c.Valid → 2 ≤ c.res → ∀ lon lat : Float, cellToLonLat (encNat c) = .ok (lon, lat) →
    lonlatToEstimate lon lat c.res = .ok c ∧ ∃ d, cellContainsPoint c lon lat = .ok d ∧ d > 0.0

/-! ## non-vacuity -/

/-- T1 on the concrete cell `⟨7, 3, 0x2d, 4⟩` (resolution 4, depth 3, position 45), orientation 3 -/
example : (⟨7, 3, 0x2d, 4⟩ : Cell).Valid := by decide
example : ∃ a, sToAnchor 0x2d 3 3 = .ok a ∧
    ∀ x y : ℚ, anchorTri a x y →
      (ijToS fieldLits x y 3 3 >>= fun s' => serialize ⟨7, 3, s', 4⟩) = .ok 0x92d8000000000000 := by
  obtain ⟨_, a, ha, _, _, h⟩ := cell_roundtrip_exact ℚ ⟨7, 3, 0x2d, 4⟩ (by decide) (by decide) 3 (by decide)
  have e : encNat ⟨7, 3, 0x2d, 4⟩ = 0x92d8000000000000 := by decide
  rewrite [e] at h
  exact ⟨a, ha, fun x y hxy => (h x y hxy).2⟩

/-- the anchor of that cell and a concrete interior point, evaluated independently of the theorem -/
example : sToAnchor 0x2d 3 3 = .ok ⟨2, (0, 3), (-1, 1)⟩ := by decide
example : ijToS fieldLits (1 / 3 : ℚ) (7 / 3) 3 3 = .ok 0x2d := by decide +kernel

/-- `id_roundtrip_exact`'s hypotheses on a concrete id -/
example : Layout 0x92d8000000000000 ∧ 2 ≤ getResolution 0x92d8000000000000 := by
  have e : encNat ⟨7, 3, 0x2d, 4⟩ = 0x92d8000000000000 := by decide
  have hv : (⟨7, 3, 0x2d, 4⟩ : Cell).Valid := by decide
  have h1 := layout_enc _ hv
  have h2 := getResolution_enc _ hv
  rewrite [e] at h1 h2
  exact ⟨h1, by rewrite [h2]; decide⟩

/-- `segment_quintant_roundtrip` applies to all twelve origin records of the model -/
theorem origins_firstQuintant_lt : ∀ o, o < 12 → (originAt o).firstQuintant < 5 := by decide

example (q : Nat) (hq : q < 5) :
    segmentToQuintant (quintantToSegment q (originAt 7)).1 (originAt 7) = (q, (quintantToSegment q (originAt 7)).2) :=
  segment_quintant_roundtrip _ (origins_firstQuintant_lt 7 (by decide)) q hq

end A5.C02
