import A5.Lemmas.CompactMax
/-! # C10 — `compact` returns the canonical description of the covered region

Model: `A5.compact`, `A5.compactScan`, `A5.hierarchyKey`, `A5.compactV062` (`A5/Model/Compact.lean`, Rust
`src/core/compact.rs`).  Spec: the cell tree `Path` (`A5/Spec/Tree.lean`), and the pure tree notions of
`A5/Lemmas/Canonical.lean`:

    Below p q          p is q or an ancestor of q
    Antichain A        no two distinct members comparable (cells do not overlap)
    SameRegion A B     A and B cover the same cells of the finest resolution 29
    NoCompleteGroup A  no cell (resolution ≤ 28) has all of its children in A
                       (all 12 base cells / all 5 quintants of a face / all 4 children of a finer cell)

Inputs are the ids `A.map enc` of an arbitrary list `A` of well-formed cells (`WF`; by `layout_iff_path` these are
exactly the canonical ids), in any order, repetitions allowed, pairwise non-overlapping (`Antichain A`).
Nothing is assumed about the other person's lemmas: region preservation, termination and the recognition of
sibling groups are proved in `A5/Lemmas/CompactMax*.lean`. -/
namespace A5.C10
open A5 A5.Path A5.Canonical A5.CompactMax

/-- strictly increasing `hierarchyKey` along the id list -/
def SortedByKey (ids : List Nat) : Prop := (ids.map hierarchyKey).Pairwise (· < ·)

theorem sortedByKey_iff {L : List Path} (hwf : ∀ p ∈ L, WF p) : SortedByKey (L.map enc) ↔ KeySorted L := by
  unfold SortedByKey; rw [keyMap_eq hwf, keySorted_iff_map]

/-- Inputs: every list of canonical ids (`Layout`) is the id list `A.map enc` of a list of well-formed cells,
so the theorems below, stated for `A.map enc`, cover all lists of canonical ids. -/
theorem canonical_ids_are_paths (ids : List Nat) (h : ∀ x ∈ ids, Layout x) :
    ∃ A : List Path, A.map enc = ids ∧ ∀ p ∈ A, WF p :=
  exists_paths ids (fun x hx => exists_path_of_layout x (h x hx))

/-- T0 (pure tree theory, `canonical_unique`).  Two non-overlapping sets of cells without complete sibling group
covering the same region have the same members. -/
theorem canonical_cover_unique {A B : List Path} (hwfA : ∀ p ∈ A, WF p) (hwfB : ∀ p ∈ B, WF p)
    (hA : Antichain A) (hB : Antichain B) (hmA : NoCompleteGroup A) (hmB : NoCompleteGroup B)
    (h : SameRegion A B) : ∀ p, p ∈ A ↔ p ∈ B :=
  canonical_unique hwfA hwfB hA hB hmA hmB h

/-- T1.  In the id list of an antichain of cells that is strictly sorted by `hierarchyKey`, if all children of
some cell `P` are present then they occupy consecutive positions, in child order starting with the first child. -/
theorem sorted_antichain_siblings_adjacent (L : List Path) (hwf : ∀ p ∈ L, WF p) (hanti : Antichain L)
    (hsorted : SortedByKey (L.map enc)) (P : Path) (hP : WF P) (hr : res P ≤ 28)
    (hall : ∀ c ∈ children P, c ∈ L) :
    ∃ pre post, L.map enc = pre ++ (children P).map enc ++ post := by
  obtain ⟨pre, post, h⟩ := siblings_adjacent ⟨hwf, hanti, (sortedByKey_iff hwf).1 hsorted⟩ hP hr hall
  exact ⟨pre.map enc, post.map enc, by rw [h, List.map_append, List.map_append]⟩

/-- T2.  One scan of the loop, on the ids of a key-sorted antichain: it never fails; its output is again the id
list of a key-sorted antichain ("no re-sorting needed") covering the same region; if it reports a change the list
got shorter, and if it reports no change the list is returned as it is and contains no complete sibling group. -/
theorem pass_keeps_antichain (L : List Path) (hwf : ∀ p ∈ L, WF p) (hanti : Antichain L)
    (hsorted : SortedByKey (L.map enc)) :
    ∃ L' changed, compactScan (L.map enc) 0 = .ok (L'.map enc, changed) ∧
      (∀ p ∈ L', WF p) ∧ Antichain L' ∧ SortedByKey (L'.map enc) ∧ SameRegion L L' ∧
      (changed = true → L'.length < L.length) ∧ (changed = false → L' = L ∧ NoCompleteGroup L) := by
  have hi : Inv L := ⟨hwf, hanti, (sortedByKey_iff hwf).1 hsorted⟩
  obtain ⟨hm, _, hlt⟩ := pscan_spec L.length L (Nat.le_refl _) hwf
  have hi' := hm.inv hi
  refine ⟨(pscan L 0).1, (pscan L 0).2, compactScan_enc L 0 hwf, hi'.wf, hi'.anti,
    (sortedByKey_iff hi'.wf).2 hi'.sorted, hm.sameRegion, hlt, ?_⟩
  intro hch
  obtain ⟨hnh, he⟩ := noHead_of_pscan L hch
  exact ⟨he, noCompleteGroup_of_noHead hi hnh⟩

/-- MAIN.  `compact` on the ids of a non-overlapping set of cells succeeds, and its result is the id list of a
set `R` of cells that is non-overlapping, strictly sorted by `hierarchyKey`, covers the same region, and contains
no complete sibling group. -/
theorem compact_spec (A : List Path) (hwf : ∀ p ∈ A, WF p) (hanti : Antichain A) :
    ∃ R, compact (A.map enc) = .ok (R.map enc) ∧ (∀ p ∈ R, WF p) ∧ Antichain R ∧ SortedByKey (R.map enc) ∧
      SameRegion A R ∧ NoCompleteGroup R := by
  obtain ⟨R, h1, h2, h3, h4⟩ := CompactMax.compact_spec A hwf hanti
  exact ⟨R, h1, h2.wf, h2.anti, (sortedByKey_iff h2.wf).2 h2.sorted, h3, h4⟩

/-- T3.  The compacted result of a non-overlapping set of cells never contains a complete sibling group. -/
theorem compact_maximal (A : List Path) (hwf : ∀ p ∈ A, WF p) (hanti : Antichain A) (out : List Nat)
    (h : compact (A.map enc) = .ok out) :
    ¬ ∃ P, WF P ∧ res P ≤ 28 ∧ ∀ c ∈ children P, enc c ∈ out := by
  obtain ⟨R, h1, h2, _, _, _, h6⟩ := compact_spec A hwf hanti
  rw [h1] at h
  cases Outcome.ok.inj h
  rintro ⟨P, hP, hr, hall⟩
  apply h6
  refine ⟨P, hP, hr, fun c hc => ?_⟩
  obtain ⟨q, hq, e⟩ := List.mem_map.1 (hall c hc)
  rw [← enc_injective (h2 q hq) (wf_children hP (by omega) hc) e]; exact hq

/-- T4.  Compacting the result again changes nothing. -/
theorem compact_idempotent (A : List Path) (hwf : ∀ p ∈ A, WF p) (hanti : Antichain A) :
    (compact (A.map enc) >>= compact) = compact (A.map enc) := by
  obtain ⟨R, h1, h2, _, h4⟩ := CompactMax.compact_spec A hwf hanti
  rw [h1]
  simp only [Outcome.bind_ok]
  exact compact_fixed R h2 h4

theorem map_enc_injective : ∀ (R S : List Path), (∀ p ∈ R, WF p) → (∀ p ∈ S, WF p) → R.map enc = S.map enc → R = S := by
  intro R
  induction R with
  | nil => intro S _ _ h; cases S with
    | nil => rfl
    | cons _ _ => simp at h
  | cons a R ih =>
    intro S hR hS h
    cases S with
    | nil => simp at h
    | cons b S =>
      simp only [List.map_cons] at h
      injection h with h1 h2
      rw [enc_injective (hR a (List.mem_cons_self ..)) (hS b (List.mem_cons_self ..)) h1,
        ih S (fun p hp => hR p (List.mem_cons_of_mem _ hp)) (fun p hp => hS p (List.mem_cons_of_mem _ hp)) h2]

/-- T5.  Two non-overlapping inputs that cover the same region compact to the same list: the compacted list is
a canonical description of the region. -/
theorem compact_canonical (A B : List Path) (hwfA : ∀ p ∈ A, WF p) (hwfB : ∀ p ∈ B, WF p)
    (hA : Antichain A) (hB : Antichain B) (h : SameRegion A B) :
    compact (A.map enc) = compact (B.map enc) := by
  obtain ⟨R, r1, r2, r3, r4⟩ := CompactMax.compact_spec A hwfA hA
  obtain ⟨S, s1, s2, s3, s4⟩ := CompactMax.compact_spec B hwfB hB
  have hRS : SameRegion R S := sameRegion_trans (sameRegion_symm r3) (sameRegion_trans h s3)
  have hmem := canonical_unique r2.wf s2.wf r2.anti s2.anti r4 s4 hRS
  have hperm : R.Perm S := (List.perm_ext_iff_of_nodup (keySorted_nodup r2.sorted) (keySorted_nodup s2.sorted)).2 hmem
  have : R = S := List.Perm.eq_of_pairwise (le := fun a b => pkey a < pkey b)
    (fun a b _ _ h1 h2 => by omega) r2.sorted s2.sorted hperm
  rw [r1, s1, this]

/-- T5'.  Conversely, equal results mean equal regions: `compact` decides "same region". -/
theorem compact_eq_iff_sameRegion (A B : List Path) (hwfA : ∀ p ∈ A, WF p) (hwfB : ∀ p ∈ B, WF p)
    (hA : Antichain A) (hB : Antichain B) :
    compact (A.map enc) = compact (B.map enc) ↔ SameRegion A B := by
  refine ⟨fun h => ?_, compact_canonical A B hwfA hwfB hA hB⟩
  obtain ⟨R, r1, r2, r3, _⟩ := CompactMax.compact_spec A hwfA hA
  obtain ⟨S, s1, s2, s3, _⟩ := CompactMax.compact_spec B hwfB hB
  rw [r1, s1] at h
  have := map_enc_injective R S r2.wf s2.wf (Outcome.ok.inj h)
  rw [this] at r3
  exact sameRegion_trans r3 (sameRegion_symm s3)

/-! ## the pinned release (v0.6.2) violated maximality: kernel-checked witness

Input: the five quintants of base cell 0 followed by base cells 1..11 (non-overlapping, together the whole
sphere).  The pinned algorithm sorts by raw id, which interleaves the quintants with the other base cells, finds
no group and returns all 16 cells; the repaired algorithm returns the world cell. -/

/-- quintant `k` of face 0 has id `(5·0+k)·2^58 + 2^56`, base cell `f` has id `f·2^58 + 2^57` -/
def witnessInput : List Nat :=
  (List.range 5).map (fun k => (5 * 0 + k) * 2 ^ 58 + 2 ^ 56) ++ (List.range 11).map (fun f => (f + 1) * 2 ^ 58 + 2 ^ 57)

example : witnessInput = (children (face 0) ++ (List.range 11).map (fun f => face (f + 1))).map enc := by decide

example : compactV062 witnessInput = .ok
    [72057594037927936, 360287970189639680, 432345564227567616, 648518346341351424, 720575940379279360,
     936748722493063168, 1008806316530991104, 1224979098644774912, 1297036692682702848, 1585267068834414592,
     1873497444986126336, 2161727821137838080, 2449958197289549824, 2738188573441261568, 3026418949592973312,
     3314649325744685056] := by decide +kernel

/-- … 16 cells, a rearrangement of the input: nothing was merged although the five quintants are a complete group -/
example : (match compactV062 witnessInput with
    | .ok out => out.length == 16 && out.isPerm witnessInput
    | _ => false) = true := by decide +kernel

example : compact witnessInput = .ok [0] := by decide +kernel

/-! ## non-vacuity -/

/-- an unordered, repeating, non-overlapping input: the four children of a resolution-2 cell and a base cell -/
def exampleInput : List Path :=
  [deep 3 2 [1, 3], deep 3 2 [1, 0], face 7, deep 3 2 [1, 2], deep 3 2 [1, 1], deep 3 2 [1, 1]]

example : (∀ p ∈ exampleInput, WF p) ∧ Antichain exampleInput := by decide
example : compact (exampleInput.map enc) = .ok ([deep 3 2 [1], face 7].map enc) := by decide +kernel
example : (compact (exampleInput.map enc) >>= compact) = compact (exampleInput.map enc) :=
  compact_idempotent _ (by decide) (by decide)

/-- T1/T2 hypotheses: a key-sorted antichain containing a complete group -/
def exampleSorted : List Path := [deep 3 2 [1, 0], deep 3 2 [1, 1], deep 3 2 [1, 2], deep 3 2 [1, 3], face 7]

example : (∀ p ∈ exampleSorted, WF p) ∧ Antichain exampleSorted ∧ SortedByKey (exampleSorted.map enc) ∧
    WF (deep 3 2 [1]) ∧ res (deep 3 2 [1]) ≤ 28 ∧ ∀ c ∈ children (deep 3 2 [1]), c ∈ exampleSorted := by
  refine ⟨by decide, by decide, ?_, by decide, by decide, by decide⟩
  rw [sortedByKey_iff (by decide)]
  unfold KeySorted
  decide +kernel

/-- T5 hypotheses: two different descriptions of the same region (base cell 0 as five quintants or as one cell) -/
example : SameRegion (children (face 0)) [face 0] :=
  sameRegion_merge (P := face 0) (by decide) (fun _ h => h) (by
    intro m; simp only [List.mem_singleton]
    exact ⟨fun h => Or.inl h, fun h => h.elim id (fun ⟨h1, h2⟩ => absurd h1 h2)⟩)

example : compact ((children (face 0)).map enc) = compact ([face 0].map enc) :=
  compact_canonical _ _ (by decide) (by decide) (by decide) (by decide)
    (sameRegion_merge (P := face 0) (by decide) (fun _ h => h) (by
      intro m; simp only [List.mem_singleton]
      exact ⟨fun h => Or.inl h, fun h => h.elim id (fun ⟨h1, h2⟩ => absurd h1 h2)⟩))

end A5.C10
