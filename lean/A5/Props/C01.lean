import A5.Lemmas.LookupSkel
import A5.Model.DistanceG
import A5.Lemmas.DistanceOutside
/-! # C01 — point-to-cell lookup: resolution of the answer, error behaviour, soundness of a hit

"For every point and every resolution −1..29 the point-to-cell lookup succeeds and returns a cell of
exactly that resolution …"

Model: `A5.lonlatToCell`, `A5.lonlatToCellB` (same function, with the branch tag), `A5.lonlatToEstimate`,
`A5.cellContainsPoint`, `A5.lookupLoop` (`A5/Model/CellGeo.lean`).  All coordinates are IEEE doubles
computed through libm; nothing numeric is provable about them, so every theorem below holds for
*arbitrary* float sub-results and speaks about the integer skeleton: which outcomes are possible, the
layout/resolution of the returned id, and what the model itself has checked about the returned cell.

NOT proved here (float-dependent; left to the differential correspondence check and the search):
that the lookup *succeeds* — two failure modes survive at the skeleton level, see `lookup_outcomes` —
and that the returned cell geometrically contains the point. -/
namespace A5.C01
open A5

/-- GENERAL encoder lemma.  Whenever `serialize` succeeds on a cell naming a real face (`origin < 12`)
and a real quintant (`segment < 5`), the id is in the documented layout and carries the cell's
resolution, which is in −1..29.  The ignored fields (`segment`, `s` at resolution 0; `s` at resolution 1)
need not be normalised, and a curve position that does not fit is an error, never a wrapped id. -/
theorem serialize_ok_layout (c : Cell) (id : Nat) (h : serialize c = .ok id) (ho : c.origin < 12)
    (hs : c.segment < 5) : Layout id ∧ getResolution id = c.res ∧ -1 ≤ c.res ∧ c.res ≤ 29 :=
  A5.serialize_ok_layout c id h ho hs

/-- T1. For EVERY `lon lat : Float` (NaN and ±∞ included) and EVERY `r : Int`: if the lookup returns an
id, the id is in the documented layout and its resolution is exactly `r`; for `r = −1` it is the world
cell 0.  (For `r` outside −1..29 the hypothesis is never met, see `lookup_out_of_range`.) -/
theorem lookup_resolution (lon lat : Float) (r : Int) (id : Nat) (h : lonlatToCell lon lat r = .ok id) :
    getResolution id = r ∧ Layout id ∧ (r = -1 → id = 0) := by
  rewrite [lonlatToCell_eq] at h
  by_cases hrange : r < -1 ∨ 29 < r
  · rewrite [lonlatToCellB_outOfRange lon lat r hrange] at h; cases h
  have hpost := lonlatToCellB_post lon lat r (by omega) (by omega)
  cases hb : lonlatToCellB lon lat r with
  | err e => rewrite [hb] at h; cases h
  | panic k => rewrite [hb] at h; cases h
  | ok res =>
    rewrite [hb] at h hpost
    cases Outcome.ok.inj h
    obtain ⟨hlay, hres, hbr⟩ := hpost
    refine ⟨hres, hlay, fun hw => ?_⟩
    rcases hbr with ⟨_, h0, _⟩ | ⟨h0, _⟩ | ⟨h0, _⟩ | ⟨h0, _⟩
    · exact h0
    · omega
    · omega
    · omega

/-- T2a. Every resolution outside −1..29 is rejected with `resOutOfRange`: no panic, no wrapped
resolution, for every point. -/
theorem lookup_out_of_range (lon lat : Float) (r : Int) (h : r < -1 ∨ 29 < r) :
    lonlatToCell lon lat r = .err .resOutOfRange := by
  rewrite [lonlatToCell_eq, lonlatToCellB_outOfRange lon lat r h]
  rfl

/-- T2b. Resolution −1 always yields the world cell. -/
theorem lookup_world (lon lat : Float) : lonlatToCell lon lat (-1) = .ok 0 := by
  rewrite [lonlatToCell_eq, lonlatToCellB_world]
  rfl

/-- T2c. For −1 ≤ r ≤ 29 exactly three kinds of outcome are possible, for every point:
* an id;
* the error `crsVertex` (only for `r ≥ 0`; raised by `CRS::get_vertex` inside the dodecahedron projection
  when a float-computed triangle corner is not within tolerance of a stored vertex);
* the panic `notCCW` (only for `r ≥ 2`; the float winding test of `contains_point` on the candidate cell).
Ruled out for all inputs: `invalidOrigin` (the nearest-origin search returns one of the 12 faces), `other`
(the face-triangle index is always 0..9), `sTooLarge`/`resTooLarge`/`resNegative` from the encoder,
`indexOOB` (in particular the `cells[0]` of the empty fallback list: the first sample either returns
or records a miss), the shift/subtraction overflow guards of `ij_to_s` / `s_to_anchor`, and `fuel`. -/
theorem lookup_outcomes (lon lat : Float) (r : Int) (hm : -1 ≤ r) (hr : r ≤ 29) :
    (∃ id, lonlatToCell lon lat r = .ok id) ∨
    (lonlatToCell lon lat r = .err .crsVertex ∧ 0 ≤ r) ∨
    (lonlatToCell lon lat r = .panic .notCCW ∧ 2 ≤ r) := by
  rewrite [lonlatToCell_eq]
  have hpost := lonlatToCellB_post lon lat r hm hr
  cases hb : lonlatToCellB lon lat r with
  | ok res => exact Or.inl ⟨res.id, rfl⟩
  | err e =>
    rewrite [hb] at hpost
    obtain ⟨he, h0⟩ := hpost
    subst he
    exact Or.inr (Or.inl ⟨rfl, h0⟩)
  | panic k =>
    rewrite [hb] at hpost
    obtain ⟨hk, h2⟩ := hpost
    subst hk
    exact Or.inr (Or.inr ⟨rfl, h2⟩)

/-- T2d. The lookup never panics below the curve resolutions (r < 2). -/
theorem lookup_low_no_panic (lon lat : Float) (r : Int) (h2 : r < 2) : (lonlatToCell lon lat r).isPanic = false := by
  by_cases hrange : r < -1 ∨ 29 < r
  · rewrite [lookup_out_of_range lon lat r hrange]; rfl
  rcases lookup_outcomes lon lat r (by omega) (by omega) with ⟨id, h⟩ | ⟨h, _⟩ | ⟨_, h⟩
  · rewrite [h]; rfl
  · rewrite [h]; rfl
  · omega

/-- T2e (component lemmas, each for arbitrary floats). -/
theorem estimate_outcomes (lon lat : Float) (r : Int) (hr : r ≤ 29) :
    lonlatToEstimate lon lat r = .err .crsVertex ∨
    ∃ c, lonlatToEstimate lon lat r = .ok c ∧ c.res = r ∧ c.origin < 12 ∧ c.segment < 5 ∧
      (if r < 2 then c.s = 0 else c.s < 4 ^ (r - 1).toNat) :=
  lonlatToEstimate_cases lon lat r hr

theorem nearest_origin_is_a_face (theta phi : Float) : (findNearestOrigin theta phi).id < 12 :=
  findNearestOrigin_id theta phi

theorem hilbert_index_no_overflow (i j : Float) (n : Nat) (o : Orientation) (hn : n ≤ 30) :
    ∃ s, ijToS floatLits i j n o = .ok s ∧ s < 4 ^ n :=
  ijToS_ok floatLits i j n o hn

theorem anchor_no_overflow (s n : Nat) (o : Orientation) (hn : n ≤ 30) (hs : s < 4 ^ n) :
    ∃ a, sToAnchor s n o = .ok a :=
  sToAnchor_ok s n o hn hs

theorem projection_outcomes (theta phi : Float) (o : Nat) (ho : o < 12) :
    dodecaForward theta phi o = .err .crsVertex ∨ ∃ v, dodecaForward theta phi o = .ok v :=
  (dodecaForward_okOrCrs theta phi o ho).cases

/-- Intended full statement of C01's first half ("the lookup succeeds").  NOT provable at the skeleton
level: by `lookup_outcomes` it is equivalent to the absence of `crsVertex` errors and `notCCW` panics,
both of which depend on float values. -/
def lookup_succeeds_statement : Prop :=
  ∀ (lon lat : Float) (r : Int), -1 ≤ r → r ≤ 29 → ∃ id, lonlatToCell lon lat r = .ok id

/-- T3a. A hit is sound with respect to the model's own test: if the lookup (with branch tag) returns
`⟨id, k⟩` with `k ≥ 0` (k-th distinct estimate contained the point), then `id` is the encoding of the
estimate cell `c` of one of the 26 probe samples, and `cellContainsPoint c lon lat` — evaluated at the
QUERY point — returned a strictly positive value. -/
theorem lookup_hit_sound (lon lat : Float) (r : Int) (id : Nat) (k : Int)
    (h : lonlatToCellB lon lat r = .ok ⟨id, k⟩) (hk : 0 ≤ k) :
    2 ≤ r ∧ r ≤ 29 ∧
    ∃ c d, serialize c = .ok id ∧ c.res = r ∧
      (∃ smp ∈ probeSamples lon lat (r - 1), lonlatToEstimate smp.1 smp.2 r = .ok c) ∧
      cellContainsPoint c lon lat = .ok d ∧ d > 0.0 := by
  by_cases hrange : r < -1 ∨ 29 < r
  · rewrite [lonlatToCellB_outOfRange lon lat r hrange] at h; cases h
  have hpost := lonlatToCellB_post lon lat r (by omega) (by omega)
  rewrite [h] at hpost
  obtain ⟨_, _, hbr⟩ := hpost
  have e : 1 + r - 2 = r - 1 := by omega
  rcases hbr with ⟨_, _, hb⟩ | ⟨_, _, hb, _⟩ | ⟨h2, _, hhit⟩ | ⟨_, hb, _⟩
  · simp only at hb; omega
  · simp only at hb; omega
  · rewrite [e] at hhit
    obtain ⟨c, d, hest, hsmp, hser, hcp, hpos⟩ := hhit
    exact ⟨h2, by omega, c, d, hser, hest.1, hsmp, hcp, hpos⟩
  · simp only at hb; omega

/-- T3b. The fallback (`k = −1`): the answer is the encoding of the FIRST MAXIMUM (`firstMax`: left fold
keeping the earlier element on ties and on incomparable values) of the non-empty list of recorded
misses; every recorded miss is the estimate of a probe sample whose containment value at the query point
was computed and was not positive, recorded with the negated perpendicular distance from the query point
to its pentagon (`cellDistanceOutside`; repair of defect F16) - so the fallback returns the tried cell
that is NEAREST to the point. -/
theorem lookup_fallback (lon lat : Float) (r : Int) (id : Nat)
    (h : lonlatToCellB lon lat r = .ok ⟨id, -1⟩) :
    2 ≤ r ∧ r ≤ 29 ∧
    ∃ c0 rest, serialize (firstMax c0 rest).1 = .ok id ∧ firstMax c0 rest ∈ c0 :: rest ∧
      ∀ e ∈ c0 :: rest, e.1.res = r ∧
        (∃ smp ∈ probeSamples lon lat (r - 1), lonlatToEstimate smp.1 smp.2 r = .ok e.1) ∧
        (∃ d, cellContainsPoint e.1 lon lat = .ok d ∧ ¬ (d > 0.0)) ∧
        (∃ o, cellDistanceOutside e.1 lon lat = .ok o ∧ e.2 = -o) := by
  by_cases hrange : r < -1 ∨ 29 < r
  · rewrite [lonlatToCellB_outOfRange lon lat r hrange] at h; cases h
  have hpost := lonlatToCellB_post lon lat r (by omega) (by omega)
  rewrite [h] at hpost
  obtain ⟨_, _, hbr⟩ := hpost
  have e : 1 + r - 2 = r - 1 := by omega
  rcases hbr with ⟨_, _, hb⟩ | ⟨_, _, hb, _⟩ | ⟨_, hb, _⟩ | ⟨h2, _, hfb⟩
  · simp only at hb; omega
  · simp only at hb; omega
  · simp only at hb; omega
  · rewrite [e] at hfb
    obtain ⟨extra, c0, rest, hmiss, happ, _, hser⟩ := hfb
    rewrite [List.nil_append] at happ
    subst happ
    refine ⟨h2, by omega, c0, rest, hser, firstMax_mem rest c0, fun e he => ?_⟩
    obtain ⟨h1, h2', h3, h4⟩ := hmiss e he
    exact ⟨h1.1, h2', h3, h4⟩

/-- T3c. The branch tag takes no other values: −3 (world), −2 (below the curve), −1 (fallback), ≥ 0 (hit). -/
theorem lookup_branches (lon lat : Float) (r : Int) (id : Nat) (k : Int)
    (h : lonlatToCellB lon lat r = .ok ⟨id, k⟩) :
    (k = -3 ∧ r = -1) ∨ (k = -2 ∧ 0 ≤ r ∧ r < 2) ∨ (k = -1 ∧ 2 ≤ r) ∨ (0 ≤ k ∧ 2 ≤ r) := by
  by_cases hrange : r < -1 ∨ 29 < r
  · rewrite [lonlatToCellB_outOfRange lon lat r hrange] at h; cases h
  have hpost := lonlatToCellB_post lon lat r (by omega) (by omega)
  rewrite [h] at hpost
  obtain ⟨_, _, hbr⟩ := hpost
  rcases hbr with ⟨hr, _, hb⟩ | ⟨h0, h2, hb, _⟩ | ⟨h2, hb, _⟩ | ⟨h2, hb, _⟩
  · exact Or.inl ⟨hb, hr⟩
  · exact Or.inr (Or.inl ⟨hb, h0, h2⟩)
  · exact Or.inr (Or.inr (Or.inr ⟨hb, h2⟩))
  · exact Or.inr (Or.inr (Or.inl ⟨hb, h2⟩))

/-! ## skeleton for C02 (`cell_to_lonlat`) -/

/-- a successful `cell_to_lonlat` implies the id decodes -/
theorem cellToLonLat_ok_decodes (id : Nat) (p : Float × Float) (h : cellToLonLat id = .ok p) :
    (deserialize id).isOk = true :=
  cellToLonLat_ok_deserialize id p h

/-- the world cell and all its aliases (no resolution marker) give `(0, 0)` -/
theorem cellToLonLat_world_aliases (id : Nat) (h : getResolution id = -1) : cellToLonLat id = .ok (0.0, 0.0) :=
  cellToLonLat_world id h

/-! ## non-vacuity -/

/-- the general encoder lemma on a concrete valid cell … -/
example : Layout 0x92d8000000000000 ∧ getResolution 0x92d8000000000000 = 4 := by
  have h : serialize ⟨7, 3, 0x2d, 4⟩ = .ok 0x92d8000000000000 := by
    rewrite [serialize_valid _ (by decide)]; exact congrArg Outcome.ok (by decide)
  have := serialize_ok_layout ⟨7, 3, 0x2d, 4⟩ _ h (by decide) (by decide)
  exact ⟨this.1, this.2.1⟩

/-- … and on a cell with non-normalised ignored fields (segment 3 and s = 99 at resolution 0) -/
example : ∃ id, serialize ⟨7, 3, 99, 0⟩ = .ok id ∧ Layout id ∧ getResolution id = 0 :=
  ⟨_, serialize_res0_skel 7 3 99 (by decide) (by decide),
    (serialize_ok_layout _ _ (serialize_res0_skel 7 3 99 (by decide) (by decide)) (by decide) (by decide)).1,
    (serialize_ok_layout _ _ (serialize_res0_skel 7 3 99 (by decide) (by decide)) (by decide) (by decide)).2.1⟩

/-- a curve position that does not fit is rejected -/
example : serialize ⟨7, 3, 64, 4⟩ = .err .sTooLarge :=
  serialize_sTooLarge 7 3 64 4 (by decide) (by decide) (by decide) (by decide) (by decide)

/-- the estimate invariant is satisfiable at a curve resolution -/
example : EstOK 4 ⟨7, 3, 0x2d, 4⟩ := ⟨rfl, by decide, by decide, by decide⟩

/-- T1's hypothesis is met for every point at resolution −1, T2a at resolution 30 and −2 -/
example (lon lat : Float) : lonlatToCell lon lat (-1) = .ok 0 := lookup_world lon lat
example (lon lat : Float) : lonlatToCell lon lat 30 = .err .resOutOfRange := lookup_out_of_range lon lat 30 (by decide)
example (lon lat : Float) : lonlatToCell lon lat (-2) = .err .resOutOfRange := lookup_out_of_range lon lat (-2) (by decide)

/-- the first probe sample is the query point itself -/
example (lon lat : Float) : ∃ tail, probeSamples lon lat 3 = (lon, lat) :: tail ∧ tail.length = 25 :=
  probeSamples_eq lon lat 3

/-- world aliases: ids 1 and 0x4000000000000004 have no resolution marker -/
example : getResolution 1 = -1 ∧ getResolution 0x4000000000000004 = -1 := by decide

/-! ## T6-T8: what the fallback's ranking means (repair of defect F16)

The hit test of the lookup (`polyContains`: positive) and the score the fallback ranks the misses by (`polyDistanceOutside`) are
folds over the same edge-by-edge cross products.  `Model/DistanceG.lean` states both loops over an arbitrary scalar type
(`containsG`, `distanceOutsideG`), tied to the Float model by induction on the loop counter only; `Lemmas/DistanceOutside.lean`
instantiates them at the reals. -/

open A5.DG in
/-- **T6 (ties).** the Float model's two loops ARE the generic ones at `Float` -/
theorem fallback_loops_are_twins (vs : Poly) (p : V2) :
    polyDistanceOutside vs p = distanceOutsideG floatOps (vs.map toPair) (toPair p) ∧
    polyContains vs p =
      (if !windingCorrect vs then .panic .notCCW else .ok (containsG floatOps (vs.map toPair) (toPair p))) :=
  ⟨polyDistanceOutside_tie vs p, polyContains_tie vs p⟩

open A5.DG in
/-- **T7 (Float level, structure only).** when no edge reports the point on its wrong side, the hit test answers exactly `1.0` and
the distance exactly `0.0`: the two never disagree about a point the cross products place inside -/
theorem inside_is_hit_and_distance_zero (vs : Poly) (p : V2) (hw : windingCorrect vs = true)
    (h : polyViolated vs p = false) : polyContains vs p = .ok 1.0 ∧ polyDistanceOutside vs p = 0.0 :=
  ⟨polyContains_eq_one_of_no_violation vs p hw h, polyDistanceOutside_eq_zero_of_no_violation vs p h⟩

open A5.DG in
/-- **T8 (real arithmetic).** for ANY polygon (list of points) and any point: the distance is non-negative; it is zero exactly
when the point is on the inner side of every edge; the hit test is positive exactly then; and the distance never overestimates
the Euclidean distance from the point to any point on the inner side of every edge - so the cell the fallback returns is, among
the tried cells, one whose pentagon the point is nearest to in this (lower-bound) sense, and a tried cell that actually
contains the point always wins with distance 0. -/
theorem fallback_distance_sound (vs : List (ℝ × ℝ)) (p : ℝ × ℝ) :
    0 ≤ distanceOutsideR vs p ∧
    (distanceOutsideR vs p = 0 ↔ InsideR vs p) ∧
    (0 < containsR vs p ↔ distanceOutsideR vs p = 0) ∧
    ∀ x, InsideR vs x → distanceOutsideR vs p ≤ eucl p x :=
  ⟨distanceOutside_nonneg vs p, distanceOutside_eq_zero_iff vs p, contains_pos_iff_distanceOutside_zero vs p,
    fun x hx => distanceOutside_le_dist vs p x hx⟩

end A5.C01
