import A5.Lemmas.Order2
/-! # C20 — the integer order of cell ids respects the hierarchy

Spec: `Path` (`A5/Spec/Tree.lean`); the id of a cell is `Path.enc` (six bits `5f+k`, two bits per curve
digit most significant first, one marker bit, zeros).  Model functions: `getStride`, `isFirstChild`
(`A5/Model/Hier.lean`, Rust `get_stride`, `is_first_child`).  Arithmetic lemmas: `A5/Lemmas/Order.lean`,
`A5/Lemmas/Order2.lean`.  All theorems quantify over *every* well-formed cell; all 28 curve levels
(resolutions 2..29) are covered symbolically (no case split on the resolution).

Notation (from `A5.Order`): for a cell with `n = res - 1` curve digits, `W n = 2^(58-2n)` is the width of
its id block, `mark n` its marker bit (`2^56` for `n = 0`, else `2^(57-2n)`), and for `p = deep f k ds`

    blockBase = (5f+k)·2^58 + value ds · W |ds|        enc p = blockBase + mark |ds|
    lo p      = blockBase + 2                          (id of the last-level descendant, digits 0…0)
    hi p      = blockBase + W |ds| - 2                 (id of the last-level descendant, digits 3…3)

FINDINGS (true variants are proved, the refuted readings are kept as `…_statement` with a refutation):
* The "natural" closed block `[blockBase, blockBase + W - 1]` (all ids sharing the bits above the marker)
  is NOT free of foreign cells: `blockBase` itself can be the id of a *coarser* cell
  (`enc (deep 0 0 []) = 2^56 = blockBase of deep 0 0 [1]`): `closed_block_statement_false`.  Every
  interval with `blockBase < lower end ≤ lo p` and `hi p ≤ upper end < blockBase + W` is correct
  (`subtree_interval`, `subtree_interval_loose`).
* Base cells are the exception of the property: `enc (face f)` lies strictly inside the interval of the
  quintant with leading bits `f`, i.e. `deep (f/5) (f%5) []`, which belongs to another face for `f ≥ 1`
  (`base_cells_interleave`, `subtree_interval_fails_for_base_cells`).  Only quintant intervals are affected:
  for `res p ≥ 2` the interval theorem holds against *all* cells (`subtree_interval_res2`). -/
namespace A5.C20
open A5 A5.Path A5.Order

/-! ## T1 — the subtree of a cell is one contiguous id interval -/

/-- explicit form of the interval ends -/
theorem lo_hi_closed_form (f k : Nat) (ds : List Nat) :
    lo (deep f k ds) = (5 * f + k) * 2 ^ 58 + value ds * 2 ^ (58 - 2 * ds.length) + 2 ∧
    hi (deep f k ds) = (5 * f + k) * 2 ^ 58 + value ds * 2 ^ (58 - 2 * ds.length) + 2 ^ (58 - 2 * ds.length) - 2 ∧
    lo (face f) = 5 * f * 2 ^ 58 + 2 ∧ hi (face f) = (5 * f + 5) * 2 ^ 58 - 2 :=
  ⟨Eq.trans rfl rfl, Eq.trans rfl rfl, Eq.trans rfl rfl, Eq.trans rfl rfl⟩

/-- the interval contains the cell itself, and its ends are ids of cells of the subtree (the two extreme
descendants at the last resolution), so the interval is the tightest possible -/
theorem interval_tight (f k : Nat) (ds : List Nat) (hp : WF (deep f k ds)) :
    lo (deep f k ds) ≤ enc (deep f k ds) ∧ enc (deep f k ds) ≤ hi (deep f k ds) ∧
    enc (deep f k (ds ++ List.replicate (28 - ds.length) 0)) = lo (deep f k ds) ∧
    enc (deep f k (ds ++ List.replicate (28 - ds.length) 3)) = hi (deep f k ds) :=
  ⟨(lo_le_enc hp (by rw [res_deep]; omega)).1, (lo_le_enc hp (by rw [res_deep]; omega)).2,
    lo_attained f k ds hp.2.2.2, hi_attained f k ds hp.2.2.2⟩

/-- T1. Among cells of resolution ≥ 1: `q` is in the subtree of `p` (its ancestor at `p`'s resolution is `p`)
iff its id lies in the closed interval `[lo p, hi p]`. -/
theorem subtree_interval (p q : Path) (hp : WF p) (hq : WF q) (h1 : 1 ≤ res p) (hq1 : 1 ≤ res q) :
    (res p ≤ res q ∧ ancestorAt q (res p) = p) ↔ (lo p ≤ enc q ∧ enc q ≤ hi p) := by
  constructor
  · rintro ⟨h, ha⟩; exact enc_bounds_of_ancestor hq h1 h ha
  · rintro ⟨h, h'⟩; exact ancestor_of_enc_bounds hp hq h1 hq1 (by omega) (by omega)

/-- T1, interval ends `lo p ≤ enc p ≤ hi p` for every cell of resolution ≥ 1 -/
theorem self_in_interval (p : Path) (hp : WF p) (h1 : 1 ≤ res p) : lo p ≤ enc p ∧ enc p ≤ hi p :=
  lo_le_enc hp h1

/-- T1 with the widest correct interval: strictly between `blockBase` and `blockBase + W`. -/
theorem subtree_interval_loose (f k : Nat) (ds : List Nat) (q : Path) (hp : WF (deep f k ds)) (hq : WF q)
    (hq1 : 1 ≤ res q) :
    (res (deep f k ds) ≤ res q ∧ ancestorAt q (res (deep f k ds)) = deep f k ds) ↔
      (blockBase f k ds < enc q ∧ enc q < blockBase f k ds + W ds.length) := by
  have h1 : 1 ≤ res (deep f k ds) := by rw [res_deep]; omega
  have hW := four_le_W ds.length hp.2.2.2
  constructor
  · rintro ⟨h, ha⟩
    have := enc_bounds_of_ancestor hq h1 h ha
    simp only [lo, hi] at this
    omega
  · rintro ⟨h, h'⟩
    exact ancestor_of_enc_bounds hp hq h1 hq1 (by simp only [lo]; omega) (by simp only [hi]; omega)

/-- T1 for a base cell `p = face f` (still against cells `q` of resolution ≥ 1) -/
theorem subtree_interval_face (f : Nat) (q : Path) (hq : WF q) (hq1 : 1 ≤ res q) :
    (res (face f) ≤ res q ∧ ancestorAt q (res (face f)) = face f) ↔
      (lo (face f) ≤ enc q ∧ enc q ≤ hi (face f)) := by
  rw [← face_interval f q hq hq1]
  have e : res (face f) = 0 := rfl
  rw [e]
  constructor
  · exact fun h => h.2
  · exact fun h => ⟨by omega, h⟩

/-- T1 for `res p ≥ 2` holds against *every* cell `q` (base cells and the world cell included) -/
theorem subtree_interval_res2 (p q : Path) (hp : WF p) (hq : WF q) (h2 : 2 ≤ res p) :
    (res p ≤ res q ∧ ancestorAt q (res p) = p) ↔ (lo p ≤ enc q ∧ enc q ≤ hi p) := by
  by_cases hq1 : 1 ≤ res q
  · exact subtree_interval p q hp hq (by omega) hq1
  · obtain ⟨f, k, ds, rfl⟩ := exists_deep_of_res (show 1 ≤ res p by omega)
    rw [res_deep] at h2
    constructor
    · rintro ⟨h, _⟩; rw [res_deep] at h; omega
    · intro h
      exfalso
      cases q with
      | world => simp only [lo, enc] at h; omega
      | face f' => exact face_not_in_block f k ds hp (by omega) f' h
      | deep f' k' es => simp only [res] at hq1; omega

/-- ids of cells of resolution ≥ 1 are pairwise distinct -/
theorem enc_injective (p q : Path) (hp : WF p) (hq : WF q) (h1 : 1 ≤ res p) (hq1 : 1 ≤ res q)
    (e : enc p = enc q) : p = q := enc_inj hp hq h1 hq1 e

/-- The refuted reading of T1: the closed block of all ids sharing `p`'s bits above its marker. -/
def closed_block_statement : Prop :=
  ∀ (f k : Nat) (ds : List Nat) (q : Path), WF (deep f k ds) → WF q → 1 ≤ res q →
    ((res (deep f k ds) ≤ res q ∧ ancestorAt q (res (deep f k ds)) = deep f k ds) ↔
      (blockBase f k ds ≤ enc q ∧ enc q ≤ blockBase f k ds + W ds.length - 1))

/-- … is false: the quintant `deep 0 0 []` has the id `2^56`, the first number of the block of its child
`deep 0 0 [1]` (a coarser cell sits on the lower end of the block). -/
theorem closed_block_statement_false : ¬ closed_block_statement := by
  intro h
  have := (h 0 0 [1] (deep 0 0 []) (by decide) (by decide) (by decide)).2 (by decide)
  exact absurd this.1 (by decide)

/-! ## T2 — ancestors are monotone -/

/-- T2. Same resolution `r ≥ 1` (in particular `r ≥ 2`), `a < b` as integers: every ancestor of `a` at a
resolution `1..r` is `≤` the corresponding ancestor of `b`. -/
theorem ancestors_monotone (a b : Path) (ha : WF a) (hb : WF b) (r : Int) (hra : res a = r) (hrb : res b = r)
    (hlt : enc a < enc b) (k : Int) (hk1 : 1 ≤ k) (hkr : k ≤ r) :
    enc (ancestorAt a k) ≤ enc (ancestorAt b k) := by
  have hA := wf_ancestorAt ha k
  have hB := wf_ancestorAt hb k
  have rA : res (ancestorAt a k) = k := res_ancestorAt a k (by omega) (by omega)
  have rB : res (ancestorAt b k) = k := res_ancestorAt b k (by omega) (by omega)
  apply Nat.le_of_not_lt
  intro hcon
  have h1 := hi_lt_lo hB hA (by omega) (by omega) hcon
  have h2 := enc_bounds_of_ancestor (p := ancestorAt a k) (q := a) ha (by omega) (by omega) (by rw [rA])
  have h3 := enc_bounds_of_ancestor (p := ancestorAt b k) (q := b) hb (by omega) (by omega) (by rw [rB])
  omega

/-- T2, strict form: distinct ancestors are strictly ordered -/
theorem ancestors_strict (a b : Path) (ha : WF a) (hb : WF b) (r : Int) (hra : res a = r) (hrb : res b = r)
    (hlt : enc a < enc b) (k : Int) (hk1 : 1 ≤ k) (hkr : k ≤ r) (hne : ancestorAt a k ≠ ancestorAt b k) :
    enc (ancestorAt a k) < enc (ancestorAt b k) := by
  have hle := ancestors_monotone a b ha hb r hra hrb hlt k hk1 hkr
  have rA : res (ancestorAt a k) = k := res_ancestorAt a k (by omega) (by omega)
  have rB : res (ancestorAt b k) = k := res_ancestorAt b k (by omega) (by omega)
  apply Nat.lt_of_le_of_ne hle
  intro e
  exact hne (enc_inj (wf_ancestorAt ha k) (wf_ancestorAt hb k) (by omega) (by omega) e)

/-! ## T3 — descendants are ordered like their ancestors -/

/-- T3. Same resolution `r ≥ 1`, `a < b`: every descendant of `a` at resolution `R` precedes every
descendant of `b` at resolution `R` (`r ≤ R ≤ 29`). -/
theorem descendants_ordered (a b : Path) (ha : WF a) (hb : WF b) (r : Int) (hra : res a = r) (hrb : res b = r)
    (hr : 1 ≤ r) (hlt : enc a < enc b) (R : Int) (hR : r ≤ R) (hR29 : R ≤ 29) (x y : Path)
    (hx : x ∈ descendantsAt a R) (hy : y ∈ descendantsAt b R) : enc x < enc y := by
  have h1 := hi_lt_lo ha hb (by omega) (by omega) hlt
  have h2 := enc_bounds_of_ancestor (p := a) (q := x) (wf_of_mem_descendantsAt ha hR29 hx) (by omega)
    (by rw [res_of_mem_descendantsAt hx]; omega) (ancestorAt_of_mem_descendantsAt hx)
  have h3 := enc_bounds_of_ancestor (p := b) (q := y) (wf_of_mem_descendantsAt hb hR29 hy) (by omega)
    (by rw [res_of_mem_descendantsAt hy]; omega) (ancestorAt_of_mem_descendantsAt hy)
  omega

/-- T3 for descendants at *different* resolutions: the whole subtree of `a` precedes the whole subtree of `b` -/
theorem subtrees_ordered (a b : Path) (ha : WF a) (hb : WF b) (r : Int) (hra : res a = r) (hrb : res b = r)
    (hr : 1 ≤ r) (hlt : enc a < enc b) (x y : Path) (hx : WF x) (hy : WF y)
    (hxa : res a ≤ res x ∧ ancestorAt x (res a) = a) (hyb : res b ≤ res y ∧ ancestorAt y (res b) = b) :
    enc x < enc y := by
  have h1 := hi_lt_lo ha hb (by omega) (by omega) hlt
  have h2 := enc_bounds_of_ancestor hx (by omega) hxa.1 hxa.2
  have h3 := enc_bounds_of_ancestor hy (by omega) hyb.1 hyb.2
  omega

/-! ## T4 — siblings are adjacent, `getStride`, `isFirstChild` -/

/-- closed form of the model's `getStride` on every resolution -1..29 (never fails, never panics) -/
theorem getStride_closed_form (r : Int) (h1 : -1 ≤ r) (h29 : r ≤ 29) :
    getStride r = .ok (if r < 2 then 2 ^ 58 else 2 ^ (2 * (30 - r).toNat)) :=
  getStride_eq r (by omega) (by omega)

/-- T4. For every cell `p` of resolution -1..28 with children `c_j = child p j` (`Path.children` order):
the children are equally spaced by exactly the model's `getStride` of their resolution, the model's
`isFirstChild` is `true` exactly for `j = 0`, and no other cell of the children's resolution has an id
between the first and the last child. -/
theorem siblings_adjacent (p : Path) (hp : WF p) (hr : res p ≤ 28) :
    children p = (List.range (fan (res p))).map (child p) ∧
    getStride (res p + 1) = .ok (stride (res p + 1)) ∧
    (∀ j, enc (child p j) = enc (child p 0) + j * stride (res p + 1)) ∧
    (∀ j, j < fan (res p) → isFirstChild (enc (child p j)) (res p + 1) = .ok (j == 0)) ∧
    (∀ q, WF q → res q = res p + 1 → enc (child p 0) ≤ enc q → enc q ≤ enc (child p (fan (res p) - 1)) →
      q ∈ children p) := by
  have := res_ge p
  exact ⟨children_eq_map_child p, getStride_eq _ (by omega) (by omega), enc_child_stride p hp hr,
    isFirstChild_child p hp hr, mem_children_of_between p hp hr⟩

/-- T4, in terms of membership: among the children of `p`, `isFirstChild` singles out `child p 0` -/
theorem isFirstChild_iff (p c : Path) (hp : WF p) (hr : res p ≤ 28) (hc : c ∈ children p) :
    isFirstChild (enc c) (res c) = .ok true ↔ c = child p 0 := by
  obtain ⟨j, hj, rfl⟩ := (mem_children_iff p c).1 hc
  rw [res_child, isFirstChild_child p hp hr j hj]
  constructor
  · intro h
    have : (j == 0) = true := Outcome.ok.inj h
    rw [beq_iff_eq.1 this]
  · intro h
    rw [child_inj p j 0 h]; rfl

/-- T4 at resolution 0: `isFirstChild` looks at `top6 % 12`, i.e. answers `true` exactly for face 0 -/
theorem isFirstChild_res0 (f : Nat) (hf : f < 12) : isFirstChild (enc (face f)) 0 = .ok (f == 0) :=
  isFirstChild_child world trivial (by decide) f (by rw [fan_world]; exact hf)

/-- where the parent id sits: resolution ≥ 2: `c₀ < c₁ < p < c₂ < c₃`; resolution 1 (quintant):
`c₀ < p < c₁ < c₂ < c₃`; so every cell of resolution 1..28 lies strictly between its first and last child. -/
theorem parent_among_children (f k : Nat) (ds : List Nat) (hp : WF (deep f k ds)) (hl : ds.length ≤ 27) :
    (1 ≤ ds.length →
      enc (child (deep f k ds) 0) < enc (child (deep f k ds) 1) ∧
      enc (child (deep f k ds) 1) < enc (deep f k ds) ∧
      enc (deep f k ds) < enc (child (deep f k ds) 2) ∧
      enc (child (deep f k ds) 2) < enc (child (deep f k ds) 3)) ∧
    (ds.length = 0 →
      enc (child (deep f k ds) 0) < enc (deep f k ds) ∧
      enc (deep f k ds) < enc (child (deep f k ds) 1) ∧
      enc (child (deep f k ds) 1) < enc (child (deep f k ds) 2) ∧
      enc (child (deep f k ds) 2) < enc (child (deep f k ds) 3)) := by
  constructor
  · intro h1
    have := enc_children_order_deep f k ds h1 hl
    have := two_le_mark (ds.length + 1) (by omega)
    omega
  · intro h0
    have : ds = [] := List.eq_nil_of_length_eq_zero h0
    subst this
    have := enc_children_order_quintant f k
    have := two_le_mark 1 (by omega)
    omega

/-! ## T5 — the exception: base-cell ids interleave with quintant ids -/

/-- T5. The id of face `f` lies strictly inside the id interval of the quintant whose six leading bits are
`f`, namely `Q = deep (f/5) (f%5) []` (even strictly between the ids of `Q`'s children 1 and 2), although it
is not in `Q`'s subtree; for `f ≥ 1` that quintant belongs to another face.  So T1 cannot be extended to
resolution 0. -/
theorem base_cells_interleave (f : Nat) (hf : f < 12) :
    WF (deep (f / 5) (f % 5) []) ∧
    lo (deep (f / 5) (f % 5) []) < enc (face f) ∧ enc (face f) < hi (deep (f / 5) (f % 5) []) ∧
    enc (child (deep (f / 5) (f % 5) []) 1) < enc (face f) ∧
    enc (face f) < enc (child (deep (f / 5) (f % 5) []) 2) ∧
    ¬ (res (deep (f / 5) (f % 5) []) ≤ res (face f)) ∧
    (1 ≤ f → f / 5 ≠ f) := by
  have hm : mark 1 = 2 ^ 55 := Eq.trans rfl rfl
  have hw : W 1 = 2 ^ 56 := Eq.trans rfl rfl
  refine ⟨⟨by omega, by omega, by simp, by simp⟩, ?_, ?_, ?_, ?_, ?_, by omega⟩
  · simp only [lo, blockBase, value_nil, List.length_nil]; rw [enc_face]; omega
  · simp only [hi, blockBase, value_nil, List.length_nil]; rw [enc_face, W_zero]; omega
  · rw [enc_child_deep _ _ _ _ (by simp), enc_face]
    simp only [blockBase, value_nil, List.length_nil, Nat.zero_add]; omega
  · rw [enc_child_deep _ _ _ _ (by simp), enc_face]
    simp only [blockBase, value_nil, List.length_nil, Nat.zero_add]; omega
  · simp only [res, List.length_nil]; omega

/-- T1 with the restriction `1 ≤ res q` dropped … -/
def subtree_interval_all_cells_statement : Prop :=
  ∀ p q : Path, WF p → WF q → 1 ≤ res p →
    ((res p ≤ res q ∧ ancestorAt q (res p) = p) ↔ (lo p ≤ enc q ∧ enc q ≤ hi p))

/-- … is false (base cell `face 1` inside the interval of quintant 1 of face 0). -/
theorem subtree_interval_fails_for_base_cells : ¬ subtree_interval_all_cells_statement := by
  intro h
  have hb := base_cells_interleave 1 (by omega)
  have := (h (deep (1 / 5) (1 % 5) []) (face 1) hb.1 (by decide) (by decide)).2
    ⟨Nat.le_of_lt hb.2.1, Nat.le_of_lt hb.2.2.1⟩
  exact hb.2.2.2.2.2.1 this.1

/-! ## non-vacuity: the hypotheses are met by concrete non-trivial cells -/

example : WF (deep 7 3 [2, 1, 3]) ∧ res (deep 7 3 [2, 1, 3]) = 4 := by decide
example : enc (deep 7 3 [2, 1, 3]) = 0x9a78000000000000 := by decide
example : lo (deep 7 3 [2, 1, 3]) = 0x9a70000000000002 ∧ hi (deep 7 3 [2, 1, 3]) = 0x9a7ffffffffffffe := by decide
-- T1: a descendant two levels down lies in the interval, the sibling `[2,1,2]` does not
example : lo (deep 7 3 [2, 1, 3]) ≤ enc (deep 7 3 [2, 1, 3, 0, 2]) ∧
    enc (deep 7 3 [2, 1, 3, 0, 2]) ≤ hi (deep 7 3 [2, 1, 3]) :=
  (subtree_interval _ _ (by decide) (by decide) (by decide) (by decide)).1 ⟨by decide, by decide⟩
example : ¬ (lo (deep 7 3 [2, 1, 3]) ≤ enc (deep 7 3 [2, 1, 2]) ∧ enc (deep 7 3 [2, 1, 2]) ≤ hi (deep 7 3 [2, 1, 3])) :=
  fun h => absurd ((subtree_interval _ _ (by decide) (by decide) (by decide) (by decide)).2 h).2 (by decide)
-- T2/T3: `a = deep 7 3 [2,1,3] < b = deep 7 4 [0,0,1]`
example : enc (deep 7 3 [2, 1, 3]) < enc (deep 7 4 [0, 0, 1]) := by decide
example : enc (ancestorAt (deep 7 3 [2, 1, 3]) 2) ≤ enc (ancestorAt (deep 7 4 [0, 0, 1]) 2) :=
  ancestors_monotone _ _ (by decide) (by decide) 4 (by decide) (by decide) (by decide) 2 (by decide) (by decide)
example : deep 7 3 [2, 1, 3, 3, 3] ∈ descendantsAt (deep 7 3 [2, 1, 3]) 6 ∧
    deep 7 4 [0, 0, 1, 0, 0] ∈ descendantsAt (deep 7 4 [0, 0, 1]) 6 := by decide
example : enc (deep 7 3 [2, 1, 3, 3, 3]) < enc (deep 7 4 [0, 0, 1, 0, 0]) :=
  descendants_ordered (deep 7 3 [2, 1, 3]) (deep 7 4 [0, 0, 1]) (by decide) (by decide) 4 (by decide) (by decide)
    (by decide) (by decide) 6 (by decide) (by decide) _ _ (by decide) (by decide)
-- T4: the stride of the children of `deep 7 3 [2,1,3]` (resolution 5) is 2^50
example : getStride 5 = .ok (2 ^ 50) := getStride_closed_form 5 (by decide) (by decide)
example : enc (child (deep 7 3 [2, 1, 3]) 2) = enc (child (deep 7 3 [2, 1, 3]) 0) + 2 * 2 ^ 50 :=
  (siblings_adjacent (deep 7 3 [2, 1, 3]) (by decide) (by decide)).2.2.1 2
example : isFirstChild (enc (deep 7 3 [2, 1, 3, 0])) 5 = .ok true ∧
    isFirstChild (enc (deep 7 3 [2, 1, 3, 2])) 5 = .ok false :=
  ⟨(siblings_adjacent (deep 7 3 [2, 1, 3]) (by decide) (by decide)).2.2.2.1 0 (by decide),
   (siblings_adjacent (deep 7 3 [2, 1, 3]) (by decide) (by decide)).2.2.2.1 2 (by decide)⟩
-- T5
example : enc (deep 0 1 [1]) < enc (face 1) ∧ enc (face 1) < enc (deep 0 1 [2]) := by decide

end A5.C20
