import A5.Lemmas.HierRefine
import A5.Model.Compact
/-! # C09 — `uncompact` expands every input cell into exactly its descendants at the target resolution

Model: `A5.uncompact` (`A5/Model/Compact.lean`), with `A5.getNumChildren` / `A5.getNumCells` (`A5/Model/Hier.lean`).
Spec: `Path.descendantsOrdered` of `A5/Spec/Tree.lean`.  Inputs are lists of *arbitrary* canonical ids, written
`ps.map enc` for a list `ps` of well-formed tree paths (see `C07.canonical_ids_are_paths`); repetitions, any mix of
resolutions and any order are allowed.

Shape of the model: a first loop adds up `getNumChildren (res c) R` (overflow-checked) and rejects inputs finer than
the target; the sum is used as `Vec::with_capacity`; a second loop pushes either the cell itself (`k = 1`) or
`cell_to_children(c, R)`.  `uncompact_closed_form` states this on paths without any side condition;
`uncompact_spec` is the success case. -/
namespace A5.C09
open A5 A5.Path

/-! ## the pre-count `get_num_children` -/

/-- what `get_num_children(r, R)` returns (0 if it does not return) -/
def kids (r R : Int) : Nat := match getNumChildren r R with | .ok k => k | _ => 0

/-- rows -1, 0, 1 of the pre-count (they go through the `get_num_cells` table, including its two rounded
entries for resolutions 28 and 29), checked entry by entry against all targets -1..29 -/
theorem numChildren_low_table :
    ∀ r ∈ [(-1 : Int), 0, 1], ∀ R ∈ (List.range 31).map (fun j : Nat => (j : Int) - 1), r ≤ R →
      getNumChildren r R = .ok (kids r R) ∧ kids r R < 2 ^ 62 ∧ (kids r R = 1 ↔ r = R) ∧
      (R - max r 1 ≤ 20 → kids r R = fanout (R - r).toNat r) := by decide +kernel

theorem four_pow_lt (d : Nat) (h : d ≤ 29) : 4 ^ d < 2 ^ 62 := by
  have := four_pow_le_of_le h
  rewrite [four_pow_29] at this
  omega

theorem four_pow_eq_one (d : Nat) : 4 ^ d = 1 ↔ d = 0 := by
  cases d with
  | zero => simp
  | succ d =>
    have : 0 < 4 ^ d := Nat.pow_pos (by omega)
    rewrite [Nat.pow_succ]; omega

theorem numChildren_deep (r R : Int) (h2 : 2 ≤ r) (h : r ≤ R) (hR : R ≤ 29) :
    getNumChildren r R = .ok (4 ^ (R - r).toNat) := by
  unfold getNumChildren
  rewrite [if_neg (by omega)]
  by_cases he : R = r
  · rewrite [if_pos he, he, Int.sub_self]; rfl
  · have hlt := four_pow_lt (R - r).toNat (by omega)
    rewrite [if_neg he, if_pos (by simp only [Gen.FIRST_HILBERT_RESOLUTION]; omega), i32Sub_ok _ _ (by omega)]
    simp only [Outcome.bind_ok]
    rewrite [if_pos (by omega)]; rfl

/-- the pre-count on every legal pair `-1 ≤ r ≤ R ≤ 29`: it returns, the value is below `2^62`, it is 1 exactly
for equal resolutions, and within the 20-level guard of `cell_to_children` it is the exact number of descendants -/
theorem numChildren_spec (r R : Int) (h1 : -1 ≤ r) (h : r ≤ R) (hR : R ≤ 29) :
    getNumChildren r R = .ok (kids r R) ∧ kids r R < 2 ^ 62 ∧ (kids r R = 1 ↔ r = R) ∧
      (R - max r 1 ≤ 20 → kids r R = fanout (R - r).toNat r) := by
  by_cases h2 : 2 ≤ r
  · have e := numChildren_deep r R h2 h hR
    have ek : kids r R = 4 ^ (R - r).toNat := by simp only [kids, e]
    rewrite [ek]
    refine ⟨e, four_pow_lt _ (by omega), ?_, fun _ => (fanout_deep _ r (by omega)).symm⟩
    rewrite [four_pow_eq_one]; omega
  · exact numChildren_low_table r (by
        have : r = -1 ∨ r = 0 ∨ r = 1 := by omega
        rcases this with rfl | rfl | rfl <;> simp)
      R (List.mem_map.2 ⟨(R + 1).toNat, List.mem_range.2 (by omega), (by omega : (((R + 1).toNat : Nat) : Int) - 1 = R)⟩) h

/-- **`precount_harmless`.**  The shortcut `k = 1` ("already at the target resolution") is taken exactly when the
resolutions are equal — also through the rounded `get_num_cells` entries for resolutions 28 and 29. -/
theorem precount_harmless (p : Path) (R : Int) (h : res p ≤ R) (hR : R ≤ 29) :
    getNumChildren (res p) R = .ok 1 ↔ res p = R := by
  obtain ⟨e, _, h1, _⟩ := numChildren_spec (res p) R (res_ge p) h hR
  rewrite [e]
  constructor
  · intro hk; exact h1.1 (Outcome.ok.inj hk)
  · intro hk; rewrite [h1.2 hk]; rfl

/-- the same on raw resolutions -/
theorem precount_harmless' (r R : Int) (h1 : -1 ≤ r) (h : r ≤ R) (hR : R ≤ 29) :
    getNumChildren r R = .ok 1 ↔ r = R := by
  obtain ⟨e, _, hk, _⟩ := numChildren_spec r R h1 h hR
  rewrite [e]
  exact ⟨fun h' => hk.1 (Outcome.ok.inj h'), fun h' => by rewrite [hk.2 h']; rfl⟩

/-! ## the two loops on paths -/

/-- the first loop (`n += get_num_children(..)`, overflow-checked) on paths -/
def countSpec (R : Int) : List Path → Nat → Outcome Nat
  | [], n => .ok n
  | p :: ps, n =>
    if res p > R then .err .targetCoarser
    else if n + kids (res p) R < 2 ^ 64 then countSpec R ps (n + kids (res p) R) else .panic .addOverflow

/-- what the second loop appends for one input cell -/
def expand (R : Int) (p : Path) : Outcome (List Nat) :=
  if R - max (res p) 1 > 20 then .err .diffTooLarge else .ok ((descendantsOrdered p R).map enc)

def sumKids (R : Int) (ps : List Path) : Nat := (ps.map (fun p => kids (res p) R)).sum

theorem count_eq (R : Int) (hR : R ≤ 29) (ps : List Path) (hps : ∀ p ∈ ps, WF p) (n : Nat) :
    uncompact.count R (ps.map enc) n = countSpec R ps n := by
  induction ps generalizing n with
  | nil => rfl
  | cons p ps ih =>
    have hp := hps p (List.mem_cons_self ..)
    simp only [List.map_cons, countSpec]
    rewrite [uncompact.count.eq_2, getResolution_enc_path hp]
    by_cases h : res p > R
    · rewrite [if_pos h, if_pos h]; rfl
    · rewrite [if_neg h, if_neg h, (numChildren_spec _ _ (res_ge p) (by omega) hR).1]
      simp only [Outcome.bind_ok]
      by_cases hb : n + kids (res p) R < 2 ^ 64
      · rewrite [u64Add_ok _ _ hb, if_pos hb]
        simp only [Outcome.bind_ok]
        exact ih (fun q hq => hps q (List.mem_cons_of_mem _ hq)) _
      · rewrite [if_neg hb]
        simp only [u64Add]
        rewrite [if_neg hb]
        simp only [Outcome.bind_panic]

theorem countSpec_ok (R : Int) (ps : List Path) (n : Nat) (hps : ∀ p ∈ ps, res p ≤ R)
    (hn : n + sumKids R ps < 2 ^ 64) : countSpec R ps n = .ok (n + sumKids R ps) := by
  induction ps generalizing n with
  | nil => simp only [countSpec, sumKids, List.map_nil, List.sum_nil, Nat.add_zero]
  | cons p ps ih =>
    have hp := hps p (List.mem_cons_self ..)
    simp only [sumKids, List.map_cons, List.sum_cons] at hn ⊢
    simp only [countSpec]
    have hn' : n + kids (res p) R + sumKids R ps < 2 ^ 64 := by simp only [sumKids]; omega
    rewrite [if_neg (by omega), if_pos (by omega), ih _ (fun q hq => hps q (List.mem_cons_of_mem _ hq)) hn']
    refine congrArg Outcome.ok ?_
    simp only [sumKids]; omega

theorem countSpec_of_ok (R : Int) (ps : List Path) (n m : Nat) (h : countSpec R ps n = .ok m) :
    (∀ p ∈ ps, res p ≤ R) ∧ m = n + sumKids R ps := by
  induction ps generalizing n with
  | nil =>
    simp only [countSpec] at h
    cases Outcome.ok.inj h
    exact ⟨fun _ hp => (List.not_mem_nil hp).elim, by simp only [sumKids, List.map_nil, List.sum_nil, Nat.add_zero]⟩
  | cons p ps ih =>
    simp only [countSpec] at h
    by_cases h1 : res p > R
    · rewrite [if_pos h1] at h; cases h
    · rewrite [if_neg h1] at h
      by_cases h2 : n + kids (res p) R < 2 ^ 64
      · rewrite [if_pos h2] at h
        obtain ⟨a, b⟩ := ih _ h
        refine ⟨fun q hq => ?_, ?_⟩
        · rcases List.mem_cons.1 hq with rfl | hq
          · omega
          · exact a q hq
        · simp only [sumKids, List.map_cons, List.sum_cons] at b ⊢; omega
      · rewrite [if_neg h2] at h; cases h

theorem countSpec_err (R : Int) (ps : List Path) (n : Nat) (e : ErrKind) (h : countSpec R ps n = .err e) :
    e = .targetCoarser ∧ ∃ p ∈ ps, res p > R := by
  induction ps generalizing n with
  | nil => simp only [countSpec] at h; cases h
  | cons p ps ih =>
    simp only [countSpec] at h
    by_cases h1 : res p > R
    · rewrite [if_pos h1] at h
      cases h
      exact ⟨rfl, p, List.mem_cons_self .., h1⟩
    · rewrite [if_neg h1] at h
      by_cases h2 : n + kids (res p) R < 2 ^ 64
      · rewrite [if_pos h2] at h
        obtain ⟨a, q, hq, hr⟩ := ih _ h
        exact ⟨a, q, List.mem_cons_of_mem _ hq, hr⟩
      · rewrite [if_neg h2] at h; cases h

theorem countSpec_coarser (R : Int) (ps : List Path) (n : Nat) (h : ∃ p ∈ ps, res p > R) :
    (n + sumKids R ps < 2 ^ 64 → countSpec R ps n = .err .targetCoarser) ∧
    (countSpec R ps n = .err .targetCoarser ∨ countSpec R ps n = .panic .addOverflow) := by
  induction ps generalizing n with
  | nil => obtain ⟨p, hp, _⟩ := h; exact nomatch hp
  | cons p ps ih =>
    simp only [countSpec]
    by_cases h1 : res p > R
    · rewrite [if_pos h1]; exact ⟨fun _ => rfl, Or.inl rfl⟩
    · rewrite [if_neg h1]
      have h' : ∃ q ∈ ps, res q > R := by
        obtain ⟨q, hq, hr⟩ := h
        rcases List.mem_cons.1 hq with rfl | hq
        · exact absurd hr h1
        · exact ⟨q, hq, hr⟩
      by_cases h2 : n + kids (res p) R < 2 ^ 64
      · rewrite [if_pos h2]
        refine ⟨fun hn => (ih _ h').1 ?_, (ih _ h').2⟩
        simp only [sumKids, List.map_cons, List.sum_cons] at hn ⊢; omega
      · rewrite [if_neg h2]
        refine ⟨fun hn => ?_, Or.inr rfl⟩
        simp only [sumKids, List.map_cons, List.sum_cons] at hn; omega

/-- what the second loop does with one canonical id not finer than the target -/
theorem phase2_cell {p : Path} (hp : WF p) (R : Int) (h : res p ≤ R) (hR : R ≤ 29) :
    (getNumChildren (getResolution (enc p)) R >>= fun k =>
      if k = 1 then cellToParent (enc p) (some (getResolution (enc p))) >>= fun x => .ok [x]
      else cellToChildren (enc p) (some R)) = expand R p := by
  obtain ⟨e, _, h1, _⟩ := numChildren_spec (res p) R (res_ge p) h hR
  rewrite [getResolution_enc_path hp, e]
  simp only [Outcome.bind_ok, expand]
  by_cases heq : res p = R
  · rewrite [if_pos (h1.2 heq), cellToParent_anc hp (res p) (res_ge p) (Int.le_refl _),
      ancestorAt_self p _ (Int.le_refl _), if_neg (by omega), ← heq, descendantsOrdered_self]
    rfl
  · rewrite [if_neg (fun hk => heq (h1.1 hk)), cellToChildren_enc hp, if_neg (by omega), if_neg (by omega),
      if_neg (by omega)]
    by_cases hg : R - max (res p) 1 > 20
    · rewrite [if_pos hg, if_pos hg]; rfl
    · rewrite [if_neg hg, if_neg hg, if_neg (by omega)]; rfl

theorem flatMapOutcome_map_congr {α α' β : Type} (f : α → Outcome (List β)) (e : α' → α)
    (g : α' → Outcome (List β)) (l : List α') (h : ∀ a ∈ l, f (e a) = g a) :
    flatMapOutcome f (l.map e) = flatMapOutcome g l := by
  induction l with
  | nil => rfl
  | cons a l ih =>
    simp only [List.map_cons, flatMapOutcome]
    rewrite [h a (List.mem_cons_self ..), ih (fun b hb => h b (List.mem_cons_of_mem _ hb))]
    rfl

theorem uncompact_unfold (cells : List Nat) (R : Int) :
    uncompact cells R =
      if R ≥ 30 then .err .exceedsMax
      else uncompact.count R cells 0 >>= fun n =>
        if n * 8 ≥ 2 ^ 63 then .panic .capacity
        else flatMapOutcome (fun c =>
          getNumChildren (getResolution c) R >>= fun k =>
            if k = 1 then cellToParent c (some (getResolution c)) >>= fun x => .ok [x]
            else cellToChildren c (some R)) cells := rfl

/-- **Complete behaviour of `uncompact` on canonical ids**, no side conditions: the range check, the
overflow-checked pre-count, the capacity of the allocation, then one `expand` per input in input order. -/
theorem uncompact_closed_form (ps : List Path) (hps : ∀ p ∈ ps, WF p) (R : Int) :
    uncompact (ps.map enc) R =
      if R ≥ 30 then .err .exceedsMax
      else countSpec R ps 0 >>= fun n =>
        if n * 8 ≥ 2 ^ 63 then .panic .capacity else flatMapOutcome (expand R) ps := by
  rewrite [uncompact_unfold]
  by_cases hR : R ≥ 30
  · rewrite [if_pos hR, if_pos hR]; rfl
  rewrite [if_neg hR, if_neg hR, count_eq R (by omega) ps hps 0]
  cases hc : countSpec R ps 0 with
  | err e => simp only [Outcome.bind_err]
  | panic k => simp only [Outcome.bind_panic]
  | ok n =>
    simp only [Outcome.bind_ok]
    by_cases hcap : n * 8 ≥ 2 ^ 63
    · rewrite [if_pos hcap, if_pos hcap]; rfl
    · rewrite [if_neg hcap, if_neg hcap]
      have hle := (countSpec_of_ok R ps 0 n hc).1
      exact flatMapOutcome_map_congr _ enc (expand R) ps
        (fun p hp => phase2_cell (hps p hp) R (hle p hp) (by omega))

/-! ## the property -/

/-- the number of output cells the tree dictates -/
def total (R : Int) (ps : List Path) : Nat := (ps.map (fun p => fanout (R - res p).toNat (res p))).sum

theorem sumKids_eq_total (R : Int) (hR : R ≤ 29) (ps : List Path)
    (hps : ∀ p ∈ ps, res p ≤ R ∧ R - max (res p) 1 ≤ 20) : sumKids R ps = total R ps := by
  simp only [sumKids, total]
  refine congrArg List.sum (List.map_congr_left (fun p hp => ?_))
  exact (numChildren_spec (res p) R (res_ge p) (hps p hp).1 hR).2.2.2 (hps p hp).2

/-- **`uncompact_spec`.**  For any list of cells, none finer than the target `R ≤ 29`, each within the 20-level
guard of `cell_to_children`, and with a total output size that `Vec::with_capacity` accepts (`8·n < 2^63` bytes):
the result is, for each input in input order, the ids of its tree descendants at resolution `R` in the library's
order — nothing else, nothing missing. -/
theorem uncompact_spec (ps : List Path) (R : Int) (hR : R ≤ 29)
    (hps : ∀ p ∈ ps, WF p ∧ res p ≤ R ∧ R - max (res p) 1 ≤ 20)
    (hcap : total R ps * 8 < 2 ^ 63) :
    uncompact (ps.map enc) R = .ok (ps.flatMap (fun p => (descendantsOrdered p R).map enc)) := by
  have hk := sumKids_eq_total R hR ps (fun p hp => (hps p hp).2)
  rewrite [uncompact_closed_form ps (fun p hp => (hps p hp).1), if_neg (by omega),
    countSpec_ok R ps 0 (fun p hp => (hps p hp).2.1) (by rewrite [hk]; omega)]
  simp only [Outcome.bind_ok]
  rewrite [if_neg (by rewrite [hk]; omega)]
  exact flatMapOutcome_ok _ _ _ (fun p hp => by
    simp only [expand]; rewrite [if_neg (by have := (hps p hp).2.2; omega)]; rfl)

/-- Corollary 1 (order per input): the output is the concatenation, in input order, of one block per input. -/
theorem uncompact_append (ps qs : List Path) (R : Int) (hR : R ≤ 29)
    (hps : ∀ p ∈ ps ++ qs, WF p ∧ res p ≤ R ∧ R - max (res p) 1 ≤ 20)
    (hcap : total R (ps ++ qs) * 8 < 2 ^ 63) :
    ∃ a b, uncompact (ps.map enc) R = .ok a ∧ uncompact (qs.map enc) R = .ok b ∧
      uncompact ((ps ++ qs).map enc) R = .ok (a ++ b) := by
  have ht : total R (ps ++ qs) = total R ps + total R qs := by simp [total]
  refine ⟨_, _, uncompact_spec ps R hR (fun p hp => hps p (List.mem_append_left _ hp)) (by omega),
    uncompact_spec qs R hR (fun p hp => hps p (List.mem_append_right _ hp)) (by omega), ?_⟩
  rewrite [uncompact_spec (ps ++ qs) R hR hps hcap, List.flatMap_append]
  rfl

/-- Corollary 2: every output cell is a canonical id of resolution `R`, and its ancestor at the resolution of
some input is that input. -/
theorem uncompact_outputs (ps : List Path) (R : Int) (hR : R ≤ 29)
    (hps : ∀ p ∈ ps, WF p ∧ res p ≤ R ∧ R - max (res p) 1 ≤ 20) (hcap : total R ps * 8 < 2 ^ 63) :
    ∃ out, uncompact (ps.map enc) R = .ok out ∧
      ∀ c ∈ out, Layout c ∧ getResolution c = R ∧
        ∃ p ∈ ps, cellToParent c (some (res p)) = .ok (enc p) := by
  refine ⟨_, uncompact_spec ps R hR hps hcap, fun c hc => ?_⟩
  obtain ⟨p, hp, hc⟩ := List.mem_flatMap.1 hc
  obtain ⟨d, hd, rfl⟩ := List.mem_map.1 hc
  obtain ⟨hw, hr, _⟩ := hps p hp
  have hwd := wf_of_mem_ordered hw hR hd
  have hrd := res_of_mem_ordered hw hd
  refine ⟨layout_enc_path hwd, by rewrite [getResolution_enc_path hwd]; exact hrd, p, hp, ?_⟩
  rewrite [cellToParent_anc hwd (res p) (res_ge p) (by omega), ancestorAt_of_mem_ordered hw hd]
  rfl

/-- Corollary 3: every input is covered completely — each well-formed path at resolution `R` below an input
occurs in the output — and the block of one input has no repetitions. -/
theorem uncompact_covers (ps : List Path) (R : Int) (hR : R ≤ 29)
    (hps : ∀ p ∈ ps, WF p ∧ res p ≤ R ∧ R - max (res p) 1 ≤ 20) (hcap : total R ps * 8 < 2 ^ 63) :
    ∃ out, uncompact (ps.map enc) R = .ok out ∧
      (∀ p ∈ ps, ∀ d, WF d → res d = R → ancestorAt d (res p) = p → enc d ∈ out) ∧
      (∀ p ∈ ps, ((descendantsOrdered p R).map enc).Nodup) := by
  refine ⟨_, uncompact_spec ps R hR hps hcap, fun p hp d hd hr ha => ?_, fun p hp => ?_⟩
  · obtain ⟨hw, hr', _⟩ := hps p hp
    refine List.mem_flatMap.2 ⟨p, hp, List.mem_map.2 ⟨d, ?_, rfl⟩⟩
    rewrite [mem_descendantsOrdered_iff p hw, mem_descendantsAt_iff hw hd hr' hR]
    exact ⟨hr, ha⟩
  · exact nodup_map_enc_ordered (hps p hp).1 R hR

/-- Corollary 4: the output has exactly `Σ fanout` cells. -/
theorem uncompact_length (ps : List Path) (R : Int) (hR : R ≤ 29)
    (hps : ∀ p ∈ ps, WF p ∧ res p ≤ R ∧ R - max (res p) 1 ≤ 20) (hcap : total R ps * 8 < 2 ^ 63) :
    ∃ out, uncompact (ps.map enc) R = .ok out ∧ out.length = total R ps := by
  refine ⟨_, uncompact_spec ps R hR hps hcap, ?_⟩
  simp only [List.length_flatMap, List.length_map, total]
  refine congrArg List.sum (List.map_congr_left (fun p hp => ?_))
  exact length_ordered (hps p hp).1 R (hps p hp).2.1

/-- Corollary 5: distinct inputs of which none is an ancestor of another (in particular the output of `compact`)
expand without repetitions. -/
theorem uncompact_nodup (ps : List Path) (R : Int) (hR : R ≤ 29)
    (hps : ∀ p ∈ ps, WF p ∧ res p ≤ R ∧ R - max (res p) 1 ≤ 20) (hcap : total R ps * 8 < 2 ^ 63)
    (hanti : ps.Pairwise (fun p q => ancestorAt q (res p) ≠ p ∧ ancestorAt p (res q) ≠ q)) :
    ∃ out, uncompact (ps.map enc) R = .ok out ∧ out.Nodup := by
  refine ⟨_, uncompact_spec ps R hR hps hcap, ?_⟩
  simp only [List.Nodup, List.pairwise_flatMap]
  refine ⟨fun p hp => nodup_map_enc_ordered (hps p hp).1 R hR, ?_⟩
  refine List.Pairwise.imp_of_mem ?_ hanti
  intro p q hp hq hne x hx y hy hxy
  subst hxy
  obtain ⟨d, hd, rfl⟩ := List.mem_map.1 hx
  obtain ⟨d', hd', he⟩ := List.mem_map.1 hy
  have hwp := (hps p hp).1
  have hwq := (hps q hq).1
  cases enc_injective (wf_of_mem_ordered hwq hR hd') (wf_of_mem_ordered hwp hR hd) he
  -- `d` lies below both `p` and `q`: the shallower of the two is an ancestor of the other
  have ap := ancestorAt_of_mem_ordered hwp hd
  have aq := ancestorAt_of_mem_ordered hwq hd'
  by_cases hle : res p ≤ res q
  · apply hne.1
    rewrite [← aq, ancestorAt_ancestorAt d (res q) (res p) hle]; exact ap
  · apply hne.2
    rewrite [← ap, ancestorAt_ancestorAt d (res p) (res q) (by omega)]; exact aq

/-! ## errors -/

theorem expand_err (R : Int) (ps : List Path) (e : ErrKind) (h : flatMapOutcome (expand R) ps = .err e) :
    e = .diffTooLarge := by
  induction ps with
  | nil => simp only [flatMapOutcome] at h; cases h
  | cons p ps ih =>
    simp only [flatMapOutcome, expand] at h
    by_cases hg : R - max (res p) 1 > 20
    · rewrite [if_pos hg] at h; simp only [Outcome.bind_err] at h; cases h; rfl
    · rewrite [if_neg hg] at h; simp only [Outcome.bind_ok] at h
      cases hl : flatMapOutcome (expand R) ps with
      | ok w => rewrite [hl] at h; simp only [Outcome.bind_ok] at h; cases h
      | err e' => rewrite [hl] at h; simp only [Outcome.bind_err] at h; cases h; exact ih hl
      | panic k => rewrite [hl] at h; simp only [Outcome.bind_panic] at h; cases h

/-- `uncompact_err_iff`, second half: "exceeds maximum" is returned exactly for targets ≥ 30. -/
theorem exceedsMax_iff (ps : List Path) (hps : ∀ p ∈ ps, WF p) (R : Int) :
    uncompact (ps.map enc) R = .err .exceedsMax ↔ R ≥ 30 := by
  rewrite [uncompact_closed_form ps hps]
  constructor
  · intro h
    by_cases hR : R ≥ 30
    · exact hR
    · rewrite [if_neg hR] at h
      cases hc : countSpec R ps 0 with
      | err e => rewrite [hc] at h; simp only [Outcome.bind_err] at h; cases h; cases (countSpec_err R ps 0 _ hc).1
      | panic k => rewrite [hc] at h; simp only [Outcome.bind_panic] at h; cases h
      | ok n =>
        rewrite [hc] at h; simp only [Outcome.bind_ok] at h
        by_cases hcap : n * 8 ≥ 2 ^ 63
        · rewrite [if_pos hcap] at h; cases h
        · rewrite [if_neg hcap] at h; cases expand_err R ps _ h
  · intro hR; rewrite [if_pos hR]; rfl

/-- `uncompact_err_iff`, first half, direction "only if": the error "target coarser" is only ever returned when
some input is finer than the target. -/
theorem targetCoarser_only_if (ps : List Path) (hps : ∀ p ∈ ps, WF p) (R : Int)
    (h : uncompact (ps.map enc) R = .err .targetCoarser) : R ≤ 29 ∧ ∃ p ∈ ps, res p > R := by
  rewrite [uncompact_closed_form ps hps] at h
  by_cases hR : R ≥ 30
  · rewrite [if_pos hR] at h; cases h
  · rewrite [if_neg hR] at h
    refine ⟨by omega, ?_⟩
    cases hc : countSpec R ps 0 with
    | err e => exact (countSpec_err R ps 0 _ hc).2
    | panic k => rewrite [hc] at h; simp only [Outcome.bind_panic] at h; cases h
    | ok n =>
      rewrite [hc] at h; simp only [Outcome.bind_ok] at h
      by_cases hcap : n * 8 ≥ 2 ^ 63
      · rewrite [if_pos hcap] at h; cases h
      · rewrite [if_neg hcap] at h; cases expand_err R ps _ h

/-- direction "if", what is true in general: with an input finer than the target the result is the error —
or the overflow-checked pre-count has already panicked on the inputs before it. -/
theorem targetCoarser_if_weak (ps : List Path) (hps : ∀ p ∈ ps, WF p) (R : Int) (hR : R ≤ 29)
    (h : ∃ p ∈ ps, res p > R) :
    uncompact (ps.map enc) R = .err .targetCoarser ∨ uncompact (ps.map enc) R = .panic .addOverflow := by
  rewrite [uncompact_closed_form ps hps, if_neg (by omega)]
  rcases (countSpec_coarser R ps 0 h).2 with hc | hc
  · left; rewrite [hc]; rfl
  · right; rewrite [hc]; rfl

/-- **`uncompact_err_iff`, first half, as it really holds**: provided the pre-count of the input list fits 64 bits
(e.g. at most four inputs, each count being below `2^62`), the error "target coarser" is returned iff some input is
finer than the target. -/
theorem targetCoarser_iff (ps : List Path) (hps : ∀ p ∈ ps, WF p) (R : Int) (hR : R ≤ 29)
    (hfit : sumKids R ps < 2 ^ 64) :
    uncompact (ps.map enc) R = .err .targetCoarser ↔ ∃ p ∈ ps, res p > R := by
  refine ⟨fun h => (targetCoarser_only_if ps hps R h).2, fun h => ?_⟩
  rewrite [uncompact_closed_form ps hps, if_neg (by omega), (countSpec_coarser R ps 0 h).1 (by omega)]
  rfl

theorem kids_lt (r R : Int) (h1 : -1 ≤ r) (hR : R ≤ 29) : kids r R < 2 ^ 62 := by
  by_cases h : r ≤ R
  · exact (numChildren_spec r R h1 h hR).2.1
  · have : getNumChildren r R = .ok 0 := by
      unfold getNumChildren; rewrite [if_pos (by omega)]; rfl
    simp only [kids, this]; omega

/-- at most four inputs never overflow the pre-count -/
theorem sumKids_fits (ps : List Path) (R : Int) (hR : R ≤ 29) (hlen : ps.length ≤ 4) : sumKids R ps < 2 ^ 64 := by
  have key : ∀ qs : List Path, sumKids R qs + qs.length ≤ qs.length * 2 ^ 62 := by
    intro qs
    induction qs with
    | nil => simp [sumKids]
    | cons q qs ih =>
      have := kids_lt (res q) R (res_ge q) hR
      simp only [sumKids, List.map_cons, List.sum_cons, List.length_cons] at ih ⊢
      omega
  have := key ps
  have h4 : ps.length * 2 ^ 62 ≤ 4 * 2 ^ 62 := Nat.mul_le_mul_right _ hlen
  omega

/-- The intended unconditional statement … -/
def uncompact_err_iff_statement : Prop :=
  ∀ (ps : List Path) (R : Int), (∀ p ∈ ps, WF p) → R ≤ 29 →
    (uncompact (ps.map enc) R = .err .targetCoarser ↔ ∃ p ∈ ps, res p > R)

/-- … is FALSE for the overflow-checked build (finding): eighteen copies of the world cell followed by a
resolution-29 cell, target 28.  The pre-count adds `get_num_cells(28) ≈ 1.08·10^18` per world cell and overflows
`usize` at the eighteenth, before the loop reaches the offending cell; the model (debug profile) panics instead of
returning the error.  (A release build wraps and does return the error.) -/
theorem uncompact_overflow_witness :
    uncompact ((List.replicate 18 world ++ [deep 0 0 (List.replicate 28 0)]).map enc) 28 = .panic .addOverflow := by
  decide +kernel

theorem uncompact_err_iff_statement_false : ¬ uncompact_err_iff_statement := by
  intro h
  have h1 := (h (List.replicate 18 world ++ [deep 0 0 (List.replicate 28 0)]) 28 (by decide) (by decide)).2
    ⟨deep 0 0 (List.replicate 28 0), by simp, by decide⟩
  rewrite [uncompact_overflow_witness] at h1
  cases h1

/-! ## non-vacuity -/

/-- sample input: a base cell, a resolution-4 cell on another face, and a cell already at the target -/
abbrev sampleInput : List Path := [face 3, deep 7 3 [2, 3, 1], deep 1 0 [0, 1, 2, 3, 0]]

example : ∀ p ∈ sampleInput, WF p ∧ res p ≤ 6 ∧ (6 : Int) - max (res p) 1 ≤ 20 := by decide
example : total 6 sampleInput = 5 * 4 ^ 5 + 4 ^ 2 + 1 := by decide
example : total 6 sampleInput * 8 < 2 ^ 63 := by decide
example : uncompact (sampleInput.map enc) 6 = .ok (sampleInput.flatMap (fun p => (descendantsOrdered p 6).map enc)) :=
  uncompact_spec sampleInput 6 (by decide) (by decide) (by decide)
example : ∃ out, uncompact (sampleInput.map enc) 6 = .ok out ∧ out.length = 5137 :=
  uncompact_length sampleInput 6 (by decide) (by decide) (by decide)
example : uncompact ([deep 7 3 [2, 3, 1]].map enc) 5 =
    .ok [0x9ad2000000000000, 0x9ad6000000000000, 0x9ada000000000000, 0x9ade000000000000] := by decide +kernel
example : uncompact (sampleInput.map enc) 5 = .err .targetCoarser :=
  (targetCoarser_iff sampleInput (by decide) 5 (by decide) (sumKids_fits _ _ (by decide) (by decide))).2
    ⟨deep 1 0 [0, 1, 2, 3, 0], by simp, by decide⟩
example : uncompact (sampleInput.map enc) 30 = .err .exceedsMax :=
  (exceedsMax_iff sampleInput (by decide) 30).2 (by decide)
example : getNumChildren 1 29 = .ok 72057594037927933 ∧ 4 ^ 28 = 72057594037927936 := by decide
example : getNumChildren 28 28 = .ok 1 ∧ getNumChildren 0 28 ≠ .ok 1 := by decide

end A5.C09
